import FiberModel.C14.Trace
import FiberModel.C14.Faults
import FiberModel.C14.Directive
/-
C14 — property theorems (only). Helper lemmas: HeapLemmas.lean, Lemmas.lean, Inv.lean, Trace.lean,
Directive.lean.

Setting. `Reachable cfg g`: `g = run cfg (G.init ts uts reqs) evs` for *any* initial clocks (the cache's
at least 1: `timestamp` starts as `time.Now().Unix()`, see `clock_never_zero`), any list of requests (each
carrying the response its origin handler will produce *and the outcome of every call it makes to an injected
storage*: success, error, or – for the `Get` of an entry – a value that does not decode), and any list of
events `evs` – every interleaving of thread steps at lock / handler boundaries and every advance of the
cache's clock and of the storage's clock.  Standing assumption on the configuration:
`cfg.maxBytes < 2^63` (Go's `uint` is 64 bit; `storedBytes+bodySize` must not wrap).

Storage faults. Theorems without a hypothesis about faults hold for every fault schedule (no panic, no
deadlock, mutual exclusion, `storedBytes` = heap sum ≤ MaxBytes, index and key map of the heap, what a hit
is built from, freshness, no-cache / no-store, what is stored). Where a failed `Storage.Set` /
`Storage.Delete` – which the code ignores – does break the sentence, the theorem carries the hypothesis that
names the region: `g.sh.dirty = []` (no such failure outstanding), `th.taint = false` (none outstanding for
the request's key when it was looked up), or "the `Delete` of this request goes through".
`quiet_runs_stay_clean` shows these hold in every run in which no `Set`/`Delete` fails (failing or garbled
`Get`s allowed). The region with a failed `Set`/`Delete` is the known finding K1 (known/C14.json).
-/
namespace C14
open B
set_option linter.unusedSimpArgs false

def Reachable (cfg : Config) (g : G) : Prop :=
  ∃ (ts uts : Nat) (reqs : List Req) (evs : List Ev), 1 ≤ ts ∧ g = run cfg (G.init ts uts reqs) evs

theorem reachable_inv {cfg : Config} (hmb : cfg.maxBytes < 2 ^ 63) {g : G} (h : Reachable cfg g) : Inv cfg g := by
  rcases h with ⟨ts, uts, reqs, evs, hts, rfl⟩
  exact run_inv hmb evs (init_inv cfg ts uts reqs hts)

theorem reachable_exec {cfg : Config} {g : G} (h : Reachable cfg g) (e : Ev) : Reachable cfg (exec cfg g e) := by
  rcases h with ⟨ts, uts, reqs, evs, hts, rfl⟩
  exact ⟨ts, uts, reqs, evs ++ [e], hts, by simp [run, List.foldl_append]⟩

/-- The reachable domain of the clock. cache.go initialises `timestamp` with `uint64(time.Now().Unix())` and
    only ever stores later readings: it is ≥ 1 in every reachable state (no tick lowers it), so the `uint64`
    subtraction `ts - 1` of the invalidation branch – modelled with its wrap-around at 0 (`applyInv`) –
    never wraps. -/
theorem clock_never_zero {cfg : Config} (hmb : cfg.maxBytes < 2 ^ 63) {g : G} (h : Reachable cfg g) : 1 ≤ g.ts :=
  (reachable_inv hmb h).clock

/-- reachable in a run in which no `Storage.Set` / `Storage.Delete` (nor `Get` of a body) fails – `Get`s of
    entries may fail or deliver garbage at will. Every history without storage faults (the property's own
    quantifier) is of this kind. Theorems stated for `ReachableQ` are the full-strength sentence; their
    `…_partial` twins hold for every fault schedule outside the region of known finding K1. -/
def ReachableQ (cfg : Config) (g : G) : Prop :=
  ∃ (ts uts : Nat) (reqs : List Req) (evs : List Ev), 1 ≤ ts ∧ (∀ q ∈ reqs, q.quiet) ∧ g = run cfg (G.init ts uts reqs) evs

theorem ReachableQ.reachable {cfg : Config} {g : G} (h : ReachableQ cfg g) : Reachable cfg g := by
  rcases h with ⟨ts, uts, reqs, evs, hts, _, rfl⟩
  exact ⟨ts, uts, reqs, evs, hts, rfl⟩

theorem ReachableQ.quietOK {cfg : Config} {g : G} (h : ReachableQ cfg g) : QuietOK g := by
  rcases h with ⟨ts, uts, reqs, evs, _, hq, rfl⟩
  exact run_quiet evs (init_quiet ts uts reqs hq)

theorem ReachableQ.exec {cfg : Config} {g : G} (h : ReachableQ cfg g) (e : Ev) : ReachableQ cfg (exec cfg g e) := by
  rcases h with ⟨ts, uts, reqs, evs, hts, hq, rfl⟩
  exact ⟨ts, uts, reqs, evs ++ [e], hts, hq, by simp [run, List.foldl_append]⟩

/-! ## concrete reachable states used by the non-vacuity examples below -/

def exCfg : Config :=
  { ext := true, stTTL := true, maxBytes := 5, expiration := 2, storeHeaders := true, cacheControl := false, methods := [] }
def exReqS (status : Nat) (key body : Bytes) (inv : Bool) (cc : Bytes) : Req :=
  { method := b "GET", keyMat := key, cc := cc, inv := inv, skip := false, expGen := none,
    resp := ⟨status, body, b "text/plain", [], [(b "X-A", b "1"), (b "Keep-Alive", b "5")]⟩ }
def exReq (key body : Bytes) (inv : Bool) (cc : Bytes) : Req := exReqS 200 key body inv cc
def steps (t n : Nat) : List Ev := List.replicate n (.step t)
theorem exCfg_mb : exCfg.maxBytes < 2 ^ 63 := by decide

/-- sequential: miss, hit (transparent, stored headers without the ignored one), then expiry → miss -/
def exSeq : G := run exCfg (G.init 100 100 [exReq [47, 97] [65, 66] false [], exReq [47, 97] [67] false [], exReq [47, 97] [68] false []])
  (steps 0 8 ++ [.tickTs 1, .tickUts 1] ++ steps 1 8 ++ [.tickTs 1] ++ steps 2 8)
theorem exSeq_reach : Reachable exCfg exSeq := ⟨_, _, _, _, by decide, rfl⟩
example : (exSeq.threads.map fun th => th.out.map fun o => (o.xcache, o.body, o.headers.length)) =
    [some (.miss, [65, 66], 2), some (.hit, [65, 66], 1), some (.miss, [68], 2)] := by decide
example : exSeq.sh.stored = 1 ∧ exSeq.sh.heap.live.length = 1 := by decide

/-- interleaved: both requests miss (A: lookup, B: lookup, A: store, B: store), the second store finds a
    full cache and evicts; a third request with the invalidator firing deletes the entry; a fourth,
    `No-Cache`, request is not served from the cache -/
def exConc : G := run exCfg (G.init 100 100 [exReq [47, 97] [65, 66, 67] false [], exReq [47, 97] [68, 69, 70] false [],
    exReq [47, 97] [71] true [], exReq [47, 97] [72] false (b "No-Cache")])
  (steps 0 3 ++ steps 1 3 ++ steps 0 5 ++ steps 1 5 ++ steps 2 8 ++ steps 3 8)
theorem exConc_reach : Reachable exCfg exConc := ⟨_, _, _, _, by decide, rfl⟩
set_option maxRecDepth 20000 in
example : (exConc.threads.map fun th => th.out.map fun o => (o.xcache, o.body)) =
    [some (.miss, [65, 66, 67]), some (.miss, [68, 69, 70]), some (.miss, [71]), some (.miss, [72])] := by decide

/-- thread 0 is inside the first critical section, thread 1 waits for the mutex -/
def exWait : G := run exCfg (G.init 100 100 [exReq [47, 97] [65] false [], exReq [47, 97] [66] false []]) (steps 0 2 ++ steps 1 1)
theorem exWait_reach : Reachable exCfg exWait := ⟨_, _, _, _, by decide, rfl⟩
/-- a thread waiting for the mutex is disabled while another one is inside the section -/
example : (step exCfg exWait 1).isSome = false := by decide

/-- `/a` is cached; request 1, for which the invalidator fires, stands inside the first critical section -/
def exInv : G := run exCfg (G.init 100 100 [exReq [47, 97] [65, 66] false [], exReq [47, 97] [67] true [],
    exReqS 500 [47, 97] [68] false []]) (steps 0 8 ++ steps 1 2)
theorem exInv_reach : Reachable exCfg exInv := ⟨_, _, _, _, by decide, rfl⟩

/-! ## 1. heap_index_consistent -/

/-- the operations cache.go performs on the heap -/
inductive HeapOp where
  | put (key : Key) (exp bytes : Nat)
  | remove (idx : Nat) (key : Key)
  | removeFirst
  | removeKey (key : Key)
deriving Repr

def HeapOp.apply (h : Heap) : HeapOp → Option Heap
  | .put k e b => (h.put k e b).map (·.1)
  | .remove i k => (h.remove i k).map (·.1)
  | .removeFirst => h.removeFirst.map (·.1)
  | .removeKey k => (h.removeKey k).map (·.1)

theorem removeKey_hinv {h h' : Heap} (hi : HInv h) {k : Key} {r : Option Nat} (hs : h.removeKey k = some (h', r)) : HInv h' := by
  unfold Heap.removeKey at hs
  split at hs
  · cases hs; exact hi
  · rename_i idx _
    rcases remove_ok hi idx k with ⟨_, _, _, h2, hr, hinv, _⟩ | ⟨_, hr⟩
    · rw [hr] at hs; cases hs; exact hinv
    · rw [hr] at hs; cases hs; exact hi

def applyOps (h : Heap) : List HeapOp → Option Heap
  | [] => some h
  | op :: rest => match op.apply h with
    | none => none
    | some h' => applyOps h' rest

/-- `indices[entries[i].idx] = i` for all live `i`, live indices distinct, the parked ones valid and
    unused: the invariant holds initially and is preserved by `put`, `remove`, `removeFirst`. -/
theorem heap_index_consistent_step {h h' : Heap} (hi : HInv h) (op : HeapOp) (hs : op.apply h = some h') : HInv h' := by
  cases op with
  | put k e b =>
    rcases put_ok hi k e b with ⟨h2, idx, hp, hinv, _⟩
    simp [HeapOp.apply, hp] at hs; subst hs; exact hinv
  | remove i k =>
    rcases remove_ok hi i k with ⟨_, _, _, h2, hr, hinv, _⟩ | ⟨_, hr⟩
    · simp [HeapOp.apply, hr] at hs; subst hs; exact hinv
    · simp [HeapOp.apply, hr] at hs; subst hs; exact hi
  | removeFirst =>
    by_cases hne : h.live = []
    · simp [HeapOp.apply, Heap.removeFirst, Heap.removeInternal, Heap.removeAt, hne] at hs
    · rcases removeFirst_ok hi hne with ⟨h2, x, hr, _, hinv, _⟩
      simp [HeapOp.apply, hr] at hs; subst hs; exact hinv
  | removeKey k =>
    cases hr : h.removeKey k with
    | none => simp [HeapOp.apply, hr] at hs
    | some r => simp [HeapOp.apply, hr] at hs; subst hs; exact removeKey_hinv hi hr

/-- for all operation sequences -/
theorem heap_index_consistent (ops : List HeapOp) {h' : Heap} (hs : applyOps Heap.empty ops = some h') : HInv h' := by
  have gen : ∀ (ops : List HeapOp) (h : Heap), HInv h → applyOps h ops = some h' → HInv h' := by
    intro ops
    induction ops with
    | nil => intro h hi hs; simp [applyOps] at hs; subst hs; exact hi
    | cons op rest ih =>
      intro h hi hs
      simp only [applyOps] at hs
      cases ho : op.apply h with
      | none => rw [ho] at hs; cases hs
      | some h1 => rw [ho] at hs; exact ih h1 (heap_index_consistent_step hi op ho) hs
  exact gen ops _ HInv_empty hs

/-- in the property's own words -/
theorem heap_indices_point_back {h : Heap} (hi : HInv h) (i : Nat) (hlt : i < h.live.length) :
    h.indices[(h.live[i]).idx]? = some i :=
  hi.live_ok i _ (List.getElem?_eq_getElem hlt)

theorem heap_live_idx_distinct {h : Heap} (hi : HInv h) (i j : Nat) (hil : i < h.live.length) (hjl : j < h.live.length)
    (heq : (h.live[i]).idx = (h.live[j]).idx) : i = j := by
  have h1 := heap_indices_point_back hi i hil
  have h2 := heap_indices_point_back hi j hjl
  rw [heq, h2] at h1
  exact (Option.some.inj h1).symm

/-- on a consistent heap the only operation that can panic is `removeFirst` on an empty heap -/
theorem heap_ops_total {h : Heap} (hi : HInv h) (op : HeapOp) :
    (op.apply h).isSome = true ∨ (op = .removeFirst ∧ h.live = []) := by
  cases op with
  | put k e b => rcases put_ok hi k e b with ⟨h2, idx, hp, _⟩; left; simp [HeapOp.apply, hp]
  | remove i k =>
    rcases remove_ok hi i k with ⟨_, _, _, h2, hr, _⟩ | ⟨_, hr⟩ <;> (left; simp [HeapOp.apply, hr])
  | removeFirst =>
    by_cases hne : h.live = []
    · right; exact ⟨rfl, hne⟩
    · rcases removeFirst_ok hi hne with ⟨h2, x, hr, _⟩; left; simp [HeapOp.apply, hr]
  | removeKey k =>
    left
    show ((h.removeKey k).map (·.1)).isSome = true
    unfold Heap.removeKey
    cases hl : klookup h.keys k with
    | none => rfl
    | some idx =>
      rcases remove_ok hi idx k with ⟨_, _, _, h2, hr, _⟩ | ⟨_, hr⟩ <;> simp [hr]

/-- cache.go only ever `put`s a key right after `removeKey` of that key (second critical section) -/
def HeapOp.disciplined (h : Heap) : HeapOp → Bool
  | .put k _ _ => (klookup h.keys k).isNone
  | _ => true

/-- heap.go's key map stays in step with the entries: `keys[k] = idx` exactly when the entry tracked by `idx`
    is live and belongs to `k` – preserved by `removeKey`, `remove`, `removeFirst`, and by `put` of a key
    that is not tracked. -/
theorem heap_keys_consistent_step {h h' : Heap} (hi : HInv h) (hk : KInv h) (op : HeapOp)
    (hd : op.disciplined h = true) (hs : op.apply h = some h') : KInv h' := by
  cases op with
  | put k e b =>
    rcases put_ok hi k e b with ⟨h2, idx, hp, _, hfresh, hfind, _, _, hkeys⟩
    simp [HeapOp.apply, hp] at hs; subst hs
    have hnk : klookup h.keys k = none := by simpa [HeapOp.disciplined] using hd
    exact kinv_put hk hfresh hnk hfind hkeys
  | remove i k =>
    rcases remove_ok hi i k with ⟨e, hfe, _, h2, hr, _, _, hfind, _, _, hkeys⟩ | ⟨_, hr⟩
    · simp [HeapOp.apply, hr] at hs; subst hs
      have hei := find_idx hfe
      exact kinv_remove hk (by rw [hei]; exact hfe) (by rw [hei]; exact hfind) hkeys
    · simp [HeapOp.apply, hr] at hs; subst hs; exact hk
  | removeFirst =>
    by_cases hne : h.live = []
    · simp [HeapOp.apply, Heap.removeFirst, Heap.removeInternal, Heap.removeAt, hne] at hs
    · rcases removeFirst_ok hi hne with ⟨h2, x, hr, hxm, _, _, hfind, _, _, hkeys⟩
      simp [HeapOp.apply, hr] at hs; subst hs
      rcases List.mem_iff_getElem?.mp hxm with ⟨p, hp⟩
      exact kinv_remove hk (live_find hi hp) hfind hkeys
  | removeKey k =>
    rcases removeKey_ok hi hk k with ⟨_, hr⟩ | ⟨e, _, _, h2, hr, _, hk2, _⟩
    · simp [HeapOp.apply, hr] at hs; subst hs; exact hk
    · simp [HeapOp.apply, hr] at hs; subst hs; exact hk2

/-- disciplined operation sequences: every `put` hits an untracked key -/
def applyOpsD (h : Heap) : List HeapOp → Option Heap
  | [] => some h
  | op :: rest => if op.disciplined h then
      match op.apply h with
      | none => none
      | some h' => applyOpsD h' rest
    else none

theorem heap_keys_consistent (ops : List HeapOp) {h' : Heap} (hs : applyOpsD Heap.empty ops = some h') :
    HInv h' ∧ KInv h' := by
  have gen : ∀ (ops : List HeapOp) (h : Heap), HInv h → KInv h → applyOpsD h ops = some h' → HInv h' ∧ KInv h' := by
    intro ops
    induction ops with
    | nil => intro h hi hk hs; simp [applyOpsD] at hs; subst hs; exact ⟨hi, hk⟩
    | cons op rest ih =>
      intro h hi hk hs
      simp only [applyOpsD] at hs
      by_cases hd : op.disciplined h = true
      · rw [if_pos hd] at hs
        cases ho : op.apply h with
        | none => rw [ho] at hs; cases hs
        | some h1 =>
          rw [ho] at hs
          exact ih h1 (heap_index_consistent_step hi op ho) (heap_keys_consistent_step hi hk op hd ho) hs
      · rw [if_neg hd] at hs; cases hs
  exact gen ops _ HInv_empty KInv_empty hs

/-- in the property's own words: a key is tracked by at most one live entry -/
theorem heap_key_unique {h : Heap} (hi : HInv h) (hk : KInv h) (i j : Nat) (hil : i < h.live.length) (hjl : j < h.live.length)
    (heq : (h.live[i]).key = (h.live[j]).key) : i = j := by
  have h1 : h.live[i]? = some h.live[i] := List.getElem?_eq_getElem hil
  have h2 : h.live[j]? = some h.live[j] := List.getElem?_eq_getElem hjl
  have k1 := live_klookup hi hk h1
  have k2 := live_klookup hi hk h2
  rw [heq, k2] at k1
  injection k1 with k1
  exact heap_live_idx_distinct hi i j hil hjl k1.symm

-- non-vacuity: replace the entry of a key (removeKey, put), evict, re-use the parked index
example : (applyOpsD Heap.empty [.removeKey [1], .put [1] 5 3, .removeKey [2], .put [2] 4 1, .removeKey [1], .put [1] 9 2,
    .removeFirst, .removeKey [3], .put [3] 1 7]).isSome = true := by decide
-- a `put` of a tracked key without `removeKey` first is what the discipline excludes: two entries, one key
example : (applyOps Heap.empty [.put [1] 5 3, .put [1] 6 3]).map (fun h => (h.live.map (·.key), h.keys)) =
    some ([[1], [1]], [([1], 1)]) := by decide

-- non-vacuity: a sequence that re-uses an index left behind by Pop and removes from the middle
example : (applyOps Heap.empty [.put [1] 5 3, .put [2] 4 1, .put [3] 9 2, .removeFirst, .put [4] 1 7, .remove 0 [1]]).isSome = true := by
  decide
-- why heap.go `remove` had to be repaired: removing the same (stale) index twice panics
example : (do let (h1, i) ← Heap.empty.put [1] 5 3; let (h2, _) ← h1.removeUnchecked i; h2.removeUnchecked i) = none := by
  decide
-- … and once the index has been handed out again, the stale removal drops the entry of another key
example : (do let (h1, i) ← Heap.empty.put [1] 5 3; let (h2, _) ← h1.put [2] 6 4; let (h3, _) ← h2.removeUnchecked i
              let (h4, _) ← h3.put [3] 7 2; let (_, x) ← h4.removeUnchecked i; pure x.key) = some [3] := by
  decide
-- the repaired `remove` refuses both
example : (do let (h1, i) ← Heap.empty.put [1] 5 3; let (h2, _) ← h1.remove i [1]; let (_, r) ← h2.remove i [1]; pure r) = some none := by
  decide
example : (do let (h1, i) ← Heap.empty.put [1] 5 3; let (h2, _) ← h1.put [2] 6 4; let (h3, _) ← h2.remove i [1]
              let (h4, _) ← h3.put [3] 7 2; let (_, r) ← h4.remove i [1]; pure r) = some none := by
  decide

/-! ## 2. bytes_accounted -/

/-- `storedBytes` = Σ bytes of the live heap entries, and ≤ MaxBytes when a limit is set – in every
    reachable state of every schedule. -/
theorem bytes_accounted {cfg : Config} (hmb : cfg.maxBytes < 2 ^ 63) {g : G} (h : Reachable cfg g) :
    Accounted cfg g.sh :=
  let hi := (reachable_inv hmb h).sh
  ⟨hi.acc, hi.bound⟩

example : Accounted exCfg exConc.sh := bytes_accounted exCfg_mb exConc_reach
/-- … and that is exactly the sum of the body sizes of what the cache has stored and neither deleted nor
    replaced: a key is tracked by one heap entry, every heap entry tracks a stored key – as long as no failed
    `Storage.Set` / `Storage.Delete` is outstanding. (Before the repair `fix: cache: a key is tracked by one
    expiry-heap entry` a key stored again – refresh by a `no-cache` request, two requests that both missed, an
    entry the storage expired by itself – was counted twice until the stale entry was evicted, and evicting it
    deleted the fresh response: known/C14.json F4.) -/
theorem stored_bytes_exact_partial {cfg : Config} (hmb : cfg.maxBytes < 2 ^ 63) (hpos : cfg.maxBytes > 0) {g : G}
    (h : Reachable cfg g) (hd : g.sh.dirty = []) : g.sh.stored = totalBody g.sh.store :=
  stored_eq_total_of (reachable_inv hmb h).sh hpos hd

/-- what the storage physically holds at its clock value `uts` (the `key_body` values of an injected storage,
    the items of internal/memory) is that minus what it has let lapse by itself (TTL):
    `held + lapsed = storedBytes`; in particular `held = storedBytes` whenever nothing has lapsed. -/
theorem held_plus_lapsed_eq_stored_partial {cfg : Config} (hmb : cfg.maxBytes < 2 ^ 63) (hpos : cfg.maxBytes > 0) {g : G}
    (h : Reachable cfg g) (hd : g.sh.dirty = []) (uts : Nat) :
    physHeld cfg g.sh uts + g.sh.store.lapsed uts = g.sh.stored := by
  rw [stored_bytes_exact_partial hmb hpos h hd, physHeld_eq (reachable_inv hmb h).sh hd]; exact held_add_lapsed _ _

theorem held_eq_stored_when_nothing_lapsed_partial {cfg : Config} (hmb : cfg.maxBytes < 2 ^ 63) (hpos : cfg.maxBytes > 0) {g : G}
    (h : Reachable cfg g) (hd : g.sh.dirty = []) (uts : Nat) (hl : ∀ p ∈ g.sh.store, p.2.expired uts = false) :
    physHeld cfg g.sh uts = g.sh.stored := by
  have := held_plus_lapsed_eq_stored_partial hmb hpos h hd uts
  have h0 : g.sh.store.lapsed uts = 0 := by
    unfold Store.lapsed
    rw [List.filter_eq_nil_iff.mpr (by intro p hp; simp [hl p hp])]; rfl
  omega

/-- every live heap entry tracks a key the storage was given; the key map mirrors the entries (any faults) -/
theorem heap_entries_cover_store_partial {cfg : Config} (hmb : cfg.maxBytes < 2 ^ 63) {g : G} (h : Reachable cfg g) :
    (g.sh.dirty = [] → Covered g.sh) ∧ KInv g.sh.heap :=
  ⟨(reachable_inv hmb h).sh.covered, (reachable_inv hmb h).sh.kinv⟩

/-- entry and separately stored body of a key belong together unless a `Set`/`Delete` of that key failed -/
theorem entry_and_body_in_step_partial {cfg : Config} (hmb : cfg.maxBytes < 2 ^ 63) {g : G} (h : Reachable cfg g)
    (k : Key) (hk : k ∉ g.sh.dirty) :
    g.sh.bodies.lookup k = (g.sh.store.lookup k).map fun sl => ⟨sl.item.body, sl.sexp⟩ :=
  ((reachable_inv hmb h).sh.clean k hk (fun x => x)).2.2

-- the two concurrent misses of `/a` (3 bytes each, MaxBytes 5): the second store replaces the first, one entry
set_option maxRecDepth 20000 in
example : (run exCfg (G.init 100 100 [exReq [47, 97] [65, 66, 67] false [], exReq [47, 97] [68, 69, 70] false []])
    (steps 0 3 ++ steps 1 3 ++ steps 0 5 ++ steps 1 5)).sh.stored = 3 := by decide
set_option maxRecDepth 20000 in
example : exSeq.sh.stored = totalBody exSeq.sh.store ∧ exSeq.sh.bodies.held 102 = 1 :=
  ⟨stored_bytes_exact_partial exCfg_mb (by decide) exSeq_reach (by decide), by decide⟩

/-- "The bytes held never exceed MaxBytes": the body sizes the storage holds (whatever the storage's
    clock says about their expiry) sum to at most `storedBytes`, hence to at most MaxBytes – as long as no
    failed `Set`/`Delete` is outstanding (K1: a body the storage refused to delete stays, uncounted). -/
theorem held_never_exceeds_maxbytes_partial {cfg : Config} (hmb : cfg.maxBytes < 2 ^ 63) (hpos : cfg.maxBytes > 0) {g : G}
    (h : Reachable cfg g) (hd : g.sh.dirty = []) (uts : Nat) :
    physHeld cfg g.sh uts ≤ g.sh.stored ∧ physHeld cfg g.sh uts ≤ cfg.maxBytes := by
  have hi := (reachable_inv hmb h).sh
  have h1 := held_le_stored_of hi hpos hd uts
  have h2 := hi.bound hpos
  exact ⟨h1, by omega⟩

set_option maxRecDepth 20000 in
example : physHeld exCfg exConc.sh 100 ≤ exConc.sh.stored ∧ physHeld exCfg exConc.sh 100 ≤ exCfg.maxBytes :=
  held_never_exceeds_maxbytes_partial exCfg_mb (by decide) exConc_reach (by decide) 100

/-- every stored response is tracked by a live heap entry of its key and size (MaxBytes > 0) -/
theorem stored_items_tracked_partial {cfg : Config} (hmb : cfg.maxBytes < 2 ^ 63) (hpos : cfg.maxBytes > 0) {g : G}
    (h : Reachable cfg g) (hd : g.sh.dirty = []) : Tracked g.sh :=
  (reachable_inv hmb h).sh.tracked hpos hd

set_option maxRecDepth 20000 in
example : Tracked exConc.sh := stored_items_tracked_partial exCfg_mb (by decide) exConc_reach (by decide)
set_option maxRecDepth 20000 in
example : exConc.sh.store ≠ [] := by decide

/-- without a limit the heap is never touched -/
theorem heap_unused_without_limit {cfg : Config} (hmb : cfg.maxBytes < 2 ^ 63) (h0 : cfg.maxBytes = 0) {g : G}
    (h : Reachable cfg g) : g.sh.heap = Heap.empty :=
  (reachable_inv hmb h).sh.unused h0

example : (run { exCfg with maxBytes := 0 } (G.init 100 100 [exReq [47, 97] [65, 66] false []]) (steps 0 8)).sh.heap = Heap.empty :=
  heap_unused_without_limit (by decide) rfl ⟨_, _, _, _, by decide, rfl⟩

/-! ## 3. no_panic_any_schedule, no_deadlock -/

theorem no_panic_any_schedule {cfg : Config} (hmb : cfg.maxBytes < 2 ^ 63) {g : G} (h : Reachable cfg g)
    (t : Nat) (th : Thread) (ht : g.threads[t]? = some th) : th.pc ≠ .panicked := by
  intro hp
  have := (reachable_inv hmb h).th t th ht
  simp [ThOK, hp] at this

set_option maxRecDepth 20000 in
example : (exConc.threads[1]?.getD default).pc ≠ .panicked :=
  no_panic_any_schedule exCfg_mb exConc_reach 1 _ (getElem?_getD_default (by decide))

/-- `mux` is a mutex: at most one request is inside a critical section (the only places where the
    storage, the heap and `storedBytes` are read or written), and it is the recorded holder. -/
theorem mutual_exclusion {cfg : Config} (hmb : cfg.maxBytes < 2 ^ 63) {g : G} (h : Reachable cfg g)
    (t u : Nat) (th thu : Thread) (ht : g.threads[t]? = some th) (hu : g.threads[u]? = some thu)
    (hpt : th.pc = .sec1 ∨ th.pc = .sec2) (hpu : thu.pc = .sec1 ∨ thu.pc = .sec2) : t = u ∧ g.mux = some t := by
  have hm := (reachable_inv hmb h).mux.1
  have h1 := hm t th ht hpt
  have h2 := hm u thu hu hpu
  rw [h1] at h2
  exact ⟨Option.some.inj h2, h1⟩

example : exWait.mux = some 0 :=
  (mutual_exclusion exCfg_mb exWait_reach 0 0 _ _ (getElem?_getD_default (by decide)) (getElem?_getD_default (by decide))
    (by decide) (by decide)).2

/-- whenever some request is unfinished, some thread can take a step -/
theorem no_deadlock {cfg : Config} (hmb : cfg.maxBytes < 2 ^ 63) {g : G} (h : Reachable cfg g)
    (t : Nat) (th : Thread) (ht : g.threads[t]? = some th) (hnd : th.pc ≠ .done) :
    ∃ u, (step cfg g u).isSome = true := by
  have hi := reachable_inv hmb h
  cases hm : g.mux with
  | some u =>
    rcases hi.mux.2 u hm with ⟨thu, hu, hpc⟩
    refine ⟨u, ?_⟩
    unfold step
    rw [hu]
    rcases hpc with hpc | hpc
    · simp only [hpc]
      cases sec1 cfg g.sh g.ts g.uts thu.req (mkKey thu.req) <;> rfl
    · simp only [hpc]
      cases sec2 cfg g.sh thu.ts g.uts thu.req (mkKey thu.req) <;> rfl
  | none =>
    refine ⟨t, ?_⟩
    have hok := hi.th t th ht
    unfold step
    rw [ht]
    cases hpc : th.pc with
    | start =>
      simp only [hpc]
      by_cases h1 : cfg.disabled = true
      · rw [if_pos h1]; rfl
      · rw [if_neg h1]
        by_cases h2 : hasDirective th.req.cc Facts.noStore = true
        · rw [if_pos h2]; rfl
        · rw [if_neg h2]
          by_cases h3 : (!cfg.effMethods.contains th.req.method) = true
          · rw [if_pos h3]; rfl
          · rw [if_neg h3]; rfl
    | bypass x => simp only [hpc]; rfl
    | wantLock1 => simp only [hpc, hm]; rfl
    | sec1 => have := hi.mux.1 t th ht (Or.inl hpc); rw [hm] at this; cases this
    | next => simp only [hpc]; split <;> rfl
    | afterNext => simp only [hpc]; split <;> rfl
    | wantLock2 => simp only [hpc, hm]; rfl
    | sec2 => have := hi.mux.1 t th ht (Or.inr hpc); rw [hm] at this; cases this
    | done => exact absurd hpc hnd
    | panicked => simp [ThOK, hpc] at hok

-- thread 1 is blocked on the mutex; the theorem yields a thread that can move (the holder)
example : ∃ u, (step exCfg exWait u).isSome = true :=
  no_deadlock exCfg_mb exWait_reach 1 _ (getElem?_getD_default (by decide)) (by decide)

/-- No deadlock, no livelock: `g.remaining` (≤ 7 per request) strictly decreases with every step any
    request takes; while it is positive some request can take a step; when it is 0 every request has
    been answered. Hence every schedule that keeps running enabled requests ends, after at most
    7 × #requests steps, with all requests answered. -/
theorem every_schedule_finishes {cfg : Config} (hmb : cfg.maxBytes < 2 ^ 63) {g : G} (h : Reachable cfg g) :
    (∀ t g', step cfg g t = some g' → g'.remaining < g.remaining) ∧
    (0 < g.remaining → ∃ u g', step cfg g u = some g') ∧
    (g.remaining = 0 → ∀ (t : Nat) (th : Thread), g.threads[t]? = some th → th.pc = .done ∧ th.out ≠ none) := by
  refine ⟨fun t g' hs => step_remaining hs, ?_, ?_⟩
  · intro hpos
    rcases exists_pos_of_sum_pos (fun th : Thread => th.pc.rem) g.threads hpos with ⟨t, th, ht, hrem⟩
    have hnd : th.pc ≠ .done := by intro hd; simp [hd, Pc.rem] at hrem
    rcases no_deadlock hmb h t th ht hnd with ⟨u, hu⟩
    cases hs : step cfg g u with
    | none => rw [hs] at hu; cases hu
    | some g' => exact ⟨u, g', hs⟩
  · intro h0 t th ht
    have hz := sum_zero_of_all (fun th : Thread => th.pc.rem) g.threads h0 t th ht
    have hok := (reachable_inv hmb h).th t th ht
    unfold ThOK at hok
    cases hpc : th.pc <;> simp only [hpc, Pc.rem] at hz hok <;> try omega
    rcases hok with ⟨o, ho, _⟩
    exact ⟨rfl, by rw [ho]; simp⟩

example : 0 < exWait.remaining ∧ exConc.remaining = 0 := by decide

/-! ## 4. hit_is_transparent, never_after_expiry_or_invalidation, no_cache_bypasses_hit -/

/-- everything a hit guarantees, in one statement – under every fault schedule: the storage delivered the
    entry (its `Get` neither failed nor returned garbage) and the body (`Get` did not fail); the metadata
    replayed are those of ONE finished request that stored under the same key; the body is that request's
    unless a `Set`/`Delete` of the key had failed (`taint`) -/
theorem hit_justified {cfg : Config} (hmb : cfg.maxBytes < 2 ^ 63) {g : G} (h : Reachable cfg g)
    (t : Nat) (th : Thread) (o : Out) (ht : g.threads[t]? = some th) (ho : th.out = some o) (hx : o.xcache = .hit) :
    th.ran = false ∧ Admitted cfg th.req ∧ th.req.inv = false ∧ hasDirective th.req.cc Facts.noCache = false ∧
    (cfg.ext = true → (faultAt th.req.f1 0).noEntry = false ∧ (faultAt th.req.f1 1).fails = false) ∧
    ∃ (u : Nat) (thu : Thread) (idx : Nat) (body : Bytes), g.threads[u]? = some thu ∧ StoredBy cfg thu ∧
      mkKey thu.req = mkKey th.req ∧
      o = replay cfg { mkItem cfg thu.req thu.ts idx with body := body } th.ts ∧ th.ts < thu.ts + expSecs cfg thu.req ∧
      (th.taint = false → body = thu.req.resp.body) := by
  have hok := (reachable_inv hmb h).th t th ht
  unfold ThOK at hok
  have hsome : th.out ≠ none := by rw [ho]; simp
  cases hpc : th.pc <;> simp only [hpc] at hok
  · exact absurd hok.1 hsome
  · exact absurd hok.1 hsome
  · exact absurd hok.1 hsome
  · exact absurd hok.1 hsome
  · exact absurd hok.1 hsome
  · exact absurd hok.1 hsome
  · exact absurd hok.1 hsome
  · exact absurd hok.1 hsome
  · rcases hok with ⟨o', ho', hd⟩
    rw [ho] at ho'; cases ho'
    rcases hd with ⟨_, a, b', c, d, e, f⟩ | ⟨hd, _⟩ | ⟨hd, _⟩ | ⟨hd, _⟩
    · exact ⟨a, b', c, d, e, f⟩
    · rw [hd] at hx; simp [passThrough] at hx
    · rw [hd] at hx; simp [passThrough] at hx
    · rw [hd] at hx; simp [passThrough] at hx

/-- A response served from the cache is identical in status, body, content type, encoding and stored
    headers to what the origin handler produced, in a finished request `u` that stored it under the
    same cache key (`KeyGenerator` result + method). The origin handler is not invoked.
    (`taint = false`: no `Storage.Set`/`Delete` of this key had failed when the request was looked up – always
    so when no such call fails, `quiet_runs_stay_clean`; otherwise K1.) -/
theorem hit_is_transparent_partial {cfg : Config} (hmb : cfg.maxBytes < 2 ^ 63) {g : G} (h : Reachable cfg g)
    (t : Nat) (th : Thread) (o : Out) (ht : g.threads[t]? = some th) (ho : th.out = some o) (hx : o.xcache = .hit)
    (htaint : th.taint = false) :
    th.ran = false ∧
    ∃ (u : Nat) (thu : Thread), g.threads[u]? = some thu ∧ thu.pc = .done ∧ thu.ran = true ∧
      thu.out = some (passThrough .miss thu.req.resp) ∧ mkKey thu.req = mkKey th.req ∧
      o.status = thu.req.resp.status ∧ o.body = thu.req.resp.body ∧ o.ctype = effCType thu.req.resp.ctype ∧
      o.cenc = thu.req.resp.cenc ∧
      o.headers = (if cfg.cacheControl then
          setHdr (storedHeaders cfg thu.req.resp) (b "Cache-Control")
            (b "public, max-age=" ++ natToDec (thu.ts + expSecs cfg thu.req - th.ts))
        else storedHeaders cfg thu.req.resp) := by
  rcases hit_justified hmb h t th o ht ho hx with ⟨hran, _, _, _, _, u, thu, idx, body, hu, hst, hkey, hrep, _, hbody⟩
  refine ⟨hran, u, thu, hu, hst.1, hst.2.2.1, hst.2.1, hkey, ?_⟩
  subst hrep
  rw [hbody htaint]
  simp only [replay, mkItem, effCType_idem]
  refine ⟨trivial, trivial, trivial, trivial, ?_⟩
  by_cases hc : cfg.cacheControl = true <;> simp [hc]

/-- … and whatever the storage did: status, content type, encoding and stored headers of a hit are those of one
    finished request that stored under the same key (only the body can be another one's, K1) -/
theorem hit_metadata_transparent {cfg : Config} (hmb : cfg.maxBytes < 2 ^ 63) {g : G} (h : Reachable cfg g)
    (t : Nat) (th : Thread) (o : Out) (ht : g.threads[t]? = some th) (ho : th.out = some o) (hx : o.xcache = .hit) :
    th.ran = false ∧
    ∃ (u : Nat) (thu : Thread), g.threads[u]? = some thu ∧ thu.pc = .done ∧ thu.ran = true ∧
      thu.out = some (passThrough .miss thu.req.resp) ∧ mkKey thu.req = mkKey th.req ∧
      o.status = thu.req.resp.status ∧ o.ctype = effCType thu.req.resp.ctype ∧ o.cenc = thu.req.resp.cenc ∧
      o.headers = (if cfg.cacheControl then
          setHdr (storedHeaders cfg thu.req.resp) (b "Cache-Control")
            (b "public, max-age=" ++ natToDec (thu.ts + expSecs cfg thu.req - th.ts))
        else storedHeaders cfg thu.req.resp) := by
  rcases hit_justified hmb h t th o ht ho hx with ⟨hran, _, _, _, _, u, thu, idx, body, hu, hst, hkey, hrep, _, _⟩
  refine ⟨hran, u, thu, hu, hst.1, hst.2.2.1, hst.2.1, hkey, ?_⟩
  subst hrep
  simp only [replay, mkItem, effCType_idem]
  refine ⟨trivial, trivial, trivial, ?_⟩
  by_cases hc : cfg.cacheControl = true <;> simp [hc]

/-- a request whose `Get` of the entry failed or returned a value that does not decode, or whose `Get` of
    the body failed, is never answered from the cache (injected storage) -/
theorem failed_get_never_hit {cfg : Config} (hmb : cfg.maxBytes < 2 ^ 63) {g : G} (h : Reachable cfg g)
    (t : Nat) (th : Thread) (o : Out) (ht : g.threads[t]? = some th) (ho : th.out = some o) (hext : cfg.ext = true)
    (hf : (faultAt th.req.f1 0).noEntry = true ∨ (faultAt th.req.f1 1).fails = true) : o.xcache ≠ .hit := by
  intro hx
  have := (hit_justified hmb h t th o ht ho hx).2.2.2.2.1 hext
  rcases hf with hf | hf
  · rw [this.1] at hf; cases hf
  · rw [this.2] at hf; cases hf

-- the second request of `exSeq` is a hit; the theorems apply to it
example :=
  hit_is_transparent_partial exCfg_mb exSeq_reach 1 _ _ (getElem?_getD_default (by decide)) (some_getD_default (by decide)) (by decide)
    (by decide)
-- the same history with the entry `Get` of request 1 failing / delivering garbage, or its body `Get` failing: no hit
example : ((run exCfg (G.init 100 100 [exReq [47, 97] [65, 66] false [], { exReq [47, 97] [67] false [] with f1 := [.garbled] },
    { exReq [47, 97] [68] false [] with f1 := [.ok, .err] }]) (steps 0 8 ++ steps 1 8 ++ steps 2 8)).threads.map
      fun th => th.out.map (·.xcache)) = [some .miss, some .miss, some .miss] := by decide

/-- the cache key separates methods: with configured methods free of `_`, equal keys mean equal
    method and equal `KeyGenerator` result ("for the same method and key") -/
theorem key_separates_methods (q1 q2 : Req) (h1 : 95 ∉ q1.method) (h2 : 95 ∉ q2.method)
    (hk : mkKey q1 = mkKey q2) : q1.keyMat = q2.keyMat ∧ q1.method = q2.method := by
  unfold mkKey at hk
  have : b "_" = [95] := by decide
  rw [this] at hk
  simp only [List.append_assoc, List.singleton_append] at hk
  exact append_sep_inj _ _ _ _ h1 h2 hk

example : (95 : Nat) ∉ b "GET" ∧ (95 : Nat) ∉ b "HEAD" := by decide
-- without the hypothesis the key is ambiguous: ("a_B", method "A") and ("a", method "B_A") collide
example : mkKey { (default : Req) with keyMat := b "a_B", method := b "A" } =
    mkKey { (default : Req) with keyMat := b "a", method := b "B_A" } := by decide

/-- A cached response is never served at or after its expiration on the cache's clock
    (`ts` read when serving < `ts` of the storing request + its expiration), … -/
theorem never_after_expiry {cfg : Config} (hmb : cfg.maxBytes < 2 ^ 63) {g : G} (h : Reachable cfg g)
    (t : Nat) (th : Thread) (o : Out) (ht : g.threads[t]? = some th) (ho : th.out = some o) (hx : o.xcache = .hit) :
    ∃ (u : Nat) (thu : Thread) (idx : Nat) (body : Bytes), g.threads[u]? = some thu ∧ StoredBy cfg thu ∧
      mkKey thu.req = mkKey th.req ∧
      o = replay cfg { mkItem cfg thu.req thu.ts idx with body := body } th.ts ∧ th.ts < thu.ts + expSecs cfg thu.req := by
  rcases (hit_justified hmb h t th o ht ho hx).2.2.2.2.2 with ⟨u, thu, idx, body, h1, h2, h3, h4, h5, _⟩
  exact ⟨u, thu, idx, body, h1, h2, h3, h4, h5⟩

example :=
  never_after_expiry exCfg_mb exSeq_reach 1 _ _ (getElem?_getD_default (by decide)) (some_getD_default (by decide)) (by decide)
-- … and the third request of `exSeq`, two ticks later (= the expiration), is not served from the cache
example : ((exSeq.threads[2]?.getD default).out.map fun o : Out => o.xcache) = some XCache.miss := by decide

/-- … nor to a request for which the `CacheInvalidator` fires. -/
theorem never_to_invalidating_request {cfg : Config} (hmb : cfg.maxBytes < 2 ^ 63) {g : G} (h : Reachable cfg g)
    (t : Nat) (th : Thread) (o : Out) (ht : g.threads[t]? = some th) (ho : th.out = some o) (hx : o.xcache = .hit) :
    th.req.inv = false :=
  (hit_justified hmb h t th o ht ho hx).2.2.1

example : (exSeq.threads[1]?.getD default).req.inv = false :=
  never_to_invalidating_request exCfg_mb exSeq_reach 1 _ _ (getElem?_getD_default (by decide)) (some_getD_default (by decide)) (by decide)

/-- Invalidation, step form: when the thread inside the first section belongs to a request for which
    the invalidator fires and which finds an entry (`manager.get` ≠ nil), the step erases the key
    from the storage – so by `hit_replays_current` nothing stored before can be served afterwards.
    (`hdel`: the storage's `Delete` of the entry goes through; the code ignores its error, K1.) -/
theorem invalidation_erases_entry_partial {cfg : Config} (hmb : cfg.maxBytes < 2 ^ 63) {g g' : G} (h : Reachable cfg g)
    (t : Nat) (th : Thread) (ht : g.threads[t]? = some th) (hpc : th.pc = .sec1) (hinv : th.req.inv = true)
    (hts : g.ts ≥ 2) (hfound : lookup1 cfg g.sh g.uts (mkKey th.req) (faultAt th.req.f1 0) ≠ none)
    (hdel : (cfg.ext && (faultAt th.req.f1 1).fails) = false)
    (hs : step cfg g t = some g') : g'.sh.store.lookup (mkKey th.req) = none := by
  have hi := reachable_inv hmb h
  unfold step at hs
  rw [ht] at hs
  simp only [hpc] at hs
  rcases sec1_invalidates hmb hi.sh hinv hts hfound hdel with ⟨sh', hr, hl⟩
  rw [hr] at hs; cases hs; exact hl

-- `exInv`: the entry of `/a` is there before the step of the invalidating request and gone after it
example : (exInv.sh.store.lookup (mkKey (exReq [47, 97] [67] true []))).isSome = true ∧
    ((step exCfg exInv 1).map fun g' => (g'.sh.store.lookup (mkKey (exReq [47, 97] [67] true []))).isSome) = some false := by decide

/-- Invalidation / expiry, trace form: once the storage holds nothing for key `k`, no request for `k`
    that is still unfinished is answered from the cache, whatever the schedule and the clocks do,
    until some request stores a response under `k` again (`noStoreOf`: no event of the run is a second
    critical section of a request with key `k` that ends in `manager.set`). -/
theorem absent_key_never_hit {cfg : Config} (hmb : cfg.maxBytes < 2 ^ 63) {g : G} (h : Reachable cfg g) (k : Key)
    (hk : g.sh.store.lookup k = none) (evs : List Ev) (hns : noStoreOf cfg k g evs = true)
    (t : Nat) (th : Thread) (ht : g.threads[t]? = some th) (hpc : th.pc ≠ .done) (hkey : mkKey th.req = k)
    (th' : Thread) (o : Out) (ht' : (run cfg g evs).threads[t]? = some th') (ho : th'.out = some o) :
    o.xcache ≠ .hit := by
  have hi := reachable_inv hmb h
  have hq := notHit_of_unfinished hi ht hpc
  have hkey' : ∀ x, g.threads[t]? = some x → mkKey x.req = k := by
    intro x hx; rw [ht] at hx; cases hx; exact hkey
  exact (run_absent hmb evs hi k hk hns t hkey' hq).2 th' o ht' ho

/-- "… never served after its … invalidation": after the first critical section of a request for which
    the `CacheInvalidator` fired (and which found an entry), every request for the same cache key that
    has not been answered yet is not answered from the cache in any continuation of the run – any
    interleaving, any clock advance – in which no response is stored under that key again. -/
theorem never_after_invalidation_partial {cfg : Config} (hmb : cfg.maxBytes < 2 ^ 63) {g g1 : G} (h : Reachable cfg g)
    (u : Nat) (thu : Thread) (hu : g.threads[u]? = some thu) (hpcu : thu.pc = .sec1) (hinv : thu.req.inv = true)
    (hts : g.ts ≥ 2) (hfound : lookup1 cfg g.sh g.uts (mkKey thu.req) (faultAt thu.req.f1 0) ≠ none)
    (hdel : (cfg.ext && (faultAt thu.req.f1 1).fails) = false) (hs : step cfg g u = some g1)
    (evs : List Ev) (hns : noStoreOf cfg (mkKey thu.req) g1 evs = true)
    (t : Nat) (th : Thread) (ht : g1.threads[t]? = some th) (hpc : th.pc ≠ .done) (hkey : mkKey th.req = mkKey thu.req)
    (th' : Thread) (o : Out) (ht' : (run cfg g1 evs).threads[t]? = some th') (ho : th'.out = some o) :
    o.xcache ≠ .hit := by
  have hk := invalidation_erases_entry_partial hmb h u thu hu hpcu hinv hts hfound hdel hs
  have hr1 : Reachable cfg g1 := by
    have := reachable_exec h (.step u)
    simpa [exec, hs] using this
  exact absent_key_never_hit hmb hr1 _ hk evs hns t th ht hpc hkey th' o ht' ho

-- `exInv`, then the invalidating request 1 leaves its first section, then request 2 (same key, origin
-- status 500, so it stores nothing) runs to its end: it is not served the entry request 0 stored
set_option maxRecDepth 20000 in
example : (((run exCfg ((step exCfg exInv 1).getD exInv) (steps 2 8)).threads[2]?.getD default).out.getD default).xcache ≠ .hit :=
  never_after_invalidation_partial exCfg_mb exInv_reach 1 _ (getElem?_getD_default (by decide)) (by decide) (by decide)
    (by decide) (by decide) (by decide) (some_getD_default (by decide)) (steps 2 8) (by decide)
    2 _ (getElem?_getD_default (by decide)) (by decide) (by decide) _ _
    (getElem?_getD_default (by decide)) (some_getD_default (by decide))

/-- Hits, step form: the step that serves a hit replays the item the storage holds for the key at
    that moment, unexpired on the storage's clock and on the cache's clock. -/
theorem hit_replays_current {cfg : Config} (hmb : cfg.maxBytes < 2 ^ 63) {g g' : G} (h : Reachable cfg g)
    (t : Nat) (th th' : Thread) (o : Out)
    (ht : g.threads[t]? = some th) (hpc : th.pc = .sec1) (hs : step cfg g t = some g')
    (ht' : g'.threads[t]? = some th') (ho : th'.out = some o) (hx : o.xcache = .hit) :
    ∃ sl, g.sh.store.lookup (mkKey th.req) = some sl ∧ sl.expired g.uts = false ∧
      o = replay cfg { sl.item with body := hitBody cfg g.sh g.uts (mkKey th.req) sl.item } g.ts ∧
      (mkKey th.req ∉ g.sh.dirty → o = replay cfg sl.item g.ts) ∧
      g.ts < sl.item.exp ∧ g'.sh.store = g.sh.store := by
  unfold step at hs
  rw [ht] at hs
  simp only [hpc] at hs
  have hlt : t < g.threads.length := lt_of_getElem? ht
  have hnone : th.out = none := by
    have := (reachable_inv hmb h).th t th ht
    simp only [ThOK, hpc] at this
    exact this.1
  cases hr : sec1 cfg g.sh g.ts g.uts th.req (mkKey th.req) with
  | panic =>
    rw [hr] at hs; cases hs
    simp [G.setThread, hlt] at ht'; subst ht'
    simp [hnone] at ho
  | hit o' =>
    rw [hr] at hs; cases hs
    simp [G.setThread, hlt] at ht'; subst ht'
    simp at ho; subst ho
    rcases sec1_hit (reachable_inv hmb h).clock hr with ⟨sl, h1, h2, h3, _, h4, _⟩
    refine ⟨sl, h1, h2, h3, ?_, h4, rfl⟩
    intro hnd
    have hsync := ((reachable_inv hmb h).sh.clean _ hnd (fun x => x)).2.2
    rw [h3, hitBody_sync hsync h1 h2]
  | pass sh' =>
    rw [hr] at hs; cases hs
    simp [G.setThread, hlt] at ht'; subst ht'
    simp [hnone] at ho

set_option maxRecDepth 20000 in
example : ∃ g, Reachable exCfg g ∧ (g.threads[1]?.map (·.pc)) = some .sec1 ∧
    (((step exCfg g 1).getD g).threads[1]?.map fun th => th.out.map (·.xcache)) = some (some .hit) :=
  ⟨run exCfg (G.init 100 100 [exReq [47, 97] [65, 66] false [], exReq [47, 97] [67] false []]) (steps 0 8 ++ steps 1 2),
   ⟨_, _, _, _, by decide, rfl⟩, by decide, by decide⟩

/-- a request carrying `no-cache` (any letter case) is never answered from the cache -/
theorem no_cache_bypasses_hit {cfg : Config} (hmb : cfg.maxBytes < 2 ^ 63) {g : G} (h : Reachable cfg g)
    (t : Nat) (th : Thread) (o : Out) (ht : g.threads[t]? = some th) (ho : th.out = some o)
    (hnc : hasDirective th.req.cc Facts.noCache = true) : o.xcache ≠ .hit := by
  intro hx
  have := (hit_justified hmb h t th o ht ho hx).2.2.2.1
  rw [hnc] at this; cases this

set_option maxRecDepth 20000 in
example : ((exConc.threads[3]?.getD default).out.getD default).xcache ≠ .hit :=
  no_cache_bypasses_hit exCfg_mb exConc_reach 3 _ _ (getElem?_getD_default (by decide)) (some_getD_default (by decide)) (by decide)

/-- the same for the RFC 9111 reading of the header (`no-cache` is one of the comma separated directive
    names of the request's Cache-Control value, any letter case, with or without argument) -/
theorem rfc_no_cache_never_hit {cfg : Config} (hmb : cfg.maxBytes < 2 ^ 63) {g : G} (h : Reachable cfg g)
    (t : Nat) (th : Thread) (o : Out) (ht : g.threads[t]? = some th) (ho : th.out = some o)
    (hnc : isNoCacheReq th.req.cc = true) : o.xcache ≠ .hit :=
  no_cache_bypasses_hit hmb h t th o ht ho (directive_implies_substring hnc)

example : isNoCacheReq (b "max-age=0,  No-Cache ") = true := by decide

/-! ## 5. no_store_bypasses_all -/

/-- A `no-store` request never takes the mutex and never changes the cache's state: each of its
    steps leaves storage, heap, `storedBytes` and `mux` untouched; its response is the origin's,
    without a cache-status header, and the origin handler ran. -/
theorem no_store_bypasses_all {cfg : Config} (hmb : cfg.maxBytes < 2 ^ 63) {g : G} (h : Reachable cfg g)
    (t : Nat) (th : Thread) (ht : g.threads[t]? = some th) (hns : hasDirective th.req.cc Facts.noStore = true) :
    (∀ g', step cfg g t = some g' → g'.sh.store = g.sh.store ∧ g'.sh.heap = g.sh.heap ∧ g'.sh.stored = g.sh.stored ∧
        g'.mux = g.mux) ∧
    (th.pc = .done → th.out = some (passThrough .absent th.req.resp) ∧ th.ran = true) := by
  have hok := (reachable_inv hmb h).th t th ht
  unfold ThOK at hok
  have hna : ¬ Admitted cfg th.req := fun ha => by rw [ha.2.1] at hns; cases hns
  constructor
  · intro g' hs
    unfold step at hs
    rw [ht] at hs
    simp only at hs
    cases hpc : th.pc <;> simp only [hpc] at hok hs
    · by_cases h1 : cfg.disabled = true
      · rw [if_pos h1] at hs; cases hs; simp [G.setThread]
      · rw [if_neg h1, if_pos hns] at hs; cases hs; simp [G.setThread]
    · cases hs; simp [G.setThread]
    · exact absurd hok.2.2 hna
    · exact absurd hok.2.2 hna
    · exact absurd hok.2.2 hna
    · exact absurd hok.2.2.1 hna
    · exact absurd hok.2.2.1 hna
    · exact absurd hok.2.2.1 hna
    · cases hs
  · intro hpc
    simp only [hpc] at hok
    rcases hok with ⟨o, ho, hd⟩
    rcases hd with ⟨_, _, ha, _⟩ | ⟨_, _, ha, _⟩ | ⟨_, _, _, hn⟩ | ⟨hd, hr, _⟩
    · exact absurd ha hna
    · exact absurd ha hna
    · rw [hn] at hns; cases hns
    · rw [ho, hd]; exact ⟨rfl, hr⟩

def exNoStore : G := run exCfg (G.init 100 100 [exReq [47, 97] [65, 66] false [], exReq [47, 97] [67] false (b "NO-STORE")]) (steps 0 8 ++ steps 1 8)
example : (exNoStore.threads[1]?.getD default).out = some (passThrough .absent (exReq [47, 97] [67] false (b "NO-STORE")).resp) ∧
    (exNoStore.threads[1]?.getD default).ran = true :=
  (no_store_bypasses_all exCfg_mb ⟨_, _, _, _, by decide, rfl⟩ 1 _ (getElem?_getD_default (by decide)) (by decide)).2 (by decide)

/-- the same for the RFC 9111 reading of the header -/
theorem rfc_no_store_bypasses_all {cfg : Config} (hmb : cfg.maxBytes < 2 ^ 63) {g : G} (h : Reachable cfg g)
    (t : Nat) (th : Thread) (ht : g.threads[t]? = some th) (hns : isNoStoreReq th.req.cc = true) :
    (∀ g', step cfg g t = some g' → g'.sh.store = g.sh.store ∧ g'.sh.heap = g.sh.heap ∧ g'.sh.stored = g.sh.stored ∧
        g'.mux = g.mux) ∧
    (th.pc = .done → th.out = some (passThrough .absent th.req.resp) ∧ th.ran = true) :=
  no_store_bypasses_all hmb h t th ht (directive_implies_substring hns)

example : isNoStoreReq (b "No-Store, max-age=0") = true := by decide

/-! ## 6. only_cacheable_stored -/

/-- Whatever the storage holds was produced by a finished request whose status is in the
    cacheable table, whose method is configured, which was not `no-store`, under that request's key. -/
theorem only_cacheable_stored {cfg : Config} (hmb : cfg.maxBytes < 2 ^ 63) {g : G} (h : Reachable cfg g)
    (k : Key) (sl : Slot) (hl : g.sh.store.lookup k = some sl) :
    cacheable sl.item.status = true ∧
    ∃ (u : Nat) (thu : Thread), g.threads[u]? = some thu ∧ mkKey thu.req = k ∧
      cfg.effMethods.contains thu.req.method = true ∧ hasDirective thu.req.cc Facts.noStore = false ∧
      cfg.disabled = false ∧ sl.item.status = thu.req.resp.status ∧ sl.item.body = thu.req.resp.body := by
  rcases (reachable_inv hmb h).origin k sl hl with ⟨u, thu, idx, hu, hst, hk, hit⟩
  rw [hit]
  exact ⟨hst.2.2.2.2.1, u, thu, hu, hk, hst.2.2.2.1.2.2, hst.2.2.2.1.2.1, hst.2.2.2.1.1, rfl, rfl⟩

set_option maxRecDepth 20000 in
example : ∃ k sl, exConc.sh.store.lookup k = some sl ∧ cacheable sl.item.status = true :=
  ⟨mkKey (exReq [47, 97] [72] false []), (exConc.sh.store.lookup (mkKey (exReq [47, 97] [72] false []))).getD default,
   some_getD_default (by decide),
   (only_cacheable_stored exCfg_mb exConc_reach _ _ (some_getD_default (by decide))).1⟩
-- a response with status 500 is passed through and nothing is stored
example : (run exCfg (G.init 100 100 [exReqS 500 [47, 97] [65] false []]) (steps 0 8)).sh.store = [] := by decide

/-- A response whose origin handler failed (`c.Next()` returned an error) is never stored: whatever the
    storage holds was stored by a request whose handler succeeded; a request whose handler fails never enters
    the second critical section, is never answered `miss`, and the step in which its handler fails leaves the
    storage, the heap, `storedBytes` and the mutex as they were (the middleware returns the error unchanged,
    without a cache-status header). -/
theorem failed_response_never_stored {cfg : Config} (hmb : cfg.maxBytes < 2 ^ 63) {g : G} (h : Reachable cfg g) :
    (∀ k sl, g.sh.store.lookup k = some sl →
      ∃ (u : Nat) (thu : Thread) (idx : Nat), g.threads[u]? = some thu ∧ thu.req.err = false ∧ mkKey thu.req = k ∧
        sl.item = mkItem cfg thu.req thu.ts idx) ∧
    (∀ (t : Nat) (th : Thread), g.threads[t]? = some th → th.req.err = true →
      th.pc ≠ .afterNext ∧ th.pc ≠ .wantLock2 ∧ th.pc ≠ .sec2 ∧ ∀ o, th.out = some o → o.xcache ≠ .miss) ∧
    (∀ (t : Nat) (th : Thread) (g' : G), g.threads[t]? = some th → th.req.err = true → th.pc = .next →
      step cfg g t = some g' →
        g'.sh.store = g.sh.store ∧ g'.sh.bodies = g.sh.bodies ∧ g'.sh.heap = g.sh.heap ∧ g'.sh.stored = g.sh.stored ∧
        g'.mux = g.mux ∧
        g'.threads[t]? = some { th with pc := .done, ran := true, out := some (passThrough .absent th.req.resp) }) := by
  have hi := reachable_inv hmb h
  refine ⟨?_, ?_, ?_⟩
  · intro k sl hl
    rcases hi.origin k sl hl with ⟨u, thu, idx, hu, hst, hk, hit⟩
    exact ⟨u, thu, idx, hu, hst.2.2.2.2.2.2, hk, hit⟩
  · intro t th ht herr
    have hok := hi.th t th ht
    unfold ThOK at hok
    refine ⟨?_, ?_, ?_, ?_⟩
    · intro hpc; simp only [hpc] at hok; rw [hok.2.2.2] at herr; cases herr
    · intro hpc; simp only [hpc] at hok; rw [hok.2.2.2.2] at herr; cases herr
    · intro hpc; simp only [hpc] at hok; rw [hok.2.2.2.2] at herr; cases herr
    · intro o ho hx
      have hsome : th.out ≠ none := by rw [ho]; simp
      cases hpc : th.pc <;> simp only [hpc] at hok
      · exact absurd hok.1 hsome
      · exact absurd hok.1 hsome
      · exact absurd hok.1 hsome
      · exact absurd hok.1 hsome
      · exact absurd hok.1 hsome
      · exact absurd hok.1 hsome
      · exact absurd hok.1 hsome
      · exact absurd hok.1 hsome
      · rcases hok with ⟨o', ho', hd⟩
        rw [ho] at ho'; cases ho'
        rcases hd with ⟨hh, _⟩ | ⟨_, _, _, _, _, he⟩ | ⟨hd, _⟩ | ⟨hd, _⟩
        · rw [hh] at hx; cases hx
        · rw [he] at herr; cases herr
        · rw [hd] at hx; simp [passThrough] at hx
        · rw [hd] at hx; simp [passThrough] at hx
  · intro t th g' ht herr hpc hs
    unfold step at hs
    rw [ht] at hs
    simp only [hpc, herr, if_true] at hs
    cases hs
    have hlt : t < g.threads.length := lt_of_getElem? ht
    refine ⟨rfl, rfl, rfl, rfl, rfl, ?_⟩
    simp [G.setThread, hlt]

-- a failing handler with a cacheable status (404): the error passes through, nothing is stored, the next request misses
example : ((run exCfg (G.init 100 100 [{ exReqS 404 [47, 97] [65] false [] with err := true }, exReq [47, 97] [66] false []])
    (steps 0 8 ++ steps 1 8)).threads.map fun th => th.out.map (·.xcache)) = [some .absent, some .miss] := by decide
example : (run exCfg (G.init 100 100 [{ exReqS 404 [47, 97] [65] false [] with err := true }]) (steps 0 8)).sh.store = [] := by decide

/-! ## 7. storage faults -/

/-- In a run in which no `Storage.Set` / `Storage.Delete` (nor `Get` of a body) fails – `Get`s of entries may
    fail or deliver garbage at will – no key ever becomes dirty and no request is tainted: the hypotheses
    `dirty = []` / `taint = false` of the theorems above hold throughout. -/
theorem quiet_runs_stay_clean {cfg : Config} (ts uts : Nat) (reqs : List Req) (evs : List Ev)
    (hq : ∀ q ∈ reqs, q.quiet) :
    (run cfg (G.init ts uts reqs) evs).sh.dirty = [] ∧
    ∀ (t : Nat) (th : Thread), (run cfg (G.init ts uts reqs) evs).threads[t]? = some th → th.taint = false :=
  (run_quiet evs (init_quiet ts uts reqs hq)).2

example : (exReq [47, 97] [65] false []).quiet ∧ ({ exReq [47, 97] [65] false [] with f1 := [.garbled] } : Req).quiet := by
  refine ⟨⟨fun i _ => ?_, fun i => ?_⟩, ⟨fun i hi => ?_, fun i => ?_⟩⟩
  · simp [exReq, exReqS, faultAt, Fault.fails]
  · simp [exReq, exReqS, faultAt, Fault.fails]
  · cases i with
    | zero => omega
    | succ j => simp [faultAt, Fault.fails]
  · simp [exReq, exReqS, faultAt, Fault.fails]

/-! ## 8. the sentence at full strength when no `Storage.Set` / `Storage.Delete` fails

The property's own quantifier (interleavings × histories × configurations) has no storage faults; `ReachableQ`
is wider: `Get`s may fail or deliver garbage. -/

/-- `storedBytes` = Σ body sizes of what the cache has stored and neither deleted nor replaced -/
theorem stored_bytes_exact {cfg : Config} (hmb : cfg.maxBytes < 2 ^ 63) (hpos : cfg.maxBytes > 0) {g : G}
    (h : ReachableQ cfg g) : g.sh.stored = totalBody g.sh.store :=
  stored_bytes_exact_partial hmb hpos h.reachable h.quietOK.2.1

/-- `held + lapsed = storedBytes`: the bytes the storage physically holds are exactly the bytes counted, minus
    what the storage itself has let lapse (TTL on its own clock) -/
theorem held_plus_lapsed_eq_stored {cfg : Config} (hmb : cfg.maxBytes < 2 ^ 63) (hpos : cfg.maxBytes > 0) {g : G}
    (h : ReachableQ cfg g) (uts : Nat) : physHeld cfg g.sh uts + g.sh.store.lapsed uts = g.sh.stored :=
  held_plus_lapsed_eq_stored_partial hmb hpos h.reachable h.quietOK.2.1 uts

theorem held_eq_stored_when_nothing_lapsed {cfg : Config} (hmb : cfg.maxBytes < 2 ^ 63) (hpos : cfg.maxBytes > 0) {g : G}
    (h : ReachableQ cfg g) (uts : Nat) (hl : ∀ p ∈ g.sh.store, p.2.expired uts = false) :
    physHeld cfg g.sh uts = g.sh.stored :=
  held_eq_stored_when_nothing_lapsed_partial hmb hpos h.reachable h.quietOK.2.1 uts hl

/-- "The bytes held never exceed MaxBytes" -/
theorem held_never_exceeds_maxbytes {cfg : Config} (hmb : cfg.maxBytes < 2 ^ 63) (hpos : cfg.maxBytes > 0) {g : G}
    (h : ReachableQ cfg g) (uts : Nat) :
    physHeld cfg g.sh uts ≤ g.sh.stored ∧ physHeld cfg g.sh uts ≤ cfg.maxBytes :=
  held_never_exceeds_maxbytes_partial hmb hpos h.reachable h.quietOK.2.1 uts

/-- every stored response is tracked by a live heap entry of its key and size; every live heap entry tracks a
    stored key; a key is tracked once; entry and body of every key are in step -/
theorem stored_items_tracked {cfg : Config} (hmb : cfg.maxBytes < 2 ^ 63) (hpos : cfg.maxBytes > 0) {g : G}
    (h : ReachableQ cfg g) : Tracked g.sh :=
  stored_items_tracked_partial hmb hpos h.reachable h.quietOK.2.1

theorem heap_entries_cover_store {cfg : Config} (hmb : cfg.maxBytes < 2 ^ 63) {g : G} (h : ReachableQ cfg g) :
    Covered g.sh ∧ KInv g.sh.heap :=
  ⟨(heap_entries_cover_store_partial hmb h.reachable).1 h.quietOK.2.1, (heap_entries_cover_store_partial hmb h.reachable).2⟩

theorem entry_and_body_in_step {cfg : Config} (hmb : cfg.maxBytes < 2 ^ 63) {g : G} (h : ReachableQ cfg g) (k : Key) :
    g.sh.bodies.lookup k = (g.sh.store.lookup k).map fun sl => ⟨sl.item.body, sl.sexp⟩ :=
  entry_and_body_in_step_partial hmb h.reachable k (by rw [h.quietOK.2.1]; simp)

/-- A response served from the cache is identical in status, body, content type, encoding and stored
    headers to what the origin handler produced, in a finished request `u` that stored it under the
    same cache key (`KeyGenerator` result + method). The origin handler is not invoked. -/
theorem hit_is_transparent {cfg : Config} (hmb : cfg.maxBytes < 2 ^ 63) {g : G} (h : ReachableQ cfg g)
    (t : Nat) (th : Thread) (o : Out) (ht : g.threads[t]? = some th) (ho : th.out = some o) (hx : o.xcache = .hit) :
    th.ran = false ∧
    ∃ (u : Nat) (thu : Thread), g.threads[u]? = some thu ∧ thu.pc = .done ∧ thu.ran = true ∧
      thu.out = some (passThrough .miss thu.req.resp) ∧ mkKey thu.req = mkKey th.req ∧
      o.status = thu.req.resp.status ∧ o.body = thu.req.resp.body ∧ o.ctype = effCType thu.req.resp.ctype ∧
      o.cenc = thu.req.resp.cenc ∧
      o.headers = (if cfg.cacheControl then
          setHdr (storedHeaders cfg thu.req.resp) (b "Cache-Control")
            (b "public, max-age=" ++ natToDec (thu.ts + expSecs cfg thu.req - th.ts))
        else storedHeaders cfg thu.req.resp) :=
  hit_is_transparent_partial hmb h.reachable t th o ht ho hx (h.quietOK.2.2 t th ht)

/-- Invalidation, step form: the first critical section of a request for which the invalidator fires and which
    finds an entry erases the key from the storage -/
theorem invalidation_erases_entry {cfg : Config} (hmb : cfg.maxBytes < 2 ^ 63) {g g' : G} (h : ReachableQ cfg g)
    (t : Nat) (th : Thread) (ht : g.threads[t]? = some th) (hpc : th.pc = .sec1) (hinv : th.req.inv = true)
    (hts : g.ts ≥ 2) (hfound : lookup1 cfg g.sh g.uts (mkKey th.req) (faultAt th.req.f1 0) ≠ none)
    (hs : step cfg g t = some g') : g'.sh.store.lookup (mkKey th.req) = none :=
  invalidation_erases_entry_partial hmb h.reachable t th ht hpc hinv hts hfound
    (by rw [(h.quietOK.1 t th ht).1 1 (by omega)]; simp) hs

/-- "… never served after its … invalidation": after the first critical section of a request for which
    the `CacheInvalidator` fired (and which found an entry), every request for the same cache key that
    has not been answered yet is not answered from the cache in any continuation of the run – any
    interleaving, any clock advance – in which no response is stored under that key again. -/
theorem never_after_invalidation {cfg : Config} (hmb : cfg.maxBytes < 2 ^ 63) {g g1 : G} (h : ReachableQ cfg g)
    (u : Nat) (thu : Thread) (hu : g.threads[u]? = some thu) (hpcu : thu.pc = .sec1) (hinv : thu.req.inv = true)
    (hts : g.ts ≥ 2) (hfound : lookup1 cfg g.sh g.uts (mkKey thu.req) (faultAt thu.req.f1 0) ≠ none)
    (hs : step cfg g u = some g1)
    (evs : List Ev) (hns : noStoreOf cfg (mkKey thu.req) g1 evs = true)
    (t : Nat) (th : Thread) (ht : g1.threads[t]? = some th) (hpc : th.pc ≠ .done) (hkey : mkKey th.req = mkKey thu.req)
    (th' : Thread) (o : Out) (ht' : (run cfg g1 evs).threads[t]? = some th') (ho : th'.out = some o) :
    o.xcache ≠ .hit :=
  never_after_invalidation_partial hmb h.reachable u thu hu hpcu hinv hts hfound
    (by rw [(h.quietOK.1 u thu hu).1 1 (by omega)]; simp) hs evs hns t th ht hpc hkey th' o ht' ho

/-- "… or corrupt its accounting", step form of what an observer of the storage sees: a request that stores a
    response which fits next to everything the cache has stored under other keys evicts nothing – the storage
    afterwards holds what it held, plus / with the new response under the request's key. (Before F4 a key
    stored twice was counted twice and this failed: GET /a, GET /a no-cache, GET /b with one-byte bodies and
    MaxBytes 2 evicted the fresh /a.) -/
theorem no_needless_eviction {cfg : Config} (hmb : cfg.maxBytes < 2 ^ 63) (hpos : cfg.maxBytes > 0) {g g' : G}
    (h : ReachableQ cfg g) (t : Nat) (th : Thread) (ht : g.threads[t]? = some th) (hpc : th.pc = .sec2)
    (hfit : totalBody (g.sh.store.erase (mkKey th.req)) + th.req.resp.body.length ≤ cfg.maxBytes)
    (hs : step cfg g t = some g') :
    (∃ idx, g'.sh.store = g.sh.store.set (mkKey th.req) ⟨mkItem cfg th.req th.ts idx, storageExp cfg th.req g.uts⟩) ∨
    g'.sh.store = g.sh.store := by
  have hi := reachable_inv hmb h.reachable
  unfold step at hs
  rw [ht] at hs
  simp only [hpc] at hs
  cases hr : sec2 cfg g.sh th.ts g.uts th.req (mkKey th.req) with
  | panic => rw [hr] at hs; cases hs; right; rfl
  | unreachable => rw [hr] at hs; cases hs; right; rfl
  | stored sh' =>
    rw [hr] at hs; cases hs
    left
    exact sec2_no_needless_eviction hmb hpos hi.sh h.quietOK.2.1 (h.quietOK.1 t th ht).2 hfit hr

-- non-vacuity of the full-strength statements: the example states are reachable without storage faults …
theorem exSeq_reachQ : ReachableQ exCfg exSeq :=
  ⟨_, _, _, _, by decide, by intro q hq; simp at hq; rcases hq with h | h | h <;> subst h <;> exact quiet_of_no_faults rfl rfl, rfl⟩
theorem exConc_reachQ : ReachableQ exCfg exConc :=
  ⟨_, _, _, _, by decide, by intro q hq; simp at hq; rcases hq with h | h | h | h <;> subst h <;> exact quiet_of_no_faults rfl rfl, rfl⟩
theorem exInv_reachQ : ReachableQ exCfg exInv :=
  ⟨_, _, _, _, by decide, by intro q hq; simp at hq; rcases hq with h | h | h <;> subst h <;> exact quiet_of_no_faults rfl rfl, rfl⟩
/-- … and so is a history whose second request finds the storage unable to deliver the entry -/
def exGetFault : G := run exCfg (G.init 100 100 [exReq [47, 97] [65, 66] false [],
    { exReq [47, 97] [67] false [] with f1 := [.garbled] }, exReq [47, 97] [68] false []]) (steps 0 8 ++ steps 1 8 ++ steps 2 8)
theorem exGetFault_reachQ : ReachableQ exCfg exGetFault :=
  ⟨_, _, _, _, by decide, by
    intro q hq; simp at hq
    rcases hq with h | h | h <;> subst h
    · exact quiet_of_no_faults rfl rfl
    · exact quiet_of_entry_fault _ .garbled rfl rfl
    · exact quiet_of_no_faults rfl rfl, rfl⟩
-- request 1 misses although `/a` is stored (its Get delivered garbage) and stores its own response; request 2 is served that
set_option maxRecDepth 20000 in
example : (exGetFault.threads.map fun th => th.out.map fun o : Out => (o.xcache, o.body)) =
    [some (.miss, [65, 66]), some (.miss, [67]), some (.hit, [67])] := by decide
example := hit_is_transparent exCfg_mb exGetFault_reachQ 2 _ _ (getElem?_getD_default (by decide)) (some_getD_default (by decide)) (by decide)
example := hit_is_transparent exCfg_mb exSeq_reachQ 1 _ _ (getElem?_getD_default (by decide)) (some_getD_default (by decide)) (by decide)
example : exConc.sh.stored = totalBody exConc.sh.store := stored_bytes_exact exCfg_mb (by decide) exConc_reachQ
example : physHeld exCfg exConc.sh 100 ≤ exCfg.maxBytes := (held_never_exceeds_maxbytes exCfg_mb (by decide) exConc_reachQ 100).2
example : Tracked exConc.sh ∧ Covered exConc.sh :=
  ⟨stored_items_tracked exCfg_mb (by decide) exConc_reachQ, (heap_entries_cover_store exCfg_mb exConc_reachQ).1⟩
example := held_plus_lapsed_eq_stored exCfg_mb (by decide) exSeq_reachQ 102
example := entry_and_body_in_step exCfg_mb exSeq_reachQ (mkKey (exReq [47, 97] [68] false []))
set_option maxRecDepth 20000 in
example : (((run exCfg ((step exCfg exInv 1).getD exInv) (steps 2 8)).threads[2]?.getD default).out.getD default).xcache ≠ .hit :=
  never_after_invalidation exCfg_mb exInv_reachQ 1 _ (getElem?_getD_default (by decide)) (by decide) (by decide)
    (by decide) (by decide) (some_getD_default (by decide)) (steps 2 8) (by decide)
    2 _ (getElem?_getD_default (by decide)) (by decide) (by decide) _ _
    (getElem?_getD_default (by decide)) (some_getD_default (by decide))
-- `no_needless_eviction`: `/b` (1 byte) fits next to `/a` (1 byte) with MaxBytes 2: the step that stores it keeps `/a`
set_option maxRecDepth 20000 in
example : ∃ g, ReachableQ { exCfg with maxBytes := 2 } g ∧ (g.threads[1]?.map (·.pc)) = some .sec2 ∧
    totalBody (g.sh.store.erase (mkKey (exReq [47, 98] [66] false []))) + 1 ≤ 2 :=
  ⟨run { exCfg with maxBytes := 2 } (G.init 100 100 [exReq [47, 97] [65] false [], exReq [47, 98] [66] false []]) (steps 0 8 ++ steps 1 6),
   ⟨_, _, _, _, by decide, by intro q hq; simp at hq; rcases hq with h | h <;> subst h <;> exact quiet_of_no_faults rfl rfl, rfl⟩,
   by decide, by decide⟩

/-- the fixed witness of F4 in the model: /a, /a again (no-cache), /b with one-byte bodies and MaxBytes 2 – both
    responses are held afterwards and the fourth request is a hit -/
def exRecount : G := run { exCfg with maxBytes := 2, expiration := 60 } (G.init 100 100 [exReq [47, 97] [65] false [],
    exReq [47, 97] [66] false (b "no-cache"), exReq [47, 98] [67] false [], exReq [47, 97] [68] false []])
  (steps 0 8 ++ steps 1 8 ++ steps 2 8 ++ steps 3 8)
set_option maxRecDepth 20000 in
example : (exRecount.threads.map fun th => th.out.map fun o : Out => (o.xcache, o.body)) =
    [some (.miss, [65]), some (.miss, [66]), some (.miss, [67]), some (.hit, [66])] ∧ exRecount.sh.stored = 2 ∧
    exRecount.sh.heap.live.length = 2 := by decide

/-! ## 9. the region of known finding K1 is not empty: witnesses -/

/-- K1, witnessed in the model: `GET /a` is stored (status 200, body `AB`); a `no-cache` refresh produces status
    203 and body `C`, but its second `Storage.Set` (the entry) fails and the code ignores it: the storage holds
    the OLD entry with the NEW body, and the next request is answered `hit` with status 200 and body `C` – the
    response of no request. The key is dirty, the request tainted: exactly the region the `…_partial`
    theorems exclude. -/
def exK1 : G := run exCfg (G.init 100 100 [exReq [47, 97] [65, 66] false [],
    { exReqS 203 [47, 97] [67] false (b "no-cache") with f2 := [.ok, .err] }, exReq [47, 97] [68] false []])
  (steps 0 8 ++ steps 1 8 ++ steps 2 8)
theorem exK1_reach : Reachable exCfg exK1 := ⟨_, _, _, _, by decide, rfl⟩
set_option maxRecDepth 20000 in
example : ((exK1.threads[2]?.getD default).out.map fun o : Out => (o.xcache, o.status, o.body)) = some (XCache.hit, 200, [67]) ∧
    (exK1.threads[2]?.getD default).taint = true ∧ exK1.sh.dirty = [mkKey (exReq [47, 97] [65, 66] false [])] := by decide

set_option maxRecDepth 20000 in
/-- the full statement of `hit_is_transparent` fails on it: no request produced status 200 with body `C` -/
theorem hit_is_transparent_witness_K1 :
    ¬ ∃ (u : Nat) (thu : Thread), exK1.threads[u]? = some thu ∧
        ((exK1.threads[2]?.getD default).out.getD default).status = thu.req.resp.status ∧
        ((exK1.threads[2]?.getD default).out.getD default).body = thu.req.resp.body := by
  rintro ⟨u, thu, hu, hs, hb⟩
  have hall : ∀ x ∈ exK1.threads, ¬ (((exK1.threads[2]?.getD default).out.getD default).status = x.req.resp.status ∧
      ((exK1.threads[2]?.getD default).out.getD default).body = x.req.resp.body) := by decide
  exact hall thu (List.mem_of_getElem? hu) ⟨hs, hb⟩

/-- … the mutex discipline, the heap and the count are intact there too -/
example : Accounted exCfg exK1.sh := bytes_accounted exCfg_mb exK1_reach

/-- K1, the accounting side: `/a` (3 bytes) is stored, `/b` (3 bytes) evicts it, but the storage refuses to delete
    `/a`'s body (second `Delete` of the eviction fails, ignored): 6 bytes are held with MaxBytes 5 -/
def exK1held : G := run exCfg (G.init 100 100 [exReq [47, 97] [65, 66, 67] false [],
    { exReq [47, 98] [68, 69, 70] false [] with f2 := [.ok, .err] }]) (steps 0 8 ++ steps 1 8)
set_option maxRecDepth 20000 in
theorem held_never_exceeds_maxbytes_witness_K1 : ¬ physHeld exCfg exK1held.sh 100 ≤ exCfg.maxBytes := by decide
set_option maxRecDepth 20000 in
example : exK1held.sh.dirty ≠ [] ∧ exK1held.sh.stored = 3 := by decide

/-- the regenerated status table contains only statuses the spec allows a cache to store (RFC 9110
    §15.1 heuristically cacheable, plus 418 which fiber adds) -/
theorem cacheable_table_sound : ∀ s ∈ Facts.cacheableStatusCodes, specCacheable s = true := by
  decide

theorem cacheable_implies_spec (s : Nat) (h : cacheable s = true) : specCacheable s = true := by
  unfold cacheable at h
  exact cacheable_table_sound s (by simpa using h)

/-- the regenerated data-flow facts the model of the handler relies on: the entry is looked up
    after `mux.Lock()`, and `heap.remove` is called with the key to check -/
theorem facts_get_under_lock : Facts.getUnderLock = true := by decide
theorem facts_remove_checks_key : Facts.removeChecksKey = true := by decide
/-- cache.go drops what is tracked for the key (`heap.removeKey`) inside the second critical section before
    `heap.put`, and heap.go keeps `h.keys` in `put` / `removeInternal` / `removeKey` – what `sec2` and
    `Heap.put/removeInternal/removeKey` transcribe -/
theorem facts_key_tracked_once : Facts.storeDropsTracked = true ∧ Facts.keyMapMaintained = true := by decide
/-- manager.go `get` blanks the item when `UnmarshalMsg` fails, and the hit condition of cache.go goes through
    `manager.loadBody` – what `lookup1` (`Fault.noEntry`) and `sec1Found` (body `Get` failed → not served) transcribe -/
theorem facts_get_faults_are_misses : Facts.getFaultsAreMisses = true := by decide
/-- every byte slice the stored item keeps (`e.body`, `e.ctype`, `e.cencoding`, `e.headers[…]`) is assigned from
    `utils.CopyBytes(…)` (or `nil`) in cache.go: the item owns its bytes – what `mkItem` (a value, not a view of the
    response) transcribes. fasthttp recycles the buffers of a response with its connection context; an aliased
    header value would be overwritten by the next response served on that connection. -/
theorem facts_stored_slices_copied : Facts.storedSlicesCopied = true := by decide

end C14
