import FiberModel.C14.Model
/-
C14 — the property sentence as executable checks.

Part 1 (`specViolation`): the oracle the driver evaluates on the *implementation's* observations of a
request history. It does not use the model's handler (`step`, `sec1`, `sec2`, the heap): it only
uses the request/response vocabulary, the configured tables and the recorded observations.

  "A response served from the cache is identical in status, body, content type, encoding and stored
   headers to what the origin handler produced for the same method and key,            [hit-provenance]
   and is never served after its expiration                                            [hit-fresh]
   or invalidation                                                                     [hit-invalidated]
   nor to a no-cache request;                                                          [hit-nocache]
   no-store requests bypass the cache entirely,                                        [nostore-bypass]
   and responses with non-cacheable statuses or to unconfigured methods are never
   stored.                                                                             [stored-status] [stored-method]
   The bytes held never exceed MaxBytes,                                               [maxbytes]
   and no interleaving of concurrent requests makes the middleware panic, deadlock     [panic] [deadlock]
   or corrupt its accounting."                                                         [accounting]

Accounting, observable part: with an injected storage that never expires anything by itself, what the
storage holds is exactly what the cache counts. So a request that stores a response evicts other keys
only if the response does not fit next to them, and a request that stores nothing removes at most its
own key (expiry, invalidation).  Under storage faults (an injected storage whose calls may fail, the
outcomes being part of the request): a request whose `Get` of the entry failed or returned a value that
does not decode, or whose `Get` of the body failed, is not answered from the cache  [hit-failed-get].

Part 2: the state predicates the theorems in Props.lean are stated with.
-/
namespace C14
open B

/-! ### Part 1: history oracle -/

/-- A Cache-Control *directive* (RFC 9111 §5.2): comma separated, optional `=argument`, names
    case-insensitive, surrounding blanks ignored. -/
def directiveNames (cc : Bytes) : List Bytes :=
  (splitOn cc 44).map fun piece =>
    let p := (piece.dropWhile (fun c => c == 32 || c == 9)).takeWhile (fun c => c != 61)
    toLower ((p.reverse.dropWhile (fun c => c == 32 || c == 9)).reverse)

def isNoCacheReq (cc : Bytes) : Bool := (directiveNames cc).contains (b "no-cache")
def isNoStoreReq (cc : Bytes) : Bool := (directiveNames cc).contains (b "no-store")

/-- statuses a cache may store without explicit freshness information (RFC 9110 §15.1: heuristically
    cacheable) plus 418, which fiber's table adds. Fixed here, independent of the code's table. -/
def specCacheable (status : Nat) : Bool :=
  [200, 203, 204, 206, 300, 301, 308, 404, 405, 410, 414, 501, 418].contains status

abbrev Snap := List (Key × Nat)     -- the `_body` keys an injected storage holds, with the sizes of their values

inductive Obs where
  | panic | deadlock | skipped
  | resp (o : Out) (ran : Bool) (held : Option Nat) (snap : Option Snap)
deriving Repr, Inhabited

structure OpRec where
  idx : Nat            -- position in the history
  req : Req
  grp : Nat            -- 0 = sequential, k>0 = member of concurrent group k
  t0 : Nat             -- time the request started
  t1 : Nat             -- time the origin handler returned (t0 + handler delay)
  obs : Obs
deriving Repr, Inhabited

def sortHdrs (hs : List (Bytes × Bytes)) : List (Bytes × Bytes) :=
  hs.mergeSort fun p q => compareOfLessAndEq p.1 q.1 != .gt

def dropHdr (hs : List (Bytes × Bytes)) (k : Bytes) : List (Bytes × Bytes) := hs.filter (·.1 != k)

/-- the response equals what the origin handler produced for this request -/
def isOrigin (q : Req) (o : Out) : Bool :=
  o.status == q.resp.status && o.body == q.resp.body && o.ctype == effCType q.resp.ctype &&
  o.cenc == q.resp.cenc && sortHdrs o.headers == sortHdrs q.resp.headers

def sameKey (a b : Req) : Bool := a.method == b.method && a.keyMat == b.keyMat

def maxAgeOK (v : Bytes) (secs : Nat) : Bool :=
  let pre := b "public, max-age="
  hasPrefix v pre &&
    match decToNat? (v.drop pre.length) with
    | some n => 0 < n && n ≤ secs
    | none => false

/-- does the hit `o` replay what op `j` stored? -/
def replays (cfg : Config) (j : OpRec) (o : Out) : Bool :=
  let r := j.req.resp
  let want := if cfg.storeHeaders then r.headers.filter (fun p => !Facts.ignoreHeaders.contains p.1) else []
  let ccName := b "Cache-Control"
  o.status == r.status && o.body == r.body && o.ctype == effCType r.ctype && o.cenc == r.cenc &&
  (if cfg.cacheControl then
      sortHdrs (dropHdr o.headers ccName) == sortHdrs (dropHdr want ccName) &&
      (match o.headers.find? (·.1 == ccName) with
       | some p => maxAgeOK p.2 (expSecs cfg j.req)
       | none => false)
   else sortHdrs o.headers == sortHdrs want)

def storedBy (j : OpRec) : Bool :=
  match j.obs with
  | .resp o _ _ _ => o.xcache == .miss
  | _ => false

def snapSum (s : Snap) : Nat := (s.map (·.2)).sum
def snapSub (a b : Snap) : Bool := a.all b.contains
def snapEq (a b : Snap) : Bool := snapSub a b && snapSub b a && a.length == b.length

/-- the accounting clause on the storage contents before and after a sequential request (storage that
    never expires by itself): `true` = fine -/
def acctOK (cfg : Config) (before after : Snap) (q : Req) (x : XCache) : Bool :=
  let k := q.keyMat ++ b "_" ++ q.method
  let rest := before.filter (·.1 != k)
  let size := q.resp.body.length
  match x with
  | .miss =>
    if cfg.maxBytes == 0 || snapSum rest + size ≤ cfg.maxBytes then snapEq after ((k, size) :: rest)
    else after.contains (k, size) && snapSub (after.filter (·.1 != k)) rest
  | _ => snapSub after before && (before.filter fun p => !after.contains p).all (·.1 == k)

/-- the request reaches the invalidator: it is looked up in the cache at all -/
def looksUp (cfg : Config) (q : Req) : Bool :=
  !cfg.disabled && !isNoStoreReq q.cc && cfg.effMethods.contains q.method

/-- clauses for op `i` (with everything before it); `none` = fine -/
def checkOp (cfg : Config) (before : List OpRec) (group : List OpRec) (x : OpRec) : Option String :=
  match x.obs with
  | .panic => some "panic"
  | .deadlock => some "deadlock"
  | .skipped => none
  | .resp o ran held _ =>
    let q := x.req
    let configured := cfg.effMethods.contains q.method
    if cfg.maxBytes > 0 && (match held with | some h => h > cfg.maxBytes | none => false) then some "maxbytes"
    else if cfg.disabled && !(o.xcache == .absent && ran && isOrigin q o) then some "disabled-passthrough"
    else if isNoStoreReq q.cc && !(o.xcache == .absent && ran && isOrigin q o) then some "nostore-bypass"
    else match o.xcache with
    | .hit =>
      if ran then some "hit-ran-handler"
      else if isNoCacheReq q.cc then some "hit-nocache"
      else if !configured then some "hit-method"
      else if q.inv then some "hit-invalidated"
      else if cfg.ext && ((faultAt q.f1 0).noEntry || (faultAt q.f1 1).fails) then some "hit-failed-get"
      else
        -- candidates: the latest earlier sequential store of this key, or any store inside a concurrent
        -- group that is not older than that (order inside a group is not fixed by the history)
        let earlier := before.reverse               -- newest first
        let rec latest : List OpRec → List OpRec
          | [] => []
          | j :: rest =>
            if sameKey j.req q && storedBy j then
              if j.grp == 0 then [j] else j :: latest rest
            else latest rest
        let cands := (group.filter fun j => sameKey j.req q && storedBy j) ++ latest earlier
        if cands.isEmpty then some "hit-provenance"
        else
          let ok := cands.any fun j =>
            replays cfg j o &&
            -- fresh: not at or after the stored response's expiration
            x.t0 < j.t1 + expSecs cfg j.req &&
            -- not invalidated since: no invalidating request for this key strictly between the group
            -- of `j` and the group of `x` (the order inside a concurrent group is not fixed)
            (j.grp != 0 && j.grp == x.grp ||
              !(before.any fun k => k.idx > j.idx && (k.grp == 0 || k.grp != j.grp) &&
                  (k.grp == 0 || k.grp != x.grp) && sameKey k.req q && k.req.inv && looksUp cfg k.req))
          if ok then none
          else if cands.any (fun j => replays cfg j o) then
            (if cands.any (fun j => replays cfg j o && x.t0 < j.t1 + expSecs cfg j.req) then some "hit-invalidated"
             else some "hit-fresh")
          else some "hit-provenance"
    | .miss =>
      if !ran then some "miss-without-handler"
      else if !isOrigin q o then some "miss-not-origin"
      else if !specCacheable q.resp.status then some "stored-status"
      else if !configured then some "stored-method"
      else none
    | .unreachable | .absent =>
      if !ran then some "pass-without-handler"
      else if !isOrigin q o then some "pass-not-origin"
      else none

/-- the storage contents observed right before op `x`: those recorded with the op before it (none yet: empty) -/
def snapBefore (before : List OpRec) : Option Snap :=
  match before.getLast? with
  | none => some []
  | some p => match p.obs with
    | .resp _ _ _ s => s
    | _ => none

def checkAcct (cfg : Config) (before : List OpRec) (x : OpRec) : Option String :=
  match x.obs with
  | .resp o _ _ (some after) =>
    if cfg.ext && !cfg.stTTL && x.grp == 0 then
      match snapBefore before with
      | some bs => if acctOK cfg bs after x.req o.xcache then none else some "accounting"
      | none => none
    else none
  | _ => none

/-- evaluate all clauses over a history (first failing clause, with the position of the op it fails on) -/
def specViolationAt (cfg : Config) (ops : List OpRec) : Option (Nat × String) :=
  let rec go (before : List OpRec) : List OpRec → Option (Nat × String)
    | [] => none
    | x :: rest =>
      let group := if x.grp == 0 then [] else (before ++ x :: rest).filter fun y => y.grp == x.grp
      match checkOp cfg before group x with
      | some c => some (x.idx, c)
      | none =>
        match checkAcct cfg before x with
        | some c => some (x.idx, c)
        | none => go (before ++ [x]) rest
  go [] ops

def specViolation (cfg : Config) (ops : List OpRec) : Option String := (specViolationAt cfg ops).map (·.2)

/-! ### Part 2: state predicates for the theorems -/

/-- heap.go's data-structure invariant: the index table and the entries agree.
    (`live`/`dead`: see Heap.lean) -/
structure HInv (h : Heap) : Prop where
  ind_len : h.indices.length = h.maxidx
  total : h.live.length + h.dead.length = h.maxidx
  /-- `indices[entries[i].idx] = i` for every live position -/
  live_ok : ∀ (p : Nat) (e : HEntry), h.live[p]? = some e → h.indices[e.idx]? = some p
  /-- the indices parked in the backing tail are valid and unused … -/
  dead_lt : ∀ d ∈ h.dead, d.idx < h.maxidx
  dead_nodup : (h.dead.map (·.idx)).Nodup
  /-- … and distinct from every live one -/
  disjoint : ∀ e ∈ h.live, ∀ d ∈ h.dead, e.idx ≠ d.idx

/-- heap.go's key map mirrors the entries: `keys[k] = idx` exactly when the entry tracked by `idx` is
    live and belongs to `k` (so a key is tracked by at most one entry) -/
def KInv (h : Heap) : Prop :=
  ∀ k idx, klookup h.keys k = some idx ↔ ∃ e, h.find idx = some e ∧ e.key = k

/-- the accounting invariant of cache.go: `storedBytes` is the sum over the heap, within MaxBytes -/
def Accounted (cfg : Config) (sh : Shared) : Prop :=
  sh.stored = sumBytes sh.heap.live ∧ (cfg.maxBytes > 0 → sh.stored ≤ cfg.maxBytes)

/-- every stored item is tracked by a live heap entry of its key and size (MaxBytes > 0) -/
def Tracked (sh : Shared) : Prop :=
  ∀ k sl, sh.store.lookup k = some sl →
    ∃ e, sh.heap.find sl.item.heapidx = some e ∧ e.key = k ∧ e.bytes = sl.item.body.length

end C14
