import FiberModel.C14.Inv
/-
C14 — trace lemmas: once the storage holds nothing for a key, no request is answered from the cache
for that key until some request stores a response under it again.  Used for
`never_after_invalidation` / `never_after_expiry_sweep` in Props.lean.
-/
namespace C14
open B
set_option linter.unusedSimpArgs false

/-- the event is the second critical section of a request with cache key `k` that ends by storing its
    response (`manager.set`) -/
def storesKey (cfg : Config) (g : G) (k : Key) : Ev → Bool
  | .step t =>
    match g.threads[t]? with
    | some th =>
      th.pc == .sec2 && mkKey th.req == k &&
        (match sec2 cfg g.sh th.ts g.uts th.req (mkKey th.req) with
         | .stored _ => true
         | _ => false)
    | none => false
  | _ => false

/-- no event of the run stores a response under key `k` -/
def noStoreOf (cfg : Config) (k : Key) : G → List Ev → Bool
  | _, [] => true
  | g, e :: es => !storesKey cfg g k e && noStoreOf cfg k (exec cfg g e) es

/-- thread `t` has not been answered from the cache -/
def NotHit (g : G) (t : Nat) : Prop :=
  ∀ th o, g.threads[t]? = some th → th.out = some o → o.xcache ≠ .hit

theorem lookup_none_of_sub {a b : Store} (h : StoreSub a b) {k : Key} (hk : b.lookup k = none) : a.lookup k = none := by
  cases ha : a.lookup k with
  | none => rfl
  | some sl => rw [h k sl ha] at hk; cases hk

theorem notHit_set_other {g : G} {t u : Nat} {th' : Thread} (hne : u ≠ t) (h : NotHit g t) (g0 : G)
    (hth : g0.threads = g.threads) : NotHit (g0.setThread u th') t := by
  intro th o ht ho
  simp only [G.setThread, hth] at ht
  rw [getElem?_set_other hne] at ht
  exact h th o ht ho

/-- one step: the key stays absent, and thread `t` (whose key it is) is still not answered from the cache -/
theorem step_absent {cfg : Config} (hmb : cfg.maxBytes < 2 ^ 63) {g g' : G} (hi : Inv cfg g) {u : Nat}
    (hs : step cfg g u = some g') (k : Key) (hk : g.sh.store.lookup k = none)
    (hns : storesKey cfg g k (.step u) = false)
    (t : Nat) (hkey : ∀ th, g.threads[t]? = some th → mkKey th.req = k) (hq : NotHit g t) :
    g'.sh.store.lookup k = none ∧ NotHit g' t ∧ (∀ th, g'.threads[t]? = some th → mkKey th.req = k) := by
  unfold step at hs
  cases hu : g.threads[u]? with
  | none => rw [hu] at hs; cases hs
  | some th =>
    rw [hu] at hs
    simp only at hs
    have hth := hi.th u th hu
    unfold ThOK at hth
    -- a step that leaves the shared state alone and gives thread `u` the thread `th'` with the same
    -- request, whose output is absent or not a hit
    have local_ok : ∀ (g0 : G) (th' : Thread), g0.sh = g.sh → g0.threads = g.threads → th'.req = th.req →
        (∀ o, th'.out = some o → o.xcache ≠ .hit) →
        (g0.setThread u th').sh.store.lookup k = none ∧ NotHit (g0.setThread u th') t ∧
          (∀ x, (g0.setThread u th').threads[t]? = some x → mkKey x.req = k) := by
      intro g0 th' hsh hthr hreq hout
      refine ⟨by simp only [G.setThread, hsh]; exact hk, ?_, ?_⟩
      · by_cases hut : u = t
        · subst hut
          intro x o hx ho
          simp only [G.setThread, hthr] at hx
          rw [getElem?_set_self' hu] at hx; cases hx
          exact hout o ho
        · exact notHit_set_other hut hq g0 hthr
      · intro x hx
        simp only [G.setThread, hthr] at hx
        by_cases hut : u = t
        · subst hut
          rw [getElem?_set_self' hu] at hx; cases hx
          rw [hreq]; exact hkey th hu
        · rw [getElem?_set_other hut] at hx; exact hkey x hx
    cases hpc : th.pc with
    | start =>
      rw [hpc] at hs hth
      simp only at hs hth
      have hno : ∀ o, th.out = some o → o.xcache ≠ .hit := by intro o ho; rw [hth.1] at ho; cases ho
      by_cases h1 : cfg.disabled = true
      · rw [if_pos h1] at hs; cases hs; exact local_ok g _ rfl rfl rfl hno
      · rw [if_neg h1] at hs
        by_cases h2 : hasDirective th.req.cc Facts.noStore = true
        · rw [if_pos h2] at hs; cases hs; exact local_ok g _ rfl rfl rfl hno
        · rw [if_neg h2] at hs
          by_cases h3 : (!cfg.effMethods.contains th.req.method) = true
          · rw [if_pos h3] at hs; cases hs; exact local_ok g _ rfl rfl rfl hno
          · rw [if_neg h3] at hs; cases hs; exact local_ok g _ rfl rfl rfl hno
    | bypass x =>
      rw [hpc] at hs hth; simp only at hs hth; cases hs
      have hx : x ≠ .hit := by
        rcases hth.2.2 with ⟨hx, _⟩ | ⟨hx, _⟩ <;> (rw [hx]; simp)
      exact local_ok g _ rfl rfl rfl (by intro o ho; simp at ho; subst ho; simpa [passThrough] using hx)
    | wantLock1 =>
      rw [hpc] at hs hth; simp only at hs hth
      cases hm : g.mux with
      | some _ => rw [hm] at hs; cases hs
      | none =>
        rw [hm] at hs; cases hs
        exact local_ok { g with mux := some u } _ rfl rfl rfl (by intro o ho; simp at ho; rw [hth.1] at ho; cases ho)
    | sec1 =>
      rw [hpc] at hs hth; simp only at hs hth
      have hno : ∀ o, th.out = some o → o.xcache ≠ .hit := by intro o ho; rw [hth.1] at ho; cases ho
      cases hr : sec1 cfg g.sh g.ts g.uts th.req (mkKey th.req) with
      | panic =>
        rw [hr] at hs; cases hs
        exact local_ok g _ rfl rfl rfl hno
      | hit o' =>
        rw [hr] at hs; cases hs
        rcases sec1_hit hi.clock hr with ⟨sl, hl, _⟩
        by_cases hut : u = t
        · -- thread `t` itself cannot hit: its key is absent
          exfalso
          subst hut
          rw [hkey th hu, hk] at hl; cases hl
        · refine ⟨hk, notHit_set_other hut hq { g with mux := none } rfl, ?_⟩
          intro x hx
          simp only [G.setThread] at hx
          rw [getElem?_set_other hut] at hx; exact hkey x hx
      | pass sh' =>
        rw [hr] at hs; cases hs
        have hk' : sh'.store.lookup k = none := lookup_none_of_sub (sec1_sub hmb hi.sh hr) hk
        refine ⟨hk', ?_, ?_⟩
        · by_cases hut : u = t
          · subst hut
            intro x o hx ho
            simp only [G.setThread] at hx
            rw [getElem?_set_self' hu] at hx; cases hx
            simp at ho; exact hno o ho
          · exact notHit_set_other hut hq { g with mux := none, sh := sh' } rfl
        · intro x hx
          simp only [G.setThread] at hx
          by_cases hut : u = t
          · subst hut; rw [getElem?_set_self' hu] at hx; cases hx; exact hkey th hu
          · rw [getElem?_set_other hut] at hx; exact hkey x hx
    | next =>
      rw [hpc] at hs hth; simp only at hs hth
      by_cases he : th.req.err = true
      · rw [if_pos he] at hs; cases hs
        exact local_ok g _ rfl rfl rfl (by intro o ho; simp at ho; subst ho; simp [passThrough])
      · rw [if_neg he] at hs; cases hs
        exact local_ok g _ rfl rfl rfl (by intro o ho; simp at ho; rw [hth.1] at ho; cases ho)
    | afterNext =>
      rw [hpc] at hs hth; simp only at hs hth
      by_cases hc : (!cacheable th.req.resp.status) = true
      · rw [if_pos hc] at hs; cases hs
        exact local_ok g _ rfl rfl rfl (by intro o ho; simp at ho; subst ho; simp [passThrough])
      · rw [if_neg hc] at hs; cases hs
        exact local_ok g _ rfl rfl rfl (by intro o ho; simp at ho; rw [hth.1] at ho; cases ho)
    | wantLock2 =>
      rw [hpc] at hs hth; simp only at hs hth
      cases hm : g.mux with
      | some _ => rw [hm] at hs; cases hs
      | none =>
        rw [hm] at hs; cases hs
        exact local_ok { g with mux := some u } _ rfl rfl rfl (by intro o ho; simp at ho; rw [hth.1] at ho; cases ho)
    | sec2 =>
      rw [hpc] at hs hth; simp only at hs hth
      have hres := sec2_ok hmb hi.sh th.ts g.uts th.req (mkKey th.req)
      cases hr : sec2 cfg g.sh th.ts g.uts th.req (mkKey th.req) with
      | panic =>
        rw [hr] at hs; cases hs
        exact local_ok { g with mux := none } _ rfl rfl rfl (by intro o ho; simp at ho; rw [hth.1] at ho; cases ho)
      | unreachable =>
        rw [hr] at hs; cases hs
        exact local_ok { g with mux := none } _ rfl rfl rfl (by intro o ho; simp at ho; subst ho; simp [passThrough])
      | stored sh' =>
        rw [hr] at hs hres; cases hs
        have hne : mkKey th.req ≠ k := by
          intro he
          simp only [storesKey, hu, hpc, hr] at hns
          simp [he] at hns
        cases hres with
        | stored _ idx mid hsh' hst hsub hskip =>
          have hk' : sh'.store.lookup k = none := by
            rcases hst with hst | hst
            · rw [hst, lookup_set]
              have : ¬ k = mkKey th.req := fun e => hne e.symm
              simp only [this, if_false]
              exact lookup_none_of_sub hsub hk
            · rw [hst]; exact lookup_none_of_sub hsub hk
          refine ⟨hk', ?_, ?_⟩
          · by_cases hut : u = t
            · subst hut
              intro x o hx ho
              simp only [G.setThread] at hx
              rw [getElem?_set_self' hu] at hx; cases hx
              simp at ho; subst ho; simp [passThrough]
            · exact notHit_set_other hut hq { g with mux := none, sh := sh' } rfl
          · intro x hx
            simp only [G.setThread] at hx
            by_cases hut : u = t
            · subst hut; rw [getElem?_set_self' hu] at hx; cases hx; exact hkey th hu
            · rw [getElem?_set_other hut] at hx; exact hkey x hx
    | done => rw [hpc] at hs; cases hs
    | panicked => rw [hpc] at hs; cases hs

theorem exec_absent {cfg : Config} (hmb : cfg.maxBytes < 2 ^ 63) {g : G} (hi : Inv cfg g) (e : Ev) (k : Key)
    (hk : g.sh.store.lookup k = none) (hns : storesKey cfg g k e = false)
    (t : Nat) (hkey : ∀ th, g.threads[t]? = some th → mkKey th.req = k) (hq : NotHit g t) :
    (exec cfg g e).sh.store.lookup k = none ∧ NotHit (exec cfg g e) t ∧
      (∀ th, (exec cfg g e).threads[t]? = some th → mkKey th.req = k) := by
  cases e with
  | step u =>
    simp only [exec]
    cases hs : step cfg g u with
    | none => exact ⟨hk, hq, hkey⟩
    | some g' => exact step_absent hmb hi hs k hk hns t hkey hq
  | tickTs d => exact ⟨hk, hq, hkey⟩
  | tickUts d => exact ⟨hk, hq, hkey⟩

theorem run_absent {cfg : Config} (hmb : cfg.maxBytes < 2 ^ 63) (evs : List Ev) {g : G} (hi : Inv cfg g) (k : Key)
    (hk : g.sh.store.lookup k = none) (hns : noStoreOf cfg k g evs = true)
    (t : Nat) (hkey : ∀ th, g.threads[t]? = some th → mkKey th.req = k) (hq : NotHit g t) :
    (run cfg g evs).sh.store.lookup k = none ∧ NotHit (run cfg g evs) t := by
  unfold run
  induction evs generalizing g with
  | nil => exact ⟨hk, hq⟩
  | cons e es ih =>
    simp only [noStoreOf, Bool.and_eq_true, Bool.not_eq_true'] at hns
    rcases exec_absent hmb hi e k hk hns.1 t hkey hq with ⟨h1, h2, h3⟩
    exact ih (exec_inv hmb hi e) h1 hns.2 h3 h2

/-- an unfinished thread has not been answered at all -/
theorem notHit_of_unfinished {cfg : Config} {g : G} (hi : Inv cfg g) {t : Nat} {th : Thread}
    (ht : g.threads[t]? = some th) (hpc : th.pc ≠ .done) : NotHit g t := by
  intro x o hx ho
  rw [ht] at hx; cases hx
  have hok := hi.th t th ht
  unfold ThOK at hok
  cases h : th.pc <;> simp only [h] at hok
  all_goals first
    | (rw [hok.1] at ho; cases ho)
    | exact absurd h hpc
    | exact hok.elim

/-! ### progress measure: the number of steps the requests still have to take (at most) -/

def Pc.rem : Pc → Nat
  | .start => 7 | .wantLock1 => 6 | .sec1 => 5 | .next => 4 | .afterNext => 3 | .wantLock2 => 2 | .sec2 => 1
  | .bypass _ => 1 | .done => 0 | .panicked => 0

def G.remaining (g : G) : Nat := (g.threads.map fun th => th.pc.rem).sum

theorem sum_set_lt {α} (f : α → Nat) : ∀ (l : List α) (t : Nat) (a c : α), l[t]? = some a → f c < f a →
    ((l.set t c).map f).sum < (l.map f).sum := by
  intro l
  induction l with
  | nil => intro t a c h; simp at h
  | cons x xs ih =>
    intro t a c h hlt
    cases t with
    | zero => simp at h; subst h; simp only [List.set_cons_zero, List.map_cons, List.sum_cons]; omega
    | succ n =>
      simp at h
      have := ih n a c h hlt
      simp only [List.set_cons_succ, List.map_cons, List.sum_cons]; omega

theorem remaining_setThread {g g0 : G} {t : Nat} {th th' : Thread} (ht : g.threads[t]? = some th)
    (hthr : g0.threads = g.threads) (hlt : th'.pc.rem < th.pc.rem) : (g0.setThread t th').remaining < g.remaining := by
  unfold G.remaining G.setThread
  simp only [hthr]
  exact sum_set_lt (fun th => th.pc.rem) g.threads t th th' ht hlt

/-- every step a thread takes brings the run closer to its end -/
theorem step_remaining {cfg : Config} {g g' : G} {t : Nat} (hs : step cfg g t = some g') : g'.remaining < g.remaining := by
  unfold step at hs
  cases ht : g.threads[t]? with
  | none => rw [ht] at hs; cases hs
  | some th =>
    rw [ht] at hs
    simp only at hs
    cases hpc : th.pc with
    | start =>
      rw [hpc] at hs; simp only at hs
      split at hs
      · cases hs; exact remaining_setThread ht rfl (by simp [hpc, Pc.rem])
      · split at hs
        · cases hs; exact remaining_setThread ht rfl (by simp [hpc, Pc.rem])
        · split at hs
          · cases hs; exact remaining_setThread ht rfl (by simp [hpc, Pc.rem])
          · cases hs; exact remaining_setThread ht rfl (by simp [hpc, Pc.rem])
    | bypass x =>
      rw [hpc] at hs; simp only at hs; cases hs
      exact remaining_setThread ht rfl (by simp [hpc, Pc.rem])
    | wantLock1 =>
      rw [hpc] at hs; simp only at hs
      cases hm : g.mux with
      | some _ => rw [hm] at hs; cases hs
      | none => rw [hm] at hs; cases hs; exact remaining_setThread (g0 := { g with mux := some t }) ht rfl (by simp [hpc, Pc.rem])
    | sec1 =>
      rw [hpc] at hs; simp only at hs
      cases hr : sec1 cfg g.sh g.ts g.uts th.req (mkKey th.req) with
      | panic => rw [hr] at hs; cases hs; exact remaining_setThread ht rfl (by simp [hpc, Pc.rem])
      | hit o => rw [hr] at hs; cases hs; exact remaining_setThread (g0 := { g with mux := none }) ht rfl (by simp [hpc, Pc.rem])
      | pass sh => rw [hr] at hs; cases hs; exact remaining_setThread (g0 := { g with mux := none, sh := sh }) ht rfl (by simp [hpc, Pc.rem])
    | next =>
      rw [hpc] at hs; simp only at hs
      split at hs
      · cases hs; exact remaining_setThread ht rfl (by simp [hpc, Pc.rem])
      · cases hs; exact remaining_setThread ht rfl (by simp [hpc, Pc.rem])
    | afterNext =>
      rw [hpc] at hs; simp only at hs
      split at hs
      · cases hs; exact remaining_setThread ht rfl (by simp [hpc, Pc.rem])
      · cases hs; exact remaining_setThread ht rfl (by simp [hpc, Pc.rem])
    | wantLock2 =>
      rw [hpc] at hs; simp only at hs
      cases hm : g.mux with
      | some _ => rw [hm] at hs; cases hs
      | none => rw [hm] at hs; cases hs; exact remaining_setThread (g0 := { g with mux := some t }) ht rfl (by simp [hpc, Pc.rem])
    | sec2 =>
      rw [hpc] at hs; simp only at hs
      cases hr : sec2 cfg g.sh th.ts g.uts th.req (mkKey th.req) with
      | panic => rw [hr] at hs; cases hs; exact remaining_setThread (g0 := { g with mux := none }) ht rfl (by simp [hpc, Pc.rem])
      | unreachable => rw [hr] at hs; cases hs; exact remaining_setThread (g0 := { g with mux := none }) ht rfl (by simp [hpc, Pc.rem])
      | stored sh => rw [hr] at hs; cases hs; exact remaining_setThread (g0 := { g with mux := none, sh := sh }) ht rfl (by simp [hpc, Pc.rem])
    | done => rw [hpc] at hs; cases hs
    | panicked => rw [hpc] at hs; cases hs

theorem exists_pos_of_sum_pos {α} (f : α → Nat) : ∀ (l : List α), 0 < (l.map f).sum → ∃ (t : Nat) (a : α), l[t]? = some a ∧ 0 < f a := by
  intro l
  induction l with
  | nil => intro h; simp at h
  | cons x xs ih =>
    intro h
    by_cases hx : 0 < f x
    · exact ⟨0, x, by simp, hx⟩
    · have : 0 < (xs.map f).sum := by simp at h; omega
      rcases ih this with ⟨t, a, h1, h2⟩
      exact ⟨t + 1, a, by simpa using h1, h2⟩

theorem sum_zero_of_all {α} (f : α → Nat) : ∀ (l : List α), (l.map f).sum = 0 → ∀ (t : Nat) (a : α), l[t]? = some a → f a = 0 := by
  intro l
  induction l with
  | nil => intro _ t a h; simp at h
  | cons x xs ih =>
    intro h t a ht
    simp at h
    cases t with
    | zero => simp at ht; subst ht; exact h.1
    | succ n => simp at ht; exact ih h.2 n a ht

/-! ### small helpers for Props.lean -/

theorem effCType_idem (c : Bytes) : effCType (effCType c) = effCType c := by
  unfold effCType
  by_cases h : c.isEmpty = true
  · simp [h, defaultCType, b]
  · simp [h]

theorem append_sep_inj {x : Nat} : ∀ (a c bs d : List Nat), x ∉ bs → x ∉ d → a ++ x :: bs = c ++ x :: d → a = c ∧ bs = d := by
  intro a
  induction a with
  | nil =>
    intro c bs d hb hd h
    cases c with
    | nil => simp at h; exact ⟨rfl, h⟩
    | cons y c' =>
      simp at h
      exact absurd (by rw [h.2]; simp) hb
  | cons y a' ih =>
    intro c bs d hb hd h
    cases c with
    | nil =>
      simp at h
      exact absurd (by rw [← h.2]; simp) hd
    | cons z c' =>
      simp at h
      rcases ih c' bs d hb hd h.2 with ⟨h1, h2⟩
      exact ⟨by rw [h.1, h1], h2⟩



theorem getElem?_getD_default {α} [Inhabited α] {l : List α} {t : Nat} (h : t < l.length) :
    l[t]? = some (l[t]?.getD default) := by
  simp [List.getElem?_eq_getElem h]

theorem some_getD_default {α} [Inhabited α] {x : Option α} (h : x.isSome = true) : x = some (x.getD default) := by
  cases x with
  | none => cases h
  | some a => rfl

end C14
