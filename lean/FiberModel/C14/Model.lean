import FiberModel.C14.Heap
import FiberModel.Generated.C14Facts
/-
C14 — executable model of the cache middleware handler (middleware/cache/cache.go `New`, as
repaired by the `fix: cache: …` commits), `manager` (manager.go) over either storage, and a small
interleaving semantics: requests are threads of atomic steps over one global state.

Clocks. The cache reads its own coarse clock `timestamp` (refreshed every
`Facts.timestampUpdatePeriodMs`, whole seconds), the storages expire entries by *their* clock
(`utils.Timestamp()` for internal/memory, refreshed every second). Both are components of the
global state (`ts`, `uts`) advanced by separate tick events, so every theorem holds for any skew.

Storage faults. An injected `fiber.Storage` may fail: every request carries, per critical section, the
outcomes of the storage calls it makes there, in order (`Req.f1`, `Req.f2`; internal/memory cannot fail).
`Get` of the entry may fail or deliver a value that does not decode (→ no entry), `Get` of the body may
fail (→ not served from the cache), `Set` and `Delete` may fail and the code ignores that (manager.go,
"TODO: Handle error here"): the entry and its separately stored body can then part. The model keeps the
bodies of an injected storage in their own map (`Shared.bodies`; for internal/memory a ghost copy kept in
step) and records as ghost state the keys whose `Set`/`Delete` failed and has not been made good since
(`Shared.dirty`).

Core Lean only (linked into the driver).
-/
namespace C14
open B

/-! ### Go `uint` arithmetic (64-bit, wraps) -/
def U64 : Nat := 2 ^ 64
def uadd (a b : Nat) : Nat := (a + b) % U64
def usub (a b : Nat) : Nat := (a + (U64 - b % U64)) % U64

/-! ### data -/

/-- what the origin handler produces, as far as the property names it -/
structure Resp where
  status : Nat
  body : Bytes
  ctype : Bytes                       -- Content-Type as set by the handler ([] = not set)
  cenc : Bytes                        -- Content-Encoding ([] = not set)
  headers : List (Bytes × Bytes)      -- further response headers (canonical names, distinct)
deriving DecidableEq, Repr, Inhabited

/-- manager.go `item` -/
structure Item where
  status : Nat
  body : Bytes
  ctype : Bytes
  cenc : Bytes
  headers : List (Bytes × Bytes)
  exp : Nat
  heapidx : Nat
deriving DecidableEq, Repr, Inhabited

/-- a stored item with the storage's own expiry (`0` = never; internal/memory `item.e`) -/
structure Slot where
  item : Item
  sexp : Nat
deriving DecidableEq, Repr, Inhabited

abbrev Store := List (Key × Slot)

structure Config where
  ext : Bool                 -- cfg.Storage != nil (injected fiber.Storage) vs internal/memory
  stTTL : Bool               -- the external storage honours the TTL it is given (memory always does)
  maxBytes : Nat             -- cfg.MaxBytes
  expiration : Int           -- int(cfg.Expiration.Seconds()) as configured
  storeHeaders : Bool        -- cfg.StoreResponseHeaders
  cacheControl : Bool        -- cfg.CacheControl
  methods : List Bytes       -- cfg.Methods as configured
deriving Repr, Inhabited

/-- config.go `configDefault` -/
def Config.effExpiration (c : Config) : Nat :=
  if c.expiration == 0 then Facts.defaultExpirationSecs else c.expiration.toNat
def Config.effMethods (c : Config) : List Bytes :=
  if c.methods.isEmpty then Facts.defaultMethods else c.methods
/-- cache.go New: `if int(cfg.Expiration.Seconds()) < 0` → the middleware is a plain `c.Next()` -/
def Config.disabled (c : Config) : Bool := c.expiration < 0

/-- outcome of one call of the injected storage -/
inductive Fault where
  | ok
  | err        -- the call returns an error
  | garbled    -- `Get` of an entry delivers a value `UnmarshalMsg` rejects (elsewhere: no fault)
deriving DecidableEq, Repr, Inhabited

def faultAt (fs : List Fault) (i : Nat) : Fault := fs.getD i .ok
/-- `Set`, `Delete`, `Get` of a body: the call failed -/
def Fault.fails : Fault → Bool
  | .err => true
  | _ => false
/-- `manager.get`: `Storage.Get` failed, or `UnmarshalMsg` did (repaired: the item is blank then) -/
def Fault.noEntry : Fault → Bool
  | .ok => false
  | _ => true

structure Req where
  method : Bytes
  keyMat : Bytes             -- what cfg.KeyGenerator(c) returns for this request
  cc : Bytes                 -- request Cache-Control header value
  inv : Bool                 -- cfg.CacheInvalidator(c) (false when none is configured)
  skip : Bool                -- cfg.Next(c) (false when none is configured)
  expGen : Option Nat        -- cfg.ExpirationGenerator(c, &cfg) in whole seconds, when configured
  resp : Resp                -- the origin handler's response to this request
  err : Bool := false        -- the origin handler returns an error: `c.Next()` ≠ nil, the middleware returns it
                             -- unchanged and fiber's ErrorHandler writes `resp`
  f1 : List Fault := []      -- outcomes of the storage calls of the first critical section, in call order
  f2 : List Fault := []      -- … of the second critical section
deriving DecidableEq, Repr, Inhabited

inductive XCache | absent | hit | miss | unreachable
deriving DecidableEq, Repr, Inhabited

/-- the response leaving the middleware, as far as observed -/
structure Out where
  xcache : XCache
  status : Nat
  body : Bytes
  ctype : Bytes
  cenc : Bytes
  headers : List (Bytes × Bytes)
deriving DecidableEq, Repr, Inhabited

/-! ### helpers -/

def defaultCType : Bytes := b "text/plain; charset=utf-8"
/-- fasthttp `ResponseHeader.ContentType()`: the default when none was set -/
def effCType (c : Bytes) : Bytes := if c.isEmpty then defaultCType else c

/-- cache.go `hasRequestDirective` (repaired: case-insensitive) -/
def hasDirective (cc d : Bytes) : Bool := (indexOf (toLower cc) d).isSome

def cacheable (status : Nat) : Bool := Facts.cacheableStatusCodes.contains status

/-- `key := cfg.KeyGenerator(c) + "_" + requestMethod` -/
def mkKey (q : Req) : Key := q.keyMat ++ b "_" ++ q.method

def setHdr (hs : List (Bytes × Bytes)) (k v : Bytes) : List (Bytes × Bytes) :=
  if hs.any (·.1 == k) then hs.map fun p => if p.1 == k then (k, v) else p else hs ++ [(k, v)]

/-- the headers kept with `StoreResponseHeaders`: everything `VisitAll` shows that is not in
    `ignoreHeaders` (exact match on the canonical name) -/
def storedHeaders (cfg : Config) (r : Resp) : List (Bytes × Bytes) :=
  if cfg.storeHeaders then r.headers.filter fun p => !Facts.ignoreHeaders.contains p.1 else []

/-- the origin response passing through the middleware with the given cache status -/
def passThrough (x : XCache) (r : Resp) : Out :=
  { xcache := x, status := r.status, body := r.body, ctype := effCType r.ctype, cenc := r.cenc,
    headers := r.headers }

/-! ### storage (manager.go over internal/memory or an injected fiber.Storage) -/

def Store.lookup : Store → Key → Option Slot
  | [], _ => none
  | (k', sl) :: t, k => if k' = k then some sl else Store.lookup t k

def Slot.expired (sl : Slot) (uts : Nat) : Bool := sl.sexp != 0 && sl.sexp ≤ uts

/-- memory.Get / Storage.Get: expired entries are not returned -/
def Store.get (s : Store) (k : Key) (uts : Nat) : Option Item :=
  match s.lookup k with
  | some sl => if sl.expired uts then none else some sl.item
  | none => none

def Store.erase (s : Store) (k : Key) : Store := s.filter (·.1 != k)
def Store.set (s : Store) (k : Key) (sl : Slot) : Store := (k, sl) :: s.erase k

/-- sum of the body sizes the storage holds (what the harness measures in the injected storage) -/
def Store.held (s : Store) (uts : Nat) : Nat :=
  ((s.filter fun p => !p.2.expired uts).map fun p => p.2.item.body.length).sum

/-- the separately stored body of an injected storage (`key + "_body"`) with the storage's own expiry -/
structure BSlot where
  body : Bytes
  sexp : Nat
deriving DecidableEq, Repr, Inhabited

abbrev BStore := List (Key × BSlot)

def BStore.lookup : BStore → Key → Option BSlot
  | [], _ => none
  | (k', sl) :: t, k => if k' = k then some sl else BStore.lookup t k
def BStore.erase (s : BStore) (k : Key) : BStore := s.filter (·.1 != k)
def BStore.set (s : BStore) (k : Key) (sl : BSlot) : BStore := (k, sl) :: s.erase k
def BSlot.expired (sl : BSlot) (uts : Nat) : Bool := sl.sexp != 0 && sl.sexp ≤ uts
/-- `Storage.Get(key + "_body")`: `nil` when absent or expired -/
def BStore.get (s : BStore) (k : Key) (uts : Nat) : Bytes :=
  match s.lookup k with
  | some sl => if sl.expired uts then [] else sl.body
  | none => []
/-- sum of the sizes of the bodies the storage holds (what the harness measures in the injected storage) -/
def BStore.held (s : BStore) (uts : Nat) : Nat :=
  ((s.filter fun p => !p.2.expired uts).map fun p => p.2.body.length).sum

/-- what `manager.get` yields for a key the external storage does not have: a blank pooled item -/
def blankItem : Item := ⟨0, [], [], [], [], 0, 0⟩

/-! ### the state protected by `mux`, and the two critical sections -/

structure Shared where
  store : Store              -- the entries (`manager.set(key, e)`); `item.body` is what the entry was built with
  heap : Heap
  stored : Nat               -- storedBytes (uint)
  bodies : BStore            -- injected storage: the `key_body` values; internal/memory: ghost copy, kept in step
  dirty : List Key           -- ghost: keys with a failed `Set`/`Delete` not made good by a later complete one
deriving Repr, Inhabited

def Shared.empty : Shared := { store := [], heap := Heap.empty, stored := 0, bodies := [], dirty := [] }

def markDirty (d : List Key) (k : Key) (failed : Bool) : List Key :=
  if failed then k :: d.filter (· != k) else d.filter (· != k)

/-- `deleteKey(dkey)`: `manager.del(dkey)` and, with an injected storage, `manager.del(dkey + "_body")`;
    `d1`, `d2` are the outcomes of the two `Storage.Delete` calls – an error is ignored by the code and
    the value stays (internal/memory cannot fail) -/
def Shared.deleteKey (cfg : Config) (sh : Shared) (k : Key) (d1 d2 : Fault) : Shared :=
  let x1 := cfg.ext && d1.fails
  let x2 := cfg.ext && d2.fails
  { sh with store := if x1 then sh.store else sh.store.erase k,
            bodies := if x2 then sh.bodies else sh.bodies.erase k,
            dirty := markDirty sh.dirty k (x1 || x2) }

inductive Sec1 where
  | panic                          -- a heap index expression panicked (mutex stays locked)
  | hit (o : Out)                  -- served from the cache
  | pass (sh : Shared)             -- continue to the origin handler
deriving Repr

/-- the response replayed on a hit -/
def replay (cfg : Config) (e : Item) (ts : Nat) : Out :=
  let hs := e.headers
  let hs := if cfg.cacheControl then
      setHdr hs (b "Cache-Control") (b "public, max-age=" ++ natToDec (e.exp - ts)) else hs
  { xcache := .hit, status := e.status, body := e.body, ctype := effCType e.ctype, cenc := e.cenc,
    headers := hs }

/-- `e := manager.get(key)`: the stored item, `nil` when internal/memory has none (or it expired
    there); an external storage yields a blank pooled item instead of `nil` – also when `Storage.Get`
    fails or the value does not decode (`g`: outcome of that call) -/
def lookup1 (cfg : Config) (sh : Shared) (uts : Nat) (key : Key) (g : Fault) : Option Item :=
  if cfg.ext && g.noEntry then some blankItem
  else match sh.store.get key uts with
    | some it => some it
    | none => if cfg.ext then some blankItem else none

/-- `if cfg.CacheInvalidator != nil && cfg.CacheInvalidator(c) { e.exp = ts - 1 }` – `ts` is a `uint64`:
    at clock value 0 the subtraction wraps -/
def applyInv (q : Req) (ts : Nat) (e : Item) : Item :=
  if q.inv then { e with exp := if ts = 0 then U64 - 1 else ts - 1 } else e

/-- `if size, ok := heap.removeKey(key); ok { storedBytes -= size }` (both critical sections): the
    heap entry tracking `key`, if there is one, leaves the heap and the count -/
def dropTracked (sh : Shared) (key : Key) : Option Shared :=
  match sh.heap.removeKey key with
  | none => none
  | some (h, some size) => some { sh with heap := h, stored := usub sh.stored size }
  | some (h, none) => some { sh with heap := h }

/-- the expiry branch: `deleteKey(key); if cfg.MaxBytes > 0 { if size, ok := heap.removeKey(key); ok
    { storedBytes -= size } }` -/
def sec1Expire (cfg : Config) (sh : Shared) (key : Key) (d1 d2 : Fault) : Sec1 :=
  let sh := sh.deleteKey cfg key d1 d2
  if cfg.maxBytes > 0 then
    match dropTracked sh key with
    | none => .panic
    | some sh => .pass sh
  else .pass sh

def itemExpired (e : Item) (ts : Nat) : Bool := e.exp != 0 && ts ≥ e.exp

/-- the body replayed on a hit: with an injected storage what `Storage.Get(key + "_body")` delivers now -/
def hitBody (cfg : Config) (sh : Shared) (uts : Nat) (key : Key) (e : Item) : Bytes :=
  if cfg.ext then sh.bodies.get key uts else e.body

/-- `if e.exp != 0 && ts >= e.exp {…} else if e.exp != 0 && !hasRequestDirective(c, noCache) &&
    manager.loadBody(key, e) {…hit…}`; storage calls after the entry `Get` (outcomes `f1[1]`, `f1[2]`): the two
    `Delete`s of the expiry branch, or the body `Get` of a hit (repaired: when it fails nothing is served) -/
def sec1Found (cfg : Config) (sh : Shared) (ts uts : Nat) (q : Req) (key : Key) (e : Item) : Sec1 :=
  if itemExpired e ts then sec1Expire cfg sh key (faultAt q.f1 1) (faultAt q.f1 2)
  else if e.exp != 0 && !hasDirective q.cc Facts.noCache then
    if cfg.ext && (faultAt q.f1 1).fails then .pass sh
    else .hit (replay cfg { e with body := hitBody cfg sh uts key e } ts)
  else .pass sh

/-- cache.go handler, first critical section: `mux.Lock(); e := manager.get(key); ts := …;`
    invalidation / expiry / hit; `mux.Unlock()` -/
def sec1 (cfg : Config) (sh : Shared) (ts uts : Nat) (q : Req) (key : Key) : Sec1 :=
  match lookup1 cfg sh uts key (faultAt q.f1 0) with
  | none => .pass sh
  | some e => sec1Found cfg sh ts uts q key (applyInv q ts e)

inductive Sec2 where
  | panic
  | unreachable                    -- not stored
  | stored (sh : Shared)
deriving Repr

/-- `for storedBytes+bodySize > cfg.MaxBytes { key, size := heap.removeFirst(); deleteKey(key);
    storedBytes -= size }` (fuel: one more than the heap holds – the last iteration would panic); `fs`: the
    outcomes of the storage calls still to come in this section (two `Delete`s per round with an injected
    storage); returns the outcomes left for the `Set`s -/
def evict (cfg : Config) (bodySize : Nat) : Nat → List Fault → Shared → Option (Shared × List Fault)
  | 0, _, _ => none
  | f + 1, fs, sh =>
    if uadd sh.stored bodySize > cfg.maxBytes then
      match sh.heap.removeFirst with
      | none => none
      | some (h, x) =>
        evict cfg bodySize f (if cfg.ext then fs.drop 2 else fs)
          { (sh.deleteKey cfg x.key (faultAt fs 0) (faultAt fs 1)) with heap := h, stored := usub sh.stored x.bytes }
    else some (sh, fs)

def expSecs (cfg : Config) (q : Req) : Nat :=
  match q.expGen with
  | some s => s
  | none => cfg.effExpiration

def mkItem (cfg : Config) (q : Req) (ts : Nat) (heapidx : Nat) : Item :=
  { status := q.resp.status, body := q.resp.body, ctype := effCType q.resp.ctype, cenc := q.resp.cenc,
    headers := storedHeaders cfg q.resp, exp := ts + expSecs cfg q, heapidx := heapidx }

/-- storage-side expiry of a `Set(key, val, ttl)`: memory.Set `if ttl > 0 { exp = ttl + Timestamp() }` -/
def storageExp (cfg : Config) (q : Req) (uts : Nat) : Nat :=
  if (cfg.stTTL || !cfg.ext) && expSecs cfg q > 0 then uts + expSecs cfg q else 0

/-- `manager.setRaw(key+"_body", e.body, expiration); e.body = nil; manager.set(key, e, expiration)` (injected
    storage; outcomes `s1`, `s2` of the two `Storage.Set` calls, errors are ignored by the code) resp.
    `manager.set(key, e, expiration)` (internal/memory) -/
def Shared.setKey (cfg : Config) (sh : Shared) (key : Key) (it : Item) (sexp : Nat) (s1 s2 : Fault) : Shared :=
  let x1 := cfg.ext && s1.fails
  let x2 := cfg.ext && s2.fails
  { sh with store := if x2 then sh.store else sh.store.set key ⟨it, sexp⟩,
            bodies := if x1 then sh.bodies else sh.bodies.set key ⟨it.body, sexp⟩,
            dirty := markDirty sh.dirty key (x1 || x2) }

/-- the part of the second section after the eviction loop: build the item, `heap.put`,
    `storedBytes += bodySize`, `manager.setRaw` / `manager.set` -/
def sec2Store (cfg : Config) (sh : Shared) (ts uts : Nat) (q : Req) (key : Key) (fs : List Fault) : Sec2 :=
  if cfg.maxBytes > 0 then
    match sh.heap.put key (ts + expSecs cfg q) q.resp.body.length with
    | none => .panic
    | some (h, idx) =>
      .stored ({ sh with heap := h, stored := uadd sh.stored q.resp.body.length }.setKey cfg key
        (mkItem cfg q ts idx) (storageExp cfg q uts) (faultAt fs 0) (faultAt fs 1))
  else
    .stored (sh.setKey cfg key (mkItem cfg q ts 0) (storageExp cfg q uts) (faultAt fs 0) (faultAt fs 1))

/-- cache.go handler, second critical section (after `c.Next()` returned a cacheable status):
    `cfg.Next`, size check, `heap.removeKey(key)` (the response replaces whatever is tracked for the
    key), eviction loop, then `sec2Store` -/
def sec2 (cfg : Config) (sh : Shared) (ts uts : Nat) (q : Req) (key : Key) : Sec2 :=
  if q.skip then .unreachable
  else if cfg.maxBytes > 0 && q.resp.body.length > cfg.maxBytes then .unreachable
  else if cfg.maxBytes > 0 then
    match dropTracked sh key with
    | none => .panic
    | some sh0 =>
      match evict cfg q.resp.body.length (sh0.heap.live.length + 1) q.f2 sh0 with
      | none => .panic
      | some (sh, fs) => sec2Store cfg sh ts uts q key fs
  else sec2Store cfg sh ts uts q key q.f2

/-! ### threads and the interleaving semantics -/

inductive Pc where
  | start          -- before the no-store / method checks
  | bypass (x : XCache)   -- `return c.Next()` without touching the cache (x: header already set)
  | wantLock1      -- about to `mux.Lock()` (first section)
  | sec1           -- holds the mutex, first section
  | next           -- about to run the origin handler (`c.Next()`), mutex released
  | afterNext      -- handler returned
  | wantLock2
  | sec2           -- holds the mutex, second section
  | done
  | panicked
deriving DecidableEq, Repr, Inhabited

structure Thread where
  req : Req
  pc : Pc := .start
  ts : Nat := 0              -- `ts` read in the first section
  out : Option Out := none
  ran : Bool := false        -- the origin handler was invoked
  taint : Bool := false      -- ghost: when the thread ran its first section, a `Set`/`Delete` of its key had
                             -- failed and not been made good
deriving Repr, Inhabited

structure G where
  sh : Shared
  mux : Option Nat           -- holder of `mux`
  ts : Nat                   -- the cache's `timestamp`
  uts : Nat                  -- the storage's clock
  threads : List Thread
deriving Repr, Inhabited

def G.init (ts uts : Nat) (reqs : List Req) : G :=
  { sh := Shared.empty, mux := none, ts := ts, uts := uts, threads := reqs.map fun q => { req := q } }

def G.setThread (g : G) (t : Nat) (th : Thread) : G := { g with threads := g.threads.set t th }

/-- one atomic step of thread `t`; `none` = not enabled (waiting for `mux`, finished, no such thread) -/
def step (cfg : Config) (g : G) (t : Nat) : Option G :=
  match g.threads[t]? with
  | none => none
  | some th =>
    let q := th.req
    match th.pc with
    | .start =>
      if cfg.disabled then some (g.setThread t { th with pc := .bypass .absent })
      else if hasDirective q.cc Facts.noStore then some (g.setThread t { th with pc := .bypass .absent })
      else if !cfg.effMethods.contains q.method then some (g.setThread t { th with pc := .bypass .unreachable })
      else some (g.setThread t { th with pc := .wantLock1 })
    | .bypass x =>
      some (g.setThread t { th with pc := .done, ran := true, out := some (passThrough x q.resp) })
    | .wantLock1 =>
      match g.mux with
      | some _ => none
      | none => some ({ g with mux := some t }.setThread t { th with pc := .sec1 })
    | .sec1 =>
      let taint := g.sh.dirty.contains (mkKey q)
      match sec1 cfg g.sh g.ts g.uts q (mkKey q) with
      | .panic => some (g.setThread t { th with pc := .panicked, ts := g.ts, taint := taint })
      | .hit o => some ({ g with mux := none }.setThread t { th with pc := .done, ts := g.ts, out := some o, taint := taint })
      | .pass sh => some ({ g with mux := none, sh := sh }.setThread t { th with pc := .next, ts := g.ts, taint := taint })
    | .next =>
      -- `if err := c.Next(); err != nil { return err }`: nothing is stored, no cache-status header
      if q.err then some (g.setThread t { th with pc := .done, ran := true, out := some (passThrough .absent q.resp) })
      else some (g.setThread t { th with pc := .afterNext, ran := true })
    | .afterNext =>
      if !cacheable q.resp.status then
        some (g.setThread t { th with pc := .done, out := some (passThrough .unreachable q.resp) })
      else some (g.setThread t { th with pc := .wantLock2 })
    | .wantLock2 =>
      match g.mux with
      | some _ => none
      | none => some ({ g with mux := some t }.setThread t { th with pc := .sec2 })
    | .sec2 =>
      -- `defer mux.Unlock()`: released on every exit, also on a panic
      match sec2 cfg g.sh th.ts g.uts q (mkKey q) with
      | .panic => some ({ g with mux := none }.setThread t { th with pc := .panicked })
      | .unreachable =>
        some ({ g with mux := none }.setThread t { th with pc := .done, out := some (passThrough .unreachable q.resp) })
      | .stored sh =>
        some ({ g with mux := none, sh := sh }.setThread t { th with pc := .done, out := some (passThrough .miss q.resp) })
    | .done => none
    | .panicked => none

/-- events of a run: a step of a thread, or one of the clocks advancing -/
inductive Ev where
  | step (t : Nat)
  | tickTs (d : Nat)
  | tickUts (d : Nat)
deriving DecidableEq, Repr, Inhabited

def exec (cfg : Config) (g : G) : Ev → G
  | .step t => (step cfg g t).getD g          -- a disabled step is a no-op
  | .tickTs d => { g with ts := g.ts + d }
  | .tickUts d => { g with uts := g.uts + d }

def run (cfg : Config) (g : G) (evs : List Ev) : G := evs.foldl (exec cfg) g

/-- run thread `t` alone until it stops (at most 8 steps: start … done) -/
def runThread (cfg : Config) (g : G) (t : Nat) : G :=
  run cfg g (List.replicate 8 (.step t))

end C14
