import FiberModel.C14.Spec
/-
C14 — lemmas about the heap model: every operation keeps `HInv`, cannot panic on a consistent heap,
and has the expected effect on the index view (`Heap.find`) and on the byte sum.
-/
namespace C14
open B
set_option linter.unusedSimpArgs false

/-! ### list helpers -/

theorem sumBytes_nil : sumBytes [] = 0 := rfl
theorem sumBytes_cons (e : HEntry) (l : List HEntry) : sumBytes (e :: l) = e.bytes + sumBytes l := by
  simp [sumBytes]
theorem sumBytes_append (l m : List HEntry) : sumBytes (l ++ m) = sumBytes l + sumBytes m := by
  simp [sumBytes]

theorem sumBytes_set (l : List HEntry) (i : Nat) (x e : HEntry) (h : l[i]? = some e) :
    sumBytes (l.set i x) + e.bytes = sumBytes l + x.bytes := by
  induction l generalizing i with
  | nil => simp at h
  | cons a t ih =>
    cases i with
    | zero => simp at h; subst h; simp [sumBytes_cons]; omega
    | succ i => simp at h; have := ih i h; simp [sumBytes_cons]; omega

theorem getElem?_set2 {α} (l : List α) (i j p : Nat) (a c : α) (hi : i < l.length) (hj : j < l.length) :
    ((l.set i c).set j a)[p]? = if p = j then some a else if p = i then some c else l[p]? := by
  simp only [List.getElem?_set, List.length_set]
  by_cases h1 : j = p
  · subst h1; simp [hj]
  · by_cases h2 : i = p
    · subst h2; simp [h1, hi, Ne.symm h1]
    · simp [h1, h2, Ne.symm h1, Ne.symm h2]

theorem find_some_iff {h : Heap} (hi : HInv h) (x : Nat) (e : HEntry) :
    h.find x = some e ↔ e.idx = x ∧ ∃ p : Nat, h.live[p]? = some e := by
  unfold Heap.find
  constructor
  · intro hf
    cases h1 : h.indices[x]? with
    | none => simp [h1] at hf
    | some p =>
      simp only [h1] at hf
      cases h2 : h.live[p]? with
      | none => simp [h2] at hf
      | some e' =>
        simp only [h2] at hf
        by_cases h3 : e'.idx = x
        · simp [h3] at hf; subst hf; exact ⟨h3, p, h2⟩
        · simp [h3] at hf
  · rintro ⟨hx, p, hp⟩
    have := hi.live_ok p e hp
    subst hx
    simp [this, hp]

theorem find_none_of {h : Heap} (hi : HInv h) (x : Nat) (hx : ∀ (p : Nat) (e : HEntry), h.live[p]? = some e → e.idx ≠ x) :
    h.find x = none := by
  cases hf : h.find x with
  | none => rfl
  | some e =>
    rcases (find_some_iff hi x e).mp hf with ⟨h1, p, h2⟩
    exact absurd h1 (hx p e h2)

/-- two heaps whose live entries are the same set have the same index view -/
theorem find_congr {h h' : Heap} (hi : HInv h) (hi' : HInv h')
    (hm : ∀ e, (∃ p : Nat, h'.live[p]? = some e) ↔ (∃ p : Nat, h.live[p]? = some e)) (x : Nat) :
    h'.find x = h.find x := by
  cases h1 : h.find x with
  | none =>
    cases h2 : h'.find x with
    | none => rfl
    | some e =>
      rcases (find_some_iff hi' x e).mp h2 with ⟨a, b⟩
      have := (find_some_iff hi x e).mpr ⟨a, (hm e).mp b⟩
      rw [h1] at this; cases this
  | some e =>
    rcases (find_some_iff hi x e).mp h1 with ⟨a, b⟩
    exact (find_some_iff hi' x e).mpr ⟨a, (hm e).mpr b⟩

/-- relation between a heap and the result of a sift: same entries at possibly other positions -/
structure Same (h h' : Heap) : Prop where
  dead : h'.dead = h.dead
  maxidx : h'.maxidx = h.maxidx
  len : h'.live.length = h.live.length
  sum : sumBytes h'.live = sumBytes h.live
  find : ∀ x, h'.find x = h.find x
  inv : HInv h'

theorem Same.refl {h : Heap} (hi : HInv h) : Same h h := ⟨rfl, rfl, rfl, rfl, fun _ => rfl, hi⟩

theorem Same.trans {a b c : Heap} (h1 : Same a b) (h2 : Same b c) : Same a c :=
  ⟨h2.dead.trans h1.dead, h2.maxidx.trans h1.maxidx, h2.len.trans h1.len, h2.sum.trans h1.sum,
   fun x => (h2.find x).trans (h1.find x), h2.inv⟩

/-! ### swap -/

theorem swap_ok {h : Heap} (hi : HInv h) {i j : Nat} {ei ej : HEntry}
    (hei : h.live[i]? = some ei) (hej : h.live[j]? = some ej) (hne : i ≠ j) :
    ∃ h', h.swap i j = some h' ∧ Same h h' ∧
      h'.live = (h.live.set i ej).set j ei := by
  have hii := hi.live_ok i ei hei
  have hjj := hi.live_ok j ej hej
  have hil : i < h.live.length := by
    rcases List.getElem?_eq_some_iff.mp hei with ⟨hl, _⟩; exact hl
  have hjl : j < h.live.length := by
    rcases List.getElem?_eq_some_iff.mp hej with ⟨hl, _⟩; exact hl
  have hib : ei.idx < h.indices.length := by
    rcases List.getElem?_eq_some_iff.mp hii with ⟨hl, _⟩; exact hl
  have hjb : ej.idx < h.indices.length := by
    rcases List.getElem?_eq_some_iff.mp hjj with ⟨hl, _⟩; exact hl
  have hidx : ei.idx ≠ ej.idx := by
    intro heq; rw [heq] at hii; rw [hii] at hjj; exact hne (Option.some.inj hjj)
  have hinv : HInv { h with live := (h.live.set i ej).set j ei, indices := (h.indices.set ej.idx i).set ei.idx j } := by
    refine ⟨by simp [hi.ind_len], by simp [hi.total], ?_, hi.dead_lt, hi.dead_nodup, ?_⟩
    · intro p e hpe
      simp only [getElem?_set2 _ _ _ _ _ _ hil hjl] at hpe
      simp only [getElem?_set2 _ _ _ _ _ _ hjb hib]
      by_cases hpj : p = j
      · subst hpj
        simp at hpe
        subst hpe
        simp
      · by_cases hpi : p = i
        · subst hpi
          simp [hpj] at hpe
          subst hpe
          simp [Ne.symm hidx]
        · simp [hpj, hpi] at hpe
          have := hi.live_ok p e hpe
          have n1 : e.idx ≠ ei.idx := by
            intro heq; rw [← heq] at hii; rw [hii] at this; exact hpi (Option.some.inj this).symm
          have n2 : e.idx ≠ ej.idx := by
            intro heq; rw [← heq] at hjj; rw [hjj] at this; exact hpj (Option.some.inj this).symm
          simp [n1, n2, this]
    · intro e he d hd
      rcases List.mem_or_eq_of_mem_set he with h1 | h1
      · rcases List.mem_or_eq_of_mem_set h1 with h2 | h2
        · exact hi.disjoint e h2 d hd
        · subst h2; exact hi.disjoint _ (List.mem_of_getElem? hej) d hd
      · subst h1; exact hi.disjoint _ (List.mem_of_getElem? hei) d hd
  refine ⟨{ h with live := (h.live.set i ej).set j ei, indices := (h.indices.set ej.idx i).set ei.idx j }, ?_, ?_, rfl⟩
  · simp [Heap.swap, hei, hej, hjb, hib]
  · refine ⟨rfl, rfl, by simp, ?_, ?_, hinv⟩
    · -- sum
      have h1 := sumBytes_set h.live i ej ei hei
      have h2 := sumBytes_set (h.live.set i ej) j ei ej (by simp [hne, hej])
      simp only; omega
    · -- find
      apply find_congr hi hinv
      intro e
      simp only [getElem?_set2 _ _ _ _ _ _ hil hjl]
      constructor
      · rintro ⟨p, hp⟩
        by_cases hpj : p = j
        · simp [hpj] at hp; subst hp; exact ⟨i, hei⟩
        · by_cases hpi : p = i
          · simp [hpj, hpi] at hp
            have : ¬ i = j := hne
            simp [this] at hp
            subst hp; exact ⟨j, hej⟩
          · simp [hpj, hpi] at hp; exact ⟨p, hp⟩
      · rintro ⟨p, hp⟩
        by_cases hpi : p = i
        · subst hpi; rw [hei] at hp; cases hp; exact ⟨j, by simp⟩
        · by_cases hpj : p = j
          · subst hpj; rw [hej] at hp; cases hp; exact ⟨i, by simp [hne]⟩
          · exact ⟨p, by simp [hpi, hpj, hp]⟩

theorem lt_of_getElem? {α} {l : List α} {i : Nat} {a : α} (h : l[i]? = some a) : i < l.length := by
  rcases List.getElem?_eq_some_iff.mp h with ⟨hl, _⟩; exact hl

theorem less_ok (h : Heap) {i j : Nat} (hi : i < h.live.length) (hj : j < h.live.length) :
    ∃ r, h.less i j = some r := by
  simp [Heap.less, List.getElem?_eq_getElem hi, List.getElem?_eq_getElem hj]

/-! ### up / down -/

theorem up_ok : ∀ (f : Nat) {h : Heap}, HInv h → ∀ (j : Nat), j < h.live.length → j < f →
    ∃ h', h.up f j = some h' ∧ Same h h' ∧ ∀ p : Nat, j < p → h'.live[p]? = h.live[p]? := by
  intro f
  induction f with
  | zero => intro h _ j _ hf; omega
  | succ f ih =>
    intro h hi j hj hf
    unfold Heap.up
    simp only
    by_cases hij : ((j - 1) / 2 == j) = true
    · rw [if_pos hij]; exact ⟨h, rfl, Same.refl hi, fun _ _ => rfl⟩
    · rw [if_neg hij]
      have hne : (j - 1) / 2 ≠ j := by simpa using hij
      have hil : (j - 1) / 2 < h.live.length := by omega
      rcases less_ok h hj hil with ⟨r, hr⟩
      rw [hr]
      cases r with
      | false => exact ⟨h, rfl, Same.refl hi, fun _ _ => rfl⟩
      | true =>
        simp only
        rcases swap_ok hi (List.getElem?_eq_getElem hil) (List.getElem?_eq_getElem hj) hne with ⟨h1, hs, hsame, hlive⟩
        rw [hs]
        simp only
        have hl1 : (j - 1) / 2 < h1.live.length := by rw [hsame.len]; exact hil
        rcases ih hsame.inv ((j - 1) / 2) hl1 (by omega) with ⟨h2, hu, hsame2, hfr⟩
        refine ⟨h2, hu, hsame.trans hsame2, ?_⟩
        intro p hp
        rw [hfr p (by omega), hlive, getElem?_set2 _ _ _ _ _ _ hil hj]
        have : p ≠ j := by omega
        have : p ≠ (j - 1) / 2 := by omega
        simp [*]

theorem down_ok : ∀ (f : Nat) {h : Heap}, HInv h → ∀ (i n : Nat), n ≤ h.live.length → n - i < f →
    ∃ h' i', h.down f i n = some (h', i') ∧ Same h h' ∧ ∀ p : Nat, n ≤ p → h'.live[p]? = h.live[p]? := by
  intro f
  induction f with
  | zero => intro h _ i n _ hf; omega
  | succ f ih =>
    intro h hi i n hn hf
    unfold Heap.down
    simp only
    by_cases h1 : 2 * i + 1 ≥ n
    · rw [if_pos h1]; exact ⟨h, i, rfl, Same.refl hi, fun _ _ => rfl⟩
    · rw [if_neg h1]
      have hj1 : 2 * i + 1 < h.live.length := by omega
      have hil : i < h.live.length := by omega
      -- the chosen child
      have hjo : ∃ j, (if 2 * i + 1 + 1 < n then
            (h.less (2 * i + 1 + 1) (2 * i + 1)).map fun lt => if lt then 2 * i + 1 + 1 else 2 * i + 1
          else some (2 * i + 1)) = some j ∧ i < j ∧ j < n := by
        by_cases h2 : 2 * i + 1 + 1 < n
        · rcases less_ok h (show 2 * i + 1 + 1 < h.live.length by omega) hj1 with ⟨r, hr⟩
          simp only [h2, if_true, hr, Option.map_some]
          cases r
          · exact ⟨2 * i + 1, by simp, by omega, by omega⟩
          · exact ⟨2 * i + 1 + 1, by simp, by omega, by omega⟩
        · simp only [h2, if_false]; exact ⟨_, rfl, by omega, by omega⟩
      rcases hjo with ⟨j, hj, hij, hjn⟩
      rw [hj]
      simp only
      have hjl : j < h.live.length := by omega
      rcases less_ok h hjl hil with ⟨r, hr⟩
      rw [hr]
      cases r with
      | false => exact ⟨h, i, rfl, Same.refl hi, fun _ _ => rfl⟩
      | true =>
        simp only
        rcases swap_ok hi (List.getElem?_eq_getElem hil) (List.getElem?_eq_getElem hjl) (by omega) with ⟨h1', hs, hsame, hlive⟩
        rw [hs]
        simp only
        rcases ih hsame.inv j n (by rw [hsame.len]; exact hn) (by omega) with ⟨h2, i2, hd, hsame2, hfr⟩
        refine ⟨h2, i2, hd, hsame.trans hsame2, ?_⟩
        intro p hp
        rw [hfr p hp, hlive, getElem?_set2 _ _ _ _ _ _ hil hjl]
        have : p ≠ j := by omega
        have : p ≠ i := by omega
        simp [*]

theorem sift_ok {h : Heap} (hi : HInv h) (i n : Nat) (hin : i < n) (hn : n ≤ h.live.length) :
    ∃ h', h.sift i n = some h' ∧ Same h h' ∧ ∀ p : Nat, n ≤ p → h'.live[p]? = h.live[p]? := by
  unfold Heap.sift
  simp only
  rcases down_ok (h.live.length + 1) hi i n hn (by omega) with ⟨h1, i1, hd, hs1, hf1⟩
  rw [hd]
  simp only
  by_cases hgt : i1 > i
  · rw [if_pos hgt]; exact ⟨h1, rfl, hs1, hf1⟩
  · rw [if_neg hgt]
    rcases up_ok (h.live.length + 1) hs1.inv i (by rw [hs1.len]; omega) (by omega) with ⟨h2, hu, hs2, hf2⟩
    exact ⟨h2, hu, hs1.trans hs2, fun p hp => by rw [hf2 p (by omega), hf1 p hp]⟩

/-! ### pop / removeAt -/

theorem opt_ext {α} {a b : Option α} (h : ∀ e, a = some e ↔ b = some e) : a = b := by
  cases a with
  | none =>
    cases b with
    | none => rfl
    | some y => exact ((h y).mpr rfl)
  | some x => exact ((h x).mp rfl).symm

theorem getElem?_dropLast' {α} (l : List α) (p : Nat) (e : α) (h : l.dropLast[p]? = some e) :
    l[p]? = some e ∧ p + 1 < l.length := by
  have hp : p < l.dropLast.length := lt_of_getElem? h
  rw [List.length_dropLast] at hp
  rw [List.getElem?_dropLast] at h
  have : p < l.length - 1 := hp
  simp [this] at h
  exact ⟨h, by omega⟩

theorem getLast?_getElem? {α} (l : List α) (x : α) (h : l.getLast? = some x) :
    l[l.length - 1]? = some x ∧ 0 < l.length := by
  rw [List.getLast?_eq_getElem?] at h
  refine ⟨h, ?_⟩
  have := lt_of_getElem? h
  omega

theorem pop_ok {h : Heap} (hi : HInv h) {x : HEntry} (hx : h.live.getLast? = some x) :
    ∃ h', h.pop = some (h', x) ∧ HInv h' ∧ h'.live = h.live.dropLast ∧ h'.maxidx = h.maxidx ∧
      (∀ y, h'.find y = if y = x.idx then none else h.find y) ∧
      sumBytes h'.live + x.bytes = sumBytes h.live ∧ h'.live.length + 1 = h.live.length := by
  rcases getLast?_getElem? _ _ hx with ⟨hlast, hpos⟩
  have hxi := hi.live_ok _ _ hlast
  have hxlt : x.idx < h.maxidx := by rw [← hi.ind_len]; exact lt_of_getElem? hxi
  have hsplit : h.live.dropLast ++ [x] = h.live := by
    rcases List.getLast?_eq_some_iff.mp hx with ⟨ys, hys⟩
    rw [hys, List.dropLast_concat]
  -- an entry of the shortened heap differs from x in its index
  have hdiff : ∀ (p : Nat) (e : HEntry), h.live.dropLast[p]? = some e → e.idx ≠ x.idx := by
    intro p e hp heq
    rcases getElem?_dropLast' _ _ _ hp with ⟨h1, h2⟩
    have := hi.live_ok p e h1
    rw [heq, hxi] at this
    have := Option.some.inj this
    omega
  have hinv : HInv { h with live := h.live.dropLast, dead := x :: h.dead } := by
    refine ⟨hi.ind_len, ?_, ?_, ?_, ?_, ?_⟩
    · simp only [List.length_dropLast, List.length_cons]; have := hi.total; omega
    · intro p e hp
      exact hi.live_ok p e (getElem?_dropLast' _ _ _ hp).1
    · intro d hd
      rcases List.mem_cons.mp hd with h1 | h1
      · subst h1; exact hxlt
      · exact hi.dead_lt d h1
    · simp only [List.map_cons, List.nodup_cons]
      refine ⟨?_, hi.dead_nodup⟩
      intro hmem
      rcases List.mem_map.mp hmem with ⟨d, hd, hdx⟩
      exact hi.disjoint x (List.mem_of_getElem? hlast) d hd hdx.symm
    · intro e he d hd
      rcases List.mem_iff_getElem?.mp he with ⟨p, hp⟩
      rcases List.mem_cons.mp hd with h1 | h1
      · subst h1; exact hdiff p e hp
      · exact hi.disjoint e (List.mem_of_getElem? (getElem?_dropLast' _ _ _ hp).1) d h1
  refine ⟨{ h with live := h.live.dropLast, dead := x :: h.dead }, by simp [Heap.pop, hx], hinv, rfl, rfl, ?_, ?_, ?_⟩
  · intro y
    by_cases hy : y = x.idx
    · simp only [hy, if_true]
      exact find_none_of hinv _ hdiff
    · simp only [hy, if_false]
      apply opt_ext
      intro e
      rw [find_some_iff hinv, find_some_iff hi]
      constructor
      · rintro ⟨h1, p, hp⟩
        exact ⟨h1, p, (getElem?_dropLast' _ _ _ hp).1⟩
      · rintro ⟨h1, p, hp⟩
        refine ⟨h1, p, ?_⟩
        have hpl := lt_of_getElem? hp
        by_cases hpe : p = h.live.length - 1
        · subst hpe; rw [hlast] at hp; cases hp; exact absurd h1.symm hy
        · show h.live.dropLast[p]? = some e
          rw [List.getElem?_dropLast]
          have : p < h.live.length - 1 := by omega
          simp [this, hp]
  · show sumBytes h.live.dropLast + x.bytes = sumBytes h.live
    conv => rhs; rw [← hsplit]
    simp [sumBytes_append, sumBytes_cons, sumBytes_nil]
  · show h.live.dropLast.length + 1 = h.live.length
    rw [List.length_dropLast]; omega

theorem removeAt_ok {h : Heap} (hi : HInv h) {i : Nat} {x : HEntry} (hx : h.live[i]? = some x) :
    ∃ h', h.removeAt i = some (h', x) ∧ HInv h' ∧ h'.maxidx = h.maxidx ∧
      (∀ y, h'.find y = if y = x.idx then none else h.find y) ∧
      sumBytes h'.live + x.bytes = sumBytes h.live ∧ h'.live.length + 1 = h.live.length := by
  have hil := lt_of_getElem? hx
  unfold Heap.removeAt
  have hne0 : ¬ h.live.length = 0 := by omega
  rw [if_neg hne0]
  simp only
  by_cases hn : (h.live.length - 1 != i) = true
  · rw [if_pos hn]
    have hni : i ≠ h.live.length - 1 := by
      intro heq; simp [← heq] at hn
    have hnl : h.live.length - 1 < h.live.length := by omega
    rcases swap_ok hi hx (List.getElem?_eq_getElem hnl) hni with ⟨h1, hs, hsame, hlive⟩
    rw [hs]
    simp only
    have hl1 : h1.live.length = h.live.length := hsame.len
    rcases sift_ok hsame.inv i (h.live.length - 1) (by omega) (by omega) with ⟨h2, hsf, hsame2, hfr⟩
    rw [hsf]
    simp only
    -- the last position still holds x
    have hlast2 : h2.live.getLast? = some x := by
      rw [List.getLast?_eq_getElem?, hsame2.len, hl1, hfr _ (Nat.le_refl _), hlive,
        getElem?_set2 _ _ _ _ _ _ hil hnl]
      simp
    rcases pop_ok hsame2.inv hlast2 with ⟨h3, hp, hinv3, _, hmax3, hfind3, hsum3, hlen3⟩
    refine ⟨h3, hp, hinv3, ?_, ?_, ?_, ?_⟩
    · rw [hmax3, hsame2.maxidx, hsame.maxidx]
    · intro y; rw [hfind3 y, hsame2.find y, hsame.find y]
    · rw [hsum3, hsame2.sum, hsame.sum]
    · rw [hlen3, hsame2.len, hl1]
  · rw [if_neg hn]
    have hieq : h.live.length - 1 = i := by simpa using hn
    have hlast : h.live.getLast? = some x := by
      rw [List.getLast?_eq_getElem?, hieq]; exact hx
    rcases pop_ok hi hlast with ⟨h3, hp, hinv3, _, hmax3, hfind3, hsum3, hlen3⟩
    exact ⟨h3, hp, hinv3, hmax3, hfind3, hsum3, hlen3⟩

/-! ### the key map: untouched by everything below `removeInternal` / `put` -/

theorem swap_keys {h h' : Heap} {i j : Nat} (hs : h.swap i j = some h') : h'.keys = h.keys := by
  unfold Heap.swap at hs
  cases h1 : h.live[i]? with
  | none => simp [h1] at hs
  | some ei =>
    cases h2 : h.live[j]? with
    | none => simp [h1, h2] at hs
    | some ej =>
      simp only [h1, h2, Option.bind_eq_bind, Option.bind_some, Option.pure_def] at hs
      split at hs
      · split at hs
        · cases hs; rfl
        · cases hs
      · cases hs

theorem up_keys : ∀ (f : Nat) {h h' : Heap} {j : Nat}, h.up f j = some h' → h'.keys = h.keys := by
  intro f
  induction f with
  | zero => intro h h' j hs; simp [Heap.up] at hs
  | succ f ih =>
    intro h h' j hs
    unfold Heap.up at hs
    simp only at hs
    split at hs
    · cases hs; rfl
    · split at hs
      · cases hs
      · cases hs; rfl
      · split at hs
        · cases hs
        · rename_i h1 hsw
          exact (ih hs).trans (swap_keys hsw)

theorem down_keys : ∀ (f : Nat) {h h' : Heap} {i n r : Nat}, h.down f i n = some (h', r) → h'.keys = h.keys := by
  intro f
  induction f with
  | zero => intro h h' i n r hs; simp [Heap.down] at hs
  | succ f ih =>
    intro h h' i n r hs
    unfold Heap.down at hs
    simp only at hs
    split at hs
    · cases hs; rfl
    · split at hs
      · cases hs
      · split at hs
        · cases hs
        · cases hs; rfl
        · split at hs
          · cases hs
          · rename_i h1 hsw
            exact (ih hs).trans (swap_keys hsw)

theorem sift_keys {h h' : Heap} {i n : Nat} (hs : h.sift i n = some h') : h'.keys = h.keys := by
  unfold Heap.sift at hs
  simp only at hs
  split at hs
  · cases hs
  · rename_i h1 i1 hd
    split at hs
    · cases hs; exact down_keys _ hd
    · exact (up_keys _ hs).trans (down_keys _ hd)

theorem pop_keys {h h' : Heap} {x : HEntry} (hs : h.pop = some (h', x)) : h'.keys = h.keys := by
  unfold Heap.pop at hs
  split at hs
  · cases hs
  · cases hs; rfl

theorem removeAt_keys {h h' : Heap} {i : Nat} {x : HEntry} (hs : h.removeAt i = some (h', x)) : h'.keys = h.keys := by
  unfold Heap.removeAt at hs
  split at hs
  · cases hs
  · simp only at hs
    split at hs
    · split at hs
      · cases hs
      · rename_i h1 hsw
        split at hs
        · cases hs
        · rename_i h2 hsf
          exact (pop_keys hs).trans ((sift_keys hsf).trans (swap_keys hsw))
    · exact pop_keys hs

theorem pushInternal_keys {h h' : Heap} {e : HEntry} (hs : h.pushInternal e = some h') : h'.keys = h.keys := by
  unfold Heap.pushInternal at hs
  split at hs
  · cases hs; rfl
  · cases hs

theorem klookup_erase (m : List (Key × Nat)) (k k' : Key) :
    klookup (kerase m k) k' = if k' = k then none else klookup m k' := by
  unfold kerase
  induction m with
  | nil => simp [klookup]
  | cons p t ih =>
    rcases p with ⟨pk, pv⟩
    by_cases h1 : pk = k
    · subst h1
      by_cases h2 : k' = pk
      · subst h2; simp [klookup, List.filter_cons] at ih ⊢; exact ih
      · have : ¬ pk = k' := fun h => h2 h.symm
        simp [klookup, List.filter_cons, h2, this] at ih ⊢; exact ih
    · by_cases h2 : k' = k
      · subst h2
        simp [klookup, List.filter_cons, h1] at ih ⊢; exact ih
      · by_cases h3 : pk = k'
        · simp [klookup, List.filter_cons, h1, h2, h3]
        · simp [klookup, List.filter_cons, h1, h2, h3] at ih ⊢; exact ih

theorem klookup_set (m : List (Key × Nat)) (k k' : Key) (v : Nat) :
    klookup (kset m k v) k' = if k' = k then some v else klookup m k' := by
  by_cases h : k' = k
  · subst h; simp [kset, klookup]
  · have h' : ¬ k = k' := fun e => h e.symm
    have := klookup_erase m k k'
    simp only [h, if_false] at this ⊢
    rw [← this]
    simp [kset, klookup, h']

theorem find_idx {h : Heap} {x : Nat} {e : HEntry} (hf : h.find x = some e) : e.idx = x := by
  unfold Heap.find at hf
  split at hf
  · cases hf
  · split at hf
    · cases hf
    · split at hf
      · cases hf; assumption
      · cases hf

/-- removing the entry tracked by `x.idx` and deleting its key keeps the key map in step -/
theorem kinv_remove {h h' : Heap} (hk : KInv h) {x : HEntry} (hx : h.find x.idx = some x)
    (hfind : ∀ y, h'.find y = if y = x.idx then none else h.find y)
    (hkeys : h'.keys = kerase h.keys x.key) : KInv h' := by
  intro k idx
  rw [hkeys, klookup_erase]
  have hxk : klookup h.keys x.key = some x.idx := (hk x.key x.idx).mpr ⟨x, hx, rfl⟩
  constructor
  · intro hl
    by_cases hkk : k = x.key
    · simp [hkk] at hl
    · simp only [hkk, if_false] at hl
      rcases (hk k idx).mp hl with ⟨e, he, hek⟩
      refine ⟨e, ?_, hek⟩
      rw [hfind]
      have : idx ≠ x.idx := by
        intro heq; rw [heq, hx] at he; cases he; exact hkk hek.symm
      simp [this, he]
  · rintro ⟨e, he, hek⟩
    rw [hfind] at he
    by_cases hi : idx = x.idx
    · simp [hi] at he
    · simp only [hi, if_false] at he
      have hl := (hk k idx).mpr ⟨e, he, hek⟩
      have hkk : k ≠ x.key := by
        intro heq; rw [heq, hxk] at hl; cases hl; exact hi rfl
      simp [hkk, hl]

/-- putting an entry for a key that is not tracked, under an index that is not in use, and
    recording it keeps the key map in step -/
theorem kinv_put {h h' : Heap} (hk : KInv h) {key : Key} {exp bytes idx : Nat} (hfresh : h.find idx = none)
    (hnokey : klookup h.keys key = none)
    (hfind : ∀ y, h'.find y = if y = idx then some ⟨key, exp, bytes, idx⟩ else h.find y)
    (hkeys : h'.keys = kset h.keys key idx) : KInv h' := by
  intro k i
  rw [hkeys, klookup_set]
  constructor
  · intro hl
    by_cases hkk : k = key
    · simp only [hkk, if_true, Option.some.injEq] at hl
      subst hl
      exact ⟨⟨key, exp, bytes, idx⟩, by rw [hfind]; simp, hkk.symm⟩
    · simp only [hkk, if_false] at hl
      rcases (hk k i).mp hl with ⟨e, he, hek⟩
      refine ⟨e, ?_, hek⟩
      rw [hfind]
      have : i ≠ idx := by intro heq; rw [heq, hfresh] at he; cases he
      simp [this, he]
  · rintro ⟨e, he, hek⟩
    rw [hfind] at he
    by_cases hi : i = idx
    · simp only [hi, if_true, Option.some.injEq] at he
      subst he
      simp at hek
      simp [← hek, hi]
    · simp only [hi, if_false] at he
      have hl := (hk k i).mpr ⟨e, he, hek⟩
      have hkk : k ≠ key := by
        intro heq; rw [heq, hnokey] at hl; cases hl
      simp [hkk, hl]

theorem HInv_keys {h : Heap} (hi : HInv h) (ks : List (Key × Nat)) : HInv { h with keys := ks } :=
  ⟨hi.ind_len, hi.total, hi.live_ok, hi.dead_lt, hi.dead_nodup, hi.disjoint⟩

theorem removeInternal_ok {h : Heap} (hi : HInv h) {i : Nat} {x : HEntry} (hx : h.live[i]? = some x) :
    ∃ h', h.removeInternal i = some (h', x) ∧ HInv h' ∧ h'.maxidx = h.maxidx ∧
      (∀ y, h'.find y = if y = x.idx then none else h.find y) ∧
      sumBytes h'.live + x.bytes = sumBytes h.live ∧ h'.live.length + 1 = h.live.length ∧
      h'.keys = kerase h.keys x.key := by
  rcases removeAt_ok hi hx with ⟨h', hr, hinv, hmax, hfind, hsum, hlen⟩
  refine ⟨{ h' with keys := kerase h'.keys x.key }, ?_, HInv_keys hinv _, hmax, hfind, hsum, hlen, ?_⟩
  · simp [Heap.removeInternal, hr]
  · show kerase h'.keys x.key = kerase h.keys x.key
    rw [removeAt_keys hr]

/-! ### remove (validated) / removeFirst -/

theorem remove_ok {h : Heap} (hi : HInv h) (idx : Nat) (key : Key) :
    (∃ e, h.find idx = some e ∧ e.key = key ∧
      ∃ h', h.remove idx key = some (h', some e.bytes) ∧ HInv h' ∧ h'.maxidx = h.maxidx ∧
        (∀ y, h'.find y = if y = idx then none else h.find y) ∧
        sumBytes h'.live + e.bytes = sumBytes h.live ∧ h'.live.length + 1 = h.live.length ∧
        h'.keys = kerase h.keys e.key)
    ∨ ((∀ e, h.find idx = some e → e.key ≠ key) ∧ h.remove idx key = some (h, none)) := by
  unfold Heap.remove
  cases h1 : h.indices[idx]? with
  | none => right; simp [Heap.find, h1]
  | some p =>
    simp only
    cases h2 : h.live[p]? with
    | none => right; simp [Heap.find, h1, h2]
    | some e =>
      simp only
      have hf : h.find idx = if e.idx = idx then some e else none := by simp [Heap.find, h1, h2]
      by_cases hc : (e.idx != idx || e.key != key) = true
      · right
        rw [if_pos hc]
        refine ⟨?_, rfl⟩
        intro e' he'
        rw [hf] at he'
        by_cases h3 : e.idx = idx
        · simp [h3] at he'; subst he'
          simpa [h3] using hc
        · simp [h3] at he'
      · left
        rw [if_neg hc]
        have hc' : e.idx = idx ∧ e.key = key := by simpa using hc
        refine ⟨e, by rw [hf]; simp [hc'.1], hc'.2, ?_⟩
        rcases removeInternal_ok hi h2 with ⟨h', hr, hinv, hmax, hfind, hsum, hlen, hkeys⟩
        refine ⟨h', by rw [hr], hinv, hmax, ?_, hsum, hlen, hkeys⟩
        intro y
        have := hfind y
        rw [hc'.1] at this
        exact this

theorem removeFirst_ok {h : Heap} (hi : HInv h) (hne : h.live ≠ []) :
    ∃ h' x, h.removeFirst = some (h', x) ∧ x ∈ h.live ∧ HInv h' ∧ h'.maxidx = h.maxidx ∧
      (∀ y, h'.find y = if y = x.idx then none else h.find y) ∧
      sumBytes h'.live + x.bytes = sumBytes h.live ∧ h'.live.length + 1 = h.live.length ∧
      h'.keys = kerase h.keys x.key := by
  cases hl : h.live with
  | nil => exact absurd hl hne
  | cons x t =>
    have hx : h.live[0]? = some x := by simp [hl]
    rcases removeInternal_ok hi hx with ⟨h', hr, hinv, hmax, hfind, hsum, hlen, hkeys⟩
    refine ⟨h', x, hr, by simp, hinv, hmax, hfind, ?_, ?_, hkeys⟩
    · rw [← hl]; exact hsum
    · rw [← hl]; exact hlen

/-! ### put -/

/-- what `pushInternal` establishes for the new entry `e` (before `heap.Fix`) -/
structure Pushed (h h2 : Heap) (e : HEntry) : Prop where
  inv : HInv h2
  live : h2.live = h.live ++ [e]
  fresh : h.find e.idx = none
  others : ∀ y, y ≠ e.idx → h2.find y = h.find y

theorem pushed_others {h h2 : Heap} (hi : HInv h) (hinv2 : HInv h2) (e : HEntry) (hl : h2.live = h.live ++ [e]) :
    ∀ y, y ≠ e.idx → h2.find y = h.find y := by
  intro y hy
  apply opt_ext
  intro e'
  rw [find_some_iff hinv2, find_some_iff hi, hl]
  constructor
  · rintro ⟨h1, p, hp⟩
    refine ⟨h1, p, ?_⟩
    by_cases hpl : p < h.live.length
    · rwa [List.getElem?_append_left hpl] at hp
    · have hp2 := lt_of_getElem? hp
      simp at hp2
      have : p = h.live.length := by omega
      subst this
      simp at hp
      subst hp
      exact absurd h1.symm hy
  · rintro ⟨h1, p, hp⟩
    exact ⟨h1, p, by rw [List.getElem?_append_left (lt_of_getElem? hp)]; exact hp⟩

theorem getElem?_snoc {α} (l : List α) (a e : α) (p : Nat) (hp : (l ++ [a])[p]? = some e) :
    l[p]? = some e ∨ (p = l.length ∧ e = a) := by
  by_cases hpl : p < l.length
  · left; rwa [List.getElem?_append_left hpl] at hp
  · right
    have hp2 := lt_of_getElem? hp
    simp at hp2
    have : p = l.length := by omega
    subst this
    simp at hp
    exact ⟨rfl, hp.symm⟩

theorem push_steal_ok {h : Heap} (hi : HInv h) {d : HEntry} {ds : List HEntry} (hd : h.dead = d :: ds)
    (key : Key) (exp bytes : Nat) :
    ∃ h2, h.pushInternal ⟨key, exp, bytes, d.idx⟩ = some h2 ∧ Pushed h h2 ⟨key, exp, bytes, d.idx⟩ := by
  have hdm : d ∈ h.dead := by rw [hd]; simp
  have hdlt : d.idx < h.indices.length := by rw [hi.ind_len]; exact hi.dead_lt d hdm
  have hnd := hi.dead_nodup
  rw [hd] at hnd
  simp only [List.map_cons, List.nodup_cons] at hnd
  have hfresh : ∀ (p : Nat) (e : HEntry), h.live[p]? = some e → e.idx ≠ d.idx :=
    fun p e hp => hi.disjoint e (List.mem_of_getElem? hp) d hdm
  have hinv2 : HInv { h with
      indices := h.indices.set d.idx h.live.length,
      live := h.live ++ [⟨key, exp, bytes, d.idx⟩],
      dead := h.dead.drop 1 } := by
    refine ⟨by simp [hi.ind_len], ?_, ?_, ?_, ?_, ?_⟩
    · have := hi.total; rw [hd] at this ⊢; simp at this ⊢; omega
    · intro p e hp
      rcases getElem?_snoc _ _ _ _ hp with h1 | ⟨h1, h2⟩
      · have := hi.live_ok p e h1
        show (h.indices.set d.idx h.live.length)[e.idx]? = some p
        rw [List.getElem?_set]
        simp [Ne.symm (hfresh p e h1), this]
      · subst h1; subst h2
        show (h.indices.set d.idx h.live.length)[d.idx]? = some h.live.length
        simp [hdlt]
    · intro d' hd'
      rw [hd] at hd'; simp at hd'
      exact hi.dead_lt d' (by rw [hd]; simp [hd'])
    · rw [hd]; simpa using hnd.2
    · intro e he d' hd'
      rw [hd] at hd'; simp at hd'
      rcases List.mem_append.mp he with h1 | h1
      · exact hi.disjoint e h1 d' (by rw [hd]; simp [hd'])
      · simp at h1; subst h1
        intro heq
        exact hnd.1 (List.mem_map.mpr ⟨d', hd', heq.symm⟩)
  refine ⟨_, by simp only [Heap.pushInternal, hdlt, if_true], hinv2, rfl, find_none_of hi _ hfresh, ?_⟩
  exact pushed_others hi hinv2 _ rfl

theorem push_fresh_ok {h : Heap} (hi : HInv h) (hlen : h.live.length = h.maxidx) (key : Key) (exp bytes : Nat) :
    ∃ h2, Heap.pushInternal { h with maxidx := h.maxidx + 1, indices := h.indices ++ [h.maxidx] } ⟨key, exp, bytes, h.maxidx⟩ = some h2 ∧
      Pushed h h2 ⟨key, exp, bytes, h.maxidx⟩ := by
  have htot := hi.total
  have hdead : h.dead = [] := by
    have : h.dead.length = 0 := by omega
    exact List.eq_nil_of_length_eq_zero this
  have hlt2 : h.maxidx < (h.indices ++ [h.maxidx]).length := by simp [hi.ind_len]
  have hold : ∀ (p : Nat) (e : HEntry), h.live[p]? = some e → e.idx < h.maxidx := by
    intro p e hp
    rw [← hi.ind_len]; exact lt_of_getElem? (hi.live_ok p e hp)
  have hinv2 : HInv { h with
      maxidx := h.maxidx + 1,
      indices := (h.indices ++ [h.maxidx]).set h.maxidx h.live.length,
      live := h.live ++ [⟨key, exp, bytes, h.maxidx⟩],
      dead := h.dead.drop 1 } := by
    refine ⟨by simp [hi.ind_len], ?_, ?_, ?_, ?_, ?_⟩
    · simp [hdead]; omega
    · intro p e hp
      rcases getElem?_snoc _ _ _ _ hp with h1 | ⟨h1, h2⟩
      · have h3 := hi.live_ok p e h1
        have h4 := hold p e h1
        show ((h.indices ++ [h.maxidx]).set h.maxidx h.live.length)[e.idx]? = some p
        rw [List.getElem?_set]
        have : ¬ h.maxidx = e.idx := by omega
        simp only [this, if_false]
        rw [List.getElem?_append_left (by rw [hi.ind_len]; exact h4)]
        exact h3
      · subst h1; subst h2
        show ((h.indices ++ [h.maxidx]).set h.maxidx h.live.length)[h.maxidx]? = some h.live.length
        simp [hi.ind_len]
    · simp [hdead]
    · simp [hdead]
    · simp [hdead]
  have hfn : h.find h.maxidx = none := by
    apply find_none_of hi
    intro p e hp heq
    have := hold p e hp
    omega
  refine ⟨_, by simp only [Heap.pushInternal, hlt2, if_true], hinv2, rfl, hfn, ?_⟩
  exact pushed_others hi hinv2 _ rfl

theorem put_ok {h : Heap} (hi : HInv h) (key : Key) (exp bytes : Nat) :
    ∃ h' idx, h.put key exp bytes = some (h', idx) ∧ HInv h' ∧ h.find idx = none ∧
      (∀ y, h'.find y = if y = idx then some ⟨key, exp, bytes, idx⟩ else h.find y) ∧
      sumBytes h'.live = sumBytes h.live + bytes ∧ h'.live.length = h.live.length + 1 ∧
      h'.keys = kset h.keys key idx := by
  -- common part: `heap.Fix` after `pushInternal`, then `h.keys[key] = idx`
  have fin : ∀ (h2 : Heap) (idx : Nat), Pushed h h2 ⟨key, exp, bytes, idx⟩ → h2.keys = h.keys →
      ∃ h', (match h2.sift (h2.live.length - 1) h2.live.length with
              | none => none
              | some h3 => some ({ h3 with keys := kset h3.keys key idx }, idx)) = some (h', idx) ∧ HInv h' ∧
        (∀ y, h'.find y = if y = idx then some ⟨key, exp, bytes, idx⟩ else h.find y) ∧
        sumBytes h'.live = sumBytes h.live + bytes ∧ h'.live.length = h.live.length + 1 ∧
        h'.keys = kset h.keys key idx := by
    intro h2 idx hp hk2
    have hl2 : h2.live.length = h.live.length + 1 := by rw [hp.live]; simp
    rcases sift_ok hp.inv (h2.live.length - 1) h2.live.length (by omega) (Nat.le_refl _) with ⟨h3, hs, hsame, _⟩
    refine ⟨{ h3 with keys := kset h3.keys key idx }, by rw [hs], HInv_keys hsame.inv _, ?_, ?_, ?_, ?_⟩
    · intro y
      show h3.find y = _
      rw [hsame.find y]
      by_cases hy : y = idx
      · subst hy
        simp only [if_true]
        rw [find_some_iff hp.inv]
        exact ⟨rfl, h.live.length, by rw [hp.live]; simp⟩
      · simp only [hy, if_false]; exact hp.others y hy
    · show sumBytes h3.live = _
      rw [hsame.sum, hp.live]; simp [sumBytes_append, sumBytes_cons, sumBytes_nil]
    · show h3.live.length = _
      rw [hsame.len, hl2]
    · show kset h3.keys key idx = _
      rw [sift_keys hs, hk2]
  unfold Heap.put
  simp only
  by_cases hlt : h.live.length < h.maxidx
  · rw [if_pos hlt]
    cases hd : h.dead with
    | nil => have := hi.total; rw [hd] at this; simp at this; omega
    | cons d ds =>
      simp only
      rcases push_steal_ok hi hd key exp bytes with ⟨h2, hpu, hp⟩
      rw [hpu]
      simp only
      rcases fin h2 d.idx hp (pushInternal_keys hpu) with ⟨h', h1, h2', h3, h4, h5, h6⟩
      exact ⟨h', d.idx, h1, h2', hp.fresh, h3, h4, h5, h6⟩
  · rw [if_neg hlt]
    simp only
    have hlen : h.live.length = h.maxidx := by have := hi.total; omega
    rcases push_fresh_ok hi hlen key exp bytes with ⟨h2, hpu, hp⟩
    rw [hpu]
    simp only
    rcases fin h2 h.maxidx hp (by have := pushInternal_keys hpu; exact this) with ⟨h', h1, h2', h3, h4, h5, h6⟩
    exact ⟨h', h.maxidx, h1, h2', hp.fresh, h3, h4, h5, h6⟩

/-- `removeKey`: nothing tracked for the key → nothing happens; otherwise the one entry of the key leaves -/
theorem removeKey_ok {h : Heap} (hi : HInv h) (hk : KInv h) (key : Key) :
    (klookup h.keys key = none ∧ h.removeKey key = some (h, none))
    ∨ (∃ e, h.find e.idx = some e ∧ e.key = key ∧
        ∃ h', h.removeKey key = some (h', some e.bytes) ∧ HInv h' ∧ KInv h' ∧ h'.maxidx = h.maxidx ∧
          (∀ y, h'.find y = if y = e.idx then none else h.find y) ∧
          sumBytes h'.live + e.bytes = sumBytes h.live ∧ h'.live.length + 1 = h.live.length ∧
          klookup h'.keys key = none) := by
  unfold Heap.removeKey
  cases hl : klookup h.keys key with
  | none => left; exact ⟨rfl, rfl⟩
  | some idx =>
    right
    simp only
    rcases (hk key idx).mp hl with ⟨e, he, hek⟩
    have hei : e.idx = idx := find_idx he
    rcases remove_ok hi idx key with ⟨e', he', hek', h', hr, hinv', hmax, hfind, hsum, hlen, hkeys⟩ | ⟨hno, _⟩
    · rw [he] at he'; cases he'
      refine ⟨e, by rw [hei]; exact he, hek, h', hr, hinv', ?_, hmax, by rw [hei]; exact hfind, hsum, hlen, ?_⟩
      · exact kinv_remove hk (by rw [hei]; exact he) (by rw [hei]; exact hfind) hkeys
      · rw [hkeys, klookup_erase, hek]; simp
    · exact absurd hek (hno e he)

theorem KInv_empty : KInv Heap.empty := by
  intro k idx; simp [Heap.empty, klookup, Heap.find]

theorem HInv_empty : HInv Heap.empty :=
  ⟨rfl, rfl, by intro p e h; simp [Heap.empty] at h, by intro d h; simp [Heap.empty] at h, by simp [Heap.empty],
   by intro e h; simp [Heap.empty] at h⟩

end C14
