import FiberModel.C17.ExecInv
/-
C17 — the answer invariant: what the storage holds for a key is the recorded form (status, body, the
headers selected by KeepResponseHeaders) of the response of the execution that produced the record,
and a request answered from the record was written exactly that; a request answered by its own
execution was written its handler's response.
-/
namespace C17
open Conc

structure AInv (g : G) : Prop where
  val : ∀ k r exp, g.store k = some (r, exp) → g.vals k = some (recorded g.keep (g.threads r).req.resp)
  rep : ∀ t r, (g.threads t).out = .replay r → (g.threads t).ans = some (recorded g.keep (g.threads r).req.resp)
  own : ∀ t, (g.threads t).out = .own → (g.threads t).ans = some (g.threads t).req.resp
  atSet : ∀ t, (g.threads t).pc = .atSet → (g.threads t).ans = some (g.threads t).req.resp

theorem ainv_init (reqs : Tid → Req) (t0 : Nat) (keep : Option (List String)) : AInv (init reqs t0 keep) := by
  refine ⟨?_, ?_, ?_, ?_⟩ <;> intros <;> simp_all [init]

theorem ainv_tick {g : G} (d : Nat) (hi : AInv g) : AInv { g with now := g.now + d } :=
  ⟨hi.val, hi.rep, hi.own, hi.atSet⟩

/-- steps that leave storage alone: it suffices to check the clauses for the stepping thread -/
theorem ainv_local {g g' : G} {t : Tid} (hi : AInv g)
    (hst : g'.store = g.store) (hv : g'.vals = g.vals) (hk : g'.keep = g.keep)
    (hoth : ∀ t', t' ≠ t → g'.threads t' = g.threads t')
    (hreq : (g'.threads t).req = (g.threads t).req)
    (c1 : ∀ r, (g'.threads t).out = .replay r → (g'.threads t).ans = some (recorded g.keep (g.threads r).req.resp))
    (c2 : (g'.threads t).out = .own → (g'.threads t).ans = some (g.threads t).req.resp)
    (c3 : (g'.threads t).pc = .atSet → (g'.threads t).ans = some (g.threads t).req.resp) : AInv g' := by
  have hRq : ∀ t', (g'.threads t').req = (g.threads t').req := by
    intro t'; by_cases h : t' = t
    · subst h; exact hreq
    · rw [hoth t' h]
  refine ⟨?_, ?_, ?_, ?_⟩
  · intro k r exp h; rw [hst] at h; rw [hv, hk, hRq]; exact hi.val k r exp h
  · intro t' r h; rw [hk, hRq]; by_cases ht : t' = t
    · subst ht; exact c1 r h
    · rw [hoth t' ht] at h ⊢; exact hi.rep t' r h
  · intro t' h; rw [hRq]; by_cases ht : t' = t
    · subst ht; exact c2 h
    · rw [hoth t' ht] at h ⊢; exact hi.own t' h
  · intro t' h; rw [hRq]; by_cases ht : t' = t
    · subst ht; exact c3 h
    · rw [hoth t' ht] at h ⊢; exact hi.atSet t' h

/-- steps that only move the program counter of a thread (not to `atSet`) -/
theorem ainv_pc {g g' : G} {t : Tid} (hi : AInv g)
    (hst : g'.store = g.store) (hv : g'.vals = g.vals) (hk : g'.keep = g.keep)
    (hoth : ∀ t', t' ≠ t → g'.threads t' = g.threads t')
    (hreq : (g'.threads t).req = (g.threads t).req) (hout : (g'.threads t).out = (g.threads t).out)
    (hans : (g'.threads t).ans = (g.threads t).ans) (hpc : (g'.threads t).pc ≠ .atSet) : AInv g' := by
  refine ainv_local (t := t) hi hst hv hk hoth hreq ?_ ?_ ?_
  · intro r h; rw [hout] at h; rw [hans]; exact hi.rep t r h
  · intro h; rw [hout] at h; rw [hans]; exact hi.own t h
  · intro h; exact absurd h hpc

theorem ainv_step (life : Nat) {g g' : G} {t : Tid} (he : EInv life g) (hi : AInv g) (hs : Step life g t g') :
    AInv g' := by
  cases hs with
  | arriveInvalid hpc hk hiv =>
    exact ainv_local (t := t) hi rfl rfl rfl (fun t' h => by simp [h]) (by simp) (by simp) (by simp) (by simp)
  | arriveBypass hpc hk hiv =>
    exact ainv_pc (t := t) hi rfl rfl rfl (fun t' h => by simp [h]) (by simp) (by simp) (by simp) (by simp)
  | arrive hpc k hk =>
    exact ainv_pc (t := t) hi rfl rfl rfl (fun t' h => by simp [h]) (by simp) (by simp) (by simp) (by simp)
  | get1Hit hpc k hk r hlk =>
    obtain ⟨exp, hst⟩ := lookup_some hlk
    refine ainv_local (t := t) hi rfl rfl rfl (fun t' h => by simp [h]) (by simp) ?_ (by simp) (by simp)
    intro r' hr; simp at hr; subst hr
    simpa using hi.val k r exp hst
  | get1Miss hpc k hk hlk =>
    exact ainv_pc (t := t) hi rfl rfl rfl (fun t' h => by simp [h]) (by simp) (by simp) (by simp) (by simp)
  | lockCall hpc =>
    exact ainv_pc (t := t) hi rfl rfl rfl (fun t' h => by simp [h]) (by simp) (by simp) (by simp) (by simp)
  | incOld hpc k hk i hki =>
    exact ainv_pc (t := t) hi rfl rfl rfl (fun t' h => by simp [h]) (by simp) (by simp) (by simp) (by simp)
  | incNew hpc k hk hki =>
    exact ainv_pc (t := t) hi rfl rfl rfl (fun t' h => by simp [h]) (by simp) (by simp) (by simp) (by simp)
  | acquire hpc hh =>
    exact ainv_pc (t := t) hi rfl rfl rfl (fun t' h => by simp [h]) (by simp) (by simp) (by simp) (by simp)
  | get2Hit hpc k hk r hlk =>
    obtain ⟨exp, hst⟩ := lookup_some hlk
    refine ainv_local (t := t) hi rfl rfl rfl (fun t' h => by simp [h]) (by simp) ?_ (by simp) (by simp)
    intro r' hr; simp at hr; subst hr
    simpa using hi.val k r exp hst
  | get2Miss hpc k hk hlk =>
    exact ainv_pc (t := t) hi rfl rfl rfl (fun t' h => by simp [h]) (by simp) (by simp) (by simp) (by simp)
  | handlerFail hpc hf =>
    exact ainv_local (t := t) hi rfl rfl rfl (fun t' h => by simp [h]) (by simp) (by simp) (by simp) (by simp)
  | handlerOk hpc hf =>
    have hp := (he.early t (by simp [hpc, early])).2.1
    exact ainv_local (t := t) hi rfl rfl rfl (fun t' h => by simp [h]) (by simp) (by simp [hp]) (by simp) (by simp)
  | set hpc k hk =>
    have ha := hi.atSet t hpc
    obtain ⟨_, _, s3, s4, _⟩ := he.atSet t hpc
    have hRq : ∀ r, (({ g with store := fun k' => if k' = k then some (t, g.now + life) else g.store k', vals := fun k' => if k' = k then some (recorded g.keep (g.threads t).req.resp) else g.vals k' }.setThread t
          { g.threads t with pc := .atUnlock, out := .own, stored := true, setAt := g.now }).threads r).req = (g.threads r).req := by
      intro r; by_cases hrt : r = t
      · subst hrt; simp
      · simp [setThread_threads_ne _ _ hrt]
    refine ⟨?_, ?_, ?_, ?_⟩
    · intro k' r exp h
      rw [hRq]
      simp only [setThread_store, setThread_vals, setThread_keep] at h ⊢
      by_cases hkk : k' = k
      · subst hkk
        simp at h
        obtain ⟨rfl, _⟩ := h
        simp
      · simp [hkk] at h ⊢
        exact hi.val k' r exp h
    · intro t' r h
      rw [hRq]
      simp only [setThread_keep]
      by_cases ht : t' = t
      · subst ht; simp at h
      · simp only [setThread_threads_ne _ _ ht] at h ⊢; exact hi.rep t' r h
    · intro t' h
      rw [hRq]
      by_cases ht : t' = t
      · subst ht; simpa using ha
      · simp only [setThread_threads_ne _ _ ht] at h ⊢; exact hi.own t' h
    · intro t' h
      rw [hRq]
      by_cases ht : t' = t
      · subst ht; simp at h
      · simp only [setThread_threads_ne _ _ ht] at h ⊢; exact hi.atSet t' h
  | unlockCall hpc =>
    exact ainv_pc (t := t) hi rfl rfl rfl (fun t' h => by simp [h]) (by simp) (by simp) (by simp) (by simp)
  | unlockFound hpc k hk i hki =>
    exact ainv_pc (t := t) hi rfl rfl rfl (fun t' h => by simp [h]) (by simp) (by simp) (by simp) (by simp)
  | unlockUnknown hpc k hk hki =>
    exact ainv_pc (t := t) hi rfl rfl rfl (fun t' h => by simp [h]) (by simp) (by simp) (by simp) (by simp)
  | release hpc =>
    exact ainv_pc (t := t) hi rfl rfl rfl (fun t' h => by simp [h]) (by simp) (by simp) (by simp) (by simp)
  | decDelete hpc k hk hz =>
    exact ainv_pc (t := t) hi rfl rfl rfl (fun t' h => by simp [h]) (by simp) (by simp) (by simp) (by simp)
  | decKeep hpc k hk hz =>
    exact ainv_pc (t := t) hi rfl rfl rfl (fun t' h => by simp [h]) (by simp) (by simp) (by simp) (by simp)
  | handlerB hpc =>
    refine ainv_local (t := t) hi rfl rfl rfl (fun t' h => by simp [h]) (by simp) ?_ ?_ (by simp)
    · intro r; by_cases hf : (g.threads t).req.fails = true <;> simp [hf]
    · by_cases hf : (g.threads t).req.fails = true <;> simp [hf]
  | faultGet1 hpc =>
    exact ainv_local (t := t) hi rfl rfl rfl (fun t' h => by simp [h]) (by simp) (by simp) (by simp) (by simp)
  | faultLock hpc =>
    exact ainv_local (t := t) hi rfl rfl rfl (fun t' h => by simp [h]) (by simp) (by simp) (by simp) (by simp)
  | faultGet2 hpc =>
    exact ainv_local (t := t) hi rfl rfl rfl (fun t' h => by simp [h]) (by simp) (by simp) (by simp) (by simp)
  | faultSet hpc =>
    exact ainv_local (t := t) hi rfl rfl rfl (fun t' h => by simp [h]) (by simp) (by simp) (by simp) (by simp)
  | faultUnlock hpc =>
    exact ainv_pc (t := t) hi rfl rfl rfl (fun t' h => by simp [h]) (by simp) (by simp) (by simp) (by simp)

end C17
