import FiberModel.C17.OnceInv
import FiberModel.C17.Known
/-
C17 — property theorems (only). All of them quantify over every lifetime, every KeepResponseHeaders
setting, every assignment of requests to threads (unboundedly many threads, any keys, with or without
key / safe method, invalid keys, failing or succeeding handlers, any response) and EVERY schedule: any
interleaving of the atomic steps of the threads (including the internal steps of MemoryLock.Lock /
Unlock), a fault at any Storage.Get / Lock.Lock / Storage.Set / Lock.Unlock call, and clock ticks of
any length (`(sys life).Reach (init reqs t0 keep) g`).
-/
namespace C17
open Conc

def exReq : Req := { key := some 0, invalid := false, fails := false,
                     resp := ⟨201, "created", [("X-A", "1"), ("Set-Cookie", "s=1"), ("x-a", "2")]⟩ }

/-! ### MemoryLock -/

/-- **memorylock_mutex.** Under every schedule: (1) two threads that are both past `lock.mu.Lock()`
and before `lock.mu.Unlock()` for the same key are the same thread (per-key mutual exclusion, across
deletions and re-creations of the map entry); (2) a key's map entry is absent only when no thread is
between `locked++` and `locked--` for that key — i.e. an entry is deleted only when no thread holds
or waits on it; (3) all threads counted on a key point at the entry currently in the map, and its
counter is their number. -/
theorem memorylock_mutex (life : Nat) (reqs : Tid → Req) (t0 : Nat) (keep : Option (List String)) {g : G}
    (h : (sys life).Reach (init reqs t0 keep) g) :
    (∀ t t' k, holds (g.threads t).pc = true → holds (g.threads t').pc = true →
      (g.threads t).req.key = some k → (g.threads t').req.key = some k → t = t') ∧
    (∀ k, g.keys k = none → ∀ t, (g.threads t).req.key = some k → inLock (g.threads t).pc = false) ∧
    (∀ t, inLock (g.threads t).pc = true →
      ∃ k, (g.threads t).req.key = some k ∧ g.keys k = some (g.threads t).lk ∧
        (g.locks (g.threads t).lk).locked = (g.locks (g.threads t).lk).users.length ∧
        (∀ t', t' ∈ (g.locks (g.threads t).lk).users ↔
          (inLock (g.threads t').pc = true ∧ (g.threads t').lk = (g.threads t).lk))) := by
  have hf := full_reach life reqs t0 keep h
  refine ⟨fun t t' k h1 h2 k1 k2 => holders_eq hf.lock h1 h2 k1 k2, fun k hk t hkt => ?_, fun t hin => ?_⟩
  · cases hin : inLock (g.threads t).pc with
    | false => rfl
    | true =>
      obtain ⟨k', hk', hp⟩ := hf.lock.ptr t hin
      rw [hkt] at hk'; cases hk'
      rw [hk] at hp; cases hp
  · obtain ⟨k, hk, hp⟩ := hf.lock.ptr t hin
    exact ⟨k, hk, hp, hf.lock.count _, fun t' => hf.lock.users _ t'⟩

/-! ### at most one successful execution per key and lifetime -/

/-
Full statement (FALSE on the unchanged tree, see `at_most_one_success_witness_K1`):
  ∀ reachable g, ∀ t1 ≠ t2 with the same key k, if t2 is executing the handler (or has completed it and
  not yet recorded the response) and the handler has completed successfully for t1, then t1's
  completion is at least a lifetime old:  doneAt t1 + life ≤ now.
It fails exactly when t1's Storage.Set failed (finding K1): the partial theorem assumes
`Known.K1 g t1 = false`.
-/
def AtMostOnce (life : Nat) (g : G) (t1 t2 : Tid) : Prop :=
  ∀ k, t1 ≠ t2 → execRegion (g.threads t2).pc = true → (g.threads t2).req.key = some k →
    (g.threads t1).req.key = some k → (g.threads t1).ran = true → (g.threads t1).req.fails = false →
    (g.threads t1).doneAt + life ≤ g.now

/-- **at_most_one_success_partial.** Under every schedule (faults included): while a request is
executing the handler for key k, every *other* request of key k whose handler completed successfully
— and whose response was not lost by a failing `Storage.Set` (K1) — completed at least a lifetime
ago; and no other request of key k is executing at the same time. -/
theorem at_most_one_success_partial (life : Nat) (reqs : Tid → Req) (t0 : Nat) (keep : Option (List String)) {g : G}
    (h : (sys life).Reach (init reqs t0 keep) g) (t1 t2 : Tid) (hK : Known.K1 g t1 = false) :
    AtMostOnce life g t1 t2 := by
  have hf := full_reach life reqs t0 keep h
  intro k hne hex hk2 hk1 hran hnf
  obtain ⟨_, hcase⟩ := hf.exec.succ t1 k hran hnf hk1
  have hh2 : holds (g.threads t2).pc = true := by
    revert hex; cases (g.threads t2).pc <;> simp [execRegion, holds]
  rcases hcase with hc | hc | hc
  · -- t1 is about to record: it holds the key's lock, and so does t2
    exact absurd (holders_eq hf.lock (by simp [hc, holds]) hh2 hk1 hk2) hne
  · have := recorded_blocks hf.exec hex hk2 hk1 hc
    have := (hf.exec.setAt t1 hc).1
    omega
  · simp [Known.K1, hc] at hK

/-- **recorded_success_blocks_execution.** (no K1 restriction) Under every schedule: while a request
executes the handler (or has completed it and not yet recorded) for key k, every execution of key k
whose response was recorded was recorded at least a lifetime ago — the lifetime counted from the second
of the successful `Storage.Set`. -/
theorem recorded_success_blocks_execution (life : Nat) (reqs : Tid → Req) (t0 : Nat) (keep : Option (List String))
    {g : G} (h : (sys life).Reach (init reqs t0 keep) g) (t1 t2 : Tid) (k : Key)
    (hex : execRegion (g.threads t2).pc = true) (hk2 : (g.threads t2).req.key = some k)
    (hk1 : (g.threads t1).req.key = some k) (hs : (g.threads t1).stored = true) :
    (g.threads t1).doneAt ≤ (g.threads t1).setAt ∧ (g.threads t1).setAt + life ≤ g.now := by
  have hf := full_reach life reqs t0 keep h
  exact ⟨(hf.exec.setAt t1 hs).1, recorded_blocks hf.exec hex hk2 hk1 hs⟩

/-- **recorded_successes_a_lifetime_apart.** (no K1 restriction) Under every schedule: of two different
requests of the same key whose handlers completed successfully and whose responses were both recorded,
one completed at least a lifetime after the other was *recorded*. Together with K1 (= a successful
execution that was never recorded) this is the whole at-most-once clause. -/
theorem recorded_successes_a_lifetime_apart (life : Nat) (reqs : Tid → Req) (t0 : Nat) (keep : Option (List String))
    {g : G} (h : (sys life).Reach (init reqs t0 keep) g) (t1 t2 : Tid) (k : Key) (hne : t1 ≠ t2)
    (hk1 : (g.threads t1).req.key = some k) (hk2 : (g.threads t2).req.key = some k)
    (hs1 : (g.threads t1).stored = true) (hs2 : (g.threads t2).stored = true) :
    (g.threads t1).setAt + life ≤ (g.threads t2).doneAt ∨ (g.threads t2).setAt + life ≤ (g.threads t1).doneAt :=
  (oinv_reach life reqs t0 keep h).apart t1 t2 k hne hk1 hk2 hs1 hs2

/-- K1 witness: thread 0 executes, its Set fails, thread 1 executes in the same second. -/
theorem at_most_one_success_witness_K1 :
    ¬ AtMostOnce 5 ((sys 5).run (init (fun _ => { key := some 0, invalid := false, fails := false }) 100)
        (List.replicate 7 (.thr 0) ++ [.fault 0] ++ List.replicate 4 (.thr 0) ++ List.replicate 7 (.thr 1))) 0 1 := by
  intro h
  have := h 0 (by decide) (by decide) (by decide) (by decide) (by decide) (by decide)
  revert this
  decide

/-- non-vacuity of the partial theorem: the same schedule without the fault, after the lifetime has
passed thread 1 executes again, and the hypotheses of `AtMostOnce` hold for (0, 1) -/
def exA : G := (sys 5).run (init (fun _ => { key := some 0, invalid := false, fails := false }) 100)
  (List.replicate 12 (Act.thr 0) ++ [Act.tick 5] ++ List.replicate 7 (Act.thr 1))

example : Known.K1 exA 0 = false ∧ execRegion (exA.threads 1).pc = true ∧ (exA.threads 0).ran = true ∧
    (exA.threads 0).doneAt + 5 ≤ exA.now := by decide

/-
Full statement (FALSE on the unchanged tree for the same reason, K1): the same without the two
`Known.K1 … = false` hypotheses.
-/
/-- non-vacuity of `recorded_successes_a_lifetime_apart`: both requests recorded, a lifetime apart -/
def exA2 : G := (sys 5).run exA (List.replicate 6 (Act.thr 1))

example : (exA2.threads 0).stored = true ∧ (exA2.threads 1).stored = true ∧ (exA2.threads 0).setAt = 100 ∧
    (exA2.threads 1).doneAt = 105 ∧ (exA2.threads 1).pc = .done := by decide

/-- **successes_a_lifetime_apart_partial.** Under every schedule: two different requests of the same key
whose handlers both completed successfully, and neither of whose responses was lost by a failing
`Storage.Set` (K1), completed at least a lifetime apart. -/
theorem successes_a_lifetime_apart_partial (life : Nat) (reqs : Tid → Req) (t0 : Nat) (keep : Option (List String)) {g : G}
    (h : (sys life).Reach (init reqs t0 keep) g) :
    ∀ t1 t2 k, t1 ≠ t2 → (g.threads t1).req.key = some k → (g.threads t2).req.key = some k →
      (g.threads t1).ran = true → (g.threads t1).req.fails = false →
      (g.threads t2).ran = true → (g.threads t2).req.fails = false →
      Known.K1 g t1 = false → Known.K1 g t2 = false →
      (g.threads t1).doneAt + life ≤ (g.threads t2).doneAt ∨ (g.threads t2).doneAt + life ≤ (g.threads t1).doneAt := by
  refine Conc.reach_induction (sys life) (P := fun g => ∀ t1 t2 k, t1 ≠ t2 → (g.threads t1).req.key = some k →
      (g.threads t2).req.key = some k → (g.threads t1).ran = true → (g.threads t1).req.fails = false →
      (g.threads t2).ran = true → (g.threads t2).req.fails = false → Known.K1 g t1 = false → Known.K1 g t2 = false →
      (g.threads t1).doneAt + life ≤ (g.threads t2).doneAt ∨ (g.threads t2).doneAt + life ≤ (g.threads t1).doneAt)
    ?_ ?_ g h
  · intro t1 t2 k _ _ _ h1; simp [init] at h1
  · intro g a g' hr ih hs
    rcases step_cases life hs with ⟨d, _, rfl⟩ | ⟨t, _, hst⟩
    · exact ih
    · have hf := full_reach life reqs t0 keep hr
      -- the only step that makes a request "completed successfully" is `handlerOk`
      by_cases hok : (g.threads t).pc = .atHandler ∧ (g.threads t).req.fails = false
      · obtain ⟨hpc, hfl⟩ := hok
        have hg' : g' = g.setThread t { g.threads t with pc := .atSet, ran := true, doneAt := g.now, ans := some (g.threads t).req.resp } := by
          cases hst <;> simp_all
        subst hg'
        have hearly := hf.exec.early t (by simp [hpc, early])
        intro t1 t2 k hne k1 k2 r1 f1 r2 f2 kk1 kk2
        -- the thread that just completed
        have key : ∀ ta tb, ta ≠ tb → tb = t → ta ≠ t →
            (g.threads ta).req.key = some k → (g.threads t).req.key = some k →
            (g.threads ta).ran = true → (g.threads ta).req.fails = false → Known.K1 g ta = false →
            (g.threads ta).doneAt + life ≤ g.now := by
          intro ta tb hab hb hta ka kt ra fa kka
          exact at_most_one_success_partial life reqs t0 keep hr ta t kka k hta (by simp [hpc, execRegion]) kt ka ra fa
        by_cases h1 : t1 = t
        · subst h1
          have h2 : t2 ≠ t1 := fun h => hne h.symm
          simp only [setThread_threads_same, setThread_threads_ne _ _ h2] at *
          right
          exact key t2 t1 h2 rfl h2 k2 k1 r2 f2 (by simpa [Known.K1, setThread_threads_ne _ _ h2] using kk2)
        · by_cases h2 : t2 = t
          · subst h2
            simp only [setThread_threads_same, setThread_threads_ne _ _ h1] at *
            left
            exact key t1 t2 h1 rfl h1 k1 k2 r1 f1 (by simpa [Known.K1, setThread_threads_ne _ _ h1] using kk1)
          · simp only [setThread_threads_ne _ _ h1, setThread_threads_ne _ _ h2] at *
            exact ih t1 t2 k hne k1 k2 r1 f1 r2 f2 (by simpa [Known.K1, setThread_threads_ne _ _ h1] using kk1)
              (by simpa [Known.K1, setThread_threads_ne _ _ h2] using kk2)
      · -- any other step leaves `ran`, `doneAt`, `req` alone and can only turn `out` into errSet
        have hsame : ∀ t', (g'.threads t').req = (g.threads t').req ∧ (g'.threads t').doneAt = (g.threads t').doneAt ∧
            ((g'.threads t').ran = true → (g'.threads t').req.fails = false → (g'.threads t').req.key ≠ none →
              (g.threads t').ran = true) ∧
            (Known.K1 g' t' = false → Known.K1 g t' = false) := by
          intro t'
          by_cases ht : t' = t
          · subst ht
            have he := hf.exec.early t'
            have hs := hf.exec.atSet t'
            cases hst <;> simp_all [Known.K1, early]
          · have : g'.threads t' = g.threads t' := by cases hst <;> simp [setThread_threads_ne _ _ ht]
            exact ⟨by rw [this], by rw [this], fun h _ _ => by rwa [this] at h, by simp [Known.K1, this]⟩
        intro t1 t2 k hne k1 k2 r1 f1 r2 f2 kk1 kk2
        obtain ⟨a1, b1, c1, d1⟩ := hsame t1
        obtain ⟨a2, b2, c2, d2⟩ := hsame t2
        rw [a1] at k1 f1; rw [a2] at k2 f2; rw [b1, b2]
        exact ih t1 t2 k hne k1 k2 (c1 r1 (by rw [a1]; exact f1) (by rw [a1, k1]; simp)) f1
          (c2 r2 (by rw [a2]; exact f2) (by rw [a2, k2]; simp)) f2 (d1 kk1) (d2 kk2)

/-! ### same answer -/

/-- **same_answer.** Under every schedule and every KeepResponseHeaders setting: a request answered
without running the handler (`replay r`) was written exactly the recorded form of the response of
execution `r` — `r`'s status, `r`'s body and those of `r`'s headers that KeepResponseHeaders selects
(all of them when it is nil), in `r`'s order; `r` has the same key, completed the handler successfully
and its response was recorded; the handler was not run for the answered request. -/
theorem same_answer (life : Nat) (reqs : Tid → Req) (t0 : Nat) (keep : Option (List String)) {g : G}
    (h : (sys life).Reach (init reqs t0 keep) g) (t r : Tid) (ho : (g.threads t).out = .replay r) :
    (g.threads t).ans = some (recorded keep (reqs r).resp) ∧
    (reqs r).key = (reqs t).key ∧ (reqs t).key ≠ none ∧
    (g.threads r).stored = true ∧ (g.threads r).ran = true ∧ (reqs r).fails = false ∧
    (g.threads t).ran = false := by
  have hf := full_reach life reqs t0 keep h
  obtain ⟨hk, hrq⟩ := const_reach life reqs t0 keep h
  obtain ⟨a, b, c⟩ := hf.exec.replay t r ho
  obtain ⟨d, e, _⟩ := hf.exec.stored r c
  have hans := hf.ans.rep t r ho
  rw [hk, hrq r] at hans
  rw [hrq r, hrq t] at a; rw [hrq t] at b; rw [hrq r] at e
  exact ⟨hans, a, b, c, d, e, hf.exec.noRun t (by simp [ho, noRunOut])⟩

/-- the executing request itself is written its handler's response -/
theorem own_answer (life : Nat) (reqs : Tid → Req) (t0 : Nat) (keep : Option (List String)) {g : G}
    (h : (sys life).Reach (init reqs t0 keep) g) (t : Tid) (ho : (g.threads t).out = .own) :
    (g.threads t).ans = some (reqs t).resp ∧ (g.threads t).ran = true := by
  have hf := full_reach life reqs t0 keep h
  obtain ⟨_, hrq⟩ := const_reach life reqs t0 keep h
  have := hf.ans.own t ho
  rw [hrq t] at this
  exact ⟨this, hf.own t ho⟩

/-- **duplicates_agree.** Any two requests answered from the record of the same execution were written
the same status, body and kept headers. -/
theorem duplicates_agree (life : Nat) (reqs : Tid → Req) (t0 : Nat) (keep : Option (List String)) {g : G}
    (h : (sys life).Reach (init reqs t0 keep) g) (t t' r : Tid)
    (ho : (g.threads t).out = .replay r) (ho' : (g.threads t').out = .replay r) :
    (g.threads t).ans = (g.threads t').ans := by
  rw [(same_answer life reqs t0 keep h t r ho).1, (same_answer life reqs t0 keep h t' r ho').1]

def exB : G := (sys 5).run (init (fun _ => exReq) 100 (some ["x-A"]))
  (List.replicate 12 (Act.thr 0) ++ List.replicate 2 (Act.thr 1))

example : (exB.threads 1).out = .replay 0 ∧ (exB.threads 1).pc = .done ∧ (exB.threads 0).out = .own := by decide
example : recorded (some ["x-A"]) exReq.resp = ⟨201, "created", [("X-A", "1"), ("x-a", "2")]⟩ := by decide

/-! ### lookup / lock failures -/

/-- **lock_or_lookup_failure_no_execution.** Under every schedule: a request whose fast-path lookup,
lock acquisition or second lookup failed (or whose key is invalid) is answered with that error and the
handler was not run for it. -/
theorem lock_or_lookup_failure_no_execution (life : Nat) (reqs : Tid → Req) (t0 : Nat) (keep : Option (List String)) {g : G}
    (h : (sys life).Reach (init reqs t0 keep) g) (t : Tid)
    (ho : (g.threads t).out = .errGet1 ∨ (g.threads t).out = .errLock ∨ (g.threads t).out = .errGet2 ∨
          (g.threads t).out = .errKey) :
    (g.threads t).ran = false := by
  have hf := full_reach life reqs t0 keep h
  apply hf.exec.noRun t
  rcases ho with ho | ho | ho | ho <;> simp [ho, noRunOut]

def lookErr : Out → Bool
  | .errGet1 | .errLock | .errGet2 => true
  | _ => false

/-- **lookup_or_lock_failure_final.** Take any reachable state and any request whose pending fast-path
lookup, lock acquisition or lookup under the lock is made to fail there. Then, whatever happens
afterwards (every continuation schedule `bs`, further faults included), that request is answered with
that error and the handler is never run for it. -/
theorem lookup_or_lock_failure_final (life : Nat) (reqs : Tid → Req) (t0 : Nat) (keep : Option (List String))
    {g g1 : G} (h : (sys life).Reach (init reqs t0 keep) g) (t : Tid) (hfault : stepFault g t = some g1)
    (hpc : (g.threads t).pc = .atGet1 ∨ (g.threads t).pc = .atLock ∨ (g.threads t).pc = .atGet2) (bs : List Act) :
    lookErr (((sys life).run g1 bs).threads t).out = true ∧
    (((sys life).run g1 bs).threads t).out = (g1.threads t).out ∧
    (((sys life).run g1 bs).threads t).ran = false := by
  have hf := full_reach life reqs t0 keep h
  have hs1 : step life g (.fault t) = some g1 := hfault
  have hf1 : Full life g1 := full_step life hf hs1
  have hearly : early (g.threads t).pc = true := by rcases hpc with h | h | h <;> simp [h, early]
  have hran0 := (hf.exec.early t hearly).1
  have h1 : lookErr (g1.threads t).out = true ∧ (g1.threads t).ran = false := by
    rcases hpc with hp | hp | hp <;> simp [stepFault, hp] at hfault <;> subst hfault <;> simp [lookErr, hran0]
  have key : Full life ((sys life).run g1 bs) ∧ (((sys life).run g1 bs).threads t).out = (g1.threads t).out ∧
      (((sys life).run g1 bs).threads t).ran = false := by
    refine Conc.inv_run (sys life) (fun g' => Full life g' ∧ (g'.threads t).out = (g1.threads t).out ∧ (g'.threads t).ran = false)
      ?_ ⟨hf1, rfl, h1.2⟩ bs
    intro ga a gb ⟨hfa, hoa, hra⟩ hs
    have hs : step life ga a = some gb := hs
    refine ⟨full_step life hfa hs, ?_⟩
    rcases step_cases life hs with ⟨d, _, rfl⟩ | ⟨t', _, hst⟩
    · exact ⟨hoa, hra⟩
    · have hne : (ga.threads t).out ≠ .pending := by
        rw [hoa]; intro hp; have := h1.1; rw [hp] at this; simp [lookErr] at this
      obtain ⟨a1, a2⟩ := out_sticky hfa hst t hne
      exact ⟨a1.trans hoa, a2.trans hra⟩
  exact ⟨by rw [key.2.1]; exact h1.1, key.2.1, key.2.2⟩

/-- non-vacuity: the lock acquisition of request 0 fails while request 1 (same key) goes on to execute -/
example : stepFault ((sys 5).run (init (fun _ => exReq) 100) [Act.thr 0, Act.thr 0]) 0 ≠ none ∧
    (((sys 5).run (init (fun _ => exReq) 100) [Act.thr 0, Act.thr 0]).threads 0).pc = .atLock := by decide

/-- **fault_gives_error.** A failing `Storage.Get` / `Lock.Lock` / `Storage.Set` call is answered with
the corresponding error at once; a failing `Lock.Unlock` (it is only logged) leaves the answer, the
storage and every other request as they were. -/
theorem fault_gives_error (g g' : G) (t : Tid) (h : stepFault g t = some g') :
    ((g.threads t).pc = .atGet1 ∧ (g'.threads t).out = .errGet1 ∧ (g'.threads t).pc = .done) ∨
    ((g.threads t).pc = .atLock ∧ (g'.threads t).out = .errLock ∧ (g'.threads t).pc = .done) ∨
    ((g.threads t).pc = .atGet2 ∧ (g'.threads t).out = .errGet2) ∨
    ((g.threads t).pc = .atSet ∧ (g'.threads t).out = .errSet) ∨
    ((g.threads t).pc = .atUnlock ∧ (g'.threads t).out = (g.threads t).out ∧ (g'.threads t).ans = (g.threads t).ans ∧
      (g'.threads t).ran = (g.threads t).ran ∧ g'.store = g.store ∧ g'.vals = g.vals ∧
      ∀ t', t' ≠ t → g'.threads t' = g.threads t') := by
  cases hpc : (g.threads t).pc <;> simp [stepFault, hpc] at h <;> subst h <;> simp
  intro t' ht; simp [setThread_threads_ne _ _ ht]

def exC : G := (sys 5).run (init (fun _ => { key := some 0, invalid := false, fails := false }) 100) [Act.thr 0, Act.thr 0, Act.fault 0]

example : (exC.threads 0).out = .errLock ∧ (exC.threads 0).pc = .done ∧ (exC.threads 0).ran = false := by decide

/-! ### other requests are unaffected -/

/-- **others_unaffected.** (1) A request without a key / with a safe method always has an enabled step
until it is done, that step touches neither storage nor lock table, and it ends having run the
handler. (2) A step of a request with key k leaves the record and the lock-table entry of every other
key (and the recorded response of every other key), and every other thread, untouched. (3) Under every
schedule an unfinished request is blocked only inside `lock.mu.Lock()`, and only by a request with the
*same* key that holds that key's lock (which includes a request whose `Unlock` failed). -/
theorem others_unaffected (life : Nat) (reqs : Tid → Req) (t0 : Nat) (keep : Option (List String)) {g : G}
    (h : (sys life).Reach (init reqs t0 keep) g) :
    (∀ t, (g.threads t).req.key = none → (g.threads t).req.invalid = false → (g.threads t).pc ≠ .done →
      ∃ g', stepThr life g t = some g' ∧ g'.store = g.store ∧ g'.keys = g.keys ∧ g'.locks = g.locks) ∧
    (∀ t, (g.threads t).req.key = none → (g.threads t).req.invalid = false → (g.threads t).pc = .done →
      (g.threads t).ran = true) ∧
    (∀ t g' k, Step life g t g' → (g.threads t).req.key = some k →
      (∀ k', k' ≠ k → g'.store k' = g.store k' ∧ g'.vals k' = g.vals k' ∧ g'.keys k' = g.keys k') ∧
      (∀ t', t' ≠ t → g'.threads t' = g.threads t')) ∧
    (∀ t, stepThr life g t = none → (g.threads t).pc ≠ .done → (g.threads t).pc ≠ .leaked →
      (g.threads t).pc = .lockAcq ∧ (g.threads t).req.key ≠ none ∧
      ∃ t', (g.locks (g.threads t).lk).holder = some t' ∧ (g.threads t').req.key = (g.threads t).req.key) := by
  have hf := full_reach life reqs t0 keep h
  refine ⟨fun t hk hiv hnd => ?_, fun t hk hiv hd => ?_, fun t g' k hst hk => ?_, fun t hnone hnd hnl => ?_⟩
  · -- a bypassing thread is at idle or in the handler
    have hpc : (g.threads t).pc = .idle ∨ (g.threads t).pc = .atHandlerB := by
      by_cases h1 : (g.threads t).pc = .idle
      · exact .inl h1
      · by_cases h2 : (g.threads t).pc = .atHandlerB
        · exact .inr h2
        · obtain ⟨k, hk'⟩ := hf.keyed t h1 h2 hnd
          rw [hk] at hk'; cases hk'
    rcases hpc with hpc | hpc
    · have : stepThr life g t = some (g.setThread t { g.threads t with pc := .atHandlerB }) := by
        simp [stepThr, hpc, hk, hiv]
      exact ⟨_, this, rfl, rfl, rfl⟩
    · have : stepThr life g t = some (g.setThread t { g.threads t with pc := .done, ran := true, out := if (g.threads t).req.fails then .errHandler else .own, ans := if (g.threads t).req.fails then none else some (g.threads t).req.resp }) := by
        simp [stepThr, hpc]
      exact ⟨_, this, rfl, rfl, rfl⟩
  · exact hf.byp t hk hiv hd
  · constructor
    · intro k' hkk
      cases hst <;> simp_all
    · intro t' ht
      cases hst <;> simp [setThread_threads_ne _ _ ht]
  · -- the only blocking instruction is lock.mu.Lock()
    have hpc : (g.threads t).pc = .lockAcq := stepThr_none_pc hf.keyed hnone hnd hnl
    obtain ⟨k0, hk0⟩ := hf.keyed t (by simp [hpc]) (by simp [hpc]) (by simp [hpc])
    refine ⟨hpc, by simp [hk0], ?_⟩
    simp only [stepThr, hpc] at hnone
    cases hh : (g.locks (g.threads t).lk).holder with
    | none => simp [hh] at hnone
    | some t' =>
      refine ⟨t', rfl, ?_⟩
      obtain ⟨h1, h2⟩ := (hf.lock.holder _ t').1 hh
      obtain ⟨ka, hka, pa⟩ := hf.lock.ptr t' (inLock_of_holds h1)
      obtain ⟨kb, hkb, pb⟩ := hf.lock.ptr t (by simp [hpc, inLock])
      rw [h2] at pa
      have := hf.lock.inj ka kb _ pa pb
      rw [hka, hkb, this]

/-- **no_deadlock.** Under every schedule: whenever an unfinished request cannot move, the request that
holds its key's lock either can move itself or is one whose `Unlock` failed (leaked lock) — requests
never wait for each other in a cycle, so without `Unlock` faults every request is eventually answered
under any fair schedule. -/
theorem no_deadlock (life : Nat) (reqs : Tid → Req) (t0 : Nat) (keep : Option (List String)) {g : G}
    (h : (sys life).Reach (init reqs t0 keep) g) (t : Tid) (hnone : stepThr life g t = none)
    (hnd : (g.threads t).pc ≠ .done) (hnl : (g.threads t).pc ≠ .leaked) :
    ∃ t', (g.locks (g.threads t).lk).holder = some t' ∧ t' ≠ t ∧
      ((g.threads t').pc = .leaked ∨ (stepThr life g t').isSome = true) := by
  have hf := full_reach life reqs t0 keep h
  obtain ⟨hpc, _, t', hh, _⟩ := (others_unaffected life reqs t0 keep h).2.2.2 t hnone hnd hnl
  obtain ⟨h1, _⟩ := (hf.lock.holder _ t').1 hh
  refine ⟨t', hh, ?_, ?_⟩
  · intro e; subst e; simp [hpc, holds] at h1
  · by_cases hl : (g.threads t').pc = .leaked
    · exact .inl hl
    · right
      cases hs : stepThr life g t' with
      | some _ => rfl
      | none =>
        have hd : (g.threads t').pc ≠ .done := by intro e; simp [e, holds] at h1
        have := stepThr_none_pc hf.keyed hs hd hl
        simp [this, holds] at h1

/-- non-vacuity of `no_deadlock`: request 1 waits for request 0, which is in the handler and can move -/
def exN : G := (sys 5).run (init (fun _ => exReq) 100) (List.replicate 6 (Act.thr 0) ++ List.replicate 4 (Act.thr 1))

example : (exN.threads 1).pc = .lockAcq ∧ (stepThr 5 exN 1).isNone = true ∧ (exN.threads 0).pc = .atHandler ∧
    (exN.locks (exN.threads 1).lk).holder = some 0 ∧ (stepThr 5 exN 0).isSome = true := by decide

/-- non-vacuity (blocking, Unlock fault): request 0 executes and records, its `Unlock` fails; after the
lifetime request 1 (same key) misses the record, and waits in `lock.mu.Lock()` for the leaked lock -/
def exL : G := (sys 5).run (init (fun _ => exReq) 100)
  (List.replicate 8 (Act.thr 0) ++ [Act.fault 0, Act.tick 5] ++ List.replicate 5 (Act.thr 1))

example : (exL.threads 0).pc = .leaked ∧ (exL.threads 0).out = .own ∧ (exL.threads 1).pc = .lockAcq ∧
    (stepThr 5 exL 1).isNone = true ∧ (exL.locks (exL.threads 1).lk).holder = some 0 := by decide

end C17
