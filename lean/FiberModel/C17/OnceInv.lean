import FiberModel.C17.FullInv
/-
C17 — the "recorded executions are a lifetime apart" invariant: while a request is about to record its
response, every *recorded* execution of the same key was recorded at least a lifetime before this
request's handler completed; hence any two recorded executions of a key are a lifetime apart, counted
from the second the earlier one was recorded (`setAt`) to the completion of the later one (`doneAt`).
-/
namespace C17
open Conc

structure OInv (life : Nat) (g : G) : Prop where
  atSet : ∀ t t1 k, (g.threads t).pc = .atSet → t1 ≠ t → (g.threads t).req.key = some k →
    (g.threads t1).req.key = some k → (g.threads t1).stored = true →
    (g.threads t1).setAt + life ≤ (g.threads t).doneAt
  apart : ∀ t1 t2 k, t1 ≠ t2 → (g.threads t1).req.key = some k → (g.threads t2).req.key = some k →
    (g.threads t1).stored = true → (g.threads t2).stored = true →
    (g.threads t1).setAt + life ≤ (g.threads t2).doneAt ∨ (g.threads t2).setAt + life ≤ (g.threads t1).doneAt

theorem oinv_init (life : Nat) (reqs : Tid → Req) (t0 : Nat) (keep : Option (List String)) :
    OInv life (init reqs t0 keep) := by
  refine ⟨?_, ?_⟩ <;> intros <;> simp_all [init]

theorem oinv_tick {life : Nat} {g : G} (d : Nat) (hi : OInv life g) : OInv life { g with now := g.now + d } :=
  ⟨hi.atSet, hi.apart⟩

/-- while a request executes the handler (or is about to record), every recorded execution of its key
was recorded at least a lifetime ago -/
theorem recorded_blocks {life : Nat} {g : G} (he : EInv life g) {t1 t2 : Tid} {k : Key}
    (hex : execRegion (g.threads t2).pc = true) (hk2 : (g.threads t2).req.key = some k)
    (hk1 : (g.threads t1).req.key = some k) (hs : (g.threads t1).stored = true) :
    (g.threads t1).setAt + life ≤ g.now := by
  obtain ⟨r, exp, hst, hle⟩ := he.kept t1 k hs hk1
  have := he.exec t2 k hex hk2 r exp hst
  omega

/-- steps that change neither requests, nor `stored` / `setAt` / `doneAt`, and put nobody at `atSet` -/
theorem oinv_frame {life : Nat} {g g' : G} (ho : OInv life g)
    (h : ∀ t', (g'.threads t').req = (g.threads t').req ∧ (g'.threads t').stored = (g.threads t').stored ∧
      (g'.threads t').setAt = (g.threads t').setAt ∧ (g'.threads t').doneAt = (g.threads t').doneAt ∧
      ((g'.threads t').pc = .atSet → (g.threads t').pc = .atSet)) : OInv life g' := by
  refine ⟨?_, ?_⟩
  · intro t t1 k hpc hne hk hk1 hs
    obtain ⟨a, _, _, d, e⟩ := h t
    obtain ⟨a1, b1, c1, _, _⟩ := h t1
    rw [a] at hk; rw [a1] at hk1; rw [b1] at hs; rw [c1, d]
    exact ho.atSet t t1 k (e hpc) hne hk hk1 hs
  · intro t1 t2 k hne hk1 hk2 hs1 hs2
    obtain ⟨a1, b1, c1, d1, _⟩ := h t1
    obtain ⟨a2, b2, c2, d2, _⟩ := h t2
    rw [a1] at hk1; rw [a2] at hk2; rw [b1] at hs1; rw [b2] at hs2; rw [c1, c2, d1, d2]
    exact ho.apart t1 t2 k hne hk1 hk2 hs1 hs2

theorem oinv_step (life : Nat) {g g' : G} {t : Tid} (hf : Full life g) (ho : OInv life g)
    (hs : Step life g t g') : OInv life g' := by
  cases hs
  case handlerOk hpc hfl =>
    have hearly := hf.exec.early t (by simp [hpc, early])
    refine ⟨?_, ?_⟩
    · intro x t1 k hx hne hk hk1 hs1
      have ht1 : t1 ≠ t := by
        intro h; subst h; simp [hearly.2.2.1] at hs1
      simp only [setThread_threads_ne _ _ ht1] at hk1 hs1 ⊢
      by_cases hxt : x = t
      · subst hxt
        simp only [setThread_threads_same] at hk ⊢
        exact recorded_blocks hf.exec (by simp [hpc, execRegion]) hk hk1 hs1
      · simp only [setThread_threads_ne _ _ hxt] at hx hk ⊢
        exact ho.atSet x t1 k hx hne hk hk1 hs1
    · intro t1 t2 k hne hk1 hk2 hs1 hs2
      have ht1 : t1 ≠ t := by
        intro h; subst h; simp [hearly.2.2.1] at hs1
      have ht2 : t2 ≠ t := by
        intro h; subst h; simp [hearly.2.2.1] at hs2
      simp only [setThread_threads_ne _ _ ht1, setThread_threads_ne _ _ ht2] at hk1 hk2 hs1 hs2 ⊢
      exact ho.apart t1 t2 k hne hk1 hk2 hs1 hs2
  case set hpc k hk =>
    refine ⟨?_, ?_⟩
    · intro x t1 k' hx hne hkx hk1 hs1
      have hxt : x ≠ t := by
        intro h; subst h; simp at hx
      simp only [setThread_threads_ne _ _ hxt] at hx hkx ⊢
      by_cases ht1 : t1 = t
      · subst ht1
        simp only [setThread_threads_same] at hk1
        -- both `x` and `t1` would hold the lock of the same key
        exact absurd (holders_eq hf.lock (by simp [hx, holds]) (by simp [hpc, holds]) hkx hk1) hxt
      · simp only [setThread_threads_ne _ _ ht1] at hk1 hs1 ⊢
        exact ho.atSet x t1 k' hx hne hkx hk1 hs1
    · intro t1 t2 k' hne hk1 hk2 hs1 hs2
      by_cases h1 : t1 = t
      · subst h1
        have h2 : t2 ≠ t1 := fun h => hne h.symm
        simp only [setThread_threads_same, setThread_threads_ne _ _ h2] at hk1 hk2 hs2 ⊢
        right
        exact ho.atSet t1 t2 k' hpc h2 hk1 hk2 hs2
      · by_cases h2 : t2 = t
        · subst h2
          simp only [setThread_threads_same, setThread_threads_ne _ _ h1] at hk1 hk2 hs1 ⊢
          left
          exact ho.atSet t2 t1 k' hpc h1 hk2 hk1 hs1
        · simp only [setThread_threads_ne _ _ h1, setThread_threads_ne _ _ h2] at hk1 hk2 hs1 hs2 ⊢
          exact ho.apart t1 t2 k' hne hk1 hk2 hs1 hs2
  all_goals
    apply oinv_frame ho
    intro t'
    by_cases ht : t' = t
    · subst ht; simp
    · simp [setThread_threads_ne _ _ ht]

theorem oinv_reach (life : Nat) (reqs : Tid → Req) (t0 : Nat) (keep : Option (List String)) {g : G}
    (h : (sys life).Reach (init reqs t0 keep) g) : OInv life g := by
  refine Conc.reach_induction (sys life) (P := OInv life) (oinv_init life reqs t0 keep) ?_ g h
  intro g a g' hr ih hs
  rcases step_cases life hs with ⟨d, _, rfl⟩ | ⟨t, _, hst⟩
  · exact oinv_tick d ih
  · exact oinv_step life (full_reach life reqs t0 keep hr) ih hst

end C17
