import FiberModel.C17.LockInv
/-
C17 — the execution / record invariant: who may be running the handler, what the storage holds, and
where answers come from.
-/
namespace C17
open Conc

/-- before the handler has run and before any answer was determined -/
def early : Pc → Bool
  | .idle | .atGet1 | .atLock | .lockInc | .lockAcq | .atGet2 | .atHandler | .atHandlerB => true
  | _ => false

/-- executing the handler or about to record its response -/
def execRegion : Pc → Bool
  | .atHandler | .atSet => true
  | _ => false

/-- answers that are given without running the handler -/
def noRunOut : Out → Bool
  | .errKey | .errGet1 | .errLock | .errGet2 | .replay _ => true
  | _ => false

structure EInv (life : Nat) (g : G) : Prop where
  early : ∀ t, early (g.threads t).pc = true →
    (g.threads t).ran = false ∧ (g.threads t).out = .pending ∧ (g.threads t).stored = false ∧
    ((g.threads t).pc = .atHandlerB → (g.threads t).req.key = none)
  noRun : ∀ t, noRunOut (g.threads t).out = true → (g.threads t).ran = false
  atSet : ∀ t, (g.threads t).pc = .atSet →
    (g.threads t).ran = true ∧ (g.threads t).req.fails = false ∧ (g.threads t).out = .pending ∧
    (g.threads t).stored = false ∧ (g.threads t).doneAt ≤ g.now
  succ : ∀ t k, (g.threads t).ran = true → (g.threads t).req.fails = false → (g.threads t).req.key = some k →
    (g.threads t).doneAt ≤ g.now ∧
    ((g.threads t).pc = .atSet ∨ (g.threads t).stored = true ∨ (g.threads t).out = .errSet)
  stored : ∀ t, (g.threads t).stored = true →
    (g.threads t).ran = true ∧ (g.threads t).req.fails = false ∧ ∃ k, (g.threads t).req.key = some k
  /-- a recorded response was recorded after the handler completed, and not in the future -/
  setAt : ∀ t, (g.threads t).stored = true → (g.threads t).doneAt ≤ (g.threads t).setAt ∧ (g.threads t).setAt ≤ g.now
  record : ∀ k r exp, g.store k = some (r, exp) →
    (g.threads r).req.key = some k ∧ (g.threads r).stored = true ∧ (g.threads r).setAt + life ≤ exp
  kept : ∀ t k, (g.threads t).stored = true → (g.threads t).req.key = some k →
    ∃ r exp, g.store k = some (r, exp) ∧ (g.threads t).setAt + life ≤ exp
  exec : ∀ t k, execRegion (g.threads t).pc = true → (g.threads t).req.key = some k →
    ∀ r exp, g.store k = some (r, exp) → exp ≤ g.now
  replay : ∀ t r, (g.threads t).out = .replay r →
    (g.threads r).req.key = (g.threads t).req.key ∧ (g.threads t).req.key ≠ none ∧ (g.threads r).stored = true

theorem einv_init (life : Nat) (reqs : Tid → Req) (t0 : Nat) (keep : Option (List String)) :
    EInv life (init reqs t0 keep) := by
  refine ⟨?_, ?_, ?_, ?_, ?_, ?_, ?_, ?_, ?_, ?_⟩ <;> intros <;> simp_all [init, noRunOut]

theorem lookup_some {g : G} {k : Key} {r : Tid} (h : lookup g k = some r) : ∃ exp, g.store k = some (r, exp) := by
  unfold lookup at h
  split at h
  · rename_i r' exp heq
    split at h
    · cases h
    · cases h; exact ⟨exp, heq⟩
  · cases h

theorem lookup_none {g : G} {k : Key} (h : lookup g k = none) : ∀ r exp, g.store k = some (r, exp) → exp ≤ g.now := by
  intro r exp hs
  unfold lookup at h
  simp only [hs] at h
  split at h
  · assumption
  · cases h

/-- steps that change only the record of thread `t` (not the storage, not the clock, not `stored` /
`doneAt` / `req` of `t`): it suffices to check the clauses for the new record -/
theorem einv_local {life : Nat} {g g' : G} {t : Tid} (hi : EInv life g)
    (hst : g'.store = g.store) (hnow : g'.now = g.now)
    (hoth : ∀ t', t' ≠ t → g'.threads t' = g.threads t')
    (hreq : (g'.threads t).req = (g.threads t).req) (hsto : (g'.threads t).stored = (g.threads t).stored)
    (hdone : (g'.threads t).doneAt = (g.threads t).doneAt)
    (hset : (g'.threads t).setAt = (g.threads t).setAt)
    (c1 : early (g'.threads t).pc = true →
      (g'.threads t).ran = false ∧ (g'.threads t).out = .pending ∧ (g'.threads t).stored = false ∧
      ((g'.threads t).pc = .atHandlerB → (g'.threads t).req.key = none))
    (c2 : noRunOut (g'.threads t).out = true → (g'.threads t).ran = false)
    (c3 : (g'.threads t).pc = .atSet →
      (g'.threads t).ran = true ∧ (g'.threads t).req.fails = false ∧ (g'.threads t).out = .pending ∧
      (g'.threads t).stored = false ∧ (g'.threads t).doneAt ≤ g.now)
    (c4 : ∀ k, (g'.threads t).ran = true → (g'.threads t).req.fails = false → (g'.threads t).req.key = some k →
      (g'.threads t).doneAt ≤ g.now ∧
      ((g'.threads t).pc = .atSet ∨ (g'.threads t).stored = true ∨ (g'.threads t).out = .errSet))
    (c5 : (g'.threads t).stored = true →
      (g'.threads t).ran = true ∧ (g'.threads t).req.fails = false ∧ ∃ k, (g'.threads t).req.key = some k)
    (c6 : ∀ k, execRegion (g'.threads t).pc = true → (g'.threads t).req.key = some k →
      ∀ r exp, g.store k = some (r, exp) → exp ≤ g.now)
    (c7 : ∀ r, (g'.threads t).out = .replay r →
      (g.threads r).req.key = (g.threads t).req.key ∧ (g.threads t).req.key ≠ none ∧ (g.threads r).stored = true) :
    EInv life g' := by
  have hRq : ∀ t', (g'.threads t').req = (g.threads t').req := by
    intro t'; by_cases h : t' = t
    · subst h; exact hreq
    · rw [hoth t' h]
  have hSt : ∀ t', (g'.threads t').stored = (g.threads t').stored := by
    intro t'; by_cases h : t' = t
    · subst h; exact hsto
    · rw [hoth t' h]
  have hDn : ∀ t', (g'.threads t').doneAt = (g.threads t').doneAt := by
    intro t'; by_cases h : t' = t
    · subst h; exact hdone
    · rw [hoth t' h]
  have hSa : ∀ t', (g'.threads t').setAt = (g.threads t').setAt := by
    intro t'; by_cases h : t' = t
    · subst h; exact hset
    · rw [hoth t' h]
  refine ⟨?_, ?_, ?_, ?_, ?_, ?_, ?_, ?_, ?_, ?_⟩
  · intro t' h; by_cases ht : t' = t
    · subst ht; exact c1 h
    · rw [hoth t' ht] at h ⊢; exact hi.early t' h
  · intro t' h; by_cases ht : t' = t
    · subst ht; exact c2 h
    · rw [hoth t' ht] at h ⊢; exact hi.noRun t' h
  · intro t' h; rw [hnow]; by_cases ht : t' = t
    · subst ht; exact c3 h
    · rw [hoth t' ht] at h ⊢; exact hi.atSet t' h
  · intro t' k h1 h2 h3; rw [hnow]; by_cases ht : t' = t
    · subst ht; exact c4 k h1 h2 h3
    · rw [hoth t' ht] at h1 h2 h3 ⊢; exact hi.succ t' k h1 h2 h3
  · intro t' h; by_cases ht : t' = t
    · subst ht; exact c5 h
    · rw [hoth t' ht] at h ⊢; exact hi.stored t' h
  · intro t' h; rw [hSt] at h; rw [hDn, hSa, hnow]; exact hi.setAt t' h
  · intro k r exp h; rw [hst] at h; rw [hRq, hSt, hSa]; exact hi.record k r exp h
  · intro t' k h1 h2; rw [hSt] at h1; rw [hRq] at h2; rw [hst, hSa]; exact hi.kept t' k h1 h2
  · intro t' k h1 h2 r exp h3; rw [hst] at h3; rw [hnow]; by_cases ht : t' = t
    · subst ht; exact c6 k h1 h2 r exp h3
    · rw [hoth t' ht] at h1 h2; exact hi.exec t' k h1 h2 r exp h3
  · intro t' r h; rw [hRq, hRq, hSt]; by_cases ht : t' = t
    · subst ht; exact c7 r h
    · rw [hoth t' ht] at h; exact hi.replay t' r h

/-- steps after the answer is determined that only move the program counter (and the lock pointer) -/
theorem einv_late {life : Nat} {g g' : G} {t : Tid} (hi : EInv life g)
    (hst : g'.store = g.store) (hnow : g'.now = g.now)
    (hoth : ∀ t', t' ≠ t → g'.threads t' = g.threads t')
    (hreq : (g'.threads t).req = (g.threads t).req) (hsto : (g'.threads t).stored = (g.threads t).stored)
    (hdone : (g'.threads t).doneAt = (g.threads t).doneAt) (hset : (g'.threads t).setAt = (g.threads t).setAt)
    (hran : (g'.threads t).ran = (g.threads t).ran)
    (hout : (g'.threads t).out = (g.threads t).out)
    (hpc0 : (g.threads t).pc ≠ .atSet)
    (hpc1 : early (g'.threads t).pc = false ∧ (g'.threads t).pc ≠ .atSet ∧ execRegion (g'.threads t).pc = false) :
    EInv life g' := by
  refine einv_local (t := t) hi hst hnow hoth hreq hsto hdone hset ?_ ?_ ?_ ?_ ?_ ?_ ?_
  · intro h; rw [hpc1.1] at h; cases h
  · intro h; rw [hout] at h; rw [hran]; exact hi.noRun t h
  · intro h; exact absurd h hpc1.2.1
  · intro k h1 h2 h3
    rw [hran] at h1; rw [hreq] at h2 h3
    obtain ⟨a, b⟩ := hi.succ t k h1 h2 h3
    rw [hdone, hsto, hout]
    refine ⟨a, ?_⟩
    rcases b with b | b | b
    · exact absurd b hpc0
    · exact .inr (.inl b)
    · exact .inr (.inr b)
  · intro h; rw [hsto] at h; rw [hran, hreq]; exact hi.stored t h
  · intro k h; rw [hpc1.2.2] at h; cases h
  · intro r h; rw [hout] at h; exact hi.replay t r h

theorem einv_tick {life : Nat} {g : G} (d : Nat) (hi : EInv life g) : EInv life { g with now := g.now + d } := by
  refine ⟨hi.early, hi.noRun, ?_, ?_, hi.stored, ?_, hi.record, hi.kept, ?_, hi.replay⟩
  · intro t h
    obtain ⟨a, b, c, e, f⟩ := hi.atSet t h
    exact ⟨a, b, c, e, Nat.le_trans f (Nat.le_add_right _ _)⟩
  · intro t k h1 h2 h3
    obtain ⟨a, b⟩ := hi.succ t k h1 h2 h3
    exact ⟨Nat.le_trans a (Nat.le_add_right _ _), b⟩
  · intro t h
    obtain ⟨a, b⟩ := hi.setAt t h
    exact ⟨a, Nat.le_trans b (Nat.le_add_right _ _)⟩
  · intro t k h1 h2 r exp h3
    exact Nat.le_trans (hi.exec t k h1 h2 r exp h3) (Nat.le_add_right _ _)

/-- two threads holding the lock of the same key are the same thread -/
theorem holders_eq {g : G} (hl : LInv g) {t t' : Tid} {k : Key} (h1 : holds (g.threads t).pc = true)
    (h2 : holds (g.threads t').pc = true) (k1 : (g.threads t).req.key = some k) (k2 : (g.threads t').req.key = some k) :
    t = t' := by
  obtain ⟨ka, hka, pa⟩ := hl.ptr t (inLock_of_holds h1)
  obtain ⟨kb, hkb, pb⟩ := hl.ptr t' (inLock_of_holds h2)
  rw [k1] at hka; cases hka
  rw [k2] at hkb; cases hkb
  rw [pa] at pb
  have hlk := Option.some.inj pb
  have ha := (hl.holder _ t).2 ⟨h1, rfl⟩
  have hb := (hl.holder _ t').2 ⟨h2, hlk.symm⟩
  rw [ha] at hb
  exact Option.some.inj hb

theorem einv_step (life : Nat) {g g' : G} {t : Tid} (hl : LInv g) (hi : EInv life g) (hs : Step life g t g') :
    EInv life g' := by
  cases hs with
  | arriveInvalid hpc hk hiv =>
    have he := hi.early t (by simp [hpc, early])
    refine einv_local (t := t) hi rfl rfl (fun t' h => by simp [h]) (by simp) (by simp) (by simp) (by simp)
      (by simp [early]) (by simp [he.1]) (by simp) ?_ (by simp [he.2.2.1]) (by simp [execRegion]) (by simp)
    intro k h1; simp [he.1] at h1
  | arriveBypass hpc hk hiv =>
    have he := hi.early t (by simp [hpc, early])
    refine einv_local (t := t) hi rfl rfl (fun t' h => by simp [h]) (by simp) (by simp) (by simp) (by simp)
      (by simp [he, hk]) (by simp [he.1]) (by simp) ?_ (by simp [he.2.2.1]) (by simp [execRegion]) (by simp [he.2.1])
    intro k h1; simp [he.1] at h1
  | arrive hpc k hk =>
    have he := hi.early t (by simp [hpc, early])
    refine einv_local (t := t) hi rfl rfl (fun t' h => by simp [h]) (by simp) (by simp) (by simp) (by simp)
      (by simp [he]) (by simp [he.1]) (by simp) ?_ (by simp [he.2.2.1]) (by simp [execRegion]) (by simp [he.2.1])
    intro k h1; simp [he.1] at h1
  | get1Hit hpc k hk r hlk =>
    have he := hi.early t (by simp [hpc, early])
    obtain ⟨exp, hst⟩ := lookup_some hlk
    obtain ⟨r1, r2, _⟩ := hi.record k r exp hst
    refine einv_local (t := t) hi rfl rfl (fun t' h => by simp [h]) (by simp) (by simp) (by simp) (by simp)
      (by simp [early]) (by simp [he.1]) (by simp) ?_ (by simp [he.2.2.1]) (by simp [execRegion]) ?_
    · intro k h1; simp [he.1] at h1
    · intro r' hr; simp at hr; subst hr; exact ⟨by rw [r1, hk], by simp [hk], r2⟩
  | get1Miss hpc k hk hlk =>
    have he := hi.early t (by simp [hpc, early])
    refine einv_local (t := t) hi rfl rfl (fun t' h => by simp [h]) (by simp) (by simp) (by simp) (by simp)
      (by simp [he]) (by simp [he.1]) (by simp) ?_ (by simp [he.2.2.1]) (by simp [execRegion]) (by simp [he.2.1])
    intro k h1; simp [he.1] at h1
  | lockCall hpc =>
    have he := hi.early t (by simp [hpc, early])
    refine einv_local (t := t) hi rfl rfl (fun t' h => by simp [h]) (by simp) (by simp) (by simp) (by simp)
      (by simp [he]) (by simp [he.1]) (by simp) ?_ (by simp [he.2.2.1]) (by simp [execRegion]) (by simp [he.2.1])
    intro k h1; simp [he.1] at h1
  | incOld hpc k hk i hki =>
    have he := hi.early t (by simp [hpc, early])
    refine einv_local (t := t) hi rfl rfl (fun t' h => by simp [h]) (by simp) (by simp) (by simp) (by simp)
      (by simp [he]) (by simp [he.1]) (by simp) ?_ (by simp [he.2.2.1]) (by simp [execRegion]) (by simp [he.2.1])
    intro k h1; simp [he.1] at h1
  | incNew hpc k hk hki =>
    have he := hi.early t (by simp [hpc, early])
    refine einv_local (t := t) hi rfl rfl (fun t' h => by simp [h]) (by simp) (by simp) (by simp) (by simp)
      (by simp [he]) (by simp [he.1]) (by simp) ?_ (by simp [he.2.2.1]) (by simp [execRegion]) (by simp [he.2.1])
    intro k h1; simp [he.1] at h1
  | acquire hpc hh =>
    have he := hi.early t (by simp [hpc, early])
    refine einv_local (t := t) hi rfl rfl (fun t' h => by simp [h]) (by simp) (by simp) (by simp) (by simp)
      (by simp [he]) (by simp [he.1]) (by simp) ?_ (by simp [he.2.2.1]) (by simp [execRegion]) (by simp [he.2.1])
    intro k h1; simp [he.1] at h1
  | get2Hit hpc k hk r hlk =>
    have he := hi.early t (by simp [hpc, early])
    obtain ⟨exp, hst⟩ := lookup_some hlk
    obtain ⟨r1, r2, _⟩ := hi.record k r exp hst
    refine einv_local (t := t) hi rfl rfl (fun t' h => by simp [h]) (by simp) (by simp) (by simp) (by simp)
      (by simp [early]) (by simp [he.1]) (by simp) ?_ (by simp [he.2.2.1]) (by simp [execRegion]) ?_
    · intro k h1; simp [he.1] at h1
    · intro r' hr; simp at hr; subst hr; exact ⟨by rw [r1, hk], by simp [hk], r2⟩
  | get2Miss hpc k hk hlk =>
    have he := hi.early t (by simp [hpc, early])
    refine einv_local (t := t) hi rfl rfl (fun t' h => by simp [h]) (by simp) (by simp) (by simp) (by simp)
      (by simp [he]) (by simp [he.1]) (by simp) ?_ (by simp [he.2.2.1]) ?_ (by simp [he.2.1])
    · intro k h1; simp [he.1] at h1
    · intro k' _ hk' r exp hst
      simp only [setThread_threads_same] at hk'
      rw [hk] at hk'; cases hk'
      exact lookup_none hlk r exp hst
  | handlerFail hpc hf =>
    have he := hi.early t (by simp [hpc, early])
    refine einv_local (t := t) hi rfl rfl (fun t' h => by simp [h]) (by simp) (by simp) (by simp) (by simp)
      (by simp [early]) (by simp [noRunOut]) (by simp) ?_ (by simp [he.2.2.1]) (by simp [execRegion]) (by simp)
    intro k _ h2; simp [hf] at h2
  | handlerOk hpc hf =>
    have he := hi.early t (by simp [hpc, early])
    have hex := hi.exec t
    refine ⟨?_, ?_, ?_, ?_, ?_, ?_, ?_, ?_, ?_, ?_⟩
    · intro t' h; by_cases ht : t' = t
      · subst ht; simp [early] at h
      · simp only [setThread_threads_ne _ _ ht] at h ⊢; exact hi.early t' h
    · intro t' h; by_cases ht : t' = t
      · subst ht; simp [he.2.1, noRunOut] at h
      · simp only [setThread_threads_ne _ _ ht] at h ⊢; exact hi.noRun t' h
    · intro t' h; by_cases ht : t' = t
      · subst ht; simp [hf, he]
      · simp only [setThread_threads_ne _ _ ht, setThread_now] at h ⊢; exact hi.atSet t' h
    · intro t' k h1 h2 h3; by_cases ht : t' = t
      · subst ht; simp
      · simp only [setThread_threads_ne _ _ ht, setThread_now] at h1 h2 h3 ⊢; exact hi.succ t' k h1 h2 h3
    · intro t' h; by_cases ht : t' = t
      · subst ht; simp [he.2.2.1] at h
      · simp only [setThread_threads_ne _ _ ht] at h ⊢; exact hi.stored t' h
    · intro t' h; by_cases ht : t' = t
      · subst ht; simp [he.2.2.1] at h
      · simp only [setThread_threads_ne _ _ ht, setThread_now] at h ⊢; exact hi.setAt t' h
    · intro k r exp h
      simp only [setThread_store] at h
      obtain ⟨a, b, c⟩ := hi.record k r exp h
      by_cases hr : r = t
      · subst hr; rw [he.2.2.1] at b; cases b
      · simp only [setThread_threads_ne _ _ hr]; exact ⟨a, b, c⟩
    · intro t' k h1 h2; by_cases ht : t' = t
      · subst ht; simp [he.2.2.1] at h1
      · simp only [setThread_threads_ne _ _ ht, setThread_store] at h1 h2 ⊢; exact hi.kept t' k h1 h2
    · intro t' k h1 h2 r exp h3; by_cases ht : t' = t
      · subst ht
        simp only [setThread_threads_same, setThread_store, setThread_now] at h2 h3 ⊢
        exact hex k (by simp [hpc, execRegion]) h2 r exp h3
      · simp only [setThread_threads_ne _ _ ht, setThread_store, setThread_now] at h1 h2 h3 ⊢
        exact hi.exec t' k h1 h2 r exp h3
    · intro t' r h
      have hrs : ∀ r, (g.threads r).stored = true → ((g.setThread t { g.threads t with pc := .atSet, ran := true, doneAt := g.now, ans := some (g.threads t).req.resp }).threads r).stored = true := by
        intro r hr; by_cases hrt : r = t
        · subst hrt; rw [he.2.2.1] at hr; cases hr
        · simp [setThread_threads_ne _ _ hrt, hr]
      have hrk : ∀ r, ((g.setThread t { g.threads t with pc := .atSet, ran := true, doneAt := g.now, ans := some (g.threads t).req.resp }).threads r).req = (g.threads r).req := by
        intro r; by_cases hrt : r = t
        · subst hrt; simp
        · simp [setThread_threads_ne _ _ hrt]
      by_cases ht : t' = t
      · subst ht; simp [he.2.1] at h
      · simp only [setThread_threads_ne _ _ ht] at h
        obtain ⟨a, b, c⟩ := hi.replay t' r h
        rw [hrk r, hrk t']
        exact ⟨a, b, hrs r c⟩
  | set hpc k hk =>
    obtain ⟨s1, s2, s3, s4, s5⟩ := hi.atSet t hpc
    refine ⟨?_, ?_, ?_, ?_, ?_, ?_, ?_, ?_, ?_, ?_⟩
    · intro t' h; by_cases ht : t' = t
      · subst ht; simp [early] at h
      · simp only [setThread_threads_ne _ _ ht] at h ⊢; exact hi.early t' h
    · intro t' h; by_cases ht : t' = t
      · subst ht; simp [noRunOut] at h
      · simp only [setThread_threads_ne _ _ ht] at h ⊢; exact hi.noRun t' h
    · intro t' h; by_cases ht : t' = t
      · subst ht; simp at h
      · simp only [setThread_threads_ne _ _ ht, setThread_now] at h ⊢; exact hi.atSet t' h
    · intro t' k' h1 h2 h3; by_cases ht : t' = t
      · subst ht; simp [s5]
      · simp only [setThread_threads_ne _ _ ht, setThread_now] at h1 h2 h3 ⊢; exact hi.succ t' k' h1 h2 h3
    · intro t' h; by_cases ht : t' = t
      · subst ht; simp [s1, s2, hk]
      · simp only [setThread_threads_ne _ _ ht] at h ⊢; exact hi.stored t' h
    · intro t' h; by_cases ht : t' = t
      · subst ht; simp [s5]
      · simp only [setThread_threads_ne _ _ ht, setThread_now] at h ⊢; exact hi.setAt t' h
    · intro k' r exp h
      simp only [setThread_store] at h
      by_cases hkk : k' = k
      · subst hkk
        simp at h
        obtain ⟨rfl, rfl⟩ := h
        simp [hk]
      · simp [hkk] at h
        obtain ⟨a, b, c⟩ := hi.record k' r exp h
        by_cases hr : r = t
        · subst hr; rw [s4] at b; cases b
        · simp only [setThread_threads_ne _ _ hr]; exact ⟨a, b, c⟩
    · intro t' k' h1 h2
      simp only [setThread_store]
      by_cases ht : t' = t
      · subst ht
        simp only [setThread_threads_same] at h2 ⊢
        rw [hk] at h2; cases h2
        exact ⟨t', g.now + life, by simp, by simp⟩
      · simp only [setThread_threads_ne _ _ ht] at h1 h2 ⊢
        obtain ⟨r, exp, a, b⟩ := hi.kept t' k' h1 h2
        by_cases hkk : k' = k
        · subst hkk
          have := (hi.setAt t' h1).2
          exact ⟨t, g.now + life, by simp, by omega⟩
        · exact ⟨r, exp, by simp [hkk, a], b⟩
    · intro t' k' h1 h2 r exp h3
      by_cases ht : t' = t
      · subst ht; simp [execRegion] at h1
      · simp only [setThread_threads_ne _ _ ht, setThread_store, setThread_now] at h1 h2 h3 ⊢
        by_cases hkk : k' = k
        · subst hkk
          -- both would hold the lock of the same key
          have hh' : holds (g.threads t').pc = true := by
            revert h1; cases (g.threads t').pc <;> simp [execRegion, holds]
          exact absurd (holders_eq hl hh' (by simp [hpc, holds]) h2 hk) ht
        · simp [hkk] at h3; exact hi.exec t' k' h1 h2 r exp h3
    · intro t' r h
      have hrs : ∀ r, (g.threads r).stored = true →
          (({ g with store := fun k' => if k' = k then some (t, g.now + life) else g.store k', vals := fun k' => if k' = k then some (recorded g.keep (g.threads t).req.resp) else g.vals k' }.setThread t
            { g.threads t with pc := .atUnlock, out := .own, stored := true, setAt := g.now }).threads r).stored = true := by
        intro r hr; by_cases hrt : r = t
        · subst hrt; simp
        · simp [setThread_threads_ne _ _ hrt, hr]
      have hrk : ∀ r, (({ g with store := fun k' => if k' = k then some (t, g.now + life) else g.store k', vals := fun k' => if k' = k then some (recorded g.keep (g.threads t).req.resp) else g.vals k' }.setThread t
            { g.threads t with pc := .atUnlock, out := .own, stored := true, setAt := g.now }).threads r).req = (g.threads r).req := by
        intro r; by_cases hrt : r = t
        · subst hrt; simp
        · simp [setThread_threads_ne _ _ hrt]
      by_cases ht : t' = t
      · subst ht; simp at h
      · simp only [setThread_threads_ne _ _ ht] at h
        obtain ⟨a, b, c⟩ := hi.replay t' r h
        rw [hrk r, hrk t']
        exact ⟨a, b, hrs r c⟩
  | unlockCall hpc =>
    exact einv_late (t := t) hi rfl rfl (fun t' h => by simp [h]) (by simp) (by simp) (by simp) (by simp) (by simp) (by simp)
      (by simp [hpc]) (by simp [early, execRegion])
  | unlockFound hpc k hk i hki =>
    exact einv_late (t := t) hi rfl rfl (fun t' h => by simp [h]) (by simp) (by simp) (by simp) (by simp) (by simp) (by simp)
      (by simp [hpc]) (by simp [early, execRegion])
  | unlockUnknown hpc k hk hki =>
    exact einv_late (t := t) hi rfl rfl (fun t' h => by simp [h]) (by simp) (by simp) (by simp) (by simp) (by simp) (by simp)
      (by simp [hpc]) (by simp [early, execRegion])
  | release hpc =>
    exact einv_late (t := t) hi rfl rfl (fun t' h => by simp [h]) (by simp) (by simp) (by simp) (by simp) (by simp) (by simp)
      (by simp [hpc]) (by simp [early, execRegion])
  | decDelete hpc k hk hz =>
    exact einv_late (t := t) hi rfl rfl (fun t' h => by simp [h]) (by simp) (by simp) (by simp) (by simp) (by simp) (by simp)
      (by simp [hpc]) (by simp [early, execRegion])
  | decKeep hpc k hk hz =>
    exact einv_late (t := t) hi rfl rfl (fun t' h => by simp [h]) (by simp) (by simp) (by simp) (by simp) (by simp) (by simp)
      (by simp [hpc]) (by simp [early, execRegion])
  | handlerB hpc =>
    have he := hi.early t (by simp [hpc, early])
    refine einv_local (t := t) hi rfl rfl (fun t' h => by simp [h]) (by simp) (by simp) (by simp) (by simp)
      (by simp [early]) ?_ (by simp) ?_ (by simp [he.2.2.1]) (by simp [execRegion]) ?_
    · by_cases hf : (g.threads t).req.fails = true <;> simp [hf, noRunOut]
    · intro k _ _ h3
      simp only [setThread_threads_same] at h3
      rw [he.2.2.2 hpc] at h3; cases h3
    · intro r; by_cases hf : (g.threads t).req.fails = true <;> simp [hf]
  | faultGet1 hpc =>
    have he := hi.early t (by simp [hpc, early])
    refine einv_local (t := t) hi rfl rfl (fun t' h => by simp [h]) (by simp) (by simp) (by simp) (by simp)
      (by simp [early]) (by simp [he.1]) (by simp) ?_ (by simp [he.2.2.1]) (by simp [execRegion]) (by simp)
    intro k h1; simp [he.1] at h1
  | faultLock hpc =>
    have he := hi.early t (by simp [hpc, early])
    refine einv_local (t := t) hi rfl rfl (fun t' h => by simp [h]) (by simp) (by simp) (by simp) (by simp)
      (by simp [early]) (by simp [he.1]) (by simp) ?_ (by simp [he.2.2.1]) (by simp [execRegion]) (by simp)
    intro k h1; simp [he.1] at h1
  | faultGet2 hpc =>
    have he := hi.early t (by simp [hpc, early])
    refine einv_local (t := t) hi rfl rfl (fun t' h => by simp [h]) (by simp) (by simp) (by simp) (by simp)
      (by simp [early]) (by simp [he.1]) (by simp) ?_ (by simp [he.2.2.1]) (by simp [execRegion]) (by simp)
    intro k h1; simp [he.1] at h1
  | faultUnlock hpc =>
    exact einv_late (t := t) hi rfl rfl (fun t' h => by simp [h]) (by simp) (by simp) (by simp) (by simp) (by simp) (by simp)
      (by simp [hpc]) (by simp [early, execRegion])
  | faultSet hpc =>
    obtain ⟨s1, s2, s3, s4, s5⟩ := hi.atSet t hpc
    refine einv_local (t := t) hi rfl rfl (fun t' h => by simp [h]) (by simp) (by simp) (by simp) (by simp)
      (by simp [early]) (by simp [noRunOut]) (by simp) ?_ (by simp [s4]) (by simp [execRegion]) (by simp)
    intro k _ _ _; simp [s5]

end C17
