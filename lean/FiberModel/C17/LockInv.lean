import FiberModel.C17.Lemmas
/-
C17 — the MemoryLock invariant: the counted map entry of a key exists exactly while some thread is
between `locked++` and `locked--` on it, all those threads hold a pointer to that one entry, its
counter is their number, and its mutex is held by at most one of them.
-/
namespace C17
open Conc

/-- between `locked++` (MemoryLock.Lock) and `locked--` (MemoryLock.Unlock); a request whose `Unlock`
failed without releasing stays there for ever -/
def inLock : Pc → Bool
  | .lockAcq | .atGet2 | .atHandler | .atSet | .atUnlock | .unlockLookup | .unlockRelease | .unlockDec | .leaked => true
  | _ => false

/-- between `lock.mu.Lock()` returning and `lock.mu.Unlock()` -/
def holds : Pc → Bool
  | .atGet2 | .atHandler | .atSet | .atUnlock | .unlockLookup | .unlockRelease | .leaked => true
  | _ => false

theorem inLock_of_holds {pc : Pc} (h : holds pc = true) : inLock pc = true := by
  cases pc <;> simp_all [holds, inLock]

structure LInv (g : G) : Prop where
  /-- every thread counted on a lock object has a key, and the map entry of that key is that object -/
  ptr : ∀ t, inLock (g.threads t).pc = true → ∃ k, (g.threads t).req.key = some k ∧ g.keys k = some (g.threads t).lk
  users : ∀ i t, t ∈ (g.locks i).users ↔ (inLock (g.threads t).pc = true ∧ (g.threads t).lk = i)
  nodup : ∀ i, (g.locks i).users.Nodup
  count : ∀ i, (g.locks i).locked = (g.locks i).users.length
  holder : ∀ i t, (g.locks i).holder = some t ↔ (holds (g.threads t).pc = true ∧ (g.threads t).lk = i)
  freshK : ∀ k i, g.keys k = some i → i < g.nextId
  freshT : ∀ t, inLock (g.threads t).pc = true → (g.threads t).lk < g.nextId
  /-- different keys have different lock objects -/
  inj : ∀ k k' i, g.keys k = some i → g.keys k' = some i → k = k'

theorem linv_init (reqs : Tid → Req) (t0 : Nat) (keep : Option (List String)) : LInv (init reqs t0 keep) := by
  refine ⟨?_, ?_, ?_, ?_, ?_, ?_, ?_, ?_⟩ <;> intros <;> simp_all [init, inLock, holds]

/-- steps that leave the lock table alone and keep the thread in the same lock region -/
theorem linv_quiet {g g' : G} {t : Tid} (hi : LInv g)
    (hk : g'.keys = g.keys) (hl : g'.locks = g.locks) (hn : g'.nextId = g.nextId)
    (hoth : ∀ t', t' ≠ t → g'.threads t' = g.threads t')
    (hreq : (g'.threads t).req = (g.threads t).req) (hlk : (g'.threads t).lk = (g.threads t).lk)
    (hin : inLock (g'.threads t).pc = inLock (g.threads t).pc)
    (hho : holds (g'.threads t).pc = holds (g.threads t).pc) : LInv g' := by
  have hIn : ∀ t', inLock (g'.threads t').pc = inLock (g.threads t').pc := by
    intro t'; by_cases h : t' = t
    · subst h; exact hin
    · rw [hoth t' h]
  have hHo : ∀ t', holds (g'.threads t').pc = holds (g.threads t').pc := by
    intro t'; by_cases h : t' = t
    · subst h; exact hho
    · rw [hoth t' h]
  have hLk : ∀ t', (g'.threads t').lk = (g.threads t').lk := by
    intro t'; by_cases h : t' = t
    · subst h; exact hlk
    · rw [hoth t' h]
  have hRq : ∀ t', (g'.threads t').req = (g.threads t').req := by
    intro t'; by_cases h : t' = t
    · subst h; exact hreq
    · rw [hoth t' h]
  refine ⟨?_, ?_, ?_, ?_, ?_, ?_, ?_, by rw [hk]; exact hi.inj⟩
  · intro t' h; rw [hIn] at h; rw [hRq, hLk, hk]; exact hi.ptr t' h
  · intro i t'; rw [hl, hIn, hLk]; exact hi.users i t'
  · intro i; rw [hl]; exact hi.nodup i
  · intro i; rw [hl]; exact hi.count i
  · intro i t'; rw [hl, hHo, hLk]; exact hi.holder i t'
  · intro k i h; rw [hk] at h; rw [hn]; exact hi.freshK k i h
  · intro t' h; rw [hIn] at h; rw [hLk, hn]; exact hi.freshT t' h

/-- the last block of MemoryLock.Unlock: `locked--`, and the map entry is dropped iff nobody else is
counted on it -/
theorem linv_dec {g : G} {t : Tid} {k : Key} {keys' : Key → Option Nat} (hi : LInv g)
    (hpc : (g.threads t).pc = .unlockDec) (hk : (g.threads t).req.key = some k)
    (hkeys : (keys' = g.keys ∧ ¬ (g.locks (g.threads t).lk).locked - 1 ≤ 0) ∨
             (keys' = (fun k' => if k' = k then none else g.keys k') ∧ (g.locks (g.threads t).lk).locked - 1 ≤ 0)) :
    LInv ({ g.setLock (g.threads t).lk { g.locks (g.threads t).lk with
              locked := (g.locks (g.threads t).lk).locked - 1, users := (g.locks (g.threads t).lk).users.erase t } with
            keys := keys' }.setThread t { g.threads t with pc := .done }) := by
  have hin : inLock (g.threads t).pc = true := by simp [hpc, inLock]
  have hmem : t ∈ (g.locks (g.threads t).lk).users := (hi.users _ t).2 ⟨hin, rfl⟩
  have hnd := hi.nodup (g.threads t).lk
  have hcnt := hi.count (g.threads t).lk
  obtain ⟨k0, hk0, hp0⟩ := hi.ptr t hin
  rw [hk] at hk0; cases hk0
  refine ⟨?_, ?_, ?_, ?_, ?_, ?_, ?_, ?_⟩
  rotate_right
  · intro k1 k2 i' h1 h2
    simp only [setThread_keys] at h1 h2
    rcases hkeys with ⟨rfl, _⟩ | ⟨rfl, _⟩
    · exact hi.inj k1 k2 i' h1 h2
    · by_cases e1 : k1 = k
      · simp [e1] at h1
      · by_cases e2 : k2 = k
        · simp [e2] at h2
        · simp [e1] at h1; simp [e2] at h2; exact hi.inj k1 k2 i' h1 h2
  · intro t' h
    by_cases ht : t' = t
    · subst ht; simp [inLock] at h
    · simp only [setThread_threads_ne _ _ ht, setLock_threads, setThread_keys] at h ⊢
      obtain ⟨k', hk', hp⟩ := hi.ptr t' h
      refine ⟨k', hk', ?_⟩
      rcases hkeys with ⟨rfl, _⟩ | ⟨rfl, hz⟩
      · exact hp
      · by_cases hkk : k' = k
        · subst hkk
          rw [hp0] at hp
          have hlk := Option.some.inj hp
          -- then t' is counted on the same object, which has at most one user: t
          have hm' : t' ∈ (g.locks (g.threads t).lk).users := (hi.users _ t').2 ⟨h, hlk.symm⟩
          have hlen : (g.locks (g.threads t).lk).users.length ≤ 1 := by omega
          match hu : (g.locks (g.threads t).lk).users, hmem, hm', hlen with
          | [x], h1, h2, _ =>
            simp at h1 h2; exact absurd (h2.trans h1.symm) ht
        · simp [hkk, hp]
  · intro i' t'
    simp only [setThread_locks]
    by_cases hii : i' = (g.threads t).lk
    · subst hii
      simp only [G.setLock, if_true]
      rw [hnd.mem_erase_iff]
      by_cases ht : t' = t
      · subst ht; simp [inLock]
      · simp only [setThread_threads_ne _ _ ht, ne_eq, ht, not_false_eq_true, true_and]
        exact hi.users _ t'
    · simp only [G.setLock, hii, if_false]
      by_cases ht : t' = t
      · subst ht
        simp only [setThread_threads_same, inLock]
        constructor
        · intro hx; have := ((hi.users i' t').1 hx).2; exact absurd this.symm hii
        · intro ⟨h1, _⟩; exact absurd h1 (by simp)
      · simp only [setThread_threads_ne _ _ ht]; exact hi.users i' t'
  · intro i'
    simp only [setThread_locks]
    by_cases hii : i' = (g.threads t).lk
    · subst hii; simp only [G.setLock, if_true]; exact hnd.erase t
    · simp only [G.setLock, hii, if_false]; exact hi.nodup i'
  · intro i'
    simp only [setThread_locks]
    by_cases hii : i' = (g.threads t).lk
    · subst hii
      simp only [G.setLock, if_true]
      have h1 := List.length_erase_of_mem hmem
      have h2 := List.length_pos_of_mem hmem
      omega
    · simp only [G.setLock, hii, if_false]; exact hi.count i'
  · intro i' t'
    simp only [setThread_locks]
    have hl : (({ g.setLock (g.threads t).lk { g.locks (g.threads t).lk with
              locked := (g.locks (g.threads t).lk).locked - 1, users := (g.locks (g.threads t).lk).users.erase t } with
            keys := keys' } : G).locks i').holder = (g.locks i').holder := by
      by_cases hii : i' = (g.threads t).lk
      · subst hii; simp [G.setLock]
      · simp [G.setLock, hii]
    rw [hl]
    by_cases ht : t' = t
    · subst ht
      simp only [setThread_threads_same, holds]
      constructor
      · intro hh; have := ((hi.holder i' t').1 hh).1; simp [hpc, holds] at this
      · intro ⟨h1, _⟩; exact absurd h1 (by simp)
    · simp only [setThread_threads_ne _ _ ht]; exact hi.holder i' t'
  · intro k' i' h
    simp only [setThread_keys, setThread_nextId] at h ⊢
    rcases hkeys with ⟨rfl, _⟩ | ⟨rfl, _⟩
    · exact hi.freshK k' i' h
    · by_cases hkk : k' = k
      · simp [hkk] at h
      · simp [hkk] at h; exact hi.freshK k' i' h
  · intro t' h
    by_cases ht : t' = t
    · subst ht; simp [inLock] at h
    · simp only [setThread_threads_ne _ _ ht, setThread_nextId] at h ⊢
      exact hi.freshT t' h

theorem linv_step (life : Nat) {g g' : G} {t : Tid} (hi : LInv g) (hs : Step life g t g') : LInv g' := by
  cases hs with
  | arriveInvalid hpc hk hiv =>
    exact linv_quiet (t := t) hi rfl rfl rfl (fun t' h => by simp [h]) (by simp) (by simp) (by simp [hpc, inLock]) (by simp [hpc, holds])
  | arriveBypass hpc hk hiv =>
    exact linv_quiet (t := t) hi rfl rfl rfl (fun t' h => by simp [h]) (by simp) (by simp) (by simp [hpc, inLock]) (by simp [hpc, holds])
  | arrive hpc k hk =>
    exact linv_quiet (t := t) hi rfl rfl rfl (fun t' h => by simp [h]) (by simp) (by simp) (by simp [hpc, inLock]) (by simp [hpc, holds])
  | get1Hit hpc k hk r hl =>
    exact linv_quiet (t := t) hi rfl rfl rfl (fun t' h => by simp [h]) (by simp) (by simp) (by simp [hpc, inLock]) (by simp [hpc, holds])
  | get1Miss hpc k hk hl =>
    exact linv_quiet (t := t) hi rfl rfl rfl (fun t' h => by simp [h]) (by simp) (by simp) (by simp [hpc, inLock]) (by simp [hpc, holds])
  | lockCall hpc =>
    exact linv_quiet (t := t) hi rfl rfl rfl (fun t' h => by simp [h]) (by simp) (by simp) (by simp [hpc, inLock]) (by simp [hpc, holds])
  | get2Hit hpc k hk r hl =>
    exact linv_quiet (t := t) hi rfl rfl rfl (fun t' h => by simp [h]) (by simp) (by simp) (by simp [hpc, inLock]) (by simp [hpc, holds])
  | get2Miss hpc k hk hl =>
    exact linv_quiet (t := t) hi rfl rfl rfl (fun t' h => by simp [h]) (by simp) (by simp) (by simp [hpc, inLock]) (by simp [hpc, holds])
  | handlerFail hpc hf =>
    exact linv_quiet (t := t) hi rfl rfl rfl (fun t' h => by simp [h]) (by simp) (by simp) (by simp [hpc, inLock]) (by simp [hpc, holds])
  | handlerOk hpc hf =>
    exact linv_quiet (t := t) hi rfl rfl rfl (fun t' h => by simp [h]) (by simp) (by simp) (by simp [hpc, inLock]) (by simp [hpc, holds])
  | set hpc k hk =>
    exact linv_quiet (t := t) hi rfl rfl rfl (fun t' h => by simp [h]) (by simp) (by simp) (by simp [hpc, inLock]) (by simp [hpc, holds])
  | unlockCall hpc =>
    exact linv_quiet (t := t) hi rfl rfl rfl (fun t' h => by simp [h]) (by simp) (by simp) (by simp [hpc, inLock]) (by simp [hpc, holds])
  | handlerB hpc =>
    exact linv_quiet (t := t) hi rfl rfl rfl (fun t' h => by simp [h]) (by simp) (by simp) (by simp [hpc, inLock]) (by simp [hpc, holds])
  | faultGet1 hpc =>
    exact linv_quiet (t := t) hi rfl rfl rfl (fun t' h => by simp [h]) (by simp) (by simp) (by simp [hpc, inLock]) (by simp [hpc, holds])
  | faultLock hpc =>
    exact linv_quiet (t := t) hi rfl rfl rfl (fun t' h => by simp [h]) (by simp) (by simp) (by simp [hpc, inLock]) (by simp [hpc, holds])
  | faultGet2 hpc =>
    exact linv_quiet (t := t) hi rfl rfl rfl (fun t' h => by simp [h]) (by simp) (by simp) (by simp [hpc, inLock]) (by simp [hpc, holds])
  | faultSet hpc =>
    exact linv_quiet (t := t) hi rfl rfl rfl (fun t' h => by simp [h]) (by simp) (by simp) (by simp [hpc, inLock]) (by simp [hpc, holds])
  | faultUnlock hpc =>
    exact linv_quiet (t := t) hi rfl rfl rfl (fun t' h => by simp [h]) (by simp) (by simp) (by simp [hpc, inLock]) (by simp [hpc, holds])
  | unlockFound hpc k hk i hki =>
    -- the entry found is the one the thread already points to
    obtain ⟨k', hk', hp⟩ := hi.ptr t (by simp [hpc, inLock])
    rw [hk] at hk'; cases hk'
    rw [hki] at hp; cases hp
    exact linv_quiet (t := t) hi rfl rfl rfl (fun t' h => by simp [h]) (by simp) (by simp) (by simp [hpc, inLock]) (by simp [hpc, holds])
  | unlockUnknown hpc k hk hki =>
    obtain ⟨k', hk', hp⟩ := hi.ptr t (by simp [hpc, inLock])
    rw [hk] at hk'; cases hk'
    rw [hki] at hp; cases hp
  | incOld hpc k hk i hki =>
    have hnotin : inLock (g.threads t).pc = false := by simp [hpc, inLock]
    have hnh : holds (g.threads t).pc = false := by simp [hpc, holds]
    refine ⟨?_, ?_, ?_, ?_, ?_, ?_, ?_, hi.inj⟩
    · intro t' h
      by_cases ht : t' = t
      · subst ht; simp only [setThread_threads_same, setThread_keys, setLock_keys]; exact ⟨k, hk, hki⟩
      · simp only [setThread_threads_ne _ _ ht, setLock_threads, setThread_keys, setLock_keys] at h ⊢
        exact hi.ptr t' h
    · intro i' t'
      simp only [setThread_locks]
      by_cases hii : i' = i
      · subst hii
        simp only [setLock_locks_same, List.mem_cons]
        by_cases ht : t' = t
        · subst ht; simp [inLock]
        · simp only [ht, false_or, setThread_threads_ne _ _ ht, setLock_threads]; exact hi.users i' t'
      · simp only [setLock_locks_ne _ _ hii]
        by_cases ht : t' = t
        · subst ht
          simp only [setThread_threads_same]
          constructor
          · intro hin; have := (hi.users i' t').1 hin; rw [hnotin] at this; exact absurd this.1 (by simp)
          · intro ⟨_, h2⟩; exact absurd h2.symm hii
        · simp only [setThread_threads_ne _ _ ht, setLock_threads]; exact hi.users i' t'
    · intro i'
      simp only [setThread_locks]
      by_cases hii : i' = i
      · subst hii
        simp only [setLock_locks_same]
        refine List.nodup_cons.2 ⟨fun hin => ?_, hi.nodup i'⟩
        have := (hi.users i' t).1 hin; rw [hnotin] at this; exact absurd this.1 (by simp)
      · simp only [setLock_locks_ne _ _ hii]; exact hi.nodup i'
    · intro i'
      simp only [setThread_locks]
      by_cases hii : i' = i
      · subst hii; simp only [setLock_locks_same, List.length_cons]; have := hi.count i'; omega
      · simp only [setLock_locks_ne _ _ hii]; exact hi.count i'
    · intro i' t'
      simp only [setThread_locks]
      have hl : ((g.setLock i { g.locks i with locked := (g.locks i).locked + 1, users := t :: (g.locks i).users }).locks i').holder
          = (g.locks i').holder := by
        by_cases hii : i' = i
        · subst hii; simp
        · simp [setLock_locks_ne _ _ hii]
      rw [hl]
      by_cases ht : t' = t
      · subst ht
        simp only [setThread_threads_same, holds]
        constructor
        · intro hh; have := (hi.holder i' t').1 hh; rw [hnh] at this; exact absurd this.1 (by simp)
        · intro ⟨h1, _⟩; exact absurd h1 (by simp)
      · simp only [setThread_threads_ne _ _ ht, setLock_threads]; exact hi.holder i' t'
    · intro k' i' h; exact hi.freshK k' i' h
    · intro t' h
      by_cases ht : t' = t
      · subst ht; simp only [setThread_threads_same, setThread_nextId, setLock_nextId]; exact hi.freshK k i hki
      · simp only [setThread_threads_ne _ _ ht, setLock_threads, setThread_nextId, setLock_nextId] at h ⊢
        exact hi.freshT t' h
  | incNew hpc k hk hki =>
    have hnotin : inLock (g.threads t).pc = false := by simp [hpc, inLock]
    have hnh : holds (g.threads t).pc = false := by simp [hpc, holds]
    refine ⟨?_, ?_, ?_, ?_, ?_, ?_, ?_, ?_⟩
    rotate_right
    · intro k1 k2 i' h1 h2
      simp only [setThread_keys, setLock_keys] at h1 h2
      by_cases e1 : k1 = k <;> by_cases e2 : k2 = k
      · rw [e1, e2]
      · simp [e1, e2] at h1 h2; have := hi.freshK k2 i' h2; omega
      · simp [e1, e2] at h1 h2; have := hi.freshK k1 i' h1; omega
      · simp [e1, e2] at h1 h2; exact hi.inj k1 k2 i' h1 h2
    · intro t' h
      by_cases ht : t' = t
      · subst ht
        simp only [setThread_threads_same, setThread_keys, setLock_keys]
        exact ⟨k, hk, by simp⟩
      · simp only [setThread_threads_ne _ _ ht, setLock_threads, setThread_keys, setLock_keys] at h ⊢
        obtain ⟨k', hk', hp⟩ := hi.ptr t' h
        refine ⟨k', hk', ?_⟩
        by_cases hkk : k' = k
        · subst hkk; rw [hki] at hp; cases hp
        · simp [hkk, hp]
    · intro i' t'
      simp only [setThread_locks]
      by_cases hii : i' = g.nextId
      · subst hii
        simp only [setLock_locks_same, List.mem_cons, List.not_mem_nil, or_false]
        by_cases ht : t' = t
        · subst ht; simp [inLock]
        · simp only [ht, false_iff, setThread_threads_ne _ _ ht, setLock_threads]
          intro ⟨h1, h2⟩
          have := hi.freshT t' h1; omega
      · simp only [setLock_locks_ne _ _ hii]
        by_cases ht : t' = t
        · subst ht
          simp only [setThread_threads_same]
          constructor
          · intro hin; have := (hi.users i' t').1 hin; rw [hnotin] at this; exact absurd this.1 (by simp)
          · intro ⟨_, h2⟩; exact absurd h2.symm hii
        · simp only [setThread_threads_ne _ _ ht, setLock_threads]; exact hi.users i' t'
    · intro i'
      simp only [setThread_locks]
      by_cases hii : i' = g.nextId
      · subst hii; simp
      · simp only [setLock_locks_ne _ _ hii]; exact hi.nodup i'
    · intro i'
      simp only [setThread_locks]
      by_cases hii : i' = g.nextId
      · subst hii; simp
      · simp only [setLock_locks_ne _ _ hii]; exact hi.count i'
    · intro i' t'
      simp only [setThread_locks]
      by_cases hii : i' = g.nextId
      · subst hii
        simp only [setLock_locks_same]
        constructor
        · intro h; cases h
        · intro ⟨h1, h2⟩
          by_cases ht : t' = t
          · subst ht; simp [holds] at h1
          · simp only [setThread_threads_ne _ _ ht, setLock_threads] at h1 h2
            have := hi.freshT t' (inLock_of_holds h1); omega
      · simp only [setLock_locks_ne _ _ hii]
        by_cases ht : t' = t
        · subst ht
          simp only [setThread_threads_same, holds]
          constructor
          · intro hh; have := (hi.holder i' t').1 hh; rw [hnh] at this; exact absurd this.1 (by simp)
          · intro ⟨h1, _⟩; exact absurd h1 (by simp)
        · simp only [setThread_threads_ne _ _ ht, setLock_threads]; exact hi.holder i' t'
    · intro k' i' h
      simp only [setThread_keys, setLock_keys, setThread_nextId, setLock_nextId] at h ⊢
      by_cases hkk : k' = k
      · simp [hkk] at h; omega
      · simp [hkk] at h; have := hi.freshK k' i' h; omega
    · intro t' h
      by_cases ht : t' = t
      · subst ht; simp
      · simp only [setThread_threads_ne _ _ ht, setLock_threads, setThread_nextId, setLock_nextId] at h ⊢
        have := hi.freshT t' h; omega
  | acquire hpc hh =>
    refine ⟨?_, ?_, ?_, ?_, ?_, ?_, ?_, hi.inj⟩
    · intro t' h
      by_cases ht : t' = t
      · subst ht
        simp only [setThread_threads_same, setThread_keys, setLock_keys]
        exact hi.ptr t' (by simp [hpc, inLock])
      · simp only [setThread_threads_ne _ _ ht, setLock_threads, setThread_keys, setLock_keys] at h ⊢
        exact hi.ptr t' h
    · intro i' t'
      have hl : ((g.setLock (g.threads t).lk { g.locks (g.threads t).lk with holder := some t }).locks i').users
          = (g.locks i').users := by
        by_cases hii : i' = (g.threads t).lk
        · subst hii; simp
        · simp [setLock_locks_ne _ _ hii]
      simp only [setThread_locks, hl]
      by_cases ht : t' = t
      · subst ht
        simp only [setThread_threads_same]
        rw [hi.users i' t']; simp [hpc, inLock]
      · simp only [setThread_threads_ne _ _ ht, setLock_threads]; exact hi.users i' t'
    · intro i'
      simp only [setThread_locks]
      by_cases hii : i' = (g.threads t).lk
      · subst hii; simp; exact hi.nodup _
      · simp only [setLock_locks_ne _ _ hii]; exact hi.nodup i'
    · intro i'
      simp only [setThread_locks]
      by_cases hii : i' = (g.threads t).lk
      · subst hii; simp; exact hi.count _
      · simp only [setLock_locks_ne _ _ hii]; exact hi.count i'
    · intro i' t'
      simp only [setThread_locks]
      by_cases hii : i' = (g.threads t).lk
      · subst hii
        simp only [setLock_locks_same, Option.some.injEq]
        by_cases ht : t' = t
        · subst ht; simp [holds]
        · simp only [setThread_threads_ne _ _ ht, setLock_threads]
          constructor
          · intro h; exact absurd h.symm ht
          · intro h2; have := (hi.holder _ t').2 h2; rw [hh] at this; cases this
      · simp only [setLock_locks_ne _ _ hii]
        by_cases ht : t' = t
        · subst ht
          simp only [setThread_threads_same]
          constructor
          · intro h; have := (hi.holder i' t').1 h; simp [hpc, holds] at this
          · intro ⟨_, h2⟩; exact absurd h2.symm hii
        · simp only [setThread_threads_ne _ _ ht, setLock_threads]; exact hi.holder i' t'
    · intro k' i' h; exact hi.freshK k' i' h
    · intro t' h
      by_cases ht : t' = t
      · subst ht; simp only [setThread_threads_same, setThread_nextId, setLock_nextId]
        exact hi.freshT t' (by simp [hpc, inLock])
      · simp only [setThread_threads_ne _ _ ht, setLock_threads, setThread_nextId, setLock_nextId] at h ⊢
        exact hi.freshT t' h
  | release hpc =>
    have hmine : (g.locks (g.threads t).lk).holder = some t := (hi.holder _ t).2 ⟨by simp [hpc, holds], rfl⟩
    refine ⟨?_, ?_, ?_, ?_, ?_, ?_, ?_, hi.inj⟩
    · intro t' h
      by_cases ht : t' = t
      · subst ht
        simp only [setThread_threads_same, setThread_keys, setLock_keys]
        exact hi.ptr t' (by simp [hpc, inLock])
      · simp only [setThread_threads_ne _ _ ht, setLock_threads, setThread_keys, setLock_keys] at h ⊢
        exact hi.ptr t' h
    · intro i' t'
      have hl : ((g.setLock (g.threads t).lk { g.locks (g.threads t).lk with holder := none }).locks i').users
          = (g.locks i').users := by
        by_cases hii : i' = (g.threads t).lk
        · subst hii; simp
        · simp [setLock_locks_ne _ _ hii]
      simp only [setThread_locks, hl]
      by_cases ht : t' = t
      · subst ht
        simp only [setThread_threads_same]
        rw [hi.users i' t']; simp [hpc, inLock]
      · simp only [setThread_threads_ne _ _ ht, setLock_threads]; exact hi.users i' t'
    · intro i'
      simp only [setThread_locks]
      by_cases hii : i' = (g.threads t).lk
      · subst hii; simp; exact hi.nodup _
      · simp only [setLock_locks_ne _ _ hii]; exact hi.nodup i'
    · intro i'
      simp only [setThread_locks]
      by_cases hii : i' = (g.threads t).lk
      · subst hii; simp; exact hi.count _
      · simp only [setLock_locks_ne _ _ hii]; exact hi.count i'
    · intro i' t'
      simp only [setThread_locks]
      by_cases hii : i' = (g.threads t).lk
      · subst hii
        simp only [setLock_locks_same]
        constructor
        · intro h; cases h
        · intro ⟨h1, h2⟩
          by_cases ht : t' = t
          · subst ht; simp [holds] at h1
          · simp only [setThread_threads_ne _ _ ht, setLock_threads] at h1 h2
            have := (hi.holder _ t').2 ⟨h1, h2⟩
            rw [hmine] at this; cases this; exact absurd rfl ht
      · simp only [setLock_locks_ne _ _ hii]
        by_cases ht : t' = t
        · subst ht
          simp only [setThread_threads_same]
          constructor
          · intro h; have := ((hi.holder i' t').1 h).2; exact absurd this.symm hii
          · intro ⟨h1, _⟩; simp [holds] at h1
        · simp only [setThread_threads_ne _ _ ht, setLock_threads]; exact hi.holder i' t'
    · intro k' i' h; exact hi.freshK k' i' h
    · intro t' h
      by_cases ht : t' = t
      · subst ht; simp only [setThread_threads_same, setThread_nextId, setLock_nextId]
        exact hi.freshT t' (by simp [hpc, inLock])
      · simp only [setThread_threads_ne _ _ ht, setLock_threads, setThread_nextId, setLock_nextId] at h ⊢
        exact hi.freshT t' h
  | decDelete hpc k hk hz =>
    exact linv_dec hi hpc hk (.inr ⟨rfl, hz⟩)
  | decKeep hpc k hk hz =>
    have := linv_dec (keys' := g.keys) hi hpc hk (.inl ⟨rfl, hz⟩)
    exact this

end C17
