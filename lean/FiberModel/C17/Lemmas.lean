import FiberModel.C17.Spec
/-
C17 — helper lemmas: state-update facts and the step relation (one constructor per branch of
`stepThr` / `stepFault`).
-/
namespace C17
open Conc

@[simp] theorem setThread_threads_same (g : G) (t : Tid) (th : Thread) : (g.setThread t th).threads t = th := by
  simp [G.setThread]
@[simp] theorem setThread_threads_ne (g : G) {t t' : Tid} (th : Thread) (h : t' ≠ t) :
    (g.setThread t th).threads t' = g.threads t' := by
  simp [G.setThread, h]
@[simp] theorem setThread_store (g : G) (t : Tid) (th : Thread) : (g.setThread t th).store = g.store := rfl
@[simp] theorem setThread_keys (g : G) (t : Tid) (th : Thread) : (g.setThread t th).keys = g.keys := rfl
@[simp] theorem setThread_locks (g : G) (t : Tid) (th : Thread) : (g.setThread t th).locks = g.locks := rfl
@[simp] theorem setThread_nextId (g : G) (t : Tid) (th : Thread) : (g.setThread t th).nextId = g.nextId := rfl
@[simp] theorem setThread_now (g : G) (t : Tid) (th : Thread) : (g.setThread t th).now = g.now := rfl
@[simp] theorem setThread_vals (g : G) (t : Tid) (th : Thread) : (g.setThread t th).vals = g.vals := rfl
@[simp] theorem setThread_keep (g : G) (t : Tid) (th : Thread) : (g.setThread t th).keep = g.keep := rfl
@[simp] theorem setLock_vals (g : G) (i : Nat) (l : CLock) : (g.setLock i l).vals = g.vals := rfl
@[simp] theorem setLock_keep (g : G) (i : Nat) (l : CLock) : (g.setLock i l).keep = g.keep := rfl
@[simp] theorem setLock_threads (g : G) (i : Nat) (l : CLock) : (g.setLock i l).threads = g.threads := rfl
@[simp] theorem setLock_store (g : G) (i : Nat) (l : CLock) : (g.setLock i l).store = g.store := rfl
@[simp] theorem setLock_keys (g : G) (i : Nat) (l : CLock) : (g.setLock i l).keys = g.keys := rfl
@[simp] theorem setLock_nextId (g : G) (i : Nat) (l : CLock) : (g.setLock i l).nextId = g.nextId := rfl
@[simp] theorem setLock_now (g : G) (i : Nat) (l : CLock) : (g.setLock i l).now = g.now := rfl
@[simp] theorem setLock_locks_same (g : G) (i : Nat) (l : CLock) : (g.setLock i l).locks i = l := by
  simp [G.setLock]
@[simp] theorem setLock_locks_ne (g : G) {i i' : Nat} (l : CLock) (h : i' ≠ i) :
    (g.setLock i l).locks i' = g.locks i' := by
  simp [G.setLock, h]

/-! ### the step relation -/

inductive Step (life : Nat) (g : G) (t : Tid) : G → Prop
  | arriveInvalid (hpc : (g.threads t).pc = .idle) (hk : (g.threads t).req.key = none)
      (hi : (g.threads t).req.invalid = true) :
      Step life g t (g.setThread t { g.threads t with pc := .done, out := .errKey })
  | arriveBypass (hpc : (g.threads t).pc = .idle) (hk : (g.threads t).req.key = none)
      (hi : (g.threads t).req.invalid = false) :
      Step life g t (g.setThread t { g.threads t with pc := .atHandlerB })
  | arrive (hpc : (g.threads t).pc = .idle) (k : Key) (hk : (g.threads t).req.key = some k) :
      Step life g t (g.setThread t { g.threads t with pc := .atGet1 })
  | get1Hit (hpc : (g.threads t).pc = .atGet1) (k : Key) (hk : (g.threads t).req.key = some k) (r : Tid)
      (hl : lookup g k = some r) :
      Step life g t (g.setThread t { g.threads t with pc := .done, out := .replay r, ans := g.vals k })
  | get1Miss (hpc : (g.threads t).pc = .atGet1) (k : Key) (hk : (g.threads t).req.key = some k)
      (hl : lookup g k = none) :
      Step life g t (g.setThread t { g.threads t with pc := .atLock })
  | lockCall (hpc : (g.threads t).pc = .atLock) :
      Step life g t (g.setThread t { g.threads t with pc := .lockInc })
  | incOld (hpc : (g.threads t).pc = .lockInc) (k : Key) (hk : (g.threads t).req.key = some k) (i : Nat)
      (hki : g.keys k = some i) :
      Step life g t ((g.setLock i { g.locks i with locked := (g.locks i).locked + 1, users := t :: (g.locks i).users }).setThread t
        { g.threads t with pc := .lockAcq, lk := i })
  | incNew (hpc : (g.threads t).pc = .lockInc) (k : Key) (hk : (g.threads t).req.key = some k)
      (hki : g.keys k = none) :
      Step life g t (({ g with keys := fun k' => if k' = k then some g.nextId else g.keys k', nextId := g.nextId + 1 }.setLock
        g.nextId ⟨1, none, [t]⟩).setThread t { g.threads t with pc := .lockAcq, lk := g.nextId })
  | acquire (hpc : (g.threads t).pc = .lockAcq) (hh : (g.locks (g.threads t).lk).holder = none) :
      Step life g t ((g.setLock (g.threads t).lk { g.locks (g.threads t).lk with holder := some t }).setThread t
        { g.threads t with pc := .atGet2 })
  | get2Hit (hpc : (g.threads t).pc = .atGet2) (k : Key) (hk : (g.threads t).req.key = some k) (r : Tid)
      (hl : lookup g k = some r) :
      Step life g t (g.setThread t { g.threads t with pc := .atUnlock, out := .replay r, ans := g.vals k })
  | get2Miss (hpc : (g.threads t).pc = .atGet2) (k : Key) (hk : (g.threads t).req.key = some k)
      (hl : lookup g k = none) :
      Step life g t (g.setThread t { g.threads t with pc := .atHandler })
  | handlerFail (hpc : (g.threads t).pc = .atHandler) (hf : (g.threads t).req.fails = true) :
      Step life g t (g.setThread t { g.threads t with pc := .atUnlock, out := .errHandler, ran := true })
  | handlerOk (hpc : (g.threads t).pc = .atHandler) (hf : (g.threads t).req.fails = false) :
      Step life g t (g.setThread t { g.threads t with pc := .atSet, ran := true, doneAt := g.now, ans := some (g.threads t).req.resp })
  | set (hpc : (g.threads t).pc = .atSet) (k : Key) (hk : (g.threads t).req.key = some k) :
      Step life g t ({ g with store := fun k' => if k' = k then some (t, g.now + life) else g.store k',
                               vals := fun k' => if k' = k then some (recorded g.keep (g.threads t).req.resp) else g.vals k' }.setThread t
        { g.threads t with pc := .atUnlock, out := .own, stored := true, setAt := g.now })
  | unlockCall (hpc : (g.threads t).pc = .atUnlock) :
      Step life g t (g.setThread t { g.threads t with pc := .unlockLookup })
  | unlockFound (hpc : (g.threads t).pc = .unlockLookup) (k : Key) (hk : (g.threads t).req.key = some k) (i : Nat)
      (hki : g.keys k = some i) :
      Step life g t (g.setThread t { g.threads t with pc := .unlockRelease, lk := i })
  | unlockUnknown (hpc : (g.threads t).pc = .unlockLookup) (k : Key) (hk : (g.threads t).req.key = some k)
      (hki : g.keys k = none) :
      Step life g t (g.setThread t { g.threads t with pc := .done })
  | release (hpc : (g.threads t).pc = .unlockRelease) :
      Step life g t ((g.setLock (g.threads t).lk { g.locks (g.threads t).lk with holder := none }).setThread t
        { g.threads t with pc := .unlockDec })
  | decDelete (hpc : (g.threads t).pc = .unlockDec) (k : Key) (hk : (g.threads t).req.key = some k)
      (hz : (g.locks (g.threads t).lk).locked - 1 ≤ 0) :
      Step life g t ({ g.setLock (g.threads t).lk { g.locks (g.threads t).lk with
            locked := (g.locks (g.threads t).lk).locked - 1, users := (g.locks (g.threads t).lk).users.erase t } with
          keys := fun k' => if k' = k then none else g.keys k' }.setThread t { g.threads t with pc := .done })
  | decKeep (hpc : (g.threads t).pc = .unlockDec) (k : Key) (hk : (g.threads t).req.key = some k)
      (hz : ¬ (g.locks (g.threads t).lk).locked - 1 ≤ 0) :
      Step life g t ((g.setLock (g.threads t).lk { g.locks (g.threads t).lk with
            locked := (g.locks (g.threads t).lk).locked - 1, users := (g.locks (g.threads t).lk).users.erase t }).setThread t
          { g.threads t with pc := .done })
  | handlerB (hpc : (g.threads t).pc = .atHandlerB) :
      Step life g t (g.setThread t { g.threads t with pc := .done, ran := true, out := if (g.threads t).req.fails then .errHandler else .own, ans := if (g.threads t).req.fails then none else some (g.threads t).req.resp })
  -- faults
  | faultGet1 (hpc : (g.threads t).pc = .atGet1) :
      Step life g t (g.setThread t { g.threads t with pc := .done, out := .errGet1 })
  | faultLock (hpc : (g.threads t).pc = .atLock) :
      Step life g t (g.setThread t { g.threads t with pc := .done, out := .errLock })
  | faultGet2 (hpc : (g.threads t).pc = .atGet2) :
      Step life g t (g.setThread t { g.threads t with pc := .atUnlock, out := .errGet2 })
  | faultSet (hpc : (g.threads t).pc = .atSet) :
      Step life g t (g.setThread t { g.threads t with pc := .atUnlock, out := .errSet, ans := none })
  | faultUnlock (hpc : (g.threads t).pc = .atUnlock) :
      Step life g t (g.setThread t { g.threads t with pc := .leaked })

theorem step_of_stepThr (life : Nat) {g g' : G} {t : Tid} (h : stepThr life g t = some g') : Step life g t g' := by
  cases hpc : (g.threads t).pc <;> simp [stepThr, hpc] at h
  · -- idle
    cases hk : (g.threads t).req.key with
    | none =>
      simp [hk] at h
      split at h <;> simp at h <;> subst h
      · exact .arriveInvalid hpc hk ‹_›
      · exact .arriveBypass hpc hk (by simp_all)
    | some k => simp [hk] at h; subst h; exact .arrive hpc k hk
  · -- atGet1
    cases hk : (g.threads t).req.key with
    | none => simp [hk] at h
    | some k =>
      simp [hk] at h
      cases hl : lookup g k with
      | none => simp [hl] at h; subst h; exact .get1Miss hpc k hk hl
      | some r => simp [hl] at h; subst h; exact .get1Hit hpc k hk r hl
  · subst h; exact .lockCall hpc
  · -- lockInc
    cases hk : (g.threads t).req.key with
    | none => simp [hk] at h
    | some k =>
      simp [hk] at h
      cases hki : g.keys k with
      | none => simp [hki] at h; subst h; exact .incNew hpc k hk hki
      | some i => simp [hki] at h; subst h; exact .incOld hpc k hk i hki
  · -- lockAcq
    cases hh : (g.locks (g.threads t).lk).holder with
    | none => simp [hh] at h; subst h; exact .acquire hpc hh
    | some _ => simp [hh] at h
  · -- atGet2
    cases hk : (g.threads t).req.key with
    | none => simp [hk] at h
    | some k =>
      simp [hk] at h
      cases hl : lookup g k with
      | none => simp [hl] at h; subst h; exact .get2Miss hpc k hk hl
      | some r => simp [hl] at h; subst h; exact .get2Hit hpc k hk r hl
  · -- atHandler
    split at h <;> simp at h <;> subst h
    · exact .handlerFail hpc ‹_›
    · exact .handlerOk hpc (by simp_all)
  · -- atSet
    cases hk : (g.threads t).req.key with
    | none => simp [hk] at h
    | some k => simp [hk] at h; subst h; exact .set hpc k hk
  · subst h; exact .unlockCall hpc
  · -- unlockLookup
    cases hk : (g.threads t).req.key with
    | none => simp [hk] at h
    | some k =>
      simp [hk] at h
      cases hki : g.keys k with
      | none => simp [hki] at h; subst h; exact .unlockUnknown hpc k hk hki
      | some i => simp [hki] at h; subst h; exact .unlockFound hpc k hk i hki
  · subst h; exact .release hpc
  · -- unlockDec
    cases hk : (g.threads t).req.key with
    | none => simp [hk] at h
    | some k =>
      simp [hk] at h
      by_cases hz : (g.locks (g.threads t).lk).locked - 1 ≤ 0
      · simp [hz] at h; subst h; exact .decDelete hpc k hk hz
      · simp [hz] at h; subst h; exact .decKeep hpc k hk hz
  · subst h; exact .handlerB hpc

theorem step_of_stepFault (life : Nat) {g g' : G} {t : Tid} (h : stepFault g t = some g') : Step life g t g' := by
  cases hpc : (g.threads t).pc <;> simp [stepFault, hpc] at h
  · subst h; exact .faultGet1 hpc
  · subst h; exact .faultLock hpc
  · subst h; exact .faultGet2 hpc
  · subst h; exact .faultSet hpc
  · subst h; exact .faultUnlock hpc

/-- every enabled action is a tick or a `Step` of some thread -/
theorem step_cases (life : Nat) {g g' : G} {a : Act} (h : step life g a = some g') :
    (∃ d, a = .tick d ∧ g' = { g with now := g.now + d }) ∨ (∃ t, (a = .thr t ∨ a = .fault t) ∧ Step life g t g') := by
  cases a with
  | thr t => exact .inr ⟨t, .inl rfl, step_of_stepThr life h⟩
  | fault t => exact .inr ⟨t, .inr rfl, step_of_stepFault life h⟩
  | tick d => simp [step] at h; exact .inl ⟨d, rfl, h.symm⟩

end C17
