import FiberModel.Conc.Basic
/-
C17 — model of middleware/idempotency (idempotency.go New) together with the reference-counted
per-key lock of locker.go (MemoryLock), in the `Conc` style.

Every request is a thread; `step` transcribes the handler closure one shared-state access at a time:
fast-path `Storage.Get`, `Lock.Lock(key)`, second `Storage.Get` under the lock, `c.Next()`,
`Storage.Set`, deferred `Lock.Unlock(key)`. `MemoryLock.Lock` is two atomic steps (the block under
`l.mu`: look the counted lock up or create it, `locked++`; then `lock.mu.Lock()`, which blocks while
another thread holds that mutex) and `MemoryLock.Unlock` three (the block under `l.mu`: look up; then
`lock.mu.Unlock()`; then the second block under `l.mu`: `locked--`, `delete(l.keys, key)` at zero).
A block guarded by `l.mu` is one atomic step (sync.Mutex is assumed to be a mutex). Storage and lock
calls can fail (`Act.fault`): `Storage.Get` (both), `Lock.Lock`, `Storage.Set` and `Lock.Unlock`. A failing
`Unlock` is modelled in its adversarial form: the call returns an error *without* having released the
key's lock (the middleware only logs the error), so the lock stays held for ever (`Pc.leaked`); an
`Unlock` that releases and then reports an error is indistinguishable from a successful one, because
the middleware ignores the result. The storage records, per key, who produced the record and when it
expires (`store`) and the recorded response itself (`vals`): status, body and the headers selected by
`KeepResponseHeaders`.
-/
namespace C17

abbrev Tid := Nat
abbrev Key := Nat

/-- a response as far as the property looks at it (status, body, headers in wire order) -/
structure Resp where
  status : Nat
  body : String
  hdrs : List (String × String)
  deriving Repr, BEq, DecidableEq

def lower (s : String) : String := String.ofList (s.toList.map Char.toLower)

/-- idempotency.go New: `keepResponseHeadersMap[strings.ToLower(h)]`, looked up with
`utils.ToLower(h)`; `KeepResponseHeaders == nil` keeps every header -/
def kept (keep : Option (List String)) (name : String) : Bool :=
  match keep with
  | none => true
  | some l => l.any fun n => lower n == lower name

/-- idempotency.go New, "Construct response": what is recorded of the handler's response -/
def recorded (keep : Option (List String)) (r : Resp) : Resp :=
  { r with hdrs := r.hdrs.filter fun h => kept keep h.1 }

/-- what the request brings -/
structure Req where
  key : Option Key     -- `some k`: non-safe method (POST, …) carrying the valid key k; `none`: middleware steps aside
                       --  (Config.Next: safe method, or no key header)
  invalid : Bool       -- non-safe method whose key fails KeyHeaderValidate
  fails : Bool         -- the downstream handler returns an error
  resp : Resp := ⟨200, "", []⟩   -- what the downstream handler answers for this request when it succeeds
  deriving Repr

/-- idempotency.go New, head of the returned handler: how `Config.Next`, `Config.KeyHeader` and
`Config.KeyHeaderValidate` (defaults or custom ones) turn an HTTP request into what the model looks at.
`next` = the result of `cfg.Next(c)`, `key` = the value of the header named `cfg.KeyHeader` (`none` when it
is empty / absent), `valid` = `cfg.KeyHeaderValidate(key) == nil`. The order is the code's: Next first
(the key is not even read), then the empty key, then the validator. -/
def Req.ofHttp (next : Bool) (key : Option Key) (valid : Bool) (fails : Bool) (resp : Resp) : Req :=
  if next then { key := none, invalid := false, fails := fails, resp := resp }
  else match key with
    | none => { key := none, invalid := false, fails := fails, resp := resp }
    | some k =>
      if valid then { key := some k, invalid := false, fails := fails, resp := resp }
      else { key := none, invalid := true, fails := fails, resp := resp }

inductive Pc
  | idle
  | atGet1         -- about to call Storage.Get (fast path)
  | atLock         -- about to call Lock.Lock(key)
  | lockInc        -- MemoryLock.Lock: block under l.mu
  | lockAcq        -- MemoryLock.Lock: lock.mu.Lock()
  | atGet2         -- holds the key's lock; about to call Storage.Get again
  | atHandler      -- about to run c.Next()
  | atSet          -- about to call Storage.Set
  | atUnlock       -- deferred: about to call Lock.Unlock(key)
  | unlockLookup   -- MemoryLock.Unlock: first block under l.mu
  | unlockRelease  -- MemoryLock.Unlock: lock.mu.Unlock()
  | unlockDec      -- MemoryLock.Unlock: second block under l.mu
  | atHandlerB     -- middleware stepped aside; about to run c.Next()
  | done
  | leaked         -- finished, but its Lock.Unlock failed: the key's lock is never released
  deriving DecidableEq, Repr

/-- how the request was answered -/
inductive Out
  | pending
  | errKey | errGet1 | errLock | errGet2 | errSet     -- error from the middleware
  | errHandler                                        -- the handler's own error, passed through
  | own                                               -- the handler's response (first execution)
  | replay (by_ : Tid)                                -- the recorded response of execution `by_`
  deriving DecidableEq, Repr

structure Thread where
  req : Req
  pc : Pc := .idle
  out : Out := .pending
  lk : Nat := 0        -- `lock` pointer obtained in MemoryLock.Lock / Unlock
  ran : Bool := false     -- the downstream handler was executed for this request
  doneAt : Nat := 0       -- second at which the handler completed successfully (ghost)
  stored : Bool := false  -- its Storage.Set succeeded (ghost)
  setAt : Nat := 0        -- second at which its Storage.Set succeeded (ghost)
  ans : Option Resp := none  -- the response answered (meaningful when `out` is `own` or `replay`): the handler's
                             --  own response, or the record read from the storage

/-- locker.go countedLock -/
structure CLock where
  locked : Int
  holder : Option Tid      -- who holds `mu`
  users : List Tid := []   -- ghost: the threads between `locked++` and `locked--` on this object

structure G where
  store : Key → Option (Tid × Nat)    -- recorded response (by its producer) and absolute expiry second
  vals : Key → Option Resp            -- the recorded response itself (what Storage.Get returns, unmarshalled)
  keep : Option (List String)         -- Config.KeepResponseHeaders (never changes)
  keys : Key → Option Nat          -- MemoryLock.keys
  locks : Nat → CLock              -- the heap of countedLock objects
  nextId : Nat
  now : Nat
  threads : Tid → Thread

inductive Act
  | thr (t : Tid)       -- next atomic step
  | fault (t : Tid)     -- the pending Storage.Get / Lock.Lock / Storage.Set / Lock.Unlock call returns an error
  | tick (d : Nat)

def G.setThread (g : G) (t : Tid) (th : Thread) : G :=
  { g with threads := fun t' => if t' = t then th else g.threads t' }

def G.setLock (g : G) (i : Nat) (l : CLock) : G :=
  { g with locks := fun i' => if i' = i then l else g.locks i' }

/-- Storage.Get: a record is returned while its lifetime has not passed -/
def lookup (g : G) (k : Key) : Option Tid :=
  match g.store k with
  | some (r, exp) => if exp ≤ g.now then none else some r
  | none => none

def stepThr (life : Nat) (g : G) (t : Tid) : Option G :=
  let th := g.threads t
  match th.pc with
  | .idle =>
    match th.req.key with
    | none =>
      if th.req.invalid then some (g.setThread t { th with pc := .done, out := .errKey })
      else some (g.setThread t { th with pc := .atHandlerB })
    | some _ => some (g.setThread t { th with pc := .atGet1 })
  | .atGet1 =>
    match th.req.key with
    | none => none
    | some k =>
      match lookup g k with
      | some r => some (g.setThread t { th with pc := .done, out := .replay r, ans := g.vals k })
      | none => some (g.setThread t { th with pc := .atLock })
  | .atLock => some (g.setThread t { th with pc := .lockInc })
  | .lockInc =>
    match th.req.key with
    | none => none
    | some k =>
      match g.keys k with
      | some i =>
        some ((g.setLock i { g.locks i with locked := (g.locks i).locked + 1, users := t :: (g.locks i).users }).setThread t
          { th with pc := .lockAcq, lk := i })
      | none =>
        let i := g.nextId
        some (({ g with keys := fun k' => if k' = k then some i else g.keys k', nextId := i + 1 }.setLock i
          ⟨1, none, [t]⟩).setThread t { th with pc := .lockAcq, lk := i })
  | .lockAcq =>
    match (g.locks th.lk).holder with
    | none => some ((g.setLock th.lk { g.locks th.lk with holder := some t }).setThread t { th with pc := .atGet2 })
    | some _ => none
  | .atGet2 =>
    match th.req.key with
    | none => none
    | some k =>
      match lookup g k with
      | some r => some (g.setThread t { th with pc := .atUnlock, out := .replay r, ans := g.vals k })
      | none => some (g.setThread t { th with pc := .atHandler })
  | .atHandler =>
    if th.req.fails then some (g.setThread t { th with pc := .atUnlock, out := .errHandler, ran := true })
    else some (g.setThread t { th with pc := .atSet, ran := true, doneAt := g.now, ans := some th.req.resp })
  | .atSet =>
    match th.req.key with
    | none => none
    | some k =>
      some ({ g with store := fun k' => if k' = k then some (t, g.now + life) else g.store k',
                     vals := fun k' => if k' = k then some (recorded g.keep th.req.resp) else g.vals k' }.setThread t
        { th with pc := .atUnlock, out := .own, stored := true, setAt := g.now })
  | .atUnlock => some (g.setThread t { th with pc := .unlockLookup })
  | .unlockLookup =>
    match th.req.key with
    | none => none
    | some k =>
      match g.keys k with
      | some i => some (g.setThread t { th with pc := .unlockRelease, lk := i })
      | none => some (g.setThread t { th with pc := .done })     -- "unlock an unknown key": returns nil
  | .unlockRelease =>
    some ((g.setLock th.lk { g.locks th.lk with holder := none }).setThread t { th with pc := .unlockDec })
  | .unlockDec =>
    match th.req.key with
    | none => none
    | some k =>
      let l := g.locks th.lk
      let g1 := g.setLock th.lk { l with locked := l.locked - 1, users := l.users.erase t }
      let g2 : G := if l.locked - 1 ≤ 0 then { g1 with keys := fun k' => if k' = k then none else g1.keys k' } else g1
      some (g2.setThread t { th with pc := .done })
  | .atHandlerB =>
    some (g.setThread t { th with pc := .done, ran := true, out := if th.req.fails then .errHandler else .own,
                                   ans := if th.req.fails then none else some th.req.resp })
  | .done => none
  | .leaked => none

/-- the pending call fails -/
def stepFault (g : G) (t : Tid) : Option G :=
  let th := g.threads t
  match th.pc with
  | .atGet1 => some (g.setThread t { th with pc := .done, out := .errGet1 })
  | .atLock => some (g.setThread t { th with pc := .done, out := .errLock })
  | .atGet2 => some (g.setThread t { th with pc := .atUnlock, out := .errGet2 })
  | .atSet => some (g.setThread t { th with pc := .atUnlock, out := .errSet, ans := none })
  | .atUnlock => some (g.setThread t { th with pc := .leaked })     -- error is only logged; lock not released
  | _ => none

def step (life : Nat) (g : G) : Act → Option G
  | .thr t => stepThr life g t
  | .fault t => stepFault g t
  | .tick d => some { g with now := g.now + d }

def sys (life : Nat) : Conc.System G Act := ⟨step life⟩

def init (reqs : Tid → Req) (t0 : Nat) (keep : Option (List String) := none) : G :=
  { store := fun _ => none, vals := fun _ => none, keep := keep, keys := fun _ => none, locks := fun _ => ⟨0, none, []⟩, nextId := 0, now := t0,
    threads := fun t => { req := reqs t } }

end C17
