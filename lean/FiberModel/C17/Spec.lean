import FiberModel.C17.Model
/-
C17 — the property as an executable specification (the oracle evaluated on an observed history).

For requests carrying the same idempotency key: two successful completions of the handler are at
least a lifetime apart (counted from the moment the first one's response was recorded) — i.e. at most
one per key within its lifetime; every request answered without running the handler gets status, body
and kept headers of that recorded execution; requests without a key / with a safe method are not
touched and a request is never made to wait by a request with another key; a request whose lookup or
lock acquisition failed gets an error and the handler is not run for it. Every request is answered,
except one that waits for a key whose lock was leaked by a failing `Unlock`.

`Resp` (status, body, headers) and `kept` (the KeepResponseHeaders membership test) are the shared
vocabulary of Model.lean.
-/
namespace C17.Spec

/-- stable sort of headers by name (order between different names is not observable: the recorded
headers travel through a Go map) -/
def insertH (h : String × String) : List (String × String) → List (String × String)
  | [] => [h]
  | x :: xs => if x.1 < h.1 then x :: insertH h xs else h :: x :: xs

def sortH (l : List (String × String)) : List (String × String) := l.foldr insertH []

/-- fasthttp `ResponseHeader.ContentType()`: a response whose Content-Type was never set goes out with
this one -/
def defaultCT : String := "text/plain; charset=utf-8"

/-- what is recorded of a response, and hence what a duplicate must receive: the kept headers among the
watched ones; when `Content-Type` is watched and not among them (the handler did not set it, or
KeepResponseHeaders drops it) the answer carries fasthttp's default Content-Type -/
def record (keep : Option (List String)) (watched : List String) (r : Resp) : Resp :=
  let hs := r.hdrs.filter fun h => kept keep h.1 && watched.contains h.1
  let hs := if watched.contains "Content-Type" && !hs.any (fun h => h.1 == "Content-Type") then
      hs ++ [("Content-Type", defaultCT)] else hs
  { r with hdrs := sortH hs }

/-- events of a history, in the order they happened -/
inductive Ev
  | exec (t : Tid) (ts : Nat)                  -- the handler ran for request t (second ts)
  | set (t : Tid) (ts : Nat) (ok : Bool)       -- request t's Storage.Set returned (ok / error) at ts
  | faulted (t : Tid) (atSet : Bool)           -- a lookup / lock (or Set) call of request t was made to fail
  | unlockFailed (t : Tid)                     -- request t's Lock.Unlock was made to fail (lock not released)
  | blocked (t : Tid) (inside : List Tid)      -- after an action request t was waiting inside Lock.Lock while the
                                               --  requests `inside` were between Lock.Lock returning and Lock.Unlock
  | answered (t : Tid)                         -- request t finished
  deriving Repr

structure ThreadObs where
  req : Req
  own : Resp                -- what the handler answers for this request when it succeeds
  ran : Bool
  isErr : Bool              -- answered with an error status from the middleware / handler error
  handlerErr : Bool         -- the error answered is the downstream handler's own error
  resp : Resp               -- the observed response (watched headers, sorted by name)
  touched : Bool            -- was seen at a storage / lock yield point or blocked
  noAnswer : Bool
  deriving Repr

/-- successful executions of key k in order, with the second their Set succeeded (none: no successful Set seen) -/
def successes (obs : Tid → ThreadObs) (k : Key) (evs : List Ev) : List (Tid × Nat × Option Nat × Bool) :=
  let execs := evs.filterMap fun e => match e with
    | .exec t ts => if (obs t).req.key == some k && !(obs t).req.fails then some (t, ts) else none
    | _ => none
  execs.map fun (t, ts) =>
    let st := evs.findSome? fun e => match e with
      | .set t' ts' ok => if t' == t then some (ts', ok) else none
      | _ => none
    match st with
    | some (ts', true) => (t, ts, some ts', false)
    | some (_, false) => (t, ts, none, true)
    | none => (t, ts, none, false)

/-- clause 1: consecutive successful executions of a key are a lifetime apart.
Returns (clause, inKnownRegionK1). -/
def checkOnce (life : Nat) (obs : Tid → ThreadObs) (keys : List Key) (evs : List Ev) : Option (String × Bool) :=
  let all : List (String × Bool) := keys.flatMap fun k =>
    let ss := successes obs k evs
    (ss.zip ss.tail).filterMap fun ((t1, _, set1, failed1), (t2, ts2, _, _)) =>
      match set1 with
      | some s1 => if s1 + life ≤ ts2 then none
                   else some (s!"at-most-once (handler completed for thread {t1} and again for thread {t2} of key {k} within the lifetime)", false)
      | none => some (s!"at-most-once (handler completed for thread {t1} and again for thread {t2} of key {k}; the first was never recorded)", failed1)
  -- a failure outside the known region is never hidden behind one inside it
  match all.find? (fun c => !c.2) with
  | some c => some c
  | none => all.head?

/-- the execution a replayed answer must come from: the last successful execution of the key that
happened before the request was answered -/
def sourceOf (obs : Tid → ThreadObs) (k : Key) (t : Tid) (evs : List Ev) : Option Tid :=
  let before := evs.takeWhile fun e => match e with | .answered t' => t' != t | _ => true
  (before.filterMap fun e => match e with
    | .exec t' _ => if (obs t').req.key == some k && !(obs t').req.fails then some t' else none
    | _ => none).getLast?

def checkThread (keep : Option (List String)) (watched : List String) (obs : Tid → ThreadObs) (evs : List Ev)
    (t : Tid) : Option String :=
  let o := obs t
  let gotFault := evs.any fun e => match e with | .faulted t' false => t' == t | _ => false
  if o.noAnswer then
    -- only a request waiting for a key whose lock was leaked by a failing Unlock may stay unanswered
    let leakedKey := o.req.key.isSome && evs.any fun e => match e with
      | .unlockFailed t' => (obs t').req.key == o.req.key
      | _ => false
    if leakedKey then none else some s!"no-answer thread={t}"
  else match o.req.key with
  | none =>
    if o.req.invalid then
      if o.ran then some s!"failure-no-execution (invalid key, handler ran) thread={t}" else none
    else if !o.ran then some s!"others-unaffected (request without key / safe method did not reach the handler) thread={t}"
    else if o.touched then some s!"others-unaffected (request without key / safe method went through lock or storage) thread={t}"
    else if !o.req.fails && o.resp != record none watched o.own then
      some s!"others-unaffected (response altered) thread={t}"
    else none
  | some k =>
    if gotFault then
      if o.ran then some s!"failure-no-execution (lookup/lock failed, handler ran) thread={t}"
      else if !o.isErr then some s!"failure-no-execution (lookup/lock failed, no error answer) thread={t}"
      else none
    else if o.isErr then
      -- handler error passed through / Set failure: no answer to compare; but the handler's error is
      -- never an answer to a request the handler was not run for
      if o.handlerErr && !o.ran then some s!"same-answer (answered with a handler error that was not produced for it) thread={t}"
      else none
    else if o.ran then
      if o.resp != record none watched o.own then some s!"same-answer (executing request's own response altered) thread={t}" else none
    else match sourceOf obs k t evs with
      | none => some s!"same-answer (answered without an execution to take the answer from) thread={t}"
      | some t0 =>
        if o.resp != record keep watched (obs t0).own then
          some s!"same-answer (differs from the recorded execution of thread {t0}) thread={t}"
        else none

/-- a request waits only for a request with the same key -/
def checkBlocked (obs : Tid → ThreadObs) (evs : List Ev) : Option String :=
  evs.findSome? fun e => match e with
    | .blocked t inside =>
      if (obs t).req.key.isSome && inside.any (fun t' => t' != t && (obs t').req.key == (obs t).req.key) then none
      else some s!"others-unaffected (request waits although no request with the same key holds the lock) thread={t}"
    | _ => none

/-- first violated clause; the Bool says whether it lies in known-finding region K1 (Set fault after
a successful execution) -/
def check (life : Nat) (keep : Option (List String)) (watched : List String) (n : Nat) (obs : Tid → ThreadObs)
    (evs : List Ev) : Option (String × Bool) :=
  let keys := ((List.range n).filterMap fun t => (obs t).req.key).eraseDups
  let once := checkOnce life obs keys evs
  match once with
  | some (c, false) => some (c, false)
  | _ =>
    match (List.range n).findSome? fun t => checkThread keep watched obs evs t with
    | some c => some (c, false)
    | none =>
      match checkBlocked obs evs with
      | some c => some (c, false)
      | none => once

end C17.Spec
