import FiberModel.C17.Model
/-
C17 — known-finding regions (decidable predicates, as narrow as the defect).

K1: `Storage.Set` fails after the handler completed successfully: the response is never recorded
(idempotency.go returns "failed to save response"), so the next request with the same key executes
the handler again within the key's lifetime. The region is exactly "this request's Set failed".
-/
namespace C17.Known

/-- request `t`'s handler succeeded but its `Storage.Set` failed -/
def K1 (g : G) (t : Tid) : Bool := (g.threads t).out == .errSet

end C17.Known
