import FiberModel.C17.AnsInv
/-
C17 — the combined invariant of every reachable state (lock table, execution/record, answers) and
the lifting lemmas used by the property theorems in Props.lean.
-/
namespace C17
open Conc

structure Full (life : Nat) (g : G) : Prop where
  lock : LInv g
  exec : EInv life g
  ans : AInv g
  /-- a thread in the keyed flow has a key -/
  keyed : ∀ t, (g.threads t).pc ≠ .idle → (g.threads t).pc ≠ .atHandlerB → (g.threads t).pc ≠ .done →
    ∃ k, (g.threads t).req.key = some k
  /-- a request answered with its own response ran the handler -/
  own : ∀ t, (g.threads t).out = .own → (g.threads t).ran = true
  /-- a request the middleware stepped aside for ends having run the handler -/
  byp : ∀ t, (g.threads t).req.key = none → (g.threads t).req.invalid = false → (g.threads t).pc = .done →
    (g.threads t).ran = true

theorem linv_tick {g : G} (d : Nat) (hi : LInv g) : LInv { g with now := g.now + d } :=
  ⟨hi.ptr, hi.users, hi.nodup, hi.count, hi.holder, hi.freshK, hi.freshT, hi.inj⟩

theorem keyed_step {life : Nat} {g g' : G} {t : Tid}
    (hk : ∀ t, (g.threads t).pc ≠ .idle → (g.threads t).pc ≠ .atHandlerB → (g.threads t).pc ≠ .done →
      ∃ k, (g.threads t).req.key = some k) (hs : Step life g t g') :
    ∀ t, (g'.threads t).pc ≠ .idle → (g'.threads t).pc ≠ .atHandlerB → (g'.threads t).pc ≠ .done →
      ∃ k, (g'.threads t).req.key = some k := by
  intro t' h1 h2 h3
  by_cases ht : t' = t
  · subst ht
    cases hs <;> simp_all
    all_goals first
      | (rename_i hpc; exact hk t' (by simp [hpc]) (by simp [hpc]) (by simp [hpc]))
      | skip
  · have : g'.threads t' = g.threads t' := by cases hs <;> simp [setThread_threads_ne _ _ ht]
    rw [this] at h1 h2 h3 ⊢
    exact hk t' h1 h2 h3

theorem byp_step {life : Nat} {g g' : G} {t : Tid}
    (hk : ∀ t, (g.threads t).pc ≠ .idle → (g.threads t).pc ≠ .atHandlerB → (g.threads t).pc ≠ .done →
      ∃ k, (g.threads t).req.key = some k)
    (hb : ∀ t, (g.threads t).req.key = none → (g.threads t).req.invalid = false → (g.threads t).pc = .done →
      (g.threads t).ran = true) (hs : Step life g t g') :
    ∀ t, (g'.threads t).req.key = none → (g'.threads t).req.invalid = false → (g'.threads t).pc = .done →
      (g'.threads t).ran = true := by
  intro t' h1 h2 h3
  by_cases ht : t' = t
  · subst ht
    cases hs <;> simp_all
    all_goals
      rename_i hpc
      obtain ⟨k, hk'⟩ := hk t' (by simp [hpc]) (by simp [hpc]) (by simp [hpc])
      simp_all
  · have : g'.threads t' = g.threads t' := by cases hs <;> simp [setThread_threads_ne _ _ ht]
    rw [this] at h1 h2 h3 ⊢
    exact hb t' h1 h2 h3

theorem own_step {life : Nat} {g g' : G} {t : Tid} (he : EInv life g)
    (ho : ∀ t, (g.threads t).out = .own → (g.threads t).ran = true) (hs : Step life g t g') :
    ∀ t, (g'.threads t).out = .own → (g'.threads t).ran = true := by
  intro t' h1
  by_cases ht : t' = t
  · subst ht
    have h0 := ho t'
    have hs' := he.atSet t'
    cases hs <;> simp_all
  · have : g'.threads t' = g.threads t' := by cases hs <;> simp [setThread_threads_ne _ _ ht]
    rw [this] at h1 ⊢
    exact ho t' h1

theorem full_step (life : Nat) {g g' : G} {a : Act} (hf : Full life g) (hs : step life g a = some g') :
    Full life g' := by
  rcases step_cases life hs with ⟨d, _, rfl⟩ | ⟨t, _, hst⟩
  · exact ⟨linv_tick d hf.lock, einv_tick d hf.exec, ainv_tick d hf.ans, hf.keyed, hf.own, hf.byp⟩
  · exact ⟨linv_step life hf.lock hst, einv_step life hf.lock hf.exec hst, ainv_step life hf.exec hf.ans hst,
      keyed_step hf.keyed hst, own_step hf.exec hf.own hst, byp_step hf.keyed hf.byp hst⟩

theorem full_reach (life : Nat) (reqs : Tid → Req) (t0 : Nat) (keep : Option (List String)) {g : G}
    (h : (sys life).Reach (init reqs t0 keep) g) : Full life g := by
  refine Conc.inv_reach (sys life) (Full life) (fun g a g' hf hs => full_step life hf hs)
    ⟨linv_init reqs t0 keep, einv_init life reqs t0 keep, ainv_init reqs t0 keep, ?_, ?_, ?_⟩ h
  · intro t h1; simp [init] at h1
  · intro t h1; simp [init] at h1
  · intro t _ _ h3; simp [init] at h3

/-- the configuration and the requests never change -/
theorem const_reach (life : Nat) (reqs : Tid → Req) (t0 : Nat) (keep : Option (List String)) {g : G}
    (h : (sys life).Reach (init reqs t0 keep) g) : g.keep = keep ∧ ∀ t, (g.threads t).req = reqs t := by
  refine Conc.inv_reach (sys life) (fun g => g.keep = keep ∧ ∀ t, (g.threads t).req = reqs t) ?_ ⟨rfl, fun _ => rfl⟩ h
  intro g a g' ⟨h1, h2⟩ hs
  rcases step_cases life hs with ⟨d, _, rfl⟩ | ⟨t, _, hst⟩
  · exact ⟨h1, h2⟩
  · refine ⟨by cases hst <;> simpa using h1, fun t' => ?_⟩
    by_cases ht : t' = t
    · subst ht; rw [← h2 t']; cases hst <;> simp
    · rw [← h2 t']; cases hst <;> simp [setThread_threads_ne _ _ ht]

/-- once a request's answer is determined, no step of any thread changes it, nor whether the handler ran
for it -/
theorem out_sticky {life : Nat} {g g' : G} {t : Tid} (hf : Full life g) (hs : Step life g t g') (t' : Tid)
    (ho : (g.threads t').out ≠ .pending) :
    (g'.threads t').out = (g.threads t').out ∧ (g'.threads t').ran = (g.threads t').ran := by
  by_cases ht : t' = t
  · subst ht
    have he := hf.exec.early t'
    have hs' := hf.exec.atSet t'
    cases hs <;> simp_all [early]
  · have : g'.threads t' = g.threads t' := by cases hs <;> simp [setThread_threads_ne _ _ ht]
    rw [this]; exact ⟨rfl, rfl⟩

/-- the only instruction that can block is `lock.mu.Lock()` (a request is finished at `done`, and at
`leaked` when its `Unlock` failed) -/
theorem stepThr_none_pc {life : Nat} {g : G} {t : Tid}
    (hk : ∀ t, (g.threads t).pc ≠ .idle → (g.threads t).pc ≠ .atHandlerB → (g.threads t).pc ≠ .done →
      ∃ k, (g.threads t).req.key = some k)
    (hnone : stepThr life g t = none) (hnd : (g.threads t).pc ≠ .done) (hnl : (g.threads t).pc ≠ .leaked) :
    (g.threads t).pc = .lockAcq := by
  have hkey := hk t
  cases hpc : (g.threads t).pc
  case lockAcq => rfl
  case done => exact absurd hpc hnd
  case leaked => exact absurd hpc hnl
  case idle =>
    simp only [stepThr, hpc] at hnone
    cases hk' : (g.threads t).req.key <;> simp [hk'] at hnone
    split at hnone <;> simp at hnone
  all_goals
    simp only [stepThr, hpc] at hnone
    first
      | (simp at hnone; done)
      | (split at hnone <;> simp at hnone; done)
      | (obtain ⟨k, hk'⟩ := hkey (by simp [hpc]) (by simp [hpc]) (by simp [hpc])
         simp only [hk'] at hnone
         first
           | (simp at hnone; done)
           | (split at hnone <;> simp at hnone))

end C17
