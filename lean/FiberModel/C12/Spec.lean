import FiberModel.C12.Model
/-
C12 — the property as executable predicates over the implementation's observations.

"Messages and input attached to a redirect are delivered, for all keys and values, over a real HTTP
exchange to the handler of the next request carrying the issued cookie, whose response expires that
cookie so that a conforming client presents them exactly once; requests without the cookie see none.
A cookie that is not a well-formed encoding yields no messages, and decoding costs time and memory
at most proportional to its length."

The reference decoder `parse` is stateless: every message starts from the zero value, the whole
cookie must be consumed, and any error means "no messages". It shares only the msgpack primitive
readers with the model.
-/
namespace C12
open B

/-- `n` messages, each decoded into a fresh zero value -/
def parseMsgs : Nat → Bytes → Option (List Msg × Bytes)
  | 0, bs => some ([], bs)
  | n + 1, bs =>
    match unmarshalMsg Msg.zero bs with
    | none => none
    | some (m, r) =>
      match parseMsgs n r with
      | none => none
      | some (ms, r') => some (m :: ms, r')

/-- well-formed encoding ⇒ its messages; anything else ⇒ `none` -/
def parse (cookie : Bytes) : Option (List Msg) :=
  match readArrayHeader cookie with
  | none => none
  | some (n, body) =>
    match parseMsgs n body with
    | some (ms, []) => some ms
    | _ => none

/-- what a handler must see for a given cookie value -/
def expectedSeen (cookie : Bytes) : List Msg := (parse cookie).getD []

/-- The flash messages a chain of `With(key, value, level)` calls attaches: one per distinct key, in
    order of first use, carrying the value and level of the LAST call with that key. -/
def expectedFlash (calls : List (Bytes × Bytes × Nat)) : List Msg :=
  (calls.map (·.1)).eraseDups.filterMap fun k =>
    ((calls.filter (·.1 = k)).getLast?).map fun c => ⟨k, c.2.1, c.2.2, false⟩

/-- old input: one message per key/value pair (order not specified: compared as sorted lists) -/
def expectedOld (inputs : List (Bytes × Bytes)) : List Msg :=
  inputs.map fun kv => ⟨kv.1, kv.2, 0, true⟩

/-- `k` calls of `WithInput()` attach the input `k` times: every call appends one message per pair of
    the bound map (what is attached is delivered, nothing is merged); `k = 0` attaches none even if
    the request carried input. -/
def expectedOldN (k : Nat) (inputs : List (Bytes × Bytes)) : List Msg :=
  (List.replicate k (expectedOld inputs)).flatten

/-! ### Rendering shared by harness, driver and spec -/

def hx (s : Bytes) : String := if s.isEmpty then "_" else toHex s

/-- `OldInputData` has no level: the handler cannot observe it for old-input messages -/
def renderMsg (m : Msg) : String :=
  s!"{hx m.key}.{hx m.value}.{if m.old then 0 else m.level}.{if m.old then 1 else 0}"

/-- insertion sort on strings (old inputs are compared as sorted lists) -/
def insertStr (x : String) : List String → List String
  | [] => [x]
  | y :: ys => if x ≤ y then x :: y :: ys else y :: insertStr x ys
def sortStr (l : List String) : List String := l.foldr insertStr []

/-- flash messages in order, then old inputs sorted (as the /show handler of the harness prints) -/
def renderSeen (ms : List Msg) : String :=
  let fl := (ms.filter (!·.old)).map renderMsg
  let ol := sortStr ((ms.filter (·.old)).map renderMsg)
  if fl.isEmpty && ol.isEmpty then "-" else ",".intercalate (fl ++ ol)

/-! ### Keyed readers `Message(key)` / `OldInput(key)`

The specification of the keyed readers is given through the list readers: `Message(k)` is the first
entry of `Messages()` with key `k` (for an attached chain: the one message `expectedFlash` holds for
`k`), `OldInput(k)` the first entry of `OldInputs()` with key `k`; the zero value when there is none.
An entry of the OTHER kind with the same key never hides it. -/

/-- what `Message(k)` must return when the handler must see `expected` -/
def specMessage (expected : List Msg) (k : Bytes) : Bytes × Bytes × Nat :=
  match (expected.filter (!·.old)).find? (·.key = k) with
  | some m => (m.key, m.value, m.level)
  | none => ([], [], 0)

/-- what `OldInput(k)` must return when the handler must see `expected` -/
def specOldInput (expected : List Msg) (k : Bytes) : Bytes × Bytes :=
  match (expected.filter (·.old)).find? (·.key = k) with
  | some m => (m.key, m.value)
  | none => ([], [])

/-- a key the /show handler always asks for in addition (normally absent) -/
def absentKey : Bytes := b "zz-absent"

/-- the keys the /show handler of the harness asks the keyed readers for: the keys of the script
    (flash keys, input names), the keys of what it sees through the list readers, `absentKey`;
    first occurrence only -/
def queryKeys (scriptKeys : List Bytes) (seen : List Msg) : List Bytes :=
  (scriptKeys ++ (seen.filter (!·.old)).map (·.key) ++ (seen.filter (·.old)).map (·.key) ++ [absentKey]).eraseDups

def renderKeyedEntry (k : Bytes) (m : Bytes × Bytes × Nat) (o : Bytes × Bytes) : String :=
  s!"{hx k}:{hx m.1}.{hx m.2.1}.{m.2.2}:{hx o.1}.{hx o.2}"

/-- `key:Message(key):OldInput(key)` for every queried key, given the two readers -/
def renderKeyed (keys : List Bytes) (msg : Bytes → Bytes × Bytes × Nat) (old : Bytes → Bytes × Bytes) : String :=
  ",".intercalate (keys.map fun k => renderKeyedEntry k (msg k) (old k))

/-- the keyed part of the observation the specification expects -/
def expectedKeyed (scriptKeys : List Bytes) (expected : List Msg) : String :=
  renderKeyed (queryKeys scriptKeys expected) (specMessage expected) (specOldInput expected)

/-- memory budget of one request: a constant for the server's own per-connection work plus a
    multiple of the cookie length -/
def allocBudget (cookieLen : Nat) : Nat := 65536 + 64 * cookieLen

/-! ### Clauses -/

/-- conforming client (net/http): issued value, cookie sent with request 2 / what its handler saw,
    cookie sent with request 3 / what its handler saw -/
structure ObsConforming where
  issued : Option Bytes
  c2 : Option Bytes
  seen2 : String
  c3 : Option Bytes
  seen3 : String
  /-- keyed readers in request 2 / 3 -/
  keyed2 : String := ""
  keyed3 : String := ""

def specConforming (flash old : List Msg) (o : ObsConforming) (scriptKeys : List Bytes := []) : Option String :=
  let expected := flash ++ old
  if expected = [] then
    if o.issued.isSome then some "no-messages-no-cookie"
    else if o.seen2 ≠ "-" ∨ o.seen3 ≠ "-" then some "no-cookie-none"
    else if o.keyed2 ≠ expectedKeyed scriptKeys [] ∨ o.keyed3 ≠ expectedKeyed scriptKeys [] then some "keyed-readers"
    else none
  else
    match o.issued with
    | none => some "issued"
    | some v =>
      -- what is issued must decode to exactly the expected messages, whatever the transport does to it
      if (parse v).map renderSeen ≠ some (renderSeen expected) then some "encode-faithful"
      else if !wireSafe v then some "wire-safe"
      else if o.c2 ≠ some v then some "client-returns-value"
      else if o.seen2 ≠ renderSeen expected then some "delivered"
      else if o.keyed2 ≠ expectedKeyed scriptKeys expected then some "keyed-readers"
      else if o.c3.isSome then some "expired"
      else if o.seen3 ≠ "-" then some "once"
      else if o.keyed3 ≠ expectedKeyed scriptKeys [] then some "keyed-readers"
      else none

/-- verbatim-copying client -/
structure ObsTransparent where
  issued : Option Bytes
  st2 : Nat
  seen2 : String
  exp2 : Bool
  st3 : Nat
  seen3 : String
  keyed2 : String := ""
  keyed3 : String := ""

def specTransparent (flash old : List Msg) (o : ObsTransparent) (scriptKeys : List Bytes := []) : Option String :=
  let expected := flash ++ old
  if expected = [] then
    if o.issued.isSome then some "no-messages-no-cookie"
    else if o.seen2 ≠ "-" ∨ o.seen3 ≠ "-" ∨ o.exp2 then some "no-cookie-none"
    else if o.keyed2 ≠ expectedKeyed scriptKeys [] ∨ o.keyed3 ≠ expectedKeyed scriptKeys [] then some "keyed-readers"
    else none
  else
    match o.issued with
    | none => some "issued"
    | some v =>
      if (parse v).map renderSeen ≠ some (renderSeen expected) then some "encode-faithful"
      else if !transparentSafe v then some "wire-safe"
      else if o.st2 ≠ 200 ∨ o.seen2 ≠ renderSeen expected then some "delivered"
      else if o.keyed2 ≠ expectedKeyed scriptKeys expected then some "keyed-readers"
      else if !o.exp2 then some "expired"
      else if o.st3 ≠ 200 ∨ o.seen3 ≠ "-" then some "once"
      else if o.keyed3 ≠ expectedKeyed scriptKeys [] then some "keyed-readers"
      else none

/-- what the relaying handler must attach, given the messages it must have received (spec side,
    written directly on messages) -/
def relayExpected (mode : RelayMode) (flash : List Msg) : List Msg :=
  match mode with
  | .same => flash
  | .rev => flash.reverse
  | .chg => match flash with
    | [] => []
    | m :: r => { m with value := m.value ++ [33] } :: r

/-- re-flash exchange with a verbatim-copying client: /go issues, /relay consumes and redirects
    again with the messages it received, /show twice -/
structure ObsRelay where
  issued : Option Bytes
  st2 : Nat
  seen2 : String
  keyed2 : String
  issued2 : Option Bytes
  exp2 : Bool
  st3 : Nat
  seen3 : String
  keyed3 : String
  exp3 : Bool
  st4 : Nat
  seen4 : String
  keyed4 : String

def specRelay (flash : List Msg) (mode : RelayMode) (o : ObsRelay) (scriptKeys : List Bytes := []) : Option String :=
  if flash = [] then
    if o.issued.isSome ∨ o.issued2.isSome then some "no-messages-no-cookie"
    else if o.seen2 ≠ "-" ∨ o.seen3 ≠ "-" ∨ o.seen4 ≠ "-" ∨ o.exp2 ∨ o.exp3 then some "no-cookie-none"
    else none
  else
    match o.issued with
    | none => some "issued"
    | some v =>
      if (parse v).map renderSeen ≠ some (renderSeen flash) then some "encode-faithful"
      else if !transparentSafe v then some "wire-safe"
      else if o.st2 ≠ 302 ∨ o.seen2 ≠ renderSeen flash then some "delivered"
      else if o.keyed2 ≠ expectedKeyed scriptKeys flash then some "keyed-readers"
      else
        -- second hop: the consuming request attached messages itself, so its response must carry
        -- them (not just the expiry of the cookie it consumed)
        let again := relayExpected mode flash
        match o.issued2 with
        | none => some "reissued"
        | some v2 =>
          if (parse v2).map renderSeen ≠ some (renderSeen again) then some "reissued-faithful"
          else if !transparentSafe v2 then none      -- the new value cannot cross the wire: K1 territory, nothing more to check
          else if o.st3 ≠ 200 ∨ o.seen3 ≠ renderSeen again then some "delivered"
          else if o.keyed3 ≠ expectedKeyed scriptKeys again then some "keyed-readers"
          else if !o.exp3 then some "expired"
          else if o.st4 ≠ 200 ∨ o.seen4 ≠ "-" then some "once"
          else if o.keyed4 ≠ expectedKeyed scriptKeys [] then some "keyed-readers"
          else none

/-- one request of an issuing history: did it complete the redirect, status, issued value -/
structure ObsIssue where
  completes : Bool
  status : Nat
  issued : Option Bytes

/-- History-free: whatever earlier requests of the same app attached (and never sent), the cookie a
    request issues decodes to exactly ITS OWN expected messages; a request that does not complete a
    redirect issues nothing. -/
def specIssue (flash old : List Msg) (o : ObsIssue) : Option String :=
  let expected := flash ++ old
  if !o.completes then
    if o.issued.isSome then some "no-redirect-no-cookie" else none
  else if o.status ≠ 302 then some "redirected"
  else if expected = [] then
    if o.issued.isSome then some "no-messages-no-cookie" else none
  else
    match o.issued with
    | none => some "issued"
    | some v => if (parse v).map renderSeen ≠ some (renderSeen expected) then some "encode-faithful" else none

/-- one request of a decode history -/
structure ObsStep where
  status : Nat
  seen : Option Bytes      -- what `c.Cookies("fiber_flash")` returned in the handler
  msgs : String
  exp : Bool
  alloc : Nat
  /-- keyed readers, asked for every key the list readers showed plus `absentKey` -/
  keyed : String := ""

def specStep (sent : Bytes) (o : ObsStep) : Option String :=
  if o.status ≠ 200 then
    -- the request never reached a handler (rejected by the HTTP parser): nothing was delivered
    if o.msgs ≠ "nohandler" then some "rejected-request-ran-handler" else none
  else
    match o.seen with
    | none => some "unparsable-observation"
    | some ck =>
      if o.msgs ≠ renderSeen (expectedSeen ck) then
        (if (parse ck).isNone then some "malformed-yields-none" else some "decode")
      else if o.keyed ≠ expectedKeyed [] (expectedSeen ck) then some "keyed-readers"
      else if o.exp ≠ (ck ≠ []) then some "expired"
      else if o.alloc > allocBudget sent.length then some "alloc-linear"
      else none

end C12
