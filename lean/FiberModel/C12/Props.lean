import FiberModel.C12.Cost
/-
C12 — property theorems (only). `s : Slice` is the reused `ctx.flashMessages` with ARBITRARY
leftover elements and capacity; `s.len = 0` is the state in which every request finds it
(`release` re-slices to `[:0]`, a fresh context has a nil slice).
-/
namespace C12
open B

/-- The decoder of the model is the stateless reference decoder: whatever the pooled slice held
    before, the handler sees exactly `parse cookie` (and nothing when the cookie is malformed). -/
theorem parseAndClear_refines_spec (s : Slice) (cookie : Bytes) (hs : s.len = 0) :
    (parseAndClear s cookie).messages = expectedSeen cookie := by
  unfold parseAndClear ParseResult.messages expectedSeen parse
  by_cases hc : cookie = []
  · subst hc; simp [Slice.visible, hs, readArrayHeader]
  · simp only [hc, if_false]
    cases hh : readArrayHeader cookie with
    | none => simp [Slice.visible, Slice.wipe]
    | some p =>
      obtain ⟨n, body⟩ := p
      simp only
      by_cases hn : n > body.length
      · simp only [hn, if_true]
        have : parseMsgs n body = none := by
          cases hp : parseMsgs n body with
          | none => rfl
          | some q =>
            obtain ⟨ms, r⟩ := q
            have := (parseMsgs_len n body r ms hp).2
            omega
        simp [this, Slice.visible, Slice.wipe]
      · simp only [hn, if_false]
        rw [unmarshalMsgs_wipe s cookie body n hh]
        cases hp : parseMsgs n body with
        | none => simp [Slice.visible]
        | some q =>
          obtain ⟨ms, r⟩ := q
          have hlen := (parseMsgs_len n body r ms hp).1
          cases r with
          | nil => simp [Slice.visible, ← hlen]
          | cons x xs => simp [Slice.visible]

/-- `decode_independent_of_leftovers`: two contexts with different histories show the same
    messages for the same cookie. -/
theorem decode_independent_of_leftovers (s s' : Slice) (cookie : Bytes) (hs : s.len = 0) (hs' : s'.len = 0) :
    (parseAndClear s cookie).messages = (parseAndClear s' cookie).messages := by
  rw [parseAndClear_refines_spec s cookie hs, parseAndClear_refines_spec s' cookie hs']

example : (parseAndClear ⟨[⟨b "secret", b "previous user", 3, false⟩], 0⟩ [145, 128]).messages = [Msg.zero] := by decide

/-- `malformed_yields_none`: a cookie that is not a complete well-formed encoding yields no messages
    (no partial results, no leftovers). -/
theorem malformed_yields_none (s : Slice) (cookie : Bytes) (hs : s.len = 0) (h : parse cookie = none) :
    (parseAndClear s cookie).messages = [] := by
  rw [parseAndClear_refines_spec s cookie hs]; simp [expectedSeen, h]

-- two messages announced, the second one cut short: nothing is delivered
example : parse ([146] ++ encodeMsg ⟨b "k", b "v", 65, false⟩ ++ [132, 163]) = none := by decide

/-- `decode_encode` (reference decoder): the canonical encoding of any message list decodes to
    exactly that list. -/
theorem parse_encode (ms : List Msg) (hv : ∀ m ∈ ms, m.valid) (hn : ms.length < 4294967296) :
    parse (encode ms) = some ms := by
  unfold parse encode
  rw [readArrayHeader_append _ _ hn]
  have := parseMsgs_encodeMsgs ms [] hv
  simp only [List.append_nil] at this
  simp [this]

/-- `decode_encode`: for every leftover state of the pooled slice, decoding what
    `processFlashMessages` encoded gives back the messages, all keys / values / levels. -/
theorem decode_encode (s : Slice) (ms : List Msg) (hs : s.len = 0)
    (hv : ∀ m ∈ ms, m.valid) (hn : ms.length < 4294967296) :
    (parseAndClear s (encode ms)).messages = ms := by
  rw [parseAndClear_refines_spec s _ hs]; simp [expectedSeen, parse_encode ms hv hn]

example : (parseAndClear ⟨[⟨b "x", b "y", 1, true⟩, Msg.zero], 0⟩
    (encode [⟨b "success", [0, 13, 10, 59, 255], 0, false⟩, ⟨b "name", b "tom", 0, true⟩])).messages =
    [⟨b "success", [0, 13, 10, 59, 255], 0, false⟩, ⟨b "name", b "tom", 0, true⟩] := by decide

/-- `decode_alloc_linear`: the element array allocated while decoding is at most `msgSize` (40)
    bytes per byte of cookie — in particular the 5-byte cookie `dd ff ff ff ff` allocates nothing. -/
theorem decode_alloc_linear (s : Slice) (cookie : Bytes) :
    (parseAndClear s cookie).alloc ≤ msgSize * cookie.length := by
  unfold parseAndClear
  by_cases hc : cookie = []
  · simp [hc]
  · simp only [hc, if_false]
    cases hh : readArrayHeader cookie with
    | none => simp
    | some p =>
      obtain ⟨n, body⟩ := p
      simp only
      by_cases hn : n > body.length
      · simp [hn]
      · simp only [hn, if_false]
        have hb := readArrayHeader_len hh
        have ha := slotsFor_alloc s.wipe n
        have hmul : n * msgSize ≤ msgSize * cookie.length := by
          rw [Nat.mul_comm]; exact Nat.mul_le_mul_left _ (by omega)
        rw [unmarshalMsgs_wipe s cookie body n hh]
        cases hp : parseMsgs n body with
        | none => simp only; omega
        | some q =>
          obtain ⟨ms, r⟩ := q
          cases r with
          | nil => simp only; omega
          | cons x xs => simp only; omega

example : (parseAndClear Slice.empty [221, 255, 255, 255, 255]).alloc = 0 := by decide

/-- `decode_copy_linear`: the bytes copied into fresh strings while decoding (every `key` / `value`
    field read, repeated fields and the reads before a decode error included) add up to at most the
    length of the cookie: each copy is a sub-slice of the cookie and the sub-slices are disjoint. -/
theorem decode_copy_linear (cookie : Bytes) : copiedBytes cookie ≤ cookie.length := by
  unfold copiedBytes
  split
  · exact Nat.zero_le _
  · cases hh : readArrayHeader cookie with
    | none => exact Nat.zero_le _
    | some p =>
      obtain ⟨n, body⟩ := p
      simp only
      split
      · exact Nat.zero_le _
      · have := slotsCopied_le n body
        have := readArrayHeader_len hh
        omega

-- two messages, the second with a repeated `value` field that is cut short: 1 + 2 + 1 bytes were copied
example : copiedBytes ([146] ++ encodeMsg ⟨b "k", b "vv", 65, false⟩ ++ [131, 163] ++ kKey ++ [161, 120, 165] ++ kValue ++ [162, 121]) = 4 := by decide
example : copiedBytes (encode [⟨b "success", b "saved", 0, false⟩, ⟨b "name", b "tom", 0, true⟩]) = 19 := by decide

/-- the cost function walks the cookie exactly as the decoder does: for every state of the slots
    decoded into it succeeds / fails where `UnmarshalMsg` does and leaves the same rest -/
theorem copied_follows_decoder (slots : List Msg) (bs : Bytes) :
    (slotsCopied slots.length bs).2 = (unmarshalSlots slots bs).map (·.2) :=
  slotsCopied_rest slots bs

/-- `decode_memory_linear`: element array plus string copies — all the memory the decoder allocates
    for a cookie — is at most 41 bytes per byte of cookie, for every state of the pooled slice. -/
theorem decode_memory_linear (s : Slice) (cookie : Bytes) :
    (parseAndClear s cookie).alloc + copiedBytes cookie ≤ (msgSize + 1) * cookie.length := by
  have h1 := decode_alloc_linear s cookie
  have h2 := decode_copy_linear cookie
  rw [Nat.add_mul, Nat.one_mul]
  omega

example : (parseAndClear Slice.empty [220, 255, 255]).alloc + copiedBytes [220, 255, 255] = 0 := by decide

/-- `decode_reads_linear`: the decoder makes at most `len(cookie) + 2` calls of msgp primitives
    (`ReadArrayHeaderBytes` twice, `ReadMapHeaderBytes`, `ReadMapKeyZC`, `ReadStringBytes`,
    `ReadUint8Bytes`, `ReadBoolBytes`, one `getSize` per object `Skip` visits): every successful call
    consumes at least one byte of the cookie and a failing call is the last one. Each call does
    constant work plus work proportional to the bytes it consumes, so the decoding loop is linear in
    the cookie; what is NOT covered is `clear(old)`, proportional to the retained capacity
    (`cap_bounded`: at most the longest cookie this context has seen). -/
theorem decode_reads_linear (cookie : Bytes) : decodeReads cookie ≤ cookie.length + 2 := by
  unfold decodeReads
  split
  · exact Nat.zero_le _
  · cases hh : readArrayHeader cookie with
    | none => simp only; omega
    | some p =>
      obtain ⟨n, body⟩ := p
      have hb := readArrayHeader_len hh
      simp only
      split
      · omega
      · have := slotsReads_le n body
        have := slack_le_one (slotsReads n body).2
        omega

-- a map that announces 2^32-1 entries and nested arrays as an unknown field's value
example : decodeReads [145, 223, 255, 255, 255, 255, 161, 120, 147, 145, 144, 144, 192] = 10 := by decide

/-- the call counter walks the cookie exactly as the decoder does -/
theorem reads_follow_decoder (slots : List Msg) (bs : Bytes) :
    (slotsReads slots.length bs).2 = (unmarshalSlots slots bs).map (·.2) :=
  slotsReads_rest slots bs

/-- the capacity retained in the pooled context never exceeds the largest cookie seen -/
theorem cap_bounded (s : Slice) (cookie : Bytes) :
    (parseAndClear s cookie).slice.cap ≤ max s.cap cookie.length := by
  unfold parseAndClear
  by_cases hc : cookie = []
  · simp [hc]
  · simp only [hc, if_false]
    cases hh : readArrayHeader cookie with
    | none => simp [Slice.wipe, Slice.cap]; omega
    | some p =>
      obtain ⟨n, body⟩ := p
      simp only
      by_cases hn : n > body.length
      · simp [hn, Slice.wipe, Slice.cap]; omega
      · simp only [hn, if_false]
        have hb := readArrayHeader_len hh
        have ht := slotsFor_total s.wipe n
        have hw : s.wipe.cap = s.cap := by simp [Slice.wipe, Slice.cap]
        rw [slotsFor_wipe, hw] at ht
        rw [unmarshalMsgs_wipe s cookie body n hh]
        generalize (slotsFor s.wipe n).2.1 = tail at ht ⊢
        have ht2 := ht.2
        simp only [List.length_replicate] at ht2
        cases hp : parseMsgs n body with
        | none =>
          show (List.replicate (List.replicate n Msg.zero ++ tail).length Msg.zero).length ≤ _
          simp only [List.length_replicate, List.length_append]; omega
        | some q =>
          obtain ⟨ms, r⟩ := q
          have hlen := (parseMsgs_len n body r ms hp).1
          cases r with
          | nil =>
            show (ms ++ tail).length ≤ _
            simp only [List.length_append]; omega
          | cons x xs =>
            show (List.replicate (ms ++ tail).length Msg.zero).length ≤ _
            simp only [List.length_replicate, List.length_append]; omega

/-! ### The wire -/

/-- The first byte of every issued cookie value is a msgpack array header (≥ 0x90), which is not a
    cookie-octet: **no** non-empty message set is wire safe. This is known finding K1; the
    full-strength statement `wire_safe : ∀ ms, ms ≠ [] → wireSafe (encode ms)` is false. -/
theorem wire_safe_fails_everywhere (ms : List Msg) : wireSafe (encode ms) = false := by
  have key : ∀ (x : Nat) (t : Bytes), x ≥ 127 → wireSafe (x :: t) = false := by
    intro x t hx
    have : cookieOctet x = false := by simp [cookieOctet]; omega
    simp [wireSafe, this]
  unfold encode appendArrayHeader
  split
  · exact key _ _ (by omega)
  · split
    · exact key 220 _ (by omega)
    · exact key 221 _ (by omega)

theorem wire_safe_witness_K1 :
    ¬ (∀ ms : List Msg, ms ≠ [] → wireSafe (encode ms) = true) := by
  intro h
  have := h [⟨b "k", b "v", 65, false⟩] (by simp)
  rw [wire_safe_fails_everywhere] at this
  exact Bool.noConfusion this

/-- so the K1 region for a conforming client is exactly "a cookie is issued" -/
theorem K1_conforming_iff (ms : List Msg) : Known.K1 false ms = true ↔ ms ≠ [] := by
  simp [Known.K1, wire_safe_fails_everywhere]

/-- `wire_safe_partial`: outside K1 (nothing attached to the redirect) no cookie is issued, and a
    request without cookie sees no messages. -/
theorem wire_safe_partial (pool : Slice) (ms : List Msg) (hp : pool.len = 0) (hk : Known.K1 false ms = false) :
    issue ms = none ∧ (serve pool [] []).1 = [] := by
  have : ms = [] := by
    by_cases h : ms = []
    · exact h
    · exact absurd ((K1_conforming_iff ms).2 h) (by simp [hk])
  subst this
  simp [issue, serve, parseAndClear, ParseResult.messages, Slice.visible, hp]

theorem expire_of_nonempty (s : Slice) (c : Bytes) (h : c ≠ []) : (parseAndClear s c).expire = true := by
  unfold parseAndClear
  simp only [h, if_false]
  split
  · rfl
  · split
    · rfl
    · split <;> rfl

/-- transparentSafe values contain no CR/LF, so `Cookie`'s sanitiser leaves them alone -/
theorem sanitize_of_transparentSafe (v : Bytes) (h : transparentSafe v = true) : sanitize v = v := by
  unfold transparentSafe at h
  simp only [Bool.and_eq_true, List.all_eq_true] at h
  obtain ⟨⟨⟨⟨⟨hall, _⟩, _⟩, _⟩, _⟩, _⟩ := h
  unfold sanitize
  have : ∀ c ∈ v, (if c = 13 ∨ c = 10 then 32 else c) = c := by
    intro c hc
    have := hall c hc
    simp [validHeaderValueByte] at this
    split
    · omega
    · rfl
  exact (List.map_congr_left this).trans (List.map_id' v)

/-- `delivered_once` (for a client that returns the value byte-identically — the hypothesis K1 takes
    away from conforming clients): the request carrying the issued cookie sees exactly the attached
    messages and its response expires the cookie; the client's next request carries no cookie and
    sees none. Holds for every state of the pooled slices involved. -/
theorem delivered_once (pool : Slice) (ms : List Msg) (hp : pool.len = 0)
    (hne : ms ≠ []) (hv : ∀ m ∈ ms, m.valid) (hn : ms.length < 4294967296)
    (hk : Known.K1 true ms = false) :
    let v := encode ms
    issueOnWire ms = some v ∧
    let r2 := serve pool v []
    r2.1 = ms ∧ r2.2.2 = some none ∧
    let jar := Jar.apply (fun _ => true) (some v) r2.2.2
    jar = none ∧ (serve r2.2.1 (jar.getD []) []).1 = [] ∧ (serve r2.2.1 (jar.getD []) []).2.2 = none := by
  have hts : transparentSafe (encode ms) = true := by
    simp [Known.K1, hne] at hk; exact hk
  have hne' : encode ms ≠ [] := by
    intro h; rw [h] at hts; simp [transparentSafe] at hts
  refine ⟨?_, ?_⟩
  · simp [issueOnWire, issue, hne, sanitize_of_transparentSafe _ hts]
  · have h1 : (serve pool (encode ms) []).1 = ms := by
      simp only [serve]; exact decode_encode pool ms hp hv hn
    have h2 : (serve pool (encode ms) []).2.2 = some none := by
      simp [serve, issue, expire_of_nonempty pool _ hne']
    refine ⟨h1, h2, ?_⟩
    dsimp only
    rw [h2]
    refine ⟨rfl, ?_, ?_⟩
    · simp [Jar.apply, serve, parseAndClear, ParseResult.messages, Slice.visible, Slice.release]
    · simp [Jar.apply, serve, parseAndClear, issue]

example : Known.K1 true [⟨b "success", b "saved", 65, false⟩] = false := by decide

/-- requests without the cookie see none, whatever the pooled context held -/
theorem no_cookie_no_messages (pool : Slice) (hp : pool.len = 0) :
    (serve pool [] []).1 = [] ∧ (serve pool [] []).2.2 = none := by
  simp [serve, parseAndClear, ParseResult.messages, Slice.visible, hp, issue]

/-- a redirect issued by the request that consumed the messages replaces the expiry with its own
    cookie (one Set-Cookie entry per name in fasthttp) -/
theorem reissue_overrides_expiry (pool : Slice) (carried : Bytes) (ms : List Msg) (hne : ms ≠ []) :
    (serve pool carried ms).2.2 = some (some (encode ms)) := by
  simp [serve, issue, hne]

/-! ### The issuing side: chains of `With` / `WithInput()` calls

`ops` is ANY interleaving of `With(key, value, level)` and `WithInput()` calls (any number of either,
any keys — a flash key may equal an input name), every `WithInput()` call with its own iteration
order of the bound map. `runOps` is the function the driver runs (`Driver/C12.lean modelMsgs`). -/

/-- The `With` overwrite rule. What `Messages()` filters out of the attached messages is exactly
    `expectedFlash`: one message per distinct key, in order of first use, with the value and level
    of the LAST call with that key — wherever `WithInput()` was called and whatever it attached. -/
theorem with_overwrite_rule (ops : List Op) :
    (runOps ops).filter (!·.old) = expectedFlash (callsOf ops) := by
  have := flashPart_foldl ops []
  simp only [flashPart, List.filter_nil] at this
  unfold runOps
  rw [this]
  exact runCalls_eq_expectedFlash (callsOf ops)

example : (runOps [.flash (b "name") (b "1") 1, .input [(b "name", b "tom")], .flash (b "x") [] 0,
    .flash (b "name") (b "2") 7]).filter (!·.old) = [⟨b "name", b "2", 7, false⟩, ⟨b "x", [], 0, false⟩] := by decide

/-- What `OldInputs()` filters out: every `WithInput()` call appended one message per pair of the
    map, in the order of that call; no `With` call touches them (not even one with the same key). -/
theorem withInput_appends (ops : List Op) :
    (runOps ops).filter (·.old) = (inputsOf ops).flatMap expectedOld := by
  have := oldPart_foldl ops []
  simp only [oldPart, List.filter_nil, List.nil_append] at this
  unfold runOps
  exact this

/-- `script_meets_spec`: for every script — any interleaving, any keys (colliding or not), any
    number of `WithInput()` calls, each ranging over the input map in any order — the attached
    messages are, through the `Messages()` filter, exactly `expectedFlash` of the `With` calls and,
    through the `OldInputs()` filter, a rearrangement of `expectedOld inputs` once per `WithInput()`
    call. -/
theorem script_meets_spec (ops : List Op) (inputs : List (Bytes × Bytes))
    (hperm : ∀ o ∈ inputsOf ops, o.Perm inputs) :
    (runOps ops).filter (!·.old) = expectedFlash (callsOf ops) ∧
    ((runOps ops).filter (·.old)).Perm (expectedOldN (inputsOf ops).length inputs) := by
  refine ⟨with_overwrite_rule ops, ?_⟩
  rw [withInput_appends]
  exact flatMap_expectedOld_perm inputs _ hperm

-- WithInput() first, a With on the input's name, a second WithInput() in the other map order
example : (runOps [.input [(b "id", b "1"), (b "q", b "x")], .flash (b "id") (b "v") 3,
      .input [(b "q", b "x"), (b "id", b "1")]]).filter (·.old) =
    [⟨b "id", b "1", 0, true⟩, ⟨b "q", b "x", 0, true⟩, ⟨b "q", b "x", 0, true⟩, ⟨b "id", b "1", 0, true⟩] := by decide

/-- The same at the level of the public API: `Messages()` returns key/value/level of
    `expectedFlash`, `OldInputs()` returns the pairs of the input map (as often as `WithInput()` was
    called), in some order. -/
theorem script_api (ops : List Op) (inputs : List (Bytes × Bytes))
    (hperm : ∀ o ∈ inputsOf ops, o.Perm inputs) :
    messagesOf (runOps ops) = (expectedFlash (callsOf ops)).map (fun m => (m.key, m.value, m.level)) ∧
    (oldInputsOf (runOps ops)).Perm (List.replicate (inputsOf ops).length inputs).flatten := by
  obtain ⟨h1, h2⟩ := script_meets_spec ops inputs hperm
  refine ⟨by simp [messagesOf, h1], ?_⟩
  have h3 := h2.map (fun m : Msg => (m.key, m.value))
  have h4 : (expectedOldN (inputsOf ops).length inputs).map (fun m : Msg => (m.key, m.value))
      = (List.replicate (inputsOf ops).length inputs).flatten := by
    generalize (inputsOf ops).length = k
    induction k with
    | zero => simp [expectedOldN]
    | succ k ih =>
      simp only [expectedOldN, List.replicate_succ, List.flatten_cons, List.map_append] at ih ⊢
      rw [ih]
      congr 1
      simp only [expectedOld, List.map_map]
      exact (List.map_congr_left (fun kv _ => rfl)).trans (List.map_id' inputs)
  rw [h4] at h3
  exact h3

/-- `script_render`: in the canonical rendering the harness, the driver and the spec oracle share
    (flash messages in order, old inputs sorted), what a chain attaches IS what the specification
    expects — the string the oracle compares the implementation's observation with. -/
theorem script_render (ops : List Op) (inputs : List (Bytes × Bytes))
    (hperm : ∀ o ∈ inputsOf ops, o.Perm inputs) :
    renderSeen (runOps ops) =
      renderSeen (expectedFlash (callsOf ops) ++ expectedOldN (inputsOf ops).length inputs) := by
  obtain ⟨h1, h2⟩ := script_meets_spec ops inputs hperm
  have f1 : (expectedFlash (callsOf ops)).filter (!·.old) = expectedFlash (callsOf ops) :=
    List.filter_eq_self.2 (fun m hm => by simp [expectedFlash_not_old _ m hm])
  have f2 : (expectedFlash (callsOf ops)).filter (·.old) = [] :=
    List.filter_eq_nil_iff.2 (fun m hm => by simp [expectedFlash_not_old _ m hm])
  have o1 : (expectedOldN (inputsOf ops).length inputs).filter (!·.old) = [] :=
    List.filter_eq_nil_iff.2 (fun m hm => by simp [expectedOldN_old _ _ m hm])
  have o2 : (expectedOldN (inputsOf ops).length inputs).filter (·.old) = expectedOldN (inputsOf ops).length inputs :=
    List.filter_eq_self.2 (fun m hm => expectedOldN_old _ _ m hm)
  apply renderSeen_congr
  · rw [h1, List.filter_append, f1, o1, List.append_nil]
  · rw [List.filter_append, f2, o2, List.nil_append]; exact h2

/-- The driver's script builder (`interleave`) emits exactly the `With` calls of the case line, in
    order, and one `WithInput()` per listed position with the given map order: the spec oracle's
    `expectedFlash s.calls` / `expectedOldN k s.inputs` are the right-hand sides of
    `script_meets_spec` for the chain the model ran. -/
theorem interleave_faithful (calls : List (Bytes × Bytes × Nat)) (pos : List Nat)
    (orders : List (List (Bytes × Bytes))) (hlen : orders.length = pos.length) :
    callsOf (interleave calls pos orders) = calls ∧ inputsOf (interleave calls pos orders) = orders :=
  ⟨callsOf_interleave calls pos orders 0, inputsOf_interleave calls pos orders 0 hlen⟩

/-- `script_delivered`: issuing side and decoding side composed. Whatever the pooled slice of the
    next request held, its handler reads through `Messages()` exactly `expectedFlash` of the `With`
    calls and through `OldInputs()` the input pairs (once per `WithInput()` call), for every chain of
    builder calls whose strings fit msgpack's 32-bit lengths. -/
theorem script_delivered (pool : Slice) (ops : List Op) (inputs : List (Bytes × Bytes)) (hp : pool.len = 0)
    (hperm : ∀ o ∈ inputsOf ops, o.Perm inputs) (hvalid : ∀ op ∈ ops, op.valid)
    (hn : (runOps ops).length < 4294967296) :
    let seen := (parseAndClear pool (encode (runOps ops))).messages
    messagesOf seen = (expectedFlash (callsOf ops)).map (fun m => (m.key, m.value, m.level)) ∧
    (oldInputsOf seen).Perm (List.replicate (inputsOf ops).length inputs).flatten := by
  have hv : ∀ m ∈ runOps ops, m.valid := foldl_apply_valid ops [] (by simp) hvalid
  simp only [decode_encode pool (runOps ops) hp hv hn]
  exact script_api ops inputs hperm

example : messagesOf (parseAndClear ⟨[⟨b "x", b "y", 1, true⟩], 0⟩ (encode (runOps
      [.flash (b "a") (b "1") 1, .input [(b "a", b "in")], .flash (b "a") (b "2") 2]))).messages = [(b "a", b "2", 2)] := by decide

/-! ### Keyed readers `Message(key)` / `OldInput(key)` -/

/-- `Message(k)` is the first entry of `Messages()` with key `k` (zero value if none), whatever else
    the slice holds — in particular an old input with the same key in front of it. -/
theorem message_agrees_with_list (ms : List Msg) (k : Bytes) :
    messageOf ms k = ((messagesOf ms).find? (·.1 = k)).getD ([], [], 0) := by
  unfold messageOf messagesOf
  rw [List.find?_map, find?_filter_and]
  show _ = (Option.map _ (ms.find? (fun m => decide (m.key = k) && !m.old))).getD _
  cases ms.find? (fun m => decide (m.key = k) && !m.old) <;> rfl

/-- `OldInput(k)` is the first entry of `OldInputs()` with key `k` (zero value if none). -/
theorem oldInput_agrees_with_list (ms : List Msg) (k : Bytes) :
    oldInputOf ms k = ((oldInputsOf ms).find? (·.1 = k)).getD ([], []) := by
  unfold oldInputOf oldInputsOf
  rw [List.find?_map, find?_filter_and]
  show _ = (Option.map _ (ms.find? (fun m => decide (m.key = k) && m.old))).getD _
  cases ms.find? (fun m => decide (m.key = k) && m.old) <;> rfl

-- an old input and a flash message under the same key, in both orders: neither hides the other
example : messageOf [⟨b "email", b "tom@x", 0, true⟩, ⟨b "email", b "invalid", 2, false⟩] (b "email") = (b "email", b "invalid", 2)
    ∧ oldInputOf [⟨b "email", b "invalid", 2, false⟩, ⟨b "email", b "tom@x", 0, true⟩] (b "email") = (b "email", b "tom@x") := by decide

/-- the model's keyed readers are the specification's (which is phrased through the list readers) -/
theorem keyed_meet_spec (ms : List Msg) (k : Bytes) :
    messageOf ms k = specMessage ms k ∧ oldInputOf ms k = specOldInput ms k := by
  constructor
  · unfold messageOf specMessage
    rw [find?_filter_and]; rfl
  · unfold oldInputOf specOldInput
    rw [find?_filter_and]; rfl

/-- `keyed_after_decode`: for every state of the pooled slice and every byte string as cookie, both
    keyed readers answer from the messages of the stateless reference decoder, exactly as the
    specification says (never from leftovers, never hidden by an entry of the other kind). -/
theorem keyed_after_decode (s : Slice) (cookie k : Bytes) (hs : s.len = 0) :
    messageOf (parseAndClear s cookie).messages k = specMessage (expectedSeen cookie) k ∧
    oldInputOf (parseAndClear s cookie).messages k = specOldInput (expectedSeen cookie) k := by
  rw [parseAndClear_refines_spec s cookie hs]
  exact keyed_meet_spec _ k

example : oldInputOf (parseAndClear ⟨[⟨b "email", b "stale", 1, true⟩], 0⟩
    (encode [⟨b "email", b "invalid", 65, false⟩, ⟨b "email", b "tom", 65, true⟩])).messages (b "email") = (b "email", b "tom") := by decide

/-- `script_keyed`: for every chain of builder calls (any interleaving, colliding keys, repeated
    `WithInput()`, any map order per call; the bound map has one value per key): `Message(k)` on the
    attached messages is the message `expectedFlash` holds for `k`, `OldInput(k)` is the old input
    for `k` (the same value in every copy) — the values the spec oracle expects. -/
theorem script_keyed (ops : List Op) (inputs : List (Bytes × Bytes))
    (hperm : ∀ o ∈ inputsOf ops, o.Perm inputs) (hf : Functional inputs) (k : Bytes) :
    messageOf (runOps ops) k =
      specMessage (expectedFlash (callsOf ops) ++ expectedOldN (inputsOf ops).length inputs) k ∧
    oldInputOf (runOps ops) k =
      specOldInput (expectedFlash (callsOf ops) ++ expectedOldN (inputsOf ops).length inputs) k := by
  have f1 : (expectedFlash (callsOf ops)).filter (!·.old) = expectedFlash (callsOf ops) :=
    List.filter_eq_self.2 (fun m hm => by simp [expectedFlash_not_old _ m hm])
  have f2 : (expectedFlash (callsOf ops)).filter (·.old) = [] :=
    List.filter_eq_nil_iff.2 (fun m hm => by simp [expectedFlash_not_old _ m hm])
  have o1 : (expectedOldN (inputsOf ops).length inputs).filter (!·.old) = [] :=
    List.filter_eq_nil_iff.2 (fun m hm => by simp [expectedOldN_old _ _ m hm])
  have o2 : (expectedOldN (inputsOf ops).length inputs).filter (·.old) = expectedOldN (inputsOf ops).length inputs :=
    List.filter_eq_self.2 (fun m hm => expectedOldN_old _ _ m hm)
  obtain ⟨h1, h2⟩ := keyed_meet_spec (runOps ops) k
  constructor
  · rw [h1]
    unfold specMessage
    rw [with_overwrite_rule, List.filter_append, f1, o1, List.append_nil]
  · rw [h2]
    unfold specOldInput
    rw [withInput_appends, List.filter_append, f2, o2, List.nil_append, expectedOldN_eq_flatMap,
      find?_flatMap_expectedOld inputs hf k _ hperm,
      find?_flatMap_expectedOld inputs hf k _ (fun o ho => by rw [(List.mem_replicate.1 ho).2])]
    by_cases hL : inputsOf ops = []
    · simp [hL]
    · have : List.replicate (inputsOf ops).length inputs ≠ [] := by
        intro h
        have := congrArg List.length h
        simp only [List.length_replicate, List.length_nil] at this
        exact hL (List.eq_nil_of_length_eq_zero this)
      simp [hL, this]

-- With("email") then WithInput() with a field `email`, and the other way round
example : oldInputOf (runOps [.flash (b "email") (b "invalid") 2, .input [(b "email", b "tom")]]) (b "email") = (b "email", b "tom")
    ∧ messageOf (runOps [.input [(b "email", b "tom")], .flash (b "email") (b "invalid") 2]) (b "email") = (b "email", b "invalid", 2) := by decide

/-- `script_keyed_delivered`: composed with the decoder, for every pool state of the next request. -/
theorem script_keyed_delivered (pool : Slice) (ops : List Op) (inputs : List (Bytes × Bytes)) (hp : pool.len = 0)
    (hperm : ∀ o ∈ inputsOf ops, o.Perm inputs) (hf : Functional inputs) (hvalid : ∀ op ∈ ops, op.valid)
    (hn : (runOps ops).length < 4294967296) (k : Bytes) :
    let seen := (parseAndClear pool (encode (runOps ops))).messages
    let expected := expectedFlash (callsOf ops) ++ expectedOldN (inputsOf ops).length inputs
    messageOf seen k = specMessage expected k ∧ oldInputOf seen k = specOldInput expected k := by
  have hv : ∀ m ∈ runOps ops, m.valid := foldl_apply_valid ops [] (by simp) hvalid
  simp only [decode_encode pool (runOps ops) hp hv hn]
  exact script_keyed ops inputs hperm hf k

/-! ### Re-flash: the consuming request redirects again -/

/-- `reflash_reissued`: a request that carries the flash cookie, reads the messages and redirects
    again with messages of its own — in particular with exactly the ones it received, whose encoding
    is byte-identical to the cookie it consumed — sees the carried messages AND answers with the new
    cookie, not with the bare expiry of the consumed one; for every pool state and every way of
    re-attaching. (What the next request then sees is `decode_encode` / `delivered_once` again.) -/
theorem reflash_reissued (pool : Slice) (ms : List Msg) (mode : RelayMode) (hp : pool.len = 0)
    (hv : ∀ m ∈ ms, m.valid) (hn : ms.length < 4294967296)
    (hne : runOps (relayOps mode ms) ≠ []) :
    (serveRelay pool (encode ms) mode).1 = ms ∧
    (serveRelay pool (encode ms) mode).2.2 = some (some (encode (runOps (relayOps mode ms)))) := by
  have hd := decode_encode pool ms hp hv hn
  unfold serveRelay
  rw [hd]
  exact ⟨by simp only [serve]; exact hd, reissue_overrides_expiry pool _ _ hne⟩

-- re-attaching what was received, in order, gives the very bytes of the consumed cookie — and they are issued again
example : (serveRelay ⟨[⟨b "x", b "y", 1, true⟩], 0⟩ (encode [⟨b "ok", b "saved", 65, false⟩, ⟨b "n", b "1", 66, false⟩]) .same).2.2 =
    some (some (encode [⟨b "ok", b "saved", 65, false⟩, ⟨b "n", b "1", 66, false⟩])) := by decide

/-! ### The pooled `Redirect` -/

/-- a chain of builder calls on a pooled `Redirect` only ever looks at / extends the visible messages -/
theorem pooled_run_visible (p : Pooled) (ops : List Op) :
    (p.run ops).visible = ops.foldl Op.apply p.visible := by
  unfold Pooled.run
  induction ops generalizing p with
  | nil => rfl
  | cons op r ih => simp only [List.foldl_cons]; rw [ih]; rfl

/-- whatever earlier requests did, `release` hands the `Redirect` back with no visible message -/
theorem pooled_after_visible (p : Pooled) (history : List (List Op)) (hp : p.visible = []) :
    (p.after history).visible = [] := by
  unfold Pooled.after
  induction history generalizing p with
  | nil => exact hp
  | cons ops r ih => simp only [List.foldl_cons]; exact ih _ rfl

/-- `script_meets_spec_pooled`: `script_meets_spec` for a `Redirect` drawn from the pool in ANY state
    the code can leave it in — after any history of earlier requests (any chains of `With` /
    `WithInput()` calls, redirect completed or not: `release()` re-slices `messages` to `[:0]` either
    way) and with any leftover elements in the backing array: the messages a request attaches are its
    own `runOps ops`, hence exactly `expectedFlash` of ITS `With` calls and `expectedOld` of ITS input. -/
theorem script_meets_spec_pooled (p : Pooled) (history : List (List Op)) (hp : p.visible = [])
    (ops : List Op) (inputs : List (Bytes × Bytes)) (hperm : ∀ o ∈ inputsOf ops, o.Perm inputs) :
    ((p.after history).run ops).visible = runOps ops ∧
    (((p.after history).run ops).visible).filter (!·.old) = expectedFlash (callsOf ops) ∧
    ((((p.after history).run ops).visible).filter (·.old)).Perm (expectedOldN (inputsOf ops).length inputs) := by
  have h : ((p.after history).run ops).visible = runOps ops := by
    rw [pooled_run_visible, pooled_after_visible p history hp]; rfl
  rw [h]
  exact ⟨rfl, script_meets_spec ops inputs hperm⟩

-- request 1 attached a password and never redirected; request 2's messages are its own
example : ((Pooled.after ⟨[], [⟨b "x", b "y", 1, false⟩]⟩
      [[.flash (b "secret") (b "s") 3, .input [(b "password", b "hunter2"), (b "email", b "a@b")]]]).run
      [.input [(b "text", b "hello")]]).visible = [⟨b "text", b "hello", 0, true⟩] := by decide

end C12
