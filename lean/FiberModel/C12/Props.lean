import FiberModel.C12.Lemmas
/-
C12 — property theorems (only). `s : Slice` is the reused `ctx.flashMessages` with ARBITRARY
leftover elements and capacity; `s.len = 0` is the state in which every request finds it
(`release` re-slices to `[:0]`, a fresh context has a nil slice).
-/
namespace C12
open B

/-- The decoder of the model is the stateless reference decoder: whatever the pooled slice held
    before, the handler sees exactly `parse cookie` (and nothing when the cookie is malformed). -/
theorem parseAndClear_refines_spec (s : Slice) (cookie : Bytes) (hs : s.len = 0) :
    (parseAndClear s cookie).messages = expectedSeen cookie := by
  unfold parseAndClear ParseResult.messages expectedSeen parse
  by_cases hc : cookie = []
  · subst hc; simp [Slice.visible, hs, readArrayHeader]
  · simp only [hc, if_false]
    cases hh : readArrayHeader cookie with
    | none => simp [Slice.visible, Slice.wipe]
    | some p =>
      obtain ⟨n, body⟩ := p
      simp only
      by_cases hn : n > body.length
      · simp only [hn, if_true]
        have : parseMsgs n body = none := by
          cases hp : parseMsgs n body with
          | none => rfl
          | some q =>
            obtain ⟨ms, r⟩ := q
            have := (parseMsgs_len n body r ms hp).2
            omega
        simp [this, Slice.visible, Slice.wipe]
      · simp only [hn, if_false]
        rw [unmarshalMsgs_wipe s cookie body n hh]
        cases hp : parseMsgs n body with
        | none => simp [Slice.visible]
        | some q =>
          obtain ⟨ms, r⟩ := q
          have hlen := (parseMsgs_len n body r ms hp).1
          cases r with
          | nil => simp [Slice.visible, ← hlen]
          | cons x xs => simp [Slice.visible]

/-- `decode_independent_of_leftovers`: two contexts with different histories show the same
    messages for the same cookie. -/
theorem decode_independent_of_leftovers (s s' : Slice) (cookie : Bytes) (hs : s.len = 0) (hs' : s'.len = 0) :
    (parseAndClear s cookie).messages = (parseAndClear s' cookie).messages := by
  rw [parseAndClear_refines_spec s cookie hs, parseAndClear_refines_spec s' cookie hs']

example : (parseAndClear ⟨[⟨b "secret", b "previous user", 3, false⟩], 0⟩ [145, 128]).messages = [Msg.zero] := by decide

/-- `malformed_yields_none`: a cookie that is not a complete well-formed encoding yields no messages
    (no partial results, no leftovers). -/
theorem malformed_yields_none (s : Slice) (cookie : Bytes) (hs : s.len = 0) (h : parse cookie = none) :
    (parseAndClear s cookie).messages = [] := by
  rw [parseAndClear_refines_spec s cookie hs]; simp [expectedSeen, h]

-- two messages announced, the second one cut short: nothing is delivered
example : parse ([146] ++ encodeMsg ⟨b "k", b "v", 65, false⟩ ++ [132, 163]) = none := by decide

/-- `decode_encode` (reference decoder): the canonical encoding of any message list decodes to
    exactly that list. -/
theorem parse_encode (ms : List Msg) (hv : ∀ m ∈ ms, m.valid) (hn : ms.length < 4294967296) :
    parse (encode ms) = some ms := by
  unfold parse encode
  rw [readArrayHeader_append _ _ hn]
  have := parseMsgs_encodeMsgs ms [] hv
  simp only [List.append_nil] at this
  simp [this]

/-- `decode_encode`: for every leftover state of the pooled slice, decoding what
    `processFlashMessages` encoded gives back the messages, all keys / values / levels. -/
theorem decode_encode (s : Slice) (ms : List Msg) (hs : s.len = 0)
    (hv : ∀ m ∈ ms, m.valid) (hn : ms.length < 4294967296) :
    (parseAndClear s (encode ms)).messages = ms := by
  rw [parseAndClear_refines_spec s _ hs]; simp [expectedSeen, parse_encode ms hv hn]

example : (parseAndClear ⟨[⟨b "x", b "y", 1, true⟩, Msg.zero], 0⟩
    (encode [⟨b "success", [0, 13, 10, 59, 255], 0, false⟩, ⟨b "name", b "tom", 0, true⟩])).messages =
    [⟨b "success", [0, 13, 10, 59, 255], 0, false⟩, ⟨b "name", b "tom", 0, true⟩] := by decide

/-- `decode_alloc_linear`: the element array allocated while decoding is at most `msgSize` (40)
    bytes per byte of cookie — in particular the 5-byte cookie `dd ff ff ff ff` allocates nothing. -/
theorem decode_alloc_linear (s : Slice) (cookie : Bytes) :
    (parseAndClear s cookie).alloc ≤ msgSize * cookie.length := by
  unfold parseAndClear
  by_cases hc : cookie = []
  · simp [hc]
  · simp only [hc, if_false]
    cases hh : readArrayHeader cookie with
    | none => simp
    | some p =>
      obtain ⟨n, body⟩ := p
      simp only
      by_cases hn : n > body.length
      · simp [hn]
      · simp only [hn, if_false]
        have hb := readArrayHeader_len hh
        have ha := slotsFor_alloc s.wipe n
        have hmul : n * msgSize ≤ msgSize * cookie.length := by
          rw [Nat.mul_comm]; exact Nat.mul_le_mul_left _ (by omega)
        rw [unmarshalMsgs_wipe s cookie body n hh]
        cases hp : parseMsgs n body with
        | none => simp only; omega
        | some q =>
          obtain ⟨ms, r⟩ := q
          cases r with
          | nil => simp only; omega
          | cons x xs => simp only; omega

example : (parseAndClear Slice.empty [221, 255, 255, 255, 255]).alloc = 0 := by decide

/-- the capacity retained in the pooled context never exceeds the largest cookie seen -/
theorem cap_bounded (s : Slice) (cookie : Bytes) :
    (parseAndClear s cookie).slice.cap ≤ max s.cap cookie.length := by
  unfold parseAndClear
  by_cases hc : cookie = []
  · simp [hc]
  · simp only [hc, if_false]
    cases hh : readArrayHeader cookie with
    | none => simp [Slice.wipe, Slice.cap]; omega
    | some p =>
      obtain ⟨n, body⟩ := p
      simp only
      by_cases hn : n > body.length
      · simp [hn, Slice.wipe, Slice.cap]; omega
      · simp only [hn, if_false]
        have hb := readArrayHeader_len hh
        have ht := slotsFor_total s.wipe n
        have hw : s.wipe.cap = s.cap := by simp [Slice.wipe, Slice.cap]
        rw [slotsFor_wipe, hw] at ht
        rw [unmarshalMsgs_wipe s cookie body n hh]
        generalize (slotsFor s.wipe n).2.1 = tail at ht ⊢
        have ht2 := ht.2
        simp only [List.length_replicate] at ht2
        cases hp : parseMsgs n body with
        | none =>
          show (List.replicate (List.replicate n Msg.zero ++ tail).length Msg.zero).length ≤ _
          simp only [List.length_replicate, List.length_append]; omega
        | some q =>
          obtain ⟨ms, r⟩ := q
          have hlen := (parseMsgs_len n body r ms hp).1
          cases r with
          | nil =>
            show (ms ++ tail).length ≤ _
            simp only [List.length_append]; omega
          | cons x xs =>
            show (List.replicate (ms ++ tail).length Msg.zero).length ≤ _
            simp only [List.length_replicate, List.length_append]; omega

/-! ### The wire -/

/-- The first byte of every issued cookie value is a msgpack array header (≥ 0x90), which is not a
    cookie-octet: **no** non-empty message set is wire safe. This is known finding K1; the
    full-strength statement `wire_safe : ∀ ms, ms ≠ [] → wireSafe (encode ms)` is false. -/
theorem wire_safe_fails_everywhere (ms : List Msg) : wireSafe (encode ms) = false := by
  have key : ∀ (x : Nat) (t : Bytes), x ≥ 127 → wireSafe (x :: t) = false := by
    intro x t hx
    have : cookieOctet x = false := by simp [cookieOctet]; omega
    simp [wireSafe, this]
  unfold encode appendArrayHeader
  split
  · exact key _ _ (by omega)
  · split
    · exact key 220 _ (by omega)
    · exact key 221 _ (by omega)

theorem wire_safe_witness_K1 :
    ¬ (∀ ms : List Msg, ms ≠ [] → wireSafe (encode ms) = true) := by
  intro h
  have := h [⟨b "k", b "v", 65, false⟩] (by simp)
  rw [wire_safe_fails_everywhere] at this
  exact Bool.noConfusion this

/-- so the K1 region for a conforming client is exactly "a cookie is issued" -/
theorem K1_conforming_iff (ms : List Msg) : Known.K1 false ms = true ↔ ms ≠ [] := by
  simp [Known.K1, wire_safe_fails_everywhere]

/-- `wire_safe_partial`: outside K1 (nothing attached to the redirect) no cookie is issued, and a
    request without cookie sees no messages. -/
theorem wire_safe_partial (pool : Slice) (ms : List Msg) (hp : pool.len = 0) (hk : Known.K1 false ms = false) :
    issue ms = none ∧ (serve pool [] []).1 = [] := by
  have : ms = [] := by
    by_cases h : ms = []
    · exact h
    · exact absurd ((K1_conforming_iff ms).2 h) (by simp [hk])
  subst this
  simp [issue, serve, parseAndClear, ParseResult.messages, Slice.visible, hp]

theorem expire_of_nonempty (s : Slice) (c : Bytes) (h : c ≠ []) : (parseAndClear s c).expire = true := by
  unfold parseAndClear
  simp only [h, if_false]
  split
  · rfl
  · split
    · rfl
    · split <;> rfl

/-- transparentSafe values contain no CR/LF, so `Cookie`'s sanitiser leaves them alone -/
theorem sanitize_of_transparentSafe (v : Bytes) (h : transparentSafe v = true) : sanitize v = v := by
  unfold transparentSafe at h
  simp only [Bool.and_eq_true, List.all_eq_true] at h
  obtain ⟨⟨⟨⟨⟨hall, _⟩, _⟩, _⟩, _⟩, _⟩ := h
  unfold sanitize
  have : ∀ c ∈ v, (if c = 13 ∨ c = 10 then 32 else c) = c := by
    intro c hc
    have := hall c hc
    simp [validHeaderValueByte] at this
    split
    · omega
    · rfl
  exact (List.map_congr_left this).trans (List.map_id' v)

/-- `delivered_once` (for a client that returns the value byte-identically — the hypothesis K1 takes
    away from conforming clients): the request carrying the issued cookie sees exactly the attached
    messages and its response expires the cookie; the client's next request carries no cookie and
    sees none. Holds for every state of the pooled slices involved. -/
theorem delivered_once (pool : Slice) (ms : List Msg) (hp : pool.len = 0)
    (hne : ms ≠ []) (hv : ∀ m ∈ ms, m.valid) (hn : ms.length < 4294967296)
    (hk : Known.K1 true ms = false) :
    let v := encode ms
    issueOnWire ms = some v ∧
    let r2 := serve pool v []
    r2.1 = ms ∧ r2.2.2 = some none ∧
    let jar := Jar.apply (fun _ => true) (some v) r2.2.2
    jar = none ∧ (serve r2.2.1 (jar.getD []) []).1 = [] ∧ (serve r2.2.1 (jar.getD []) []).2.2 = none := by
  have hts : transparentSafe (encode ms) = true := by
    simp [Known.K1, hne] at hk; exact hk
  have hne' : encode ms ≠ [] := by
    intro h; rw [h] at hts; simp [transparentSafe] at hts
  refine ⟨?_, ?_⟩
  · simp [issueOnWire, issue, hne, sanitize_of_transparentSafe _ hts]
  · have h1 : (serve pool (encode ms) []).1 = ms := by
      simp only [serve]; exact decode_encode pool ms hp hv hn
    have h2 : (serve pool (encode ms) []).2.2 = some none := by
      simp [serve, issue, expire_of_nonempty pool _ hne']
    refine ⟨h1, h2, ?_⟩
    dsimp only
    rw [h2]
    refine ⟨rfl, ?_, ?_⟩
    · simp [Jar.apply, serve, parseAndClear, ParseResult.messages, Slice.visible, Slice.release]
    · simp [Jar.apply, serve, parseAndClear, issue]

example : Known.K1 true [⟨b "success", b "saved", 65, false⟩] = false := by decide

/-- requests without the cookie see none, whatever the pooled context held -/
theorem no_cookie_no_messages (pool : Slice) (hp : pool.len = 0) :
    (serve pool [] []).1 = [] ∧ (serve pool [] []).2.2 = none := by
  simp [serve, parseAndClear, ParseResult.messages, Slice.visible, hp, issue]

/-- a redirect issued by the request that consumed the messages replaces the expiry with its own
    cookie (one Set-Cookie entry per name in fasthttp) -/
theorem reissue_overrides_expiry (pool : Slice) (carried : Bytes) (ms : List Msg) (hne : ms ≠ []) :
    (serve pool carried ms).2.2 = some (some (encode ms)) := by
  simp [serve, issue, hne]

end C12
