import FiberModel.C12.Lemmas
/-
C12 — helper lemmas about the issuing side: chains of `With` / `WithInput()` calls.

`flashPart` / `oldPart` are the two filters `Messages()` and `OldInputs()` apply. `With` acts on the
flash part only, `WithInput` on the old-input part only; the flash part of a chain is therefore the
fold of `With` over the `With` calls alone, and that fold is the "first use fixes the position, last
call fixes value and level" rule of the specification.
-/
namespace C12
open B

def flashPart (ms : List Msg) : List Msg := ms.filter (!·.old)
def oldPart (ms : List Msg) : List Msg := ms.filter (·.old)

theorem filterMap_congr' {α β : Type} {f g : α → Option β} (l : List α) (h : ∀ a ∈ l, f a = g a) :
    l.filterMap f = l.filterMap g := by
  induction l with
  | nil => rfl
  | cons a l ih =>
    have ha := h a (by simp)
    have := ih (fun x hx => h x (by simp [hx]))
    simp only [List.filterMap_cons, ha, this]

/-- one `With` call -/
def stepCall (ms : List Msg) (c : Bytes × Bytes × Nat) : List Msg := withMsg ms c.1 c.2.1 c.2.2

/-- the `With` calls alone, on an empty `Redirect` -/
def runCalls (cs : List (Bytes × Bytes × Nat)) : List Msg := cs.foldl stepCall []

theorem flashPart_withInput (ms : List Msg) (p : List (Bytes × Bytes)) :
    flashPart (withInput ms p) = flashPart ms := by
  simp [flashPart, withInput, List.filter_append, List.filter_map, Function.comp_def]

theorem oldPart_withInput (ms : List Msg) (p : List (Bytes × Bytes)) :
    oldPart (withInput ms p) = oldPart ms ++ expectedOld p := by
  have : List.filter (fun _ : Bytes × Bytes => true) p = p := List.filter_eq_self.2 (by simp)
  simp [oldPart, withInput, expectedOld, List.filter_append, List.filter_map, Function.comp_def, this]

theorem flashPart_withMsg (ms : List Msg) (k v : Bytes) (l : Nat) :
    flashPart (withMsg ms k v l) = withMsg (flashPart ms) k v l := by
  induction ms with
  | nil => simp [withMsg, flashPart]
  | cons m rest ih =>
    unfold flashPart at ih ⊢
    cases ho : m.old
    · by_cases hk : m.key = k
      · simp [withMsg, hk, ho]
      · simp [withMsg, hk, ho, ih]
    · simp [withMsg, ho, ih]

theorem oldPart_withMsg (ms : List Msg) (k v : Bytes) (l : Nat) :
    oldPart (withMsg ms k v l) = oldPart ms := by
  induction ms with
  | nil => simp [withMsg, oldPart]
  | cons m rest ih =>
    unfold oldPart at ih ⊢
    cases ho : m.old
    · by_cases hk : m.key = k
      · simp [withMsg, hk, ho]
      · simp [withMsg, hk, ho, ih]
    · simp [withMsg, ho, ih]

theorem flashPart_foldl (ops : List Op) (ms : List Msg) :
    flashPart (ops.foldl Op.apply ms) = (callsOf ops).foldl stepCall (flashPart ms) := by
  induction ops generalizing ms with
  | nil => rfl
  | cons op r ih =>
    cases op with
    | flash k v l => simp only [List.foldl_cons, callsOf, Op.apply, ih, flashPart_withMsg, stepCall]
    | input o => simp only [List.foldl_cons, callsOf, Op.apply, ih, flashPart_withInput]

theorem oldPart_foldl (ops : List Op) (ms : List Msg) :
    oldPart (ops.foldl Op.apply ms) = oldPart ms ++ (inputsOf ops).flatMap expectedOld := by
  induction ops generalizing ms with
  | nil => simp [inputsOf]
  | cons op r ih =>
    cases op with
    | flash k v l => simp only [List.foldl_cons, inputsOf, Op.apply, ih, oldPart_withMsg]
    | input o => simp [List.foldl_cons, inputsOf, Op.apply, ih, oldPart_withInput]

/-- value and level of the last call with the key of `m` (if any) -/
def lastFor (m : Msg) (cs : List (Bytes × Bytes × Nat)) : Msg :=
  match (cs.filter (·.1 = m.key)).getLast? with
  | some c => { m with value := c.2.1, level := c.2.2 }
  | none => m

theorem lastFor_key (m : Msg) (cs) : (lastFor m cs).key = m.key := by
  unfold lastFor; split <;> rfl

/-- a flash message at the head of the slice keeps its position; later calls with its key rewrite it,
    all other calls act on the rest of the slice -/
theorem foldl_stepCall_cons (cs : List (Bytes × Bytes × Nat)) (m : Msg) (ms : List Msg) (hm : m.old = false) :
    cs.foldl stepCall (m :: ms) = lastFor m cs :: (cs.filter (·.1 ≠ m.key)).foldl stepCall ms := by
  induction cs generalizing m ms with
  | nil => simp [lastFor]
  | cons c cs ih =>
    by_cases hk : c.1 = m.key
    · have hstep : stepCall (m :: ms) c = { m with value := c.2.1, level := c.2.2 } :: ms := by
        simp [stepCall, withMsg, hk, hm]
      rw [List.foldl_cons, hstep, ih _ _ (by simpa using hm)]
      have hl : lastFor { m with value := c.2.1, level := c.2.2 } cs = lastFor m (c :: cs) := by
        unfold lastFor
        simp only [List.filter_cons, hk, decide_true, if_true, List.getLast?_cons]
        cases (List.filter (fun x => decide (x.1 = m.key)) cs).getLast? <;> rfl
      rw [hl]
      simp [hk]
    · have hk' : ¬ m.key = c.1 := fun h => hk h.symm
      have hstep : stepCall (m :: ms) c = m :: stepCall ms c := by
        simp [stepCall, withMsg, hk']
      rw [List.foldl_cons, hstep, ih _ _ hm]
      have hl : lastFor m (c :: cs) = lastFor m cs := by
        unfold lastFor; simp [hk]
      rw [hl]
      simp [hk]

/-- The `With` overwrite rule: a chain of `With` calls leaves exactly one message per distinct key,
    in order of first use, with the value and level of the last call with that key. -/
theorem runCalls_aux (n : Nat) (cs : List (Bytes × Bytes × Nat)) (hlen : cs.length ≤ n) :
    runCalls cs = expectedFlash cs := by
  induction n generalizing cs with
  | zero =>
    have : cs = [] := List.eq_nil_of_length_eq_zero (by omega)
    subst this; simp [runCalls, expectedFlash]
  | succ n ih =>
    cases cs with
    | nil => simp [runCalls, expectedFlash]
    | cons c cs =>
      have hrec := ih (cs.filter (·.1 ≠ c.1))
        (by have := List.length_filter_le (fun x : Bytes × Bytes × Nat => decide (x.1 ≠ c.1)) cs
            simp only [List.length_cons] at hlen; omega)
      unfold runCalls at hrec ⊢
      have h0 : stepCall [] c = [⟨c.1, c.2.1, c.2.2, false⟩] := by simp [stepCall, withMsg]
      rw [List.foldl_cons, h0, foldl_stepCall_cons _ _ _ rfl, hrec]
      unfold expectedFlash
      rw [List.map_cons, List.eraseDups_cons, List.filterMap_cons]
      have hhead : ((List.filter (fun x => decide (x.1 = c.1)) (c :: cs)).getLast?).map
          (fun c' => (⟨c.1, c'.2.1, c'.2.2, false⟩ : Msg)) = some (lastFor ⟨c.1, c.2.1, c.2.2, false⟩ cs) := by
        unfold lastFor
        simp only [List.filter_cons, decide_true, if_true, List.getLast?_cons]
        cases (List.filter (fun x => decide (x.1 = c.1)) cs).getLast? <;> rfl
      simp only [hhead]
      congr 1
      rw [List.filter_map]
      have hf : List.filter ((fun b => !b == c.1) ∘ fun x : Bytes × Bytes × Nat => x.1) cs
          = List.filter (fun x => decide (x.1 ≠ c.1)) cs := by
        apply List.filter_congr
        intro x _
        by_cases hx : x.1 = c.1 <;> simp [hx]
      rw [hf]
      apply filterMap_congr'
      intro k hkmem
      have hkne : k ≠ c.1 := by
        have := List.mem_eraseDups.1 hkmem
        simp only [List.mem_map, List.mem_filter] at this
        obtain ⟨x, ⟨_, hx⟩, rfl⟩ := this
        simpa using hx
      have hkne' : ¬ c.1 = k := fun h => hkne h.symm
      have e1 : List.filter (fun x => decide (x.1 = k)) (c :: cs) = List.filter (fun x => decide (x.1 = k)) cs := by
        simp [hkne']
      have e2 : List.filter (fun x => decide (x.1 = k)) (List.filter (fun x => decide (x.1 ≠ c.1)) cs)
          = List.filter (fun x => decide (x.1 = k)) cs := by
        rw [List.filter_filter]
        apply List.filter_congr
        intro x _
        by_cases hx : x.1 = k
        · simp [hx, hkne]
        · simp [hx]
      simp only [e1, e2]

theorem runCalls_eq_expectedFlash (cs : List (Bytes × Bytes × Nat)) : runCalls cs = expectedFlash cs :=
  runCalls_aux cs.length cs (Nat.le_refl _)

/-- every `WithInput()` call contributes a rearrangement of `expectedOld inputs` -/
theorem flatMap_expectedOld_perm (inputs : List (Bytes × Bytes)) (L : List (List (Bytes × Bytes)))
    (h : ∀ o ∈ L, o.Perm inputs) : (L.flatMap expectedOld).Perm (expectedOldN L.length inputs) := by
  induction L with
  | nil => simp [expectedOldN]
  | cons o L ih =>
    simp only [List.flatMap_cons, expectedOldN, List.length_cons, List.replicate_succ, List.flatten_cons]
    exact List.Perm.append ((h o (by simp)).map _) (ih (fun x hx => h x (by simp [hx])))

/-! ### the canonical rendering does not depend on the order of the old-input messages -/

theorem insertStr_comm (x y : String) (l : List String) :
    insertStr x (insertStr y l) = insertStr y (insertStr x l) := by
  by_cases hxy : x = y
  · subst hxy; rfl
  induction l with
  | nil =>
    simp only [insertStr]
    by_cases h1 : x ≤ y
    · have h2 : ¬ y ≤ x := fun h => hxy (String.le_antisymm h1 h)
      simp [h1, h2]
    · have h2 : y ≤ x := (String.le_total x y).resolve_left h1
      simp [h1, h2]
  | cons z l ih =>
    by_cases hxz : x ≤ z <;> by_cases hyz : y ≤ z
    · simp only [insertStr, hxz, hyz, if_true]
      by_cases h1 : x ≤ y
      · have h2 : ¬ y ≤ x := fun h => hxy (String.le_antisymm h1 h)
        simp [h1, h2]
      · have h2 : y ≤ x := (String.le_total x y).resolve_left h1
        simp [h1, h2]
    · have hyx : ¬ y ≤ x := fun h => hyz (String.le_trans h hxz)
      simp [insertStr, hxz, hyz, hyx]
    · have hxy' : ¬ x ≤ y := fun h => hxz (String.le_trans h hyz)
      simp [insertStr, hxz, hyz, hxy']
    · simp [insertStr, hxz, hyz, ih]

theorem sortStr_perm {l l' : List String} (h : l.Perm l') : sortStr l = sortStr l' := by
  induction h with
  | nil => rfl
  | cons x _ ih => simp only [sortStr, List.foldr_cons] at ih ⊢; rw [ih]
  | swap x y l => simp only [sortStr, List.foldr_cons]; exact insertStr_comm y x _
  | trans _ _ ih1 ih2 => exact ih1.trans ih2

theorem expectedFlash_not_old (cs : List (Bytes × Bytes × Nat)) : ∀ m ∈ expectedFlash cs, m.old = false := by
  intro m hm
  simp only [expectedFlash, List.mem_filterMap, Option.map_eq_some_iff] at hm
  obtain ⟨_, _, _, _, rfl⟩ := hm
  rfl

theorem expectedOldN_old (k : Nat) (inputs : List (Bytes × Bytes)) : ∀ m ∈ expectedOldN k inputs, m.old = true := by
  intro m hm
  simp only [expectedOldN, List.mem_flatten, List.mem_replicate] at hm
  obtain ⟨l, ⟨_, rfl⟩, hm⟩ := hm
  simp only [expectedOld, List.mem_map] at hm
  obtain ⟨_, _, rfl⟩ := hm
  rfl

/-- `renderSeen` only looks at the flash part (in order) and the old-input part (sorted) -/
theorem renderSeen_congr (ms ms' : List Msg) (h1 : ms.filter (!·.old) = ms'.filter (!·.old))
    (h2 : (ms.filter (·.old)).Perm (ms'.filter (·.old))) : renderSeen ms = renderSeen ms' := by
  unfold renderSeen
  rw [h1, sortStr_perm (h2.map renderMsg)]

/-! ### keyed readers -/

theorem find?_filter_and {α : Type} (l : List α) (p q : α → Bool) :
    (l.filter p).find? q = l.find? (fun a => q a && p a) := by
  induction l with
  | nil => rfl
  | cons a l ih =>
    by_cases hp : p a = true
    · by_cases hq : q a = true
      · simp [hp, hq]
      · simp [hp, hq, ih]
    · simp [hp, ih]

/-- `find?` does not depend on the order when at most one element can match -/
theorem find?_perm_unique {α : Type} {p : α → Bool} {l l' : List α} (h : l.Perm l')
    (hu : ∀ a ∈ l, ∀ b ∈ l, p a = true → p b = true → a = b) : l.find? p = l'.find? p := by
  cases h1 : l.find? p with
  | none =>
    have hn := List.find?_eq_none.1 h1
    exact (List.find?_eq_none.2 (fun x hx => hn x (h.mem_iff.2 hx))).symm
  | some a =>
    have ha := List.mem_of_find?_eq_some h1
    have hpa := List.find?_some h1
    cases h2 : l'.find? p with
    | none => exact absurd hpa (List.find?_eq_none.1 h2 a (h.mem_iff.1 ha))
    | some c =>
      have hc := List.mem_of_find?_eq_some h2
      have hpc := List.find?_some h2
      rw [hu a ha c (h.mem_iff.2 hc) hpa hpc]

/-- the bound map is a function: one value per key -/
def Functional (inputs : List (Bytes × Bytes)) : Prop := ∀ a ∈ inputs, ∀ b ∈ inputs, a.1 = b.1 → a = b

theorem expectedOld_unique (inputs : List (Bytes × Bytes)) (hf : Functional inputs) (k : Bytes) :
    ∀ a ∈ expectedOld inputs, ∀ b ∈ expectedOld inputs,
      decide (a.key = k) = true → decide (b.key = k) = true → a = b := by
  intro a ha c hc hka hkc
  simp only [expectedOld, List.mem_map] at ha hc
  obtain ⟨x, hx, rfl⟩ := ha
  obtain ⟨y, hy, rfl⟩ := hc
  simp only [decide_eq_true_eq] at hka hkc
  have := hf x hx y hy (hka.trans hkc.symm)
  rw [this]

/-- asking chunks that are all rearrangements of the same functional map: the first chunk answers -/
theorem find?_flatMap_expectedOld (inputs : List (Bytes × Bytes)) (hf : Functional inputs) (k : Bytes)
    (L : List (List (Bytes × Bytes))) (h : ∀ o ∈ L, o.Perm inputs) :
    (L.flatMap expectedOld).find? (fun m => decide (m.key = k)) =
      if L = [] then none else (expectedOld inputs).find? (fun m => decide (m.key = k)) := by
  induction L with
  | nil => rfl
  | cons o L ih =>
    have ho : (expectedOld o).Perm (expectedOld inputs) := (h o (by simp)).map _
    have hfo : (expectedOld o).find? (fun m => decide (m.key = k)) =
        (expectedOld inputs).find? (fun m => decide (m.key = k)) :=
      (find?_perm_unique ho.symm (expectedOld_unique inputs hf k)).symm
    have ih' := ih (fun x hx => h x (by simp [hx]))
    simp only [List.flatMap_cons, List.find?_append, hfo, ih', List.cons_ne_nil, if_false]
    cases (expectedOld inputs).find? (fun m => decide (m.key = k)) with
    | none => by_cases hL : L = [] <;> simp [hL]
    | some a => rfl

theorem expectedOldN_eq_flatMap (n : Nat) (inputs : List (Bytes × Bytes)) :
    expectedOldN n inputs = (List.replicate n inputs).flatMap expectedOld := by
  induction n with
  | zero => rfl
  | succ n ih =>
    simp only [expectedOldN, List.replicate_succ, List.flatten_cons, List.flatMap_cons] at ih ⊢
    rw [ih]

/-! ### the script builder of the driver realises exactly the calls / map orders it was given -/

theorem callsOf_map_flash (calls : List (Bytes × Bytes × Nat)) :
    callsOf (calls.map fun c => Op.flash c.1 c.2.1 c.2.2) = calls := by
  induction calls with
  | nil => rfl
  | cons c cs ih => simp [callsOf, ih]

theorem inputsOf_map_flash (calls : List (Bytes × Bytes × Nat)) :
    inputsOf (calls.map fun c => Op.flash c.1 c.2.1 c.2.2) = [] := by
  induction calls with
  | nil => rfl
  | cons c cs ih => simp [inputsOf, ih]

theorem callsOf_interleave (calls : List (Bytes × Bytes × Nat)) (pos : List Nat)
    (orders : List (List (Bytes × Bytes))) (i : Nat) :
    callsOf (interleave calls pos orders i) = calls := by
  fun_induction interleave calls pos orders i with
  | case1 calls i p ps o os h ih => simpa [callsOf] using ih
  | case2 i p ps o os h c cs ih => simp [callsOf, ih]
  | case3 i p ps o os h ih => simpa [callsOf] using ih
  | case4 calls pos orders i h => exact callsOf_map_flash calls

theorem inputsOf_interleave (calls : List (Bytes × Bytes × Nat)) (pos : List Nat)
    (orders : List (List (Bytes × Bytes))) (i : Nat) (hlen : orders.length = pos.length) :
    inputsOf (interleave calls pos orders i) = orders := by
  fun_induction interleave calls pos orders i with
  | case1 calls i p ps o os h ih => simp [inputsOf, ih (by simpa using hlen)]
  | case2 i p ps o os h c cs ih => simpa [inputsOf] using ih hlen
  | case3 i p ps o os h ih => simp [inputsOf, ih (by simpa using hlen)]
  | case4 calls pos orders i h =>
    rw [inputsOf_map_flash]
    cases pos with
    | nil => cases orders with
      | nil => rfl
      | cons o os => simp at hlen
    | cons p ps => cases orders with
      | nil => simp at hlen
      | cons o os => exact (h p ps o os rfl rfl).elim

/-! ### validity (strings < 2^32, level a byte) is preserved by the builder calls -/

def Op.valid : Op → Prop
  | .flash k v l => k.length < 4294967296 ∧ v.length < 4294967296 ∧ l < 256
  | .input o => ∀ kv ∈ o, kv.1.length < 4294967296 ∧ kv.2.length < 4294967296

theorem withMsg_valid (ms : List Msg) (k v : Bytes) (l : Nat) (hms : ∀ m ∈ ms, m.valid)
    (hk : k.length < 4294967296) (hv : v.length < 4294967296) (hl : l < 256) :
    ∀ m ∈ withMsg ms k v l, m.valid := by
  induction ms with
  | nil => intro m hm; simp [withMsg] at hm; subst hm; exact ⟨hk, hv, hl⟩
  | cons x rest ih =>
    intro m hm
    unfold withMsg at hm
    split at hm
    · rcases List.mem_cons.1 hm with h | h
      · subst h; exact ⟨(hms x (by simp)).1, hv, hl⟩
      · exact hms m (by simp [h])
    · rcases List.mem_cons.1 hm with h | h
      · subst h; exact hms _ (by simp)
      · exact ih (fun y hy => hms y (by simp [hy])) m h

theorem withInput_valid (ms : List Msg) (o : List (Bytes × Bytes)) (hms : ∀ m ∈ ms, m.valid)
    (ho : ∀ kv ∈ o, kv.1.length < 4294967296 ∧ kv.2.length < 4294967296) :
    ∀ m ∈ withInput ms o, m.valid := by
  intro m hm
  simp only [withInput, List.mem_append, List.mem_map] at hm
  rcases hm with h | ⟨kv, hkv, rfl⟩
  · exact hms m h
  · exact ⟨(ho kv hkv).1, (ho kv hkv).2, by show (0 : Nat) < 256; omega⟩

theorem foldl_apply_valid (ops : List Op) (ms : List Msg) (hms : ∀ m ∈ ms, m.valid)
    (hops : ∀ op ∈ ops, op.valid) : ∀ m ∈ ops.foldl Op.apply ms, m.valid := by
  induction ops generalizing ms with
  | nil => exact hms
  | cons op r ih =>
    rw [List.foldl_cons]
    apply ih
    · cases op with
      | flash k v l =>
        have h := hops (.flash k v l) (by simp)
        exact withMsg_valid ms k v l hms h.1 h.2.1 h.2.2
      | input o =>
        have h := hops (.input o) (by simp)
        exact withInput_valid ms o hms h
    · exact fun op hop => hops op (by simp [hop])

end C12
