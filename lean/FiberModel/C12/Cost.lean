import FiberModel.C12.Script
/-
C12 — helper lemmas for the decode-cost bound: every string the decoder copies is a sub-slice of the
cookie, the sub-slices are disjoint, so the copies add up to at most the length of the cookie.
-/
namespace C12
open B

/-- bytes left of an input (`none` = the decoder stopped with an error) -/
def restLen : Option Bytes → Nat
  | none => 0
  | some r => r.length

theorem takeExact_split {n : Nat} {bs v r : Bytes} (h : takeExact n bs = some (v, r)) :
    v.length + r.length = bs.length := by
  unfold takeExact at h
  split at h
  · simp at h
  · simp at h; obtain ⟨rfl, rfl⟩ := h
    simp only [List.length_take, List.length_drop]; omega

/-- a string read is a sub-slice of the input in front of the rest -/
theorem readString_split {bs v r : Bytes} (h : readString bs = some (v, r)) :
    v.length + r.length < bs.length := by
  unfold readString at h
  split at h
  · simp at h
  · split at h
    · have := takeExact_split h; simp; omega
    · split at h
      · split at h
        · have := takeExact_split h; simp; omega
        · simp at h
      · split at h
        · split at h
          · have := takeExact_split h; simp; omega
          · simp at h
        · split at h
          · split at h
            · have := takeExact_split h; simp; omega
            · simp at h
          · simp at h

/-- the cost function follows the decoder: same success / failure, same rest of the input -/
theorem fieldsCopied_rest (n : Nat) (z : Msg) (bs : Bytes) :
    (fieldsCopied n bs).2 = (readFields n z bs).map (·.2) := by
  induction n generalizing z bs with
  | zero => simp [fieldsCopied, readFields]
  | succ n ih =>
    rw [fieldsCopied, readFields]
    cases readMapKey bs with
    | none => rfl
    | some p =>
      obtain ⟨field, r⟩ := p
      simp only
      by_cases h1 : field = kKey
      · simp only [h1, true_or, if_true]
        cases readString r with
        | none => rfl
        | some q => simp only; exact ih _ _
      · by_cases h2 : field = kValue
        · simp only [h2, or_true, if_true]
          have : ¬ (kValue = kKey) := by decide
          simp only [this, if_false]
          cases readString r with
          | none => rfl
          | some q => simp only; exact ih _ _
        · simp only [h1, h2, or_self, if_false]
          by_cases h3 : field = kLevel
          · simp only [h3, if_true]
            cases readUint8 r with
            | none => rfl
            | some q => simp only; exact ih _ _
          · simp only [h3, if_false]
            by_cases h4 : field = kOld
            · simp only [h4, if_true]
              cases readBool r with
              | none => rfl
              | some q => simp only; exact ih _ _
            · simp only [h4, if_false]
              cases skip r with
              | none => rfl
              | some q => simp only; exact ih _ _

/-- copies + what is left never exceed what was there -/
theorem fieldsCopied_le (n : Nat) (bs : Bytes) :
    (fieldsCopied n bs).1 + restLen (fieldsCopied n bs).2 ≤ bs.length := by
  induction n generalizing bs with
  | zero => simp [fieldsCopied, restLen]
  | succ n ih =>
    rw [fieldsCopied]
    cases hk : readMapKey bs with
    | none => simp [restLen]
    | some p =>
      obtain ⟨field, r⟩ := p
      have hkl := readMapKey_len hk
      simp only
      split
      · cases hs : readString r with
        | none => simp [restLen]
        | some q =>
          obtain ⟨v, r'⟩ := q
          have := readString_split hs
          have := ih r'
          simp only; omega
      · split
        · cases hs : readUint8 r with
          | none => simp [restLen]
          | some q =>
            obtain ⟨v, r'⟩ := q
            have := readUint8_len hs
            have := ih r'
            simp only; omega
        · split
          · cases hs : readBool r with
            | none => simp [restLen]
            | some q =>
              obtain ⟨v, r'⟩ := q
              have := readBool_len hs
              have := ih r'
              simp only; omega
          · cases hs : skip r with
            | none => simp [restLen]
            | some r' =>
              have := skipObjs_len _ _ _ _ hs
              have := ih r'
              simp only; omega

theorem msgCopied_rest (z : Msg) (bs : Bytes) : (msgCopied bs).2 = (unmarshalMsg z bs).map (·.2) := by
  unfold msgCopied unmarshalMsg
  cases readMapHeader bs with
  | none => rfl
  | some p => exact fieldsCopied_rest _ _ _

theorem msgCopied_le (bs : Bytes) : (msgCopied bs).1 + restLen (msgCopied bs).2 ≤ bs.length := by
  unfold msgCopied
  cases h : readMapHeader bs with
  | none => simp [restLen]
  | some p =>
    obtain ⟨n, r⟩ := p
    have := readMapHeader_len h
    have := fieldsCopied_le n r
    simp only; omega

theorem slotsCopied_rest (slots : List Msg) (bs : Bytes) :
    (slotsCopied slots.length bs).2 = (unmarshalSlots slots bs).map (·.2) := by
  induction slots generalizing bs with
  | nil => simp [slotsCopied, unmarshalSlots]
  | cons z zs ih =>
    simp only [List.length_cons, slotsCopied, unmarshalSlots]
    have h := msgCopied_rest z bs
    cases hm : unmarshalMsg z bs with
    | none =>
      rw [hm] at h
      rcases hc : msgCopied bs with ⟨c, o⟩
      rw [hc] at h; simp at h; subst h; rfl
    | some p =>
      obtain ⟨m, r⟩ := p
      rw [hm] at h
      rcases hc : msgCopied bs with ⟨c, o⟩
      rw [hc] at h; simp at h; subst h
      simp only [ih r]
      cases unmarshalSlots zs r <;> rfl

theorem slotsCopied_le (n : Nat) (bs : Bytes) :
    (slotsCopied n bs).1 + restLen (slotsCopied n bs).2 ≤ bs.length := by
  induction n generalizing bs with
  | zero => simp [slotsCopied, restLen]
  | succ n ih =>
    rw [slotsCopied]
    have h := msgCopied_le bs
    rcases hc : msgCopied bs with ⟨c, o⟩
    rw [hc] at h
    cases o with
    | none => simpa [restLen] using h
    | some r =>
      have := ih r
      have hr : restLen (some r) = r.length := rfl
      rw [hr] at h
      simp only
      omega

end C12

namespace C12
open B

/-! ### number of primitive calls: every successful call consumes at least one byte -/

/-- one extra call when the decoder stopped with an error (the failing call) -/
def slack : Option Bytes → Nat
  | none => 1
  | some _ => 0

/-- "if this is a size, it is at least one byte" -/
def SzPos (o : Option (Nat × Nat)) : Prop := ∀ sz n, o = some (sz, n) → 1 ≤ sz

theorem SzPos.ite {c : Prop} [Decidable c] {a b : Option (Nat × Nat)} (ha : SzPos a) (hb : SzPos b) :
    SzPos (if c then a else b) := by
  split <;> assumption

theorem SzPos.none : SzPos none := by intro _ _ h; cases h

theorem SzPos.some {k n : Nat} (h : 1 ≤ k) : SzPos (some (k, n)) := by
  intro _ _ e; cases e; exact h

theorem getSize_szpos (bs : Bytes) : SzPos (getSize bs) := by
  unfold getSize
  split
  · exact SzPos.none
  · repeat' (first | apply SzPos.ite | exact SzPos.none | (apply SzPos.some; omega) | split)

theorem getSize_pos {bs : Bytes} {sz nested : Nat} (h : getSize bs = some (sz, nested)) : 1 ≤ sz :=
  getSize_szpos bs sz nested h

theorem skipReads_rest (fuel pending : Nat) (bs : Bytes) :
    (skipReads fuel pending bs).2 = skipObjs fuel pending bs := by
  induction fuel generalizing pending bs with
  | zero => cases pending <;> simp [skipReads, skipObjs]
  | succ f ih =>
    cases pending with
    | zero => simp [skipReads, skipObjs]
    | succ p =>
      simp only [skipReads, skipObjs]
      cases getSize bs with
      | none => rfl
      | some q =>
        obtain ⟨sz, nested⟩ := q
        simp only
        split
        · rfl
        · exact ih _ _

theorem skipReads_le (fuel pending : Nat) (bs : Bytes) :
    (skipReads fuel pending bs).1 + restLen (skipReads fuel pending bs).2 ≤
      bs.length + slack (skipReads fuel pending bs).2 := by
  induction fuel generalizing pending bs with
  | zero => cases pending <;> simp [skipReads, restLen, slack]
  | succ f ih =>
    cases pending with
    | zero => simp [skipReads, restLen, slack]
    | succ p =>
      simp only [skipReads]
      cases hg : getSize bs with
      | none => simp [restLen, slack]
      | some q =>
        obtain ⟨sz, nested⟩ := q
        have hpos := getSize_pos hg
        simp only
        split
        · simp [restLen, slack]
        · have := ih (p + nested) (bs.drop sz)
          simp only [List.length_drop] at this
          simp only
          omega

theorem readMapKey_lt {bs v r : Bytes} (h : readMapKey bs = some (v, r)) : r.length < bs.length := by
  unfold readMapKey at h
  split at h
  · simp at h
  · rename_i lead t
    split at h
    · unfold readBin at h
      simp only at h
      repeat' split at h
      all_goals first
        | (have := takeExact_split h; simp only [List.length_cons]; omega)
        | (simp at h)
    · exact Nat.lt_of_le_of_lt (Nat.le_add_left _ _) (readString_split h)

theorem readUint8_lt {bs r : Bytes} {v : Nat} (h : readUint8 bs = some (v, r)) : r.length < bs.length := by
  unfold readUint8 at h
  repeat' split at h
  all_goals first
    | (simp only [Option.some.injEq, Prod.mk.injEq] at h; obtain ⟨_, rfl⟩ := h
       simp only [List.length_drop, List.length_cons]; omega)
    | (simp at h)

theorem readBool_lt {bs r : Bytes} {v : Bool} (h : readBool bs = some (v, r)) : r.length < bs.length := by
  unfold readBool at h
  split at h <;> simp at h <;> (obtain ⟨_, rfl⟩ := h; simp)

theorem fieldsReads_rest (n : Nat) (z : Msg) (bs : Bytes) :
    (fieldsReads n bs).2 = (readFields n z bs).map (·.2) := by
  induction n generalizing z bs with
  | zero => simp [fieldsReads, readFields]
  | succ n ih =>
    rw [fieldsReads, readFields]
    cases readMapKey bs with
    | none => rfl
    | some p =>
      obtain ⟨field, r⟩ := p
      simp only
      by_cases h1 : field = kKey
      · simp only [h1, true_or, if_true]
        cases readString r with
        | none => rfl
        | some q => simp only; exact ih _ _
      · by_cases h2 : field = kValue
        · simp only [h2, or_true, if_true]
          have : ¬ (kValue = kKey) := by decide
          simp only [this, if_false]
          cases readString r with
          | none => rfl
          | some q => simp only; exact ih _ _
        · simp only [h1, h2, or_self, if_false]
          by_cases h3 : field = kLevel
          · simp only [h3, if_true]
            cases readUint8 r with
            | none => rfl
            | some q => simp only; exact ih _ _
          · simp only [h3, if_false]
            by_cases h4 : field = kOld
            · simp only [h4, if_true]
              cases readBool r with
              | none => rfl
              | some q => simp only; exact ih _ _
            · simp only [h4, if_false, skip, ← skipReads_rest]
              cases (skipReads (r.length + 1) 1 r).2 with
              | none => rfl
              | some q => simp only; exact ih _ _

theorem fieldsReads_le (n : Nat) (bs : Bytes) :
    (fieldsReads n bs).1 + restLen (fieldsReads n bs).2 ≤ bs.length + slack (fieldsReads n bs).2 := by
  induction n generalizing bs with
  | zero => simp [fieldsReads, restLen, slack]
  | succ n ih =>
    rw [fieldsReads]
    cases hk : readMapKey bs with
    | none => simp [restLen, slack]
    | some p =>
      obtain ⟨field, r⟩ := p
      have hkl := readMapKey_lt hk
      simp only
      split
      · cases hs : readString r with
        | none => simp only [restLen, slack]; omega
        | some q =>
          obtain ⟨v, r'⟩ := q
          have := readString_split hs
          have := ih r'
          simp only; omega
      · split
        · cases hs : readUint8 r with
          | none => simp only [restLen, slack]; omega
          | some q =>
            obtain ⟨v, r'⟩ := q
            have := readUint8_lt hs
            have := ih r'
            simp only; omega
        · split
          · cases hs : readBool r with
            | none => simp only [restLen, slack]; omega
            | some q =>
              obtain ⟨v, r'⟩ := q
              have := readBool_lt hs
              have := ih r'
              simp only; omega
          · have hsk := skipReads_le (r.length + 1) 1 r
            cases hs : (skipReads (r.length + 1) 1 r).2 with
            | none =>
              rw [hs] at hsk
              simp only [restLen, slack] at hsk ⊢; omega
            | some r' =>
              rw [hs] at hsk
              have := ih r'
              simp only [restLen, slack] at hsk
              simp only; omega

theorem msgReads_rest (z : Msg) (bs : Bytes) : (msgReads bs).2 = (unmarshalMsg z bs).map (·.2) := by
  unfold msgReads unmarshalMsg
  cases readMapHeader bs with
  | none => rfl
  | some p => exact fieldsReads_rest _ _ _

theorem msgReads_le (bs : Bytes) :
    (msgReads bs).1 + restLen (msgReads bs).2 ≤ bs.length + slack (msgReads bs).2 := by
  unfold msgReads
  cases h : readMapHeader bs with
  | none => simp [restLen, slack]
  | some p =>
    obtain ⟨n, r⟩ := p
    have := readMapHeader_len h
    have := fieldsReads_le n r
    simp only; omega

theorem slotsReads_rest (slots : List Msg) (bs : Bytes) :
    (slotsReads slots.length bs).2 = (unmarshalSlots slots bs).map (·.2) := by
  induction slots generalizing bs with
  | nil => simp [slotsReads, unmarshalSlots]
  | cons z zs ih =>
    simp only [List.length_cons, slotsReads, unmarshalSlots]
    have h := msgReads_rest z bs
    cases hm : unmarshalMsg z bs with
    | none =>
      rw [hm] at h
      rcases hc : msgReads bs with ⟨c, o⟩
      rw [hc] at h; simp at h; subst h; rfl
    | some p =>
      obtain ⟨m, r⟩ := p
      rw [hm] at h
      rcases hc : msgReads bs with ⟨c, o⟩
      rw [hc] at h; simp at h; subst h
      simp only [ih r]
      cases unmarshalSlots zs r <;> rfl

theorem slotsReads_le (n : Nat) (bs : Bytes) :
    (slotsReads n bs).1 + restLen (slotsReads n bs).2 ≤ bs.length + slack (slotsReads n bs).2 := by
  induction n generalizing bs with
  | zero => simp [slotsReads, restLen, slack]
  | succ n ih =>
    rw [slotsReads]
    have h := msgReads_le bs
    rcases hc : msgReads bs with ⟨c, o⟩
    rw [hc] at h
    cases o with
    | none => simpa [restLen, slack] using h
    | some r =>
      have := ih r
      have hr : restLen (some r) = r.length := rfl
      have hs : slack (some r) = 0 := rfl
      rw [hr, hs] at h
      simp only
      omega

theorem slack_le_one (o : Option Bytes) : slack o ≤ 1 := by cases o <;> simp [slack]

end C12
