import FiberModel.C12.Known
/-
C12 — helper lemmas: msgpack write/read round trips, length accounting of the readers, the
slot decoder on zeroed slots is the stateless reference decoder.
-/
namespace C12
open B

/-! ### write/read round trips -/

theorem takeExact_append (s rest : Bytes) : takeExact s.length (s ++ rest) = some (s, rest) := by
  simp [takeExact]

theorem readString_appendString (s rest : Bytes) (h : s.length < 4294967296) :
    readString (appendString s ++ rest) = some (s, rest) := by
  unfold appendString
  by_cases h1 : s.length < 32
  · simp only [h1, if_true, List.cons_append, readString]
    have : 160 ≤ 160 + s.length ∧ 160 + s.length ≤ 191 := by omega
    simp only [this, and_self, if_true, Nat.add_sub_cancel_left]
    exact takeExact_append s rest
  · by_cases h2 : s.length < 256
    · simp only [h1, h2, if_false, if_true, List.cons_append, readString]
      simp
      exact takeExact_append s rest
    · by_cases h3 : s.length < 65536
      · simp only [h1, h2, h3, if_false, if_true, List.cons_append, readString, be16]
        simp
        have : s.length / 256 % 256 * 256 + s.length % 256 = s.length := by omega
        rw [this]; exact takeExact_append s rest
      · simp only [h1, h2, h3, if_false, List.cons_append, readString, be32]
        simp
        have : s.length / 16777216 % 256 * 16777216 + s.length / 65536 % 256 * 65536 +
            s.length / 256 % 256 * 256 + s.length % 256 = s.length := by omega
        rw [this]; exact takeExact_append s rest

theorem readUint8_appendUint8 (u : Nat) (rest : Bytes) (h : u < 256) :
    readUint8 (appendUint8 u ++ rest) = some (u, rest) := by
  unfold appendUint8
  by_cases h1 : u < 128
  · simp [h1, readUint8]
  · simp [h1, readUint8, beNat, uintWidth, uintSigned]
    omega

theorem readBool_appendBool (v : Bool) (rest : Bytes) :
    readBool (appendBool v ++ rest) = some (v, rest) := by
  cases v <;> simp [appendBool, readBool]

theorem readArrayHeader_append (n : Nat) (rest : Bytes) (h : n < 4294967296) :
    readArrayHeader (appendArrayHeader n ++ rest) = some (n, rest) := by
  unfold appendArrayHeader
  by_cases h1 : n < 16
  · have : 144 ≤ 144 + n ∧ 144 + n ≤ 159 := by omega
    simp [h1, readArrayHeader, this]
  · by_cases h2 : n < 65536
    · simp [h1, h2, readArrayHeader, be16]
      omega
    · simp [h1, h2, readArrayHeader, be32]
      omega

/-- a message whose fields fit the wire format: string lengths below 2^32, level a byte -/
def Msg.valid (m : Msg) : Prop := m.key.length < 4294967296 ∧ m.value.length < 4294967296 ∧ m.level < 256

theorem readMapKey_fixstr (k rest : Bytes) (hk : k.length < 32) :
    readMapKey ((160 + k.length) :: (k ++ rest)) = some (k, rest) := by
  have h1 : ¬(160 + k.length = 196 ∨ 160 + k.length = 197 ∨ 160 + k.length = 198) := by omega
  have h2 : 160 ≤ 160 + k.length ∧ 160 + k.length ≤ 191 := by omega
  simp only [readMapKey, h1, if_false, readString, h2, and_self, if_true, Nat.add_sub_cancel_left]
  exact takeExact_append k rest

theorem readMapHeader_fix4 (t : Bytes) : readMapHeader (132 :: t) = some (4, t) := by
  simp [readMapHeader]

/-- decoding the canonical encoding of `m` overwrites every field: the result does not depend on
    what the element held before -/
theorem unmarshalMsg_encodeMsg (z m : Msg) (rest : Bytes) (hv : m.valid) :
    unmarshalMsg z (encodeMsg m ++ rest) = some (m, rest) := by
  obtain ⟨hk, hval, hl⟩ := hv
  have e1 : readMapKey (163 :: (kKey ++ (appendString m.key ++ ((165 :: kValue) ++ appendString m.value ++
      (165 :: kLevel) ++ appendUint8 m.level ++ (170 :: kOld) ++ appendBool m.old ++ rest)))) = some (kKey, _) :=
    readMapKey_fixstr kKey _ (by decide)
  have e2 : ∀ t, readMapKey (165 :: (kValue ++ t)) = some (kValue, t) := fun t => readMapKey_fixstr kValue t (by decide)
  have e3 : ∀ t, readMapKey (165 :: (kLevel ++ t)) = some (kLevel, t) := fun t => readMapKey_fixstr kLevel t (by decide)
  have e4 : ∀ t, readMapKey (170 :: (kOld ++ t)) = some (kOld, t) := fun t => readMapKey_fixstr kOld t (by decide)
  have n1 : kValue ≠ kKey := by decide
  have n2 : kLevel ≠ kKey := by decide
  have n3 : kLevel ≠ kValue := by decide
  have n4 : kOld ≠ kKey := by decide
  have n5 : kOld ≠ kValue := by decide
  have n6 : kOld ≠ kLevel := by decide
  unfold unmarshalMsg encodeMsg
  simp only [List.cons_append, List.nil_append, List.append_assoc]
  rw [readMapHeader_fix4]
  simp only [readFields]
  simp only [List.append_assoc, List.cons_append] at e1
  rw [e1]
  simp only [if_true]
  rw [readString_appendString _ _ hk]
  dsimp only
  rw [e2]
  simp only [n1, if_false, if_true]
  rw [readString_appendString _ _ hval]
  dsimp only
  rw [e3]
  simp only [n2, n3, if_false, if_true]
  rw [readUint8_appendUint8 _ _ hl]
  dsimp only
  rw [e4]
  simp only [n4, n5, n6, if_false, if_true]
  rw [readBool_appendBool]

/-! ### the stateless decoder -/

theorem parseMsgs_encodeMsgs (ms : List Msg) (rest : Bytes) (hv : ∀ m ∈ ms, m.valid) :
    parseMsgs ms.length (encodeMsgs ms ++ rest) = some (ms, rest) := by
  induction ms with
  | nil => simp [parseMsgs, encodeMsgs]
  | cons m ms ih =>
    simp only [List.length_cons, parseMsgs, encodeMsgs, List.append_assoc]
    rw [unmarshalMsg_encodeMsg _ _ _ (hv m (by simp))]
    simp only
    rw [ih (fun x hx => hv x (by simp [hx]))]

/-- decoding into zeroed slots is the stateless decoder -/
theorem unmarshalSlots_zero (n : Nat) (bs : Bytes) :
    unmarshalSlots (List.replicate n Msg.zero) bs = parseMsgs n bs := by
  induction n generalizing bs with
  | zero => simp [unmarshalSlots, parseMsgs]
  | succ n ih =>
    simp only [List.replicate_succ, unmarshalSlots, parseMsgs]
    cases unmarshalMsg Msg.zero bs with
    | none => rfl
    | some p =>
      simp only [ih]
      cases parseMsgs n p.2 <;> rfl

theorem readMapHeader_len {bs r : Bytes} {n : Nat} (h : readMapHeader bs = some (n, r)) :
    r.length < bs.length := by
  unfold readMapHeader at h
  split at h
  · simp at h
  · split at h
    · simp at h; obtain ⟨_, rfl⟩ := h; simp
    · split at h
      · split at h
        · simp at h; obtain ⟨_, rfl⟩ := h; simp; omega
        · simp at h
      · split at h
        · split at h
          · simp at h; obtain ⟨_, rfl⟩ := h; simp; omega
          · simp at h
        · simp at h

theorem takeExact_len {n : Nat} {bs v r : Bytes} (h : takeExact n bs = some (v, r)) : r.length ≤ bs.length := by
  unfold takeExact at h
  split at h
  · simp at h
  · simp at h; obtain ⟨_, rfl⟩ := h; simp

theorem readString_len {bs v r : Bytes} (h : readString bs = some (v, r)) : r.length ≤ bs.length := by
  unfold readString at h
  split at h
  · simp at h
  · split at h
    · have := takeExact_len h; simp; omega
    · split at h
      · split at h
        · have := takeExact_len h; simp; omega
        · simp at h
      · split at h
        · split at h
          · have := takeExact_len h; simp; omega
          · simp at h
        · split at h
          · split at h
            · have := takeExact_len h; simp; omega
            · simp at h
          · simp at h

theorem readBin_len {bs v r : Bytes} (h : readBin bs = some (v, r)) : r.length ≤ bs.length := by
  unfold readBin at h
  split at h
  · simp at h
  · split at h
    · split at h
      · have := takeExact_len h; simp; omega
      · simp at h
    · split at h
      · split at h
        · have := takeExact_len h; simp; omega
        · simp at h
      · split at h
        · split at h
          · have := takeExact_len h; simp; omega
          · simp at h
        · simp at h

theorem readMapKey_len {bs v r : Bytes} (h : readMapKey bs = some (v, r)) : r.length ≤ bs.length := by
  unfold readMapKey at h
  split at h
  · simp at h
  · split at h
    · exact readBin_len h
    · exact readString_len h

theorem readUint8_len {bs r : Bytes} {v : Nat} (h : readUint8 bs = some (v, r)) : r.length ≤ bs.length := by
  unfold readUint8 at h
  split at h
  · simp at h
  · split at h
    · simp at h; obtain ⟨_, rfl⟩ := h; simp
    · split at h
      · simp at h
      · split at h
        · simp at h
        · split at h
          · simp at h
          · split at h
            · simp at h
            · simp only [Option.some.injEq, Prod.mk.injEq] at h
              obtain ⟨_, rfl⟩ := h
              simp only [List.length_drop, List.length_cons]; omega

theorem readBool_len {bs r : Bytes} {v : Bool} (h : readBool bs = some (v, r)) : r.length ≤ bs.length := by
  unfold readBool at h
  split at h <;> simp at h <;> (obtain ⟨_, rfl⟩ := h; simp)

theorem skipObjs_len (fuel pending : Nat) (bs r : Bytes) (h : skipObjs fuel pending bs = some r) :
    r.length ≤ bs.length := by
  induction fuel generalizing pending bs with
  | zero =>
    cases pending with
    | zero => simp [skipObjs] at h; subst h; exact Nat.le_refl _
    | succ p => simp [skipObjs] at h
  | succ f ih =>
    cases pending with
    | zero => simp [skipObjs] at h; subst h; exact Nat.le_refl _
    | succ p =>
      simp only [skipObjs] at h
      split at h
      · simp at h
      · split at h
        · simp at h
        · have := ih _ _ h
          simp at this; omega

theorem readFields_len (n : Nat) (z m : Msg) (bs r : Bytes) (h : readFields n z bs = some (m, r)) :
    r.length ≤ bs.length := by
  induction n generalizing z bs with
  | zero => simp [readFields] at h; obtain ⟨_, rfl⟩ := h; exact Nat.le_refl _
  | succ n ih =>
    rw [readFields] at h
    split at h
    · simp at h
    · rename_i field r1 hk
      have hk' := readMapKey_len hk
      split at h
      · split at h
        · simp at h
        · rename_i v r2 hs
          have := readString_len hs; have := ih _ _ h; omega
      · split at h
        · split at h
          · simp at h
          · rename_i v r2 hs
            have := readString_len hs; have := ih _ _ h; omega
        · split at h
          · split at h
            · simp at h
            · rename_i v r2 hs
              have := readUint8_len hs; have := ih _ _ h; omega
          · split at h
            · split at h
              · simp at h
              · rename_i v r2 hs
                have := readBool_len hs; have := ih _ _ h; omega
            · split at h
              · simp at h
              · rename_i r2 hs
                have := skipObjs_len _ _ _ _ hs; have := ih _ _ h; omega

/-- every message takes at least one byte (its map header) -/
theorem unmarshalMsg_len {z m : Msg} {bs r : Bytes} (h : unmarshalMsg z bs = some (m, r)) :
    r.length < bs.length := by
  unfold unmarshalMsg at h
  split at h
  · simp at h
  · rename_i n r1 hm
    have := readMapHeader_len hm
    have := readFields_len _ _ _ _ _ h
    omega

theorem parseMsgs_len (n : Nat) (bs r : Bytes) (ms : List Msg) (h : parseMsgs n bs = some (ms, r)) :
    ms.length = n ∧ r.length + n ≤ bs.length := by
  induction n generalizing bs ms with
  | zero => simp [parseMsgs] at h; obtain ⟨rfl, rfl⟩ := h; simp
  | succ n ih =>
    simp only [parseMsgs] at h
    split at h
    · simp at h
    · rename_i m r1 hm
      split at h
      · simp at h
      · rename_i ms' r2 hp
        simp at h; obtain ⟨rfl, rfl⟩ := h
        have := unmarshalMsg_len hm
        have := ih _ _ hp
        simp; omega

theorem readArrayHeader_len {bs r : Bytes} {n : Nat} (h : readArrayHeader bs = some (n, r)) :
    r.length < bs.length := by
  unfold readArrayHeader at h
  split at h
  · simp at h
  · split at h
    · simp at h; obtain ⟨_, rfl⟩ := h; simp
    · split at h
      · split at h
        · simp at h; obtain ⟨_, rfl⟩ := h; simp; omega
        · simp at h
      · split at h
        · split at h
          · simp at h; obtain ⟨_, rfl⟩ := h; simp; omega
          · simp at h
        · simp at h

end C12

namespace C12
open B

/-! ### the reused slice -/

theorem slotsFor_wipe (s : Slice) (n : Nat) : (slotsFor s.wipe n).1 = List.replicate n Msg.zero := by
  unfold slotsFor
  split
  · rename_i hcap
    simp only [Slice.wipe, Slice.cap, List.length_replicate] at hcap ⊢
    simp [List.take_replicate, Nat.min_eq_left hcap]
  · rfl

theorem slotsFor_alloc (s : Slice) (n : Nat) : (slotsFor s n).2.2 ≤ n * msgSize := by
  unfold slotsFor; split <;> simp

theorem slotsFor_total (s : Slice) (n : Nat) :
    (slotsFor s n).1.length = n ∧ (slotsFor s n).1.length + (slotsFor s n).2.1.length ≤ max s.cap n := by
  unfold slotsFor
  split
  · rename_i h; simp only [Slice.cap] at h ⊢; simp; omega
  · simp; omega

theorem unmarshalSlots_length (slots ms : List Msg) (bs r : Bytes)
    (h : unmarshalSlots slots bs = some (ms, r)) : ms.length = slots.length := by
  induction slots generalizing bs ms r with
  | nil => simp [unmarshalSlots] at h; simp [h.1.symm]
  | cons z zs ih =>
    simp only [unmarshalSlots] at h
    split at h
    · simp at h
    · split at h
      · simp at h
      · rename_i ms2 r2 h2
        simp at h; obtain ⟨rfl, _⟩ := h
        simp [ih _ _ _ h2]

/-- `UnmarshalMsg` on the wiped slice is the stateless decoder -/
theorem unmarshalMsgs_wipe (s : Slice) (cookie body : Bytes) (n : Nat)
    (hh : readArrayHeader cookie = some (n, body)) :
    unmarshalMsgs s.wipe cookie =
      match parseMsgs n body with
      | none => (⟨List.replicate n Msg.zero ++ (slotsFor s.wipe n).2.1, n⟩, none, (slotsFor s.wipe n).2.2)
      | some (ms, r') => (⟨ms ++ (slotsFor s.wipe n).2.1, n⟩, some r', (slotsFor s.wipe n).2.2) := by
  unfold unmarshalMsgs
  simp only [hh, slotsFor_wipe, unmarshalSlots_zero]
  cases parseMsgs n body with
  | none => rfl
  | some p => rfl

end C12
