import FiberModel.C12.Spec
/-
C12 — regions of recorded known findings (see known/C12.json).

K1: the flash cookie value is the raw msgpack encoding. Its first byte is an array header (≥ 0x90),
so it is never inside the cookie-octet alphabet and a conforming client (Go's net/http) drops the
cookie: no non-empty message set survives a real exchange. Even a client that copies the value
verbatim fails whenever the encoding contains a byte fiber's own server rejects in a header value
(every level < 32, every old-input message, …), a `;`, or CR/LF (which `Cookie` replaces by a space).
Existing tests (redirect_test.go) pin the raw encoding, so it is recorded, not repaired.
-/
namespace C12.Known
open B C12

/-- `transparent = false`: conforming client; `true`: verbatim-copying client -/
def K1 (transparent : Bool) (msgs : List Msg) : Bool :=
  msgs ≠ [] && (if transparent then !transparentSafe (encode msgs) else !wireSafe (encode msgs))

/-- K1 as far as the clause `encode-faithful` is concerned: the raw encoding contains CR or LF, which
    `Cookie`'s sanitiser replaces by a space (so the issued value no longer decodes to the messages).
    Any other unfaithful encoding is NOT part of the finding. -/
def K1faithful (msgs : List Msg) : Bool :=
  msgs ≠ [] && (encode msgs).any fun c => c = 10 || c = 13

/-- the region of K1 for a failing clause of the round-trip specs -/
def K1for (clause : Option String) (transparent : Bool) (msgs : List Msg) : Bool :=
  match clause with
  | some "wire-safe" => K1 transparent msgs
  | some "encode-faithful" => K1faithful msgs
  | _ => false

end C12.Known
