import FiberModel.C19.Wildcard
/-
C19 — the converse: whatever text `normalizeOrigin` accepts has the shape
`[scheme:]//authority` followed by nothing but an optional root path, an optional empty query marker
and an optional empty fragment marker. Any path beyond `/`, any query, any fragment, an empty host,
`null`, a bare host name: refused. So the constructor strips exactly `/`, `?`, `#` markers (and the
userinfo, inside the authority) and refuses everything else.
-/
namespace C19
open B Url

/-- what may follow the authority of an accepted text -/
def acceptedTails : List Bytes := [[], [47], [63], [47, 63], [35], [47, 35], [63, 35], [47, 63, 35]]

theorem count_eq_zero_not_mem (s : Bytes) (c : Nat) (h : s.count c = 0) : c ∉ s := by
  intro m
  have := List.count_pos_iff.mpr m
  omega

theorem dropLast_getLast (l : Bytes) (c : Nat) (h : l.getLast? = some c) : l = l.dropLast ++ [c] := by
  induction l with
  | nil => simp at h
  | cons a t ih =>
    cases t with
    | nil => simp at h; simp [h]
    | cons b' t' =>
      have : (b' :: t').getLast? = some c := by simpa [List.getLast?_cons_cons] using h
      have := ih this
      simp only [List.dropLast_cons_cons, List.cons_append]
      rw [← this]

/-- two texts free of `/ ? #`, one followed by such a delimiter and the other by delimiters only,
    that make the same whole, are equal -/
theorem split_at_delim (A A' : Bytes) (c : Nat) (extra T : Bytes)
    (hA : ∀ y ∈ A, y ≠ 47 ∧ y ≠ 63 ∧ y ≠ 35) (hA' : ∀ y ∈ A', y ≠ 47 ∧ y ≠ 63 ∧ y ≠ 35)
    (hc : c = 47 ∨ c = 63 ∨ c = 35) (hT : ∀ y ∈ T, y = 47 ∨ y = 63 ∨ y = 35)
    (e : A ++ c :: extra = A' ++ T) : A = A' ∧ c :: extra = T := by
  induction A generalizing A' with
  | nil =>
    cases A' with
    | nil => exact ⟨rfl, by simpa using e⟩
    | cons y ys =>
      simp only [List.nil_append, List.cons_append, List.cons.injEq] at e
      have := hA' y (by simp)
      rw [← e.1] at this
      omega
  | cons a as ih =>
    cases A' with
    | nil =>
      simp only [List.cons_append, List.nil_append] at e
      have h1 := hT a (by rw [← e]; simp)
      have h2 := hA a (by simp)
      omega
    | cons y ys =>
      simp only [List.cons_append, List.cons.injEq] at e
      obtain ⟨e1, e2⟩ := ih ys (fun z hz => hA z (by simp [hz])) (fun z hz => hA' z (by simp [hz])) e.2
      exact ⟨by rw [e.1, e1], e2⟩

/-- the `?` handling, read backwards: an empty RawQuery means no `?` at all, or a single trailing one -/
theorem splitQuery_inv (rest0 : Bytes) (h : (splitQuery rest0).2 = []) :
    63 ∉ (splitQuery rest0).1 ∧ (rest0 = (splitQuery rest0).1 ∨ rest0 = (splitQuery rest0).1 ++ [63]) := by
  unfold splitQuery at h ⊢
  split
  · rename_i hc
    simp only [Bool.and_eq_true, decide_eq_true_eq] at hc
    obtain ⟨hl, hcnt⟩ := hc
    have e : rest0 = rest0.dropLast ++ [63] := dropLast_getLast rest0 63 hl
    refine ⟨?_, Or.inr e⟩
    show 63 ∉ rest0.dropLast
    apply count_eq_zero_not_mem
    have : countByte rest0 63 = countByte (rest0.dropLast ++ [63]) 63 := by rw [← e]
    simp only [countByte, List.count_append, List.count_singleton_self] at this hcnt
    omega
  · rename_i hc
    simp only [hc, Bool.false_eq_true, ite_false] at h
    cases h2 : (cut rest0 63).2 with
    | none => exact ⟨by rw [(cut_none h2).2]; exact (cut_none h2).1, Or.inl (cut_none h2).2.symm⟩
    | some r =>
      simp only [h2, Option.getD_some] at h
      subst h
      exact ⟨(cut_some h2).2, Or.inr (cut_some h2).1⟩

theorem unescape_slash_only (p : Bytes) (h : unescape .other (47 :: p) = some [47]) : p = [] := by
  unfold unescape at h
  simp only [show (47 : Nat) ≠ 37 by decide, ite_false] at h
  split at h
  · simp at h
  · cases hu : unescape .other p with
    | none => simp [hu] at h
    | some t =>
      simp [hu] at h
      subst h
      cases p with
      | nil => rfl
      | cons a as => exact absurd rfl (unescape_ne_nil _ _ _ (by simp) hu)

/-- **Whatever `normalizeOrigin` accepts.** If `normalizeOrigin x = some n` then
    `x = [S ":"] "//" A T` with `S` a scheme `[a-zA-Z][a-zA-Z0-9+.-]*` (or no scheme at all), an
    authority `A` free of `/ ? #`, whose host (`parseAuthority`) is non-empty and free of `*`, a tail
    `T` among `"" "/" "?" "/?" "#" "/#" "?#" "/?#"`, and `n = lower(S)://lower(host)`. -/
theorem normalizeOrigin_some_shape (x n : Bytes) (h : normalizeOrigin x = some n) :
    ∃ S A T host,
      ((S = [] ∧ x = 47 :: 47 :: (A ++ T)) ∨ (schemeShaped S = true ∧ x = S ++ 58 :: 47 :: 47 :: (A ++ T))) ∧
      T ∈ acceptedTails ∧ 47 ∉ A ∧ 63 ∉ A ∧ 35 ∉ A ∧
      parseAuthority A = some host ∧ host ≠ [] ∧ 42 ∉ host ∧
      n = toLower S ++ b "://" ++ toLower host := by
  rw [normalizeOrigin_eq_originOfText] at h
  unfold originOfText at h
  cases hp : parse x with
  | none => simp [hp] at h
  | some u =>
    simp only [hp] at h
    by_cases hc : (u.host ≠ [] ∧ ¬ u.host.contains 42 ∧ (u.path = [] ∨ u.path = b "/") ∧ u.rawQuery = [] ∧ u.fragment = [])
    case neg => rw [if_neg hc] at h; simp at h
    rw [if_pos hc] at h
    obtain ⟨hhost, hstar, hpath, hq, hf⟩ := hc
    simp only [Option.some.injEq] at h
    -- fragment
    obtain ⟨u0, h0, _, _, _, _, hfr⟩ := parse_inv x u hp
    obtain ⟨hu, hcutF⟩ := hfr hf
    subst hu
    have hx0 : 35 ∉ (cut x 35).1 ∧ (x = (cut x 35).1 ∨ x = (cut x 35).1 ++ [35]) := by
      rcases hcutF with e | e
      · exact ⟨by rw [(cut_none e).2]; exact (cut_none e).1, Or.inl (cut_none e).2.symm⟩
      · exact ⟨(cut_some e).2, Or.inr (cut_some e).1⟩
    -- scheme, query, authority, path
    obtain ⟨_, _, sch, rest0, hg, hsch, hrq, r2, hr, hpa, hup⟩ := parseNoFrag_inv _ _ h0 hhost
    rw [hq] at hrq
    obtain ⟨hq63, hqsplit⟩ := splitQuery_inv rest0 hrq.symm
    rw [hr] at hq63 hqsplit
    -- the path
    have hA : 47 ∉ (cut r2 47).1 ∧ (r2 = (cut r2 47).1 ∨ r2 = (cut r2 47).1 ++ [47]) := by
      cases h2 : (cut r2 47).2 with
      | none => exact ⟨by rw [(cut_none h2).2]; exact (cut_none h2).1, Or.inl (cut_none h2).2.symm⟩
      | some p =>
        simp only [h2] at hup
        have hp1 : u.path = [47] := by
          rcases hpath with e | e
          · exact absurd e (unescape_ne_nil _ _ _ (by simp) hup)
          · rw [e]; rfl
        rw [hp1] at hup
        have := unescape_slash_only p hup
        subst this
        exact ⟨(cut_some h2).2, Or.inr (cut_some h2).1⟩
    -- membership facts for the authority
    have hsub : ∀ c, c ∈ (cut r2 47).1 → c ∈ r2 := by
      intro c hc
      rcases hA.2 with e | e
      · rw [e]; exact hc
      · rw [e]; simp [hc]
    have hA63 : 63 ∉ (cut r2 47).1 := fun m => hq63 (by simp [hsub 63 m])
    have hrest0 : ∀ c, c ∈ r2 → c ∈ rest0 := by
      intro c hc
      rcases hqsplit with e | e
      · rw [e]; simp [hc]
      · rw [e]; simp [hc]
    have hx0mem : ∀ c, c ∈ rest0 → c ∈ (cut x 35).1 := by
      intro c hc
      rcases getScheme_inv _ _ _ hg with ⟨_, e⟩ | ⟨_, e⟩
      · rw [← e]; exact hc
      · rw [e]; simp [hc]
    have hA35 : 35 ∉ (cut r2 47).1 := fun m => hx0.1 (hx0mem 35 (hrest0 35 (hsub 35 m)))
    obtain ⟨T0, hT0, e1⟩ : ∃ T0, (T0 = [] ∨ T0 = [47]) ∧ r2 = (cut r2 47).1 ++ T0 := by
      rcases hA.2 with e | e
      · exact ⟨[], Or.inl rfl, by simpa using e⟩
      · exact ⟨[47], Or.inr rfl, e⟩
    obtain ⟨Q, hQ, e2⟩ : ∃ Q, (Q = [] ∨ Q = [63]) ∧ rest0 = 47 :: 47 :: r2 ++ Q := by
      rcases hqsplit with e | e
      · exact ⟨[], Or.inl rfl, by simpa using e⟩
      · exact ⟨[63], Or.inr rfl, e⟩
    obtain ⟨F, hF, e3⟩ : ∃ F, (F = [] ∨ F = [35]) ∧ x = (cut x 35).1 ++ F := by
      rcases hx0.2 with e | e
      · exact ⟨[], Or.inl rfl, by simpa using e⟩
      · exact ⟨[35], Or.inr rfl, e⟩
    have hsi := getScheme_inv _ _ _ hg
    refine ⟨sch, (cut r2 47).1, T0 ++ Q ++ F, u.host, ?_, ?_, hA.1, hA63, hA35, hpa, hhost, by simpa using hstar, ?_⟩
    · generalize (cut r2 47).1 = A at *
      generalize (cut x 35).1 = x0 at *
      subst e1
      subst e2
      rcases hsi with ⟨es, e⟩ | ⟨hs, e⟩
      · left; subst e; exact ⟨es, by rw [e3]; simp⟩
      · right; subst e; exact ⟨hs, by rw [e3]; simp⟩
    · unfold acceptedTails
      rcases hT0 with e | e <;> rcases hQ with e' | e' <;> rcases hF with e'' | e'' <;> subst e e' e'' <;> simp
    · rw [← h, hsch, toLower_idem]

/-- … in particular: a text with a path beyond `/`, a non-empty query or a non-empty fragment, or
    without `//`, is refused. Stated for the usual ways to get it wrong. -/
theorem normalizeOrigin_rejects (S A : Bytes) (hS : schemeShaped S = true) (hA : clean A) (extra : Bytes)
    (hextra : extra ≠ []) (hx : clean extra) :
    normalizeOrigin (S ++ b "://" ++ A ++ 47 :: extra) = none ∧
    normalizeOrigin (S ++ b "://" ++ A ++ 63 :: extra) = none ∧
    normalizeOrigin (S ++ b "://" ++ A ++ 35 :: extra) = none := by
  obtain ⟨hA35, hA47, hA63⟩ := not_mem_of_clean hA
  obtain ⟨hx35, hx47, hx63⟩ := not_mem_of_clean hx
  obtain ⟨hS35, hS47, hS63⟩ := not_mem_of_clean (schemeShaped_clean hS)
  have hS58 := schemeShaped_no_colon hS
  -- any accepted decomposition of `S://A c extra` ends in a tail that would have to start with c :: extra
  have key : ∀ c : Nat, (c = 47 ∨ c = 63 ∨ c = 35) →
      normalizeOrigin (S ++ b "://" ++ A ++ c :: extra) = none := by
    intro c hc
    cases hn : normalizeOrigin (S ++ b "://" ++ A ++ c :: extra) with
    | none => rfl
    | some n =>
      exfalso
      obtain ⟨S', A', T, host, hshape, hT, h47, h63, h35, _⟩ := normalizeOrigin_some_shape _ _ hn
      have hx' : S ++ b "://" ++ A ++ c :: extra = S ++ 58 :: 47 :: 47 :: (A ++ c :: extra) := by simp [b]
      rcases hshape with ⟨_, e⟩ | ⟨hs', e⟩
      · -- no scheme: the text would start with '/'
        rw [hx'] at e
        cases S with
        | nil => simp [schemeShaped] at hS
        | cons a t =>
          simp only [List.cons_append, List.cons.injEq] at e
          have := hS47; simp [e.1] at this
      · rw [hx'] at e
        have hS'58 := schemeShaped_no_colon hs'
        obtain ⟨e1, e2⟩ := append_colon_inj S S' _ _ (fun m => hS58 58 m rfl) (fun m => hS'58 58 m rfl) e
        simp only [List.cons.injEq, true_and] at e2
        -- A ++ c :: extra = A' ++ T, both A and A' free of / ? #: A = A' and T = c :: extra
        have hA'free : ∀ y ∈ A', y ≠ 47 ∧ y ≠ 63 ∧ y ≠ 35 := fun y hy =>
          ⟨fun e => h47 (e ▸ hy), fun e => h63 (e ▸ hy), fun e => h35 (e ▸ hy)⟩
        have hAfree : ∀ y ∈ A, y ≠ 47 ∧ y ≠ 63 ∧ y ≠ 35 := fun y hy =>
          ⟨fun e => hA47 (e ▸ hy), fun e => hA63 (e ▸ hy), fun e => hA35 (e ▸ hy)⟩
        have hTdelim : ∀ y ∈ T, y = 47 ∨ y = 63 ∨ y = 35 := by
          intro y hy
          unfold acceptedTails at hT
          simp only [List.mem_cons, List.not_mem_nil, or_false] at hT
          rcases hT with e | e | e | e | e | e | e | e <;> subst e <;> simp at hy <;> omega
        obtain ⟨eA, eT⟩ := split_at_delim A A' c extra T hAfree hA'free hc hTdelim e2
        -- T = c :: extra with extra non-empty and delimiter-free: no accepted tail
        obtain ⟨d, ds, rfl⟩ := List.exists_cons_of_ne_nil hextra
        have hd : d ≠ 47 ∧ d ≠ 63 ∧ d ≠ 35 :=
          ⟨fun e => hx47 (by simp [e]), fun e => hx63 (by simp [e]), fun e => hx35 (by simp [e])⟩
        have := hTdelim d (by rw [← eT]; simp)
        omega
  exact ⟨key 47 (Or.inl rfl), key 63 (Or.inr (Or.inl rfl)), key 35 (Or.inr (Or.inr rfl))⟩

end C19
