import FiberModel.C19.Reject
/-
C19 — the constructor as a whole: exactly which configurations `cors.New` refuses (panics on), read
off the configuration text; and two consequences for what the lists can ever permit.
-/
namespace C19
open B Url

/-- the entries `New` looks at: everything in front of the first `*` -/
def liveEntries : List Bytes → List Bytes
  | [] => []
  | e :: rest => if e = b "*" then [] else e :: liveEntries rest

/-- the entry denotes something: an origin, or (wildcard entry) a scheme and a dot-led host suffix -/
def entryValid (e : Bytes) : Bool :=
  match indexOf e (b "://*.") with
  | some i => (wildcardOfText (trim (e.take (i + 3) ++ e.drop (i + 4)) 32)).isSome
  | none => (originOfText (trim e 32)).isSome

/-- `New` does not panic: every entry it looks at denotes something, and credentials are not
    combined with "all origins" -/
def ctorAccepts (cfg : Config) : Bool :=
  (liveEntries cfg.allowOrigins).all entryValid && !(cfg.credentials && cfgAllowsAll cfg)

theorem entryValid_wild (e : Bytes) (i : Nat) (hi : indexOf e (b "://*.") = some i) :
    entryValid e = (wildcardSplit (trim (e.take (i + 3) ++ e.drop (i + 4)) 32)).isSome := by
  unfold entryValid; rw [hi, wildcardSplit_eq_wildcardOfText]

theorem entryValid_exact (e : Bytes) (hi : indexOf e (b "://*.") = none) :
    entryValid e = (normalizeOrigin (trim e 32)).isSome := by
  unfold entryValid; rw [hi, normalizeOrigin_eq_originOfText]

theorem buildLoop_isSome (es : List Bytes) (os : List Bytes) (ss : List Subdomain) :
    (buildLoop es os ss).isSome = (liveEntries es).all entryValid := by
  induction es generalizing os ss with
  | nil => simp [buildLoop, liveEntries]
  | cons e rest ih =>
    unfold buildLoop liveEntries
    by_cases hs : e = b "*"
    · simp [hs]
    · simp only [hs, ite_false, List.all_cons]
      cases hi : indexOf e (b "://*.") with
      | some i =>
        rw [entryValid_wild e i hi]
        simp only
        cases hw : wildcardSplit (trim (e.take (i + 3) ++ e.drop (i + 4)) 32) with
        | none => simp
        | some ps => obtain ⟨p1, p2⟩ := ps; simp [ih]
      | none =>
        rw [entryValid_exact e hi]
        simp only
        cases hn : normalizeOrigin (trim e 32) with
        | none => simp
        | some n => simp [ih]

/-- **Exactly which configurations the constructor refuses.** `cors.New(cfg)` returns a handler iff
    every `AllowOrigins` entry in front of the first `*` denotes an origin (or, with `://*.`, a
    scheme and a dot-led host suffix) and `AllowCredentials` is not combined with "all origins". -/
theorem build_isSome_iff (cfg : Config) (dm : List Bytes) : (build cfg dm).isSome = ctorAccepts cfg := by
  unfold build buildCore ctorAccepts
  -- the AllowMethods defaulting touches nothing the constructor decides on
  have key : ∀ c : Config, c.allowOrigins = cfg.allowOrigins → c.allowFunc = cfg.allowFunc →
      c.credentials = cfg.credentials →
      (match buildLoop c.allowOrigins [] [] with
        | none => none
        | some (os, ss, star) =>
          if c.credentials && (star || (c.allowOrigins.isEmpty && c.allowFunc.isNone)) then none
          else some ({ origins := os, subs := ss,
                       allowAll := star || (c.allowOrigins.isEmpty && c.allowFunc.isNone), cfg := c } : Built)).isSome
      = ((liveEntries cfg.allowOrigins).all entryValid && !(cfg.credentials && cfgAllowsAll cfg)) := by
    intro c h1 h2 h3
    rw [h1, h2, h3]
    have hl := buildLoop_isSome cfg.allowOrigins [] []
    cases hb : buildLoop cfg.allowOrigins [] [] with
    | none => rw [hb] at hl; simp [← hl]
    | some r =>
      obtain ⟨os, ss, star⟩ := r
      rw [hb] at hl
      have hstar := (buildLoop_spec _ _ _ _ _ _ hb).1
      simp only [← hl, Option.isSome_some, Bool.true_and]
      unfold cfgAllowsAll
      rw [← hstar]
      cases cfg.credentials <;> cases star <;> cases (cfg.allowOrigins.isEmpty && cfg.allowFunc.isNone) <;> simp
  by_cases hm : cfg.allowMethods.isEmpty = true
  · simp only [hm, ite_true]; exact key { cfg with allowMethods := dm } rfl rfl rfl
  · simp only [hm, Bool.false_eq_true, ite_false]; exact key cfg rfl rfl rfl

/-- what a list entry permits always has a scheme separator: `null`, a bare host name, the empty
    text are never permitted by `AllowOrigins` (only `AllowOriginsFunc` can let them through) -/
theorem entryPermits_has_sep (e o : Bytes) (h : entryPermits e o = true) : ∃ s r, o = s ++ b "://" ++ r := by
  unfold entryPermits at h
  cases hi : indexOf e (b "://*.") with
  | some i =>
    simp only [hi] at h
    cases hw : wildcardOfText (trim (e.take (i + 3) ++ e.drop (i + 4)) 32) with
    | none => simp [hw] at h
    | some ps =>
      obtain ⟨pre, suf⟩ := ps
      simp only [hw] at h
      obtain ⟨mid, hm⟩ := subdomain_match_sound { pre := pre, suf := suf } o h
      unfold wildcardOfText at hw
      cases hp : parse (trim (e.take (i + 3) ++ e.drop (i + 4)) 32) with
      | none => simp [hp] at hw
      | some u =>
        simp only [hp] at hw
        split at hw
        · simp only [Option.some.injEq, Prod.mk.injEq] at hw
          refine ⟨toLower u.scheme, mid ++ suf, ?_⟩
          rw [hm]; simp only; rw [← hw.1]; simp
        · simp at hw
  | none =>
    simp only [hi] at h
    unfold originOfText at h
    cases hp : parse (trim e 32) with
    | none => simp [hp] at h
    | some u =>
      simp only [hp] at h
      split at h
      · simp only [beq_iff_eq, Option.some.injEq] at h
        exact ⟨toLower u.scheme, toLower u.host, h.symm⟩
      · simp at h

/-- **`null` is never permitted by the lists.** For every configuration the constructor accepts that
    does not allow all origins, the handler's list decision refuses the origin `null` (and any other
    text without `://`). -/
theorem null_never_listed (cfg : Config) (dm : List Bytes) (bt : Built) (h : build cfg dm = some bt)
    (hA : bt.allowAll = false) : listAllows bt (b "null") = false := by
  unfold build at h
  obtain ⟨_, _, h3⟩ := buildCore_spec _ _ h
  rw [h3 hA]
  unfold cfgListPermits
  rw [List.any_eq_false]
  intro e _ hp
  obtain ⟨s, r, hs⟩ := entryPermits_has_sep e _ hp
  have : (58 : Nat) ∈ b "null" := by rw [hs]; simp [b]
  revert this; decide

/-- Non-vacuity of `build_isSome_iff`, both ways. -/
example : ctorAccepts { allowOrigins := [b "https://a.io", b " http://*.b.io/ "], allowFunc := none, allowMethods := [],
                        allowHeaders := [], exposeHeaders := [], maxAge := 0, credentials := true,
                        privateNetwork := false } = true ∧
          ctorAccepts { allowOrigins := [b "https://a.io", b "*"], allowFunc := none, allowMethods := [],
                        allowHeaders := [], exposeHeaders := [], maxAge := 0, credentials := true,
                        privateNetwork := false } = false ∧
          ctorAccepts { allowOrigins := [b "https://a.io/x"], allowFunc := none, allowMethods := [],
                        allowHeaders := [], exposeHeaders := [], maxAge := 0, credentials := false,
                        privateNetwork := false } = false := by decide +kernel

end C19
