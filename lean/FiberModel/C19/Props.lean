import FiberModel.C19.Spec
/-
C19 — property theorems (only). Quantified over every configuration `New` accepts, every
`AllowOriginsFunc`, every request.
-/
namespace C19
open B

/-- `allowOrigin` is `*` when all origins are allowed, otherwise empty or a permitted origin. -/
theorem allowOrigin_cases (bt : Built) (o : Bytes) :
    (bt.allowAll = true ∧ allowOrigin bt o = b "*") ∨
    (bt.allowAll = false ∧ (allowOrigin bt o = [] ∨ (allowOrigin bt o = o ∧ o ≠ [] ∧ permitted bt o = true))) := by
  unfold allowOrigin permitted
  cases hA : bt.allowAll <;> simp
  by_cases ho : o = []
  · subst ho; cases hf : bt.cfg.allowFunc <;> simp <;> split <;> simp
  · cases hO : bt.origins.contains o <;> cases hS : bt.subs.any (·.match o) <;>
      cases hf : bt.cfg.allowFunc <;> simp_all
    all_goals (try (rename_i f; cases hfo : f o <;> simp_all))

theorem simpleAcao_cases (cfg : Config) (a : Bytes) :
    ((simpleAcao cfg a).1 = none ∧ (simpleAcao cfg a).2 = false) ∨
    ((simpleAcao cfg a).1 = some a ∧ a ≠ [] ∧ ((simpleAcao cfg a).2 = true → cfg.credentials = true ∧ a ≠ b "*")) := by
  unfold simpleAcao
  by_cases h1 : cfg.credentials = true <;> by_cases h2 : a = b "*" <;> by_cases h3 : a = [] <;> simp_all [b]

theorem star_ne_nil : b "*" ≠ [] := by decide

/-- The CORS headers of the reply are absent or come from `setSimpleHeaders`. -/
theorem handle_acao (bt : Built) (q : Request) :
    ((handle bt q).acao = none ∧ (handle bt q).acac = false) ∨
    ((handle bt q).acao = (simpleAcao bt.cfg (allowOrigin bt (toLower q.origin))).1 ∧
     (handle bt q).acac = (simpleAcao bt.cfg (allowOrigin bt (toLower q.origin))).2) := by
  unfold handle
  by_cases h0 : q.skip = true <;> by_cases h1 : toLower q.origin = [] <;> by_cases h2 : q.method = OPTIONS <;>
    by_cases h3 : q.acrMethod = [] <;> simp [h0, h1, h2, h3]

/-- clause 1 for the model -/
theorem acao_only_if_allowed (bt : Built) (q : Request) : acaoOK bt q (handle bt q) = true := by
  unfold acaoOK
  rcases handle_acao bt q with ⟨h, _⟩ | ⟨h, _⟩
  · simp [h]
  · rw [h]
    rcases simpleAcao_cases bt.cfg (allowOrigin bt (toLower q.origin)) with ⟨h1, _⟩ | ⟨h1, hne, _⟩
    · simp [h1]
    · simp only [h1]
      rcases allowOrigin_cases bt (toLower q.origin) with ⟨hA, hv⟩ | ⟨hA, hv | ⟨hv, hn, hp⟩⟩
      · simp [hA, hv]
      · exact absurd hv hne
      · simp [hA, hv, hn, hp]

/-- clause 2 for the model: `Access-Control-Allow-Credentials` is never paired with `*` -/
theorem never_star_with_credentials (bt : Built) (q : Request) : credsOK bt (handle bt q) = true := by
  unfold credsOK
  rcases handle_acao bt q with ⟨_, h⟩ | ⟨h, h'⟩
  · simp [h]
  · rw [h, h']
    rcases simpleAcao_cases bt.cfg (allowOrigin bt (toLower q.origin)) with ⟨h1, h2⟩ | ⟨h1, hne, h2⟩
    · simp [h2]
    · cases hh : (simpleAcao bt.cfg (allowOrigin bt (toLower q.origin))).2
      · simp
      · have := h2 hh; simp [h1, this]

/-- clause 3 for the model -/
theorem vary_origin_when_varies (bt : Built) (q : Request) : varyOK bt q (handle bt q) = true := by
  unfold varyOK handle
  cases hA : bt.allowAll <;> cases hs : q.skip <;> simp
  repeat' split
  all_goals simp [vOrigin, vACRM, vACRH, vACRPN]

/-- clause 0 for the model -/
theorem next_skips_middleware (bt : Built) (q : Request) : skipOK q (handle bt q) = true := by
  unfold skipOK handle
  cases hs : q.skip <;> simp

/-- clause 4 for the model -/
theorem preflight_204_configured (bt : Built) (q : Request) : preflightOK bt q (handle bt q) = true := by
  unfold preflightOK isPreflight handle
  by_cases h0 : q.skip = true
  · simp [h0]
  by_cases h1 : toLower q.origin = []
  · simp [h0, h1]
  · by_cases h2 : q.method = OPTIONS
    · by_cases h3 : q.acrMethod = []
      · simp [h0, h1, h2, h3]
      · simp [h0, h1, h2, h3]
    · simp [h0, h1, h2]

/-- **Main theorem.** The handler meets every clause of the property, for every built
    configuration (any origin lists, any allow function) and every request. -/
theorem handle_meets_spec (bt : Built) (q : Request) : specViolation bt q (handle bt q) = none := by
  unfold specViolation
  simp [next_skips_middleware, acao_only_if_allowed, never_star_with_credentials, vary_origin_when_varies, preflight_204_configured]

/-- A configuration with credentials and a wildcard is refused by the constructor. -/
theorem buildCore_refuses_star_with_credentials (cfg : Config) (bt : Built)
    (h : buildCore cfg = some bt) : ¬ (bt.cfg.credentials = true ∧ bt.allowAll = true) := by
  unfold buildCore at h
  split at h
  · simp at h
  · split at h
    · simp at h
    · rename_i hc
      simp only [Option.some.injEq] at h
      subst h
      simpa using hc

theorem build_refuses_star_with_credentials (cfg : Config) (dm : List Bytes) (bt : Built)
    (h : build cfg dm = some bt) : ¬ (bt.cfg.credentials = true ∧ bt.allowAll = true) :=
  buildCore_refuses_star_with_credentials _ bt h

/-- `subdomain.match` is sound: the origin starts with the entry's `scheme://` and ends with its
    `.domain` suffix, the two not overlapping. -/
theorem subdomain_match_sound (s : Subdomain) (o : Bytes) (h : s.match o = true) :
    ∃ mid, o = s.pre ++ mid ++ s.suf := by
  unfold Subdomain.match hasPrefix hasSuffix at h
  simp only [Bool.and_eq_true, decide_eq_true_eq] at h
  obtain ⟨⟨hl, hp⟩, hs⟩ := h
  rw [List.isPrefixOf_iff_prefix] at hp
  rw [List.isSuffixOf_iff_suffix] at hs
  obtain ⟨t, ht⟩ := hp
  obtain ⟨u, hu⟩ := hs
  subst ht
  have : s.suf.length ≤ t.length := by simp at hl; omega
  have hsuf : s.suf <:+ t := by
    have h1 : s.suf <:+ s.pre ++ t := ⟨u, hu⟩
    have h2 : t <:+ s.pre ++ t := List.suffix_append _ _
    exact List.suffix_of_suffix_length_le h1 h2 this
  obtain ⟨m, hm⟩ := hsuf
  exact ⟨m, by rw [← hm]; simp⟩

/-- Non-vacuity: a concrete configuration is accepted by `New`, a subdomain origin is allowed and a
    look-alike is not. -/
example :
    (build { allowOrigins := [b "https://*.example.com", b "http://a.io"], allowFunc := none,
             allowMethods := [], allowHeaders := [], exposeHeaders := [], maxAge := 0,
             credentials := true, privateNetwork := false } [b "GET"]).map
      (fun bt => (allowOrigin bt (b "https://x.example.com"), allowOrigin bt (b "https://xexample.com"),
                  allowOrigin bt (b "http://a.io")))
      = some (b "https://x.example.com", [], b "http://a.io") := by decide

end C19
