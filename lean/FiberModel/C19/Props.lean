import FiberModel.C19.Spec
/-
C19 — property theorems about the handler (only), relative to what the constructor stored.
Quantified over every constructor state, every `AllowOriginsFunc` (panicking or not), every `Next`,
every request, every `Vary` an earlier middleware left and every `c.Vary` of the downstream handler.
The step from the constructor state to the configuration TEXT is `Origin.lean`; the main theorem
over the text, `handle_meets_spec`, is in `Main.lean`.
-/
namespace C19
open B

/-- `allowOrigin`: `*` when all origins are allowed; otherwise a panic of the allow function (only
    when no list entry matched), nothing, or the origin itself (then non-empty and permitted). -/
theorem allowOrigin_cases (bt : Built) (o : Bytes) (ho : o ≠ []) :
    (bt.allowAll = true ∧ allowOrigin bt o = some (b "*")) ∨
    (bt.allowAll = false ∧
      ((allowOrigin bt o = none ∧ listAllows bt o = false ∧ ∃ f, bt.cfg.allowFunc = some f ∧ f o = none) ∨
       allowOrigin bt o = some [] ∨
       (allowOrigin bt o = some o ∧ o ≠ [] ∧ permitted bt o = true))) := by
  unfold allowOrigin permitted permittedW listAllows
  cases hA : bt.allowAll <;> simp
  · cases hO : bt.origins.contains o <;> cases hS : bt.subs.any (·.match o) <;>
      cases hf : bt.cfg.allowFunc <;> simp_all
    rename_i f
    rcases hfo : f o with _ | _ | _ <;> simp_all

theorem simpleAcao_cases (cfg : Config) (a : Bytes) :
    ((simpleAcao cfg a).1 = none ∧ (simpleAcao cfg a).2 = false) ∨
    ((simpleAcao cfg a).1 = some a ∧ a ≠ [] ∧ ((simpleAcao cfg a).2 = true → cfg.credentials = true ∧ a ≠ b "*")) := by
  unfold simpleAcao
  by_cases h1 : cfg.credentials = true <;> by_cases h2 : a = b "*" <;> by_cases h3 : a = [] <;> simp_all [b]

theorem star_ne_nil : b "*" ≠ [] := by decide

/-- The CORS headers of the reply are absent or come from `setSimpleHeaders` on the decision. -/
theorem handle_acao (bt : Built) (q : Request) :
    ((handle bt q).acao = none ∧ (handle bt q).acac = false) ∨
    (∃ a, toLower q.origin ≠ [] ∧ allowOrigin bt (toLower q.origin) = some a ∧
      (handle bt q).acao = (simpleAcao bt.cfg a).1 ∧ (handle bt q).acac = (simpleAcao bt.cfg a).2) := by
  unfold handle
  by_cases h0 : skipped bt.cfg q = true
  · simp [h0]
  by_cases h1 : toLower q.origin = []
  · simp [h0, h1]
  by_cases h2 : q.method = OPTIONS <;> by_cases h3 : q.acrMethod = [] <;>
    cases h4 : allowOrigin bt (toLower q.origin) <;> simp [h0, h1, h2, h3, h4]

/-- clause 1 for the model -/
theorem acao_only_if_allowed (bt : Built) (q : Request) :
    acaoOK bt.allowAll (listAllows bt) bt.cfg q (handle bt q) = true := by
  unfold acaoOK
  rcases handle_acao bt q with ⟨h, _⟩ | ⟨a, hne0, ha, h, _⟩
  · simp [h]
  · rw [h]
    rcases simpleAcao_cases bt.cfg a with ⟨h1, _⟩ | ⟨h1, hne, _⟩
    · simp [h1]
    · simp only [h1]
      rcases allowOrigin_cases bt (toLower q.origin) hne0 with ⟨hA, hv⟩ | ⟨hA, ⟨hv, _⟩ | hv | ⟨hv, hn, hp⟩⟩
      · rw [ha] at hv; cases hv; simp [hA]
      · rw [ha] at hv; cases hv
      · rw [ha] at hv; cases hv; exact absurd rfl hne
      · rw [ha] at hv; cases hv
        have hp' : permittedW (listAllows bt) bt.cfg (toLower q.origin) = true := hp
        simp [hA, hn, hp']

/-- clause 2 for the model: `Access-Control-Allow-Credentials` is never paired with `*` -/
theorem never_star_with_credentials (bt : Built) (q : Request) : credsOK bt.cfg (handle bt q) = true := by
  unfold credsOK
  rcases handle_acao bt q with ⟨_, h⟩ | ⟨a, _, _, h, h'⟩
  · simp [h]
  · rw [h, h']
    rcases simpleAcao_cases bt.cfg a with ⟨h1, h2⟩ | ⟨h1, hne, h2⟩
    · simp [h2]
    · cases hh : (simpleAcao bt.cfg a).2
      · simp
      · have := h2 hh; simp [h1, this]

/-- clause 0 for the model -/
theorem next_skips_middleware (bt : Built) (q : Request) : skipOK bt.cfg q (handle bt q) = true := by
  unfold skipOK handle
  cases hs : skipped bt.cfg q <;> simp

/-- clause 4 for the model -/
theorem preflight_204_configured (bt : Built) (q : Request) : preflightOK bt.cfg q (handle bt q) = true := by
  unfold preflightOK isPreflight handle
  by_cases h0 : skipped bt.cfg q = true
  · simp [h0]
  by_cases h1 : toLower q.origin = []
  · simp [h0, h1]
  by_cases h2 : q.method = OPTIONS <;> by_cases h3 : q.acrMethod = [] <;>
    cases h4 : allowOrigin bt (toLower q.origin) <;> simp [h0, h1, h2, h3, h4]

/-- clause 5 for the model: the handler dies only inside an allow function that was due and panics -/
theorem func_panic_only_when_due (bt : Built) (q : Request) :
    panicOK bt.allowAll (listAllows bt) bt.cfg q (handle bt q) = true := by
  unfold panicOK
  by_cases hp : (handle bt q).panicked = true
  · -- only the allowOrigin = none branch sets `panicked`
    have key : skipped bt.cfg q = false ∧ toLower q.origin ≠ [] ∧ ¬ (q.method = OPTIONS ∧ q.acrMethod = []) ∧
        allowOrigin bt (toLower q.origin) = none := by
      unfold handle at hp
      by_cases h0 : skipped bt.cfg q = true
      · simp [h0] at hp
      by_cases h1 : toLower q.origin = []
      · simp [h0, h1] at hp
      by_cases h23 : q.method = OPTIONS ∧ q.acrMethod = []
      · simp [h0, h1, h23] at hp
      cases h4 : allowOrigin bt (toLower q.origin) with
      | none => exact ⟨by simpa using h0, h1, h23, rfl⟩
      | some a =>
        simp only [h0, h1, h23, h4] at hp
        by_cases h2 : q.method = OPTIONS <;> simp [h2] at hp
    obtain ⟨k0, k1, k2, k3⟩ := key
    rcases allowOrigin_cases bt (toLower q.origin) k1 with ⟨_, hv⟩ | ⟨hA, ⟨_, hl, f, hf, hfo⟩ | hv | ⟨hv, _⟩⟩
    · rw [k3] at hv; cases hv
    · have k2' : (decide (q.method = OPTIONS) && decide (q.acrMethod = [])) = false := by
        simpa using k2
      simp [k0, k1, k2', hA, hl, hf, hfo]
    · rw [k3] at hv; cases hv
    · rw [k3] at hv; cases hv
  · simp [hp]

theorem not_panicked_of_skipped (bt : Built) (q : Request) (h : skipped bt.cfg q = true) :
    (handle bt q).panicked = false := by
  unfold handle; simp [h]

/-- `subdomain.match` is sound: the origin starts with the entry's `scheme://` and ends with its
    `.domain` suffix, the two not overlapping. -/
theorem subdomain_match_sound (s : Subdomain) (o : Bytes) (h : s.match o = true) :
    ∃ mid, o = s.pre ++ mid ++ s.suf := by
  unfold Subdomain.match hasPrefix hasSuffix at h
  simp only [Bool.and_eq_true, decide_eq_true_eq] at h
  obtain ⟨⟨hl, hp⟩, hs⟩ := h
  rw [List.isPrefixOf_iff_prefix] at hp
  rw [List.isSuffixOf_iff_suffix] at hs
  obtain ⟨t, ht⟩ := hp
  obtain ⟨u, hu⟩ := hs
  subst ht
  have : s.suf.length ≤ t.length := by simp at hl; omega
  have hsuf : s.suf <:+ t := by
    have h1 : s.suf <:+ s.pre ++ t := ⟨u, hu⟩
    have h2 : t <:+ s.pre ++ t := List.suffix_append _ _
    exact List.suffix_of_suffix_length_le h1 h2 this
  obtain ⟨m, hm⟩ := hsuf
  exact ⟨m, by rw [← hm]; simp⟩

/-- and complete: every `pre ++ mid ++ suf` is matched -/
theorem subdomain_match_complete (s : Subdomain) (mid : Bytes) : s.match (s.pre ++ mid ++ s.suf) = true := by
  unfold Subdomain.match hasPrefix hasSuffix
  simp only [Bool.and_eq_true, decide_eq_true_eq]
  refine ⟨⟨by simp, ?_⟩, ?_⟩
  · rw [List.isPrefixOf_iff_prefix]; exact ⟨mid ++ s.suf, by simp⟩
  · rw [List.isSuffixOf_iff_suffix]; exact ⟨s.pre ++ mid, by simp⟩

/-- A configuration with credentials and a wildcard is refused by the constructor. -/
theorem buildCore_refuses_star_with_credentials (cfg : Config) (bt : Built)
    (h : buildCore cfg = some bt) : ¬ (bt.cfg.credentials = true ∧ bt.allowAll = true) := by
  unfold buildCore at h
  split at h
  · simp at h
  · split at h
    · simp at h
    · rename_i hc
      simp only [Option.some.injEq] at h
      subst h
      simpa using hc

theorem build_refuses_star_with_credentials (cfg : Config) (dm : List Bytes) (bt : Built)
    (h : build cfg dm = some bt) : ¬ (bt.cfg.credentials = true ∧ bt.allowAll = true) :=
  buildCore_refuses_star_with_credentials _ bt h

end C19
