import FiberModel.Basic
/-
C19 — transcription of Go 1.23 `net/url.Parse` (url.go), restricted to what cors/utils.go
`normalizeOrigin` reads from the result: `Scheme`, `Host`, `Path`, `RawQuery`, `Fragment`, and
whether an error is returned. `User`, `Opaque`, `RawPath`, `ForceQuery`, `OmitHost`, `RawFragment`
are not represented (nothing in the middleware reads them); the *validation* that produces an
error while computing them (bad userinfo, bad escapes) is.

Bytes are `Nat`s; a Go `string` is any byte list. Everything here is total and executable; the
driver compares `parse` with the real `url.Parse` on every string the middleware hands to it.
-/
namespace C19.Url
open B

/-! ### small `strings` helpers -/

/-- `strings.Cut(s, string(c))`: text before the first `c`, and (if `c` occurs) the text after it. -/
def cut : Bytes → Nat → Bytes × Option Bytes
  | [], _ => ([], none)
  | x :: xs, c => if x = c then ([], some xs) else ((cut xs c).1.cons x, (cut xs c).2)

/-- split at the LAST `c` (`strings.LastIndex`): `none` when `c` does not occur. -/
def cutLast : Bytes → Nat → Option (Bytes × Bytes)
  | [], _ => none
  | x :: xs, c =>
    match cutLast xs c with
    | some (a, r) => some (x :: a, r)
    | none => if x = c then some ([], xs) else none

/-- url.go `stringContainsCTLByte` -/
def isCTL (c : Nat) : Bool := c < 32 || c == 127
def containsCTL (s : Bytes) : Bool := s.any isCTL

/-- url.go `ishex` / `unhex` -/
def ishex (c : Nat) : Bool := (48 ≤ c && c ≤ 57) || (97 ≤ c && c ≤ 102) || (65 ≤ c && c ≤ 70)
def unhex (c : Nat) : Nat :=
  if 48 ≤ c && c ≤ 57 then c - 48
  else if 97 ≤ c && c ≤ 102 then c - 97 + 10
  else if 65 ≤ c && c ≤ 70 then c - 65 + 10
  else 0

def isAlnum (c : Nat) : Bool := isAlpha c || isDigit c

/-- url.go `shouldEscape(c, encodeHost)` (the same answer for `encodeZone`): everything except
    alphanumerics, `! $ & ' ( ) * + , ; = : [ ] < > "` and `- _ . ~` must be escaped. -/
def shouldEscapeHost (c : Nat) : Bool :=
  !(isAlnum c ||
    [33, 36, 38, 39, 40, 41, 42, 43, 44, 59, 61, 58, 91, 93, 60, 62, 34].contains c ||
    [45, 95, 46, 126].contains c)

/-- the `mode` argument of `unescape`, as far as it changes the outcome on the calls `Parse` makes
    (`other` = encodePath / encodeUserPassword / encodeFragment: only the escapes are checked). -/
inductive Mode | host | zone | other
  deriving DecidableEq, Repr

/-- url.go `unescape(s, mode)`; `none` = error. One pass: the Go code validates the whole string
    before it produces any output, so failing anywhere is failing. -/
def unescape (m : Mode) : Bytes → Option Bytes
  | [] => some []
  | c :: rest =>
    if c = 37 then
      match rest with
      | h1 :: h2 :: rest' =>
        if !(ishex h1 && ishex h2) then none
        else if m = .host && unhex h1 < 8 && !(h1 = 50 && h2 = 53) then none
        else if m = .zone && !(h1 = 50 && h2 = 53) && unhex h1 * 16 + unhex h2 ≠ 32
                && shouldEscapeHost (unhex h1 * 16 + unhex h2) then none
        else (unescape m rest').map ((unhex h1 * 16 + unhex h2) :: ·)
      | _ => none
    else if (m = .host || m = .zone) && c < 128 && shouldEscapeHost c then none
    else (unescape m rest).map (c :: ·)

/-- url.go `validOptionalPort`: empty, or `:` followed by digits only -/
def validOptionalPort : Bytes → Bool
  | [] => true
  | c :: ds => c == 58 && ds.all isDigit

/-- url.go `parseHost` -/
def parseHost (host : Bytes) : Option Bytes :=
  if host.head? = some 91 then
    match cutLast host 93 with
    | none => none                                   -- missing ']' in host
    | some (pre, colonPort) =>                       -- host = pre ++ "]" ++ colonPort
      if !validOptionalPort colonPort then none
      else match indexOf pre (b "%25") with
        | some z =>
          match unescape .host (pre.take z), unescape .zone (pre.drop z),
                unescape .host (93 :: colonPort) with
          | some h1, some h2, some h3 => some (h1 ++ h2 ++ h3)
          | _, _, _ => none
        | none => unescape .host host
  else
    match cutLast host 58 with
    | some (_, port) => if !validOptionalPort (58 :: port) then none else unescape .host host
    | none => unescape .host host

/-- url.go `validUserinfo` (ranges over runes: every non-ASCII rune, and the replacement rune an
    invalid byte decodes to, is outside the allowed set, so this is a per-byte test) -/
def validUserinfoByte (c : Nat) : Bool :=
  isAlnum c || [45, 46, 95, 58, 126, 33, 36, 38, 39, 40, 41, 42, 43, 44, 59, 61, 37, 64].contains c
def validUserinfo (s : Bytes) : Bool := s.all validUserinfoByte

/-- url.go `parseAuthority`, host part of the result; `none` = error -/
def parseAuthority (authority : Bytes) : Option Bytes :=
  match cutLast authority 64 with
  | none => parseHost authority
  | some (userinfo, hostport) =>
    match parseHost hostport with
    | none => none
    | some host =>
      if !validUserinfo userinfo then none
      else if !userinfo.contains 58 then
        (unescape .other userinfo).map fun _ => host
      else
        match unescape .other (cut userinfo 58).1, unescape .other ((cut userinfo 58).2.getD []) with
        | some _, some _ => some host
        | _, _ => none

/-- url.go `getScheme`, the loop from position `i`. `none` = "missing protocol scheme";
    `some ([], raw)` = no scheme. -/
def getSchemeLoop (raw : Bytes) : Nat → Bytes → Option (Bytes × Bytes)
  | _, [] => some ([], raw)
  | i, c :: cs =>
    if isAlpha c then getSchemeLoop raw (i + 1) cs
    else if isDigit c || c = 43 || c = 45 || c = 46 then
      if i = 0 then some ([], raw) else getSchemeLoop raw (i + 1) cs
    else if c = 58 then
      if i = 0 then none else some (raw.take i, cs)
    else some ([], raw)

def getScheme (raw : Bytes) : Option (Bytes × Bytes) := getSchemeLoop raw 0 raw

/-- The fields of `url.URL` that `normalizeOrigin` reads. -/
structure URL where
  scheme : Bytes := []
  host : Bytes := []
  path : Bytes := []
  rawQuery : Bytes := []
  fragment : Bytes := []
  deriving Repr, DecidableEq

/-- `strings.Count(s, "?")` -/
def countByte (s : Bytes) (c : Nat) : Nat := s.count c

/-- `parse`, the `?` handling: a single trailing `?` only forces an empty query, otherwise the text
    is cut at the first `?`. Result: (rest, RawQuery). -/
def splitQuery (rest0 : Bytes) : Bytes × Bytes :=
  if rest0.getLast? = some 63 && countByte rest0 63 = 1 then (rest0.dropLast, [])
  else ((cut rest0 63).1, (cut rest0 63).2.getD [])

/-- `parse`, behind scheme and query: opaque / relative / authority + path -/
def parseRest (scheme rest rawQuery : Bytes) : Option URL :=
  if rest.head? ≠ some 47 && scheme ≠ [] then
    some { scheme := scheme, rawQuery := rawQuery }        -- opaque: no host, no path
  else if rest.head? ≠ some 47 && (cut rest 47).1.contains 58 then
    none                                                     -- first path segment has a colon
  else if (scheme ≠ [] || !hasPrefix rest (b "///")) && hasPrefix rest (b "//") then
    let auth := (cut (rest.drop 2) 47).1
    let path := match (cut (rest.drop 2) 47).2 with | some p => 47 :: p | none => []
    match parseAuthority auth with
    | none => none
    | some host =>
      (unescape .other path).map fun p =>
        { scheme := scheme, host := host, path := p, rawQuery := rawQuery }
  else
    (unescape .other rest).map fun p => { scheme := scheme, path := p, rawQuery := rawQuery }

/-- url.go `parse(rawURL, viaRequest = false)`; `none` = error -/
def parseNoFrag (raw : Bytes) : Option URL :=
  if containsCTL raw then none
  else if raw = b "*" then some { path := b "*" }
  else
    match getScheme raw with
    | none => none
    | some (sch, rest0) => parseRest (toLower sch) (splitQuery rest0).1 (splitQuery rest0).2

/-- url.go `Parse`: cut the fragment off, parse, set the fragment -/
def parse (raw : Bytes) : Option URL :=
  match parseNoFrag (cut raw 35).1 with
  | none => none
  | some u =>
    match (cut raw 35).2 with
    | none => some u
    | some frag =>
      if frag = [] then some u
      else (unescape .other frag).map fun f => { u with fragment := f }

end C19.Url
