import FiberModel.C19.Origin
/-
C19 — what `url.Parse` (hence `normalizeOrigin`) answers on the shapes an origin can be written in:
`scheme://[userinfo@]host[:port][/]` with a registered name, an IPv4 or a bracketed IPv6 literal as
host — upper case, ports (default or not), trailing dot, punycode labels are just bytes here.
-/
namespace C19
open B Url

/-- no URL delimiter (`#`, `/`, `?`) and no control byte -/
def clean (s : Bytes) : Prop := ∀ x ∈ s, x ≠ 35 ∧ x ≠ 47 ∧ x ≠ 63 ∧ isCTL x = false

theorem clean_append {s t : Bytes} (hs : clean s) (ht : clean t) : clean (s ++ t) := by
  intro x hx
  rcases List.mem_append.mp hx with h | h
  · exact hs x h
  · exact ht x h

theorem clean_cons {c : Nat} {t : Bytes} (hc : c ≠ 35 ∧ c ≠ 47 ∧ c ≠ 63 ∧ isCTL c = false) (ht : clean t) :
    clean (c :: t) := by
  intro x hx
  rcases List.mem_cons.mp hx with h | h
  · subst h; exact hc
  · exact ht x h

theorem isSchemeByte_clean {c : Nat} (h : isSchemeByte c = true) : c ≠ 35 ∧ c ≠ 47 ∧ c ≠ 63 ∧ isCTL c = false := by
  simp only [isSchemeByte, isAlpha, isUpper, isLower, isDigit, Bool.or_eq_true, Bool.and_eq_true, decide_eq_true_eq,
    beq_iff_eq] at h
  simp only [isCTL, Bool.or_eq_false_iff, decide_eq_false_iff_not, beq_eq_false_iff_ne]
  omega

theorem schemeShaped_clean {S : Bytes} (h : schemeShaped S = true) : clean S := by
  cases S with
  | nil => simp [schemeShaped] at h
  | cons a t =>
    simp only [schemeShaped, Bool.and_eq_true, List.all_eq_true] at h
    intro x hx
    rcases List.mem_cons.mp hx with e | e
    · subst e; exact isSchemeByte_clean (by simp [isSchemeByte, h.1])
    · exact isSchemeByte_clean (h.2 x e)

theorem validUserinfoByte_clean {c : Nat} (h : validUserinfoByte c = true) :
    c ≠ 35 ∧ c ≠ 47 ∧ c ≠ 63 ∧ isCTL c = false := by
  simp only [validUserinfoByte, isAlnum, isAlpha, isUpper, isLower, isDigit, Bool.or_eq_true, Bool.and_eq_true,
    decide_eq_true_eq, List.contains_iff_mem, List.mem_cons, List.not_mem_nil, or_false] at h
  simp only [isCTL, Bool.or_eq_false_iff, decide_eq_false_iff_not, beq_eq_false_iff_ne]
  omega

theorem validUserinfo_clean {I : Bytes} (h : validUserinfo I = true) : clean I := by
  intro x hx
  exact validUserinfoByte_clean (List.all_eq_true.mp h x hx)

theorem not_mem_of_clean {s : Bytes} (h : clean s) : 35 ∉ s ∧ 47 ∉ s ∧ 63 ∉ s := by
  refine ⟨fun m => (h 35 m).1 rfl, fun m => (h 47 m).2.1 rfl, fun m => (h 63 m).2.2.1 rfl⟩

theorem containsCTL_false_of_clean {s : Bytes} (h : clean s) : containsCTL s = false := by
  unfold containsCTL
  rw [List.any_eq_false]
  intro x hx
  simp [(h x hx).2.2.2]

/-- the userinfo is checked and dropped -/
theorem parseAuthority_user (I HP host : Bytes) (hI : validUserinfo I = true) (hIp : 37 ∉ I) (hHP : 64 ∉ HP)
    (hh : parseHost HP = some host) : parseAuthority (I ++ 64 :: HP) = some host := by
  unfold parseAuthority
  rw [cutLast_append I HP hHP]
  simp only [hh, hI, Bool.not_true, Bool.false_eq_true, ite_false]
  by_cases hc : I.contains 58 = true
  · simp only [hc, Bool.not_true, Bool.false_eq_true, ite_false]
    have h1 : 37 ∉ (cut I 58).1 := by
      cases h2 : (cut I 58).2 with
      | none => rw [(cut_none h2).2]; exact hIp
      | some r =>
        have := (cut_some h2).1
        intro m; apply hIp; rw [this]; simp [m]
    have h2 : 37 ∉ ((cut I 58).2.getD []) := by
      cases h2 : (cut I 58).2 with
      | none => simp
      | some r =>
        have := (cut_some h2).1
        simp only [Option.getD_some]
        intro m; apply hIp; rw [this]; simp [m]
    rw [unescape_other_plain _ h1, unescape_other_plain _ h2]
  · simp only [hc, Bool.not_false, ite_true]
    rw [unescape_other_plain _ hIp]; rfl

theorem parseAuthority_nouser (HP : Bytes) (hHP : 64 ∉ HP) : parseAuthority HP = parseHost HP := by
  unfold parseAuthority
  rw [cutLast_of_not_mem hHP]

/-- **`url.Parse` on `scheme://authority[/]`**: scheme in lower case, the host `parseAuthority`
    reads, the path as written. -/
theorem parse_authority_form (S A T host : Bytes) (hS : schemeShaped S = true) (hA : clean A)
    (hT : T = [] ∨ T = [47]) (hpa : parseAuthority A = some host) :
    parse (S ++ 58 :: 47 :: 47 :: (A ++ T)) = some { scheme := toLower S, host := host, path := T } := by
  have hSc := schemeShaped_clean hS
  have hSne : S ≠ [] := by intro e; rw [e] at hS; simp [schemeShaped] at hS
  obtain ⟨hA35, hA47, hA63⟩ := not_mem_of_clean hA
  obtain ⟨hS35, _, hS63⟩ := not_mem_of_clean hSc
  have hT35 : 35 ∉ T := by rcases hT with e | e <;> simp [e]
  have hT63 : 63 ∉ T := by rcases hT with e | e <;> simp [e]
  -- no fragment
  have h35 : 35 ∉ S ++ 58 :: 47 :: 47 :: (A ++ T) := by
    simp only [List.mem_append, List.mem_cons, not_or]
    exact ⟨hS35, by decide, by decide, by decide, hA35, hT35⟩
  unfold parse
  rw [cut_of_not_mem h35]
  simp only
  -- parseNoFrag
  have hctl : containsCTL (S ++ 58 :: 47 :: 47 :: (A ++ T)) = false := by
    unfold containsCTL
    rw [List.any_eq_false]
    intro x hx
    simp only [List.mem_append, List.mem_cons] at hx
    rcases hx with h | h | h | h | h | h
    · simp [(hSc x h).2.2.2]
    · subst h; decide
    · subst h; decide
    · subst h; decide
    · simp [(hA x h).2.2.2]
    · rcases hT with e | e
      · simp [e] at h
      · simp [e] at h; subst h; decide
  have hstar : S ++ 58 :: 47 :: 47 :: (A ++ T) ≠ b "*" := by
    intro e
    have := congrArg List.length e
    simp [b] at this
    omega
  have hrest63 : 63 ∉ 47 :: 47 :: (A ++ T) := by
    simp only [List.mem_cons, List.mem_append, not_or]
    exact ⟨by decide, by decide, hA63, hT63⟩
  have hsq : splitQuery (47 :: 47 :: (A ++ T)) = (47 :: 47 :: (A ++ T), []) := by
    unfold splitQuery
    have hl : (47 :: 47 :: (A ++ T)).getLast? ≠ some 63 := by
      intro e; exact hrest63 (List.mem_of_getLast? e)
    simp only [hl, decide_false, Bool.false_and, Bool.false_eq_true, ite_false]
    rw [cut_of_not_mem hrest63]; rfl
  have hpr : parseRest (toLower S) (47 :: 47 :: (A ++ T)) [] =
      some { scheme := toLower S, host := host, path := T } := by
    unfold parseRest
    have hls : toLower S ≠ [] := by
      intro e; apply hSne; have := congrArg List.length e; simp [toLower] at this; exact this
    have hcut : cut (A ++ T) 47 = (A, if T = [] then none else some []) := by
      rcases hT with e | e
      · subst e; simp [cut_of_not_mem hA47]
      · subst e; simp [cut_append [] hA47]
    simp only [List.head?_cons, ne_eq, not_true_eq_false, decide_false, Bool.false_and, Bool.false_eq_true,
      ite_false, List.drop_succ_cons, List.drop_zero, hcut, hpa]
    have hp : hasPrefix (47 :: 47 :: (A ++ T)) (b "//") = true := by
      simp [hasPrefix, b, List.isPrefixOf]
    simp only [hls, not_false_eq_true, decide_true, Bool.true_or, hp, Bool.and_self, ite_true]
    rcases hT with e | e
    · subst e; simp [unescape]
    · subst e; simp [unescape]
  unfold parseNoFrag
  simp only [hctl, Bool.false_eq_true, ite_false, hstar]
  rw [getScheme_shaped S _ hS]
  simp only [hsq, hpr]

/-- **`normalizeOrigin` on `scheme://authority[/]`** -/
theorem normalizeOrigin_authority_form (S A T host : Bytes) (hS : schemeShaped S = true) (hA : clean A)
    (hT : T = [] ∨ T = [47]) (hpa : parseAuthority A = some host) (hne : host ≠ []) (hstar : 42 ∉ host) :
    normalizeOrigin (S ++ 58 :: 47 :: 47 :: (A ++ T)) = some (toLower S ++ b "://" ++ toLower host) := by
  unfold normalizeOrigin
  rw [parse_authority_form S A T host hS hA hT hpa]
  have hc : host.contains 42 = false := by simpa using hstar
  simp only [hc, Bool.false_eq_true, ite_false]
  have hp : ¬ (T ≠ [] ∧ T ≠ b "/") := by
    rcases hT with e | e
    · simp [e]
    · subst e; simp [b]
  have hl : toLower (b "://") = b "://" := by decide
  simp [hne, hp, toLower_append, toLower_idem, hl]

/-! ### hosts -/

/-- a byte of a registered name / IPv4 host as written (anything `url.Parse` passes in a host,
    except `%`, `:`, `*`, `[`) -/
def regByte (c : Nat) : Bool := hostByte c && c != 58 && c != 42 && c != 91

theorem hostByte_clean {c : Nat} (h : hostByte c = true) : c ≠ 35 ∧ c ≠ 47 ∧ c ≠ 63 ∧ isCTL c = false ∧ c ≠ 64 := by
  simp only [hostByte, Bool.and_eq_true, bne_iff_ne, ne_eq, Bool.not_eq_true', Bool.and_eq_false_iff,
    decide_eq_false_iff_not] at h
  obtain ⟨h37, h2⟩ := h
  have key : ∀ k, k < 128 → shouldEscapeHost k = true → c ≠ k := by
    intro k hk hs e
    subst e
    rcases h2 with h2 | h2
    · exact h2 hk
    · rw [hs] at h2; cases h2
  refine ⟨key 35 (by omega) (by decide), key 47 (by omega) (by decide), key 63 (by omega) (by decide), ?_,
    key 64 (by omega) (by decide)⟩
  simp only [isCTL, Bool.or_eq_false_iff, decide_eq_false_iff_not, beq_eq_false_iff_ne]
  constructor
  · intro hlt
    have : ∀ k, k < 32 → shouldEscapeHost k = true := by decide
    exact key c (by omega) (this c hlt) rfl
  · exact key 127 (by omega) (by decide)

theorem isDigit_hostByte {c : Nat} (h : isDigit c = true) : hostByte c = true := by
  simp only [isDigit, Bool.and_eq_true, decide_eq_true_eq] at h
  have : ∀ k, 48 ≤ k → k ≤ 57 → hostByte k = true := by
    intro k h1 h2
    have : k = 48 ∨ k = 49 ∨ k = 50 ∨ k = 51 ∨ k = 52 ∨ k = 53 ∨ k = 54 ∨ k = 55 ∨ k = 56 ∨ k = 57 := by omega
    rcases this with e | e | e | e | e | e | e | e | e | e <;> subst e <;> decide
  exact this c h.1 h.2

/-- `parseHost` on `regname[:digits]` -/
theorem parseHost_regname (H P : Bytes) (hH : H.all regByte = true)
    (hP : P = [] ∨ ∃ ds, P = 58 :: ds ∧ ds.all isDigit = true) : parseHost (H ++ P) = some (H ++ P) := by
  have hHb : ∀ x ∈ H, hostByte x = true ∧ x ≠ 58 ∧ x ≠ 91 := by
    intro x hx
    have := List.all_eq_true.mp hH x hx
    simp only [regByte, Bool.and_eq_true, bne_iff_ne, ne_eq] at this
    exact ⟨this.1.1.1, this.1.1.2, this.2⟩
  have h58 : 58 ∉ H := fun m => (hHb 58 m).2.1 rfl
  have hall : (H ++ P).all hostByte = true := by
    rw [List.all_append, Bool.and_eq_true]
    refine ⟨List.all_eq_true.mpr (fun x hx => (hHb x hx).1), ?_⟩
    rcases hP with e | ⟨ds, e, hd⟩
    · simp [e]
    · subst e
      simp only [List.all_cons, Bool.and_eq_true]
      exact ⟨by decide, List.all_eq_true.mpr (fun x hx => isDigit_hostByte (List.all_eq_true.mp hd x hx))⟩
  have hhead : (H ++ P).head? ≠ some 91 := by
    cases H with
    | nil =>
      rcases hP with e | ⟨ds, e, _⟩
      · simp [e]
      · simp [e]
    | cons a t =>
      simp only [List.cons_append, List.head?_cons, ne_eq, Option.some.injEq]
      exact (hHb a (by simp)).2.2
  unfold parseHost
  simp only [hhead, ite_false]
  rcases hP with e | ⟨ds, e, hd⟩
  · subst e
    simp only [List.append_nil] at hall ⊢
    rw [cutLast_of_not_mem h58]
    exact unescape_host_plain H hall
  · subst e
    have hds : 58 ∉ ds := by
      intro m
      have := List.all_eq_true.mp hd 58 m
      simp [isDigit] at this
    rw [cutLast_append H ds hds]
    simp only [validOptionalPort, beq_self_eq_true, hd, Bool.and_self, Bool.not_true, Bool.false_eq_true, ite_false]
    exact unescape_host_plain _ hall

/-- a byte inside an IPv6 literal: hex digit, `:` or `.` -/
def v6Byte (c : Nat) : Bool := ishex c || c == 58 || c == 46

theorem v6Byte_hostByte {c : Nat} (h : v6Byte c = true) : hostByte c = true ∧ c ≠ 93 ∧ c ≠ 37 := by
  simp only [v6Byte, ishex, Bool.or_eq_true, Bool.and_eq_true, decide_eq_true_eq, beq_iff_eq] at h
  have : ∀ k, k ≤ 102 → v6Byte k = true → hostByte k = true := by decide
  have hk : c ≤ 102 := by omega
  refine ⟨this c hk (by simp only [v6Byte, ishex, Bool.or_eq_true, Bool.and_eq_true, decide_eq_true_eq, beq_iff_eq]; exact h), by omega, by omega⟩

theorem indexOf_none_of_not_mem (s pat : Bytes) (c : Nat) (p' : Bytes) (hp : pat = c :: p') (h : c ∉ s) :
    indexOf s pat = none := by
  induction s with
  | nil => subst hp; simp [indexOf]
  | cons x xs ih =>
    have hx : x ≠ c := fun e => h (by simp [e])
    have := ih (fun m => h (by simp [m]))
    unfold indexOf
    subst hp
    have hnp : (c :: p').isPrefixOf (x :: xs) = false := by
      simp [List.isPrefixOf]; intro e; exact absurd e.symm hx
    simp [hnp, this]

/-- `parseHost` on `[v6][:digits]` -/
theorem parseHost_v6 (A P : Bytes) (hA : A.all v6Byte = true)
    (hP : P = [] ∨ ∃ ds, P = 58 :: ds ∧ ds.all isDigit = true) :
    parseHost (91 :: (A ++ 93 :: P)) = some (91 :: (A ++ 93 :: P)) := by
  have hAb : ∀ x ∈ A, hostByte x = true ∧ x ≠ 93 ∧ x ≠ 37 := fun x hx => v6Byte_hostByte (List.all_eq_true.mp hA x hx)
  have hPb : ∀ x ∈ P, hostByte x = true ∧ x ≠ 93 := by
    intro x hx
    rcases hP with e | ⟨ds, e, hd⟩
    · simp [e] at hx
    · subst e
      rcases List.mem_cons.mp hx with e2 | e2
      · subst e2; exact ⟨by decide, by decide⟩
      · have := List.all_eq_true.mp hd x e2
        refine ⟨isDigit_hostByte this, ?_⟩
        simp only [isDigit, Bool.and_eq_true, decide_eq_true_eq] at this; omega
  have h93 : 93 ∉ P := fun m => (hPb 93 m).2 rfl
  have hvp : validOptionalPort P = true := by
    rcases hP with e | ⟨ds, e, hd⟩
    · simp [e, validOptionalPort]
    · simp [e, validOptionalPort, hd]
  have h37 : 37 ∉ 91 :: A := by
    simp only [List.mem_cons, not_or]; exact ⟨by decide, fun m => (hAb 37 m).2.2 rfl⟩
  have hall : (91 :: (A ++ 93 :: P)).all hostByte = true := by
    simp only [List.all_cons, List.all_append, Bool.and_eq_true]
    exact ⟨by decide, List.all_eq_true.mpr (fun x hx => (hAb x hx).1), by decide,
      List.all_eq_true.mpr (fun x hx => (hPb x hx).1)⟩
  unfold parseHost
  simp only [List.head?_cons, ite_true]
  rw [show 91 :: (A ++ 93 :: P) = (91 :: A) ++ 93 :: P by simp, cutLast_append _ _ h93]
  simp only [hvp, Bool.not_true, Bool.false_eq_true, ite_false]
  rw [indexOf_none_of_not_mem _ (b "%25") 37 [50, 53] (by decide) h37]
  simp only
  rw [show (91 :: A) ++ 93 :: P = 91 :: (A ++ 93 :: P) by simp]
  exact unescape_host_plain _ hall

end C19
