import FiberModel.C19.Spec
import FiberModel.Generated.C19Facts
/-
C19 — obligations over the regenerated facts (cors.ConfigDefault as the code states it *now*).
`cors.New()` without arguments uses exactly this configuration.
-/
namespace C19
open B

/-- cors.ConfigDefault, from the translator. -/
def defaultConfig : Config :=
  { allowOrigins := Facts.defaultAllowOrigins,
    allowFunc := none,
    allowMethods := Facts.defaultAllowMethods,
    allowHeaders := Facts.defaultAllowHeaders,
    exposeHeaders := Facts.defaultExposeHeaders,
    maxAge := Facts.defaultMaxAge,
    credentials := Facts.defaultCredentials,
    privateNetwork := Facts.defaultPrivateNetwork }

/-- The default configuration is accepted by the constructor (it does not panic), has no allow
    function, and never pairs credentials with the wildcard. -/
theorem default_config_is_accepted_and_safe :
    Facts.defaultAllowFuncIsNil = true ∧
    (build defaultConfig Facts.defaultAllowMethods).isSome = true ∧
    (build defaultConfig Facts.defaultAllowMethods).map (fun bt => bt.cfg.credentials && bt.allowAll)
      = some false := by
  decide

/-- The default list of methods used when `AllowMethods` is left empty is non-empty (so a preflight
    always names methods). -/
theorem default_methods_nonempty : Facts.defaultAllowMethods ≠ [] := by decide

end C19
