import FiberModel.C19.Props
/-
C19 — `Vary`: fiber's `Ctx.Append` (which `Ctx.Vary` is) adds a field name unless it finds it by
text; so `Vary: Origin` is listed after the middleware ran whatever list of field names an earlier
middleware had left, and stays listed whatever the downstream handler appends.
-/
namespace C19
open B

/-! ### comma-separated pieces -/

theorem splitComma_ne_nil (s : Bytes) : splitComma s ≠ [] := by
  induction s with
  | nil => simp [splitComma]
  | cons c cs ih =>
    unfold splitComma
    split
    · simp
    · split <;> simp

theorem splitComma_comma (cs : Bytes) : splitComma (44 :: cs) = [] :: splitComma cs := by
  rw [splitComma]; simp

theorem splitComma_other (c : Nat) (cs : Bytes) (hc : c ≠ 44) (p : Bytes) (ps : List Bytes)
    (h : splitComma cs = p :: ps) : splitComma (c :: cs) = (c :: p) :: ps := by
  rw [splitComma]; simp [hc, h]

theorem splitComma_append_comma (a c : Bytes) : splitComma (a ++ 44 :: c) = splitComma a ++ splitComma c := by
  induction a with
  | nil => simp [splitComma_comma, splitComma]
  | cons x xs ih =>
    simp only [List.cons_append]
    by_cases hx : x = 44
    · subst hx; rw [splitComma_comma, splitComma_comma, ih]; rfl
    · cases h : splitComma xs with
      | nil => exact absurd h (splitComma_ne_nil xs)
      | cons p ps =>
        rw [splitComma_other x xs hx p ps h, splitComma_other x _ hx p (ps ++ splitComma c) (by rw [ih, h]; rfl)]
        rfl

theorem splitComma_nocomma (a : Bytes) (h : ∀ x ∈ a, x ≠ 44) : splitComma a = [a] := by
  induction a with
  | nil => rfl
  | cons x xs ih =>
    have hx : x ≠ 44 := h x (by simp)
    have := ih (fun y hy => h y (by simp [hy]))
    rw [splitComma_other x xs hx xs [] this]

/-- the last piece of `t ++ s` is the last piece of `t` followed by `s`, when `s` has no comma -/
theorem splitComma_last (t : Bytes) :
    ∃ a x, splitComma t = a ++ [x] ∧ ∀ s : Bytes, (∀ y ∈ s, y ≠ 44) → splitComma (t ++ s) = a ++ [x ++ s] := by
  induction t with
  | nil => exact ⟨[], [], rfl, fun s hs => by simpa using splitComma_nocomma s hs⟩
  | cons c cs ih =>
    obtain ⟨a, x, h1, h2⟩ := ih
    by_cases hc : c = 44
    · subst hc
      refine ⟨[] :: a, x, ?_, ?_⟩
      · rw [splitComma_comma, h1]; rfl
      · intro s hs
        simp only [List.cons_append]
        rw [splitComma_comma, h2 s hs]
    · cases a with
      | nil =>
        refine ⟨[], c :: x, ?_, ?_⟩
        · rw [splitComma_other c cs hc x [] (by simpa using h1)]; rfl
        · intro s hs
          simp only [List.cons_append]
          rw [splitComma_other c _ hc (x ++ s) [] (by simpa using h2 s hs)]; rfl
      | cons p ps =>
        refine ⟨(c :: p) :: ps, x, ?_, ?_⟩
        · rw [splitComma_other c cs hc p (ps ++ [x]) (by simpa using h1)]; rfl
        · intro s hs
          simp only [List.cons_append]
          rw [splitComma_other c _ hc p (ps ++ [x ++ s]) (by simpa using h2 s hs)]

/-! ### optional white space -/

theorem trimOWS_cons_ows (c : Nat) (s : Bytes) (h : isOWS c = true) : trimOWS (c :: s) = trimOWS s := by
  unfold trimOWS; simp [List.dropWhile, h]

/-- nothing is cut from the right of a text whose last byte is no blank -/
theorem trimRight_id (l : Bytes) (n : Nat) (hn : isOWS n = false) :
    ((l ++ [n]).reverse.dropWhile isOWS).reverse = l ++ [n] := by
  simp [hn]

theorem trimOWS_cons_non (c : Nat) (l : Bytes) (n : Nat) (hc : isOWS c = false) (hn : isOWS n = false) :
    trimOWS (c :: (l ++ [n])) = c :: (l ++ [n]) := by
  unfold trimOWS
  have : (c :: (l ++ [n])).dropWhile isOWS = (c :: l) ++ [n] := by simp [List.dropWhile, hc]
  rw [this, trimRight_id _ _ hn]; rfl

/-- A piece `x ++ " " ++ v ++ [n]` whose trimmed text has no blank inside is `v ++ [n]` with blanks
    in front. (`v ++ [n]`: a name without blanks ending in `n`.) -/
theorem piece_is_name (v : Bytes) (n : Nat) (hv : ∀ y ∈ v, isOWS y = false) (hn : isOWS n = false) (x : Bytes)
    (h : (trimOWS (x ++ 32 :: (v ++ [n]))).contains 32 = false) : trimOWS (x ++ 32 :: (v ++ [n])) = v ++ [n] := by
  induction x with
  | nil =>
    simp only [List.nil_append]
    rw [trimOWS_cons_ows 32 _ (by decide)]
    cases v with
    | nil =>
      unfold trimOWS; simp [hn]
    | cons a v' =>
      have ha : isOWS a = false := hv a (by simp)
      exact trimOWS_cons_non a v' n ha hn
  | cons c cs ih =>
    by_cases hc : isOWS c = true
    · simp only [List.cons_append] at h ⊢
      rw [trimOWS_cons_ows c _ hc] at h ⊢
      exact ih h
    · have hc' : isOWS c = false := by simpa using hc
      exfalso
      have e : c :: cs ++ 32 :: (v ++ [n]) = c :: ((cs ++ 32 :: v) ++ [n]) := by simp
      rw [e, trimOWS_cons_non c _ n hc' hn] at h
      simp at h

/-! ### `Append` -/

theorem indexOf_some_split (h pat : Bytes) (i : Nat) (hi : indexOf h pat = some i) :
    ∃ pre post, h = pre ++ pat ++ post := by
  induction h generalizing i with
  | nil =>
    unfold indexOf at hi
    split at hi
    · rename_i hp; exact ⟨[], [], by simp [List.isEmpty_iff.mp hp]⟩
    · simp at hi
  | cons x xs ih =>
    unfold indexOf at hi
    split at hi
    · rename_i hp
      rw [List.isPrefixOf_iff_prefix] at hp
      obtain ⟨t, ht⟩ := hp
      exact ⟨[], t, by simp [ht]⟩
    · cases hj : indexOf xs pat with
      | none => simp [hj] at hi
      | some j =>
        obtain ⟨pre, post, e⟩ := ih j hj
        exact ⟨x :: pre, post, by simp [e]⟩

/-- what `appendOne` can return -/
theorem appendOne_cases (h v : Bytes) :
    (h = [] ∧ appendOne h v = v) ∨ (h ≠ [] ∧ appendOne h v = h ++ 44 :: 32 :: v) ∨
    (h ≠ [] ∧ appendOne h v = h ∧
      (h = v ∨ hasPrefix h (v ++ [44]) = true ∨ hasSuffix h (32 :: v) = true ∨
       (indexOf h (32 :: v ++ [44])).isSome = true)) := by
  unfold appendOne
  by_cases h0 : h = []
  · simp [h0]
  · by_cases h1 : h = v <;> by_cases h2 : hasPrefix h (v ++ [44]) = true <;>
      by_cases h3 : hasSuffix h (32 :: v) = true <;>
      by_cases h4 : (indexOf h (32 :: v ++ [44])).isSome = true <;> simp_all

theorem varyHasOrigin_append_left (a c : Bytes) (h : varyHasOrigin a = true) :
    varyHasOrigin (a ++ 44 :: c) = true := by
  unfold varyHasOrigin at *
  rw [splitComma_append_comma, List.any_append, h]; rfl

theorem varyHasOrigin_append_right (a c : Bytes) (h : varyHasOrigin c = true) :
    varyHasOrigin (a ++ 44 :: c) = true := by
  unfold varyHasOrigin at *
  rw [splitComma_append_comma, List.any_append, h]; simp

theorem varyWF_append (a c : Bytes) : varyWF (a ++ 44 :: c) = (varyWF a && varyWF c) := by
  unfold varyWF; rw [splitComma_append_comma, List.all_append]

/-- once listed, `Origin` stays listed: `Append` only ever adds behind a comma -/
theorem varyHasOrigin_appendOne (h v : Bytes) (hh : varyHasOrigin h = true) :
    varyHasOrigin (appendOne h v) = true := by
  rcases appendOne_cases h v with ⟨h0, _⟩ | ⟨_, e⟩ | ⟨_, e, _⟩
  · subst h0; simp [varyHasOrigin, splitComma, trimOWS, toLower, b] at hh
  · rw [e]; exact varyHasOrigin_append_left _ _ hh
  · rw [e]; exact hh

theorem varyHasOrigin_appendAll (vs : List Bytes) (h : Bytes) (hh : varyHasOrigin h = true) :
    varyHasOrigin (appendAll h vs) = true := by
  induction vs generalizing h with
  | nil => exact hh
  | cons v vs ih => exact ih _ (varyHasOrigin_appendOne h v hh)

/-- a text ending in ` Origin` whose members have no blank inside lists `Origin` -/
theorem varyHasOrigin_of_suffix (t : Bytes) (hw : varyWF (t ++ 32 :: vOrigin) = true) :
    varyHasOrigin (t ++ 32 :: vOrigin) = true := by
  obtain ⟨a, x, _, h2⟩ := splitComma_last t
  have hs : ∀ y ∈ (32 :: vOrigin), y ≠ 44 := by decide
  have e := h2 (32 :: vOrigin) hs
  unfold varyWF at hw
  unfold varyHasOrigin
  rw [e] at hw ⊢
  rw [List.all_append] at hw
  rw [List.any_append]
  have hx : (trimOWS (x ++ 32 :: vOrigin)).contains 32 = false := by
    have := (Bool.and_eq_true _ _).mp hw |>.2
    simpa using this
  have hname : trimOWS (x ++ 32 :: vOrigin) = vOrigin :=
    piece_is_name [79, 114, 105, 103, 105] 110 (by decide) (by decide) x hx
  simp only [List.any_cons, List.any_nil, hname]
  have : (toLower vOrigin == b "origin") = true := by decide
  simp [this]

/-- **`Vary: Origin` after `c.Vary("Origin")`**, whatever list of field names was there before. -/
theorem varyHasOrigin_appendOne_origin (h : Bytes) (hw : varyWF h = true) :
    varyHasOrigin (appendOne h vOrigin) = true := by
  rcases appendOne_cases h vOrigin with ⟨_, e⟩ | ⟨_, e⟩ | ⟨_, e, c⟩
  · rw [e]; decide
  · rw [e]; exact varyHasOrigin_append_right _ _ (by decide)
  · rw [e]
    rcases c with c | c | c | c
    · rw [c]; decide
    · unfold hasPrefix at c
      rw [List.isPrefixOf_iff_prefix] at c
      obtain ⟨t, ht⟩ := c
      rw [← ht, List.append_assoc]
      exact varyHasOrigin_append_left _ _ (by decide)
    · unfold hasSuffix at c
      rw [List.isSuffixOf_iff_suffix] at c
      obtain ⟨t, ht⟩ := c
      rw [← ht] at hw ⊢
      exact varyHasOrigin_of_suffix t hw
    · obtain ⟨i, hi⟩ := Option.isSome_iff_exists.mp c
      · obtain ⟨pre, post, e2⟩ := indexOf_some_split _ _ _ hi
        have e3 : h = (pre ++ 32 :: vOrigin) ++ 44 :: post := by rw [e2]; simp
        rw [e3] at hw ⊢
        rw [varyWF_append] at hw
        exact varyHasOrigin_append_left _ _ (varyHasOrigin_of_suffix pre ((Bool.and_eq_true _ _).mp hw).1)

/-- `Append` of a field name keeps a list of field names one -/
theorem varyWF_appendOne (h v : Bytes) (hw : varyWF h = true) (hv : varyWF v = true)
    (hv2 : varyWF (32 :: v) = true) : varyWF (appendOne h v) = true := by
  rcases appendOne_cases h v with ⟨_, e⟩ | ⟨_, e⟩ | ⟨_, e, _⟩
  · rw [e]; exact hv
  · rw [e, varyWF_append, hw, hv2]; rfl
  · rw [e]; exact hw

/-- the `Vary` header the handler leaves, by branch -/
theorem handle_vary (bt : Built) (q : Request) (hS : skipped bt.cfg q = false)
    (hP : (handle bt q).panicked = false) :
    (handle bt q).vary = appendAll (if bt.allowAll then q.priorVary else appendOne q.priorVary vOrigin) q.afterVary ∨
    (handle bt q).vary = appendAll (appendOne q.priorVary vOrigin) q.afterVary ∨
    ∃ pn : Bool, (handle bt q).vary =
      appendOne (appendAll q.priorVary ([vACRM, vACRH] ++ (if pn then [vACRPN] else []))) vOrigin := by
  unfold handle at hP ⊢
  by_cases h1 : toLower q.origin = []
  · simp [hS, h1]
  by_cases h2 : q.method = OPTIONS <;> by_cases h3 : q.acrMethod = [] <;>
    cases h4 : allowOrigin bt (toLower q.origin) <;> simp [hS, h1, h2, h3, h4] at hP ⊢
  by_cases hpn : bt.cfg.privateNetwork = true ∧ q.acrPrivate = b "true"
  · simp [hpn]
  · simp [hpn]

/-- clause 3 for the model -/
theorem vary_origin_when_varies (bt : Built) (q : Request) :
    varyOK bt.allowAll bt.cfg q (handle bt q) = true := by
  unfold varyOK
  by_cases hP : (handle bt q).panicked = true
  · simp [hP]
  by_cases hA : bt.allowAll = true
  · simp [hA]
  by_cases hS : skipped bt.cfg q = true
  · simp [hS]
  by_cases hW' : varyWF q.priorVary = false
  · simp [hW']
  have hW : varyWF q.priorVary = true := by simpa using hW'
  have hA' : bt.allowAll = false := by simpa using hA
  have base : varyHasOrigin (appendAll (appendOne q.priorVary vOrigin) q.afterVary) = true :=
    varyHasOrigin_appendAll _ _ (varyHasOrigin_appendOne_origin _ hW)
  suffices hv : varyHasOrigin (handle bt q).vary = true by simp [hv]
  rcases handle_vary bt q (by simpa using hS) (by simpa using hP) with e | e | ⟨pn, e⟩
  · rw [e, hA']; exact base
  · rw [e]; exact base
  · rw [e]
    apply varyHasOrigin_appendOne_origin
    have w1 : varyWF (appendOne q.priorVary vACRM) = true :=
      varyWF_appendOne _ _ hW (by decide) (by decide)
    have w2 : varyWF (appendOne (appendOne q.priorVary vACRM) vACRH) = true :=
      varyWF_appendOne _ _ w1 (by decide) (by decide)
    cases pn
    · exact w2
    · exact varyWF_appendOne _ _ w2 (by decide) (by decide)

end C19
