import FiberModel.C19.Model
/-
C19 — the property, as an executable predicate over (configuration as the user wrote it, request,
observed response). It is evaluated by the driver on the *implementation's* observation and is the
right-hand side of the theorems in Props.lean.

"Permitted by the configuration" is read off the configuration TEXT here (what each `AllowOrigins`
entry denotes), not off whatever the constructor stored: `cfgListPermits`. The clauses are written
once, generic in the two notions they need (`allowAll`, `listPerm`), and instantiated twice:
`specViolation` (declarative, from the configuration text — what the driver evaluates) and
`specBuilt` (from the constructor's state). `Origin.lean` proves the two notions equal for every
configuration the constructor accepts (`origin_permitted_iff`, `build_allowAll`).
-/
namespace C19
open B

/-! ### what an `AllowOrigins` entry denotes -/

/-- The serialized origin a configured text stands for: it must read (net/url) as an absolute URL
    with a host, no `*` in it, nothing behind the host but an optional root path (an empty `?` or
    `#` marker counts as nothing); the origin is scheme and host (port included, userinfo not) in
    lower case. `none`: the text denotes no origin. -/
def originOfText (t : Bytes) : Option Bytes :=
  match Url.parse t with
  | none => none
  | some u =>
    if u.host ≠ [] ∧ ¬ u.host.contains 42 ∧ (u.path = [] ∨ u.path = b "/") ∧ u.rawQuery = [] ∧ u.fragment = []
    then some (toLower u.scheme ++ b "://" ++ toLower u.host) else none

/-- The (scheme prefix, dot-led host suffix) a wildcard text `scheme://.domain…` stands for. -/
def wildcardOfText (t : Bytes) : Option (Bytes × Bytes) :=
  match Url.parse t with
  | none => none
  | some u =>
    if u.host.head? = some 46 ∧ ¬ u.host.contains 42 ∧ (u.path = [] ∨ u.path = b "/") ∧ u.rawQuery = [] ∧ u.fragment = []
    then some (toLower u.scheme ++ b "://", toLower u.host) else none

/-- Does entry `e` permit the (lower-cased) origin `o`? A wildcard entry `…://*.…` (the `*` is taken
    out, blanks around are dropped) permits `scheme://` ++ anything ++ `.domain[:port]`: the same
    scheme and a DOT-separated host suffix. Any other entry permits exactly the origin it denotes. -/
def entryPermits (e o : Bytes) : Bool :=
  match indexOf e (b "://*.") with
  | some i =>
    match wildcardOfText (trim (e.take (i + 3) ++ e.drop (i + 4)) 32) with
    | some (pre, suf) => decide (o.length ≥ pre.length + suf.length) && hasPrefix o pre && hasSuffix o suf
    | none => false
  | none => originOfText (trim e 32) == some o

/-- some list entry permits the origin -/
def cfgListPermits (cfg : Config) (o : Bytes) : Bool := cfg.allowOrigins.any (entryPermits · o)

/-- all origins are allowed: `*` is listed, or nothing at all is configured -/
def cfgAllowsAll (cfg : Config) : Bool :=
  cfg.allowOrigins.contains (b "*") || (cfg.allowOrigins.isEmpty && cfg.allowFunc.isNone)

/-! ### reading a `Vary` header: comma-separated field names, optional white space around each -/

/-- the comma-separated pieces of a header value (always at least one) -/
def splitComma : Bytes → List Bytes
  | [] => [[]]
  | c :: cs =>
    if c = 44 then [] :: splitComma cs
    else match splitComma cs with
      | [] => [[c]]
      | p :: ps => (c :: p) :: ps

def isOWS (c : Nat) : Bool := c == 32 || c == 9
def trimOWS (s : Bytes) : Bytes := ((s.dropWhile isOWS).reverse.dropWhile isOWS).reverse

/-- `Vary` lists the request header `Origin` (field names compare case-insensitively) -/
def varyHasOrigin (h : Bytes) : Bool := (splitComma h).any fun p => toLower (trimOWS p) == b "origin"

/-- what an earlier middleware left in `Vary` is a list of field names: no member has a blank inside
    (`Append` looks for a member by the text ` name`, which such a value could fake) -/
def varyWF (h : Bytes) : Bool := (splitComma h).all fun p => !(trimOWS p).contains 32

/-! ### the clauses, generic in `allowAll` ("all origins are allowed") and `listPerm` ("a list
    entry permits the origin") -/

/-- "permitted by the configuration": exact list entry, wildcard-subdomain entry, or the allow
    function (saying yes). -/
def permittedW (listPerm : Bytes → Bool) (cfg : Config) (o : Bytes) : Bool :=
  listPerm o || (match cfg.allowFunc with | some f => f o == some true | none => false)

def isPreflight (cfg : Config) (q : Request) : Bool :=
  !skipped cfg q && toLower q.origin ≠ [] && q.method = OPTIONS && q.acrMethod ≠ []

/-- clause 1: ACAO only if allowed, and then `*` (iff all origins allowed) or the lower-cased origin -/
def acaoOK (allowAll : Bool) (listPerm : Bytes → Bool) (cfg : Config) (q : Request) (r : Response) : Bool :=
  match r.acao with
  | none => true
  | some v =>
    if allowAll then v = b "*"
    else v = toLower q.origin && v ≠ [] && permittedW listPerm cfg v

/-- clause 2: never `*` together with credentials; credentials only when configured -/
def credsOK (cfg : Config) (r : Response) : Bool :=
  (!r.acac) || (cfg.credentials && r.acao.isSome && r.acao ≠ some (b "*"))

/-- clause 3: responses that vary by origin carry `Vary: Origin` (whatever well-formed `Vary` an
    earlier middleware left, whatever the downstream handler adds with `c.Vary`) -/
def varyOK (allowAll : Bool) (cfg : Config) (q : Request) (r : Response) : Bool :=
  r.panicked || allowAll || skipped cfg q || !varyWF q.priorVary || varyHasOrigin r.vary

/-- clause 0: when `Next` tells the middleware to step aside it adds nothing and calls the handler -/
def skipOK (cfg : Config) (q : Request) (r : Response) : Bool :=
  !skipped cfg q ||
    (r.next && !r.status204 && !r.panicked && r.acao.isNone && !r.acac && r.vary = appendAll q.priorVary q.afterVary &&
     r.allowMethods.isNone && r.allowHeaders.isNone && r.maxAge.isNone && r.expose.isNone && !r.privateNet)

/-- clause 4: preflight gets 204, configured methods/headers/max-age/private-network, handler not
    reached; everything else reaches the handler -/
def preflightOK (cfg : Config) (q : Request) (r : Response) : Bool :=
  if r.panicked then true
  else if isPreflight cfg q then
    r.status204 && !r.next &&
    r.allowMethods = (if cfg.allowMethods.isEmpty then none else some (join cfg.allowMethods (b ", "))) &&
    r.allowHeaders = (if cfg.allowHeaders.isEmpty then (if q.acrHeaders = [] then none else some q.acrHeaders)
                      else some (join cfg.allowHeaders (b ", "))) &&
    r.privateNet = (cfg.privateNetwork && q.acrPrivate = b "true") &&
    r.maxAge = simpleMaxAge cfg
  else r.next && !r.status204 && r.allowMethods.isNone && r.allowHeaders.isNone && !r.privateNet

/-- clause 5: the request dies in `AllowOriginsFunc` only if that function was due (no skip, an
    Origin, CORS request, not all origins allowed, no list entry permits) and panics on the origin -/
def panicOK (allowAll : Bool) (listPerm : Bytes → Bool) (cfg : Config) (q : Request) (r : Response) : Bool :=
  !r.panicked ||
    (!skipped cfg q && toLower q.origin ≠ [] && !(q.method = OPTIONS && q.acrMethod = []) &&
     !allowAll && !listPerm (toLower q.origin) &&
     (match cfg.allowFunc with | some f => f (toLower q.origin) == none | none => false))

/-- The property: first failing clause, or `none`. A request that died in the user's function sent
    nothing: only clause 5 speaks. -/
def specViolationW (allowAll : Bool) (listPerm : Bytes → Bool) (cfg : Config) (q : Request) (r : Response) :
    Option String :=
  if !panicOK allowAll listPerm cfg q r then some "func-panic"
  else if r.panicked then none
  else if !skipOK cfg q r then some "next-skips-middleware"
  else if !acaoOK allowAll listPerm cfg q r then some "acao-only-if-allowed"
  else if !credsOK cfg r then some "never-star-with-credentials"
  else if !varyOK allowAll cfg q r then some "vary-origin"
  else if !preflightOK cfg q r then some "preflight"
  else none

/-- The exclusion at configuration level: a configuration that asks for credentials AND allows all
    origins (`*` listed, or nothing configured) must not be served at all (`New` panics). -/
def ctorViolation (cfg : Config) (served : Bool) : Option String :=
  if served && cfg.credentials && cfgAllowsAll cfg then some "credentials-with-wildcard-refused" else none

/-- **The property**, read off the configuration text. -/
def specViolation (cfg : Config) (q : Request) (r : Response) : Option String :=
  specViolationW (cfgAllowsAll cfg) (cfgListPermits cfg) cfg q r

/-- The same clauses relative to what the constructor stored. -/
def specBuilt (bt : Built) (q : Request) (r : Response) : Option String :=
  specViolationW bt.allowAll (listAllows bt) bt.cfg q r

/-- permitted, relative to the constructor's state -/
def permitted (bt : Built) (o : Bytes) : Bool := permittedW (listAllows bt) bt.cfg o

end C19
