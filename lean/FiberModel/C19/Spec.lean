import FiberModel.C19.Model
/-
C19 — the property, as an executable predicate over (built configuration, request, observed
response). It is evaluated by the driver on the *implementation's* observation and is the right-hand
side of the theorems in Props.lean.
-/
namespace C19
open B

/-- "permitted by the configuration": exact list entry, wildcard-subdomain entry, or the allow
    function. -/
def permitted (bt : Built) (o : Bytes) : Bool :=
  bt.origins.contains o || bt.subs.any (·.match o) ||
    (match bt.cfg.allowFunc with | some f => f o | none => false)

def isPreflight (q : Request) : Bool :=
  !q.skip && toLower q.origin ≠ [] && q.method = OPTIONS && q.acrMethod ≠ []

/-- clause 1: ACAO only if allowed, and then `*` (iff all origins allowed) or the lower-cased origin -/
def acaoOK (bt : Built) (q : Request) (r : Response) : Bool :=
  match r.acao with
  | none => true
  | some v =>
    if bt.allowAll then v = b "*"
    else v = toLower q.origin && v ≠ [] && permitted bt v

/-- clause 2: never `*` together with credentials; credentials only when configured -/
def credsOK (bt : Built) (r : Response) : Bool :=
  (!r.acac) || (bt.cfg.credentials && r.acao.isSome && r.acao ≠ some (b "*"))

/-- clause 3: responses that vary by origin carry `Vary: Origin` -/
def varyOK (bt : Built) (q : Request) (r : Response) : Bool :=
  bt.allowAll || q.skip || r.vary.contains vOrigin

/-- clause 0: when `Next` tells the middleware to step aside it adds nothing and calls the handler -/
def skipOK (q : Request) (r : Response) : Bool :=
  !q.skip || (r.next && !r.status204 && r.acao.isNone && !r.acac && r.vary.isEmpty &&
              r.allowMethods.isNone && r.allowHeaders.isNone && r.maxAge.isNone && r.expose.isNone && !r.privateNet)

/-- clause 4: preflight gets 204, configured methods/headers, handler not reached;
    everything else reaches the handler -/
def preflightOK (bt : Built) (q : Request) (r : Response) : Bool :=
  if isPreflight q then
    r.status204 && !r.next &&
    r.allowMethods = (if bt.cfg.allowMethods.isEmpty then none else some (join bt.cfg.allowMethods (b ", "))) &&
    r.allowHeaders = (if bt.cfg.allowHeaders.isEmpty then (if q.acrHeaders = [] then none else some q.acrHeaders)
                      else some (join bt.cfg.allowHeaders (b ", "))) &&
    r.privateNet = (bt.cfg.privateNetwork && q.acrPrivate = b "true")
  else r.next && !r.status204 && r.allowMethods.isNone && r.allowHeaders.isNone

/-- The property: first failing clause, or `none`. -/
def specViolation (bt : Built) (q : Request) (r : Response) : Option String :=
  if !skipOK q r then some "next-skips-middleware"
  else if !acaoOK bt q r then some "acao-only-if-allowed"
  else if !credsOK bt r then some "never-star-with-credentials"
  else if !varyOK bt q r then some "vary-origin"
  else if !preflightOK bt q r then some "preflight"
  else none

end C19
