import FiberModel.Basic
/-
C19 — model of middleware/cors (cors.go `New` and the returned handler, utils.go `subdomain.match`).

Transcribed from the code that exists. `url.Parse` inside `normalizeOrigin` is *not* modelled: the
model's `normalizeOrigin` covers configuration origins of the shape `scheme://host[:port][/]`
(what the harness generates and what the documentation asks for); other shapes are reported by the
driver as outside the modelled domain. `AllowOriginsFunc` is a parameter (a predicate on the
lower-cased origin); `Next` is a per-request flag (`Request.skip`).
-/
namespace C19
open B

structure Subdomain where
  pre : Bytes      -- cors/utils.go subdomain.prefix, e.g. "https://"
  suf : Bytes      -- subdomain.suffix, e.g. ".example.com"
  deriving Repr, DecidableEq

/-- utils.go `subdomain.match` -/
def Subdomain.match (s : Subdomain) (o : Bytes) : Bool :=
  decide (o.length ≥ s.pre.length + s.suf.length) && hasPrefix o s.pre && hasSuffix o s.suf

/-- The user-facing configuration (cors.Config), `AllowOriginsFunc` as an optional predicate. -/
structure Config where
  allowOrigins : List Bytes
  allowFunc : Option (Bytes → Bool)
  allowMethods : List Bytes
  allowHeaders : List Bytes
  exposeHeaders : List Bytes
  maxAge : Int
  credentials : Bool
  privateNetwork : Bool

/-- What `New` computes once: the closure state of the handler. -/
structure Built where
  origins : List Bytes          -- allowOrigins (normalised)
  subs : List Subdomain         -- allowSOrigins
  allowAll : Bool               -- allowAllOrigins
  cfg : Config

/-- `strings.ToLower(scheme + "://" + host)` for origins of shape `scheme://host[:port][/]`;
    `none` = `normalizeOrigin` reports invalid (or the shape is outside the modelled domain). -/
def normalizeOrigin (o : Bytes) : Option Bytes :=
  match indexOf o (b "://") with
  | none => none
  | some i =>
    let scheme := o.take i
    let rest := o.drop (i + 3)
    let host := if rest.getLast? = some 47 then rest.dropLast else rest
    if scheme.isEmpty || host.isEmpty || host.contains 47 || host.contains 42 || host.contains 63
       || host.contains 35 || host.contains 32 then none
    else some (toLower (scheme ++ b "://" ++ host))

/-- The loop over `cfg.AllowOrigins` in `New` (first `*` stops the loop). `none` = panic. -/
def buildLoop : List Bytes → List Bytes → List Subdomain → Option (List Bytes × List Subdomain × Bool)
  | [], os, ss => some (os, ss, false)
  | o :: rest, os, ss =>
    if o = b "*" then some (os, ss, true)
    else match indexOf o (b "://*.") with
      | some i =>
        let trimmed := trim (o.take (i + 3) ++ o.drop (i + 4)) 32
        match normalizeOrigin trimmed with
        | none => none
        | some n => buildLoop rest os (ss ++ [{ pre := n.take (i + 3), suf := n.drop (i + 3) }])
      | none =>
        match normalizeOrigin (trim o 32) with
        | none => none
        | some n => buildLoop rest (os ++ [n]) ss

/-- cors.go `New` after the `AllowMethods` defaulting: `none` = the constructor panics. -/
def buildCore (cfg : Config) : Option Built :=
  match buildLoop cfg.allowOrigins [] [] with
  | none => none
  | some (os, ss, star) =>
    if cfg.credentials && (star || (cfg.allowOrigins.isEmpty && cfg.allowFunc.isNone)) then none
    else some { origins := os, subs := ss,
                allowAll := star || (cfg.allowOrigins.isEmpty && cfg.allowFunc.isNone), cfg := cfg }

/-- `buildCore` without the credentials/wildcard refusal. Used by the driver only, to still evaluate
    the spec oracle on an implementation that (wrongly) accepted such a configuration. -/
def buildLax (cfg : Config) : Option Built :=
  match buildLoop cfg.allowOrigins [] [] with
  | none => none
  | some (os, ss, star) =>
    some { origins := os, subs := ss,
           allowAll := star || (cfg.allowOrigins.isEmpty && cfg.allowFunc.isNone), cfg := cfg }

/-- cors.go `New`. -/
def build (cfg : Config) (defaultMethods : List Bytes) : Option Built :=
  buildCore (if cfg.allowMethods.isEmpty then { cfg with allowMethods := defaultMethods } else cfg)

structure Request where
  method : Bytes
  origin : Bytes            -- raw Origin header ("" = absent)
  acrMethod : Bytes         -- Access-Control-Request-Method
  acrHeaders : Bytes        -- Access-Control-Request-Headers
  acrPrivate : Bytes        -- Access-Control-Request-Private-Network
  skip : Bool := false      -- `cfg.Next != nil && cfg.Next(c)`: the middleware steps aside

/-- Everything the property talks about in the response. `vary` is the list of names passed to
    `c.Vary` in call order. -/
structure Response where
  next : Bool                       -- the protected handler ran
  status204 : Bool                  -- SendStatus(204)
  acao : Option Bytes := none
  acac : Bool := false              -- Access-Control-Allow-Credentials: true
  vary : List Bytes := []
  allowMethods : Option Bytes := none
  allowHeaders : Option Bytes := none
  maxAge : Option Bytes := none
  expose : Option Bytes := none
  privateNet : Bool := false
  deriving Repr, DecidableEq

/-- The origin decision of the handler: the value of `allowOrigin` ("" = none). -/
def allowOrigin (bt : Built) (o : Bytes) : Bytes :=
  if bt.allowAll then b "*"
  else
    let a := if bt.origins.contains o then o else []
    let a := if a.isEmpty then (if bt.subs.any (·.match o) then o else []) else a
    if a.isEmpty then
      match bt.cfg.allowFunc with
      | some f => if f o then o else []
      | none => []
    else a

/-- cors.go `setSimpleHeaders`, first block: (Access-Control-Allow-Origin, Allow-Credentials). -/
def simpleAcao (cfg : Config) (allow : Bytes) : Option Bytes × Bool :=
  if cfg.credentials then
    if allow = b "*" then (some allow, false)
    else if allow ≠ [] then (some allow, true)
    else (none, false)
  else if allow ≠ [] then (some allow, false)
  else (none, false)

/-- `setSimpleHeaders`, second block: Access-Control-Max-Age. -/
def simpleMaxAge (cfg : Config) : Option Bytes :=
  if cfg.maxAge > 0 then some (natToDec cfg.maxAge.toNat)
  else if cfg.maxAge < 0 then some (b "0")
  else none

/-- `setSimpleHeaders`, third block: Access-Control-Expose-Headers. -/
def simpleExpose (cfg : Config) : Option Bytes :=
  if cfg.exposeHeaders.isEmpty then none else some (join cfg.exposeHeaders (b ", "))

def OPTIONS : Bytes := b "OPTIONS"
def vOrigin : Bytes := b "Origin"
def vACRM : Bytes := b "Access-Control-Request-Method"
def vACRH : Bytes := b "Access-Control-Request-Headers"
def vACRPN : Bytes := b "Access-Control-Request-Private-Network"

/-- The returned handler. -/
def handle (bt : Built) (q : Request) : Response :=
  let o := toLower q.origin
  if q.skip then { next := true, status204 := false }
  else if o = [] then
    { next := true, status204 := false, vary := if bt.allowAll then [] else [vOrigin] }
  else if q.method = OPTIONS ∧ q.acrMethod = [] then
    { next := true, status204 := false, vary := [vOrigin] }
  else
    let allow := allowOrigin bt o
    if q.method ≠ OPTIONS then
      { next := true, status204 := false, vary := if bt.allowAll then [] else [vOrigin],
        acao := (simpleAcao bt.cfg allow).1, acac := (simpleAcao bt.cfg allow).2,
        maxAge := simpleMaxAge bt.cfg, expose := simpleExpose bt.cfg }
    else
      let pn := bt.cfg.privateNetwork && q.acrPrivate = b "true"
      { next := false, status204 := true,
        vary := [vACRM, vACRH] ++ (if pn then [vACRPN] else []) ++ [vOrigin],
        privateNet := pn,
        acao := (simpleAcao bt.cfg allow).1, acac := (simpleAcao bt.cfg allow).2,
        maxAge := simpleMaxAge bt.cfg, expose := simpleExpose bt.cfg,
        allowMethods := if bt.cfg.allowMethods.isEmpty then none
                        else some (join bt.cfg.allowMethods (b ", ")),
        allowHeaders := if bt.cfg.allowHeaders.isEmpty then
                          (if q.acrHeaders = [] then none else some q.acrHeaders)
                        else some (join bt.cfg.allowHeaders (b ", ")) }

end C19
