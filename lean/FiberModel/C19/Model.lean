import FiberModel.Basic
import FiberModel.C19.Url
/-
C19 — model of middleware/cors (cors.go `New` and the returned handler, utils.go `normalizeOrigin`
and `subdomain.match`) plus the one piece of fiber's Ctx it leans on for `Vary` (ctx.go `Append`).

Transcribed from the code that exists. `url.Parse` inside `normalizeOrigin` is the transcription in
`Url.lean` (every shape: upper case, userinfo, IPv6 literals, ports, paths, queries, fragments,
escapes, control bytes). The one library function that stays outside is `strings.ToLower` on
NON-ASCII text (Unicode tables): `toLower` below is Go's ASCII fast path, exact whenever the text is
ASCII; the driver refuses (outside-domain) any case in which a lower-cased string has a byte ≥ 0x80.
`AllowOriginsFunc` is a parameter (a function on the lower-cased origin that may also panic); `Next`
is a parameter (a predicate on the request, or nil).
-/
namespace C19
open B

structure Subdomain where
  pre : Bytes      -- cors/utils.go subdomain.prefix, e.g. "https://"
  suf : Bytes      -- subdomain.suffix, e.g. ".example.com"
  deriving Repr, DecidableEq

/-- utils.go `subdomain.match` -/
def Subdomain.match (s : Subdomain) (o : Bytes) : Bool :=
  decide (o.length ≥ s.pre.length + s.suf.length) && hasPrefix o s.pre && hasSuffix o s.suf

structure Request where
  method : Bytes
  origin : Bytes            -- raw Origin header ("" = absent)
  acrMethod : Bytes         -- Access-Control-Request-Method
  acrHeaders : Bytes        -- Access-Control-Request-Headers
  acrPrivate : Bytes        -- Access-Control-Request-Private-Network
  skip : Bool := false      -- the request carries what the harness's `Next` looks for (X-Skip: 1)
  priorVary : Bytes := []   -- response `Vary` already set by an earlier middleware ("" = absent)
  afterVary : List Bytes := []  -- fields the downstream handler passes to `c.Vary(...)`

/-- The user-facing configuration (cors.Config). `allowFunc o = none`: the function panics on `o`. -/
structure Config where
  next : Option (Request → Bool) := none
  allowOrigins : List Bytes
  allowFunc : Option (Bytes → Option Bool)
  allowMethods : List Bytes
  allowHeaders : List Bytes
  exposeHeaders : List Bytes
  maxAge : Int
  credentials : Bool
  privateNetwork : Bool

/-- What `New` computes once: the closure state of the handler. -/
structure Built where
  origins : List Bytes          -- allowOrigins (normalised)
  subs : List Subdomain         -- allowSOrigins
  allowAll : Bool               -- allowAllOrigins
  cfg : Config

/-- `strings.ToLower` is applied to ASCII text only inside the modelled domain. -/
def isASCII (s : Bytes) : Bool := s.all (· < 128)

/-- utils.go `normalizeOrigin`: `none` = `(false, "")`. -/
def normalizeOrigin (o : Bytes) : Option Bytes :=
  match Url.parse o with
  | none => none
  | some u =>
    if u.host.contains 42 then none
    else if u.host = [] || (u.path ≠ [] && u.path ≠ b "/") || u.rawQuery ≠ [] || u.fragment ≠ [] then none
    else some (toLower (u.scheme ++ b "://" ++ u.host))

/-- `New`, wildcard entry, behind `normalizeOrigin`: the normalised origin is split behind ITS OWN
    `://`, and what follows must still start with the dot (else panic). -/
def wildcardSplit (trimmed : Bytes) : Option (Bytes × Bytes) :=
  match normalizeOrigin trimmed with
  | none => none
  | some n =>
    match indexOf n (b "://") with
    | none => none
    | some j => if (n.drop (j + 3)).head? = some 46 then some (n.take (j + 3), n.drop (j + 3)) else none

/-- The loop over `cfg.AllowOrigins` in `New` (first `*` stops the loop). `none` = panic.
    Wildcard entry `…://*.…`: the `*` is cut out, the rest trimmed, normalised and split. -/
def buildLoop : List Bytes → List Bytes → List Subdomain → Option (List Bytes × List Subdomain × Bool)
  | [], os, ss => some (os, ss, false)
  | o :: rest, os, ss =>
    if o = b "*" then some (os, ss, true)
    else match indexOf o (b "://*.") with
      | some i =>
        match wildcardSplit (trim (o.take (i + 3) ++ o.drop (i + 4)) 32) with
        | none => none
        | some (pre, suf) => buildLoop rest os (ss ++ [{ pre := pre, suf := suf }])
      | none =>
        match normalizeOrigin (trim o 32) with
        | none => none
        | some n => buildLoop rest (os ++ [n]) ss

/-- cors.go `New` after the `AllowMethods` defaulting: `none` = the constructor panics. -/
def buildCore (cfg : Config) : Option Built :=
  match buildLoop cfg.allowOrigins [] [] with
  | none => none
  | some (os, ss, star) =>
    if cfg.credentials && (star || (cfg.allowOrigins.isEmpty && cfg.allowFunc.isNone)) then none
    else some { origins := os, subs := ss,
                allowAll := star || (cfg.allowOrigins.isEmpty && cfg.allowFunc.isNone), cfg := cfg }

/-- `buildCore` without the credentials/wildcard refusal. Used by the driver only, to still evaluate
    the spec oracle on an implementation that (wrongly) accepted such a configuration. -/
def buildLax (cfg : Config) : Option Built :=
  match buildLoop cfg.allowOrigins [] [] with
  | none => none
  | some (os, ss, star) =>
    some { origins := os, subs := ss,
           allowAll := star || (cfg.allowOrigins.isEmpty && cfg.allowFunc.isNone), cfg := cfg }

/-- cors.go `New`. -/
def build (cfg : Config) (defaultMethods : List Bytes) : Option Built :=
  buildCore (if cfg.allowMethods.isEmpty then { cfg with allowMethods := defaultMethods } else cfg)

/-- Everything the property talks about in the response. `vary` is the raw `Vary` response header
    once the request is finished ("" = absent). -/
structure Response where
  next : Bool                       -- the protected handler ran
  status204 : Bool                  -- SendStatus(204)
  panicked : Bool := false          -- `AllowOriginsFunc` panicked: nothing below is sent
  acao : Option Bytes := none
  acac : Bool := false              -- Access-Control-Allow-Credentials: true
  vary : Bytes := []
  allowMethods : Option Bytes := none
  allowHeaders : Option Bytes := none
  maxAge : Option Bytes := none
  expose : Option Bytes := none
  privateNet : Bool := false
  deriving Repr, DecidableEq

/-- `cfg.Next != nil && cfg.Next(c)` -/
def skipped (cfg : Config) (q : Request) : Bool :=
  match cfg.next with
  | some f => f q
  | none => false

/-- The list part of the origin decision: exact entries first, then wildcard entries. -/
def listAllows (bt : Built) (o : Bytes) : Bool :=
  bt.origins.contains o || bt.subs.any (·.match o)

/-- The origin decision of the handler: the value of `allowOrigin` ("" = none);
    `none` = `AllowOriginsFunc` was consulted and panicked. The function is consulted only when
    neither the wildcard nor the lists set a value. -/
def allowOrigin (bt : Built) (o : Bytes) : Option Bytes :=
  if bt.allowAll then some (b "*")
  else
    let a := if bt.origins.contains o then o else []
    let a := if a.isEmpty then (if bt.subs.any (·.match o) then o else []) else a
    if a.isEmpty then
      match bt.cfg.allowFunc with
      | some f =>
        match f o with
        | none => none
        | some true => some o
        | some false => some []
      | none => some []
    else some a

/-- cors.go `setSimpleHeaders`, first block: (Access-Control-Allow-Origin, Allow-Credentials). -/
def simpleAcao (cfg : Config) (allow : Bytes) : Option Bytes × Bool :=
  if cfg.credentials then
    if allow = b "*" then (some allow, false)
    else if allow ≠ [] then (some allow, true)
    else (none, false)
  else if allow ≠ [] then (some allow, false)
  else (none, false)

/-- `setSimpleHeaders`, second block: Access-Control-Max-Age. -/
def simpleMaxAge (cfg : Config) : Option Bytes :=
  if cfg.maxAge > 0 then some (natToDec cfg.maxAge.toNat)
  else if cfg.maxAge < 0 then some (b "0")
  else none

/-- `setSimpleHeaders`, third block: Access-Control-Expose-Headers. -/
def simpleExpose (cfg : Config) : Option Bytes :=
  if cfg.exposeHeaders.isEmpty then none else some (join cfg.exposeHeaders (b ", "))

def OPTIONS : Bytes := b "OPTIONS"
def vOrigin : Bytes := b "Origin"
def vACRM : Bytes := b "Access-Control-Request-Method"
def vACRH : Bytes := b "Access-Control-Request-Headers"
def vACRPN : Bytes := b "Access-Control-Request-Private-Network"

/-- ctx.go `Append(field, value)` for one value, on the current header text `h` ("" = absent):
    the value is added behind `", "` unless `h` is it, starts with `value,`, ends with ` value`
    or contains ` value,`. -/
def appendOne (h v : Bytes) : Bytes :=
  if h = [] then v
  else if h ≠ v && !hasPrefix h (v ++ [44]) && !hasSuffix h (32 :: v) &&
          !(indexOf h (32 :: v ++ [44])).isSome then h ++ [44, 32] ++ v
  else h

/-- ctx.go `Vary(fields...)` = `Append("Vary", fields...)` -/
def appendAll (h : Bytes) (vs : List Bytes) : Bytes := vs.foldl appendOne h

/-- The returned handler, between an earlier middleware that left `q.priorVary` in the response and
    a downstream handler that calls `c.Vary(q.afterVary...)`. -/
def handle (bt : Built) (q : Request) : Response :=
  let o := toLower q.origin
  if skipped bt.cfg q then
    { next := true, status204 := false, vary := appendAll q.priorVary q.afterVary }
  else if o = [] then
    { next := true, status204 := false,
      vary := appendAll (if bt.allowAll then q.priorVary else appendOne q.priorVary vOrigin) q.afterVary }
  else if q.method = OPTIONS ∧ q.acrMethod = [] then
    { next := true, status204 := false, vary := appendAll (appendOne q.priorVary vOrigin) q.afterVary }
  else
    match allowOrigin bt o with
    | none => { next := false, status204 := false, panicked := true, vary := q.priorVary }
    | some allow =>
      if q.method ≠ OPTIONS then
        { next := true, status204 := false,
          vary := appendAll (if bt.allowAll then q.priorVary else appendOne q.priorVary vOrigin) q.afterVary,
          acao := (simpleAcao bt.cfg allow).1, acac := (simpleAcao bt.cfg allow).2,
          maxAge := simpleMaxAge bt.cfg, expose := simpleExpose bt.cfg }
      else
        let pn := bt.cfg.privateNetwork && q.acrPrivate = b "true"
        { next := false, status204 := true,
          vary := appendOne (appendAll q.priorVary ([vACRM, vACRH] ++ (if pn then [vACRPN] else []))) vOrigin,
          privateNet := pn,
          acao := (simpleAcao bt.cfg allow).1, acac := (simpleAcao bt.cfg allow).2,
          maxAge := simpleMaxAge bt.cfg, expose := simpleExpose bt.cfg,
          allowMethods := if bt.cfg.allowMethods.isEmpty then none
                          else some (join bt.cfg.allowMethods (b ", ")),
          allowHeaders := if bt.cfg.allowHeaders.isEmpty then
                            (if q.acrHeaders = [] then none else some q.acrHeaders)
                          else some (join bt.cfg.allowHeaders (b ", ")) }

/-- The middleware over a history of requests on one app (one connection, one reused request
    context): the handler keeps nothing between requests, each is answered on its own. -/
def serve (bt : Built) (history : List Request) : List Response := history.map (handle bt)

/-- the reply to `q` after the requests `pre` were served by the same handler -/
def replyAfter (bt : Built) (pre : List Request) (q : Request) : Response :=
  (serve bt (pre ++ [q])).getLastD (handle bt q)

end C19
