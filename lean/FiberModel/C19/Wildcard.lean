import FiberModel.C19.Shapes
/-
C19 — what the written forms of an origin normalise to, and what a wildcard-subdomain entry means,
derived from the constructor model over the `net/url` transcription.

* `normalizeOrigin_serialized` / `normalizeOrigin_ipv6`: `scheme://[userinfo@]host[:port][/]`
  gives `lower(scheme)://lower(host)[:port]` — upper case folded, userinfo and the root path
  dropped, ports (default or not) and a trailing dot kept, punycode labels untouched.
* `buildLoop_wildcard`: for an entry `S://*.D[:port][/]`, blanks around allowed, the constructor
  stores exactly (`lower(S)://`, `.lower(D)[:port]`).
* `wildcard_entry_meaning`, `wildcard_match_serialized`: that entry accepts `o` iff `o` is
  `lower(S)://` ++ anything ++ `.lower(D)[:port]`; for a serialized origin `S'://HP'` that is:
  the same scheme and `HP'` ends in `.lower(D)[:port]` — a DOT-separated host suffix.
-/
namespace C19
open B Url

/-- a port as written: nothing, or `:` and digits -/
def portShaped (P : Bytes) : Prop := P = [] ∨ ∃ ds, P = 58 :: ds ∧ ds.all isDigit = true

/-- a userinfo prefix as written: nothing, or userinfo bytes (no `%`) and `@` -/
def userShaped (U : Bytes) : Prop := U = [] ∨ ∃ I, U = I ++ [64] ∧ validUserinfo I = true ∧ 37 ∉ I

theorem schemeShaped_bytes {S : Bytes} (h : schemeShaped S = true) : ∀ x ∈ S, isSchemeByte x = true := by
  cases S with
  | nil => simp [schemeShaped] at h
  | cons a t =>
    simp only [schemeShaped, Bool.and_eq_true, List.all_eq_true] at h
    intro x hx
    rcases List.mem_cons.mp hx with e | e
    · subst e; simp [isSchemeByte, h.1]
    · exact h.2 x e

theorem regByte_props {c : Nat} (h : regByte c = true) :
    hostByte c = true ∧ c ≠ 58 ∧ c ≠ 42 ∧ c ≠ 91 := by
  simp only [regByte, Bool.and_eq_true, bne_iff_ne, ne_eq] at h
  exact ⟨h.1.1.1, h.1.1.2, h.1.2, h.2⟩

theorem port_props {P : Bytes} (hP : portShaped P) :
    clean P ∧ 64 ∉ P ∧ 42 ∉ P ∧ 32 ∉ P ∧ toLower P = P := by
  rcases hP with e | ⟨ds, e, hd⟩
  · subst e; exact ⟨fun x hx => by simp at hx, by simp, by simp, by simp, rfl⟩
  · subst e
    have hdig : ∀ x ∈ ds, 48 ≤ x ∧ x ≤ 57 := by
      intro x hx
      have := List.all_eq_true.mp hd x hx
      simpa [isDigit] using this
    refine ⟨?_, ?_, ?_, ?_, ?_⟩
    · apply clean_cons (by decide)
      intro x hx
      have := hdig x hx
      simp only [isCTL, Bool.or_eq_false_iff, decide_eq_false_iff_not, beq_eq_false_iff_ne]
      omega
    · simp only [List.mem_cons, not_or]; exact ⟨by decide, fun m => by have := hdig 64 m; omega⟩
    · simp only [List.mem_cons, not_or]; exact ⟨by decide, fun m => by have := hdig 42 m; omega⟩
    · simp only [List.mem_cons, not_or]; exact ⟨by decide, fun m => by have := hdig 32 m; omega⟩
    · simp only [toLower, List.map_cons]
      congr 1
      conv => rhs; rw [← List.map_id ds]
      apply List.map_congr_left
      intro x hx
      have := hdig x hx
      have hu : isUpper x = false := by
        simp only [isUpper, Bool.and_eq_false_iff, decide_eq_false_iff_not]; omega
      simp [lowerByte, hu]

theorem reg_props {H : Bytes} (hH : H.all regByte = true) :
    clean H ∧ 64 ∉ H ∧ 42 ∉ H ∧ 32 ∉ H := by
  have hb : ∀ x ∈ H, regByte x = true := fun x hx => List.all_eq_true.mp hH x hx
  refine ⟨?_, ?_, ?_, ?_⟩
  · intro x hx
    have := hostByte_clean (regByte_props (hb x hx)).1
    exact ⟨this.1, this.2.1, this.2.2.1, this.2.2.2.1⟩
  · intro m; exact (hostByte_clean (regByte_props (hb 64 m)).1).2.2.2.2 rfl
  · intro m; exact (regByte_props (hb 42 m)).2.2.1 rfl
  · intro m
    have := (regByte_props (hb 32 m)).1
    revert this; decide

/-- the authority `[userinfo@]hostport` reads as `hostport` -/
theorem parseAuthority_userShaped (U HP host : Bytes) (hU : userShaped U) (h64 : 64 ∉ HP)
    (hh : parseHost HP = some host) : parseAuthority (U ++ HP) = some host := by
  rcases hU with e | ⟨I, e, hI, hp⟩
  · subst e; simp only [List.nil_append]; rw [parseAuthority_nouser HP h64]; exact hh
  · subst e
    rw [show I ++ [64] ++ HP = I ++ 64 :: HP by simp]
    exact parseAuthority_user I HP host hI hp h64 hh

theorem userShaped_clean {U : Bytes} (hU : userShaped U) : clean U := by
  rcases hU with e | ⟨I, e, hI, _⟩
  · subst e; intro x hx; simp at hx
  · subst e
    exact clean_append (validUserinfo_clean hI) (clean_cons (by decide) (fun x hx => by simp at hx))

/-- **A registered-name / IPv4 origin as written.** `scheme://[userinfo@]host[:port][/]` with a
    scheme `[a-zA-Z][a-zA-Z0-9+.-]*`, a non-empty host of bytes `url.Parse` passes (letters of
    either case, digits, `-._~` and the sub-delims; no `%`, `:`, `*`, `[`), digits as port:
    `normalizeOrigin` answers `lower(scheme)://lower(host)[:port]`. The userinfo and the root path
    are dropped; the port stays whether default or not; a trailing dot stays. -/
theorem normalizeOrigin_serialized (S U H P T : Bytes) (hS : schemeShaped S = true) (hU : userShaped U)
    (hH : H.all regByte = true) (hHne : H ≠ []) (hP : portShaped P) (hT : T = [] ∨ T = [47]) :
    normalizeOrigin (S ++ b "://" ++ U ++ H ++ P ++ T) = some (toLower S ++ b "://" ++ toLower H ++ P) := by
  obtain ⟨hHc, hH64, hH42, _⟩ := reg_props hH
  obtain ⟨hPc, hP64, hP42, _, hPl⟩ := port_props hP
  have h64 : 64 ∉ H ++ P := by simp [hH64, hP64]
  have hpa : parseAuthority (U ++ (H ++ P)) = some (H ++ P) :=
    parseAuthority_userShaped U (H ++ P) (H ++ P) hU h64 (parseHost_regname H P hH hP)
  have := normalizeOrigin_authority_form S (U ++ (H ++ P)) T (H ++ P) hS
    (clean_append (userShaped_clean hU) (clean_append hHc hPc)) hT hpa (by simp [hHne]) (by simp [hH42, hP42])
  rw [show S ++ b "://" ++ U ++ H ++ P ++ T = S ++ 58 :: 47 :: 47 :: (U ++ (H ++ P) ++ T) by simp [b]]
  rw [this, toLower_append, hPl]
  simp

/-- **An IPv6 origin as written.** `scheme://[userinfo@][v6][:port][/]` (hex digits, `:` and `.`
    between the brackets) normalises to `lower(scheme)://[lower(v6)][:port]`. -/
theorem normalizeOrigin_ipv6 (S U A P T : Bytes) (hS : schemeShaped S = true) (hU : userShaped U)
    (hA : A.all v6Byte = true) (hP : portShaped P) (hT : T = [] ∨ T = [47]) :
    normalizeOrigin (S ++ b "://" ++ U ++ 91 :: (A ++ 93 :: P) ++ T)
      = some (toLower S ++ b "://" ++ 91 :: (toLower A ++ 93 :: P)) := by
  obtain ⟨hPc, hP64, hP42, _, hPl⟩ := port_props hP
  have hAb : ∀ x ∈ A, hostByte x = true ∧ x ≠ 42 := by
    intro x hx
    have h := List.all_eq_true.mp hA x hx
    refine ⟨(v6Byte_hostByte h).1, ?_⟩
    intro e; subst e; revert h; decide
  have hAc : clean A := by
    intro x hx
    have := hostByte_clean (hAb x hx).1
    exact ⟨this.1, this.2.1, this.2.2.1, this.2.2.2.1⟩
  have hA64 : 64 ∉ A := fun m => (hostByte_clean (hAb 64 m).1).2.2.2.2 rfl
  have hA42 : 42 ∉ A := fun m => (hAb 42 m).2 rfl
  have hHPc : clean (91 :: (A ++ 93 :: P)) :=
    clean_cons (by decide) (clean_append hAc (clean_cons (by decide) hPc))
  have h64 : 64 ∉ 91 :: (A ++ 93 :: P) := by
    simp only [List.mem_cons, List.mem_append, not_or]
    exact ⟨by decide, hA64, by decide, hP64⟩
  have h42 : 42 ∉ 91 :: (A ++ 93 :: P) := by
    simp only [List.mem_cons, List.mem_append, not_or]
    exact ⟨by decide, hA42, by decide, hP42⟩
  have hpa : parseAuthority (U ++ 91 :: (A ++ 93 :: P)) = some (91 :: (A ++ 93 :: P)) :=
    parseAuthority_userShaped U _ _ hU h64 (parseHost_v6 A P hA hP)
  have := normalizeOrigin_authority_form S (U ++ 91 :: (A ++ 93 :: P)) T (91 :: (A ++ 93 :: P)) hS
    (clean_append (userShaped_clean hU) hHPc) hT hpa (by simp) h42
  rw [show S ++ b "://" ++ U ++ 91 :: (A ++ 93 :: P) ++ T
        = S ++ 58 :: 47 :: 47 :: (U ++ 91 :: (A ++ 93 :: P) ++ T) by simp [b]]
  rw [this]
  have : toLower (91 :: (A ++ 93 :: P)) = 91 :: (toLower A ++ 93 :: P) := by
    have h1 : toLower (91 :: (A ++ 93 :: P)) = 91 :: (toLower A ++ 93 :: toLower P) := by
      simp [toLower, lowerByte, isUpper]
    rw [h1, hPl]
  rw [this]

/-- `normalizeOrigin` on plain `scheme://host` (the shape the first version of this model covered). -/
theorem normalizeOrigin_simple (S H : Bytes) (hS : schemeShaped S = true) (hH : H ≠ [])
    (hHc : H.all regByte = true) :
    normalizeOrigin (S ++ b "://" ++ H) = some (toLower (S ++ b "://" ++ H)) := by
  have := normalizeOrigin_serialized S [] H [] [] hS (Or.inl rfl) hHc hH (Or.inl rfl) (Or.inl rfl)
  simp only [List.append_nil] at this
  rw [this, toLower_append, toLower_append]
  rfl

/-! ### blanks around an entry -/

theorem dropWhile_spaces (n : Nat) (Y : Bytes) (h : Y.head? ≠ some 32) :
    (List.replicate n 32 ++ Y).dropWhile (· == 32) = Y := by
  induction n with
  | zero =>
    cases Y with
    | nil => rfl
    | cons a t => simp at h; simp [h]
  | succ k ih => simp [List.replicate_succ, ih]

/-- `utils.Trim(s, ' ')` takes exactly the blanks off -/
theorem trim_spaces (n m : Nat) (X : Bytes) (h0 : X ≠ []) (h1 : X.head? ≠ some 32) (h2 : X.getLast? ≠ some 32) :
    trim (List.replicate n 32 ++ X ++ List.replicate m 32) 32 = X := by
  unfold trim trimLeft trimRight
  rw [List.append_assoc, dropWhile_spaces n _ (by
    cases X with
    | nil => exact absurd rfl h0
    | cons a t => simpa using h1)]
  rw [List.reverse_append, List.reverse_replicate, dropWhile_spaces m _ (by
    rw [List.head?_reverse]; exact h2)]
  simp

/-! ### a wildcard entry -/

/-- **What the constructor stores for a wildcard entry.** For `S ++ "://*." ++ D ++ port ++ tail`
    (scheme `S`, domain bytes `D` as in `normalizeOrigin_serialized`, optional port, optional `/`),
    blanks in front and behind allowed, the loop of `New` appends exactly the subdomain entry
    (`lower(S)://`, `.lower(D)[:port]`). -/
theorem buildLoop_wildcard (n m : Nat) (S D P T : Bytes) (rest : List Bytes) (os : List Bytes) (ss : List Subdomain)
    (hS : schemeShaped S = true) (hD : D.all regByte = true) (hP : portShaped P) (hT : T = [] ∨ T = [47]) :
    buildLoop ((List.replicate n 32 ++ (S ++ b "://*." ++ D ++ P ++ T) ++ List.replicate m 32) :: rest) os ss =
      buildLoop rest os (ss ++ [{ pre := toLower S ++ b "://", suf := 46 :: toLower D ++ P }]) := by
  obtain ⟨hDc, hD64, hD42, hD32⟩ := reg_props hD
  obtain ⟨hPc, hP64, hP42, hP32, hPl⟩ := port_props hP
  have hSne : S ≠ [] := by intro e; rw [e] at hS; simp [schemeShaped] at hS
  have hSnc := schemeShaped_no_colon hS
  -- the entry as prefix ++ pattern ++ rest
  let R := D ++ P ++ T ++ List.replicate m 32
  have he : List.replicate n 32 ++ (S ++ b "://*." ++ D ++ P ++ T) ++ List.replicate m 32
      = (List.replicate n 32 ++ S) ++ b "://*." ++ R := by simp [R]
  have hstar : (List.replicate n 32 ++ S) ++ b "://*." ++ R ≠ b "*" := by
    intro h
    have := congrArg List.length h
    simp [b] at this
    omega
  have hfree : ∀ x ∈ List.replicate n 32 ++ S, x ≠ 58 := by
    intro x hx
    rcases List.mem_append.mp hx with h | h
    · rw [List.mem_replicate] at h; omega
    · exact hSnc x h
  have hidx : indexOf ((List.replicate n 32 ++ S) ++ b "://*." ++ R) (b "://*.") = some (List.replicate n 32 ++ S).length :=
    indexOf_after_free _ (b "://*.") R 58 [47, 47, 42, 46] (by decide) hfree
  have hcut : ((List.replicate n 32 ++ S) ++ b "://*." ++ R).take ((List.replicate n 32 ++ S).length + 3)
        ++ ((List.replicate n 32 ++ S) ++ b "://*." ++ R).drop ((List.replicate n 32 ++ S).length + 4)
      = List.replicate n 32 ++ (S ++ 58 :: 47 :: 47 :: ((46 :: D ++ P) ++ T)) ++ List.replicate m 32 := by
    have h1 : ((List.replicate n 32 ++ S) ++ b "://*." ++ R).take ((List.replicate n 32 ++ S).length + 3)
        = (List.replicate n 32 ++ S) ++ b "://" := by
      have : (List.replicate n 32 ++ S).length + 3 = ((List.replicate n 32 ++ S) ++ b "://").length := by simp [b]; omega
      rw [this, show (List.replicate n 32 ++ S) ++ b "://*." ++ R
            = ((List.replicate n 32 ++ S) ++ b "://") ++ ([42, 46] ++ R) by simp [b]]
      exact List.take_left' rfl
    have h2 : ((List.replicate n 32 ++ S) ++ b "://*." ++ R).drop ((List.replicate n 32 ++ S).length + 4) = 46 :: R := by
      have : (List.replicate n 32 ++ S).length + 4 = ((List.replicate n 32 ++ S) ++ b "://*").length := by simp [b]; omega
      rw [this, show (List.replicate n 32 ++ S) ++ b "://*." ++ R
            = ((List.replicate n 32 ++ S) ++ b "://*") ++ (46 :: R) by simp [b]]
      exact List.drop_left' rfl
    rw [h1, h2]; simp [R, b]
  -- trimming the blanks
  have hhead : (S ++ 58 :: 47 :: 47 :: ((46 :: D ++ P) ++ T)).head? ≠ some 32 := by
    cases S with
    | nil => exact absurd rfl hSne
    | cons a t =>
      have : a ≠ 32 := by
        intro e; subst e; simp [schemeShaped, isAlpha, isUpper, isLower] at hS
      simpa using this
  have hlast : (S ++ 58 :: 47 :: 47 :: ((46 :: D ++ P) ++ T)).getLast? ≠ some 32 := by
    intro h
    have hm := List.mem_of_getLast? h
    simp only [List.mem_append, List.mem_cons] at hm
    rcases hm with h | h | h | h | ((h | h) | h) | h
    · have := schemeShaped_bytes hS 32 h; revert this; decide
    · omega
    · omega
    · omega
    · omega
    · exact hD32 h
    · exact hP32 h
    · rcases hT with e | e <;> simp [e] at h
  -- what the text denotes
  have h64 : 64 ∉ (46 :: D) ++ P := by simp [hD64, hP64]
  have hDall : (46 :: D).all regByte = true := by
    simp only [List.all_cons, hD, Bool.and_true]; decide
  have hpa : parseAuthority ((46 :: D) ++ P) = some ((46 :: D) ++ P) := by
    rw [parseAuthority_nouser _ h64]; exact parseHost_regname (46 :: D) P hDall hP
  have hcl : clean ((46 :: D) ++ P) := clean_append (clean_cons (by decide) hDc) hPc
  have hparse := parse_authority_form S ((46 :: D) ++ P) T ((46 :: D) ++ P) hS hcl hT hpa
  have hwild : wildcardSplit (S ++ 58 :: 47 :: 47 :: ((46 :: D ++ P) ++ T))
      = some (toLower S ++ b "://", 46 :: toLower D ++ P) := by
    rw [wildcardSplit_eq_wildcardOfText]
    unfold wildcardOfText
    rw [show (46 :: D ++ P) = (46 :: D) ++ P by simp, hparse]
    have h42 : ¬ ((46 :: D) ++ P).contains 42 = true := by simp [hD42, hP42]
    have hp : T = [] ∨ T = b "/" := by rcases hT with e | e <;> simp [e, b]
    simp only
    rw [if_pos ⟨by simp, h42, hp, by simp, by simp⟩]
    simp only [toLower_append, hPl, toLower_idem]
    rfl
  rw [he, buildLoop]
  simp only [hstar, ite_false, hidx]
  rw [hcut, trim_spaces n m _ (by simp) hhead hlast, hwild]

/-- **Meaning of a wildcard entry.** The stored entry accepts an origin iff the origin is the
    lower-cased scheme, `://`, any (possibly empty) label text, a DOT, and the lower-cased domain
    (with its port): scheme equality and a dot-separated host suffix. A look-alike host that merely
    ends in the domain's characters without the dot is not accepted. -/
theorem wildcard_entry_meaning (S D o : Bytes) :
    ({ pre := toLower (S ++ b "://"), suf := toLower (46 :: D) } : Subdomain).match o = true ↔
      ∃ mid, o = toLower S ++ b "://" ++ mid ++ (46 :: toLower D) := by
  have hpre : toLower (S ++ b "://") = toLower S ++ b "://" := by rw [toLower_append]; rfl
  have hsuf : toLower (46 :: D) = 46 :: toLower D := rfl
  constructor
  · intro h
    obtain ⟨mid, hm⟩ := subdomain_match_sound _ o h
    exact ⟨mid, by rw [hm, hpre, hsuf]⟩
  · rintro ⟨mid, rfl⟩
    rw [← hpre, ← hsuf]
    exact subdomain_match_complete { pre := toLower (S ++ b "://"), suf := toLower (46 :: D) } mid

theorem append_colon_inj (a c x y : Bytes) (ha : 58 ∉ a) (hc : 58 ∉ c) (h : a ++ 58 :: x = c ++ 58 :: y) :
    a = c ∧ x = y := by
  induction a generalizing c with
  | nil =>
    cases c with
    | nil => simpa using h
    | cons d ds =>
      simp only [List.nil_append, List.cons_append, List.cons.injEq] at h
      exact absurd h.1.symm (fun e => hc (by simp [e]))
  | cons p ps ih =>
    cases c with
    | nil =>
      simp only [List.nil_append, List.cons_append, List.cons.injEq] at h
      exact absurd h.1 (fun e => ha (by simp [e]))
    | cons d ds =>
      simp only [List.cons_append, List.cons.injEq] at h
      obtain ⟨e1, e2⟩ := ih ds (fun m => ha (by simp [m])) (fun m => hc (by simp [m])) h.2
      exact ⟨by rw [h.1, e1], e2⟩

/-- **A wildcard entry against a serialized origin.** For an origin `S' ++ "://" ++ HP'` (no colon
    in `S'`) the stored entry (`scheme://`, `suffix`) matches iff the schemes are equal and the
    host-and-port ends in the suffix — which starts with the dot. -/
theorem wildcard_match_serialized (sch suf S' HP' : Bytes) (h1 : 58 ∉ sch) (h2 : 58 ∉ S') :
    ({ pre := sch ++ b "://", suf := suf } : Subdomain).match (S' ++ b "://" ++ HP') = true ↔
      S' = sch ∧ ∃ mid, HP' = mid ++ suf := by
  constructor
  · intro h
    obtain ⟨mid, hm⟩ := subdomain_match_sound _ _ h
    simp only at hm
    have e : S' ++ 58 :: (47 :: 47 :: HP') = sch ++ 58 :: (47 :: 47 :: (mid ++ suf)) := by
      have := hm; simp only [b] at this; simpa using this
    obtain ⟨e1, e2⟩ := append_colon_inj _ _ _ _ h2 h1 e
    simp only [List.cons.injEq, true_and] at e2
    exact ⟨e1, mid, e2⟩
  · rintro ⟨rfl, mid, rfl⟩
    have := subdomain_match_complete { pre := S' ++ b "://", suf := suf } mid
    simpa using this

/-- Non-vacuity / the look-alike case, concretely: `https://*.example.com` accepts
    `https://a.example.com` and refuses `https://evilexample.com`; written with blanks, upper case,
    a port and a trailing slash it is the same entry with the port. -/
example :
    (buildLoop [b "https://*.example.com", b "  HTTPS://*.Example.COM:8443/ "] [] []).map
      (fun r => (r.2.1, r.2.1.map (·.match (b "https://a.example.com")), r.2.1.map (·.match (b "https://evilexample.com"))))
      = some ([{ pre := b "https://", suf := b ".example.com" }, { pre := b "https://", suf := b ".example.com:8443" }],
              [true, false], [false, false]) := by decide +kernel

/-- the hypotheses of `normalizeOrigin_serialized` are met by ordinary origins -/
example : schemeShaped (b "HTTPS") = true ∧ (b "Example.COM.").all regByte = true ∧
    (b "xn--bcher-kva.example").all regByte = true ∧ validUserinfo (b "user:pw") = true ∧
    (b "::FFFF:1.2.3.4").all v6Byte = true := by decide +kernel

end C19
