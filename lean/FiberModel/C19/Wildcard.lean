import FiberModel.C19.Props
/-
C19 — what a wildcard-subdomain configuration entry means, derived from the constructor model.

For an entry `S ++ "://*." ++ D` (scheme `S` without ':', no spaces, host part `D` free of the
characters `normalizeOrigin` rejects) the constructor stores prefix `lower(S)://` and suffix
`lower(.D)`; so an origin is accepted by that entry iff it is `lower(S)://` ++ anything ++ `.lower(D)`
— scheme equality and a *dot-separated* host suffix, as the property demands.
-/
namespace C19
open B

theorem isPrefixOf_append_self (p s : Bytes) : p.isPrefixOf (p ++ s) = true := by
  rw [List.isPrefixOf_iff_prefix]; exact List.prefix_append p s

/-- `indexOf` finds a pattern starting with `c` right after a `c`-free prefix. -/
theorem indexOf_after_free (s pat rest : Bytes) (c : Nat) (p' : Bytes) (hp : pat = c :: p')
    (hfree : ∀ x ∈ s, x ≠ c) : indexOf (s ++ pat ++ rest) pat = some s.length := by
  induction s with
  | nil =>
    simp only [List.nil_append, List.length_nil]
    cases h : pat ++ rest with
    | nil => simp [hp] at h
    | cons x xs =>
      unfold indexOf
      have : pat.isPrefixOf (x :: xs) = true := by rw [← h]; exact isPrefixOf_append_self pat rest
      simp [this]
  | cons a s ih =>
    have ha : a ≠ c := hfree a (by simp)
    have ih' := ih (fun x hx => hfree x (by simp [hx]))
    simp only [List.cons_append, List.length_cons]
    unfold indexOf
    have hnp : pat.isPrefixOf (a :: (s ++ pat ++ rest)) = false := by
      subst hp
      simp [List.isPrefixOf]
      intro h; exact absurd h.symm ha
    simp only [List.append_assoc] at ih' ⊢
    simp only [List.append_assoc] at hnp
    simp [hnp, ih']

end C19

namespace C19
open B

/-- the characters the modelled `normalizeOrigin` refuses inside the host part -/
def badHostChar (c : Nat) : Bool := c == 47 || c == 42 || c == 63 || c == 35 || c == 32

theorem contains_false_of_forall {l : Bytes} {c : Nat} (h : ∀ x ∈ l, x ≠ c) : l.contains c = false := by
  induction l with
  | nil => rfl
  | cons a l ih =>
    have ha : a ≠ c := h a (by simp)
    have := ih (fun x hx => h x (by simp [hx]))
    simp only [List.contains_cons, this, Bool.or_false]
    exact beq_false_of_ne (Ne.symm ha)

theorem take_append_len (s t : Bytes) : (s ++ t).take s.length = s := by simp
theorem drop_append_len (s t : Bytes) (n : Nat) : (s ++ t).drop (s.length + n) = t.drop n := by
  rw [List.drop_append]; simp

theorem getLast?_ne_of_forall {l : Bytes} {c : Nat} (h : ∀ x ∈ l, x ≠ c) : l.getLast? ≠ some c := by
  intro hl
  have := List.mem_of_getLast? hl
  exact h c this rfl

/-- `normalizeOrigin` on `scheme://host` with a colon-free scheme and a clean host. -/
theorem normalizeOrigin_simple (S H : Bytes) (hS : S ≠ []) (hSc : ∀ x ∈ S, x ≠ 58) (hH : H ≠ [])
    (hHc : ∀ x ∈ H, badHostChar x = false) :
    normalizeOrigin (S ++ b "://" ++ H) = some (toLower (S ++ b "://" ++ H)) := by
  have hidx : indexOf (S ++ b "://" ++ H) (b "://") = some S.length :=
    indexOf_after_free S (b "://") H 58 [47, 47] (by decide) hSc
  have hne : ∀ c, (c = 47 ∨ c = 42 ∨ c = 63 ∨ c = 35 ∨ c = 32) → ∀ x ∈ H, x ≠ c := by
    intro c hc x hx hxc
    have := hHc x hx
    subst hxc
    rcases hc with h | h | h | h | h <;> subst h <;> simp [badHostChar] at this
  unfold normalizeOrigin
  rw [hidx]
  simp only
  have htake : (S ++ b "://" ++ H).take S.length = S := by rw [List.append_assoc]; exact take_append_len _ _
  have hdrop : (S ++ b "://" ++ H).drop (S.length + 3) = H := by
    rw [List.append_assoc, drop_append_len]; rfl
  rw [htake, hdrop]
  have hlast : H.getLast? ≠ some 47 := getLast?_ne_of_forall (hne 47 (by simp))
  simp only [hlast, ite_false]
  have m : ∀ c, (c = 47 ∨ c = 42 ∨ c = 63 ∨ c = 35 ∨ c = 32) → ¬ c ∈ H := fun c hc hm => hne c hc c hm rfl
  have e1 : S.isEmpty = false := by cases S <;> simp_all
  have e2 : H.isEmpty = false := by cases H <;> simp_all
  simp [e1, e2, m 47 (by simp), m 42 (by simp), m 63 (by simp), m 35 (by simp), m 32 (by simp)]

end C19

namespace C19
open B

theorem trimLeft_id (s : Bytes) (c : Nat) (h : s.head? ≠ some c) : trimLeft s c = s := by
  unfold trimLeft
  cases s with
  | nil => rfl
  | cons a t =>
    have : (a == c) = false := by
      apply beq_false_of_ne; intro e; subst e; simp at h
    simp [List.dropWhile, this]

theorem trimRight_id (s : Bytes) (c : Nat) (h : s.getLast? ≠ some c) : trimRight s c = s := by
  unfold trimRight
  have : s.reverse.head? ≠ some c := by simpa [List.head?_reverse] using h
  have := trimLeft_id s.reverse c this
  unfold trimLeft at this
  rw [this, List.reverse_reverse]

theorem trim_id (s : Bytes) (c : Nat) (h1 : s.head? ≠ some c) (h2 : s.getLast? ≠ some c) :
    trim s c = s := by
  unfold trim; rw [trimLeft_id s c h1, trimRight_id s c h2]

/-- **What the constructor stores for a wildcard entry.** For `S ++ "://*." ++ D` with a non-empty,
    colon- and space-free scheme `S` and a non-empty host part `D` free of `/ * ? #` and spaces, the
    loop of `New` appends exactly the subdomain entry (`lower(S)://`, `lower(.D)`). -/
theorem buildLoop_wildcard (S D : Bytes) (rest : List Bytes) (os : List Bytes) (ss : List Subdomain)
    (hS : S ≠ []) (hSc : ∀ x ∈ S, x ≠ 58) (hSs : ∀ x ∈ S, x ≠ 32)
    (hD : D ≠ []) (hDc : ∀ x ∈ D, badHostChar x = false) :
    buildLoop ((S ++ b "://*." ++ D) :: rest) os ss =
      buildLoop rest os (ss ++ [{ pre := toLower (S ++ b "://"), suf := toLower (46 :: D) }]) := by
  have hstar : (S ++ b "://*." ++ D) ≠ b "*" := by
    intro h
    have := congrArg List.length h
    simp [b] at this
    omega
  have hidx : indexOf (S ++ b "://*." ++ D) (b "://*.") = some S.length :=
    indexOf_after_free S (b "://*.") D 58 [47, 47, 42, 46] (by decide) hSc
  -- the entry with the `*` cut out
  have hcut : (S ++ b "://*." ++ D).take (S.length + 3) ++ (S ++ b "://*." ++ D).drop (S.length + 4)
      = S ++ b "://" ++ (46 :: D) := by
    have h1 : (S ++ b "://*." ++ D).take (S.length + 3) = S ++ b "://" := by
      have : S.length + 3 = (S ++ b "://").length := by simp [b]
      rw [this, show S ++ b "://*." ++ D = (S ++ b "://") ++ ([42, 46] ++ D) by simp [b]]
      exact take_append_len _ _
    have h2 : (S ++ b "://*." ++ D).drop (S.length + 4) = 46 :: D := by
      rw [List.append_assoc, drop_append_len]; rfl
    rw [h1, h2]
  have hH : ∀ x ∈ (46 :: D), badHostChar x = false := by
    intro x hx
    rcases List.mem_cons.mp hx with h | h
    · subst h; decide
    · exact hDc x h
  have hhead : (S ++ b "://" ++ (46 :: D)).head? ≠ some 32 := by
    cases S with
    | nil => exact absurd rfl hS
    | cons a t =>
      have : a ≠ 32 := hSs a (by simp)
      simpa using this
  have hlast : (S ++ b "://" ++ (46 :: D)).getLast? ≠ some 32 := by
    have hne : D ≠ [] := hD
    obtain ⟨d, ds, rfl⟩ := List.exists_cons_of_ne_nil hne
    have e : S ++ b "://" ++ 46 :: d :: ds = (S ++ b "://" ++ [46]) ++ (d :: ds) := by simp
    rw [e, List.getLast?_append]
    intro h
    have h' : (d :: ds).getLast? = some 32 := by
      cases hh : (d :: ds).getLast? with
      | none => simp at hh
      | some v => rw [hh] at h; simpa using h
    have hm := List.mem_of_getLast? h'
    have := hDc 32 hm
    simp [badHostChar] at this
  have hnorm := normalizeOrigin_simple S (46 :: D) hS hSc (by simp) hH
  have htk : (toLower (S ++ b "://" ++ (46 :: D))).take (S.length + 3) = toLower (S ++ b "://") := by
    rw [toLower_append]
    have : (toLower (S ++ b "://")).length = S.length + 3 := by simp [toLower_length, b]
    rw [← this]; exact take_append_len _ _
  have hdr : (toLower (S ++ b "://" ++ (46 :: D))).drop (S.length + 3) = toLower (46 :: D) := by
    rw [toLower_append]
    have : (toLower (S ++ b "://")).length = S.length + 3 := by simp [toLower_length, b]
    rw [← this]; simp
  rw [buildLoop]
  simp only [hstar, ite_false, hidx]
  rw [hcut, trim_id _ 32 hhead hlast, hnorm]
  simp only [htk, hdr]

end C19

namespace C19
open B

/-- **Meaning of a wildcard entry.** The stored entry accepts an origin iff the origin is the
    lower-cased scheme, `://`, any (possibly empty) label text, a DOT, and the lower-cased domain:
    scheme equality and a dot-separated host suffix. A look-alike host that merely ends in the
    domain's characters without the dot is not accepted. -/
theorem wildcard_entry_meaning (S D o : Bytes) :
    ({ pre := toLower (S ++ b "://"), suf := toLower (46 :: D) } : Subdomain).match o = true ↔
      ∃ mid, o = toLower S ++ b "://" ++ mid ++ (46 :: toLower D) := by
  have hpre : toLower (S ++ b "://") = toLower S ++ b "://" := by rw [toLower_append]; rfl
  have hsuf : toLower (46 :: D) = 46 :: toLower D := rfl
  constructor
  · intro h
    obtain ⟨mid, hm⟩ := subdomain_match_sound _ o h
    exact ⟨mid, by rw [hm, hpre, hsuf]⟩
  · rintro ⟨mid, rfl⟩
    unfold Subdomain.match hasPrefix hasSuffix
    simp only [hpre, hsuf, Bool.and_eq_true, decide_eq_true_eq]
    refine ⟨⟨by simp; omega, ?_⟩, ?_⟩
    · rw [List.isPrefixOf_iff_prefix]; exact ⟨mid ++ (46 :: toLower D), by simp⟩
    · rw [List.isSuffixOf_iff_suffix]; exact ⟨toLower S ++ b "://" ++ mid, by simp⟩

/-- Non-vacuity / the look-alike case, concretely: `https://*.example.com` accepts
    `https://a.example.com` and refuses `https://evilexample.com`. -/
example :
    (buildLoop [b "https://*.example.com"] [] []).map (fun r => (r.2.1.map (·.match (b "https://a.example.com")),
                                                                  r.2.1.map (·.match (b "https://evilexample.com"))))
      = some ([true], [false]) := by decide

end C19
