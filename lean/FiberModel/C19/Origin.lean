import FiberModel.C19.UrlLemmas
import FiberModel.C19.Vary
/-
C19 — from the constructor's state to the configuration TEXT.

* inversion of the `net/url` transcription (`parse_inv`, `parseNoFrag_inv`, `parseRest_inv`);
* `normalizeOrigin` is the spec's `originOfText`; the constructor's wildcard split is the spec's
  `wildcardOfText` (needs: a parsed scheme holds no `:`);
* `origin_permitted_iff`: what the constructor stored permits exactly what the entries denote;
* `handle_meets_spec`: the main theorem, stated on the configuration text.
-/
namespace C19
open B Url

theorem hasPrefix_slashslash (rest : Bytes) (h : hasPrefix rest (b "//") = true) : ∃ r2, rest = 47 :: 47 :: r2 := by
  unfold hasPrefix at h
  rw [List.isPrefixOf_iff_prefix] at h
  obtain ⟨t, ht⟩ := h
  exact ⟨t, by rw [← ht]; rfl⟩

theorem parseRest_inv (scheme rest rq : Bytes) (u : URL) (h : parseRest scheme rest rq = some u) :
    u.scheme = scheme ∧ u.rawQuery = rq ∧ u.fragment = [] ∧
    (u.host ≠ [] → ∃ r2, rest = 47 :: 47 :: r2 ∧ parseAuthority (cut r2 47).1 = some u.host ∧
      unescape .other (match (cut r2 47).2 with | some p => 47 :: p | none => []) = some u.path) := by
  unfold parseRest at h
  split at h
  · simp at h; subst h; simp
  split at h
  · simp at h
  split at h
  · rename_i hc
    simp only [Bool.and_eq_true] at hc
    obtain ⟨r2, hr⟩ := hasPrefix_slashslash rest hc.2
    subst hr
    simp only [List.drop_succ_cons, List.drop_zero] at h
    split at h
    · simp at h
    · rename_i host hpa
      simp only [Option.map_eq_some_iff] at h
      obtain ⟨a, ha, e⟩ := h
      subst e
      exact ⟨rfl, rfl, rfl, fun _ => ⟨r2, rfl, hpa, ha⟩⟩
  · cases hu : unescape .other rest with
    | none => simp [hu] at h
    | some p => simp [hu] at h; subst h; simp

theorem parseNoFrag_inv (raw : Bytes) (u : URL) (h : parseNoFrag raw = some u) (hh : u.host ≠ []) :
    containsCTL raw = false ∧ u.fragment = [] ∧
    ∃ sch rest0, getScheme raw = some (sch, rest0) ∧ u.scheme = toLower sch ∧ u.rawQuery = (splitQuery rest0).2 ∧
      ∃ r2, (splitQuery rest0).1 = 47 :: 47 :: r2 ∧ parseAuthority (cut r2 47).1 = some u.host ∧
        unescape .other (match (cut r2 47).2 with | some p => 47 :: p | none => []) = some u.path := by
  unfold parseNoFrag at h
  split at h
  · simp at h
  rename_i hctl
  split at h
  · simp at h; subst h; simp at hh
  split at h
  · simp at h
  rename_i sch rest0 hg
  obtain ⟨h1, h2, h3, h4⟩ := parseRest_inv _ _ _ _ h
  exact ⟨by simpa using hctl, h3, sch, rest0, hg, h1, h2, h4 hh⟩

theorem parseNoFrag_scheme (raw : Bytes) (u : URL) (h : parseNoFrag raw = some u) :
    u.scheme = [] ∨ ∃ sch rest, getScheme raw = some (sch, rest) ∧ u.scheme = toLower sch := by
  unfold parseNoFrag at h
  split at h
  · simp at h
  split at h
  · simp at h; subst h; exact Or.inl rfl
  split at h
  · simp at h
  rename_i sch rest0 hg
  exact Or.inr ⟨sch, rest0, hg, (parseRest_inv _ _ _ _ h).1⟩

theorem parse_inv (t : Bytes) (u : URL) (h : parse t = some u) :
    ∃ u0, parseNoFrag (cut t 35).1 = some u0 ∧ u.scheme = u0.scheme ∧ u.host = u0.host ∧ u.path = u0.path ∧
      u.rawQuery = u0.rawQuery ∧
      (u.fragment = [] → u = u0 ∧ ((cut t 35).2 = none ∨ (cut t 35).2 = some [])) := by
  unfold parse at h
  split at h
  · simp at h
  rename_i u0 h0
  refine ⟨u0, h0, ?_⟩
  split at h
  · rename_i hn; simp at h; subst h; simp [hn]
  rename_i frag hf
  split at h
  · rename_i he; simp at h; subst h; subst he; simp [hf]
  · rename_i he
    cases hu : unescape .other frag with
    | none => simp [hu] at h
    | some f =>
      simp [hu] at h; subst h
      refine ⟨rfl, rfl, rfl, rfl, ?_⟩
      intro hfe
      exact absurd hfe (unescape_ne_nil _ _ _ he hu)


/-! ### the scheme of a parsed URL holds no colon -/

theorem lowerByte_eq_iff (x c : Nat) (hc : isUpper c = false) (hc2 : isUpper (c - 32) = false ∨ c < 32) :
    lowerByte x = c ↔ x = c := by
  unfold lowerByte
  constructor
  · intro h
    split at h
    · rename_i hu
      rcases hc2 with h2 | h2
      · have : x = c - 32 := by omega
        subst this; simp [hu] at h2
      · omega
    · exact h
  · intro h; subst h; simp [hc]

theorem toLower_no_colon (s : Bytes) (h : ∀ x ∈ s, x ≠ 58) : ∀ x ∈ toLower s, x ≠ 58 := by
  intro x hx
  simp only [toLower, List.mem_map] at hx
  obtain ⟨y, hy, e⟩ := hx
  intro hx58
  rw [hx58] at e
  exact h y hy ((lowerByte_eq_iff y 58 (by decide) (Or.inl (by decide))).mp e)

theorem parse_scheme_no_colon (t : Bytes) (u : URL) (h : parse t = some u) : ∀ x ∈ u.scheme, x ≠ 58 := by
  obtain ⟨u0, h0, hs, _⟩ := parse_inv t u h
  rw [hs]
  rcases parseNoFrag_scheme _ _ h0 with e | ⟨sch, rest, hg, e⟩
  · rw [e]; simp
  · rw [e]
    apply toLower_no_colon
    rcases getScheme_inv _ _ _ hg with ⟨e0, _⟩ | ⟨hsh, _⟩
    · rw [e0]; simp
    · exact schemeShaped_no_colon hsh

/-! ### `normalizeOrigin` and the wildcard split, read as the spec reads an entry -/

theorem normalizeOrigin_eq_originOfText (t : Bytes) : normalizeOrigin t = originOfText t := by
  unfold normalizeOrigin originOfText
  cases hp : parse t with
  | none => rfl
  | some u =>
    simp only
    by_cases h1 : 42 ∈ u.host
    · simp [h1]
    · by_cases h2 : u.host = [] <;> by_cases h3 : u.path = [] <;> by_cases h4 : u.path = b "/" <;>
        by_cases h5 : u.rawQuery = [] <;> by_cases h6 : u.fragment = [] <;>
        simp [h1, h2, h3, h4, h5, h6, toLower_append] <;> rfl

theorem isPrefixOf_append_self (p s : Bytes) : p.isPrefixOf (p ++ s) = true := by
  rw [List.isPrefixOf_iff_prefix]; exact List.prefix_append p s

/-- `indexOf` finds a pattern starting with `c` right after a `c`-free prefix. -/
theorem indexOf_after_free (s pat rest : Bytes) (c : Nat) (p' : Bytes) (hp : pat = c :: p')
    (hfree : ∀ x ∈ s, x ≠ c) : indexOf (s ++ pat ++ rest) pat = some s.length := by
  induction s with
  | nil =>
    simp only [List.nil_append, List.length_nil]
    cases h : pat ++ rest with
    | nil => simp [hp] at h
    | cons x xs =>
      unfold indexOf
      have : pat.isPrefixOf (x :: xs) = true := by rw [← h]; exact isPrefixOf_append_self pat rest
      simp [this]
  | cons a s ih =>
    have ha : a ≠ c := hfree a (by simp)
    have ih' := ih (fun x hx => hfree x (by simp [hx]))
    simp only [List.cons_append, List.length_cons]
    unfold indexOf
    have hnp : pat.isPrefixOf (a :: (s ++ pat ++ rest)) = false := by
      subst hp
      simp [List.isPrefixOf]
      intro h; exact absurd h.symm ha
    simp only [List.append_assoc] at ih' ⊢
    simp only [List.append_assoc] at hnp
    simp [hnp, ih']

theorem head?_toLower_dot (s : Bytes) : (toLower s).head? = some 46 ↔ s.head? = some 46 := by
  cases s with
  | nil => simp [toLower]
  | cons a t =>
    simp only [toLower, List.map_cons, List.head?_cons, Option.some.injEq]
    exact lowerByte_eq_iff a 46 (by decide) (Or.inl (by decide))

/-- The constructor's split of a wildcard entry is what the spec reads off the text: the lower-cased
    scheme with `://`, and the lower-cased host that starts with the dot. -/
theorem wildcardSplit_eq_wildcardOfText (t : Bytes) : wildcardSplit t = wildcardOfText t := by
  unfold wildcardSplit wildcardOfText
  rw [normalizeOrigin_eq_originOfText]
  unfold originOfText
  cases hp : parse t with
  | none => rfl
  | some u =>
    simp only
    have hfree := toLower_no_colon _ (parse_scheme_no_colon t u hp)
    have hidx : indexOf (toLower u.scheme ++ b "://" ++ toLower u.host) (b "://") = some (toLower u.scheme).length :=
      indexOf_after_free (toLower u.scheme) (b "://") (toLower u.host) 58 [47, 47] (by decide) hfree
    have htake : (toLower u.scheme ++ b "://" ++ toLower u.host).take ((toLower u.scheme).length + 3)
        = toLower u.scheme ++ b "://" := by
      have : (toLower u.scheme).length + 3 = (toLower u.scheme ++ b "://").length := by simp [b]
      rw [this]; exact List.take_left' rfl
    have hdrop : (toLower u.scheme ++ b "://" ++ toLower u.host).drop ((toLower u.scheme).length + 3)
        = toLower u.host := by
      have : (toLower u.scheme).length + 3 = (toLower u.scheme ++ b "://").length := by simp [b]
      rw [this]; exact List.drop_left' rfl
    by_cases hc : (u.host ≠ [] ∧ ¬ u.host.contains 42 ∧ (u.path = [] ∨ u.path = b "/") ∧ u.rawQuery = [] ∧ u.fragment = [])
    · rw [if_pos hc]
      simp only [hidx, htake, hdrop, head?_toLower_dot]
      by_cases hd : u.host.head? = some 46
      · rw [if_pos hd, if_pos ⟨hd, hc.2⟩]
      · rw [if_neg hd, if_neg (fun h => hd h.1)]
    · rw [if_neg hc]
      by_cases hd : u.host.head? = some 46
      · have hne : u.host ≠ [] := by intro e; rw [e] at hd; simp at hd
        rw [if_neg (fun h => hc ⟨hne, h.2⟩)]
      · rw [if_neg (fun h => hd h.1)]

/-! ### the constructor's loop stores what the entries denote -/

theorem contains_append_singleton (os : List Bytes) (n o : Bytes) :
    (os ++ [n]).contains o = (os.contains o || (n == o)) := by
  rw [Bool.eq_iff_iff]
  simp only [List.contains_iff_mem, List.mem_append, List.mem_singleton, Bool.or_eq_true, beq_iff_eq]
  constructor
  · rintro (h | h)
    · exact Or.inl h
    · exact Or.inr h.symm
  · rintro (h | h)
    · exact Or.inl h
    · exact Or.inr h.symm

/-- Invariant of the loop in `New`: it reports `*` iff `*` is listed; without `*` the stored exact
    and wildcard entries permit exactly what was stored before plus what the entries denote. -/
theorem buildLoop_spec (es : List Bytes) (os os' : List Bytes) (ss ss' : List Subdomain) (star : Bool)
    (h : buildLoop es os ss = some (os', ss', star)) :
    star = es.contains (b "*") ∧
    (star = false → ∀ o, (os'.contains o || ss'.any (·.match o)) =
      (os.contains o || ss.any (·.match o) || es.any (entryPermits · o))) := by
  induction es generalizing os ss with
  | nil =>
    simp only [buildLoop, Option.some.injEq, Prod.mk.injEq] at h
    obtain ⟨h1, h2, h3⟩ := h
    subst h1 h2 h3
    simp
  | cons e rest ih =>
    unfold buildLoop at h
    by_cases hs : e = b "*"
    · simp only [hs, ite_true, Option.some.injEq, Prod.mk.injEq] at h
      obtain ⟨_, _, h3⟩ := h
      subst h3
      simp [hs]
    · simp only [hs, ite_false] at h
      have hs' : (b "*" == e) = false := by
        apply beq_false_of_ne; exact fun x => hs x.symm
      cases hi : indexOf e (b "://*.") with
      | some i =>
        simp only [hi] at h
        cases hw : wildcardSplit (trim (e.take (i + 3) ++ e.drop (i + 4)) 32) with
        | none => simp [hw] at h
        | some ps =>
          obtain ⟨pre, suf⟩ := ps
          simp only [hw] at h
          obtain ⟨h1, h2⟩ := ih _ _ h
          refine ⟨by rw [List.contains_cons, hs', Bool.false_or]; exact h1, fun hst o => ?_⟩
          rw [h2 hst o]
          have he : entryPermits e o = (Subdomain.match { pre := pre, suf := suf } o) := by
            unfold entryPermits
            rw [hi]; simp only
            rw [← wildcardSplit_eq_wildcardOfText, hw]
            rfl
          simp only [List.any_append, List.any_cons, List.any_nil, Bool.or_false, he]
          cases os.contains o <;> cases ss.any (·.match o) <;>
            cases (Subdomain.match { pre := pre, suf := suf } o) <;> simp
      | none =>
        simp only [hi] at h
        cases hn : normalizeOrigin (trim e 32) with
        | none => simp [hn] at h
        | some n =>
          simp only [hn] at h
          obtain ⟨h1, h2⟩ := ih _ _ h
          refine ⟨by rw [List.contains_cons, hs', Bool.false_or]; exact h1, fun hst o => ?_⟩
          rw [h2 hst o]
          have he : entryPermits e o = (n == o) := by
            unfold entryPermits
            rw [hi]; simp only
            rw [← normalizeOrigin_eq_originOfText, hn]
            rfl
          simp only [contains_append_singleton, List.any_cons, he]
          cases os.contains o <;> cases ss.any (·.match o) <;> cases (n == o) <;> simp

theorem buildCore_spec (cfg : Config) (bt : Built) (h : buildCore cfg = some bt) :
    bt.cfg = cfg ∧ bt.allowAll = cfgAllowsAll cfg ∧
    (bt.allowAll = false → ∀ o, listAllows bt o = cfgListPermits cfg o) := by
  unfold buildCore at h
  cases hl : buildLoop cfg.allowOrigins [] [] with
  | none => simp [hl] at h
  | some r =>
    obtain ⟨os, ss, star⟩ := r
    simp only [hl] at h
    split at h
    · simp at h
    · simp only [Option.some.injEq] at h
      subst h
      obtain ⟨h1, h2⟩ := buildLoop_spec _ _ _ _ _ _ hl
      refine ⟨rfl, by simp [cfgAllowsAll, h1], ?_⟩
      intro hA o
      simp only [Bool.or_eq_false_iff] at hA
      have := h2 hA.1 o
      simp only [listAllows, cfgListPermits, this]
      simp

/-- **`New` reports "all origins allowed" iff the configuration says so** (`*` listed, or nothing
    configured at all). -/
theorem build_allowAll (cfg : Config) (dm : List Bytes) (bt : Built) (h : build cfg dm = some bt) :
    bt.allowAll = cfgAllowsAll bt.cfg := by
  unfold build at h
  obtain ⟨h1, h2, _⟩ := buildCore_spec _ _ h
  rw [h1]; exact h2

/-- **What the constructor stored permits an origin iff an entry of the configuration denotes it**:
    for every configuration `New` accepts that does not allow all origins, and every origin text,
    the handler's list decision (`allowOrigins` by equality, then `allowSOrigins` by
    `subdomain.match`) equals the reading of the `AllowOrigins` texts — an exact entry permits the
    origin `url.Parse` reads off it (scheme and host in lower case; blanks around, userinfo, a root
    path, an empty `?`/`#` dropped; anything else makes it denote nothing), a wildcard entry permits
    `scheme://` ++ anything ++ `.domain[:port]`. -/
theorem origin_permitted_iff (cfg : Config) (dm : List Bytes) (bt : Built) (h : build cfg dm = some bt)
    (hA : bt.allowAll = false) (o : Bytes) :
    permitted bt o = permittedW (cfgListPermits bt.cfg) bt.cfg o := by
  unfold build at h
  obtain ⟨h1, _, h3⟩ := buildCore_spec _ _ h
  unfold permitted permittedW
  rw [h3 hA o, h1]

end C19
