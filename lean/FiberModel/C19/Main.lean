import FiberModel.C19.Origin
/-
C19 — the main theorem, on the configuration as the user wrote it.
-/
namespace C19
open B

/-- The handler meets every clause relative to what the constructor stored, for every constructor
    state (any origin lists, any allow function, any `Next`) and every request. -/
theorem handle_meets_specBuilt (bt : Built) (q : Request) : specBuilt bt q (handle bt q) = none := by
  unfold specBuilt specViolationW
  simp [next_skips_middleware, acao_only_if_allowed, never_star_with_credentials, vary_origin_when_varies,
    preflight_204_configured, func_panic_only_when_due]

/-- when all origins are allowed no clause looks at the lists -/
theorem specViolationW_allowAll (lp lp' : Bytes → Bool) (cfg : Config) (q : Request) (r : Response) :
    specViolationW true lp cfg q r = specViolationW true lp' cfg q r := by
  unfold specViolationW panicOK acaoOK
  simp

/-- **Main theorem.** For every configuration `cors.New` accepts (any `AllowOrigins` texts, any
    `AllowOriginsFunc` — panicking or not —, any `Next`, credentials, max-age, private network), and
    every request (any Origin text, method, preflight headers, any well-formed `Vary` left by an
    earlier middleware, any `c.Vary` by the downstream handler), the handler's response violates no
    clause of the property as read off the configuration TEXT: ACAO only if an entry of
    `AllowOrigins` denotes the origin / a wildcard entry covers it by scheme and dot-separated host
    suffix / the function says yes, and then it is the lower-cased origin, or `*` iff `*` is listed
    or nothing is configured; never Allow-Credentials with `*`; `Vary` lists `Origin` when the reply
    varies; a preflight gets 204 with the configured methods/headers/max-age/private-network and
    does not reach the handler, everything else does; `Next` makes the middleware add nothing; the
    request dies only inside a panicking `AllowOriginsFunc` that was due. -/
theorem handle_meets_spec (cfg : Config) (dm : List Bytes) (bt : Built) (h : build cfg dm = some bt)
    (q : Request) : specViolation bt.cfg q (handle bt q) = none := by
  have hb := handle_meets_specBuilt bt q
  unfold specBuilt at hb
  unfold specViolation
  rw [← build_allowAll cfg dm bt h]
  cases hA : bt.allowAll with
  | true => rw [hA] at hb; rw [specViolationW_allowAll _ (listAllows bt)]; exact hb
  | false =>
    have hl : cfgListPermits bt.cfg = listAllows bt := by
      funext o
      unfold build at h
      obtain ⟨h1, _, h3⟩ := buildCore_spec _ _ h
      rw [h1]; exact (h3 hA o).symm
    rw [hl, ← hA]; exact hb

/-- A configuration that is served never asks for credentials while allowing all origins (read off
    the configuration text). -/
theorem served_config_never_pairs_credentials_with_all (cfg : Config) (dm : List Bytes) (bt : Built)
    (h : build cfg dm = some bt) : ctorViolation bt.cfg true = none := by
  unfold ctorViolation
  have h1 := build_refuses_star_with_credentials cfg dm bt h
  rw [← build_allowAll cfg dm bt h]
  cases hc : bt.cfg.credentials <;> cases hA : bt.allowAll <;> simp_all

/-- **Statelessness (the hypothesis the history cases check on the real code).** In the model the
    reply to a request is the handler's answer to that request alone … -/
theorem replyAfter_eq_handle (bt : Built) (pre : List Request) (q : Request) :
    replyAfter bt pre q = handle bt q := by
  unfold replyAfter serve
  simp [List.getLastD_eq_getLast?]

/-- … so it is a function of (configuration, request) only: whatever was served before on the same
    app, connection or request context does not change it. The harness serves generated histories
    (same-length origins of alternating verdicts on one reused `fasthttp.RequestCtx`) and every
    position is compared with, and judged as, the single request. -/
theorem reply_is_function_of_config_and_request (bt : Built) (pre pre' : List Request) (q : Request) :
    replyAfter bt pre q = replyAfter bt pre' q := by
  rw [replyAfter_eq_handle, replyAfter_eq_handle]

/-- hence every position of every history meets the property -/
theorem history_meets_spec (cfg : Config) (dm : List Bytes) (bt : Built) (h : build cfg dm = some bt)
    (pre : List Request) (q : Request) : specViolation bt.cfg q (replyAfter bt pre q) = none := by
  rw [replyAfter_eq_handle]; exact handle_meets_spec cfg dm bt h q

/-- Non-vacuity: a configuration with upper case, blanks, userinfo, a port, a wildcard entry and an
    IPv6 literal is accepted by `New`; the origins the texts denote are allowed, a look-alike host,
    an origin with a path and an origin with userinfo are not. -/
example :
    (build { allowOrigins := [b "  HTTPS://*.Example.com:8443/", b "http://user:pw@A.io?", b "http://[::1]:3000"],
             allowFunc := none, allowMethods := [], allowHeaders := [], exposeHeaders := [], maxAge := 0,
             credentials := true, privateNetwork := false } [b "GET"]).map
      (fun bt => [b "https://x.example.com:8443", b "https://xexample.com:8443", b "http://a.io",
                  b "http://[::1]:3000", b "http://a.io/", b "http://user:pw@a.io"].map (allowOrigin bt))
      = some [some (b "https://x.example.com:8443"), some [], some (b "http://a.io"),
              some (b "http://[::1]:3000"), some [], some []] := by decide +kernel

/-- … and entries the constructor must refuse are refused: a path, a query, a fragment, no host,
    `null`, a wildcard in front of the userinfo (its host would lose the dot). -/
example :
    [b "http://a.io/x", b "http://a.io?q=1", b "http://a.io#f", b "http://", b "null",
     b "https://*.user@example.com", b "http://*.*.example.com"].map
      (fun e => (buildLoop [e] [] []).isSome) = [false, false, false, false, false, false, false] := by decide +kernel

end C19
