import FiberModel.C19.Url
/-
C19 — facts about the `net/url` transcription (`Url.lean`): the string helpers, `getScheme`,
`unescape`, `parseHost`, `parseAuthority`.
-/
namespace C19.Url
open B

/-! ### cut / cutLast -/

theorem cut_none {s : Bytes} {c : Nat} (h : (cut s c).2 = none) : c ∉ s ∧ (cut s c).1 = s := by
  induction s with
  | nil => simp [cut]
  | cons x xs ih =>
    unfold cut at h ⊢
    by_cases hx : x = c
    · simp [hx] at h
    · simp only [hx, ite_false] at h ⊢
      obtain ⟨h1, h2⟩ := ih h
      exact ⟨by simp [h1, Ne.symm hx], by simp [h2]⟩

theorem cut_some {s : Bytes} {c : Nat} {r : Bytes} (h : (cut s c).2 = some r) :
    s = (cut s c).1 ++ c :: r ∧ c ∉ (cut s c).1 := by
  induction s with
  | nil => simp [cut] at h
  | cons x xs ih =>
    unfold cut at h ⊢
    by_cases hx : x = c
    · simp only [hx, ite_true, Option.some.injEq] at h ⊢
      subst h; simp
    · simp only [hx, ite_false] at h ⊢
      obtain ⟨h1, h2⟩ := ih h
      refine ⟨by simp only [List.cons_append]; rw [← h1], ?_⟩
      simp [h2, Ne.symm hx]

theorem cut_of_not_mem {a : Bytes} {c : Nat} (h : c ∉ a) : cut a c = (a, none) := by
  induction a with
  | nil => rfl
  | cons x xs ih =>
    have hx : x ≠ c := fun e => h (by simp [e])
    have := ih (fun m => h (by simp [m]))
    unfold cut; simp [hx, this]

theorem cut_append {a : Bytes} {c : Nat} (r : Bytes) (h : c ∉ a) : cut (a ++ c :: r) c = (a, some r) := by
  induction a with
  | nil => simp [cut]
  | cons x xs ih =>
    have hx : x ≠ c := fun e => h (by simp [e])
    have := ih (fun m => h (by simp [m]))
    simp only [List.cons_append]
    unfold cut; simp [hx, this]

theorem cutLast_none {s : Bytes} {c : Nat} (h : cutLast s c = none) : c ∉ s := by
  induction s with
  | nil => simp
  | cons x xs ih =>
    unfold cutLast at h
    cases hr : cutLast xs c with
    | some p => simp [hr] at h
    | none =>
      simp only [hr] at h
      by_cases hx : x = c
      · simp [hx] at h
      · simp [ih hr, Ne.symm hx]

theorem cutLast_some {s : Bytes} {c : Nat} {a r : Bytes} (h : cutLast s c = some (a, r)) :
    s = a ++ c :: r ∧ c ∉ r := by
  induction s generalizing a with
  | nil => simp [cutLast] at h
  | cons x xs ih =>
    unfold cutLast at h
    cases hr : cutLast xs c with
    | some p =>
      obtain ⟨a', r'⟩ := p
      simp only [hr, Option.some.injEq, Prod.mk.injEq] at h
      obtain ⟨h1, h2⟩ := h
      subst h1 h2
      obtain ⟨e, hn⟩ := ih hr
      exact ⟨by simp [← e], hn⟩
    | none =>
      simp only [hr] at h
      by_cases hx : x = c
      · simp only [hx, ite_true, Option.some.injEq, Prod.mk.injEq] at h
        obtain ⟨h1, h2⟩ := h
        subst h1 h2
        exact ⟨by simp [hx], cutLast_none hr⟩
      · simp [hx] at h

theorem cutLast_of_not_mem {s : Bytes} {c : Nat} (h : c ∉ s) : cutLast s c = none := by
  induction s with
  | nil => rfl
  | cons x xs ih =>
    have hx : x ≠ c := fun e => h (by simp [e])
    have := ih (fun m => h (by simp [m]))
    unfold cutLast; simp [hx, this]

theorem cutLast_append {c : Nat} (a r : Bytes) (h : c ∉ r) : cutLast (a ++ c :: r) c = some (a, r) := by
  induction a with
  | nil =>
    simp only [List.nil_append]
    unfold cutLast; simp [cutLast_of_not_mem h]
  | cons x xs ih =>
    simp only [List.cons_append]
    unfold cutLast; simp [ih]

/-! ### getScheme -/

/-- the bytes `getScheme` lets through behind the first letter -/
def isSchemeByte (c : Nat) : Bool := isAlpha c || isDigit c || c == 43 || c == 45 || c == 46

/-- `[a-zA-Z][a-zA-Z0-9+.-]*` -/
def schemeShaped : Bytes → Bool
  | [] => false
  | a :: t => isAlpha a && t.all isSchemeByte

theorem isSchemeByte_ne_colon {c : Nat} (h : isSchemeByte c = true) : c ≠ 58 := by
  intro e; subst e; simp [isSchemeByte, isAlpha, isUpper, isLower, isDigit] at h

theorem schemeShaped_no_colon {S : Bytes} (h : schemeShaped S = true) : ∀ x ∈ S, x ≠ 58 := by
  cases S with
  | nil => simp [schemeShaped] at h
  | cons a t =>
    simp only [schemeShaped, Bool.and_eq_true, List.all_eq_true] at h
    intro x hx
    rcases List.mem_cons.mp hx with e | e
    · subst e; intro e2; subst e2; simp [isAlpha, isUpper, isLower] at h
    · exact isSchemeByte_ne_colon (h.2 x e)

/-- the loop, once past position 0, on scheme bytes then a colon -/
theorem getSchemeLoop_run (raw : Bytes) (t rest : Bytes) (i : Nat) (hi : i ≠ 0)
    (ht : t.all isSchemeByte = true) :
    getSchemeLoop raw i (t ++ 58 :: rest) = some (raw.take (i + t.length), rest) := by
  induction t generalizing i with
  | nil =>
    simp only [List.nil_append, List.length_nil, Nat.add_zero]
    unfold getSchemeLoop
    simp [isAlpha, isUpper, isLower, isDigit, hi]
  | cons c cs ih =>
    simp only [List.all_cons, Bool.and_eq_true] at ht
    simp only [List.cons_append, List.length_cons]
    unfold getSchemeLoop
    have := ih (i + 1) (by omega) ht.2
    rw [show i + (cs.length + 1) = i + 1 + cs.length by omega]
    by_cases ha : isAlpha c = true
    · simp [ha, this]
    · have hc := ht.1
      simp only [isSchemeByte, Bool.or_eq_true, beq_iff_eq] at hc
      have hd : (isDigit c || c = 43 || c = 45 || c = 46) = true := by
        simp only [Bool.or_eq_true, decide_eq_true_eq]
        rcases hc with ((h | h) | h) | h
        · rcases h with h | h
          · exact absurd h ha
          · exact Or.inl (Or.inl (Or.inl h))
        · exact Or.inl (Or.inl (Or.inr h))
        · exact Or.inl (Or.inr h)
        · exact Or.inr h
      simp only [ha, Bool.false_eq_true, ite_false, hd, ite_true, hi]
      exact this

/-- a scheme-shaped text followed by `:` is split off as the scheme -/
theorem getScheme_shaped (S rest : Bytes) (h : schemeShaped S = true) :
    getScheme (S ++ 58 :: rest) = some (S, rest) := by
  cases S with
  | nil => simp [schemeShaped] at h
  | cons a t =>
    simp only [schemeShaped, Bool.and_eq_true] at h
    unfold getScheme
    simp only [List.cons_append]
    unfold getSchemeLoop
    simp only [h.1, ite_true]
    have := getSchemeLoop_run (a :: (t ++ 58 :: rest)) t rest 1 (by omega) h.2
    rw [this]
    have : (a :: (t ++ 58 :: rest)).take (1 + t.length) = a :: t := by
      rw [show 1 + t.length = (a :: t).length by simp; omega]
      rw [show a :: (t ++ 58 :: rest) = (a :: t) ++ 58 :: rest by simp]
      exact List.take_left' rfl
    rw [this]

/-- inversion of the loop: it answers "no scheme", or a scheme-byte run up to a colon -/
theorem getSchemeLoop_inv (raw : Bytes) (pre s : Bytes) (hraw : raw = pre ++ s) (hpre : pre.all isSchemeByte = true)
    (S rest : Bytes) (h : getSchemeLoop raw pre.length s = some (S, rest)) :
    (S = [] ∧ rest = raw) ∨ (∃ t, t.all isSchemeByte = true ∧ S = pre ++ t ∧ s = t ++ 58 :: rest ∧ pre ++ t ≠ []) := by
  induction s generalizing pre with
  | nil =>
    unfold getSchemeLoop at h
    simp only [Option.some.injEq, Prod.mk.injEq] at h
    exact Or.inl ⟨h.1.symm, h.2.symm⟩
  | cons c cs ih =>
    unfold getSchemeLoop at h
    have step : ∀ (hc : isSchemeByte c = true) (h' : getSchemeLoop raw (pre.length + 1) cs = some (S, rest)),
        (S = [] ∧ rest = raw) ∨ (∃ t, t.all isSchemeByte = true ∧ S = pre ++ t ∧ c :: cs = t ++ 58 :: rest ∧ pre ++ t ≠ []) := by
      intro hc h'
      have := ih (pre ++ [c]) (by rw [hraw]; simp) (by simp [List.all_append, hpre, hc]) (by simpa using h')
      rcases this with h0 | ⟨t, h1, h2, h3, h4⟩
      · exact Or.inl h0
      · exact Or.inr ⟨c :: t, by simp [hc, h1], by simp [h2], by simp [h3], by simp⟩
    by_cases ha : isAlpha c = true
    · simp only [ha, ite_true] at h
      exact step (by simp [isSchemeByte, ha]) h
    · simp only [ha, Bool.false_eq_true, ite_false] at h
      by_cases hd : (isDigit c || c = 43 || c = 45 || c = 46) = true
      · simp only [hd, ite_true] at h
        by_cases h0 : pre.length = 0
        · simp only [h0, ite_true, Option.some.injEq, Prod.mk.injEq] at h
          exact Or.inl ⟨h.1.symm, h.2.symm⟩
        · simp only [h0, ite_false] at h
          refine step ?_ h
          simp only [Bool.or_eq_true, decide_eq_true_eq] at hd
          simp only [isSchemeByte, Bool.or_eq_true, beq_iff_eq]
          rcases hd with ((h | h) | h) | h
          · exact Or.inl (Or.inl (Or.inl (Or.inr h)))
          · exact Or.inl (Or.inl (Or.inr h))
          · exact Or.inl (Or.inr h)
          · exact Or.inr h
      · simp only [hd, Bool.false_eq_true, ite_false] at h
        by_cases hc : c = 58
        · simp only [hc, ite_true] at h
          by_cases h0 : pre.length = 0
          · simp [h0] at h
          · simp only [h0, ite_false, Option.some.injEq, Prod.mk.injEq] at h
            refine Or.inr ⟨[], rfl, ?_, by simp [hc, h.2], ?_⟩
            · rw [← h.1, hraw]; simp
            · simp only [List.append_nil]; intro e; simp [e] at h0
        · simp only [hc, ite_false, Option.some.injEq, Prod.mk.injEq] at h
          exact Or.inl ⟨h.1.symm, h.2.symm⟩

/-- the first byte of a recognised scheme is a letter -/
theorem getSchemeLoop_first_alpha (raw : Bytes) (c : Nat) (cs S rest : Bytes)
    (h : getSchemeLoop raw 0 (c :: cs) = some (S, rest)) (hS : S ≠ []) : isAlpha c = true := by
  unfold getSchemeLoop at h
  by_cases ha : isAlpha c = true
  · exact ha
  · simp only [ha, Bool.false_eq_true, ite_false] at h
    by_cases hd : (isDigit c || c = 43 || c = 45 || c = 46) = true
    · simp [hd] at h; exact absurd h.1 hS
    · simp only [hd, Bool.false_eq_true, ite_false] at h
      by_cases hc : c = 58
      · simp [hc] at h
      · simp [hc] at h; exact absurd h.1 hS

/-- `getScheme`: no scheme (then the rest is the whole text), or a scheme-shaped text and a colon -/
theorem getScheme_inv (raw S rest : Bytes) (h : getScheme raw = some (S, rest)) :
    (S = [] ∧ rest = raw) ∨ (schemeShaped S = true ∧ raw = S ++ 58 :: rest) := by
  unfold getScheme at h
  have := getSchemeLoop_inv raw [] raw rfl rfl S rest (by simpa using h)
  rcases this with h0 | ⟨t, h1, h2, h3, h4⟩
  · exact Or.inl h0
  · simp only [List.nil_append] at h2 h4
    subst h2
    refine Or.inr ⟨?_, h3⟩
    cases S with
    | nil => exact absurd rfl h4
    | cons a t' =>
      have hraw : raw = a :: (t' ++ 58 :: rest) := by rw [h3]; rfl
      rw [hraw] at h
      have ha := getSchemeLoop_first_alpha _ a _ _ _ h (by simp)
      simp only [List.all_cons, Bool.and_eq_true] at h1
      simp [schemeShaped, ha, h1.2]

/-! ### unescape -/

/-- decoding never produces an empty text from a non-empty one -/
theorem unescape_ne_nil (m : Mode) (s r : Bytes) (hs : s ≠ []) (h : unescape m s = some r) : r ≠ [] := by
  cases s with
  | nil => exact absurd rfl hs
  | cons c rest =>
    unfold unescape at h
    by_cases hc : c = 37
    · simp only [hc, ite_true] at h
      match rest, h with
      | h1 :: h2 :: rest', h =>
        simp only at h
        repeat' split at h
        all_goals first | (simp at h; done) | skip
        cases hu : unescape m rest' with
        | none => simp [hu] at h
        | some t => simp [hu] at h; rw [← h]; simp
      | [_], h => simp at h
      | [], h => simp at h
    · simp only [hc, ite_false] at h
      split at h
      · simp at h
      · cases hu : unescape m rest with
        | none => simp [hu] at h
        | some t => simp [hu] at h; rw [← h]; simp

/-- without `%` nothing is decoded: the text passes unchanged or is refused -/
theorem unescape_noescape (m : Mode) (s r : Bytes) (hp : 37 ∉ s) (h : unescape m s = some r) : r = s := by
  induction s generalizing r with
  | nil => simp [unescape] at h; exact h
  | cons c rest ih =>
    have hc : c ≠ 37 := fun e => hp (by simp [e])
    unfold unescape at h
    simp only [hc, ite_false] at h
    split at h
    · simp at h
    · cases hu : unescape m rest with
      | none => simp [hu] at h
      | some t =>
        simp [hu] at h
        rw [← h, ih t (fun m' => hp (by simp [m'])) hu]

/-- mode `other` (path, userinfo, fragment): a text without `%` passes -/
theorem unescape_other_plain (s : Bytes) (hp : 37 ∉ s) : unescape .other s = some s := by
  induction s with
  | nil => rfl
  | cons c rest ih =>
    have hc : c ≠ 37 := fun e => hp (by simp [e])
    unfold unescape
    simp [hc, ih (fun m' => hp (by simp [m']))]

/-- a byte the host may carry as it stands -/
def hostByte (c : Nat) : Bool := c != 37 && !(decide (c < 128) && shouldEscapeHost c)

/-- mode `host`: a text of host bytes passes unchanged -/
theorem unescape_host_plain (s : Bytes) (h : s.all hostByte = true) : unescape .host s = some s := by
  induction s with
  | nil => rfl
  | cons c rest ih =>
    simp only [List.all_cons, Bool.and_eq_true] at h
    have hc : c ≠ 37 := by
      have := h.1; simp [hostByte] at this; exact this.1
    have he : (decide (c < 128) && shouldEscapeHost c) = false := by
      have := h.1; simp only [hostByte, Bool.and_eq_true, Bool.not_eq_true'] at this; exact this.2
    unfold unescape
    simp only [hc, ite_false]
    have he' : c < 128 → shouldEscapeHost c = false := by simpa using he
    simp [ih h.2]
    exact he'

end C19.Url
