import FiberModel.C10.Lemmas
/-
C10 — the hand-written element loop of `extractIPFromHeader` is "first valid element of the
comma-separated list".
-/
namespace C10
open B

/-- validity as fiber decides it (after F4, F5): an element with a colon must satisfy fiber's `isIPv6`
    (`utils.IsIPv6` and no group of more than four digits), otherwise one with a dot must satisfy
    `utils.IsIPv4`, anything else is rejected -/
def utilsValid (s : Bytes) : Bool :=
  if s.contains 58 then fiberIsIPv6 s else if s.contains 46 then isIPv4 s else false

/-! ### small list facts -/

theorem contains_congr {a c : Bytes} {x : Nat} (h : x ∈ a ↔ x ∈ c) : a.contains x = c.contains x := by
  rw [Bool.eq_iff_iff]; simp only [List.contains_iff_mem]; exact h

theorem pieces_split (tl : Bytes) :
    pieces 44 tl = tl.takeWhile (· != 44) ::
      (match tl.drop (tl.takeWhile (· != 44)).length with
       | [] => []
       | _ :: r => pieces 44 r) := by
  induction tl with
  | nil => simp [pieces]
  | cons x xs ih =>
    simp only [pieces]
    by_cases h : (x == 44) = true
    · have hne : (x != 44) = false := by simp [bne, h]
      simp [h, hne]
    · have hne : (x != 44) = true := by simpa using h
      have hf : (x == 44) = false := by simpa using h
      simp only [hf, List.takeWhile_cons, hne, if_true, List.length_cons, List.drop_succ_cons]
      rw [ih]
      simp

theorem mem_dropSp (s : Bytes) (c : Nat) (hc : c ≠ 32) : c ∈ s.dropWhile (· == 32) ↔ c ∈ s := by
  induction s with
  | nil => simp
  | cons x xs ih =>
    by_cases hx : x = 32
    · subst hx
      simp only [List.dropWhile_cons, beq_self_eq_true, if_true, ih, List.mem_cons]
      constructor
      · exact fun h => Or.inr h
      · rintro (h | h)
        · exact absurd h hc
        · exact h
    · have : (x == 32) = false := by simpa using hx
      simp [List.dropWhile_cons, this]

theorem mem_trimRight (s : Bytes) (c : Nat) (hc : c ≠ 32) : c ∈ trimRight s 32 ↔ c ∈ s := by
  unfold trimRight
  rw [List.mem_reverse, mem_dropSp _ _ hc, List.mem_reverse]

theorem mem_trimSp (s : Bytes) (c : Nat) (hc : c ≠ 32) : c ∈ trimSp s ↔ c ∈ s := by
  unfold trimSp; rw [mem_trimRight _ _ hc, mem_dropSp _ _ hc]

theorem contains_trimSp (s : Bytes) (c : Nat) (hc : c ≠ 32) : (trimSp s).contains c = s.contains c :=
  contains_congr (mem_trimSp s c hc)

/-- on a comma-free string, skipping spaces and commas is skipping spaces -/
theorem dropSpComma_noComma (s : Bytes) (h : ¬ 44 ∈ s) :
    s.dropWhile (fun c => c == 32 || c == 44) = s.dropWhile (· == 32) := by
  induction s with
  | nil => rfl
  | cons x xs ih =>
    have hx : (x == 44) = false := by
      have : ¬ x = 44 := fun e => h (by simp [e])
      simpa using this
    have hxs : ¬ 44 ∈ xs := fun e => h (by simp [e])
    simp only [List.dropWhile_cons, hx, Bool.or_false]
    split
    · exact ih hxs
    · rfl

theorem mem_takeWhile {α : Type} {p : α → Bool} {l : List α} {x : α} (h : x ∈ l.takeWhile p) : p x = true := by
  induction l with
  | nil => simp at h
  | cons y ys ih =>
    simp only [List.takeWhile_cons] at h
    split at h
    · rcases List.mem_cons.1 h with rfl | h
      · assumption
      · exact ih h
    · simp at h

theorem takeWhile_append_drop {α : Type} (p : α → Bool) (l : List α) :
    l.takeWhile p ++ l.drop (l.takeWhile p).length = l := by
  induction l with
  | nil => rfl
  | cons y ys ih =>
    simp only [List.takeWhile_cons]
    split
    · simp [ih]
    · simp

theorem takeWhile_noComma (tl : Bytes) : ¬ 44 ∈ tl.takeWhile (· != 44) := by
  intro h
  have := mem_takeWhile h
  simp at this

/-! ### validators reject what starts with the separator itself -/

theorem isIPv4_dot (t : Bytes) : isIPv4 (46 :: t) = false := by
  simp [isIPv4, octet, isDigit]

theorem isIPv4_colon (t : Bytes) : isIPv4 (58 :: t) = false := by
  simp [isIPv4, octet, isDigit]

theorem isIPv6_single_colon (t : Bytes) (h : t.head? ≠ some 58) : isIPv6 (58 :: t) = false := by
  cases t with
  | nil => simp [isIPv6, ipv6Loop, isHexDigit, isDigit]
  | cons y ys =>
    have hy : y ≠ 58 := by simpa using h
    have : ∀ (u : Bytes), (58 :: y :: ys = 58 :: 58 :: u) → False := by
      intro u hu; simp at hu; exact hy hu.1
    unfold isIPv6
    split
    rename_i heq
    split at heq
    · rename_i t' _ ; exact (this _ (by assumption)).elim
    · cases heq; simp [ipv6Loop, isHexDigit, isDigit]

theorem fiberIsIPv6_single_colon (t : Bytes) (h : t.head? ≠ some 58) : fiberIsIPv6 (58 :: t) = false := by
  simp [fiberIsIPv6, isIPv6_single_colon t h]

/-! ### the candidate of one loop iteration -/

theorem candidate_eq (c0 : Nat) (seg : Bytes) (hseg : ¬ 44 ∈ seg) (hc0 : c0 ≠ 44) :
    trimRight ((c0 :: seg).dropWhile (fun c => c == 32 || c == 44)) 32 = trimSp (c0 :: seg) := by
  unfold trimSp
  rw [dropSpComma_noComma]
  intro h
  rcases List.mem_cons.1 h with h | h
  · exact hc0 h.symm
  · exact hseg h

theorem candidate_comma (seg : Bytes) (hseg : ¬ 44 ∈ seg) :
    trimRight ((44 :: seg).dropWhile (fun c => c == 32 || c == 44)) 32 = trimSp seg := by
  unfold trimSp
  simp only [List.dropWhile_cons, beq_self_eq_true, Bool.or_true, if_true]
  rw [dropSpComma_noComma _ hseg]

/-- `trimSp` of a string that starts with a non-space byte keeps that byte in front -/
theorem trimSp_cons (c : Nat) (seg : Bytes) (hc : c ≠ 32) : trimSp (c :: seg) = c :: trimRight seg 32 := by
  have hc' : (c == 32) = false := by simpa using hc
  unfold trimSp
  simp only [List.dropWhile_cons, hc']
  unfold trimRight
  simp only [List.reverse_cons, Bool.false_eq_true, if_false]
  rw [List.dropWhile_append]
  split
  · rename_i hnil
    have : seg.reverse.dropWhile (· == 32) = [] := by simpa using hnil
    simp [this, hc']
  · simp

theorem passes_eq_utilsValid (c0 : Nat) (seg : Bytes) :
    passes true seg (trimSp (c0 :: seg)) = utilsValid (trimSp (c0 :: seg)) := by
  have h58 := contains_trimSp (c0 :: seg) 58 (by decide)
  have h46 := contains_trimSp (c0 :: seg) 46 (by decide)
  unfold passes utilsValid
  rw [h58, h46]
  simp only [List.contains_cons, Bool.not_true, Bool.false_or]
  by_cases hc6 : c0 = 58
  · subst hc6
    by_cases hs6 : seg.contains 58 = true
    · simp only [hs6, beq_self_eq_true, Bool.true_or, if_true]
      cases fiberIsIPv6 (trimSp (58 :: seg)) <;> simp
    · have hs6' : seg.contains 58 = false := by simpa using hs6
      have hhead : (trimRight seg 32).head? ≠ some 58 := by
        intro hh
        have hm : 58 ∈ trimRight seg 32 := by
          cases hl : trimRight seg 32 with
          | nil => simp [hl] at hh
          | cons y ys => simp [hl] at hh; simp [hh]
        rw [mem_trimRight _ _ (by decide)] at hm
        have : seg.contains 58 = true := List.contains_iff_mem.2 hm
        rw [hs6'] at this; cases this
      rw [trimSp_cons 58 seg (by decide), fiberIsIPv6_single_colon _ hhead, isIPv4_colon, hs6']
      cases seg.contains 46 <;> simp
  · have h6 : ((58 : Nat) == c0) = false := by
      have : ¬ (58 : Nat) = c0 := fun e => hc6 e.symm
      simpa using this
    by_cases hc4 : c0 = 46
    · subst hc4
      rw [trimSp_cons 46 seg (by decide), isIPv4_dot]
      simp only [h6, Bool.false_or]
      cases seg.contains 58 <;> cases seg.contains 46 <;> cases fiberIsIPv6 (46 :: trimRight seg 32) <;> simp
    · have h4 : ((46 : Nat) == c0) = false := by
        have : ¬ (46 : Nat) = c0 := fun e => hc4 e.symm
        simpa using this
      simp only [h6, h4, Bool.false_or]
      cases seg.contains 58 <;> cases seg.contains 46 <;> cases fiberIsIPv6 (trimSp (c0 :: seg)) <;>
        cases isIPv4 (trimSp (c0 :: seg)) <;> simp

theorem passes_comma (seg : Bytes) : passes true seg (trimSp seg) = utilsValid (trimSp seg) := by
  have h58 := contains_trimSp seg 58 (by decide)
  have h46 := contains_trimSp seg 46 (by decide)
  unfold passes utilsValid
  rw [h58, h46]
  cases seg.contains 58 <;> cases seg.contains 46 <;> cases fiberIsIPv6 (trimSp seg) <;> cases isIPv4 (trimSp seg) <;> simp

theorem utilsValid_nil : utilsValid (trimSp []) = false := by decide

/-- **the loop is "first valid element"** -/
theorem firstIP_eq_firstValid (fuel : Nat) (hv : Bytes) (hf : hv.length < fuel) :
    firstIP fuel hv = firstValid utilsValid hv := by
  induction fuel generalizing hv with
  | zero => omega
  | succ f ih =>
    cases hv with
    | nil => simp [firstIP, firstValid, pieces, utilsValid_nil]
    | cons c0 tl =>
      have hseg := takeWhile_noComma tl
      have hrec : ∀ r, tl.drop (tl.takeWhile (· != 44)).length = r →
          firstIP f (r.drop 1) = ((match r with | [] => [] | _ :: r' => pieces 44 r').map trimSp).find? utilsValid := by
        intro r hr
        cases r with
        | nil => cases f <;> simp [firstIP]
        | cons y ys =>
          simp only [List.drop_succ_cons, List.drop_zero]
          have : ys.length < f := by
            have h1 := congrArg List.length hr
            simp only [List.length_cons, List.length_drop] at h1 hf
            omega
          rw [ih ys this]; rfl
      simp only [firstIP]
      by_cases hc : c0 = 44
      · subst hc
        rw [candidate_comma _ hseg, passes_comma]
        unfold firstValid
        have hp : pieces 44 (44 :: tl) = [] :: pieces 44 tl := by simp [pieces]
        rw [hp, pieces_split tl]
        simp only [List.map_cons, List.find?_cons, utilsValid_nil]
        cases hv : utilsValid (trimSp (tl.takeWhile (· != 44))) with
        | true => simp
        | false => simp only [Bool.false_eq_true, if_false]; exact hrec _ rfl
      · rw [candidate_eq c0 _ hseg hc, passes_eq_utilsValid]
        unfold firstValid
        have hp : pieces 44 (c0 :: tl) = (c0 :: tl.takeWhile (· != 44)) ::
            (match tl.drop (tl.takeWhile (· != 44)).length with | [] => [] | _ :: r => pieces 44 r) := by
          have hc' : (c0 == 44) = false := by simpa using hc
          simp only [pieces, hc']
          rw [pieces_split tl]
          simp
        rw [hp]
        simp only [List.map_cons, List.find?_cons]
        cases hv : utilsValid (trimSp (c0 :: tl.takeWhile (· != 44))) with
        | true => simp
        | false => simp only [Bool.false_eq_true, if_false]; exact hrec _ rfl

end C10
