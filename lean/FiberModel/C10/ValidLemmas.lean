import FiberModel.C10.IPLemmas
/-
C10 — `utils.IsIPv4` accepts only RFC 791 dotted quads (`validIPv4`).
-/
namespace C10
open B

theorem pieces_noSep (c : Nat) (ds : Bytes) (h : ¬ c ∈ ds) : pieces c ds = [ds] := by
  induction ds with
  | nil => rfl
  | cons x xs ih =>
    have hx : (x == c) = false := by
      have : x ≠ c := fun e => h (by simp [e])
      simpa using this
    simp only [pieces, hx, Bool.false_eq_true, if_false]
    rw [ih fun e => h (by simp [e])]

theorem pieces_sep (c : Nat) (ds rest : Bytes) (h : ¬ c ∈ ds) : pieces c (ds ++ c :: rest) = ds :: pieces c rest := by
  induction ds with
  | nil => simp [pieces]
  | cons x xs ih =>
    have hx : (x == c) = false := by
      have : x ≠ c := fun e => h (by simp [e])
      simpa using this
    simp only [List.cons_append, pieces, hx, Bool.false_eq_true, if_false]
    rw [ih fun e => h (by simp [e])]

theorem foldl_ge (ds : Bytes) (a : Nat) : a * 10 ^ ds.length ≤ ds.foldl (fun a c => a * 10 + (c - 48)) a := by
  induction ds generalizing a with
  | nil => simp
  | cons d ds ih =>
    simp only [List.foldl_cons, List.length_cons]
    have := ih (a * 10 + (d - 48))
    have h2 : a * 10 ^ (ds.length + 1) ≤ (a * 10 + (d - 48)) * 10 ^ ds.length := by
      rw [Nat.pow_succ, Nat.add_mul]
      have : a * (10 ^ ds.length * 10) = a * 10 * 10 ^ ds.length := by
        rw [Nat.mul_comm (10 ^ ds.length) 10, Nat.mul_assoc]
      omega
    omega

/-- what one successful `octet` step consumed -/
theorem octet_spec {s r : Bytes} (h : octet s = some r) :
    ∃ ds, s = ds ++ r ∧ decOctet ds = true ∧ (¬ 46 ∈ ds) := by
  unfold octet at h
  simp only at h
  split at h
  · cases h
  · rename_i hc
    cases h
    simp only [Bool.or_eq_true, beq_iff_eq, Bool.and_eq_true, decide_eq_true_eq, not_or, not_and] at hc
    obtain ⟨⟨h1, h2⟩, h3⟩ := hc
    have hall : (s.takeWhile isDigit).all isDigit = true := by
      rw [List.all_eq_true]; intro x hx; exact mem_takeWhile hx
    refine ⟨s.takeWhile isDigit, (takeWhile_append_drop _ _).symm, ?_, ?_⟩
    · unfold decOctet
      generalize hds : s.takeWhile isDigit = ds at *
      have hlen3 : ds.length ≤ 3 := by
        cases ds with
        | nil => simp
        | cons d rest =>
          by_cases hl : rest.length ≥ 3
          · exfalso
            have hd48 : d ≠ 48 := by
              have := h2 (by simp only [List.length_cons]; omega)
              simpa using this
            have hdig : 48 ≤ d ∧ d ≤ 57 := by
              have := List.all_eq_true.1 hall d (by simp)
              simpa [isDigit] using this
            have hge := foldl_ge rest (0 * 10 + (d - 48))
            have hval : digitsVal (d :: rest) = rest.foldl (fun a c => a * 10 + (c - 48)) (0 * 10 + (d - 48)) := rfl
            have hp : 10 ^ 3 ≤ 10 ^ rest.length := Nat.pow_le_pow_right (by decide) hl
            have h1000 : 1 * 10 ^ rest.length ≤ (0 * 10 + (d - 48)) * 10 ^ rest.length :=
              Nat.mul_le_mul_right _ (by omega)
            have : (10 : Nat) ^ 3 = 1000 := by decide
            omega
          · simp only [List.length_cons]; omega
      have hlen1 : 1 ≤ ds.length := by omega
      simp only [Bool.and_eq_true, decide_eq_true_eq, Bool.or_eq_true, beq_iff_eq, bne_iff_ne, ne_eq]
      refine ⟨⟨⟨⟨hlen1, hlen3⟩, hall⟩, ?_⟩, by omega⟩
      by_cases hl : ds.length = 1
      · left; exact hl
      · right; exact h2 (by omega)
    · intro hm
      have := mem_takeWhile hm
      revert this; decide

theorem dotOctet_spec {s r : Bytes} (h : dotOctet s = some r) :
    ∃ ds, s = 46 :: (ds ++ r) ∧ decOctet ds = true ∧ (¬ 46 ∈ ds) := by
  cases s with
  | nil => simp [dotOctet] at h
  | cons c t =>
    by_cases hc : c = 46
    · subst hc
      simp only [dotOctet] at h
      obtain ⟨ds, hs, hd, hn⟩ := octet_spec h
      exact ⟨ds, by rw [hs], hd, hn⟩
    · unfold dotOctet at h
      split at h
      · rename_i t' heq; cases heq; exact absurd rfl hc
      · cases h

/-- `utils.IsIPv4` accepts only dotted quads of decimal octets (no leading zeros, each ≤ 255) -/
theorem isIPv4_valid {s : Bytes} (h : isIPv4 s = true) : validIPv4 s = true := by
  unfold isIPv4 at h
  cases h1 : octet s with
  | none => simp [h1] at h
  | some r1 =>
    simp only [h1] at h
    cases h2 : dotOctet r1 with
    | none => simp [h2] at h
    | some r2 =>
      simp only [h2] at h
      cases h3 : dotOctet r2 with
      | none => simp [h3] at h
      | some r3 =>
        simp only [h3] at h
        cases h4 : dotOctet r3 with
        | none => simp [h4] at h
        | some r4 =>
          simp only [h4, beq_iff_eq] at h
          subst h
          obtain ⟨d1, e1, v1, n1⟩ := octet_spec h1
          obtain ⟨d2, e2, v2, n2⟩ := dotOctet_spec h2
          obtain ⟨d3, e3, v3, n3⟩ := dotOctet_spec h3
          obtain ⟨d4, e4, v4, n4⟩ := dotOctet_spec h4
          have hs : s = d1 ++ 46 :: (d2 ++ 46 :: (d3 ++ 46 :: d4)) := by
            rw [e1, e2, e3, e4]; simp
          unfold validIPv4
          rw [hs, pieces_sep 46 d1 _ n1, pieces_sep 46 d2 _ n2, pieces_sep 46 d3 _ n3, pieces_noSep 46 d4 n4]
          simp [v1, v2, v3, v4]

end C10
