import FiberModel.C10.V6Complete
/-
C10 — `net.IP.String()` (the transcribed `ipString`: `appendTo4` / `appendTo6` of `net/netip`)
identifies the address: two 4- or 16-byte addresses have the same canonical text exactly when they
are the same address (`to16`), and that text is in the RFC grammar. `StringFaithful`, the
hypothesis of the trust theorems, follows (`stringFaithful_of_format`).
-/
namespace C10
open B

/-! ### digits -/

theorem hexNib_hex : ∀ d, d < 16 → isHexDigit (hexNib d) = true := by decide
theorem hexDigitVal_hexNib : ∀ d, d < 16 → hexDigitVal (hexNib d) = d := by decide
theorem hexNib_ne58 : ∀ d, d < 16 → hexNib d ≠ 58 := by decide

/-- the (one to four) nibbles `appendHex` prints -/
theorem appendHex_cases (x : Nat) (hx : x < 65536) :
    (x < 16 ∧ appendHex x = [hexNib x]) ∨
    (16 ≤ x ∧ x < 256 ∧ appendHex x = [hexNib (x / 16 % 16), hexNib (x % 16)]) ∨
    (256 ≤ x ∧ x < 4096 ∧ appendHex x = [hexNib (x / 256 % 16), hexNib (x / 16 % 16), hexNib (x % 16)]) ∨
    (4096 ≤ x ∧ appendHex x = [hexNib (x / 4096), hexNib (x / 256 % 16), hexNib (x / 16 % 16), hexNib (x % 16)]) := by
  unfold appendHex
  by_cases h1 : x ≥ 4096
  · have h2 : x ≥ 256 := by omega
    have h3 : x ≥ 16 := by omega
    right; right; right; simp [h1, h2, h3]
  · by_cases h2 : x ≥ 256
    · have h3 : x ≥ 16 := by omega
      right; right; left; simp [h1, h2, h3]; omega
    · by_cases h3 : x ≥ 16
      · right; left; simp [h1, h2, h3]; omega
      · left; simp [h1, h2, h3]
        have : x % 16 = x := by omega
        rw [this]; omega

theorem appendHex_h16 (x : Nat) (hx : x < 65536) : h16 (appendHex x) = true := by
  have n1 := hexNib_hex (x % 16) (by omega)
  have n2 := hexNib_hex (x / 16 % 16) (by omega)
  have n3 := hexNib_hex (x / 256 % 16) (by omega)
  have n4 := hexNib_hex (x / 4096) (by omega)
  rcases appendHex_cases x hx with ⟨h, e⟩ | ⟨_, _, e⟩ | ⟨_, _, e⟩ | ⟨_, e⟩
  · have : x % 16 = x := by omega
    rw [this] at n1
    rw [e]; simp [h16, n1]
  · rw [e]; simp [h16, n1, n2]
  · rw [e]; simp [h16, n1, n2, n3]
  · rw [e]; simp [h16, n1, n2, n3, n4]

theorem hexVal_appendHex (x : Nat) (hx : x < 65536) : hexVal (appendHex x) = x := by
  have n1 := hexDigitVal_hexNib (x % 16) (by omega)
  have n2 := hexDigitVal_hexNib (x / 16 % 16) (by omega)
  have n3 := hexDigitVal_hexNib (x / 256 % 16) (by omega)
  have n4 := hexDigitVal_hexNib (x / 4096) (by omega)
  rcases appendHex_cases x hx with ⟨h, e⟩ | ⟨_, _, e⟩ | ⟨_, _, e⟩ | ⟨_, e⟩
  · have : x % 16 = x := by omega
    rw [this] at n1
    rw [e]; simp [hexVal, n1]
  · rw [e]; simp only [hexVal, List.foldl_cons, List.foldl_nil, n1, n2]; omega
  · rw [e]; simp only [hexVal, List.foldl_cons, List.foldl_nil, n1, n2, n3]; omega
  · rw [e]; simp only [hexVal, List.foldl_cons, List.foldl_nil, n1, n2, n3, n4]; omega

theorem appendHex_noColon (x : Nat) (hx : x < 65536) : ¬ 58 ∈ appendHex x := by
  intro hm
  have := List.all_eq_true.1 (h16_all (appendHex_h16 x hx)) 58 hm
  rw [not_hex_58] at this; cases this

theorem appendHex_ne_nil (x : Nat) (hx : x < 65536) : appendHex x ≠ [] := by
  intro e; have := h16_ne (appendHex_h16 x hx); simp [e] at this

theorem appendHex_inj {x y : Nat} (hx : x < 65536) (hy : y < 65536) (h : appendHex x = appendHex y) : x = y := by
  rw [← hexVal_appendHex x hx, ← hexVal_appendHex y hy, h]

/-! ### groups joined by colons -/

/-- every group preceded by a colon -/
def tailGroups (l : List Nat) : Bytes := l.flatMap fun y => 58 :: appendHex y

/-- groups separated by colons (the empty list prints nothing) -/
def hexJoin : List Nat → Bytes
  | [] => []
  | x :: xs => appendHex x ++ tailGroups xs

theorem hexJoin_nil : hexJoin [] = [] := rfl

def groupsOK (l : List Nat) : Prop := ∀ x ∈ l, x < 65536

theorem groupsOK_cons {x : Nat} {xs : List Nat} (h : groupsOK (x :: xs)) : x < 65536 ∧ groupsOK xs :=
  ⟨h x (by simp), fun y hy => h y (by simp [hy])⟩

theorem tailGroups_cons (y : Nat) (ys : List Nat) : tailGroups (y :: ys) = 58 :: (appendHex y ++ tailGroups ys) := by
  simp [tailGroups]

theorem pieces_tail (g : Bytes) (xs : List Nat) (hg : ¬ 58 ∈ g) (hx : groupsOK xs) :
    pieces 58 (g ++ tailGroups xs) = g :: xs.map appendHex := by
  induction xs generalizing g with
  | nil => simp [tailGroups, pieces_noSep 58 g hg]
  | cons y ys ih =>
    obtain ⟨hy, hys⟩ := groupsOK_cons hx
    rw [tailGroups_cons, pieces_sep 58 g _ hg, ih _ (appendHex_noColon y hy) hys]
    simp

theorem pieces_hexJoin (x : Nat) (xs : List Nat) (h : groupsOK (x :: xs)) :
    pieces 58 (hexJoin (x :: xs)) = (x :: xs).map appendHex := by
  obtain ⟨hx, hxs⟩ := groupsOK_cons h
  simp only [hexJoin]
  rw [pieces_tail _ xs (appendHex_noColon x hx) hxs]; simp

theorem hexJoin_ne_nil (x : Nat) (xs : List Nat) (hx : x < 65536) : hexJoin (x :: xs) ≠ [] := by
  simp [hexJoin, appendHex_ne_nil x hx]

theorem map_appendHex_inj {l l' : List Nat} (h : groupsOK l) (h' : groupsOK l')
    (e : l.map appendHex = l'.map appendHex) : l = l' := by
  induction l generalizing l' with
  | nil => cases l' with
    | nil => rfl
    | cons => simp at e
  | cons x xs ih =>
    cases l' with
    | nil => simp at e
    | cons y ys =>
      simp only [List.map_cons, List.cons.injEq] at e
      obtain ⟨hx, hxs⟩ := groupsOK_cons h
      obtain ⟨hy, hys⟩ := groupsOK_cons h'
      rw [appendHex_inj hx hy e.1, ih hxs hys e.2]

/-- the joined text determines the groups -/
theorem hexJoin_inj {l l' : List Nat} (h : groupsOK l) (h' : groupsOK l') (e : hexJoin l = hexJoin l') : l = l' := by
  cases l with
  | nil =>
    cases l' with
    | nil => rfl
    | cons y ys => exact absurd e.symm (hexJoin_ne_nil y ys (groupsOK_cons h').1)
  | cons x xs =>
    cases l' with
    | nil => exact absurd e (hexJoin_ne_nil x xs (groupsOK_cons h).1)
    | cons y ys =>
      have := congrArg (pieces 58) e
      rw [pieces_hexJoin x xs h, pieces_hexJoin y ys h'] at this
      exact map_appendHex_inj h h' this

theorem appendHex_head (y : Nat) (hy : y < 65536) (rest : Bytes) : (appendHex y ++ rest).head? ≠ some 58 := by
  cases hl : appendHex y with
  | nil => exact absurd hl (appendHex_ne_nil y hy)
  | cons c cs =>
    have : c ≠ 58 := by
      intro e; apply appendHex_noColon y hy; rw [hl, e]; simp
    simpa using this

/-- no `::` inside joined groups -/
theorem indexOf_tail_none (g : Bytes) (xs : List Nat) (hg : ¬ 58 ∈ g) (hx : groupsOK xs) :
    indexOf (g ++ tailGroups xs) [58, 58] = none := by
  induction xs generalizing g with
  | nil => simpa [tailGroups] using indexOf_none_noColon g hg
  | cons y ys ih =>
    obtain ⟨hy, hys⟩ := groupsOK_cons hx
    rw [tailGroups_cons, indexOf_skip g _ hg, indexOf_colon _ (appendHex_head y hy _), ih _ (appendHex_noColon y hy) hys]
    rfl

/-- the first `::` after joined groups is the one that follows them -/
theorem indexOf_tail_cc (g : Bytes) (xs : List Nat) (rest : Bytes) (hg : ¬ 58 ∈ g) (hx : groupsOK xs) :
    indexOf (g ++ tailGroups xs ++ 58 :: 58 :: rest) [58, 58] = some (g ++ tailGroups xs).length := by
  induction xs generalizing g with
  | nil => simp [tailGroups, indexOf_skip g _ hg, indexOf_cc]
  | cons y ys ih =>
    obtain ⟨hy, hys⟩ := groupsOK_cons hx
    rw [tailGroups_cons, List.append_assoc, indexOf_skip g _ hg, List.cons_append,
      indexOf_colon _ (by rw [List.append_assoc]; exact appendHex_head y hy _), ih _ (appendHex_noColon y hy) hys]
    simp; omega

theorem indexOf_hexJoin_none (l : List Nat) (h : groupsOK l) : indexOf (hexJoin l) [58, 58] = none := by
  cases l with
  | nil => simp [hexJoin, indexOf]
  | cons x xs =>
    obtain ⟨hx, hxs⟩ := groupsOK_cons h
    exact indexOf_tail_none _ xs (appendHex_noColon x hx) hxs

theorem indexOf_hexJoin_cc (l : List Nat) (rest : Bytes) (h : groupsOK l) :
    indexOf (hexJoin l ++ 58 :: 58 :: rest) [58, 58] = some (hexJoin l).length := by
  cases l with
  | nil => simp [hexJoin, indexOf_cc]
  | cons x xs =>
    obtain ⟨hx, hxs⟩ := groupsOK_cons h
    exact indexOf_tail_cc _ xs rest (appendHex_noColon x hx) hxs

/-! ### the second loop of `appendTo6` -/

theorem drop_getD_cons (g : List Nat) (i : Nat) (h : i < g.length) : g.drop i = g.getD i 0 :: g.drop (i + 1) := by
  rw [List.drop_eq_getElem_cons h]
  simp [List.getD_eq_getElem?_getD, List.getElem?_eq_getElem h]

theorem emit6_succ (g : List Nat) (zs ze fuel i : Nat) : emit6 g zs ze (fuel + 1) i =
    if i ≥ 8 then []
    else if i == zs then
      58 :: 58 :: (if ze ≥ 8 then [] else appendHex (g.getD ze 0) ++ emit6 g zs ze fuel (ze + 1))
    else (if i > 0 then [58] else []) ++ appendHex (g.getD i 0) ++ emit6 g zs ze fuel (i + 1) := rfl

/-- past the zero run (or without one): the remaining groups, each behind a colon -/
theorem emit6_rest (g : List Nat) (zs ze : Nat) (hg : g.length = 8) : ∀ (fuel i : Nat),
    1 ≤ i → (zs < i ∨ 8 ≤ zs) → 8 < fuel + i → emit6 g zs ze fuel i = tailGroups (g.drop i) := by
  intro fuel
  induction fuel with
  | zero =>
    intro i _ _ hf
    have : g.drop i = [] := List.drop_eq_nil_of_le (by omega)
    simp [emit6, this, tailGroups]
  | succ f ih =>
    intro i hi hz hf
    rw [emit6_succ]
    by_cases h8 : i ≥ 8
    · have : g.drop i = [] := List.drop_eq_nil_of_le (by omega)
      simp [h8, this, tailGroups]
    · have hne : (i == zs) = false := by
        have : i ≠ zs := by omega
        simpa using this
      have hpos : i > 0 := by omega
      simp only [h8, if_false, hne, Bool.false_eq_true, hpos, if_true]
      rw [ih (i + 1) (by omega) (by omega) (by omega), drop_getD_cons g i (by omega), tailGroups_cons]
      simp

/-- what follows the `::` -/
theorem emit6_after (g : List Nat) (zs ze : Nat) (hg : g.length = 8) (hz : zs < ze) (fuel : Nat) (hf : 8 < fuel + ze + 1 ∨ 8 ≤ ze) :
    (if ze ≥ 8 then [] else appendHex (g.getD ze 0) ++ emit6 g zs ze fuel (ze + 1)) = hexJoin (g.drop ze) := by
  by_cases h8 : ze ≥ 8
  · have : g.drop ze = [] := List.drop_eq_nil_of_le (by omega)
    simp [h8, this, hexJoin]
  · simp only [h8, if_false]
    rw [emit6_rest g zs ze hg fuel (ze + 1) (by omega) (by omega) (by omega), drop_getD_cons g ze (by omega)]
    rfl

/-- in front of the zero run -/
theorem emit6_front (g : List Nat) (zs ze : Nat) (hg : g.length = 8) (hz : zs < ze) (hz8 : zs < 8) : ∀ (n fuel i : Nat),
    1 ≤ i → i + n = zs → 8 < fuel + i →
    emit6 g zs ze fuel i = tailGroups ((g.drop i).take n) ++ 58 :: 58 :: hexJoin (g.drop ze) := by
  intro n
  induction n with
  | zero =>
    intro fuel i hi hn hf
    obtain ⟨f, rfl⟩ : ∃ f, fuel = f + 1 := ⟨fuel - 1, by omega⟩
    have hi8 : ¬ i ≥ 8 := by omega
    have he : (i == zs) = true := by simp; omega
    rw [emit6_succ]
    simp only [hi8, if_false, he, if_true, List.take_zero, tailGroups, List.flatMap_nil, List.nil_append]
    rw [emit6_after g zs ze hg hz f (by omega)]
  | succ m ih =>
    intro fuel i hi hn hf
    obtain ⟨f, rfl⟩ : ∃ f, fuel = f + 1 := ⟨fuel - 1, by omega⟩
    have hi8 : ¬ i ≥ 8 := by omega
    have hne : (i == zs) = false := by
      have : i ≠ zs := by omega
      simpa using this
    have hpos : i > 0 := by omega
    rw [emit6_succ]
    simp only [hi8, if_false, hne, Bool.false_eq_true, hpos, if_true]
    rw [ih f (i + 1) (by omega) (by omega) (by omega), drop_getD_cons g i (by omega), List.take_succ_cons, tailGroups_cons]
    simp

/-- **`appendTo6` prints the groups in front of the zero run, `::`, the groups behind it** -/
theorem emit6_run (g : List Nat) (zs ze : Nat) (hg : g.length = 8) (hz : zs < ze) (hz8 : zs < 8) :
    emit6 g zs ze 9 0 = hexJoin (g.take zs) ++ 58 :: 58 :: hexJoin (g.drop ze) := by
  by_cases h0 : zs = 0
  · subst h0
    rw [show (9 : Nat) = 8 + 1 from rfl, emit6_succ]
    have : ¬ (0 ≥ 8) := by omega
    simp only [this, if_false, beq_self_eq_true, if_true, List.take_zero, hexJoin_nil, List.nil_append]
    rw [emit6_after g 0 ze hg hz 8 (by omega)]
  · have hne : ((0 : Nat) == zs) = false := by
      have : (0 : Nat) ≠ zs := by omega
      simpa using this
    have : ¬ (0 ≥ 8) := by omega
    have h00 : ¬ (0 > 0) := by omega
    rw [show (9 : Nat) = 8 + 1 from rfl, emit6_succ]
    simp only [this, if_false, hne, Bool.false_eq_true, h00, List.nil_append]
    rw [emit6_front g zs ze hg hz hz8 (zs - 1) 8 1 (by omega) (by omega) (by omega)]
    have ht : g.take zs = g.getD 0 0 :: (g.drop 1).take (zs - 1) := by
      obtain ⟨k, rfl⟩ : ∃ k, zs = k + 1 := ⟨zs - 1, by omega⟩
      cases g with
      | nil => simp at hg
      | cons x xs => simp
    rw [ht]; simp [hexJoin]

/-- without a zero run: all eight groups -/
theorem emit6_plain (g : List Nat) (zs ze : Nat) (hg : g.length = 8) (hz8 : 8 ≤ zs) :
    emit6 g zs ze 9 0 = hexJoin g := by
  have hne : ((0 : Nat) == zs) = false := by
    have : (0 : Nat) ≠ zs := by omega
    simpa using this
  have : ¬ (0 ≥ 8) := by omega
  have h00 : ¬ (0 > 0) := by omega
  rw [show (9 : Nat) = 8 + 1 from rfl, emit6_succ]
  simp only [this, if_false, hne, Bool.false_eq_true, h00, List.nil_append]
  rw [emit6_rest g zs ze hg 8 1 (by omega) (by omega) (by omega)]
  cases g with
  | nil => simp at hg
  | cons x xs => simp [hexJoin]

/-! ### the first loop of `appendTo6`: the chosen run consists of zero groups -/

/-- `(zs, ze)` is "no run" (the initial 255, 255) or a non-empty run of zero groups inside the address -/
def RunOK (g : List Nat) (r : Nat × Nat) : Prop :=
  r = (255, 255) ∨ (r.1 < r.2 ∧ r.2 ≤ 8 ∧ ∀ k, r.1 ≤ k → k < r.2 → g.getD k 0 = 0)

theorem takeWhile_zero_getD (l : List Nat) (k : Nat) (h : k < (l.takeWhile (· == 0)).length) : l.getD k 0 = 0 := by
  induction l generalizing k with
  | nil => simp at h
  | cons x xs ih =>
    simp only [List.takeWhile_cons] at h
    split at h
    · rename_i hx
      have hx : x = 0 := by simpa using hx
      cases k with
      | zero => simp [hx]
      | succ k => simp only [List.length_cons] at h; simpa using ih k (by omega)
    · simp at h

theorem takeWhile_length_le {α : Type} (p : α → Bool) (l : List α) : (l.takeWhile p).length ≤ l.length := by
  induction l with
  | nil => simp
  | cons x xs ih => simp only [List.takeWhile_cons]; split <;> simp <;> omega

theorem zeroRunStep_ok (g : List Nat) (hg : g.length = 8) (best : Nat × Nat) (i : Nat) (hi : i < 8) (hb : RunOK g best) :
    RunOK g (zeroRunStep g best i) := by
  unfold zeroRunStep
  simp only
  split
  · rename_i hc
    simp only [Bool.and_eq_true, decide_eq_true_eq] at hc
    right
    have hlen := takeWhile_length_le (· == 0) (g.drop i)
    simp only [List.length_drop] at hlen
    refine ⟨by unfold zeroRunEnd at hc ⊢; omega, by unfold zeroRunEnd; omega, ?_⟩
    intro k hk1 hk2
    unfold zeroRunEnd at hk2
    simp only at hk1
    have := takeWhile_zero_getD (g.drop i) (k - i) (by omega)
    rw [List.getD_eq_getElem?_getD, List.getElem?_drop] at this
    rw [List.getD_eq_getElem?_getD]
    have e : i + (k - i) = k := by omega
    rw [e] at this; exact this
  · exact hb

theorem foldl_inv {α β : Type} (P : β → Prop) (f : β → α → β) (Q : α → Prop) (l : List α) (b : β)
    (hb : P b) (hl : ∀ x ∈ l, Q x) (hstep : ∀ b x, Q x → P b → P (f b x)) : P (l.foldl f b) := by
  induction l generalizing b with
  | nil => exact hb
  | cons x xs ih =>
    exact ih _ (hstep b x (hl x (by simp)) hb) fun y hy => hl y (by simp [hy])

theorem bestZeroRun_ok (g : List Nat) (hg : g.length = 8) : RunOK g (bestZeroRun g) := by
  unfold bestZeroRun
  exact foldl_inv (RunOK g) (zeroRunStep g) (· < 8) (List.range 8) (255, 255) (Or.inl rfl)
    (fun x hx => by simpa using hx) (fun b x hx hb => zeroRunStep_ok g hg b x hx hb)

/-! ### sixteen bytes ↔ eight groups -/

theorem groups16_length (ip : Bytes) : (groups16 ip).length = ip.length / 2 := by
  induction ip using groups16.induct with
  | case1 a c rest ih => simp [groups16, ih]; omega
  | case2 ip h =>
    cases ip with
    | nil => simp [groups16]
    | cons a t =>
      cases t with
      | nil => simp [groups16]
      | cons c rest => exact absurd rfl (h a c rest)

theorem groups16_ok (ip : Bytes) (h : bytesOK ip) : groupsOK (groups16 ip) := by
  induction ip using groups16.induct with
  | case1 a c rest ih =>
    intro x hx
    simp only [groups16, List.mem_cons] at hx
    rcases hx with rfl | hx
    · have := h a (by simp); have := h c (by simp); omega
    · exact ih (fun y hy => h y (by simp [hy])) x hx
  | case2 ip hh =>
    intro x hx
    cases ip with
    | nil => simp [groups16] at hx
    | cons a t =>
      cases t with
      | nil => simp [groups16] at hx
      | cons c rest => exact absurd rfl (hh a c rest)

theorem groups16_inj (a c : Bytes) (ha : bytesOK a) (hc : bytesOK c) (hl : a.length = c.length) (hev : a.length % 2 = 0)
    (h : groups16 a = groups16 c) : a = c := by
  induction a using groups16.induct generalizing c with
  | case1 x y rest ih =>
    match c, hl with
    | x' :: y' :: rest', hl =>
      simp only [groups16, List.cons.injEq] at h
      have := ha x (by simp); have := ha y (by simp); have := hc x' (by simp); have := hc y' (by simp)
      have hx : x = x' := by omega
      have hy : y = y' := by omega
      have := ih rest' (fun z hz => ha z (by simp [hz])) (fun z hz => hc z (by simp [hz]))
        (by simp at hl; omega) (by simp at hev; omega) h.2
      rw [hx, hy, this]
    | [], hl => simp at hl
    | [_], hl => simp at hl
  | case2 a hh =>
    cases a with
    | nil => cases c with
      | nil => rfl
      | cons => simp at hl
    | cons x t =>
      cases t with
      | nil => simp at hev
      | cons y rest => exact absurd rfl (hh x y rest)

/-! ### `appendTo6` identifies the address -/

/-- the two shapes of the RFC 5952 text -/
theorem string6_forms (ip : Bytes) (hl : ip.length = 16) :
    string6 ip = hexJoin (groups16 ip) ∨
    ∃ zs ze, zs < ze ∧ ze ≤ 8 ∧ (∀ k, zs ≤ k → k < ze → (groups16 ip).getD k 0 = 0) ∧
      string6 ip = hexJoin ((groups16 ip).take zs) ++ 58 :: 58 :: hexJoin ((groups16 ip).drop ze) := by
  have hg : (groups16 ip).length = 8 := by rw [groups16_length, hl]
  unfold string6
  simp only
  rcases bestZeroRun_ok (groups16 ip) hg with h | ⟨h1, h2, h3⟩
  · left; rw [h]; exact emit6_plain _ 255 255 hg (by omega)
  · right
    exact ⟨_, _, h1, h2, h3, emit6_run _ _ _ hg h1 (by omega)⟩

theorem groupsOK_take {l : List Nat} (h : groupsOK l) (n : Nat) : groupsOK (l.take n) :=
  fun x hx => h x (List.mem_of_mem_take hx)
theorem groupsOK_drop {l : List Nat} (h : groupsOK l) (n : Nat) : groupsOK (l.drop n) :=
  fun x hx => h x (List.mem_of_mem_drop hx)

theorem getD_zero_getElem? {l : List Nat} {k : Nat} (hk : k < l.length) (h : l.getD k 0 = 0) : l[k]? = some 0 := by
  rw [List.getD_eq_getElem?_getD, List.getElem?_eq_getElem hk] at h
  rw [List.getElem?_eq_getElem hk]; simpa using h

/-- groups that agree in front of and behind a common run of zeros are equal -/
theorem groups_ext (g g' : List Nat) (hg : g.length = 8) (hg' : g'.length = 8) (zs ze : Nat) (hze : ze ≤ 8)
    (hz : ∀ k, zs ≤ k → k < ze → g.getD k 0 = 0) (hz' : ∀ k, zs ≤ k → k < ze → g'.getD k 0 = 0)
    (ht : g.take zs = g'.take zs) (hd : g.drop ze = g'.drop ze) : g = g' := by
  apply List.ext_getElem?
  intro k
  by_cases h1 : k < zs
  · have := congrArg (fun l => l[k]?) ht
    simpa [List.getElem?_take, h1] using this
  · by_cases h2 : k < ze
    · rw [getD_zero_getElem? (by omega) (hz k (by omega) h2), getD_zero_getElem? (by omega) (hz' k (by omega) h2)]
    · have := congrArg (fun l => l[k - ze]?) hd
      simp only [List.getElem?_drop] at this
      have e : ze + (k - ze) = k := by omega
      rw [e] at this; exact this

theorem string6_inj (a c : Bytes) (ha : a.length = 16) (hc : c.length = 16) (hba : bytesOK a) (hbc : bytesOK c)
    (h : string6 a = string6 c) : a = c := by
  have hga : (groups16 a).length = 8 := by rw [groups16_length, ha]
  have hgc : (groups16 c).length = 8 := by rw [groups16_length, hc]
  have oka := groups16_ok a hba
  have okc := groups16_ok c hbc
  suffices groups16 a = groups16 c from groups16_inj a c hba hbc (by omega) (by omega) this
  rcases string6_forms a ha with ea | ⟨zs, ze, h1, h2, h3, ea⟩ <;>
    rcases string6_forms c hc with ec | ⟨zs', ze', h1', h2', h3', ec⟩
  · exact hexJoin_inj oka okc (by rw [← ea, ← ec, h])
  · exfalso
    have := congrArg (fun t => indexOf t [58, 58]) h
    simp only [ea, ec, indexOf_hexJoin_none _ oka, indexOf_hexJoin_cc _ _ (groupsOK_take okc _)] at this
    cases this
  · exfalso
    have := congrArg (fun t => indexOf t [58, 58]) h
    simp only [ea, ec, indexOf_hexJoin_none _ okc, indexOf_hexJoin_cc _ _ (groupsOK_take oka _)] at this
    cases this
  · rw [ea, ec] at h
    have hi := congrArg (fun t => indexOf t [58, 58]) h
    simp only [indexOf_hexJoin_cc _ _ (groupsOK_take oka _), indexOf_hexJoin_cc _ _ (groupsOK_take okc _),
      Option.some.injEq] at hi
    have hA : hexJoin ((groups16 a).take zs) = hexJoin ((groups16 c).take zs') := by
      have := congrArg (List.take (hexJoin ((groups16 a).take zs)).length) h
      have e0 : ∀ (l r : Bytes), List.take l.length (l ++ r) = l := by intro l r; simp
      rw [e0] at this
      rw [hi, e0] at this
      exact this
    have hB : hexJoin ((groups16 a).drop ze) = hexJoin ((groups16 c).drop ze') := by
      have := congrArg (List.drop ((hexJoin ((groups16 a).take zs)).length + 2)) h
      have e1 : ∀ (l r : Bytes), List.drop (l.length + 2) (l ++ 58 :: 58 :: r) = r := by intro l r; simp
      rw [e1] at this
      rw [hi, e1] at this
      exact this
    have hT := hexJoin_inj (groupsOK_take oka _) (groupsOK_take okc _) hA
    have hD := hexJoin_inj (groupsOK_drop oka _) (groupsOK_drop okc _) hB
    have hzs : zs = zs' := by
      have := congrArg List.length hT
      simp only [List.length_take] at this; omega
    have hze : ze = ze' := by
      have := congrArg List.length hD
      simp only [List.length_drop] at this; omega
    subst hzs; subst hze
    exact groups_ext _ _ hga hgc zs ze h2 h3 h3' hT hD

/-! ### dotted quads -/

set_option maxRecDepth 100000 in
theorem appendDecimal_octet : ∀ x, x < 256 → decOctet (appendDecimal x) = true := by decide
set_option maxRecDepth 100000 in
theorem digitsVal_appendDecimal : ∀ x, x < 256 → digitsVal (appendDecimal x) = x := by decide

theorem appendDecimal_noDot (x : Nat) (hx : x < 256) : ¬ 46 ∈ appendDecimal x := by
  intro hm
  have := decOctet_digits (appendDecimal_octet x hx) 46 hm
  rw [not_digit_46] at this; cases this

theorem appendDecimal_inj {x y : Nat} (hx : x < 256) (hy : y < 256) (h : appendDecimal x = appendDecimal y) : x = y := by
  rw [← digitsVal_appendDecimal x hx, ← digitsVal_appendDecimal y hy, h]

theorem len4 {v : Bytes} (h : v.length = 4) : ∃ a c d e, v = [a, c, d, e] := by
  rcases v with _ | ⟨a, _ | ⟨c, _ | ⟨d, _ | ⟨e, _ | ⟨y, t⟩⟩⟩⟩⟩ <;> simp at h
  exact ⟨a, c, d, e, rfl⟩

theorem pieces_string4 (a c d e : Nat) (ha : a < 256) (hc : c < 256) (hd : d < 256) (he : e < 256) :
    pieces 46 (string4 [a, c, d, e]) = [appendDecimal a, appendDecimal c, appendDecimal d, appendDecimal e] := by
  simp only [string4]
  rw [pieces_sep 46 _ _ (appendDecimal_noDot a ha), pieces_sep 46 _ _ (appendDecimal_noDot c hc),
    pieces_sep 46 _ _ (appendDecimal_noDot d hd), pieces_noSep 46 _ (appendDecimal_noDot e he)]

theorem string4_inj (v w : Bytes) (hv : v.length = 4) (hw : w.length = 4) (hbv : bytesOK v) (hbw : bytesOK w)
    (h : string4 v = string4 w) : v = w := by
  obtain ⟨a, c, d, e, rfl⟩ := len4 hv
  obtain ⟨a', c', d', e', rfl⟩ := len4 hw
  have ha := hbv a (by simp); have hc := hbv c (by simp); have hd := hbv d (by simp); have he := hbv e (by simp)
  have ha' := hbw a' (by simp); have hc' := hbw c' (by simp); have hd' := hbw d' (by simp); have he' := hbw e' (by simp)
  have := congrArg (pieces 46) h
  rw [pieces_string4 a c d e ha hc hd he, pieces_string4 a' c' d' e' ha' hc' hd' he'] at this
  simp only [List.cons.injEq, and_true] at this
  rw [appendDecimal_inj ha ha' this.1, appendDecimal_inj hc hc' this.2.1, appendDecimal_inj hd hd' this.2.2.1,
    appendDecimal_inj he he' this.2.2.2]

theorem string4_valid (v : Bytes) (hv : v.length = 4) (hb : bytesOK v) : validIPv4 (string4 v) = true := by
  obtain ⟨a, c, d, e, rfl⟩ := len4 hv
  have ha := hb a (by simp); have hc := hb c (by simp); have hd := hb d (by simp); have he := hb e (by simp)
  unfold validIPv4
  rw [pieces_string4 a c d e ha hc hd he]
  simp [appendDecimal_octet a ha, appendDecimal_octet c hc, appendDecimal_octet d hd, appendDecimal_octet e he]

theorem string4_noColon (v : Bytes) (hv : v.length = 4) (hb : bytesOK v) : ¬ 58 ∈ string4 v :=
  isIPv4_noColon (isIPv4_complete (string4_valid v hv hb))

/-! ### `To4` and the 16-byte form -/

theorem len16 {v : Bytes} (h : v.length = 16) : ∃ x0 x1 x2 x3 x4 x5 x6 x7 x8 x9 x10 x11 x12 x13 x14 x15, v = [x0, x1, x2, x3, x4, x5, x6, x7, x8, x9, x10, x11, x12, x13, x14, x15] := by
  rcases v with _ | ⟨x0, _ | ⟨x1, _ | ⟨x2, _ | ⟨x3, _ | ⟨x4, _ | ⟨x5, _ | ⟨x6, _ | ⟨x7, _ | ⟨x8, _ | ⟨x9, _ | ⟨x10, _ | ⟨x11, _ | ⟨x12, _ | ⟨x13, _ | ⟨x14, _ | ⟨x15, _ | ⟨y, t⟩⟩⟩⟩⟩⟩⟩⟩⟩⟩⟩⟩⟩⟩⟩⟩⟩ <;> simp at h
  exact ⟨x0, x1, x2, x3, x4, x5, x6, x7, x8, x9, x10, x11, x12, x13, x14, x15, rfl⟩

theorem to4_len4 (ip : Bytes) (h : ip.length = 4) : to4 ip = some ip := by simp [to4, h]

theorem to4_to16 {ip v : Bytes} (hl : ip.length = 4 ∨ ip.length = 16) (h : to4 ip = some v) :
    v.length = 4 ∧ to16 ip = v4in6 ++ v := by
  rcases hl with hl | hl
  · rw [to4_len4 ip hl] at h; cases h
    exact ⟨hl, by simp [to16, hl]⟩
  · obtain ⟨x0, x1, x2, x3, x4, x5, x6, x7, x8, x9, x10, x11, x12, x13, x14, x15, rfl⟩ := len16 hl
    simp [to4] at h
    obtain ⟨⟨⟨⟨h0, h1, h2, h3, h4, h5, h6, h7, h8, h9⟩, h10⟩, h11⟩, rfl⟩ := h
    subst h0 h1 h2 h3 h4 h5 h6 h7 h8 h9 h10 h11
    exact ⟨rfl, by simp [to16, v4in6]⟩

theorem to4_none_len {ip : Bytes} (hl : ip.length = 4 ∨ ip.length = 16) (h : to4 ip = none) : ip.length = 16 := by
  rcases hl with hl | hl
  · rw [to4_len4 ip hl] at h; cases h
  · exact hl

theorem to16_len16 {ip : Bytes} (h : ip.length = 16) : to16 ip = ip := by simp [to16, h]

theorem to4_v4in6 (v : Bytes) (hv : v.length = 4) : to4 (v4in6 ++ v) = some v := by
  obtain ⟨a, c, d, e, rfl⟩ := len4 hv
  simp [to4, v4in6]

/-! ### the RFC 5952 text is in the RFC 4291 grammar, and has a colon -/

theorem units_groups (l : List Nat) (v : Bool) (h : groupsOK l) (hne : l ≠ []) :
    units (l.map appendHex) v = some l.length := by
  induction l with
  | nil => exact absurd rfl hne
  | cons x xs ih =>
    obtain ⟨hx, hxs⟩ := groupsOK_cons h
    cases xs with
    | nil => simp [units_one _ v (appendHex_h16 x hx)]
    | cons y ys =>
      simp only [List.map_cons]
      rw [units_cons _ _ _ v (appendHex_h16 x hx)]
      have := ih hxs (by simp)
      simp only [List.map_cons] at this
      rw [this]; simp

theorem sideUnits_hexJoin (l : List Nat) (v : Bool) (h : groupsOK l) : sideUnits (hexJoin l) v = some l.length := by
  cases l with
  | nil => simp [hexJoin, sideUnits]
  | cons x xs =>
    have hne := hexJoin_ne_nil x xs (groupsOK_cons h).1
    unfold sideUnits
    have : (hexJoin (x :: xs) == []) = false := by simpa using hne
    rw [this, pieces_hexJoin x xs h]
    simpa using units_groups (x :: xs) v h (by simp)

theorem hexJoin_head (l : List Nat) (h : groupsOK l) : (hexJoin l).head? ≠ some 58 := by
  cases l with
  | nil => simp [hexJoin]
  | cons x xs => exact appendHex_head x (groupsOK_cons h).1 _

theorem string6_valid (ip : Bytes) (hl : ip.length = 16) (hb : bytesOK ip) : validIPv6 (string6 ip) = true := by
  have hg : (groups16 ip).length = 8 := by rw [groups16_length, hl]
  have ok := groups16_ok ip hb
  rcases string6_forms ip hl with e | ⟨zs, ze, h1, h2, _, e⟩
  · rw [e]
    unfold validIPv6
    rw [indexOf_hexJoin_none _ ok]
    cases hgl : groups16 ip with
    | nil => rw [hgl] at hg; simp at hg
    | cons x xs =>
      rw [hgl] at ok hg
      rw [pieces_hexJoin x xs ok, units_groups (x :: xs) true ok (by simp), hg]
      rfl
  · rw [e]
    unfold validIPv6
    rw [indexOf_hexJoin_cc _ _ (groupsOK_take ok _)]
    have e1 : ∀ (l r : Bytes), List.drop (l.length + 2) (l ++ 58 :: 58 :: r) = r := by intro l r; simp
    have e0 : ∀ (l r : Bytes), List.take l.length (l ++ r) = l := by intro l r; simp
    simp only [e0, e1]
    rw [indexOf_hexJoin_none _ (groupsOK_drop ok _), sideUnits_hexJoin _ false (groupsOK_take ok _),
      sideUnits_hexJoin _ true (groupsOK_drop ok _)]
    have hh : ((hexJoin (List.drop ze (groups16 ip))).head? != some 58) = true := by
      simpa using hexJoin_head _ (groupsOK_drop ok ze)
    simp only [hh, Option.isNone_none, Bool.true_and, List.length_take, List.length_drop, hg, decide_eq_true_eq]
    omega

theorem validIPv6_colon {s : Bytes} (h : validIPv6 s = true) : 58 ∈ s := by
  by_cases hc : s.contains 58 = true
  · exact List.contains_iff_mem.1 hc
  · exfalso
    have hnc : ¬ 58 ∈ s := fun hm => hc (List.contains_iff_mem.2 hm)
    unfold validIPv6 at h
    rw [indexOf_none_noColon s hnc, pieces_noSep 58 s hnc] at h
    simp only [units] at h
    split at h
    · simp at h
    · split at h <;> simp at h

/-! ### `net.IP.String()` identifies the address -/

theorem ipString_to16 (ip : Bytes) (hl : ip.length = 4 ∨ ip.length = 16) : ipString (to16 ip) = ipString ip := by
  rcases hl with hl | hl
  · have : to16 ip = v4in6 ++ ip := by simp [to16, hl]
    rw [this]
    unfold ipString
    rw [to4_v4in6 ip hl, to4_len4 ip hl]
  · rw [to16_len16 hl]

theorem to4_bytesOK' {ip v : Bytes} (hb : bytesOK ip) (h : to4 ip = some v) : bytesOK v := to4_bytesOK hb h

/-- **two addresses (4- or 16-byte form) have the same canonical text exactly when they are the same
    address** -/
theorem ipString_inj (a c : Bytes) (hla : a.length = 4 ∨ a.length = 16) (hlc : c.length = 4 ∨ c.length = 16)
    (hba : bytesOK a) (hbc : bytesOK c) : ipString a = ipString c ↔ to16 a = to16 c := by
  constructor
  · intro h
    unfold ipString at h
    cases ha : to4 a with
    | some va =>
      obtain ⟨hva, ea⟩ := to4_to16 hla ha
      cases hc : to4 c with
      | some vc =>
        obtain ⟨hvc, ec⟩ := to4_to16 hlc hc
        simp only [ha, hc] at h
        rw [ea, ec, string4_inj va vc hva hvc (to4_bytesOK hba ha) (to4_bytesOK hbc hc) h]
      | none =>
        exfalso
        simp only [ha, hc] at h
        have hc16 := to4_none_len hlc hc
        have := validIPv6_colon (string6_valid c hc16 hbc)
        rw [← h] at this
        exact string4_noColon va hva (to4_bytesOK hba ha) this
    | none =>
      have ha16 := to4_none_len hla ha
      cases hc : to4 c with
      | some vc =>
        exfalso
        obtain ⟨hvc, _⟩ := to4_to16 hlc hc
        simp only [ha, hc] at h
        have := validIPv6_colon (string6_valid a ha16 hba)
        rw [h] at this
        exact string4_noColon vc hvc (to4_bytesOK hbc hc) this
      | none =>
        have hc16 := to4_none_len hlc hc
        simp only [ha, hc] at h
        rw [to16_len16 ha16, to16_len16 hc16]
        exact string6_inj a c ha16 hc16 hba hbc h
  · intro h
    rw [← ipString_to16 a hla, ← ipString_to16 c hlc, h]

/-- **the canonical text of every address is a syntactically valid address** -/
theorem ipString_valid (ip : Bytes) (hl : ip.length = 4 ∨ ip.length = 16) (hb : bytesOK ip) : validIP (ipString ip) = true := by
  unfold ipString validIP
  cases h : to4 ip with
  | some v =>
    obtain ⟨hv, _⟩ := to4_to16 hl h
    simp [string4_valid v hv (to4_bytesOK hb h)]
  | none => simp [string6_valid ip (to4_none_len hl h) hb]

/-! ### `StringFaithful` is a theorem about the transcribed formatter -/

/-- the texts shipped with a case are what `net.IP.String()` (as transcribed) prints: the peer's, and
    the key of every listed address (checked by the driver on every case against Go's own strings) -/
def FormatOK (ps : List Proxy) (cn : Conn) : Prop :=
  (cn.rip.length = 4 ∨ cn.rip.length = 16) ∧ bytesOK cn.rip ∧ cn.ripStr = ipString cn.rip ∧
  ∀ canon ip16, Proxy.ip canon ip16 ∈ ps → ip16.length = 16 ∧ bytesOK ip16 ∧ canon = ipString ip16

/-- an entry filed by `handleTrustedProxy` as an address has no `/`, is what `net.ParseIP` returned,
    and its key is the canonical text -/
theorem fileProxy_ip {raw : Bytes} {pip : Option Bytes} {pc : Option (Bytes × Bytes)} {canon ip16 : Bytes}
    (h : fileProxy raw pip pc = .ip canon ip16) : raw.contains 47 = false ∧ pip = some ip16 ∧ canon = ipString ip16 := by
  unfold fileProxy at h
  split at h
  · split at h <;> cases h
  · rename_i hc
    split at h
    · cases h; exact ⟨by simpa using hc, rfl, rfl⟩
    · cases h

/-- a proxy list filed by `handleTrustedProxy` from `net.ParseIP` results of 16 bytes is `FormatOK` -/
theorem formatOK_of_filed (entries : List (Bytes × Option Bytes × Option (Bytes × Bytes))) (cn : Conn)
    (hl : cn.rip.length = 4 ∨ cn.rip.length = 16) (hb : bytesOK cn.rip) (hs : cn.ripStr = ipString cn.rip)
    (hp : ∀ e ∈ entries, ∀ i, e.2.1 = some i → i.length = 16 ∧ bytesOK i) :
    FormatOK (entries.map fun e => fileProxy e.1 e.2.1 e.2.2) cn := by
  refine ⟨hl, hb, hs, ?_⟩
  intro canon ip16 hm
  obtain ⟨e, he, hf⟩ := List.mem_map.1 hm
  obtain ⟨_, hpi, hc⟩ := fileProxy_ip hf
  obtain ⟨h16, hb16⟩ := hp e he ip16 hpi
  exact ⟨h16, hb16, hc⟩

theorem stringFaithful_of_format (ps : List Proxy) (cn : Conn) (h : FormatOK ps cn) : StringFaithful ps cn := by
  obtain ⟨hl, hb, hs, hp⟩ := h
  intro canon ip16 hm
  obtain ⟨h16, hb16, hc⟩ := hp canon ip16 hm
  rw [hc, hs, ipString_inj ip16 cn.rip (Or.inr h16) hl hb16 hb, to16_len16 h16]

end C10
