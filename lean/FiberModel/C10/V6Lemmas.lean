import FiberModel.C10.ValidLemmas
/-
C10 — `utils.IsIPv6` (the transcribed `isIPv6` / `ipv6Loop`) accepts only RFC 4291 §2.2 text forms
(`validIPv6`) once no group has more than four hexadecimal digits.
-/
namespace C10
open B

/-! ### `strings.Index(s, "::")` -/

theorem indexOf_cons_ne (x : Nat) (rest : Bytes) (hx : x ≠ 58) :
    indexOf (x :: rest) [58, 58] = (indexOf rest [58, 58]).map (· + 1) := by
  have : ((58 : Nat) == x) = false := by
    have : ¬ (58 : Nat) = x := fun e => hx e.symm
    simpa using this
  simp [indexOf, List.isPrefixOf, this]

theorem indexOf_colon (rest : Bytes) (h : rest.head? ≠ some 58) :
    indexOf (58 :: rest) [58, 58] = (indexOf rest [58, 58]).map (· + 1) := by
  cases rest with
  | nil => simp [indexOf, List.isPrefixOf]
  | cons y ys =>
    have hy : y ≠ 58 := by simpa using h
    have : ((58 : Nat) == y) = false := by
      have : ¬ (58 : Nat) = y := fun e => hy e.symm
      simpa using this
    simp [indexOf, List.isPrefixOf, this]

theorem indexOf_cc (t : Bytes) : indexOf (58 :: 58 :: t) [58, 58] = some 0 := by
  simp [indexOf, List.isPrefixOf]

/-- skipping a colon-free prefix -/
theorem indexOf_skip (hs rest : Bytes) (h : ¬ 58 ∈ hs) :
    indexOf (hs ++ rest) [58, 58] = (indexOf rest [58, 58]).map (· + hs.length) := by
  induction hs with
  | nil => cases hr : indexOf rest [58, 58] <;> simp [hr]
  | cons x xs ih =>
    have hx : x ≠ 58 := fun e => h (by simp [e])
    rw [List.cons_append, indexOf_cons_ne _ _ hx, ih fun e => h (by simp [e])]
    cases indexOf rest [58, 58] <;> simp; omega

theorem indexOf_none_noColon (hs : Bytes) (h : ¬ 58 ∈ hs) : indexOf hs [58, 58] = none := by
  have := indexOf_skip hs [] h
  simpa [indexOf] using this

/-! ### hexadecimal groups -/

theorem not_hex_58 : isHexDigit 58 = false := by decide
theorem not_hex_46 : isHexDigit 46 = false := by decide

theorem hexrun_noColon (s : Bytes) : ¬ 58 ∈ s.takeWhile isHexDigit := by
  intro h; have := mem_takeWhile h; rw [not_hex_58] at this; cases this

theorem hexrun_all (s : Bytes) : (s.takeWhile isHexDigit).all isHexDigit = true := by
  rw [List.all_eq_true]; intro x hx; exact mem_takeWhile hx

/-- a run of at most four hex digits is a group -/
theorem h16_hexrun (s : Bytes) (h0 : (s.takeWhile isHexDigit).length ≠ 0) (h4 : (s.takeWhile isHexDigit).length ≤ 4) :
    h16 (s.takeWhile isHexDigit) = true := by
  unfold h16
  simp only [Bool.and_eq_true, decide_eq_true_eq]
  exact ⟨⟨by omega, h4⟩, hexrun_all s⟩

/-- no run of five hex digits -/
theorem longHexRun_mono (s : Bytes) (n : Nat) (h : longHexRun s n = false) : n ≤ 4 := by
  induction s generalizing n with
  | nil => simp [longHexRun] at h; omega
  | cons c cs ih =>
    simp only [longHexRun] at h
    split at h
    · have := ih _ h; omega
    · simp only [Bool.or_eq_false_iff, decide_eq_false_iff_not] at h; omega

theorem longHexRun_run (s : Bytes) (n : Nat) (h : longHexRun s n = false) :
    n + (s.takeWhile isHexDigit).length ≤ 4 ∧
      longHexRun ((s.drop (s.takeWhile isHexDigit).length).drop 1) 0 = false := by
  induction s generalizing n with
  | nil => simp [longHexRun] at h ⊢; omega
  | cons c cs ih =>
    simp only [longHexRun] at h
    by_cases hc : isHexDigit c = true
    · simp only [hc, if_true] at h
      have := ih _ h
      simp only [List.takeWhile_cons, hc, if_true, List.length_cons, List.drop_succ_cons]
      exact ⟨by omega, this.2⟩
    · simp only [hc, Bool.false_eq_true, if_false, Bool.or_eq_false_iff, decide_eq_false_iff_not] at h
      simp only [List.takeWhile_cons, hc, Bool.false_eq_true, if_false, List.length_nil, List.drop_zero,
        List.drop_succ_cons, Nat.add_zero]
      exact ⟨by omega, h.2⟩

/-! ### counting 16-bit units -/

theorem units_one (g : Bytes) (v : Bool) (h : h16 g = true) : units [g] v = some 1 := by
  simp [units, h]

theorem units_cons (g p : Bytes) (ps : List Bytes) (v : Bool) (h : h16 g = true) :
    units (g :: p :: ps) v = (units (p :: ps) v).map (· + 1) := by
  simp [units, h]

theorem units_v4 (g : Bytes) (h : h16 g = false) (h4 : validIPv4 g = true) : units [g] true = some 2 := by
  simp [units, h, h4]

/-! ### `utils.IsIPv4` strings -/

theorem decOctet_digits {d : Bytes} (h : decOctet d = true) : ∀ x ∈ d, isDigit x = true := by
  unfold decOctet at h
  simp only [Bool.and_eq_true] at h
  exact List.all_eq_true.1 h.1.1.2

/-- a string accepted by `utils.IsIPv4` consists of digits and dots -/
theorem isIPv4_chars {s : Bytes} (h : isIPv4 s = true) : ∀ x ∈ s, isDigit x = true ∨ x = 46 := by
  unfold isIPv4 at h
  cases h1 : octet s with
  | none => simp [h1] at h
  | some r1 =>
    simp only [h1] at h
    cases h2 : dotOctet r1 with
    | none => simp [h2] at h
    | some r2 =>
      simp only [h2] at h
      cases h3 : dotOctet r2 with
      | none => simp [h3] at h
      | some r3 =>
        simp only [h3] at h
        cases h4 : dotOctet r3 with
        | none => simp [h4] at h
        | some r4 =>
          simp only [h4, beq_iff_eq] at h
          subst h
          obtain ⟨d1, e1, v1, _⟩ := octet_spec h1
          obtain ⟨d2, e2, v2, _⟩ := dotOctet_spec h2
          obtain ⟨d3, e3, v3, _⟩ := dotOctet_spec h3
          obtain ⟨d4, e4, v4, _⟩ := dotOctet_spec h4
          intro x hx
          rw [e1, e2, e3, e4] at hx
          simp only [List.append_nil, List.mem_append, List.mem_cons] at hx
          rcases hx with hx | hx | hx | hx | hx | hx | hx
          · exact Or.inl (decOctet_digits v1 x hx)
          · exact Or.inr hx
          · exact Or.inl (decOctet_digits v2 x hx)
          · exact Or.inr hx
          · exact Or.inl (decOctet_digits v3 x hx)
          · exact Or.inr hx
          · exact Or.inl (decOctet_digits v4 x hx)

theorem isIPv4_noColon {s : Bytes} (h : isIPv4 s = true) : ¬ 58 ∈ s := by
  intro hm
  rcases isIPv4_chars h 58 hm with h | h
  · revert h; decide
  · cases h

/-! ### what the main loop of `IsIPv6` has read when it succeeds -/

/-- `s`, read from unit offset `i` with `ell` = "an ellipsis was seen before", is either a run of
    groups without `::`, or (only if none was seen before) `l :: r` with group runs on both sides -/
inductive Shape (s : Bytes) (i : Nat) (ell : Bool) (i' : Nat) (ell' : Bool) : Prop
  | plain (k : Nat) (he : ell' = ell) (hi : indexOf s [58, 58] = none)
      (hu : units (pieces 58 s) true = some k) (hk : i' = i + 2 * k)
  | ellipsis (l r : Bytes) (a c : Nat) (he : ell = false) (he' : ell' = true) (hs : s = l ++ 58 :: 58 :: r)
      (hl : ∀ tail, indexOf (l ++ 58 :: 58 :: tail) [58, 58] = some l.length) (hne : l ≠ [])
      (hua : units (pieces 58 l) false = some a) (hr : indexOf r [58, 58] = none) (hrh : r.head? ≠ some 58)
      (huc : sideUnits r true = some c) (hk : i' = i + 2 * (a + c))

theorem ipv6Loop_shape (fuel : Nat) : ∀ (s : Bytes) (i : Nat) (ell : Bool) (i' : Nat) (ell' : Bool),
    s ≠ [] → longHexRun s 0 = false → ipv6Loop fuel s i ell = some ([], i', ell') →
    s.head? ≠ some 58 ∧ Shape s i ell i' ell' := by
  induction fuel with
  | zero =>
    intro s i ell i' ell' hne _ h
    simp only [ipv6Loop, Option.some.injEq, Prod.mk.injEq] at h
    exact absurd h.1 hne
  | succ f ih =>
    intro s i ell i' ell' hne hn h
    simp only [ipv6Loop] at h
    have hrun := longHexRun_run s 0 hn
    have hsr := takeWhile_append_drop isHexDigit s
    have hnc := hexrun_noColon s
    generalize hhs : s.takeWhile isHexDigit = hs at h hrun hsr hnc
    generalize hr : s.drop hs.length = r at h hrun hsr
    split at h
    · simp only [Option.some.injEq, Prod.mk.injEq] at h; exact absurd h.1 hne
    split at h
    · cases h
    rename_i _ hc
    simp only [Bool.or_eq_true, beq_iff_eq, decide_eq_true_eq, not_or] at hc
    have h16hs : h16 hs = true := by
      rw [← hhs]; exact h16_hexrun s (by rw [hhs]; exact hc.1) (by rw [hhs]; omega)
    have hhead : s.head? ≠ some 58 := by
      rw [← hsr]
      cases hs with
      | nil => simp at hc
      | cons x xs =>
        have : x ≠ 58 := fun e => hnc (by simp [e])
        simpa using this
    refine ⟨hhead, ?_⟩
    split at h
    · -- a dotted quad closes the address
      rename_i hdot
      split at h
      · cases h
      rename_i hv
      simp only [Bool.or_eq_true, Bool.not_eq_true', not_or, Bool.not_eq_false] at hv
      simp only [Option.some.injEq, Prod.mk.injEq, true_and] at h
      have h4 : isIPv4 s = true := hv.2
      have hmem : 46 ∈ s := by
        rw [← hsr]
        cases r with
        | nil => simp at hdot
        | cons y ys => simp at hdot; simp [hdot]
      have hnot : h16 s = false := by
        unfold h16
        have : s.all isHexDigit = false := by
          rw [List.all_eq_false]; exact ⟨46, hmem, by decide⟩
        simp [this]
      have hnc4 := isIPv4_noColon h4
      exact .plain 2 h.2.symm (indexOf_none_noColon s hnc4)
        (by rw [pieces_noSep 58 s hnc4]; exact units_v4 s hnot (isIPv4_valid h4)) (by omega)
    · cases r with
      | nil =>
        -- the last group
        simp only [Option.some.injEq, Prod.mk.injEq, true_and] at h
        have hs' : s = hs := by rw [← hsr]; simp
        have hncs : ¬ 58 ∈ s := by rw [hs']; exact hnc
        exact .plain 1 h.2.symm (indexOf_none_noColon s hncs)
          (by rw [pieces_noSep 58 s hncs, hs']; exact units_one hs true h16hs) (by omega)
      | cons c r1 =>
        simp only at h
        split at h
        · cases h
        rename_i hcc
        simp only [Bool.or_eq_true, bne_iff_ne, ne_eq, beq_iff_eq, not_or, Decidable.not_not] at hcc
        obtain ⟨hc58, hr1⟩ := hcc
        subst hc58
        have hn1 : longHexRun r1 0 = false := by simpa using hrun.2
        split at h
        · -- `::`
          rename_i r2 _
          split at h
          · cases h
          rename_i hell
          have hell : ell = false := by simpa using hell
          have hl : ∀ tail, indexOf (hs ++ 58 :: 58 :: tail) [58, 58] = some hs.length := by
            intro tail; rw [indexOf_skip hs _ hnc, indexOf_cc]; simp
          have hnil : hs ≠ [] := by intro e; simp [e] at hc
          have hua : units (pieces 58 hs) false = some 1 := by
            rw [pieces_noSep 58 hs hnc]; exact units_one hs false h16hs
          split at h
          · -- ellipsis at the end
            rename_i hr2
            have hr2 : r2 = [] := by simpa using hr2
            subst hr2
            simp only [Option.some.injEq, Prod.mk.injEq, true_and] at h
            exact .ellipsis hs [] 1 0 hell h.2.symm hsr.symm hl hnil hua (by simp [indexOf]) (by simp)
              (by simp [sideUnits]) (by omega)
          · rename_i hr2
            have hr2 : r2 ≠ [] := by simpa using hr2
            have hn2 : longHexRun r2 0 = false := by
              have := hn1; simp only [longHexRun, not_hex_58] at this; simpa using this
            obtain ⟨hh2, sh⟩ := ih r2 (i + 2) true i' ell' hr2 hn2 h
            cases sh with
            | plain k he hi hu hk =>
              exact .ellipsis hs r2 1 k hell he hsr.symm hl hnil hua hi hh2
                (by unfold sideUnits; simp [hr2, hu]) (by omega)
            | ellipsis l r a c he => cases he
        · -- a single colon, more groups follow
          rename_i hnot
          have hh1 : r1.head? ≠ some 58 := by
            cases r1 with
            | nil => simp
            | cons y ys =>
              intro e; simp at e; subst e; exact hnot ys rfl
          obtain ⟨_, sh⟩ := ih r1 (i + 2) ell i' ell' hr1 hn1 h
          have hpieces : pieces 58 s = hs :: pieces 58 r1 := by rw [← hsr]; exact pieces_sep 58 hs r1 hnc
          cases sh with
          | plain k he hi hu hk =>
            refine .plain (k + 1) he ?_ ?_ (by omega)
            · rw [← hsr, indexOf_skip hs _ hnc, indexOf_colon _ hh1, hi]; rfl
            · rw [hpieces]
              cases hp : pieces 58 r1 with
              | nil => exact absurd hp (pieces_ne_nil 58 r1)
              | cons p ps => rw [units_cons hs p ps true h16hs, ← hp, hu]; rfl
          | ellipsis l r a c he he' hs1 hl hne1 hua hri hrh huc hk =>
            have hlh : l.head? ≠ some 58 := by
              cases l with
              | nil => exact absurd rfl hne1
              | cons y ys => rw [hs1] at hh1; simpa using hh1
            refine .ellipsis (hs ++ 58 :: l) r (a + 1) c he he' (by rw [← hsr, hs1]; simp) ?_ (by simp) ?_ hri hrh huc (by omega)
            · intro tail
              rw [List.append_assoc, indexOf_skip hs _ hnc, List.cons_append, indexOf_colon _ (by
                cases l with
                | nil => exact absurd rfl hne1
                | cons y ys => simpa using hlh), hl tail]
              simp; omega
            · rw [pieces_sep 58 hs l hnc]
              cases hp : pieces 58 l with
              | nil => exact absurd hp (pieces_ne_nil 58 l)
              | cons p ps => rw [units_cons hs p ps false h16hs, ← hp, hua]; rfl


/-- the unit offset stays even and never passes 16 -/
theorem ipv6Loop_bound (fuel : Nat) : ∀ (s : Bytes) (i : Nat) (ell : Bool) (rest : Bytes) (i' : Nat) (ell' : Bool),
    i % 2 = 0 → i ≤ 16 → ipv6Loop fuel s i ell = some (rest, i', ell') → i' % 2 = 0 ∧ i' ≤ 16 := by
  induction fuel with
  | zero =>
    intro s i ell rest i' ell' h2 h16 h
    simp only [ipv6Loop, Option.some.injEq, Prod.mk.injEq] at h
    omega
  | succ f ih =>
    intro s i ell rest i' ell' h2 h16 h
    simp only [ipv6Loop] at h
    split at h
    · simp only [Option.some.injEq, Prod.mk.injEq] at h; omega
    split at h
    · cases h
    split at h
    · split at h
      · cases h
      · rename_i hv
        simp only [Bool.or_eq_true, decide_eq_true_eq, not_or] at hv
        simp only [Option.some.injEq, Prod.mk.injEq] at h
        omega
    · split at h
      · simp only [Option.some.injEq, Prod.mk.injEq] at h; omega
      · split at h
        · cases h
        split at h
        · split at h
          · cases h
          split at h
          · simp only [Option.some.injEq, Prod.mk.injEq] at h; omega
          · exact ih _ _ _ _ _ _ (by omega) (by omega) h
        · exact ih _ _ _ _ _ _ (by omega) (by omega) h

/-! ### `utils.IsIPv6` ⊆ RFC 4291 -/

/-- the tests after the loop -/
def v6Fin : Option (Bytes × Nat × Bool) → Bool
  | none => false
  | some (rest, i, ell) => rest == [] && (if i < 16 then ell else !ell)

theorem isIPv6_cc (t : Bytes) : isIPv6 (58 :: 58 :: t) = (t == [] || v6Fin (ipv6Loop 9 t 0 true)) := by
  unfold isIPv6
  cases h : (t == []) <;> simp only [h, if_true, Bool.true_or, Bool.false_or, Bool.false_eq_true, if_false]
  rcases ipv6Loop 9 t 0 true with _ | ⟨rest, i, ell⟩ <;> rfl

theorem isIPv6_plain (s : Bytes) (h : ∀ t, s ≠ 58 :: 58 :: t) : isIPv6 s = v6Fin (ipv6Loop 9 s 0 false) := by
  unfold isIPv6
  split
  rename_i heq
  split at heq
  · rename_i t; exact absurd rfl (h t)
  · cases heq
    simp only [Bool.false_eq_true, if_false]
    rcases ipv6Loop 9 s 0 false with _ | ⟨rest, i, ell⟩ <;> rfl

/-- **`utils.IsIPv6` accepts only RFC 4291 §2.2 text forms**, provided no group has more than four
    hexadecimal digits (`utils.IsIPv6` bounds a group's value, not its length) -/
theorem isIPv6_valid {s : Bytes} (h : isIPv6 s = true) (hn : longHexRun s 0 = false) :
    validIPv6 s = true := by
  by_cases hcc : ∃ t, s = 58 :: 58 :: t
  · obtain ⟨t, rfl⟩ := hcc
    rw [isIPv6_cc] at h
    by_cases ht : t = []
    · subst ht; decide
    · have ht' : (t == []) = false := by simpa using ht
      simp only [ht', Bool.false_or] at h
      have hnt : longHexRun t 0 = false := by
        simp only [longHexRun, not_hex_58] at hn; simpa using hn
      cases hl : ipv6Loop 9 t 0 true with
      | none => simp [hl, v6Fin] at h
      | some res =>
        obtain ⟨rest, i', ell'⟩ := res
        simp only [hl, v6Fin, Bool.and_eq_true, beq_iff_eq] at h
        obtain ⟨hrest, hfin⟩ := h
        subst hrest
        obtain ⟨hh, sh⟩ := ipv6Loop_shape 9 t 0 true i' ell' ht hnt hl
        cases sh with
        | plain k he hi hu hk =>
          subst he
          have hk7 : k ≤ 7 := by
            by_cases h16 : i' < 16
            · omega
            · simp [h16] at hfin
          unfold validIPv6
          simp only [indexOf_cc, List.take_zero, Nat.zero_add, List.drop_succ_cons, List.drop_zero, hi,
            Option.isNone_none, Bool.true_and]
          have : (t.head? != some 58) = true := by simpa using hh
          simp [this, sideUnits, ht, hu, hk7]
        | ellipsis l r a c he => cases he
  · have hcc' : ∀ t, s ≠ 58 :: 58 :: t := fun t e => hcc ⟨t, e⟩
    rw [isIPv6_plain s hcc'] at h
    cases hl : ipv6Loop 9 s 0 false with
    | none => simp [hl, v6Fin] at h
    | some res =>
      obtain ⟨rest, i', ell'⟩ := res
      simp only [hl, v6Fin, Bool.and_eq_true, beq_iff_eq] at h
      obtain ⟨hrest, hfin⟩ := h
      subst hrest
      have hne : s ≠ [] := by
        intro e; subst e; simp [ipv6Loop] at hl
      obtain ⟨_, hle⟩ := ipv6Loop_bound 9 s 0 false [] i' ell' rfl (by omega) hl
      obtain ⟨_, sh⟩ := ipv6Loop_shape 9 s 0 false i' ell' hne hn hl
      cases sh with
      | plain k he hi hu hk =>
        subst he
        have hk8 : k = 8 := by
          by_cases h16 : i' < 16
          · simp [h16] at hfin
          · omega
        unfold validIPv6
        simp [hi, hu, hk8]
      | ellipsis l r a c he he' hs1 hl1 hne1 hua hri hrh huc hk =>
        subst he'
        have hac : a + c ≤ 7 := by
          by_cases h16 : i' < 16
          · omega
          · simp [h16] at hfin
        unfold validIPv6
        rw [hs1, hl1 r]
        have e1 : List.take l.length (l ++ 58 :: 58 :: r) = l := by simp
        have e2 : List.drop (l.length + 2) (l ++ 58 :: 58 :: r) = r := by simp
        simp only [e1, e2]
        have : (r.head? != some 58) = true := by simpa using hrh
        have hsl : sideUnits l false = some a := by unfold sideUnits; simp [hne1, hua]
        simp [hri, this, hsl, huc, hac]

/-! ### fiber's `isIPv6` (the scan for over-long groups in front of `utils.IsIPv6`) -/

theorem shortGroups_mono (s : Bytes) (n m : Nat) (hnm : n ≤ m) (h : shortGroups s m = true) : shortGroups s n = true := by
  induction s generalizing n m with
  | nil => rfl
  | cons c cs ih =>
    simp only [shortGroups] at h ⊢
    split
    · rename_i hc; simp only [hc, if_true] at h; exact h
    · rename_i hc
      simp only [hc, Bool.false_eq_true, if_false] at h
      split at h
      · cases h
      · rename_i hm
        have : ¬ n + 1 > 4 := by omega
        simp only [this, if_false]
        exact ih _ _ (by omega) h

theorem shortGroups_noLongRun (s : Bytes) (n : Nat) (hn : n ≤ 4) (h : shortGroups s n = true) : longHexRun s n = false := by
  induction s generalizing n with
  | nil => simp [longHexRun]; omega
  | cons c cs ih =>
    simp only [shortGroups] at h
    simp only [longHexRun]
    split at h
    · rename_i hc
      have hnh : isHexDigit c = false := by
        simp only [Bool.or_eq_true, beq_iff_eq] at hc
        rcases hc with rfl | rfl <;> decide
      simp only [hnh, Bool.false_eq_true, if_false, Bool.or_eq_false_iff, decide_eq_false_iff_not]
      exact ⟨by omega, ih 0 (by omega) h⟩
    · split at h
      · cases h
      · rename_i hm
        split
        · exact ih _ (by omega) h
        · simp only [Bool.or_eq_false_iff, decide_eq_false_iff_not]
          exact ⟨by omega, ih 0 (by omega) (shortGroups_mono cs 0 (n + 1) (by omega) h)⟩

/-- **fiber's `isIPv6` accepts only RFC 4291 §2.2 text forms** -/
theorem fiberIsIPv6_valid {s : Bytes} (h : fiberIsIPv6 s = true) : validIPv6 s = true := by
  unfold fiberIsIPv6 at h
  simp only [Bool.and_eq_true] at h
  exact isIPv6_valid h.2 (shortGroups_noLongRun s 0 (by omega) h.1)

/-- whatever fiber's validators accept is a syntactically valid address -/
theorem utilsValid_valid {s : Bytes} (h : utilsValid s = true) : validIP s = true := by
  unfold utilsValid at h
  unfold validIP
  split at h
  · simp [fiberIsIPv6_valid h]
  · split at h
    · simp [isIPv4_valid h]
    · cases h

/-- `utils.IsIPv6` alone is not sound: the group's value is bounded, its length is not -/
theorem utils_isIPv6_unsound : isIPv6 (b "0:0:0:0:0:0:0:00001") = true ∧ validIPv6 (b "0:0:0:0:0:0:0:00001") = false ∧
    fiberIsIPv6 (b "0:0:0:0:0:0:0:00001") = false := by decide

end C10
