import FiberModel.Basic
/-
C10 — executable model of the proxy-trust decision and the gated accessors (after the `fix:`
commits F1–F5, see docs/C10.md): `/repo/ctx.go` `IsProxyTrusted`, `IP`, `IPs`,
`extractIPFromHeader`, `extractIPsFromHeader`, `Host`, `Hostname`, `Scheme`, `BaseURL`, `Secure`,
`Subdomains`, `Protocol`; `/repo/app.go` `handleTrustedProxy`; `/repo/helpers.go` `parseAddr`;
`gofiber/utils` `IsIPv4`, `IsIPv6` (and fiber's `isIPv6` in front of it); Go `net.IP` `To4`, `IsLoopback`, `IsPrivate`,
`IsLinkLocalUnicast`, `IPNet.Contains`, `String` (`net/netip` `appendTo4`, `appendTo6`).

Parameters (obtained from Go by the harness with every case; modelled, not verified): text parsing
of the configured `Proxies` (`net.ParseIP` / `net.ParseCIDR`; which of the two applies is decided here,
`fileProxy`), the request as fasthttp presents it (`RequestHeader.VisitAll`, `URI().Host()`, header-name normalisation).
-/
namespace C10
open B

/-! ### `net.IP` on byte slices -/

/-- `IP.To4` -/
def to4 (ip : Bytes) : Option Bytes :=
  if ip.length == 4 then some ip
  else if ip.length == 16 && (ip.take 10).all (· == 0) && ip[10]? == some 255 && ip[11]? == some 255 then
    some (ip.drop 12)
  else none

def ipv6loopback : Bytes := List.replicate 15 0 ++ [1]

/-- `IP.IsLoopback` -/
def isLoopback (ip : Bytes) : Bool :=
  match to4 ip with
  | some v4 => v4[0]? == some 127
  | none => ip == ipv6loopback

/-- `IP.IsPrivate` -/
def isPrivate (ip : Bytes) : Bool :=
  match to4 ip with
  | some v4 =>
    let a := v4[0]?.getD 0
    let c := v4[1]?.getD 0
    a == 10 || (a == 172 && c &&& 240 == 16) || (a == 192 && c == 168)
  | none => ip.length == 16 && (ip[0]?.getD 0) &&& 254 == 252

/-- `IP.IsLinkLocalUnicast` -/
def isLinkLocal (ip : Bytes) : Bool :=
  match to4 ip with
  | some v4 => v4[0]? == some 169 && v4[1]? == some 254
  | none => ip.length == 16 && ip[0]? == some 254 && (ip[1]?.getD 0) &&& 192 == 128

/-- `networkNumberAndMask` -/
def netNumMask (nip mask : Bytes) : Option (Bytes × Bytes) :=
  let ipo : Option Bytes := match to4 nip with
    | some v4 => some v4
    | none => if nip.length == 16 then some nip else none
  match ipo with
  | none => none
  | some ip =>
    if mask.length == 4 then (if ip.length == 4 then some (ip, mask) else none)
    else if mask.length == 16 then (if ip.length == 4 then some (ip, mask.drop 12) else some (ip, mask))
    else none

def maskedEq : Bytes → Bytes → Bytes → Bool
  | n :: ns, m :: ms, x :: xs => (n &&& m == x &&& m) && maskedEq ns ms xs
  | _, _, _ => true

/-- `(*IPNet).Contains` -/
def cidrContains (nip mask ip : Bytes) : Bool :=
  let ip := (to4 ip).getD ip
  match netNumMask nip mask with
  | none => false
  | some (nn, m) => ip.length == nn.length && maskedEq nn m ip

/-! ### `net.IP.String()` (`netip.Addr.appendTo4`, `appendTo6`, `appendDecimal`, `appendHex`) -/

/-- `digits[d]` of "0123456789abcdef" -/
def hexNib (d : Nat) : Nat := if d < 10 then 48 + d else 87 + d

/-- `appendDecimal(b, x uint8)` -/
def appendDecimal (x : Nat) : Bytes :=
  (if x ≥ 100 then [48 + x / 100] else []) ++ (if x ≥ 10 then [48 + x / 10 % 10] else []) ++ [48 + x % 10]

/-- `appendHex(b, x uint16)`: no leading zeros, lower case -/
def appendHex (x : Nat) : Bytes :=
  (if x ≥ 4096 then [hexNib (x / 4096)] else []) ++ (if x ≥ 256 then [hexNib (x / 256 % 16)] else []) ++
  (if x ≥ 16 then [hexNib (x / 16 % 16)] else []) ++ [hexNib (x % 16)]

/-- `appendTo4` -/
def string4 : Bytes → Bytes
  | [a, c, d, e] => appendDecimal a ++ 46 :: (appendDecimal c ++ 46 :: (appendDecimal d ++ 46 :: appendDecimal e))
  | _ => []

/-- `ip.v6u16(0..7)` -/
def groups16 : Bytes → List Nat
  | a :: c :: rest => (a * 256 + c) :: groups16 rest
  | _ => []

/-- the inner loop of `appendTo6`: the first `j ≥ i` whose group is not zero (or the end) -/
def zeroRunEnd (g : List Nat) (i : Nat) : Nat := i + ((g.drop i).takeWhile (· == 0)).length

/-- one pass of the outer loop: a run of at least two zero groups, longer than the best so far
    (`zeroEnd-zeroStart` is 0 for the initial 255, 255) -/
def zeroRunStep (g : List Nat) (best : Nat × Nat) (i : Nat) : Nat × Nat :=
  let j := zeroRunEnd g i
  if j - i ≥ 2 && j - i > best.2 - best.1 then (i, j) else best

/-- `zeroStart, zeroEnd` after the first loop of `appendTo6` -/
def bestZeroRun (g : List Nat) : Nat × Nat := (List.range 8).foldl (zeroRunStep g) (255, 255)

/-- the second loop of `appendTo6` from index `i` -/
def emit6 (g : List Nat) (zs ze : Nat) : Nat → Nat → Bytes
  | 0, _ => []
  | fuel + 1, i =>
    if i ≥ 8 then []
    else if i == zs then
      58 :: 58 :: (if ze ≥ 8 then [] else appendHex (g.getD ze 0) ++ emit6 g zs ze fuel (ze + 1))
    else (if i > 0 then [58] else []) ++ appendHex (g.getD i 0) ++ emit6 g zs ze fuel (i + 1)

/-- `appendTo6` without zone -/
def string6 (ip : Bytes) : Bytes :=
  let g := groups16 ip
  emit6 g (bestZeroRun g).1 (bestZeroRun g).2 9 0

/-- `net.IP.String()` of a 4- or 16-byte address: dotted quad when `To4` succeeds, else RFC 5952 -/
def ipString (ip : Bytes) : Bytes :=
  match to4 ip with
  | some v4 => string4 v4
  | none => string6 ip

/-! ### configuration and connection -/

/-- one entry of `TrustProxyConfig.Proxies` as `handleTrustedProxy` files it -/
inductive Proxy where
  | ip (canon : Bytes) (ip16 : Bytes)       -- `net.ParseIP` succeeded: `String()` and `To16()` of the result
  | cidr (nip mask : Bytes)                 -- `net.ParseCIDR` succeeded: `IPNet.IP`, `IPNet.Mask`
  | bad                                     -- logged and ignored
  deriving Repr, DecidableEq

/-- `handleTrustedProxy(ipAddress)`: an entry containing `/` is a range (`net.ParseCIDR`), any other an
    address (`net.ParseIP`, filed under its canonical text `ip.String()`); what does not parse is
    logged and dropped. `parsedIP` = `net.ParseIP(raw).To16()`, `parsedCIDR` = `IPNet.IP, IPNet.Mask`
    of `net.ParseCIDR(raw)` (both obtained from Go for every entry, whatever it contains). -/
def fileProxy (raw : Bytes) (parsedIP : Option Bytes) (parsedCIDR : Option (Bytes × Bytes)) : Proxy :=
  if raw.contains 47 then
    match parsedCIDR with
    | some (n, m) => .cidr n m
    | none => .bad
  else
    match parsedIP with
    | some ip16 => .ip (ipString ip16) ip16
    | none => .bad

structure Cfg where
  trustProxy : Bool
  loopback : Bool
  priv : Bool
  linkLocal : Bool
  proxies : List Proxy
  proxyHeader : Bytes         -- `Config.ProxyHeader`
  normProxyHeader : Bytes     -- the same as fasthttp normalises it for the lookup
  validate : Bool             -- `EnableIPValidation`
  deriving Repr

structure Conn where
  rip : Bytes                 -- `RemoteIP()` (4 or 16 bytes)
  ripStr : Bytes              -- `RemoteIP().String()`
  tls : Bool                  -- `fasthttp.RequestCtx.IsTLS()`
  uriHost : Bytes             -- `Request.URI().Host()` (from the Host header)
  proto : Bytes               -- `Request.Header.Protocol()`
  deriving Repr

abbrev Headers := List (Bytes × Bytes)

/-- `c.Get(key)`: value of the first header with that (normalised) name, or "" -/
def get (hs : Headers) (k : Bytes) : Bytes :=
  match hs.find? (·.1 == k) with
  | some p => p.2
  | none => []

/-! ### `IsProxyTrusted` -/

/-- the `ips` map built by `handleTrustedProxy` (keys) -/
def ipKeys (ps : List Proxy) : List Bytes :=
  ps.filterMap fun | .ip canon _ => some canon | _ => none

def ranges (ps : List Proxy) : List (Bytes × Bytes) :=
  ps.filterMap fun | .cidr n m => some (n, m) | _ => none

def isProxyTrusted (cfg : Cfg) (cn : Conn) : Bool :=
  !cfg.trustProxy ||
  ((cfg.loopback && isLoopback cn.rip) || (cfg.priv && isPrivate cn.rip) || (cfg.linkLocal && isLinkLocal cn.rip)) ||
  (ipKeys cfg.proxies).contains cn.ripStr ||
  (ranges cfg.proxies).any fun (n, m) => cidrContains n m cn.rip

/-! ### `utils.IsIPv4`, `utils.IsIPv6` -/

def digitsVal (s : Bytes) : Nat := s.foldl (fun a c => a * 10 + (c - 48)) 0

/-- one pass of the `for i` loop body of `IsIPv4` after the dot: the rest after the octet -/
def octet (s : Bytes) : Option Bytes :=
  let ds := s.takeWhile isDigit
  if ds.length == 0 || (ds.length > 1 && ds.head? == some 48) || digitsVal ds > 255 then none
  else some (s.drop ds.length)

def dotOctet : Bytes → Option Bytes
  | 46 :: t => octet t
  | _ => none

def isIPv4 (s : Bytes) : Bool :=
  match octet s with
  | none => false
  | some r1 => match dotOctet r1 with
    | none => false
    | some r2 => match dotOctet r2 with
      | none => false
      | some r3 => match dotOctet r3 with
        | none => false
        | some r4 => r4 == []

def isHexDigit (c : Nat) : Bool := isDigit c || (97 ≤ c && c ≤ 102) || (65 ≤ c && c ≤ 70)
def hexDigitVal (c : Nat) : Nat := if isDigit c then c - 48 else if 97 ≤ c then c - 87 else c - 55
def hexVal (s : Bytes) : Nat := s.foldl (fun a c => a * 16 + hexDigitVal c) 0

/-- state after the main loop of `IsIPv6`: (rest, i, ellipsis seen); `none` = `return false` -/
def ipv6Loop : Nat → Bytes → Nat → Bool → Option (Bytes × Nat × Bool)
  | 0, s, i, ell => some (s, i, ell)
  | fuel + 1, s, i, ell =>
    if i ≥ 16 then some (s, i, ell) else
    let hs := s.takeWhile isHexDigit
    -- `n > 0xFFFF` is checked after every digit; n never decreases, so the last check decides
    if hs.length == 0 || hexVal hs > 65535 then none else
    let r := s.drop hs.length
    if r.head? == some 46 then
      if (!ell && i != 12) || i + 4 > 16 || !isIPv4 s then none
      else some ([], i + 4, ell)
    else
      let i := i + 2
      match r with
      | [] => some ([], i, ell)
      | c :: r1 =>
        if c != 58 || r1 == [] then none
        else match r1 with
          | 58 :: r2 =>
            if ell then none
            else if r2 == [] then some ([], i, true)
            else ipv6Loop fuel r2 i true
          | _ => ipv6Loop fuel r1 i ell

def isIPv6 (s : Bytes) : Bool :=
  let (s, ell, done) : Bytes × Bool × Bool := match s with
    | 58 :: 58 :: t => (t, true, t == [])
    | _ => (s, false, false)
  if done then true else
  match ipv6Loop 9 s 0 ell with
  | none => false
  | some (rest, i, ell) => rest == [] && (if i < 16 then ell else !ell)

/-- the scan in front of `utils.IsIPv6` in fiber's own `isIPv6` (ctx.go, fix F5): `digits` counts the
    bytes since the last `:` or `.`; `false` = a group of more than four -/
def shortGroups : Bytes → Nat → Bool
  | [], _ => true
  | c :: cs, digits =>
    if c == 58 || c == 46 then shortGroups cs 0
    else if digits + 1 > 4 then false else shortGroups cs (digits + 1)

/-- `isIPv6` of ctx.go: no group of more than four digits, then `utils.IsIPv6` -/
def fiberIsIPv6 (s : Bytes) : Bool := shortGroups s 0 && isIPv6 s

/-! ### `extractIPFromHeader`, `extractIPsFromHeader` -/

/-- the validation test applied to one candidate `s` taken from the segment `seg` (`v4`/`v6` are set
    by the bytes after the segment's first one) -/
def passes (validate : Bool) (segTail s : Bytes) : Bool :=
  let v6 := segTail.contains 58
  let v4 := segTail.contains 46
  !validate || !((!v6 && !v4) || (v6 && !fiberIsIPv6 s) || (v4 && !v6 && !isIPv4 s))

/-- `extractIPFromHeader`'s loop over the remaining header value (`rest = headerValue[j+1:]`);
    `none` = fell out of the loop -/
def firstIP : Nat → Bytes → Option Bytes
  | 0, _ => none
  | _, [] => none
  | fuel + 1, c0 :: tl =>
    let segTail := tl.takeWhile (· != 44)
    let after := tl.drop segTail.length
    let s := trimRight ((c0 :: segTail).dropWhile (fun c => c == 32 || c == 44)) 32
    if passes true segTail s then some s else firstIP fuel (after.drop 1)

/-- `extractIPsFromHeader`'s loop -/
def allIPs (validate : Bool) : Nat → Bytes → List Bytes
  | 0, _ => []
  | _, [] => []
  | fuel + 1, c0 :: tl =>
    let segTail := tl.takeWhile (· != 44)
    let after := tl.drop segTail.length
    let s := trimRight ((c0 :: segTail).dropWhile (fun c => c == 32 || c == 44)) 32
    if passes validate segTail s then s :: allIPs validate fuel (after.drop 1)
    else allIPs validate fuel (after.drop 1)

def extractIPFromHeader (cfg : Cfg) (cn : Conn) (hs : Headers) : Bytes :=
  if cfg.validate then
    let hv := get hs cfg.normProxyHeader
    match firstIP (hv.length + 1) hv with
    | some s => s
    | none => cn.ripStr
  else get hs cfg.normProxyHeader

/-- `IP()` -/
def ip (cfg : Cfg) (cn : Conn) (hs : Headers) : Bytes :=
  if isProxyTrusted cfg cn && cfg.proxyHeader != [] then extractIPFromHeader cfg cn hs else cn.ripStr

def sXFF : Bytes := b "X-Forwarded-For"
def sXFH : Bytes := b "X-Forwarded-Host"
def sXFProto : Bytes := b "X-Forwarded-Proto"
def sXFProtocol : Bytes := b "X-Forwarded-Protocol"
def sXFSsl : Bytes := b "X-Forwarded-Ssl"
def sXUrlScheme : Bytes := b "X-Url-Scheme"
def sHTTP : Bytes := b "http"
def sHTTPS : Bytes := b "https"

/-- `IPs()` (not gated by the trust decision) -/
def ips (cfg : Cfg) (hs : Headers) : List Bytes :=
  let hv := get hs sXFF
  allIPs cfg.validate (hv.length + 1) hv

/-! ### `Host`, `Hostname`, `Scheme`, `BaseURL`, `Secure`, `Subdomains` -/

def upToComma (v : Bytes) : Bytes := v.takeWhile (· != 44)

def host (cfg : Cfg) (cn : Conn) (hs : Headers) : Bytes :=
  if isProxyTrusted cfg cn && get hs sXFH != [] then upToComma (get hs sXFH) else cn.uriHost

/-- `strings.LastIndex(raw, ":")`-based `parseAddr`, host part -/
def hostOnly (raw : Bytes) : Bytes :=
  if raw.contains 58 then ((raw.reverse.dropWhile (· != 58)).drop 1).reverse else raw

def hostname (cfg : Cfg) (cn : Conn) (hs : Headers) : Bytes := hostOnly (host cfg cn hs)

/-- body of the `VisitAll` callback in `Scheme` -/
def schemeStep (scheme : Bytes) (kv : Bytes × Bytes) : Bytes :=
  if kv.1.length < 12 then scheme
  else if hasPrefix kv.1 (b "X-Forwarded-") then
    if kv.1 == sXFProto || kv.1 == sXFProtocol then upToComma kv.2
    else if kv.1 == sXFSsl && kv.2 == b "on" then sHTTPS
    else scheme
  else if kv.1 == sXUrlScheme then kv.2
  else scheme

def scheme (cfg : Cfg) (cn : Conn) (hs : Headers) : Bytes :=
  if cn.tls then sHTTPS
  else if !isProxyTrusted cfg cn then sHTTP
  else hs.foldl schemeStep sHTTP

def baseURL (cfg : Cfg) (cn : Conn) (hs : Headers) : Bytes := scheme cfg cn hs ++ b "://" ++ host cfg cn hs

def secure (cfg : Cfg) (cn : Conn) (hs : Headers) : Bool := scheme cfg cn hs == sHTTPS

/-- `Subdomains(offset)` for `offset ≥ 0` -/
def subdomains (cfg : Cfg) (cn : Conn) (hs : Headers) (offset : Nat) : List Bytes :=
  let parts := splitOn (host cfg cn hs) 46
  if parts.length < offset then parts else parts.take (parts.length - offset)

/-- everything the harness observes for one request -/
structure Out where
  trusted : Bool
  ip : Bytes
  ips : List Bytes
  host : Bytes
  hostname : Bytes
  scheme : Bytes
  baseURL : Bytes
  secure : Bool
  sub : List Bytes
  subo : List Bytes
  proto : Bytes
  deriving Repr, DecidableEq

def outputs (cfg : Cfg) (cn : Conn) (off : Nat) (hs : Headers) : Out :=
  { trusted := isProxyTrusted cfg cn, ip := ip cfg cn hs, ips := ips cfg hs, host := host cfg cn hs,
    hostname := hostname cfg cn hs, scheme := scheme cfg cn hs, baseURL := baseURL cfg cn hs,
    secure := secure cfg cn hs, sub := subdomains cfg cn hs 2, subo := subdomains cfg cn hs off, proto := cn.proto }

/-- a history on one app: every request (its own connection, its own headers) is answered by
    `outputs` of that request alone — fiber keeps nothing between requests that the accessors read
    (the harness serves histories of related peers through one app and compares each judged request) -/
def serveAll (cfg : Cfg) (off : Nat) (reqs : List (Conn × Headers)) : List Out :=
  reqs.map fun r => outputs cfg r.1 off r.2

end C10
