import FiberModel.C10.V6Lemmas
/-
C10 — the converse of `isIPv4_valid` / `fiberIsIPv6_valid`: fiber's validators accept every string of
the RFC 791 / RFC 4291 §2.2 text grammar, hence `utilsValid = validIP` ("the first valid address" of
the documentation is the first element of the grammar).
-/
namespace C10
open B

/-! ### `pieces` inverted -/

theorem pieces_single {c : Nat} {s p : Bytes} (h : pieces c s = [p]) : s = p ∧ ¬ c ∈ p := by
  induction s generalizing p with
  | nil => simp [pieces] at h; subst h; simp
  | cons x xs ih =>
    simp only [pieces] at h
    split at h
    · have := pieces_ne_nil c xs; simp at h; exact absurd h.2 this
    · rename_i hx
      have hx : x ≠ c := by simpa using hx
      cases hp : pieces c xs with
      | nil => exact absurd hp (pieces_ne_nil c xs)
      | cons q qs =>
        rw [hp] at h
        simp only [List.cons.injEq] at h
        obtain ⟨rfl, rfl⟩ := h
        obtain ⟨rfl, hn⟩ := ih hp
        exact ⟨rfl, by simp [hn, Ne.symm hx]⟩

theorem pieces_cons2 {c : Nat} {s p q : Bytes} {ps : List Bytes} (h : pieces c s = p :: q :: ps) :
    ∃ s', s = p ++ c :: s' ∧ pieces c s' = q :: ps ∧ ¬ c ∈ p := by
  induction s generalizing p with
  | nil => simp [pieces] at h
  | cons x xs ih =>
    simp only [pieces] at h
    split at h
    · rename_i hx
      have hx : x = c := by simpa using hx
      simp only [List.cons.injEq] at h
      obtain ⟨rfl, h2⟩ := h
      exact ⟨xs, by simp [hx], h2, by simp⟩
    · rename_i hx
      have hx : x ≠ c := by simpa using hx
      cases hp : pieces c xs with
      | nil => exact absurd hp (pieces_ne_nil c xs)
      | cons r rs =>
        rw [hp] at h
        simp only [List.cons.injEq] at h
        obtain ⟨rfl, rfl⟩ := h
        obtain ⟨s', rfl, h2, hn⟩ := ih hp
        exact ⟨s', by simp, h2, by simp [hn, Ne.symm hx]⟩

theorem pieces_head_ne {c : Nat} {s p : Bytes} {ps : List Bytes} (h : pieces c s = p :: ps) (hp : p ≠ []) :
    s ≠ [] ∧ s.head? ≠ some c := by
  cases s with
  | nil => simp [pieces] at h; exact absurd h.1 hp
  | cons x xs =>
    refine ⟨by simp, ?_⟩
    simp only [pieces] at h
    split at h
    · simp at h; exact absurd h.1 hp
    · rename_i hx; simpa using hx

/-! ### `utils.IsIPv4` accepts every RFC 791 dotted quad -/

theorem takeWhile_append_stop {p : Nat → Bool} (g rest : Bytes) (hg : g.all p = true)
    (hr : ∀ x, rest.head? = some x → p x = false) : (g ++ rest).takeWhile p = g := by
  induction g with
  | nil =>
    cases rest with
    | nil => rfl
    | cons y ys => simp [hr y rfl]
  | cons x xs ih =>
    simp only [List.all_cons, Bool.and_eq_true] at hg
    simp [hg.1, ih hg.2]

theorem octet_complete (a rest : Bytes) (ha : decOctet a = true) (hr : ∀ x, rest.head? = some x → isDigit x = false) :
    octet (a ++ rest) = some rest := by
  unfold decOctet at ha
  simp only [Bool.and_eq_true, decide_eq_true_eq, Bool.or_eq_true, beq_iff_eq, bne_iff_ne, ne_eq] at ha
  obtain ⟨⟨⟨⟨h1, h3⟩, hall⟩, hz⟩, hv⟩ := ha
  unfold octet
  simp only [takeWhile_append_stop a rest hall hr]
  have hc : (a.length == 0 || decide (a.length > 1) && a.head? == some 48 || decide (digitsVal a > 255)) = false := by
    have e1 : (a.length == 0) = false := by
      cases a with
      | nil => simp at h1
      | cons => simp
    have e3 : decide (digitsVal a > 255) = false := by simp; omega
    have e2 : (decide (a.length > 1) && a.head? == some 48) = false := by
      rcases hz with hz | hz
      · simp; intro h; omega
      · have : (a.head? == some 48) = false := by simpa using hz
        simp [this]
    simp [e1, e2, e3]
  simp [hc]

theorem not_digit_46 : isDigit 46 = false := by decide

theorem isIPv4_complete {s : Bytes} (h : validIPv4 s = true) : isIPv4 s = true := by
  unfold validIPv4 at h
  split at h
  · rename_i a c d e hp
    simp only [Bool.and_eq_true] at h
    obtain ⟨⟨⟨ha, hc⟩, hd⟩, he⟩ := h
    obtain ⟨s1, rfl, hp1, _⟩ := pieces_cons2 hp
    obtain ⟨s2, rfl, hp2, _⟩ := pieces_cons2 hp1
    obtain ⟨s3, rfl, hp3, _⟩ := pieces_cons2 hp2
    obtain ⟨rfl, _⟩ := pieces_single hp3
    have hdot : ∀ (t : Bytes) x, (46 :: t).head? = some x → isDigit x = false := by
      intro t x hx; simp at hx; subst hx; exact not_digit_46
    have hnil : ∀ x, ([] : Bytes).head? = some x → isDigit x = false := by intro x hx; simp at hx
    unfold isIPv4
    rw [octet_complete a _ ha (hdot _)]
    simp only [dotOctet]
    rw [octet_complete c _ hc (hdot _)]
    simp only [dotOctet]
    rw [octet_complete d _ hd (hdot _)]
    simp only [dotOctet]
    have := octet_complete s3 [] he hnil
    rw [List.append_nil] at this
    rw [this]
    simp
  · cases h

theorem isIPv4_eq_valid (s : Bytes) : isIPv4 s = validIPv4 s := by
  rw [Bool.eq_iff_iff]; exact ⟨isIPv4_valid, isIPv4_complete⟩

/-! ### the value of a group of at most four hex digits fits 16 bits -/

theorem hexDigitVal_le {c : Nat} (h : isHexDigit c = true) : hexDigitVal c ≤ 15 := by
  unfold isHexDigit isDigit at h
  unfold hexDigitVal isDigit
  simp only [Bool.or_eq_true, Bool.and_eq_true, decide_eq_true_eq] at h
  split
  · rename_i hd; simp only [Bool.and_eq_true, decide_eq_true_eq] at hd; omega
  · rename_i hd
    simp only [Bool.and_eq_true, decide_eq_true_eq, not_and, Nat.not_le] at hd
    split <;> omega

theorem hexFold_lt (s : Bytes) (a : Nat) (h : s.all isHexDigit = true) :
    s.foldl (fun a c => a * 16 + hexDigitVal c) a < (a + 1) * 16 ^ s.length := by
  induction s generalizing a with
  | nil => simp
  | cons c cs ih =>
    simp only [List.all_cons, Bool.and_eq_true] at h
    simp only [List.foldl_cons, List.length_cons]
    have h1 := ih (a * 16 + hexDigitVal c) h.2
    have h2 := hexDigitVal_le h.1
    have h3 : (a * 16 + hexDigitVal c + 1) * 16 ^ cs.length ≤ (a + 1) * 16 * 16 ^ cs.length :=
      Nat.mul_le_mul_right _ (by omega)
    rw [Nat.pow_succ, Nat.mul_comm (16 ^ cs.length) 16, ← Nat.mul_assoc]
    omega

theorem h16_hexVal {g : Bytes} (h : h16 g = true) : hexVal g ≤ 65535 := by
  unfold h16 at h
  simp only [Bool.and_eq_true, decide_eq_true_eq] at h
  have := hexFold_lt g 0 h.2
  have hp : 16 ^ g.length ≤ 16 ^ 4 := Nat.pow_le_pow_right (by decide) h.1.2
  have : (16 : Nat) ^ 4 = 65536 := by decide
  unfold hexVal
  omega

theorem h16_all {g : Bytes} (h : h16 g = true) : g.all isHexDigit = true := by
  unfold h16 at h; simp only [Bool.and_eq_true] at h; exact h.2

theorem h16_ne {g : Bytes} (h : h16 g = true) : g.length ≠ 0 := by
  unfold h16 at h; simp only [Bool.and_eq_true, decide_eq_true_eq] at h; omega

/-- one pass of the loop over a group that is followed by `rest` (nothing, or a non-hex byte) -/
theorem hexrun_of_group (g rest : Bytes) (h : h16 g = true) (hr : ∀ x, rest.head? = some x → isHexDigit x = false) :
    (g ++ rest).takeWhile isHexDigit = g := takeWhile_append_stop g rest (h16_all h) hr

/-! ### single passes of the loop -/

theorem loop_step_last (fuel : Nat) (g : Bytes) (i : Nat) (ell : Bool) (hg : h16 g = true) (hi : i < 16) :
    ipv6Loop (fuel + 1) g i ell = some ([], i + 2, ell) := by
  have htw : g.takeWhile isHexDigit = g := by
    have := hexrun_of_group g [] hg (by intro x hx; simp at hx)
    simpa using this
  have hv := h16_hexVal hg
  have hl := h16_ne hg
  simp only [ipv6Loop, htw]
  have : ¬ i ≥ 16 := by omega
  simp [this, hl, Nat.not_lt.2 hv]

theorem loop_step_colon (fuel : Nat) (g s' : Bytes) (i : Nat) (ell : Bool) (hg : h16 g = true) (hi : i < 16)
    (hs' : s' ≠ []) (hh : s'.head? ≠ some 58) :
    ipv6Loop (fuel + 1) (g ++ 58 :: s') i ell = ipv6Loop fuel s' (i + 2) ell := by
  have htw : (g ++ 58 :: s').takeWhile isHexDigit = g :=
    hexrun_of_group g _ hg (by intro x hx; simp at hx; subst hx; exact not_hex_58)
  have hv := h16_hexVal hg
  have hl := h16_ne hg
  simp only [ipv6Loop, htw]
  have : ¬ i ≥ 16 := by omega
  simp only [this, if_false, List.drop_left']
  have hc : (g.length == 0 || decide (hexVal g > 65535)) = false := by simp [hl, Nat.not_lt.2 hv]
  simp only [hc, Bool.false_eq_true, if_false, List.head?_cons]
  have : ((some 58 : Option Nat) == some 46) = false := by decide
  simp only [this, Bool.false_eq_true, if_false]
  have h2 : ((58 : Nat) != 58 || s' == []) = false := by simp [hs']
  simp only [h2, Bool.false_eq_true, if_false]
  cases s' with
  | nil => exact absurd rfl hs'
  | cons y ys =>
    have hy : y ≠ 58 := by simpa using hh
    split
    · rename_i r2 heq; simp at heq; exact absurd heq.1 hy
    · rfl

theorem loop_step_ell (fuel : Nat) (g r : Bytes) (i : Nat) (hg : h16 g = true) (hi : i < 16) :
    ipv6Loop (fuel + 1) (g ++ 58 :: 58 :: r) i false =
      if r == [] then some ([], i + 2, true) else ipv6Loop fuel r (i + 2) true := by
  have htw : (g ++ 58 :: 58 :: r).takeWhile isHexDigit = g :=
    hexrun_of_group g _ hg (by intro x hx; simp at hx; subst hx; exact not_hex_58)
  have hv := h16_hexVal hg
  have hl := h16_ne hg
  simp only [ipv6Loop, htw]
  have : ¬ i ≥ 16 := by omega
  simp only [this, if_false, List.drop_left']
  have hc : (g.length == 0 || decide (hexVal g > 65535)) = false := by simp [hl, Nat.not_lt.2 hv]
  simp only [hc, Bool.false_eq_true, if_false, List.head?_cons]
  have : ((some 58 : Option Nat) == some 46) = false := by decide
  simp only [this, Bool.false_eq_true, if_false]
  have h2 : ((58 : Nat) != 58 || (58 :: r) == []) = false := by simp
  simp only [h2, Bool.false_eq_true, if_false]

/-- the first octet of a dotted quad, as the hex scan sees it -/
theorem v4_hexrun {g : Bytes} (h : validIPv4 g = true) :
    ∃ a rest, g = a ++ 46 :: rest ∧ g.takeWhile isHexDigit = a ∧ a.length ≠ 0 ∧ hexVal a ≤ 65535 := by
  unfold validIPv4 at h
  split at h
  · rename_i a c d e hp
    simp only [Bool.and_eq_true] at h
    obtain ⟨s1, rfl, _, _⟩ := pieces_cons2 hp
    have ha := h.1.1.1
    have hdig := decOctet_digits ha
    have hall : a.all isHexDigit = true := by
      rw [List.all_eq_true]; intro x hx
      have := hdig x hx
      unfold isHexDigit; simp [this]
    unfold decOctet at ha
    simp only [Bool.and_eq_true, decide_eq_true_eq] at ha
    have h16a : h16 a = true := by
      unfold h16; simp only [Bool.and_eq_true, decide_eq_true_eq]; exact ⟨⟨ha.1.1.1.1, by omega⟩, hall⟩
    exact ⟨a, s1, rfl, takeWhile_append_stop a _ hall (by intro x hx; simp at hx; subst hx; exact not_hex_46),
      h16_ne h16a, h16_hexVal h16a⟩
  · cases h

theorem loop_step_v4 (fuel : Nat) (g : Bytes) (i : Nat) (ell : Bool) (hv : validIPv4 g = true)
    (hpos : ell = true ∨ i = 12) (hi : i + 4 ≤ 16) :
    ipv6Loop (fuel + 1) g i ell = some ([], i + 4, ell) := by
  obtain ⟨a, rest, hg, htw, hl, hval⟩ := v4_hexrun hv
  have h4 := isIPv4_complete hv
  simp only [ipv6Loop, htw]
  have : ¬ i ≥ 16 := by omega
  simp only [this, if_false]
  have hc : (a.length == 0 || decide (hexVal a > 65535)) = false := by simp [hl, Nat.not_lt.2 hval]
  simp only [hc, Bool.false_eq_true, if_false]
  have hd : ((List.drop a.length g).head? == some 46) = true := by rw [hg]; simp
  simp only [hd, if_true, h4, Bool.not_true, Bool.or_false]
  have hcond : (!ell && i != 12 || decide (i + 4 > 16)) = false := by
    rcases hpos with h | h
    · simp [h]; omega
    · simp [h]
  simp [hcond]

/-! ### runs of groups -/

theorem units_head_ne {p : Bytes} {ps : List Bytes} {v : Bool} {k : Nat} (h : units (p :: ps) v = some k) : p ≠ [] := by
  intro e; subst e
  cases ps with
  | nil => simp [units, h16, validIPv4, pieces] at h
  | cons q qs => simp [units, h16] at h

theorem units_cons_inv {g p : Bytes} {ps : List Bytes} {v : Bool} {k : Nat} (h : units (g :: p :: ps) v = some k) :
    h16 g = true ∧ ∃ k', units (p :: ps) v = some k' ∧ k = k' + 1 := by
  simp only [units] at h
  split at h
  · rename_i hg
    cases hu : units (p :: ps) v with
    | none => simp [hu] at h
    | some k' => simp [hu] at h; exact ⟨hg, k', rfl, h.symm⟩
  · cases h

/-- a run of groups without `::` (the last one may be a dotted quad): the loop reads all of it -/
theorem loop_run (gs : List Bytes) : ∀ (s : Bytes) (i : Nat) (ell : Bool) (fuel k : Nat),
    pieces 58 s = gs → units gs true = some k → k ≤ fuel → i + 2 * k ≤ 16 → (ell = true ∨ i + 2 * k = 16) →
    ipv6Loop fuel s i ell = some ([], i + 2 * k, ell) := by
  induction gs with
  | nil => intro s _ _ _ _ hp; exact absurd hp (pieces_ne_nil 58 s)
  | cons g rest ih =>
    intro s i ell fuel k hp hu hf hi hpos
    cases rest with
    | nil =>
      obtain ⟨rfl, _⟩ := pieces_single hp
      simp only [units] at hu
      split at hu
      · rename_i hg
        cases hu
        obtain ⟨f, rfl⟩ : ∃ f, fuel = f + 1 := ⟨fuel - 1, by omega⟩
        exact loop_step_last f s i ell hg (by omega)
      · split at hu
        · rename_i hv
          simp only [Bool.true_and] at hv
          cases hu
          obtain ⟨f, rfl⟩ : ∃ f, fuel = f + 1 := ⟨fuel - 1, by omega⟩
          have := loop_step_v4 f s i ell hv (hpos.imp id (fun h => by omega)) (by omega)
          rw [this]
        · cases hu
    | cons p ps =>
      obtain ⟨s', rfl, hp', _⟩ := pieces_cons2 hp
      obtain ⟨hg, k', hu', rfl⟩ := units_cons_inv hu
      obtain ⟨hne, hh⟩ := pieces_head_ne hp' (units_head_ne hu')
      obtain ⟨f, rfl⟩ : ∃ f, fuel = f + 1 := ⟨fuel - 1, by omega⟩
      rw [loop_step_colon f g s' i ell hg (by omega) hne hh]
      have := ih s' (i + 2) ell f k' hp' hu' (by omega) (by omega) (hpos.imp id (fun h => by omega))
      rw [this]
      congr 3
      omega

/-- the groups in front of a `::` (no dotted quad there), then the `::` -/
theorem loop_left (gs : List Bytes) : ∀ (l r : Bytes) (i fuel a : Nat),
    pieces 58 l = gs → units gs false = some a → a ≤ fuel → i + 2 * a ≤ 16 →
    ipv6Loop fuel (l ++ 58 :: 58 :: r) i false =
      if r == [] then some ([], i + 2 * a, true) else ipv6Loop (fuel - a) r (i + 2 * a) true := by
  induction gs with
  | nil => intro l _ _ _ _ hp; exact absurd hp (pieces_ne_nil 58 l)
  | cons g rest ih =>
    intro l r i fuel a hp hu hf hi
    cases rest with
    | nil =>
      obtain ⟨rfl, _⟩ := pieces_single hp
      simp only [units] at hu
      split at hu
      · rename_i hg
        cases hu
        obtain ⟨f, rfl⟩ : ∃ f, fuel = f + 1 := ⟨fuel - 1, by omega⟩
        rw [loop_step_ell f l r i hg (by omega)]
        simp
      · simp at hu
    | cons p ps =>
      obtain ⟨l', rfl, hp', _⟩ := pieces_cons2 hp
      obtain ⟨hg, k', hu', rfl⟩ := units_cons_inv hu
      obtain ⟨hne, hh⟩ := pieces_head_ne hp' (units_head_ne hu')
      obtain ⟨f, rfl⟩ : ∃ f, fuel = f + 1 := ⟨fuel - 1, by omega⟩
      have hne' : l' ++ 58 :: 58 :: r ≠ [] := by simp
      have hh' : (l' ++ 58 :: 58 :: r).head? ≠ some 58 := by
        cases l' with
        | nil => exact absurd rfl hne
        | cons y ys => simpa using hh
      rw [List.append_assoc, List.cons_append, loop_step_colon f g _ i false hg (by omega) hne' hh']
      rw [ih l' r (i + 2) f k' hp' hu' (by omega) (by omega)]
      have e1 : i + 2 + 2 * k' = i + 2 * (k' + 1) := by omega
      have e2 : f - k' = f + 1 - (k' + 1) := by omega
      rw [e1, e2]

/-! ### the group-length scan accepts the grammar -/

theorem shortGroups_sep (l rest : Bytes) (c n : Nat) (hc : c = 58 ∨ c = 46) :
    shortGroups (l ++ c :: rest) n = (shortGroups l n && shortGroups rest 0) := by
  induction l generalizing n with
  | nil =>
    have : (c == 58 || c == 46) = true := by rcases hc with rfl | rfl <;> decide
    simp [shortGroups, this]
  | cons x xs ih =>
    simp only [List.cons_append, shortGroups]
    split
    · exact ih 0
    · split
      · simp
      · exact ih (n + 1)

theorem shortGroups_plain (g : Bytes) (n : Nat) (h : n + g.length ≤ 4) : shortGroups g n = true := by
  induction g generalizing n with
  | nil => rfl
  | cons x xs ih =>
    simp only [shortGroups]
    simp only [List.length_cons] at h
    split
    · exact ih 0 (by omega)
    · have : ¬ n + 1 > 4 := by omega
      simp only [this, if_false]
      exact ih (n + 1) (by omega)

theorem decOctet_len {a : Bytes} (h : decOctet a = true) : a.length ≤ 3 := by
  unfold decOctet at h; simp only [Bool.and_eq_true, decide_eq_true_eq] at h; exact h.1.1.1.2

theorem shortGroups_v4 {g : Bytes} (h : validIPv4 g = true) : shortGroups g 0 = true := by
  unfold validIPv4 at h
  split at h
  · rename_i a c d e hp
    simp only [Bool.and_eq_true] at h
    obtain ⟨⟨⟨ha, hc⟩, hd⟩, he⟩ := h
    obtain ⟨s1, rfl, hp1, _⟩ := pieces_cons2 hp
    obtain ⟨s2, rfl, hp2, _⟩ := pieces_cons2 hp1
    obtain ⟨s3, rfl, hp3, _⟩ := pieces_cons2 hp2
    obtain ⟨rfl, _⟩ := pieces_single hp3
    have := decOctet_len ha; have := decOctet_len hc; have := decOctet_len hd; have := decOctet_len he
    rw [shortGroups_sep _ _ 46 0 (Or.inr rfl), shortGroups_sep _ _ 46 0 (Or.inr rfl), shortGroups_sep _ _ 46 0 (Or.inr rfl),
      shortGroups_plain a 0 (by omega), shortGroups_plain c 0 (by omega), shortGroups_plain d 0 (by omega),
      shortGroups_plain s3 0 (by omega)]
    rfl
  · cases h

theorem h16_len {g : Bytes} (h : h16 g = true) : g.length ≤ 4 := by
  unfold h16 at h; simp only [Bool.and_eq_true, decide_eq_true_eq] at h; exact h.1.2

theorem shortGroups_run (gs : List Bytes) : ∀ (s : Bytes) (v : Bool) (k : Nat),
    pieces 58 s = gs → units gs v = some k → shortGroups s 0 = true := by
  induction gs with
  | nil => intro s _ _ hp; exact absurd hp (pieces_ne_nil 58 s)
  | cons g rest ih =>
    intro s v k hp hu
    cases rest with
    | nil =>
      obtain ⟨rfl, _⟩ := pieces_single hp
      simp only [units] at hu
      split at hu
      · rename_i hg; exact shortGroups_plain s 0 (by have := h16_len hg; omega)
      · split at hu
        · rename_i hv; simp only [Bool.and_eq_true] at hv; exact shortGroups_v4 hv.2
        · cases hu
    | cons p ps =>
      obtain ⟨s', rfl, hp', _⟩ := pieces_cons2 hp
      obtain ⟨hg, k', hu', rfl⟩ := units_cons_inv hu
      rw [shortGroups_sep _ _ 58 0 (Or.inl rfl), shortGroups_plain g 0 (by have := h16_len hg; omega),
        ih s' v k' hp' hu']
      rfl

theorem shortGroups_side {s : Bytes} {v : Bool} {k : Nat} (h : sideUnits s v = some k) : shortGroups s 0 = true := by
  unfold sideUnits at h
  split at h
  · rename_i hs; have : s = [] := by simpa using hs
    subst this; rfl
  · exact shortGroups_run _ s v k rfl h

/-! ### `strings.Index` finds the split point -/

theorem indexOf_split {s : Bytes} {n : Nat} (h : indexOf s [58, 58] = some n) :
    s = s.take n ++ 58 :: 58 :: s.drop (n + 2) := by
  induction s generalizing n with
  | nil => simp [indexOf] at h
  | cons x xs ih =>
    simp only [indexOf] at h
    split at h
    · rename_i hpre
      cases h
      cases xs with
      | nil => simp [List.isPrefixOf] at hpre
      | cons y ys =>
        simp only [List.isPrefixOf, Bool.and_eq_true, beq_iff_eq, Bool.and_true] at hpre
        obtain ⟨rfl, rfl⟩ := hpre
        simp
    · cases hi : indexOf xs [58, 58] with
      | none => simp [hi] at h
      | some m =>
        simp only [hi, Option.map_some, Option.some.injEq] at h
        subst h
        have := ih hi
        simp only [List.take_succ_cons, List.cons_append, List.drop_succ_cons, List.cons.injEq, true_and]
        exact this

/-! ### `utils.IsIPv6` behind fiber's scan accepts every RFC 4291 §2.2 text form -/

theorem side_run {r : Bytes} {v : Bool} {c : Nat} (hne : r ≠ []) (h : sideUnits r v = some c) :
    units (pieces 58 r) v = some c := by
  unfold sideUnits at h
  have : (r == []) = false := by simpa using hne
  simpa [this] using h

theorem fiberIsIPv6_complete {s : Bytes} (h : validIPv6 s = true) : fiberIsIPv6 s = true := by
  unfold validIPv6 at h
  unfold fiberIsIPv6
  split at h
  · -- eight groups, no `::`
    rename_i hidx
    have hu : units (pieces 58 s) true = some 8 := by simpa using h
    have hplain : ∀ t, s ≠ 58 :: 58 :: t := by
      intro t e; rw [e, indexOf_cc] at hidx; cases hidx
    rw [shortGroups_run _ s true 8 rfl hu, isIPv6_plain s hplain,
      loop_run _ s 0 false 9 8 rfl hu (by omega) (by omega) (Or.inr (by omega))]
    rfl
  · rename_i n hidx
    simp only [Bool.and_eq_true] at h
    obtain ⟨⟨_, _⟩, hm⟩ := h
    have hsplit := indexOf_split hidx
    generalize hl : s.take n = l at hm hsplit
    generalize hr : s.drop (n + 2) = r at hm hsplit
    cases hla : sideUnits l false with
    | none => simp [hla] at hm
    | some a =>
      cases hrc : sideUnits r true with
      | none => simp [hla, hrc] at hm
      | some c =>
        simp only [hla, hrc, decide_eq_true_eq] at hm
        have hsg : shortGroups s 0 = true := by
          rw [hsplit, shortGroups_sep l _ 58 0 (Or.inl rfl), shortGroups_side hla]
          have : shortGroups (58 :: r) 0 = shortGroups r 0 := by simp [shortGroups]
          rw [this, shortGroups_side hrc]; rfl
        rw [hsg, Bool.true_and]
        by_cases hl0 : l = []
        · -- leading `::`
          subst hl0
          rw [hsplit, List.nil_append, isIPv6_cc]
          by_cases hr0 : r = []
          · simp [hr0]
          · have hr0' : (r == []) = false := by simpa using hr0
            rw [hr0', Bool.false_or,
              loop_run _ r 0 true 9 c rfl (side_run hr0 hrc) (by omega) (by omega) (Or.inl rfl)]
            have : 2 * c < 16 := by omega
            simp [v6Fin, this]
        · have hul := side_run hl0 hla
          have hlh : l.head? ≠ some 58 := (pieces_head_ne (p := (pieces 58 l).head (pieces_ne_nil 58 l))
            (ps := (pieces 58 l).tail) (by simp) (by
              have := units_head_ne (p := (pieces 58 l).head (pieces_ne_nil 58 l)) (ps := (pieces 58 l).tail)
                (v := false) (k := a) (by simpa using hul)
              exact this)).2
          have hplain : ∀ t, s ≠ 58 :: 58 :: t := by
            intro t e
            rw [hsplit] at e
            cases l with
            | nil => exact hl0 rfl
            | cons y ys => simp at e; simp [e.1] at hlh
          rw [isIPv6_plain s hplain, hsplit, loop_left _ l r 0 9 a rfl hul (by omega) (by omega)]
          by_cases hr0 : r = []
          · have : 2 * a < 16 := by omega
            simp [hr0, v6Fin, this]
          · have hr0' : (r == []) = false := by simpa using hr0
            simp only [hr0', Bool.false_eq_true, if_false]
            rw [loop_run _ r (0 + 2 * a) true (9 - a) c rfl (side_run hr0 hrc) (by omega) (by omega) (Or.inl rfl)]
            have : 2 * a + 2 * c < 16 := by omega
            simp [v6Fin, this]

/-- **fiber's validators decide exactly the RFC 791 / RFC 4291 §2.2 text grammar** -/
theorem utilsValid_eq_validIP (s : Bytes) : utilsValid s = validIP s := by
  rw [Bool.eq_iff_iff]
  constructor
  · exact utilsValid_valid
  · intro h
    unfold validIP at h
    unfold utilsValid
    rcases Bool.or_eq_true_iff.1 h with h4 | h6
    · have hnc : s.contains 58 = false := by
        have := isIPv4_noColon (isIPv4_complete h4)
        cases hc : s.contains 58 with
        | false => rfl
        | true => exact absurd (List.contains_iff_mem.1 hc) this
      have hdot : s.contains 46 = true := by
        obtain ⟨a, rest, hg, _⟩ := v4_hexrun h4
        rw [hg]; simp
      rw [hnc, hdot]; simp [isIPv4_complete h4]
    · have h6' := fiberIsIPv6_complete h6
      have hc : s.contains 58 = true := by
        cases hc : s.contains 58 with
        | true => rfl
        | false =>
          exfalso
          have hnm : ¬ 58 ∈ s := by
            intro hm
            have := List.contains_iff_mem.2 hm
            rw [hc] at this; cases this
          unfold validIPv6 at h6
          rw [indexOf_none_noColon s hnm, pieces_noSep 58 s hnm] at h6
          simp only [units] at h6
          split at h6
          · simp at h6
          · split at h6 <;> simp at h6
      rw [hc]; simp [h6']

end C10
