import FiberModel.C10.StringLemmas
/-
C10 — a listed CIDR range in RFC 4632 terms: for the `IPNet` values `net.ParseCIDR` produces (mask =
`CIDRMask(n, …)`), the transcribed `(*IPNet).Contains` says "same address family and the first n bits
agree with the network number".
-/
namespace C10
open B

/-! ### one byte -/

set_option maxRecDepth 100000 in
theorem and_prefixMask : ∀ n, n < 8 → ∀ a, a < 256 → a &&& (256 - 2 ^ (8 - n)) = a / 2 ^ (8 - n) * 2 ^ (8 - n) := by decide

set_option maxRecDepth 100000 in
theorem bits_of_top : ∀ n, n < 8 → ∀ a, a < 256 →
    (byteBits a).take n = (byteBits (a / 2 ^ (8 - n) * 2 ^ (8 - n))).take n := by decide

def bitsVal (l : List Nat) : Nat := l.foldl (fun acc x => 2 * acc + x) 0

set_option maxRecDepth 100000 in
theorem bitsVal_top : ∀ n, n < 8 → ∀ a, a < 256 → bitsVal ((byteBits a).take n) = a / 2 ^ (8 - n) := by decide

set_option maxRecDepth 100000 in
theorem and_255 : ∀ a, a < 256 → a &&& 255 = a := by decide

set_option maxRecDepth 100000 in
theorem bitsVal_byte : ∀ a, a < 256 → bitsVal (byteBits a) = a := by decide

theorem byteBits_inj {a c : Nat} (ha : a < 256) (hc : c < 256) (h : byteBits a = byteBits c) : a = c := by
  rw [← bitsVal_byte a ha, ← bitsVal_byte c hc, h]

/-- under a partial mask byte two bytes agree iff their first `n` bits do -/
theorem byte_prefix (n a c : Nat) (hn : n < 8) (ha : a < 256) (hc : c < 256) :
    (a &&& (256 - 2 ^ (8 - n)) == c &&& (256 - 2 ^ (8 - n))) = ((byteBits a).take n == (byteBits c).take n) := by
  rw [Bool.eq_iff_iff]
  simp only [beq_iff_eq]
  rw [and_prefixMask n hn a ha, and_prefixMask n hn c hc]
  constructor
  · intro h
    rw [bits_of_top n hn a ha, bits_of_top n hn c hc, h]
  · intro h
    have := congrArg bitsVal h
    rw [bitsVal_top n hn a ha, bitsVal_top n hn c hc] at this
    rw [this]

/-! ### the mask loop of `Contains` -/

theorem byteBits_length (c : Nat) : (byteBits c).length = 8 := rfl

theorem beq_append_eq {α : Type} [BEq α] [LawfulBEq α] (a c r1 r2 : List α) (h : a.length = c.length) :
    (a ++ r1 == c ++ r2) = (a == c && r1 == r2) := by
  rw [Bool.eq_iff_iff]
  simp only [beq_iff_eq, Bool.and_eq_true]
  constructor
  · intro e; exact List.append_inj e h
  · rintro ⟨rfl, rfl⟩; rfl

theorem maskedEq_zero (x y : Bytes) (len : Nat) : maskedEq x (cidrMask 0 len) y = true := by
  induction len generalizing x y with
  | zero => cases x <;> cases y <;> simp [cidrMask, maskedEq]
  | succ l ih =>
    cases x with
    | nil => simp [maskedEq]
    | cons a xs =>
      cases y with
      | nil => simp [cidrMask, maskedEq]
      | cons c ys =>
        have : ¬ (0 ≥ 8) := by omega
        simp only [cidrMask, this, if_false, Nat.sub_zero, maskedEq, Nat.zero_sub]
        have e : (256 - 2 ^ 8 : Nat) = 0 := by decide
        rw [e, ih]; simp

/-- **`maskedEq` under `CIDRMask(n)` = the first n bits agree** -/
theorem maskedEq_prefix (len : Nat) : ∀ (n : Nat) (x y : Bytes), x.length = len → y.length = len → bytesOK x → bytesOK y →
    maskedEq x (cidrMask n len) y = samePrefix n x y := by
  induction len with
  | zero =>
    intro n x y hx hy _ _
    have : x = [] := List.eq_nil_of_length_eq_zero hx
    have : y = [] := List.eq_nil_of_length_eq_zero hy
    subst_vars
    simp [cidrMask, maskedEq, samePrefix, bitsOf]
  | succ l ih =>
    intro n x y hx hy hbx hby
    cases x with
    | nil => simp at hx
    | cons a xs =>
      cases y with
      | nil => simp at hy
      | cons c ys =>
        have ha := hbx a (by simp)
        have hc := hby c (by simp)
        have ih' := ih (n - 8) xs ys (by simpa using hx) (by simpa using hy) (fun z hz => hbx z (by simp [hz]))
          (fun z hz => hby z (by simp [hz]))
        simp only [cidrMask, maskedEq, ih']
        unfold samePrefix bitsOf
        simp only [List.flatMap_cons]
        by_cases hn : n ≥ 8
        · simp only [hn, if_true, and_255 a ha, and_255 c hc]
          rw [List.take_append, List.take_append]
          have t1 : (byteBits a).take n = byteBits a := List.take_of_length_le (by rw [byteBits_length]; omega)
          have t2 : (byteBits c).take n = byteBits c := List.take_of_length_le (by rw [byteBits_length]; omega)
          rw [t1, t2, byteBits_length, byteBits_length, beq_append_eq _ _ _ _ (by simp [byteBits_length])]
          congr 1
          rw [Bool.eq_iff_iff]
          simp only [beq_iff_eq]
          exact ⟨fun e => by rw [e], byteBits_inj ha hc⟩
        · have hn' : n < 8 := by omega
          simp only [hn, if_false]
          rw [byte_prefix n a c hn' ha hc]
          have z : n - 8 = 0 := by omega
          rw [z]
          rw [List.take_append, List.take_append, byteBits_length, byteBits_length]
          have z2 : n - 8 = 0 := by omega
          simp [z2]

/-! ### `(*IPNet).Contains` for the ranges `net.ParseCIDR` produces -/

theorem netNumMask_v4 (nip mask : Bytes) (hn : nip.length = 4) (hm : mask.length = 4) :
    netNumMask nip mask = some (nip, mask) := by
  simp [netNumMask, to4_len4 nip hn, hn, hm]

theorem netNumMask_v6 (nip mask : Bytes) (hn : nip.length = 16) (h4 : to4 nip = none) (hm : mask.length = 16) :
    netNumMask nip mask = some (nip, mask) := by
  simp [netNumMask, h4, hn, hm]

theorem to4_some_len {ip v : Bytes} (h : to4 ip = some v) (hl : ip.length = 4 ∨ ip.length = 16) : v.length = 4 :=
  (to4_to16 hl h).1

/-- an IPv4 range `a.b.c.d/n`: contains exactly the IPv4 peers (4-byte or v4-mapped form) whose first
    n bits agree with the network number -/
theorem cidrContains_v4 (nip ip : Bytes) (n : Nat) (hn : nip.length = 4) (hl : ip.length = 4 ∨ ip.length = 16)
    (hb : bytesOK nip) (hbi : bytesOK ip) :
    cidrContains nip (cidrMask n 4) ip =
      match to4 ip with
      | some v4 => samePrefix n nip v4
      | none => false := by
  have hm : (cidrMask n 4).length = 4 := by simp [cidrMask]
  unfold cidrContains
  simp only [netNumMask_v4 nip _ hn hm]
  cases h4 : to4 ip with
  | none =>
    have h16 := to4_none_len hl h4
    simp [h16, hn]
  | some v4 =>
    have hv := to4_some_len h4 hl
    simp only [Option.getD_some, hv, hn, beq_self_eq_true, Bool.true_and]
    exact maskedEq_prefix 4 n nip v4 hn hv hb (to4_bytesOK hbi h4)

/-- an IPv6 range whose network number is not v4-mapped: contains exactly the 16-byte peers that are
    not v4-mapped and whose first n bits agree with the network number (an IPv4 peer is in no such
    range, not even `::/0` — Go's `Contains` compares within one family) -/
theorem cidrContains_v6 (nip ip : Bytes) (n : Nat) (hn : nip.length = 16) (h4n : to4 nip = none)
    (hl : ip.length = 4 ∨ ip.length = 16) (hb : bytesOK nip) (hbi : bytesOK ip) :
    cidrContains nip (cidrMask n 16) ip =
      match to4 ip with
      | some _ => false
      | none => samePrefix n nip ip := by
  have hm : (cidrMask n 16).length = 16 := by simp [cidrMask]
  unfold cidrContains
  simp only [netNumMask_v6 nip _ hn h4n hm]
  cases h4 : to4 ip with
  | some v4 =>
    have hv := to4_some_len h4 hl
    simp [hv, hn]
  | none =>
    have h16 := to4_none_len hl h4
    simp only [Option.getD_none, h16, hn, beq_self_eq_true, Bool.true_and]
    exact maskedEq_prefix 16 n nip ip hn h16 hb hbi

theorem cidrMask_drop (k : Nat) : ∀ (n len : Nat), (cidrMask n (k + len)).drop k = cidrMask (n - 8 * k) len := by
  induction k with
  | zero => intro n len; simp
  | succ k ih =>
    intro n len
    have e : k + 1 + len = (k + len) + 1 := by omega
    rw [e]
    simp only [cidrMask, List.drop_succ_cons]
    rw [ih]
    congr 1
    omega

/-- a range written with a v4-mapped network number (`::ffff:a.b.c.d/n`, n ≥ 96) is the IPv4 range
    `a.b.c.d/(n-96)` -/
theorem cidrContains_mapped (nip v ip : Bytes) (n : Nat) (hn : nip.length = 16) (h4n : to4 nip = some v)
    (hl : ip.length = 4 ∨ ip.length = 16) (hb : bytesOK nip) (hbi : bytesOK ip) :
    cidrContains nip (cidrMask n 16) ip =
      match to4 ip with
      | some v4 => samePrefix (n - 96) v v4
      | none => false := by
  have hm : (cidrMask n 16).length = 16 := by simp [cidrMask]
  have hv := to4_some_len h4n (Or.inr hn)
  have hd : (cidrMask n 16).drop 12 = cidrMask (n - 96) 4 := cidrMask_drop 12 n 4
  have hnm : netNumMask nip (cidrMask n 16) = some (v, cidrMask (n - 96) 4) := by
    simp [netNumMask, h4n, hm, hv, hd]
  unfold cidrContains
  simp only [hnm]
  cases h4 : to4 ip with
  | none =>
    have h16 := to4_none_len hl h4
    simp [h16, hv]
  | some v4 =>
    have hv4 := to4_some_len h4 hl
    simp only [Option.getD_some, hv4, hv, beq_self_eq_true, Bool.true_and]
    exact maskedEq_prefix 4 (n - 96) v v4 hv hv4 (to4_bytesOK hb h4n) (to4_bytesOK hbi h4)

-- non-vacuity: 10.0.0.0/8 as `net.ParseCIDR` returns it; 172.16.0.0/12 and its edges; fc00::/7
example : cidrMask 8 4 = [255, 0, 0, 0] ∧ cidrMask 12 4 = [255, 240, 0, 0] ∧ isPrefixMask [255, 240, 0, 0] = true ∧
    isPrefixMask [255, 0, 255, 0] = false ∧
    cidrContains [10, 0, 0, 0] (cidrMask 8 4) [10, 1, 2, 3] = true ∧
    cidrContains [10, 0, 0, 0] (cidrMask 8 4) (v4in6 ++ [10, 1, 2, 3]) = true ∧
    cidrContains [10, 0, 0, 0] (cidrMask 8 4) [11, 1, 2, 3] = false ∧
    cidrContains [172, 16, 0, 0] (cidrMask 12 4) [172, 31, 255, 255] = true ∧
    cidrContains [172, 16, 0, 0] (cidrMask 12 4) [172, 32, 0, 0] = false ∧
    cidrContains (252 :: List.replicate 15 0) (cidrMask 7 16) (253 :: List.replicate 15 9) = true ∧
    cidrContains (List.replicate 16 0) (cidrMask 0 16) [10, 1, 2, 3] = false := by decide

/-- the classes of the configuration are such ranges: e.g. the second byte of Private's 172.16.0.0/12 -/
example : ∀ c, c < 256 → ((c &&& 240 == 16) = samePrefix 4 [c] [16]) := by
  intro c hc
  have := maskedEq_prefix 1 4 [c] [16] rfl rfl (by intro x hx; simp at hx; omega) (by intro x hx; simp at hx; omega)
  simpa [maskedEq, cidrMask] using this

end C10
