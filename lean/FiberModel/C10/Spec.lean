import FiberModel.C10.Model
/-
C10 — the property as an executable specification, evaluated by the driver on the implementation's
observation of a pair of requests (A, B) that share configuration, connection and all
non-forwarding headers.

  * the configured proxy set (`inSet`): enabled classes (as the address blocks the configuration
    documents: 127.0.0.0/8, ::1/128; 10.0.0.0/8, 172.16.0.0/12, 192.168.0.0/16, fc00::/7;
    169.254.0.0/16, fe80::/10), listed addresses (equality of addresses, not of spellings), CIDR ranges;
  * outside the set (TrustProxy on): outputs are computed from the connection and the Host header
    only, and are equal for A and B;
  * inside the set (or TrustProxy off): the documented forwarded values;
  * EnableIPValidation: every reported address is syntactically valid (RFC 791 dotted quad /
    RFC 4291 §2.2 text forms);
  * secure ⇔ scheme = "https".
-/
namespace C10
open B

/-! ### the configured proxy set -/

def v4in6 : Bytes := List.replicate 10 0 ++ [255, 255]

/-- 16-byte form of an address -/
def to16 (ip : Bytes) : Bytes := if ip.length == 4 then v4in6 ++ ip else ip

/-- loopback: 127.x.x.x (also as ::ffff:127.x.x.x) and ::1 -/
def inLoopback (ip : Bytes) : Bool :=
  match to4 ip with
  | some v4 => v4[0]? == some 127
  | none => ip == ipv6loopback

/-- private: 10.x.x.x, 172.16–31.x.x, 192.168.x.x, and fc00::–fdff:… (fc00::/7) -/
def inPrivate (ip : Bytes) : Bool :=
  match to4 ip with
  | some v4 =>
    let a := v4[0]?.getD 0
    let c := v4[1]?.getD 0
    a == 10 || (a == 172 && 16 ≤ c && c ≤ 31) || (a == 192 && c == 168)
  | none => ip.length == 16 && 252 ≤ ip[0]?.getD 0 && ip[0]?.getD 0 ≤ 253

/-- link-local: 169.254.x.x and fe80::–febf:… (fe80::/10) -/
def inLinkLocal (ip : Bytes) : Bool :=
  match to4 ip with
  | some v4 => v4[0]?.getD 0 == 169 && v4[1]?.getD 0 == 254
  | none => ip.length == 16 && ip[0]?.getD 0 == 254 && 128 ≤ ip[1]?.getD 0 && ip[1]?.getD 0 ≤ 191

/-- one `Proxies` entry covers the peer: a listed address equal to it (as addresses, whatever the
    spelling), or a CIDR range containing it -/
def entryCovers (rip : Bytes) : Proxy → Bool
  | .ip _ ip16 => ip16 == to16 rip
  | .cidr n m => cidrContains n m rip
  | .bad => false

/-- the peer is a listed address, in a listed range, or in an enabled class -/
def inSet (cfg : Cfg) (cn : Conn) : Bool :=
  (cfg.loopback && inLoopback cn.rip) || (cfg.priv && inPrivate cn.rip) || (cfg.linkLocal && inLinkLocal cn.rip) ||
  cfg.proxies.any (entryCovers cn.rip)

/-! ### CIDR ranges as bit prefixes (RFC 4632) — the reading of `cidrContains` proved in CidrLemmas -/

/-- the eight bits of a byte, most significant first -/
def byteBits (c : Nat) : List Nat := [c / 128 % 2, c / 64 % 2, c / 32 % 2, c / 16 % 2, c / 8 % 2, c / 4 % 2, c / 2 % 2, c % 2]

def bitsOf (ip : Bytes) : List Nat := ip.flatMap byteBits

/-- the first `n` bits of two addresses agree -/
def samePrefix (n : Nat) (a c : Bytes) : Bool := (bitsOf a).take n == (bitsOf c).take n

/-- `net.CIDRMask(n, 8*len)`: `n` one bits, then zeros -/
def cidrMask : Nat → Nat → Bytes
  | _, 0 => []
  | n, len + 1 => (if n ≥ 8 then 255 else 256 - 2 ^ (8 - n)) :: cidrMask (n - 8) len

/-- number of leading one bits of a mask -/
def maskOnes (m : Bytes) : Nat := ((bitsOf m).takeWhile (· == 1)).length

/-- the mask is a prefix mask (what `net.ParseCIDR` produces) -/
def isPrefixMask (m : Bytes) : Bool := m == cidrMask (maskOnes m) m.length

/-- split on a byte (always at least one piece) -/
def pieces (sep : Nat) : Bytes → List Bytes
  | [] => [[]]
  | c :: cs =>
    if c == sep then [] :: pieces sep cs
    else match pieces sep cs with
      | p :: ps => (c :: p) :: ps
      | [] => [[c]]

/-! ### syntactically valid addresses -/

def decOctet (s : Bytes) : Bool :=
  1 ≤ s.length && s.length ≤ 3 && s.all isDigit && (s.length == 1 || s.head? != some 48) && digitsVal s ≤ 255

/-- RFC 791 dotted quad -/
def validIPv4 (s : Bytes) : Bool :=
  match pieces 46 s with
  | [a, c, d, e] => decOctet a && decOctet c && decOctet d && decOctet e
  | _ => false

/-- `h16`: one to four hex digits -/
def h16 (s : Bytes) : Bool := 1 ≤ s.length && s.length ≤ 4 && s.all isHexDigit

/-- number of 16-bit units of a colon-separated run of groups; a dotted quad may close the run -/
def units : List Bytes → Bool → Option Nat
  | [], _ => some 0
  | [g], v4ok => if h16 g then some 1 else if v4ok && validIPv4 g then some 2 else none
  | g :: gs, v4ok => if h16 g then (units gs v4ok).map (· + 1) else none

def sideUnits (s : Bytes) (v4ok : Bool) : Option Nat := if s == [] then some 0 else units (pieces 58 s) v4ok

/-- RFC 4291 §2.2: eight groups, or one `::` standing for at least one zero group -/
def validIPv6 (s : Bytes) : Bool :=
  match indexOf s [58, 58] with
  | none => units (pieces 58 s) true == some 8
  | some i =>
    let l := s.take i
    let r := s.drop (i + 2)
    (indexOf r [58, 58]).isNone && r.head? != some 58 &&
    match sideUnits l false, sideUnits r true with
    | some a, some c => a + c ≤ 7
    | _, _ => false

def validIP (s : Bytes) : Bool := validIPv4 s || validIPv6 s

/-! ### documented forwarded values -/

def trimSp (s : Bytes) : Bytes := trimRight (s.dropWhile (· == 32)) 32

/-- "the first valid IP address" of a comma-separated header value; `valid` decides validity -/
def firstValid (valid : Bytes → Bool) (hv : Bytes) : Option Bytes := ((pieces 44 hv).map trimSp).find? valid

def docIP (valid : Bytes → Bool) (cfg : Cfg) (cn : Conn) (hs : Headers) : Bytes :=
  if cfg.proxyHeader == [] then cn.ripStr
  else if cfg.validate then (firstValid valid (get hs cfg.normProxyHeader)).getD cn.ripStr
  else get hs cfg.normProxyHeader

def docHost (cn : Conn) (hs : Headers) : Bytes :=
  let v := get hs sXFH
  if v == [] then cn.uriHost else (pieces 44 v).headD []

/-- what a scheme header says, if it says anything -/
def schemeOf (kv : Bytes × Bytes) : Option Bytes :=
  if kv.1 == sXFProto || kv.1 == sXFProtocol then some ((pieces 44 kv.2).headD [])
  else if kv.1 == sXFSsl then (if kv.2 == b "on" then some sHTTPS else none)
  else if kv.1 == sXUrlScheme then some kv.2
  else none

/-- TLS wins; otherwise the last scheme header of the request; otherwise http -/
def docScheme (cn : Conn) (hs : Headers) : Bytes :=
  if cn.tls then sHTTPS else ((hs.reverse.filterMap schemeOf).head?).getD sHTTP

/-! ### elements with an over-long group (the region of the repaired defect F5, for the case tags) -/

/-- some run of hexadecimal digits has five or more of them (`n` = length of the run so far) -/
def longHexRun : Bytes → Nat → Bool
  | [], n => n ≥ 5
  | c :: cs, n => if isHexDigit c then longHexRun cs (n + 1) else n ≥ 5 || longHexRun cs 0

/-- validation is on and an element of a consulted header has a colon and a group of more than four
    hex digits (`utils.IsIPv6` alone accepts `0:0:0:0:0:0:0:00001`) -/
def hasLongGroup (cfg : Cfg) (hs : Headers) : Bool :=
  cfg.validate &&
  ((pieces 44 (get hs cfg.normProxyHeader)) ++ (pieces 44 (get hs sXFF))).any fun seg => seg.contains 58 && longHexRun seg 0

/-! ### the oracle -/

def gatedEq (a c : Out) : Bool :=
  a.ip == c.ip && a.host == c.host && a.hostname == c.hostname && a.scheme == c.scheme && a.baseURL == c.baseURL &&
  a.secure == c.secure && a.sub == c.sub && a.subo == c.subo

def subOf (h : Bytes) (offset : Nat) : List Bytes :=
  let parts := pieces 46 h
  if parts.length < offset then parts else parts.take (parts.length - offset)

/-- outputs computed from the connection and the Host header only -/
def connOnly (cn : Conn) (off : Nat) (o : Out) : Bool :=
  let sch := if cn.tls then sHTTPS else sHTTP
  o.ip == cn.ripStr && o.host == cn.uriHost && o.hostname == hostOnly cn.uriHost && o.scheme == sch &&
  o.baseURL == sch ++ b "://" ++ cn.uriHost && o.secure == cn.tls && o.sub == subOf cn.uriHost 2 && o.subo == subOf cn.uriHost off

/-- which documented value is wrong, if any -/
def documented (valid : Bytes → Bool) (cfg : Cfg) (cn : Conn) (off : Nat) (hs : Headers) (o : Out) : Option String :=
  let h := docHost cn hs
  let sch := docScheme cn hs
  if o.ip != docIP valid cfg cn hs then some "ip"
  else if o.host != h then some "host"
  else if o.hostname != hostOnly h then some "hostname"
  else if o.scheme != sch then some "scheme"
  else if o.baseURL != sch ++ b "://" ++ h then some "baseurl"
  else if o.sub != subOf h 2 || o.subo != subOf h off then some "subdomains"
  else none

/-- first failing clause of the property on the observed pair, or `none` -/
def specViolation (cfg : Cfg) (cn : Conn) (off : Nat) (hsA hsB : Headers) (a c : Out) : Option String :=
  let member := inSet cfg cn
  if cfg.trustProxy && !member && !gatedEq a c then some "noninterference"
  else if cfg.trustProxy && !member && !(connOnly cn off a && connOnly cn off c) then some "untrusted-connection-only"
  else if a.secure != (a.scheme == sHTTPS) || c.secure != (c.scheme == sHTTPS) then some "secure-iff-https"
  else if cfg.validate && !(validIP a.ip && validIP c.ip && a.ips.all validIP && c.ips.all validIP) then some "validated-ip-is-valid"
  else if !cfg.trustProxy || member then
    match documented validIP cfg cn off hsA a, documented validIP cfg cn off hsB c with
    | some w, _ => some s!"trusted-documented-values {w}"
    | _, some w => some s!"trusted-documented-values {w}"
    | none, none => none
  else none

end C10
