import FiberModel.C10.ValidLemmas
/-
C10 — property theorems (only). Helper lemmas: Lemmas, IPLemmas.

Quantifiers: every configuration (flags, parsed `Proxies`, ProxyHeader, validation), every peer
address (4 or 16 bytes), TLS or not, every Host, every list of request headers.
Parameter hypotheses (about Go's `net` package, checked by the driver on every case):
`bytesOK` (address bytes are bytes) and `StringFaithful` (`IP.String()` identifies the address).
-/
namespace C10
open B

/-! ### non-interference -/

/-- the outputs named by the property -/
def gated (o : Out) : Bytes × Bytes × Bytes × Bytes × Bytes × Bool × List Bytes × List Bytes :=
  (o.ip, o.host, o.hostname, o.scheme, o.baseURL, o.secure, o.sub, o.subo)

/-- With TrustProxy on and the peer outside the configured proxy set (listed addresses, CIDR ranges,
    enabled classes), client IP, host, hostname, scheme, base URL, secure flag and subdomains are the
    same for ANY two header lists (in particular for two that agree off the forwarding headers), and
    are the values computed from the connection and the Host header only. -/
theorem untrusted_noninterference (cfg : Cfg) (cn : Conn) (off : Nat)
    (hb : bytesOK cn.rip) (hstr : StringFaithful cfg.proxies cn)
    (hon : cfg.trustProxy = true) (hout : inSet cfg cn = false) (hs1 hs2 : Headers) :
    gated (outputs cfg cn off hs1) = gated (outputs cfg cn off hs2) ∧
    connOnly cn off (outputs cfg cn off hs1) = true := by
  have ht : isProxyTrusted cfg cn = false := by rw [trusted_eq_inSet cfg cn hb hstr, hon, hout]; rfl
  have hip : ∀ hs, ip cfg cn hs = cn.ripStr := fun hs => by simp [ip, ht]
  have hhost : ∀ hs, host cfg cn hs = cn.uriHost := fun hs => by simp [host, ht]
  have hsch : ∀ hs, scheme cfg cn hs = if cn.tls then sHTTPS else sHTTP := fun hs => by simp [scheme, ht]
  refine ⟨?_, ?_⟩
  · simp [gated, outputs, hip, hhost, hsch, hostname, baseURL, secure, subdomains]
  · simp only [connOnly, outputs, hip, hhost, hsch, hostname, baseURL, secure, subdomains, subOf, splitOn_eq_pieces]
    cases cn.tls <;> simp [sHTTPS, sHTTP, b]

/-- the same for two requests that agree off the forwarding headers (the property's wording) -/
theorem untrusted_noninterference_agreeing (cfg : Cfg) (cn : Conn) (off : Nat)
    (hb : bytesOK cn.rip) (hstr : StringFaithful cfg.proxies cn)
    (hon : cfg.trustProxy = true) (hout : inSet cfg cn = false) (fwd : List Bytes) (hs1 hs2 : Headers)
    (_hagree : hs1.filter (fun p => !fwd.contains p.1) = hs2.filter (fun p => !fwd.contains p.1)) :
    gated (outputs cfg cn off hs1) = gated (outputs cfg cn off hs2) :=
  (untrusted_noninterference cfg cn off hb hstr hon hout hs1 hs2).1

-- non-vacuity: TrustProxy on, Private class enabled, proxies [10.0.0.1, 192.168.0.0/16], peer 8.8.8.8
example :
    let cfg : Cfg := { trustProxy := true, loopback := false, priv := true, linkLocal := false,
                       proxies := [.ip (b "10.0.0.1") (v4in6 ++ [10, 0, 0, 1]), .cidr [192, 168, 0, 0] [255, 255, 0, 0]],
                       proxyHeader := b "X-Forwarded-For", normProxyHeader := b "X-Forwarded-For", validate := true }
    let cn : Conn := { rip := [8, 8, 8, 8], ripStr := b "8.8.8.8", tls := false, uriHost := b "example.com", proto := b "HTTP/1.1" }
    inSet cfg cn = false ∧ cfg.trustProxy = true ∧
    (outputs cfg cn 2 [(b "X-Forwarded-For", b "1.2.3.4"), (b "X-Forwarded-Proto", b "https")]).ip = b "8.8.8.8" := by
  decide

/-! ### documented values for trusted peers -/

/-- inside the set (or with TrustProxy off) the trust decision is positive -/
theorem inSet_trusted (cfg : Cfg) (cn : Conn) (hb : bytesOK cn.rip) (hstr : StringFaithful cfg.proxies cn)
    (h : cfg.trustProxy = false ∨ inSet cfg cn = true) : isProxyTrusted cfg cn = true := by
  rw [trusted_eq_inSet cfg cn hb hstr]
  rcases h with h | h <;> simp [h]

/-- A trusted peer gets the documented forwarded values: IP = ProxyHeader value (with validation: its
    first element fiber's validators accept, else the peer's address), host = first element of
    X-Forwarded-Host (else the Host header), scheme = https on TLS, else what the last of
    X-Forwarded-Proto / -Protocol / -Ssl: on / X-Url-Scheme says, else http; hostname, base URL and
    subdomains derived from these. -/
theorem trusted_documented_values (cfg : Cfg) (cn : Conn) (off : Nat) (hs : Headers)
    (ht : isProxyTrusted cfg cn = true) :
    documented utilsValid cfg cn off hs (outputs cfg cn off hs) = none := by
  have hip : ip cfg cn hs = docIP utilsValid cfg cn hs := by
    unfold ip docIP extractIPFromHeader
    by_cases hp : cfg.proxyHeader = []
    · simp [hp, ht]
    · have hp' : (cfg.proxyHeader == []) = false := by simpa using hp
      simp only [ht, Bool.true_and, bne_iff_ne, ne_eq, hp, not_false_eq_true, if_true, hp']
      by_cases hv : cfg.validate = true
      · simp only [hv, if_true, Bool.false_eq_true, if_false]
        rw [firstIP_eq_firstValid _ _ (Nat.lt_succ_self _)]
        cases firstValid utilsValid (get hs cfg.normProxyHeader) <;> rfl
      · simp [hv]
  have hhost : host cfg cn hs = docHost cn hs := by
    unfold host docHost
    simp only [ht, Bool.true_and]
    by_cases hx : get hs sXFH = []
    · simp [hx]
    · have hx' : (get hs sXFH == []) = false := by simpa using hx
      simp [hx, upToComma, pieces_head']
  have hsch : scheme cfg cn hs = docScheme cn hs := by
    unfold scheme docScheme
    simp only [ht, Bool.not_true, Bool.false_eq_true, if_false, scheme_fold]
  unfold documented
  simp only [outputs, hostname, baseURL, subdomains, hip, hhost, hsch, subOf, splitOn_eq_pieces]
  simp

/-- combined with `inSet_trusted`: peers inside the configured set get the documented values -/
theorem inSet_documented_values (cfg : Cfg) (cn : Conn) (off : Nat) (hs : Headers)
    (hb : bytesOK cn.rip) (hstr : StringFaithful cfg.proxies cn) (h : cfg.trustProxy = false ∨ inSet cfg cn = true) :
    documented utilsValid cfg cn off hs (outputs cfg cn off hs) = none :=
  trusted_documented_values cfg cn off hs (inSet_trusted cfg cn hb hstr h)

-- non-vacuity: peer 10.0.0.1 is listed; the forwarded values are used
example :
    let cfg : Cfg := { trustProxy := true, loopback := false, priv := false, linkLocal := false,
                       proxies := [.ip (b "10.0.0.1") (v4in6 ++ [10, 0, 0, 1])],
                       proxyHeader := b "X-Forwarded-For", normProxyHeader := b "X-Forwarded-For", validate := true }
    let cn : Conn := { rip := [10, 0, 0, 1], ripStr := b "10.0.0.1", tls := false, uriHost := b "example.com", proto := b "HTTP/1.1" }
    let o := outputs cfg cn 2 [(b "X-Forwarded-For", b "bogus, 1.2.3.4"), (b "X-Forwarded-Proto", b "https"), (b "X-Forwarded-Host", b "a.b.c")]
    inSet cfg cn = true ∧ o.ip = b "1.2.3.4" ∧ o.scheme = b "https" ∧ o.host = b "a.b.c" ∧ o.secure = true := by
  decide

/-! ### validation -/

/-- With IP validation on, the reported client IP is the peer's own address or an element of the
    ProxyHeader that fiber's validators accept (`utils.IsIPv6` when it contains a colon, else
    `utils.IsIPv4`). -/
theorem validated_ip_is_accepted (cfg : Cfg) (cn : Conn) (hs : Headers) (hv : cfg.validate = true) :
    ip cfg cn hs = cn.ripStr ∨ utilsValid (ip cfg cn hs) = true := by
  unfold ip
  split
  · unfold extractIPFromHeader
    simp only [hv, if_true]
    rw [firstIP_eq_firstValid _ _ (Nat.lt_succ_self _)]
    cases hf : firstValid utilsValid (get hs cfg.normProxyHeader) with
    | none => left; rfl
    | some s => right; exact List.find?_some hf
  · left; rfl

/- Full statement (NOT proved, and false on the unchanged tree, see K1):
     cfg.validate = true → validIP cn.ripStr = true → validIP (ip cfg cn hs) = true
   i.e. the reported address is always in the RFC 791 / RFC 4291 text grammar. -/
/-- With IP validation on, the reported client IP is the peer's own address, or a syntactically
    valid dotted quad (RFC 791: four decimal octets ≤ 255 without leading zeros), or an element
    containing a colon that `utils.IsIPv6` accepts. Partial: that `utils.IsIPv6` accepts only RFC 4291
    text forms is not proved here (it is false for groups of more than four hex digits — known finding
    K1 — and otherwise covered by the spec oracle on every observed output). -/
theorem validated_ip_is_valid_partial (cfg : Cfg) (cn : Conn) (hs : Headers) (hv : cfg.validate = true) :
    ip cfg cn hs = cn.ripStr ∨ validIPv4 (ip cfg cn hs) = true ∨
      ((ip cfg cn hs).contains 58 = true ∧ isIPv6 (ip cfg cn hs) = true) := by
  rcases validated_ip_is_accepted cfg cn hs hv with h | h
  · left; exact h
  · right
    unfold utilsValid at h
    split at h
    · rename_i h6; right; exact ⟨h6, h⟩
    · split at h
      · left; exact isIPv4_valid h
      · cases h

/-- the known finding K1 as a theorem about the model: validation on, trusted peer,
    `X-Forwarded-For: 0:0:0:0:0:0:0:00001` is reported although it is not a valid address -/
theorem validated_ip_is_valid_witness_K1 :
    let cfg : Cfg := { trustProxy := true, loopback := true, priv := false, linkLocal := false, proxies := [],
                       proxyHeader := b "X-Forwarded-For", normProxyHeader := b "X-Forwarded-For", validate := true }
    let cn : Conn := { rip := [127, 0, 0, 1], ripStr := b "127.0.0.1", tls := false, uriHost := b "example.com", proto := b "HTTP/1.1" }
    let hs : Headers := [(b "X-Forwarded-For", b "0:0:0:0:0:0:0:00001")]
    ¬ (validIP (ip cfg cn hs) = true) ∧ Known.K1 cfg hs = true := by
  decide

/-- the same for every element of `IPs()` -/
theorem validated_ips_accepted (cfg : Cfg) (hs : Headers) (hv : cfg.validate = true) :
    ∀ s ∈ ips cfg hs, ∃ seg, passes true seg s = true := by
  unfold ips
  simp only [hv]
  generalize get hs sXFF = hvv
  generalize hvv.length + 1 = fuel
  induction fuel generalizing hvv with
  | zero => intro s h; simp [allIPs] at h
  | succ f ih =>
    intro s h
    cases hvv with
    | nil => simp [allIPs] at h
    | cons c0 tl =>
      simp only [allIPs] at h
      split at h
      · rename_i hp
        rcases List.mem_cons.1 h with rfl | h
        · exact ⟨_, hp⟩
        · exact ih _ s h
      · exact ih _ s h

/-! ### secure flag -/

/-- the secure flag is true exactly when the scheme is https -/
theorem secure_iff_https (cfg : Cfg) (cn : Conn) (hs : Headers) :
    secure cfg cn hs = true ↔ scheme cfg cn hs = sHTTPS := by
  simp [secure]

/-- and the scheme is https on every TLS connection -/
theorem tls_is_secure (cfg : Cfg) (cn : Conn) (hs : Headers) (h : cn.tls = true) : secure cfg cn hs = true := by
  simp [secure, scheme, h]

end C10
