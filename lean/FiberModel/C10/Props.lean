import FiberModel.C10.CidrLemmas
/-
C10 — property theorems (only). Helper lemmas: Lemmas, IPLemmas, ValidLemmas, V6Lemmas, V6Complete, StringLemmas, CidrLemmas.

Quantifiers: every configuration (flags, parsed `Proxies`, ProxyHeader, validation), every peer
address (4 or 16 bytes), TLS or not, every Host, every list of request headers.
Parameter hypotheses (about Go's `net` package, checked by the driver on every case):
`bytesOK` (address bytes are bytes) and `StringFaithful` (`IP.String()` identifies the address). The
`…_of_format` versions replace both by `FormatOK`: the shipped texts are what the TRANSCRIBED
`net.IP.String()` (`ipString`) prints — `StringFaithful` is then a theorem (`ipString_inj`).
-/
namespace C10
open B

/-! ### non-interference -/

/-- the outputs named by the property -/
def gated (o : Out) : Bytes × Bytes × Bytes × Bytes × Bytes × Bool × List Bytes × List Bytes :=
  (o.ip, o.host, o.hostname, o.scheme, o.baseURL, o.secure, o.sub, o.subo)

/-- With TrustProxy on and the peer outside the configured proxy set (listed addresses, CIDR ranges,
    enabled classes), client IP, host, hostname, scheme, base URL, secure flag and subdomains are the
    same for ANY two header lists (in particular for two that agree off the forwarding headers), and
    are the values computed from the connection and the Host header only. -/
theorem untrusted_noninterference (cfg : Cfg) (cn : Conn) (off : Nat)
    (hb : bytesOK cn.rip) (hstr : StringFaithful cfg.proxies cn)
    (hon : cfg.trustProxy = true) (hout : inSet cfg cn = false) (hs1 hs2 : Headers) :
    gated (outputs cfg cn off hs1) = gated (outputs cfg cn off hs2) ∧
    connOnly cn off (outputs cfg cn off hs1) = true := by
  have ht : isProxyTrusted cfg cn = false := by rw [trusted_eq_inSet cfg cn hb hstr, hon, hout]; rfl
  have hip : ∀ hs, ip cfg cn hs = cn.ripStr := fun hs => by simp [ip, ht]
  have hhost : ∀ hs, host cfg cn hs = cn.uriHost := fun hs => by simp [host, ht]
  have hsch : ∀ hs, scheme cfg cn hs = if cn.tls then sHTTPS else sHTTP := fun hs => by simp [scheme, ht]
  refine ⟨?_, ?_⟩
  · simp [gated, outputs, hip, hhost, hsch, hostname, baseURL, secure, subdomains]
  · simp only [connOnly, outputs, hip, hhost, hsch, hostname, baseURL, secure, subdomains, subOf, splitOn_eq_pieces]
    cases cn.tls <;> simp [sHTTPS, sHTTP, b]

/-- the same for two requests that agree off the forwarding headers (the property's wording) -/
theorem untrusted_noninterference_agreeing (cfg : Cfg) (cn : Conn) (off : Nat)
    (hb : bytesOK cn.rip) (hstr : StringFaithful cfg.proxies cn)
    (hon : cfg.trustProxy = true) (hout : inSet cfg cn = false) (fwd : List Bytes) (hs1 hs2 : Headers)
    (_hagree : hs1.filter (fun p => !fwd.contains p.1) = hs2.filter (fun p => !fwd.contains p.1)) :
    gated (outputs cfg cn off hs1) = gated (outputs cfg cn off hs2) :=
  (untrusted_noninterference cfg cn off hb hstr hon hout hs1 hs2).1

-- non-vacuity: TrustProxy on, Private class enabled, proxies [10.0.0.1, 192.168.0.0/16], peer 8.8.8.8
example :
    let cfg : Cfg := { trustProxy := true, loopback := false, priv := true, linkLocal := false,
                       proxies := [.ip (b "10.0.0.1") (v4in6 ++ [10, 0, 0, 1]), .cidr [192, 168, 0, 0] [255, 255, 0, 0]],
                       proxyHeader := b "X-Forwarded-For", normProxyHeader := b "X-Forwarded-For", validate := true }
    let cn : Conn := { rip := [8, 8, 8, 8], ripStr := b "8.8.8.8", tls := false, uriHost := b "example.com", proto := b "HTTP/1.1" }
    inSet cfg cn = false ∧ cfg.trustProxy = true ∧
    (outputs cfg cn 2 [(b "X-Forwarded-For", b "1.2.3.4"), (b "X-Forwarded-Proto", b "https")]).ip = b "8.8.8.8" := by
  decide

/-! ### documented values for trusted peers -/

/-- inside the set (or with TrustProxy off) the trust decision is positive -/
theorem inSet_trusted (cfg : Cfg) (cn : Conn) (hb : bytesOK cn.rip) (hstr : StringFaithful cfg.proxies cn)
    (h : cfg.trustProxy = false ∨ inSet cfg cn = true) : isProxyTrusted cfg cn = true := by
  rw [trusted_eq_inSet cfg cn hb hstr]
  rcases h with h | h <;> simp [h]

/-- A trusted peer gets the documented forwarded values: IP = ProxyHeader value (with validation: its
    first element fiber's validators accept, else the peer's address), host = first element of
    X-Forwarded-Host (else the Host header), scheme = https on TLS, else what the last of
    X-Forwarded-Proto / -Protocol / -Ssl: on / X-Url-Scheme says, else http; hostname, base URL and
    subdomains derived from these. -/
theorem trusted_documented_values (cfg : Cfg) (cn : Conn) (off : Nat) (hs : Headers)
    (ht : isProxyTrusted cfg cn = true) :
    documented utilsValid cfg cn off hs (outputs cfg cn off hs) = none := by
  have hip : ip cfg cn hs = docIP utilsValid cfg cn hs := by
    unfold ip docIP extractIPFromHeader
    by_cases hp : cfg.proxyHeader = []
    · simp [hp, ht]
    · have hp' : (cfg.proxyHeader == []) = false := by simpa using hp
      simp only [ht, Bool.true_and, bne_iff_ne, ne_eq, hp, not_false_eq_true, if_true, hp']
      by_cases hv : cfg.validate = true
      · simp only [hv, if_true, Bool.false_eq_true, if_false]
        rw [firstIP_eq_firstValid _ _ (Nat.lt_succ_self _)]
        cases firstValid utilsValid (get hs cfg.normProxyHeader) <;> rfl
      · simp [hv]
  have hhost : host cfg cn hs = docHost cn hs := by
    unfold host docHost
    simp only [ht, Bool.true_and]
    by_cases hx : get hs sXFH = []
    · simp [hx]
    · have hx' : (get hs sXFH == []) = false := by simpa using hx
      simp [hx, upToComma, pieces_head']
  have hsch : scheme cfg cn hs = docScheme cn hs := by
    unfold scheme docScheme
    simp only [ht, Bool.not_true, Bool.false_eq_true, if_false, scheme_fold]
  unfold documented
  simp only [outputs, hostname, baseURL, subdomains, hip, hhost, hsch, subOf, splitOn_eq_pieces]
  simp

/-- combined with `inSet_trusted`: peers inside the configured set get the documented values -/
theorem inSet_documented_values (cfg : Cfg) (cn : Conn) (off : Nat) (hs : Headers)
    (hb : bytesOK cn.rip) (hstr : StringFaithful cfg.proxies cn) (h : cfg.trustProxy = false ∨ inSet cfg cn = true) :
    documented utilsValid cfg cn off hs (outputs cfg cn off hs) = none :=
  trusted_documented_values cfg cn off hs (inSet_trusted cfg cn hb hstr h)

/-- fiber's validators decide exactly the RFC 791 / RFC 4291 §2.2 text grammar -/
theorem utilsValid_is_validIP : utilsValid = validIP := funext utilsValid_eq_validIP

/-- **the documented values, with "the first valid IP address" read in the RFC grammar** — the very
    function the run-time oracle evaluates on the implementation's outputs (`documented validIP`) is
    satisfied by the model's outputs for every trusted peer, every configuration and header list. -/
theorem trusted_documented_values_rfc (cfg : Cfg) (cn : Conn) (off : Nat) (hs : Headers)
    (ht : isProxyTrusted cfg cn = true) :
    documented validIP cfg cn off hs (outputs cfg cn off hs) = none := by
  rw [← utilsValid_is_validIP]; exact trusted_documented_values cfg cn off hs ht

/-- with validation on, a trusted peer and a ProxyHeader configured, `IP()` is the first element of
    the comma-separated header value (trimmed of spaces) in the RFC grammar, else the peer's address -/
theorem trusted_ip_first_valid (cfg : Cfg) (cn : Conn) (hs : Headers) (ht : isProxyTrusted cfg cn = true)
    (hp : cfg.proxyHeader ≠ []) (hv : cfg.validate = true) :
    ip cfg cn hs = (firstValid validIP (get hs cfg.normProxyHeader)).getD cn.ripStr := by
  unfold ip extractIPFromHeader
  simp only [ht, Bool.true_and, bne_iff_ne, ne_eq, hp, not_false_eq_true, if_true, hv]
  rw [firstIP_eq_firstValid _ _ (Nat.lt_succ_self _), utilsValid_is_validIP]
  cases firstValid validIP (get hs cfg.normProxyHeader) <;> rfl

-- non-vacuity: peer 10.0.0.1 is listed; the forwarded values are used
example :
    let cfg : Cfg := { trustProxy := true, loopback := false, priv := false, linkLocal := false,
                       proxies := [.ip (b "10.0.0.1") (v4in6 ++ [10, 0, 0, 1])],
                       proxyHeader := b "X-Forwarded-For", normProxyHeader := b "X-Forwarded-For", validate := true }
    let cn : Conn := { rip := [10, 0, 0, 1], ripStr := b "10.0.0.1", tls := false, uriHost := b "example.com", proto := b "HTTP/1.1" }
    let o := outputs cfg cn 2 [(b "X-Forwarded-For", b "bogus, 1.2.3.4"), (b "X-Forwarded-Proto", b "https"), (b "X-Forwarded-Host", b "a.b.c")]
    inSet cfg cn = true ∧ o.ip = b "1.2.3.4" ∧ o.scheme = b "https" ∧ o.host = b "a.b.c" ∧ o.secure = true := by
  decide

/-! ### validation -/

/-- With IP validation on, the reported client IP is the peer's own address or an element of the
    ProxyHeader that fiber's validators accept (`utils.IsIPv6` when it contains a colon, else
    `utils.IsIPv4`). -/
theorem validated_ip_is_accepted (cfg : Cfg) (cn : Conn) (hs : Headers) (hv : cfg.validate = true) :
    ip cfg cn hs = cn.ripStr ∨ utilsValid (ip cfg cn hs) = true := by
  unfold ip
  split
  · unfold extractIPFromHeader
    simp only [hv, if_true]
    rw [firstIP_eq_firstValid _ _ (Nat.lt_succ_self _)]
    cases hf : firstValid utilsValid (get hs cfg.normProxyHeader) with
    | none => left; rfl
    | some s => right; exact List.find?_some hf
  · left; rfl

/-- **With IP validation on, the reported client IP is always a syntactically valid address**: the
    peer's own address (as `net.IP.String()` prints it), or an element of the ProxyHeader in the
    RFC 791 dotted-quad / RFC 4291 §2.2 text grammar (`validIP`, the grammar the run-time oracle
    evaluates). Rests on `isIPv4_valid` and `fiberIsIPv6_valid` (the transcribed loops of
    `utils.IsIPv4` / `utils.IsIPv6` behind fiber's group-length scan accept only the grammar). -/
theorem validated_ip_is_valid (cfg : Cfg) (cn : Conn) (hs : Headers) (hv : cfg.validate = true)
    (hpeer : validIP cn.ripStr = true) : validIP (ip cfg cn hs) = true := by
  rcases validated_ip_is_accepted cfg cn hs hv with h | h
  · rw [h]; exact hpeer
  · exact utilsValid_valid h

-- non-vacuity: the first element is refused (a group of five digits: the input of the repaired
-- defect F5), the second is reported
example :
    let cfg : Cfg := { trustProxy := true, loopback := true, priv := false, linkLocal := false, proxies := [],
                       proxyHeader := b "X-Forwarded-For", normProxyHeader := b "X-Forwarded-For", validate := true }
    let cn : Conn := { rip := [127, 0, 0, 1], ripStr := b "127.0.0.1", tls := false, uriHost := b "example.com", proto := b "HTTP/1.1" }
    let hs : Headers := [(b "X-Forwarded-For", b "0:0:0:0:0:0:0:00001, 2001:db8::1.2.3.4")]
    cfg.validate = true ∧ validIP cn.ripStr = true ∧ ip cfg cn hs = b "2001:db8::1.2.3.4" ∧
      ips cfg hs = [b "2001:db8::1.2.3.4"] := by
  decide

/-- one loop iteration's test (`v6`/`v4` flags of the segment, fiber's `isIPv6`, `utils.IsIPv4`)
    lets only syntactically valid candidates through -/
theorem passes_valid {seg s : Bytes} (h : passes true seg s = true) : validIP s = true := by
  unfold passes at h
  unfold validIP
  simp only at h
  generalize seg.contains 58 = v6 at h
  generalize seg.contains 46 = v4 at h
  cases v6 <;> cases v4 <;> simp at h
  · simp [isIPv4_valid h]
  · simp [fiberIsIPv6_valid h]
  · simp [fiberIsIPv6_valid h]

/-- **with IP validation on every element of `IPs()` is a syntactically valid address** -/
theorem validated_ips_valid (cfg : Cfg) (hs : Headers) (hv : cfg.validate = true) :
    ∀ s ∈ ips cfg hs, validIP s = true := by
  unfold ips
  simp only [hv]
  generalize get hs sXFF = hvv
  generalize hvv.length + 1 = fuel
  induction fuel generalizing hvv with
  | zero => intro s h; simp [allIPs] at h
  | succ f ih =>
    intro s h
    cases hvv with
    | nil => simp [allIPs] at h
    | cons c0 tl =>
      simp only [allIPs] at h
      split at h
      · rename_i hp
        rcases List.mem_cons.1 h with rfl | h
        · exact passes_valid hp
        · exact ih _ s h
      · exact ih _ s h

example :
    let cfg : Cfg := { trustProxy := true, loopback := false, priv := false, linkLocal := false, proxies := [],
                       proxyHeader := [], normProxyHeader := [], validate := true }
    ips cfg [(b "X-Forwarded-For", b "1.2.3.4, bogus, ::ffff:5.6.7.8 ,12345::, 01.2.3.4")] = [b "1.2.3.4", b "::ffff:5.6.7.8"] := by
  decide

/-- the same for every element of `IPs()` -/
theorem validated_ips_accepted (cfg : Cfg) (hs : Headers) (hv : cfg.validate = true) :
    ∀ s ∈ ips cfg hs, ∃ seg, passes true seg s = true := by
  unfold ips
  simp only [hv]
  generalize get hs sXFF = hvv
  generalize hvv.length + 1 = fuel
  induction fuel generalizing hvv with
  | zero => intro s h; simp [allIPs] at h
  | succ f ih =>
    intro s h
    cases hvv with
    | nil => simp [allIPs] at h
    | cons c0 tl =>
      simp only [allIPs] at h
      split at h
      · rename_i hp
        rcases List.mem_cons.1 h with rfl | h
        · exact ⟨_, hp⟩
        · exact ih _ s h
      · exact ih _ s h

/-! ### header precedence, spelled out (corollaries of `trusted_documented_values` / `scheme_fold`) -/

/-- what one header says about the scheme: `X-Forwarded-Proto` / `-Protocol` the first element of
    their comma list, `X-Url-Scheme` its whole value (commas included), `X-Forwarded-Ssl` https when it
    is exactly `on` and nothing otherwise; any other name (look-alikes such as `X-Forwarded-Protoc`,
    `X-Url-Schemes`, `Forwarded`) nothing -/
theorem schemeOf_cases (k v : Bytes) :
    schemeOf (k, v) =
      if k = sXFProto ∨ k = sXFProtocol then some (v.takeWhile (· != 44))
      else if k = sXFSsl then (if v = b "on" then some sHTTPS else none)
      else if k = sXUrlScheme then some v
      else none := by
  unfold schemeOf
  by_cases h1 : k = sXFProto
  · subst h1; simp [pieces_head']
  by_cases h2 : k = sXFProtocol
  · subst h2; simp [pieces_head']
  by_cases h3 : k = sXFSsl
  · subst h3
    have e1 : (sXFSsl == sXFProto) = false := by decide
    have e2 : (sXFSsl == sXFProtocol) = false := by decide
    have n1 : ¬ sXFSsl = sXFProto := by decide
    have n2 : ¬ sXFSsl = sXFProtocol := by decide
    by_cases hv : v = b "on" <;> simp [e1, e2, n1, n2, hv]
  · simp [h1, h2, h3]

/-- TLS wins over every header -/
theorem scheme_tls_wins (cfg : Cfg) (cn : Conn) (hs : Headers) (h : cn.tls = true) : scheme cfg cn hs = sHTTPS := by
  simp [scheme, h]

/-- **the last header that says something decides**: whatever stands in front of it, whichever of the
    four it is, however often the same name occurs -/
theorem scheme_last_wins (cfg : Cfg) (cn : Conn) (ht : isProxyTrusted cfg cn = true) (hn : cn.tls = false)
    (pre post : Headers) (kv : Bytes × Bytes) (v : Bytes) (hkv : schemeOf kv = some v)
    (hpost : ∀ p ∈ post, schemeOf p = none) : scheme cfg cn (pre ++ kv :: post) = v := by
  have hf : post.reverse.filterMap schemeOf = [] := by
    rw [List.filterMap_eq_nil_iff]; intro p hp; exact hpost p (List.mem_reverse.1 hp)
  unfold scheme
  simp only [hn, ht, Bool.false_eq_true, if_false, Bool.not_true]
  rw [scheme_fold]
  have : (pre ++ kv :: post).reverse.filterMap schemeOf = v :: pre.reverse.filterMap schemeOf := by
    rw [List.reverse_append, List.reverse_cons, List.filterMap_append, List.filterMap_append, hf]
    simp [List.filterMap, hkv]
  rw [this]; rfl

/-- no header says anything (none of the four names, or only `X-Forwarded-Ssl` other than `on`): http -/
theorem scheme_default (cfg : Cfg) (cn : Conn) (ht : isProxyTrusted cfg cn = true) (hn : cn.tls = false)
    (hs : Headers) (h : ∀ p ∈ hs, schemeOf p = none) : scheme cfg cn hs = sHTTP := by
  have hf : hs.reverse.filterMap schemeOf = [] := by
    rw [List.filterMap_eq_nil_iff]; intro p hp; exact h p (List.mem_reverse.1 hp)
  simp [scheme, ht, hn, scheme_fold, hf]

-- non-vacuity: all four at once, twice over; `X-Forwarded-Ssl: off` at the end says nothing, so the
-- `X-Url-Scheme` before it decides; a look-alike name in between is ignored
example :
    let cfg : Cfg := { trustProxy := false, loopback := false, priv := false, linkLocal := false, proxies := [],
                       proxyHeader := [], normProxyHeader := [], validate := false }
    let cn : Conn := { rip := [8, 8, 8, 8], ripStr := b "8.8.8.8", tls := false, uriHost := b "example.com", proto := b "HTTP/1.1" }
    scheme cfg cn [(sXFProto, b "https,http"), (sXFSsl, b "on"), (sXFProtocol, b "http"), (sXUrlScheme, b "wss,x"),
                   (b "X-Url-Schemes", b "https"), (sXFSsl, b "off")] = b "wss,x" := by
  decide

/-- a trusted peer's host is the first element of the FIRST `X-Forwarded-Host` header (whatever it
    contains: port, IPv6 literal, nothing at all in front of a leading comma) when that header is not
    empty, else the Host header -/
theorem host_forwarded (cfg : Cfg) (cn : Conn) (hs : Headers) (ht : isProxyTrusted cfg cn = true) :
    host cfg cn hs = if get hs sXFH = [] then cn.uriHost else (get hs sXFH).takeWhile (· != 44) := by
  by_cases h : get hs sXFH = [] <;> simp [host, ht, h, upToComma]

/-- hostname = host up to its LAST colon: a port is cut off, also behind an IPv6 literal -/
theorem hostOnly_port (h p : Bytes) (hp : ¬ 58 ∈ p) : hostOnly (h ++ 58 :: p) = h := by
  unfold hostOnly
  have hc : (h ++ 58 :: p).contains 58 = true := by simp
  rw [hc]
  simp only [if_true, List.reverse_append, List.reverse_cons, List.append_assoc, List.singleton_append]
  have hd : (p.reverse ++ 58 :: h.reverse).dropWhile (· != 58) = 58 :: h.reverse := by
    rw [List.dropWhile_append]
    have hall : ∀ (l : Bytes), (¬ 58 ∈ l) → l.dropWhile (· != 58) = [] := by
      intro l hl
      induction l with
      | nil => rfl
      | cons x xs ih =>
        have hx : (x != 58) = true := by
          have : x ≠ 58 := fun e => hl (by simp [e])
          simpa using this
        simp only [List.dropWhile_cons, hx, if_true]
        exact ih fun e => hl (by simp [e])
    have : p.reverse.dropWhile (· != 58) = [] := hall _ (fun e => hp (List.mem_reverse.1 e))
    simp [this]
  rw [hd]; simp

theorem hostOnly_noColon (h : Bytes) (hc : ¬ 58 ∈ h) : hostOnly h = h := by
  unfold hostOnly
  have : h.contains 58 = false := by
    cases hh : h.contains 58 with
    | false => rfl
    | true => exact absurd (List.contains_iff_mem.1 hh) hc
  rw [this]; rfl

example : hostOnly (b "[2001:db8::1]:8080") = b "[2001:db8::1]" ∧ hostOnly (b "a.example.com:443") = b "a.example.com" ∧
    hostOnly (b "example.com") = b "example.com" := by decide

/-! ### the same with `net.IP.String()` inside the model -/

/-- the trust decision is membership in the configured set, for every peer and every list of
    configured addresses whose texts are `net.IP.String()` as transcribed (`ipString`) — no assumption
    about `String()` left: two addresses print alike iff they are the same address (`ipString_inj`) -/
theorem trusted_eq_inSet_of_format (cfg : Cfg) (cn : Conn) (hf : FormatOK cfg.proxies cn) :
    isProxyTrusted cfg cn = (!cfg.trustProxy || inSet cfg cn) :=
  trusted_eq_inSet cfg cn hf.2.1 (stringFaithful_of_format cfg.proxies cn hf)

theorem untrusted_noninterference_of_format (cfg : Cfg) (cn : Conn) (off : Nat) (hf : FormatOK cfg.proxies cn)
    (hon : cfg.trustProxy = true) (hout : inSet cfg cn = false) (hs1 hs2 : Headers) :
    gated (outputs cfg cn off hs1) = gated (outputs cfg cn off hs2) ∧
    connOnly cn off (outputs cfg cn off hs1) = true :=
  untrusted_noninterference cfg cn off hf.2.1 (stringFaithful_of_format cfg.proxies cn hf) hon hout hs1 hs2

theorem inSet_documented_values_of_format (cfg : Cfg) (cn : Conn) (off : Nat) (hs : Headers)
    (hf : FormatOK cfg.proxies cn) (h : cfg.trustProxy = false ∨ inSet cfg cn = true) :
    documented validIP cfg cn off hs (outputs cfg cn off hs) = none :=
  trusted_documented_values_rfc cfg cn off hs
    (inSet_trusted cfg cn hf.2.1 (stringFaithful_of_format cfg.proxies cn hf) h)

/-- with validation on the reported IP is a syntactically valid address — unconditionally: the peer's
    own text is `ipString` of its bytes, which is in the grammar (`ipString_valid`) -/
theorem validated_ip_is_valid_of_format (cfg : Cfg) (cn : Conn) (hs : Headers) (hf : FormatOK cfg.proxies cn)
    (hv : cfg.validate = true) : validIP (ip cfg cn hs) = true :=
  validated_ip_is_valid cfg cn hs hv (by rw [hf.2.2.1]; exact ipString_valid cn.rip hf.1 hf.2.1)

-- non-vacuity: a 16-byte peer 2001:db8::1, listed in another spelling's canonical key; a look-alike
-- entry (the low four bytes as IPv4) and the v4-mapped form of those bytes do not cover it
example :
    let peer : Bytes := [0x20, 1, 0xd, 0xb8, 0, 0, 0, 0, 0, 0, 0, 0, 0, 0, 0, 1]
    let other : Bytes := v4in6 ++ [0, 0, 0, 1]
    let cn : Conn := { rip := peer, ripStr := b "2001:db8::1", tls := false, uriHost := b "example.com", proto := b "HTTP/1.1" }
    FormatOK [.ip (b "2001:db8::1") peer, .ip (b "0.0.0.1") other] cn ∧
    FormatOK [.ip (b "0.0.0.1") other] cn ∧
    inSet { trustProxy := true, loopback := false, priv := false, linkLocal := false, proxies := [.ip (b "0.0.0.1") other],
            proxyHeader := [], normProxyHeader := [], validate := false } cn = false := by
  refine ⟨⟨Or.inr rfl, by unfold bytesOK; decide, by decide, ?_⟩, ⟨Or.inr rfl, by unfold bytesOK; decide, by decide, ?_⟩, by decide⟩
  · intro canon ip16 hm
    simp only [List.mem_cons, Proxy.ip.injEq, List.mem_nil_iff, or_false] at hm
    rcases hm with ⟨rfl, rfl⟩ | ⟨rfl, rfl⟩ <;> exact ⟨rfl, by unfold bytesOK; decide, by decide⟩
  · intro canon ip16 hm
    simp only [List.mem_cons, Proxy.ip.injEq, List.mem_nil_iff, or_false] at hm
    rcases hm with ⟨rfl, rfl⟩
    exact ⟨rfl, by unfold bytesOK; decide, by decide⟩

/-! ### histories: the trust decision is a function of configuration and peer only -/

/-- two connections with the same peer address get the same trust decision, whatever else differs
    (TLS, Host, protocol) and whatever was served before -/
theorem trust_is_function_of_config_and_peer (cfg : Cfg) (cn1 cn2 : Conn) (h : cn1.rip = cn2.rip)
    (hs : cn1.ripStr = cn2.ripStr) : isProxyTrusted cfg cn1 = isProxyTrusted cfg cn2 := by
  unfold isProxyTrusted; rw [h, hs]

/-- with `net.IP.String()` inside the model the peer bytes alone decide -/
theorem trust_is_function_of_peer_bytes (cfg : Cfg) (cn1 cn2 : Conn) (h : cn1.rip = cn2.rip)
    (h1 : cn1.ripStr = ipString cn1.rip) (h2 : cn2.ripStr = ipString cn2.rip) :
    isProxyTrusted cfg cn1 = isProxyTrusted cfg cn2 :=
  trust_is_function_of_config_and_peer cfg cn1 cn2 h (by rw [h1, h2, h])

/-- the answer to the last request of a history does not depend on the earlier requests -/
theorem history_last_output (cfg : Cfg) (off : Nat) (earlier : List (Conn × Headers)) (cn : Conn) (hs : Headers) :
    (serveAll cfg off (earlier ++ [(cn, hs)])).getLast? = some (outputs cfg cn off hs) := by
  simp [serveAll]

/-- **non-interference along a history**: whatever peers (trusted or not, however their bytes relate to
    this one's) were served before with whatever headers, a request from a peer outside the configured
    set gets the connection/Host-only values, the same for any two header lists -/
theorem history_untrusted_noninterference (cfg : Cfg) (off : Nat) (earlier1 earlier2 : List (Conn × Headers))
    (cn : Conn) (hf : FormatOK cfg.proxies cn) (hon : cfg.trustProxy = true) (hout : inSet cfg cn = false)
    (hs1 hs2 : Headers) :
    ∃ o1 o2, (serveAll cfg off (earlier1 ++ [(cn, hs1)])).getLast? = some o1 ∧
      (serveAll cfg off (earlier2 ++ [(cn, hs2)])).getLast? = some o2 ∧
      gated o1 = gated o2 ∧ connOnly cn off o1 = true :=
  ⟨_, _, history_last_output cfg off earlier1 cn hs1, history_last_output cfg off earlier2 cn hs2,
    (untrusted_noninterference_of_format cfg cn off hf hon hout hs1 hs2).1,
    (untrusted_noninterference_of_format cfg cn off hf hon hout hs1 hs2).2⟩

-- non-vacuity: 10.0.0.1 (inside the listed 10.0.0.0/8) is trusted, a00:1:: — the same leading four
-- bytes, zero tail — is not, in either order of a history
example :
    let cfg : Cfg := { trustProxy := true, loopback := false, priv := false, linkLocal := false,
                       proxies := [.cidr [10, 0, 0, 0] [255, 0, 0, 0]], proxyHeader := b "X-Forwarded-For",
                       normProxyHeader := b "X-Forwarded-For", validate := false }
    let v4 : Conn := { rip := [10, 0, 0, 1], ripStr := b "10.0.0.1", tls := false, uriHost := b "example.com", proto := b "HTTP/1.1" }
    let v6 : Conn := { rip := [10, 0, 0, 1] ++ List.replicate 12 0, ripStr := b "a00:1::", tls := false, uriHost := b "example.com", proto := b "HTTP/1.1" }
    let hs : Headers := [(b "X-Forwarded-For", b "1.2.3.4"), (b "X-Forwarded-Proto", b "https")]
    v6.ripStr = ipString v6.rip ∧ inSet cfg v4 = true ∧ inSet cfg v6 = false ∧
    (serveAll cfg 2 [(v4, hs), (v6, hs), (v4, hs)]).map (·.ip) = [b "1.2.3.4", b "a00:1::", b "1.2.3.4"] ∧
    (serveAll cfg 2 [(v4, hs), (v6, hs)]).map (·.scheme) = [b "https", b "http"] := by
  decide

/-! ### secure flag -/

/-- the secure flag is true exactly when the scheme is https -/
theorem secure_iff_https (cfg : Cfg) (cn : Conn) (hs : Headers) :
    secure cfg cn hs = true ↔ scheme cfg cn hs = sHTTPS := by
  simp [secure]

/-- and the scheme is https on every TLS connection -/
theorem tls_is_secure (cfg : Cfg) (cn : Conn) (hs : Headers) (h : cn.tls = true) : secure cfg cn hs = true := by
  simp [secure, scheme, h]

end C10
