import FiberModel.C10.Spec
/-
C10 — helper lemmas: Go's mask tests vs the documented address blocks, the `ips` map lookup vs
equality of addresses, `strings.Split` vs `pieces`, the `VisitAll` fold of `Scheme` vs "last scheme
header wins", the hand-written comma loop of `extractIPFromHeader` vs "first valid element".
-/
namespace C10
open B

/-! ### bytes and masks -/

def bytesOK (ip : Bytes) : Prop := ∀ x ∈ ip, x < 256

set_option maxRecDepth 100000 in
theorem mask240 : ∀ c, c < 256 → ((c &&& 240 == 16) = (decide (16 ≤ c) && decide (c ≤ 31))) := by decide
set_option maxRecDepth 100000 in
theorem mask254 : ∀ c, c < 256 → ((c &&& 254 == 252) = (decide (252 ≤ c) && decide (c ≤ 253))) := by decide
set_option maxRecDepth 100000 in
theorem mask192 : ∀ c, c < 256 → ((c &&& 192 == 128) = (decide (128 ≤ c) && decide (c ≤ 191))) := by decide

theorem getD_lt {l : Bytes} (h : bytesOK l) (i : Nat) : l[i]?.getD 0 < 256 := by
  cases hi : l[i]? with
  | none => simp
  | some x => simpa using h x (List.mem_of_getElem? hi)

theorem to4_bytesOK {ip v4 : Bytes} (h : bytesOK ip) (h4 : to4 ip = some v4) : bytesOK v4 := by
  unfold to4 at h4
  split at h4
  · cases h4; exact h
  · split at h4
    · cases h4; exact fun x hx => h x (List.mem_of_mem_drop hx)
    · cases h4

theorem isLoopback_eq (ip : Bytes) : isLoopback ip = inLoopback ip := by
  unfold isLoopback inLoopback
  cases to4 ip with
  | none => rfl
  | some v4 => cases h : v4[0]? <;> simp [h]

theorem isPrivate_eq (ip : Bytes) (h : bytesOK ip) : isPrivate ip = inPrivate ip := by
  unfold isPrivate inPrivate
  cases h4 : to4 ip with
  | none => simp only; rw [mask254 _ (getD_lt h 0)]; simp [Bool.and_assoc]
  | some v4 => simp only; rw [mask240 _ (getD_lt (to4_bytesOK h h4) 1)]; simp [Bool.and_assoc]

theorem isLinkLocal_eq (ip : Bytes) (h : bytesOK ip) : isLinkLocal ip = inLinkLocal ip := by
  unfold isLinkLocal inLinkLocal
  cases h4 : to4 ip with
  | none =>
    simp only; rw [mask192 _ (getD_lt h 1)]
    cases h0 : ip[0]? <;> simp [Bool.and_assoc]
  | some v4 =>
    simp only
    cases h0 : v4[0]? <;> cases h1 : v4[1]? <;> simp

/-! ### the trust decision is membership in the configured set -/

/-- `net.IP.String()` is a function of the address and injective on addresses: a listed entry has the
    peer's canonical text exactly when it is the peer's address (checked by the driver on every case) -/
def StringFaithful (ps : List Proxy) (cn : Conn) : Prop :=
  ∀ canon ip16, Proxy.ip canon ip16 ∈ ps → (canon = cn.ripStr ↔ ip16 = to16 cn.rip)

theorem listed_eq (ps : List Proxy) (cn : Conn) (hs : StringFaithful ps cn) :
    ((ipKeys ps).contains cn.ripStr || (ranges ps).any fun (n, m) => cidrContains n m cn.rip) =
      ps.any (entryCovers cn.rip) := by
  induction ps with
  | nil => simp [ipKeys, ranges]
  | cons p ps ih =>
    have hs' : StringFaithful ps cn := fun c i hm => hs c i (by simp [hm])
    have ih' := ih hs'
    cases p with
    | ip canon ip16 =>
      have hk : ipKeys (Proxy.ip canon ip16 :: ps) = canon :: ipKeys ps := by simp [ipKeys]
      have hr : ranges (Proxy.ip canon ip16 :: ps) = ranges ps := by simp [ranges]
      have hiff := hs canon ip16 (by simp)
      have hb : (cn.ripStr == canon) = (ip16 == to16 cn.rip) := by
        by_cases hc : canon = cn.ripStr
        · have := hiff.1 hc; rw [hc, this]; simp
        · have h2 : ¬ ip16 = to16 cn.rip := fun e => hc (hiff.2 e)
          have h3 : ¬ cn.ripStr = canon := fun e => hc e.symm
          have e1 : (cn.ripStr == canon) = false := by simpa using h3
          have e2 : (ip16 == to16 cn.rip) = false := by simpa using h2
          rw [e1, e2]
      rw [hk, hr, List.contains_cons, List.any_cons, ← ih', hb]
      simp [entryCovers, Bool.or_assoc]
    | cidr n m =>
      have hk : ipKeys (Proxy.cidr n m :: ps) = ipKeys ps := by simp [ipKeys]
      have hr : ranges (Proxy.cidr n m :: ps) = (n, m) :: ranges ps := by simp [ranges]
      rw [hk, hr, List.any_cons, List.any_cons, ← ih']
      simp only [entryCovers]
      cases (ipKeys ps).contains cn.ripStr <;> cases cidrContains n m cn.rip <;> simp
    | bad =>
      have hk : ipKeys (Proxy.bad :: ps) = ipKeys ps := by simp [ipKeys]
      have hr : ranges (Proxy.bad :: ps) = ranges ps := by simp [ranges]
      rw [hk, hr, List.any_cons, ← ih']
      simp [entryCovers]

theorem trusted_eq_inSet (cfg : Cfg) (cn : Conn) (hb : bytesOK cn.rip) (hs : StringFaithful cfg.proxies cn) :
    isProxyTrusted cfg cn = (!cfg.trustProxy || inSet cfg cn) := by
  unfold isProxyTrusted inSet
  rw [isLoopback_eq, isPrivate_eq _ hb, isLinkLocal_eq _ hb, ← listed_eq cfg.proxies cn hs]
  simp [Bool.or_assoc]

/-! ### `strings.Split` -/

theorem pieces_ne_nil (c : Nat) (s : Bytes) : pieces c s ≠ [] := by
  cases s with
  | nil => simp [pieces]
  | cons x xs =>
    simp only [pieces]
    split
    · simp
    · split <;> simp

theorem splitOn_go_eq (c : Nat) (s acc : Bytes) :
    splitOn.go c s acc = (acc.reverse ++ (pieces c s).headD []) :: (pieces c s).tail := by
  induction s generalizing acc with
  | nil => simp [splitOn.go, pieces]
  | cons x xs ih =>
    simp only [splitOn.go, pieces]
    by_cases h : (x == c) = true
    · simp only [h, if_true, List.headD_cons, List.tail_cons, List.append_nil]
      rw [ih []]
      have := pieces_ne_nil c xs
      cases hp : pieces c xs with
      | nil => exact absurd hp this
      | cons p ps => simp
    · simp only [h]
      rw [ih (x :: acc)]
      have := pieces_ne_nil c xs
      cases hp : pieces c xs with
      | nil => exact absurd hp this
      | cons p ps => simp

theorem splitOn_eq_pieces (s : Bytes) (c : Nat) : splitOn s c = pieces c s := by
  unfold splitOn
  rw [splitOn_go_eq]
  have := pieces_ne_nil c s
  cases hp : pieces c s with
  | nil => exact absurd hp this
  | cons p ps => simp

theorem pieces_head (s : Bytes) : (pieces 44 s).headD [] = s.takeWhile (· != 44) := by
  induction s with
  | nil => simp [pieces]
  | cons x xs ih =>
    simp only [pieces]
    by_cases h : (x == 44) = true
    · have hne : (x != 44) = false := by simp [bne, h]
      simp [h, hne]
    · have hne : (x != 44) = true := by simpa using h
      simp only [h, List.takeWhile_cons, hne, if_true]
      have := pieces_ne_nil 44 xs
      cases hp : pieces 44 xs with
      | nil => exact absurd hp this
      | cons p ps => rw [hp] at ih; simpa using ih

/-! ### `Scheme`: the fold over `VisitAll` -/

theorem pieces_head' (s : Bytes) : (pieces 44 s).head?.getD [] = s.takeWhile (· != 44) := by
  rw [← pieces_head s]; cases pieces 44 s <;> rfl

theorem schemeStep_eq (s : Bytes) (kv : Bytes × Bytes) : schemeStep s kv = (schemeOf kv).getD s := by
  obtain ⟨k, v⟩ := kv
  unfold schemeStep schemeOf
  simp only
  by_cases h1 : k = sXFProto
  · subst h1; simp [sXFProto, pieces_head', upToComma, b, hasPrefix]
  by_cases h2 : k = sXFProtocol
  · subst h2; simp [sXFProtocol, sXFProto, pieces_head', upToComma, b, hasPrefix]
  by_cases h3 : k = sXFSsl
  · subst h3
    by_cases hv : v = [111, 110] <;> simp [sXFSsl, sXFProto, sXFProtocol, b, hasPrefix, hv]
  by_cases h4 : k = sXUrlScheme
  · subst h4; simp [sXFSsl, sXFProto, sXFProtocol, sXUrlScheme, b, hasPrefix]
  simp [h1, h2, h3, h4]
  repeat' split
  all_goals rfl

theorem foldl_last {α β : Type} (f : α → Option β) (l : List α) (init : β) :
    l.foldl (fun s x => (f x).getD s) init = ((l.reverse.filterMap f).head?).getD init := by
  induction l generalizing init with
  | nil => simp
  | cons x xs ih =>
    simp only [List.foldl_cons, ih, List.reverse_cons, List.filterMap_append]
    cases hx : f x with
    | none => simp [List.filterMap, hx]
    | some y =>
      cases hh : (List.filterMap f xs.reverse).head? with
      | none =>
        have : List.filterMap f xs.reverse = [] := by simpa using hh
        simp [this, List.filterMap, hx]
      | some z =>
        have : ∃ t, List.filterMap f xs.reverse = z :: t := by
          cases hl : List.filterMap f xs.reverse with
          | nil => simp [hl] at hh
          | cons a t => simp [hl] at hh; exact ⟨t, by rw [hh]⟩
        obtain ⟨t, ht⟩ := this
        simp [ht]

theorem scheme_fold (hs : Headers) : hs.foldl schemeStep sHTTP = ((hs.reverse.filterMap schemeOf).head?).getD sHTTP := by
  have : schemeStep = fun s kv => (schemeOf kv).getD s := by funext s kv; exact schemeStep_eq s kv
  rw [this]; exact foldl_last schemeOf hs sHTTP

end C10
