import FiberModel.C15.Frame
/-
C15 — the absolute deadline of a session is fixed: for as long as an id yields data, the absolute deadline
stored with it is the one it had — no request (inside the domain of the oracle: no `Save` after `Destroy`;
any number of `store.Get` per request) extends, shortens or drops it. Together with `fresh_otherwise` (a new session gets
`now + AbsoluteTimeout`) and `absolute_timeout_ends_session` this is "absolute timeouts end sessions"
whatever the activity on the session.
-/
namespace C15
open B

section
variable {gen : Nat → Bytes} {cfg : Cfg} {id : Bytes} {A : Option Nat}

/-- the storage side: whatever `id` yields carries the deadline `A`; `id` is not generated (again) -/
structure AbsC (gen : Nat → Bytes) (id : Bytes) (A : Option Nat) (c : RCtx) : Prop where
  store : ∀ b, c.st.get id = some b → b.abs = A
  never : NeverGen gen c.st.nid id
  locals : ∀ i, c.locals = some i → i ≠ id
  pool : PoolEmpty c.st

/-- the handler side: a session object under `id` carries `A`, unless it was destroyed (`d` = some
    Store-API session was destroyed in this request; the middleware has its own flag) -/
structure AbsH (gen : Nat → Bytes) (id : Bytes) (A : Option Nat) (d : Bool) (h : HSt) : Prop where
  c : AbsC gen id A h.c
  mw : h.destroyed = false → ∀ s, h.mw = some s → s.id = id → s.data.abs = A
  cur : d = false → ∀ s, h.cur = .other s → s.id = id → s.data.abs = A

theorem absc_del {c : RCtx} (h : AbsC gen id A c) (x : Bytes) (c' : RCtx) (hst : c'.st = c.st.del x)
    (hl : c'.locals = c.locals) : AbsC gen id A c' := by
  refine ⟨?_, ?_, ?_, ?_⟩
  · intro b hb
    rw [hst] at hb
    by_cases hx : id = x
    · subst hx; rw [get_del_self] at hb; cases hb
    · rw [get_del_ne _ hx] at hb; exact h.store b hb
  · rw [hst]; simpa using h.never
  · rw [hl]; exact h.locals
  · rw [hst]; simpa [PoolEmpty] using h.pool

theorem absc_bump {c : RCtx} (h : AbsC gen id A c) (c' : RCtx) (hst : c'.st = { c.st with nid := c.st.nid + 1 })
    (hl : ∀ i, c'.locals = some i → i ≠ id) : AbsC gen id A c' := by
  refine ⟨?_, ?_, hl, ?_⟩
  · intro b hb; rw [hst] at hb; exact h.store b hb
  · rw [hst]; exact h.never.mono (by simp)
  · rw [hst]; exact h.pool

theorem abs_destroy {c : RCtx} (h : AbsC gen id A c) (s : Sess) : AbsC gen id A (sessDestroy cfg c s).1 :=
  absc_del h s.id _ (sessDestroy_st cfg c s) (sessDestroy_locals cfg c s)

theorem abs_regenerate {c : RCtx} (h : AbsC gen id A c) (s : Sess) :
    AbsC gen id A (sessRegenerate gen c s).1 ∧ (sessRegenerate gen c s).2.id ≠ id := by
  have h1 : AbsC gen id A ({ c with st := c.st.del s.id } : RCtx) := absc_del h s.id _ rfl rfl
  refine ⟨absc_bump h1 _ (by rw [sessRegenerate_st]; simp) (by rw [sessRegenerate_locals]; exact h.locals), ?_⟩
  rw [sessRegenerate_snd]; exact h.never _ (Nat.le_refl _)

theorem abs_reset {c : RCtx} (h : AbsC gen id A c) (s : Sess) :
    AbsC gen id A (sessReset cfg gen c s).1 ∧ (sessReset cfg gen c s).2.id ≠ id := by
  have h1 : AbsC gen id A ({ c with st := c.st.del s.id } : RCtx) := absc_del h s.id _ rfl rfl
  refine ⟨absc_bump h1 _ (by rw [sessReset_st]; simp) (by rw [sessReset_locals]; exact h.locals), ?_⟩
  rw [sessReset_snd]; exact h.never _ (Nat.le_refl _)

theorem get_set_self_eq {st : St} {x : Bytes} {d b : SData} {ttl : Nat} (h : (st.set x d ttl).get x = some b) :
    b = d := by
  by_cases hx : x = []
  · subst hx; simp [St.get] at h
  · simp only [St.set, hx, if_false, St.get, lookup_put_self] at h
    by_cases hl : Entry.live { blob := d, deadline := if ttl = 0 then none else some (st.now + ttl) } st.now = true
    · simp only [hl, if_true, Option.some.injEq] at h; exact h.symm
    · simp only [hl, Bool.false_eq_true, if_false] at h; cases h

theorem abs_save {c : RCtx} (h : AbsC gen id A c) {s : Sess} (hs : s.id = id → s.data.abs = A) :
    AbsC gen id A (sessSave cfg c s).1 ∧ ((sessSave cfg c s).2.id = id → (sessSave cfg c s).2.data.abs = A) := by
  refine ⟨⟨?_, ?_, ?_, ?_⟩, ?_⟩
  · intro b hb
    rw [sessSave_st] at hb
    by_cases hx : id = s.id
    · -- the entry is the saved one
      rw [hx] at hb
      rw [get_set_self_eq hb]; exact hs hx.symm
    · rw [get_set_ne _ hx] at hb; exact h.store b hb
  · rw [sessSave_st]; simpa using h.never
  · rw [sessSave_locals]; exact h.locals
  · rw [sessSave_st]; simpa [PoolEmpty] using h.pool
  · rw [sessSave_snd]; exact hs

theorem abs_acquire {c : RCtx} (h : AbsC gen id A c) : AbsC gen id A (acquire c).1 ∧ (acquire c).2 = SData.empty := by
  obtain ⟨h1, h2, h3, h4, _⟩ := acquire_spec c
  obtain ⟨_, _, _, h5, _, _⟩ := acquire_fields c
  refine ⟨⟨?_, by rw [h1]; exact h.never, by rw [h5]; exact h.locals, fun d hd => h.pool d (h4 d hd)⟩, acquire_empty h.pool⟩
  intro b hb
  rw [get_congr h2 h3] at hb
  exact h.store b hb

theorem abs_finishLoad {c : RCtx} (h : AbsC gen id A c) {s : Sess} (hs : s.id = id → s.data.abs = A ∧ s.fresh = false) :
    AbsC gen id A (finishLoad cfg gen c s).1 ∧
    ((finishLoad cfg gen c s).2.id = id → (finishLoad cfg gen c s).2.data.abs = A) := by
  unfold finishLoad
  split
  · rename_i hf
    refine ⟨h, ?_⟩
    intro hid
    have := (hs hid).2
    simp [this] at hf
  · split
    · have := abs_reset (cfg := cfg) h s
      exact ⟨this.1, fun hid => absurd hid this.2⟩
    · exact ⟨h, fun hid => (hs hid).1⟩

theorem abs_getSession {c : RCtx} (h : AbsC gen id A c) :
    AbsC gen id A (getSession cfg gen c).1 ∧
    ((getSession cfg gen c).2.id = id → (getSession cfg gen c).2.data.abs = A) := by
  cases hg : c.st.get (lookupId cfg c) with
  | none =>
    rw [getSession_none hg]
    have h1 : AbsC gen id A (afterNew gen c) :=
      absc_bump h _ (afterNew_st gen c) (by
        intro i hi
        simp only [afterNew, newID, Option.some.injEq] at hi
        rw [← hi]; exact h.never _ (Nat.le_refl _))
    have h2 := abs_acquire h1
    apply abs_finishLoad h2.1
    intro hid
    exact absurd hid (h.never _ (Nat.le_refl _))
  | some blob =>
    rw [getSession_some hg]
    have h2 := abs_acquire h
    apply abs_finishLoad h2.1
    intro hid
    have hid' : lookupId cfg c = id := hid
    rw [h2.2, merge_empty_abs]
    refine ⟨h.store blob (by rw [← hid']; exact hg), ?_⟩
    -- the id was found under `Locals` only if it was generated in this request, which `id` was not
    cases hl : c.locals with
    | none => rfl
    | some i =>
      have : lookupId cfg c = i := by simp [lookupId, hl]
      exact absurd (this.symm.trans hid') (h.locals i hl)

theorem abs_getByID {c : RCtx} (h : AbsC gen id A c) (x : Bytes) :
    AbsC gen id A (getByID cfg c x).1 ∧ ∀ s, (getByID cfg c x).2 = .ok s → s.id = id → s.data.abs = A := by
  unfold getByID
  split
  · exact ⟨h, by intro s hs; cases hs⟩
  · cases hg : c.st.get x with
    | none => exact ⟨h, by intro s hs; cases hs⟩
    | some blob =>
      have h2 := abs_acquire h
      simp only
      split
      · exact ⟨abs_destroy (cfg := cfg) h2.1
          { id := x, data := (acquire c).2.merge blob, fresh := false, hasCtx := false }, by intro s hs; cases hs⟩
      · refine ⟨h2.1, ?_⟩
        intro s hs hid
        simp only [Except.ok.injEq] at hs
        subst hs
        simp only at hid ⊢
        rw [h2.2, merge_empty_abs]
        exact h.store blob (by rw [← hid]; exact hg)

/-- is the handler's current session object one that has not been destroyed in this request? -/
def liveCur (d : Bool) (h : HSt) : Prop :=
  match h.cur with
  | .mw => h.destroyed = false
  | .other _ => d = false
  | .none => False

theorem AbsH.sess {d : Bool} {h : HSt} (ha : AbsH gen id A d h) {s : Sess} (hs : h.sess = some s)
    (hl : liveCur d h) (hid : s.id = id) : s.data.abs = A := by
  unfold HSt.sess at hs
  unfold liveCur at hl
  split at hs
  · cases hs
  · rename_i hc
    rw [hc] at hl
    exact ha.mw hl s hs hid
  · rename_i s' hc
    rw [hc] at hl
    simp only [Option.some.injEq] at hs
    subst hs
    exact ha.cur hl _ hc hid

theorem AbsH.put {d : Bool} {h : HSt} (ha : AbsH gen id A d h) {c' : RCtx} (hc : AbsC gen id A c') {s' : Sess}
    (hs : liveCur d h → s'.id = id → s'.data.abs = A) :
    AbsH gen id A d (({ h with c := c' } : HSt).putSess s') := by
  unfold HSt.putSess
  unfold liveCur at hs
  split
  · exact ⟨hc, ha.mw, ha.cur⟩
  · rename_i hcur
    simp only at hcur
    rw [hcur] at hs
    refine ⟨hc, ?_, ?_⟩
    · intro hd s0 hs0 hid
      simp only [Option.some.injEq] at hs0
      subst hs0
      exact hs hd hid
    · intro _ s0 hs0; simp only at hs0; rw [hcur] at hs0; cases hs0
  · rename_i s0 hcur
    simp only at hcur
    rw [hcur] at hs
    refine ⟨hc, ha.mw, ?_⟩
    intro hd s1 hs1 hid
    simp only [Cur.other.injEq] at hs1
    subst hs1
    exact hs hd hid

/-- one handler action keeps the absolute deadline stored under `id` (inside the domain: `Save` only while
    nothing was destroyed in this request; `store.Get` any number of times) -/
theorem act_abs {h : HSt} {d : Bool} (ha : AbsH gen id A d h) (a : Act)
    (hal : actAllowed d a = true) : AbsH gen id A (nextD d a) (act cfg gen h a).1 := by
  cases a with
  | storeGet =>
    simp only [act, nextD]
    split
    · exact ha
    · have := abs_getSession (cfg := cfg) ha.c
      refine ⟨this.1, ha.mw, ?_⟩
      intro _ s hs hid
      simp only [Cur.other.injEq] at hs
      subst hs
      exact this.2 hid
  | byID x =>
    simp only [act, nextD]
    have hg := abs_getByID (cfg := cfg) ha.c x
    split
    · rename_i c e heq
      have hc : (getByID cfg h.c x).1 = c := by rw [heq]
      subst hc
      exact ⟨hg.1, ha.mw, ha.cur⟩
    · rename_i c s heq
      have h1 : (getByID cfg h.c x).1 = c := by rw [heq]
      have h2 : (getByID cfg h.c x).2 = .ok s := by rw [heq]
      subst h1
      refine ⟨hg.1, ha.mw, ?_⟩
      intro _ s' hs' hid
      simp only [Cur.other.injEq] at hs'
      subst hs'
      exact hg.2 s h2 hid
  | storeDelete x =>
    simp only [act, nextD]
    split
    · exact ha
    · exact ⟨absc_del ha.c x _ rfl rfl, ha.mw, ha.cur⟩
  | storeReset =>
    simp only [act, nextD]
    refine ⟨⟨?_, ha.c.never, ha.c.locals, ha.c.pool⟩, ha.mw, ha.cur⟩
    intro b hb
    simp [St.get, lookup] at hb
  | info | get k | keys =>
    simp only [act, nextD]
    split <;> exact ha
  | set k v | del k | idle secs =>
    simp only [act, nextD]
    split
    · exact ha
    · rename_i s hs
      have hprop : liveCur d h → s.id = id → s.data.abs = A := fun hl hid => ha.sess hs hl hid
      exact ha.put (c' := h.c) ha.c hprop
  | destroy =>
    simp only [act, nextD]
    split
    · exact ⟨ha.c, ha.mw, (by intro hd; cases hd)⟩
    · rename_i s hs
      have hc := abs_destroy (cfg := cfg) ha.c s
      -- the destroyed object is poisoned: from now on it is covered by `d` / the middleware's flag
      cases hcur : h.cur with
      | none => simp [HSt.sess, hcur] at hs
      | mw =>
        simp only [HSt.putSess, hcur, if_true]
        exact ⟨hc, (by intro hd; cases hd), (by intro hd; cases hd)⟩
      | other s0 =>
        simp only [HSt.putSess, hcur]
        exact ⟨hc, ha.mw, (by intro hd; cases hd)⟩
  | regenerate =>
    simp only [act, nextD]
    split
    · exact ha
    · rename_i s hs
      have := abs_regenerate ha.c s
      exact ha.put this.1 (fun _ hid => absurd hid this.2)
  | reset =>
    simp only [act, nextD]
    split
    · exact ha
    · rename_i s hs
      have := abs_reset (cfg := cfg) ha.c s
      exact ha.put this.1 (fun _ hid => absurd hid this.2)
  | save =>
    simp only [act, nextD]
    have hd : d = false := by simpa [actAllowed] using hal
    split
    · exact ha
    · rename_i s hs
      split
      · exact ha
      · rename_i hcur
        have hl : liveCur d h := by
          unfold liveCur
          unfold HSt.sess at hs
          split at hs
          · cases hs
          · rename_i hc; exact absurd hc hcur
          · rename_i s' hc; rw [hc]; exact hd
        have := abs_save (cfg := cfg) ha.c (s := s) (fun hid => ha.sess hs hl hid)
        exact ha.put this.1 (fun _ hid => this.2 hid)
  | release =>
    simp only [act, nextD]
    split
    · exact ha
    · split
      · exact ha
      · refine ⟨⟨?_, ha.c.never, ha.c.locals, ?_⟩, ha.mw, by intro _ s' hs'; cases hs'⟩
        · intro b hb; exact ha.c.store b ((get_congr (st := h.c.st) rfl rfl id).symm.trans hb)
        · intro d' hd'
          simp only [release, List.mem_cons] at hd'
          rcases hd' with rfl | hd'
          · rfl
          · exact ha.c.pool d' hd'

theorem runScript_abs (as : List Act) :
    ∀ (h : HSt) (d : Bool), AbsH gen id A d h → scriptInDomain d as = true →
      AbsH gen id A (as.foldl nextD d) (runScript cfg gen h as).1 := by
  induction as with
  | nil => intro h d ha _; exact ha
  | cons a as ih =>
    intro h d ha hdom
    simp only [scriptInDomain, Bool.and_eq_true] at hdom
    simp only [runScript, List.foldl]
    exact ih _ _ (act_abs ha a hdom.1) hdom.2

/-- the state between requests: what `id` yields carries `A`; `id` is not generated again; pool clean -/
structure AbsSt (gen : Nat → Bytes) (id : Bytes) (A : Option Nat) (st : St) : Prop where
  store : ∀ b, st.get id = some b → b.abs = A
  never : NeverGen gen st.nid id
  pool : PoolEmpty st

theorem get_adv_some {st : St} {b : SData} {d : Nat}
    (h : ({ st with now := st.now + d } : St).get id = some b) : st.get id = some b := by
  cases hg : st.get id with
  | none => rw [get_adv_none hg d] at h; cases h
  | some b' =>
    -- the entry is the same one
    unfold St.get at h hg
    by_cases hid : id = []
    · simp [hid] at hg
    · simp only [hid, if_false] at h hg
      cases hl : lookup st.store id with
      | none => simp [hl] at hg
      | some e =>
        simp only [hl] at h hg
        split at h
        · split at hg
          · rw [← hg, ← h]
          · cases hg
        · cases h

theorem handle_abs {st : St} (ha : AbsSt gen id A st) (q : Req)
    (hdom : scriptInDomain false q.script = true) : AbsSt gen id A (handle cfg gen st q).1 := by
  have hc0 : AbsC gen id A ({ st := st, ck := q.ck, hd := q.hd, qr := q.qr } : RCtx) :=
    ⟨ha.store, ha.never, (by intro i hi; cases hi), ha.pool⟩
  have h0 : AbsH gen id A false (startReq cfg gen st q) := by
    unfold startReq
    simp only
    split
    · have := abs_getSession (cfg := cfg) hc0
      refine ⟨this.1, ?_, ?_⟩
      · intro _ s hs hid; simp only [Option.some.injEq] at hs; subst hs; exact this.2 hid
      · intro _ s hs; cases hs
    · exact ⟨hc0, (by intro _ s hs; cases hs), (by intro _ s hs; cases hs)⟩
  have h1 := runScript_abs (cfg := cfg) q.script _ _ h0 hdom
  unfold handle
  simp only
  split
  · unfold mwFinish
    split
    · rename_i s hs
      split
      · exact ⟨h1.c.store, h1.c.never, h1.c.pool⟩
      · rename_i hd
        have hd' : (runScript cfg gen (startReq cfg gen st q) q.script).1.destroyed = false := by
          simpa using hd
        have := abs_save (cfg := cfg) h1.c (s := s) (fun hid => h1.mw hd' s hs hid)
        refine ⟨?_, this.1.never, ?_⟩
        · intro b hb
          exact this.1.store b ((get_congr (st := (sessSave cfg _ s).1.st) rfl rfl id).symm.trans hb)
        · intro d' hd''
          simp only [release, List.mem_cons] at hd''
          rcases hd'' with rfl | hd''
          · rfl
          · exact this.1.pool d' hd''
    · exact ⟨h1.c.store, h1.c.never, h1.c.pool⟩
  · exact ⟨h1.c.store, h1.c.never, h1.c.pool⟩

theorem run_abs (ops : List Op) {st : St} (ha : AbsSt gen id A st) (hdom : ops.all Op.inDomain = true) :
    AbsSt gen id A (run cfg gen st ops).1 := by
  induction ops generalizing st with
  | nil => exact ha
  | cons o ops ih =>
    simp only [List.all_cons, Bool.and_eq_true] at hdom
    simp only [run]
    cases o with
    | adv d =>
      exact ih (st := { st with now := st.now + d })
        ⟨fun b hb => ha.store b (get_adv_some hb), ha.never, ha.pool⟩ hdom.2
    | req q => exact ih (handle_abs ha q hdom.1) hdom.2

end

end C15
