import FiberModel.Basic
/-
C15 — model of middleware/session: store.go (`getSession`, `getSessionID`, `Get`, `GetByID`, `Delete`,
`Reset`), session.go (`acquireSession`, `releaseSession`, `Destroy`, `Regenerate`, `Reset`, `Save`,
`saveSession`, `SetIdleTimeout`, `setSession`, `delSession`, absolute expiration), middleware.go
(`NewWithStore` handler: initialise, run the stack, auto-save unless destroyed, release), data.go,
and the TTL behaviour of internal/storage/memory (`Get`/`Set`/`Delete`/`Reset`/`Keys`).

Parameters / abstractions: `KeyGenerator` (`gen n` = the n-th id handed out); gob is the identity
codec (a stored blob *is* the data map; decoding MERGES it into the map of the acquired object, as
`gob.Decode` into a non-nil map does); values are byte strings; time is in whole seconds; `sync.Pool`
is a list of released objects of which `acquire` takes the most recent (the theorems do not depend on
which one is taken). Not modelled: storage errors, `Config.Next`, `ErrorHandler`, cookie attributes.
-/
namespace C15
open B

/-! ## data.go: the session's key/value map -/

abbrev KV := List (Bytes × Bytes)

def lookup (s : List (Bytes × α)) (k : Bytes) : Option α :=
  match s with
  | [] => none
  | (k', v) :: rest => if k' = k then some v else lookup rest k

def erase (s : List (Bytes × α)) (k : Bytes) : List (Bytes × α) := s.filter (fun e => e.1 ≠ k)

def put (s : List (Bytes × α)) (k : Bytes) (v : α) : List (Bytes × α) := (k, v) :: erase s k

/-- `data.Data`: the string-keyed entries and the `absExpirationKey` entry -/
structure SData where
  kv : KV := []
  abs : Option Nat := none
  deriving Repr, DecidableEq

def SData.empty : SData := {}

/-- `gob.Decode(&s.data.Data)` into an existing map: entries are added / overwritten, nothing is removed -/
def SData.merge (base stored : SData) : SData :=
  { kv := stored.kv.foldr (fun e acc => put acc e.1 e.2) base.kv,
    abs := match stored.abs with | some a => some a | none => base.abs }

/-! ## Configuration and state -/

inductive Source where
  | cookie | header | query
  deriving Repr, DecidableEq

structure Cfg where
  source : Source
  idle : Nat        -- IdleTimeout, seconds, > 0
  abs : Nat         -- AbsoluteTimeout, seconds, 0 = none (else ≥ idle)

/-- a storage entry: blob and expiry (`none` = never) -/
structure Entry where
  blob : SData
  deadline : Option Nat
  deriving Repr, DecidableEq

structure St where
  now : Nat := 0
  store : List (Bytes × Entry) := []
  nid : Nat := 0                 -- KeyGenerator calls so far
  pool : List SData := []        -- sessionPool: data maps of the released Session objects

/-- `Storage.Get` ≠ nil (memory.go: `expiry <= Timestamp()` = gone) -/
def Entry.live (e : Entry) (now : Nat) : Bool :=
  match e.deadline with
  | none => true
  | some d => decide (now < d)

def St.get (st : St) (id : Bytes) : Option SData :=
  if id = [] then none
  else match lookup st.store id with
    | some e => if e.live st.now then some e.blob else none
    | none => none

/-- `Storage.Set(key, val, exp)`; the encoded blob is never empty -/
def St.set (st : St) (id : Bytes) (d : SData) (ttl : Nat) : St :=
  if id = [] then st
  else { st with store := put st.store id { blob := d, deadline := if ttl = 0 then none else some (st.now + ttl) } }

/-- `Storage.Keys()`: the keys of the live entries -/
def St.liveKeys (st : St) : List Bytes := (st.store.filter fun e => e.2.live st.now).map (·.1)

def St.del (st : St) (id : Bytes) : St := if id = [] then st else { st with store := erase st.store id }

/-- session.go `Session` (the fields that matter) -/
structure Sess where
  id : Bytes
  data : SData
  fresh : Bool
  idleT : Int := 0          -- idleTimeout; ≤ 0 = not set
  hasCtx : Bool := true     -- ctx ≠ nil (false for `GetByID` sessions)
  deriving Repr, DecidableEq

/-- request-scoped state -/
structure RCtx where
  st : St
  ck : Bytes                               -- request cookie named like the session
  hd : Bytes                               -- request header
  qr : Bytes                               -- query parameter
  locals : Option Bytes := none            -- Locals(sessionIDContextKey)
  outCk : Option (Option Bytes) := none    -- Set-Cookie: `some none` = expired, `some (some v)`
  outHd : Option Bytes := none             -- response header

/-! ## store.go -/

/-- `getSessionID`: the cookie is consulted first whatever the source -/
def getSessionID (cfg : Cfg) (c : RCtx) : Bytes :=
  if c.ck ≠ [] then c.ck
  else if cfg.source = .header ∧ c.hd ≠ [] then c.hd
  else if cfg.source = .query ∧ c.qr ≠ [] then c.qr
  else []

/-- the `KeyGenerator` the harness configures: `id1`, `id2`, … -/
def idGen (n : Nat) : Bytes := b "id" ++ natToDec (n + 1)

def newID (gen : Nat → Bytes) (c : RCtx) : RCtx × Bytes :=
  let id := gen c.st.nid
  ({ c with st := { c.st with nid := c.st.nid + 1 } }, id)

/-- `acquireSession`: take a pooled object (its data map comes along) or a new one -/
def acquire (c : RCtx) : RCtx × SData :=
  match c.st.pool with
  | [] => (c, SData.empty)
  | d :: rest => ({ c with st := { c.st with pool := rest } }, d)

/-- `releaseSession`: the data map is replaced by an empty one before the object is pooled -/
def release (c : RCtx) (_s : Sess) : RCtx :=
  { c with st := { c.st with pool := SData.empty :: c.st.pool } }

/-- `delSession` -/
def delSession (cfg : Cfg) (c : RCtx) (s : Sess) : RCtx :=
  if !s.hasCtx then c
  else if cfg.source = .header then { c with hd := [], outHd := none }
  else { c with ck := [], outCk := some none }

/-- `setSession` -/
def setSession (cfg : Cfg) (c : RCtx) (s : Sess) : RCtx :=
  if !s.hasCtx then c
  else if cfg.source = .header then { c with hd := s.id, outHd := some s.id }
  else { c with outCk := some (some s.id) }

def absExpired (now : Nat) (d : SData) : Bool :=
  match d.abs with
  | some a => decide (a < now)       -- time.Now().After(absExpiration)
  | none => false

/-- session.go `Reset` -/
def sessReset (cfg : Cfg) (gen : Nat → Bytes) (c : RCtx) (s : Sess) : RCtx × Sess :=
  let c := { c with st := c.st.del s.id }
  let c := delSession cfg c s
  let (c, id) := newID gen c
  (c, { s with id := id, fresh := true, idleT := 0,
               data := { kv := [], abs := if cfg.abs > 0 then some (c.st.now + cfg.abs) else none } })

/-- session.go `Destroy` -/
def sessDestroy (cfg : Cfg) (c : RCtx) (s : Sess) : RCtx × Sess :=
  let c := { c with st := c.st.del s.id }
  (delSession cfg c s, { s with data := SData.empty })

/-- session.go `Regenerate` -/
def sessRegenerate (gen : Nat → Bytes) (c : RCtx) (s : Sess) : RCtx × Sess :=
  let c := { c with st := c.st.del s.id }
  let (c, id) := newID gen c
  (c, { s with id := id, fresh := true })

/-- session.go `saveSession` -/
def sessSave (cfg : Cfg) (c : RCtx) (s : Sess) : RCtx × Sess :=
  let s := if s.idleT ≤ 0 then { s with idleT := cfg.idle } else s
  let c := setSession cfg c s
  ({ c with st := c.st.set s.id s.data s.idleT.toNat }, s)

/-- the id `getSession` looks up: `Locals(sessionIDContextKey)` if this request already generated one -/
def lookupId (cfg : Cfg) (c : RCtx) : Bytes := match c.locals with | some i => i | none => getSessionID cfg c

/-- store.go `getSession` -/
def getSession (cfg : Cfg) (gen : Nat → Bytes) (c : RCtx) : RCtx × Sess :=
  let id0 := lookupId cfg c
  let fresh0 := c.locals.isSome
  let raw := c.st.get id0
  let (c, id, fresh) :=
    if raw.isNone then
      let (c, id) := newID gen c
      ({ c with locals := some id }, id, true)
    else (c, id0, fresh0)
  let (c, base) := acquire c
  let data := match raw with | some blob => base.merge blob | none => base
  let s : Sess := { id := id, data := data, fresh := fresh }
  if fresh && cfg.abs > 0 then (c, { s with data := { s.data with abs := some (c.st.now + cfg.abs) } })
  else if absExpired c.st.now s.data then
    let (c, s) := sessReset cfg gen c s
    (c, { s with data := { s.data with abs := some (c.st.now + cfg.abs) } })
  else (c, s)

inductive GetErr where
  | empty | notFound | loaded
  deriving Repr, DecidableEq

/-- store.go `GetByID` -/
def getByID (cfg : Cfg) (c : RCtx) (id : Bytes) : RCtx × Except GetErr Sess :=
  if id = [] then (c, .error .empty)
  else match c.st.get id with
    | none => (c, .error .notFound)
    | some blob =>
      let (c, base) := acquire c
      let s : Sess := { id := id, data := base.merge blob, fresh := false, hasCtx := false }
      if cfg.abs > 0 && absExpired c.st.now s.data then
        ((sessDestroy cfg c s).1, .error .notFound)
      else (c, .ok s)

/-! ## Handler scripts -/

inductive Act where
  | storeGet                      -- G: store.Get(c)
  | byID (id : Bytes)             -- B
  | info                          -- I: ID(), Fresh()
  | get (k : Bytes)
  | set (k v : Bytes)
  | del (k : Bytes)
  | keys
  | destroy | regenerate | reset
  | idle (secs : Int)             -- SetIdleTimeout
  | save | release
  | storeDelete (id : Bytes)      -- Z
  | storeReset                    -- W
  deriving Repr, DecidableEq

inductive AObs where
  | dash | bang | ok
  | err (e : GetErr)
  | info (id : Bytes) (fresh : Bool)
  | val (v : Option Bytes)
  | keys (ks : List Bytes) (abs : Bool)
  deriving Repr, DecidableEq

/-- which session the script's variable currently refers to -/
inductive Cur where
  | none
  | mw                      -- the middleware's session (`m.Session`)
  | other (s : Sess)        -- a session obtained from the Store API
  deriving Repr, DecidableEq

/-- handler state: the middleware's session (if any), its `destroyed` flag, the script variable -/
structure HSt where
  c : RCtx
  mw : Option Sess
  destroyed : Bool := false
  cur : Cur

def HSt.sess (h : HSt) : Option Sess :=
  match h.cur with
  | .none => none
  | .mw => h.mw
  | .other s => some s

def HSt.putSess (h : HSt) (s : Sess) : HSt :=
  match h.cur with
  | .none => h
  | .mw => { h with mw := some s }
  | .other _ => { h with cur := .other s }

/-- one handler action on the real API -/
def act (cfg : Cfg) (gen : Nat → Bytes) (h : HSt) (a : Act) : HSt × AObs :=
  match a with
  | .storeGet =>
    if h.mw.isSome then (h, .err .loaded)       -- ErrSessionAlreadyLoadedByMiddleware
    else
      let (c, s) := getSession cfg gen h.c
      ({ h with c := c, cur := .other s }, .ok)
  | .byID id =>
    match getByID cfg h.c id with
    | (c, .error e) => ({ h with c := c }, .err e)
    | (c, .ok s) => ({ h with c := c, cur := .other s }, .ok)
  | .storeDelete id =>
    if id = [] then (h, .err .empty) else ({ h with c := { h.c with st := h.c.st.del id } }, .ok)
  | .storeReset => ({ h with c := { h.c with st := { h.c.st with store := [] } } }, .ok)
  | _ =>
    match h.sess with
    | none => (h, .bang)
    | some s =>
      match a with
      | .info => (h, .info s.id s.fresh)
      | .get k => (h, .val (lookup s.data.kv k))
      | .set k v => (h.putSess { s with data := { s.data with kv := put s.data.kv k v } }, .dash)
      | .del k => (h.putSess { s with data := { s.data with kv := erase s.data.kv k } }, .dash)
      | .keys => (h, .keys (s.data.kv.map (·.1)) s.data.abs.isSome)
      | .destroy =>
        let (c, s) := sessDestroy cfg h.c s
        let h := ({ h with c := c }).putSess s
        (if h.cur = .mw then { h with destroyed := true } else h, .ok)
      | .regenerate =>
        let (c, s) := sessRegenerate gen h.c s
        (({ h with c := c }).putSess s, .ok)
      | .reset =>
        let (c, s) := sessReset cfg gen h.c s
        (({ h with c := c }).putSess s, .ok)
      | .idle secs => (h.putSess { s with idleT := secs }, .dash)
      | .save =>
        if h.cur = .mw then (h, .ok)       -- `Save` on the middleware's session does nothing
        else
          let (c, s) := sessSave cfg h.c s
          (({ h with c := c }).putSess s, .ok)
      | .release =>
        if h.cur = .mw then (h, .bang)
        else ({ h with c := release h.c s, cur := .none }, .dash)
      | _ => (h, .bang)

def runScript (cfg : Cfg) (gen : Nat → Bytes) : HSt → List Act → HSt × List AObs
  | h, [] => (h, [])
  | h, a :: as =>
    let (h, o) := act cfg gen h a
    let (h, os) := runScript cfg gen h as
    (h, o :: os)

/-! ## Requests -/

structure Req where
  viaMw : Bool        -- route behind the session middleware / plain route using the Store API
  ck : Bytes
  hd : Bytes
  qr : Bytes
  script : List Act

structure Resp where
  acts : List AObs
  outCk : Option (Option Bytes)
  outHd : Option Bytes
  gens : List Bytes                 -- key-generator outputs during the request
  keys : List Bytes                 -- `Storage.Keys()` after the request
  deriving Repr, DecidableEq

/-- the ids the key generator handed out while its call counter went from `n` to `n'` -/
def gensBetween (gen : Nat → Bytes) (n n' : Nat) : List Bytes := (List.range' n (n' - n)).map gen

/-- middleware.go `NewWithStore` handler, the part after `c.Next()`: save unless destroyed, release -/
def mwFinish (cfg : Cfg) (h : HSt) : RCtx :=
  match h.mw with
  | some s =>
    if h.destroyed then h.c
    else release (sessSave cfg h.c s).1 (sessSave cfg h.c s).2
  | none => h.c

/-- the handler state a request starts its script in: behind the middleware (`initialize` has loaded
    the session) or on a plain route -/
def startReq (cfg : Cfg) (gen : Nat → Bytes) (st : St) (q : Req) : HSt :=
  let c : RCtx := { st := st, ck := q.ck, hd := q.hd, qr := q.qr }
  if q.viaMw then { c := (getSession cfg gen c).1, mw := some (getSession cfg gen c).2, cur := .mw }
  else { c := c, mw := none, cur := .none }

/-- the context a request ends in: behind the middleware after its auto-save, else the handler's -/
def endCtx (cfg : Cfg) (q : Req) (h : HSt) : RCtx := if q.viaMw then mwFinish cfg h else h.c

/-- one request: middleware.go `NewWithStore` handler around the script, or the script alone -/
def handle (cfg : Cfg) (gen : Nat → Bytes) (st : St) (q : Req) : St × Resp :=
  let h := (runScript cfg gen (startReq cfg gen st q) q.script).1
  let os := (runScript cfg gen (startReq cfg gen st q) q.script).2
  let c := if q.viaMw then mwFinish cfg h else h.c
  (c.st, { acts := os, outCk := c.outCk, outHd := c.outHd, gens := gensBetween gen st.nid c.st.nid,
           keys := c.st.liveKeys })

inductive Op where
  | adv (secs : Nat)
  | req (q : Req)

def step (cfg : Cfg) (gen : Nat → Bytes) (st : St) : Op → St × Option Resp
  | .adv d => ({ st with now := st.now + d }, none)
  | .req q => let (st', r) := handle cfg gen st q; (st', some r)

def run (cfg : Cfg) (gen : Nat → Bytes) : St → List Op → St × List (Option Resp)
  | st, [] => (st, [])
  | st, o :: os =>
    let (st', r) := step cfg gen st o
    let (st'', rs) := run cfg gen st' os
    (st'', r :: rs)

end C15
