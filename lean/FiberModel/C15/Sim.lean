import FiberModel.C15.Refine
/-
C15 — every handler action, request and history of the model is accepted by the oracle of Spec.lean
(forward simulation over `Rel`).
-/
namespace C15
open B

/-- the only answers of the oracle that are not a verdict: the history is outside the property's domain -/
def OutsideDomain (e : String) : Prop := e = "outside-domain: Save after Destroy"

/-- the situation in which the oracle declares a history outside the domain -/
def Trigger (r : SReq) (a : Act) : Prop := a = .save ∧ ∃ v, r.view = some v ∧ v.destroyed = true

/-- an operation on the current session: new context, new Session object, and their abstract
    counterparts; `d'` is the middleware's `destroyed` flag afterwards -/
theorem Rel.update' {cfg : Cfg} {gen : Nat → Bytes} {G : List Bytes} {q : Req} {h : HSt} {r : SReq}
    (hrel : Rel cfg gen G q h r) {s : Sess} {v : View} (hs : h.sess = some s) (hv : r.view = some v)
    {c' : RCtx} {s' : Sess} {r' : SReq} {v' : View} (d' : Bool)
    {G' : List Bytes} (sim : Sim cfg gen G' c' s' r r' v') (hmono : h.c.st.nid ≤ c'.st.nid)
    (hctx : s'.hasCtx = s.hasCtx)
    (hd' : d' = h.destroyed ∨ d' = true)
    (hdes : h.cur = .mw → d' = false → v'.destroyed = true → v.destroyed = true) :
    Rel cfg gen G' q { (({ h with c := c' } : HSt).putSess s') with destroyed := d' }
      { (r'.putView v') with mwDestroyed := d' } := by
  have hfr := sim.frame
  have hlive := hrel.mwLive
  obtain ⟨c, mw, d, cur⟩ := h
  have hreq := sim.req
  obtain ⟨rs, rg, rp, rgi, rmw, rmd, rcur⟩ := r
  obtain ⟨rs', rg', rp', rgi', rmw', rmd', rcur'⟩ := r'
  simp only [SReq.mk.injEq] at hfr
  obtain ⟨_, _, _, _, hmw', hmd', hcur'⟩ := hfr
  subst hmw' hmd' hcur'
  have hm := hrel.mw
  have hc := hrel.cur
  have hvia := hrel.viaMw
  simp only [HSt.sess] at hs
  simp only [SReq.view] at hv
  simp only at hm hc hvia hmono hd' hdes hlive
  have hdfalse : d' = false → d = false := by
    intro h0; rcases hd' with h1 | h1
    · rw [← h1]; exact h0
    · rw [h1] at h0; cases h0
  cases cur with
  | none => simp at hs
  | mw =>
    cases rcur' <;> simp only [CurRel] at hc <;> try contradiction
    simp only at hs hv
    subst hs hv
    simp only [HSt.putSess, SReq.putView]
    refine ⟨sim.st, sim.gens, sim.out, sim.view, trivial, rfl, hvia, ?_, ?_, ?_⟩
    · intro s0 hs0
      simp only [Option.some.injEq] at hs0
      subst hs0
      rw [hctx]; exact hrel.mwCtx s rfl
    · intro h0 v1 hv1
      simp only [Option.some.injEq] at hv1
      subst hv1
      cases hvd : v'.destroyed with
      | false => rfl
      | true =>
        have := hdes rfl h0 hvd
        have h2 := hlive (hdfalse h0) v rfl
        rw [this] at h2; cases h2
    · exact hreq
  | other s0 =>
    cases rcur' <;> simp only [CurRel] at hc <;> try contradiction
    simp only [Option.some.injEq] at hs hv
    subst hs hv
    simp only [HSt.putSess, SReq.putView]
    refine ⟨sim.st, sim.gens, sim.out, hm.mono hmono, sim.view, rfl, hvia, hrel.mwCtx, ?_, ?_⟩
    · intro h0; exact hlive (hdfalse h0)
    · exact hreq

theorem Rel.update {cfg : Cfg} {gen : Nat → Bytes} {G : List Bytes} {q : Req} {h : HSt} {r : SReq}
    (hrel : Rel cfg gen G q h r) {s : Sess} {v : View} (hs : h.sess = some s) (hv : r.view = some v)
    {c' : RCtx} {s' : Sess} {r' : SReq} {v' : View}
    {G' : List Bytes} (sim : Sim cfg gen G' c' s' r r' v') (hmono : h.c.st.nid ≤ c'.st.nid)
    (hctx : s'.hasCtx = s.hasCtx)
    (hdes : h.cur = .mw → v'.destroyed = true → v.destroyed = true) :
    Rel cfg gen G' q (({ h with c := c' } : HSt).putSess s') (r'.putView v') := by
  have h1 := hrel.update' hs hv h.destroyed sim hmono hctx (Or.inl rfl) (fun a _ b => hdes a b)
  have hmd : r'.mwDestroyed = h.destroyed := by rw [sim.fields.2.1]; exact hrel.destroyed
  have e1 : ({ (({ h with c := c' } : HSt).putSess s') with destroyed := h.destroyed } : HSt) =
      ({ h with c := c' } : HSt).putSess s' := by
    cases hc : h.cur <;> simp [HSt.putSess]
  have e2 : ({ (r'.putView v') with mwDestroyed := h.destroyed } : SReq) = r'.putView v' := by
    clear h1 e1 sim
    obtain ⟨rs', rg', rp', rgi', rmw', rmd', rcur'⟩ := r'
    simp only at hmd
    subst hmd
    cases rcur' <;> rfl
  rw [e1, e2] at h1
  exact h1

/-- what `act_sim` promises for one action -/
def ActOK (cfg : Cfg) (gen : Nat → Bytes) (G : List Bytes) (q : Req) (h : HSt) (r : SReq) (a : Act) : Prop :=
  (∃ r', specAct cfg q.viaMw q r a (act cfg gen h a).2 = .ok r' ∧ Rel cfg gen G q (act cfg gen h a).1 r') ∨
  (∃ e, specAct cfg q.viaMw q r a (act cfg gen h a).2 = .error e ∧ OutsideDomain e ∧ Trigger r a)

theorem Rel.cur_mw_iff {cfg : Cfg} {gen : Nat → Bytes} {G : List Bytes} {q : Req} {h : HSt} {r : SReq}
    (hrel : Rel cfg gen G q h r) : (h.cur = .mw) ↔ (r.cur = .mw) := by
  have hc := hrel.cur
  cases hcur : h.cur <;> cases hrc : r.cur <;> rw [hcur, hrc] at hc <;> simp_all [CurRel]

section actions
variable {cfg : Cfg} {gen : Nat → Bytes} {G : List Bytes} {q : Req} {h : HSt} {r : SReq}

theorem act_sim_info (hrel : Rel cfg gen G q h r) : ActOK cfg gen G q h r .info := by
  left
  cases hs : h.sess with
  | none =>
    have hv := hrel.sess_none hs
    refine ⟨r, ?_, ?_⟩
    · simp [specAct, act, hs, hv]
    · simpa [act, hs] using hrel
  | some s =>
    obtain ⟨v, hv, hvr⟩ := hrel.sess_some hs
    refine ⟨r, ?_, ?_⟩
    · simp [specAct, act, hs, hv, hvr.id, hvr.fresh]
    · simpa [act, hs] using hrel

theorem act_sim_get (hrel : Rel cfg gen G q h r) (k : Bytes) : ActOK cfg gen G q h r (.get k) := by
  left
  cases hs : h.sess with
  | none =>
    have hv := hrel.sess_none hs
    refine ⟨r, ?_, ?_⟩
    · simp [specAct, act, hs, hv]
    · simpa [act, hs] using hrel
  | some s =>
    obtain ⟨v, hv, hvr⟩ := hrel.sess_some hs
    refine ⟨r, ?_, ?_⟩
    · simp [specAct, act, hs, hv, hvr.data]
    · simpa [act, hs] using hrel

theorem act_sim_keys (hrel : Rel cfg gen G q h r) : ActOK cfg gen G q h r .keys := by
  left
  cases hs : h.sess with
  | none =>
    have hv := hrel.sess_none hs
    refine ⟨r, ?_, ?_⟩
    · simp [specAct, act, hs, hv]
    · simpa [act, hs] using hrel
  | some s =>
    obtain ⟨v, hv, hvr⟩ := hrel.sess_some hs
    refine ⟨r, ?_, ?_⟩
    · simp [specAct, act, hs, hv, hvr.data]
    · simpa [act, hs] using hrel

/-- an action that only changes the Session object in the handler's hands -/
theorem Rel.update_view (hrel : Rel cfg gen G q h r) {s s' : Sess} {v v' : View}
    (hs : h.sess = some s) (hv : r.view = some v) (hvr : ViewRel cfg gen h.c.st.nid s' v')
    (hctx : s'.hasCtx = s.hasCtx) (hdes : v'.destroyed = true → v.destroyed = true) :
    Rel cfg gen G q (h.putSess s') (r.putView v') :=
  hrel.update (c' := h.c) (r' := r) hs hv ⟨hrel.st, hrel.gens, hvr, hrel.out, hrel.req, rfl⟩ (Nat.le_refl _) hctx
    (fun _ => hdes)

theorem act_sim_set (hrel : Rel cfg gen G q h r) (k val : Bytes) : ActOK cfg gen G q h r (.set k val) := by
  left
  cases hs : h.sess with
  | none =>
    have hv := hrel.sess_none hs
    refine ⟨r, ?_, ?_⟩
    · simp [specAct, act, hs, hv]
    · simpa [act, hs] using hrel
  | some s =>
    obtain ⟨v, hv, hvr⟩ := hrel.sess_some hs
    refine ⟨r.putView { v with data := put v.data k val }, ?_, ?_⟩
    · simp [specAct, hv]
    · have := hrel.update_view (s' := { s with data := { s.data with kv := put s.data.kv k val } })
        (v' := { v with data := put v.data k val }) hs hv
        ⟨hvr.id, by simp [hvr.data], nodup_put hvr.nodup k val, hvr.fresh, hvr.abs, hvr.abs0, hvr.idle, hvr.issued, hvr.ctx⟩ rfl (fun a => a)
      simpa [act, hs] using this

theorem act_sim_del (hrel : Rel cfg gen G q h r) (k : Bytes) : ActOK cfg gen G q h r (.del k) := by
  left
  cases hs : h.sess with
  | none =>
    have hv := hrel.sess_none hs
    refine ⟨r, ?_, ?_⟩
    · simp [specAct, act, hs, hv]
    · simpa [act, hs] using hrel
  | some s =>
    obtain ⟨v, hv, hvr⟩ := hrel.sess_some hs
    refine ⟨r.putView { v with data := erase v.data k }, ?_, ?_⟩
    · simp [specAct, hv]
    · have := hrel.update_view (s' := { s with data := { s.data with kv := erase s.data.kv k } })
        (v' := { v with data := erase v.data k }) hs hv
        ⟨hvr.id, by simp [hvr.data], nodup_erase hvr.nodup k, hvr.fresh, hvr.abs, hvr.abs0, hvr.idle, hvr.issued, hvr.ctx⟩ rfl (fun a => a)
      simpa [act, hs] using this

theorem act_sim_idle (hrel : Rel cfg gen G q h r) (secs : Int) : ActOK cfg gen G q h r (.idle secs) := by
  left
  cases hs : h.sess with
  | none =>
    have hv := hrel.sess_none hs
    refine ⟨r, ?_, ?_⟩
    · simp [specAct, act, hs, hv]
    · simpa [act, hs] using hrel
  | some s =>
    obtain ⟨v, hv, hvr⟩ := hrel.sess_some hs
    refine ⟨r.putView { v with idle := if secs > 0 then some secs.toNat else none }, ?_, ?_⟩
    · simp [specAct, hv]
    · have := hrel.update_view (s' := { s with idleT := secs })
        (v' := { v with idle := if secs > 0 then some secs.toNat else none }) hs hv
        ⟨hvr.id, hvr.data, hvr.nodup, hvr.fresh, hvr.abs, hvr.abs0, rfl, hvr.issued, hvr.ctx⟩ rfl (fun a => a)
      simpa [act, hs] using this

@[simp] theorem putSess_cur (h : HSt) (s : Sess) : ((h.putSess s).cur = .mw) ↔ (h.cur = .mw) := by
  unfold HSt.putSess; split <;> simp_all

@[simp] theorem putView_cur (r : SReq) (v : View) : ((r.putView v).cur = .mw) ↔ (r.cur = .mw) := by
  unfold SReq.putView; split <;> simp_all

/-- the abstract request state after `Destroy` of the view `v` -/
abbrev dropR (cfg : Cfg) (r : SReq) (v : View) : SReq :=
  { r with s := { r.s with sessions := erase r.s.sessions v.id },
           pres := if v.ctx then withdraw cfg r.pres else r.pres }

theorem act_sim_destroy (hw : WF cfg gen) (hrel : Rel cfg gen G q h r) : ActOK cfg gen G q h r .destroy := by
  left
  cases hs : h.sess with
  | none =>
    have hv := hrel.sess_none hs
    refine ⟨r, ?_, ?_⟩
    · simp [specAct, act, hs, hv]
    · simpa [act, hs] using hrel
  | some s =>
    obtain ⟨v, hv, hvr⟩ := hrel.sess_some hs
    have hsim := destroy_sim hw hrel.st hvr
    have hst' : (sessDestroy cfg h.c s).1.st.nid = h.c.st.nid := by rw [sessDestroy_st]; simp
    have hsimD : Sim cfg gen G (sessDestroy cfg h.c s).1 (sessDestroy cfg h.c s).2 r
        (dropR cfg r v) { v with data := [], destroyed := true } :=
      ⟨hsim.1, hrel.gens, by rw [hst']; exact hsim.2, sessDestroy_out hrel.out s,
       sessDestroy_ctx hrel.req (by simp [dropR, hvr.ctx]) rfl, rfl⟩
    by_cases hcur : h.cur = .mw
    · have hrc := hrel.cur_mw_iff.mp hcur
      have hup := hrel.update' hs hv true hsimD (by rw [hst']; exact Nat.le_refl _) rfl
        (Or.inr rfl) (by intro _ hf; cases hf)
      refine ⟨{ ((dropR cfg r v).putView { v with data := [], destroyed := true }) with mwDestroyed := true }, ?_, ?_⟩
      · simp only [specAct, hv]
        rw [if_pos ((putView_cur (dropR cfg r v) _).mpr hrc)]
      · simpa [act, hs, hcur] using hup
    · have hrc : ¬ r.cur = .mw := fun e => hcur (hrel.cur_mw_iff.mpr e)
      have hup := hrel.update hs hv hsimD (by rw [hst']; exact Nat.le_refl _) rfl
        (fun hc => absurd hc hcur)
      refine ⟨(dropR cfg r v).putView { v with data := [], destroyed := true }, ?_, ?_⟩
      · simp only [specAct, hv]
        rw [if_neg (fun e => hrc ((putView_cur (dropR cfg r v) _).mp e))]
      · simpa [act, hs, hcur] using hup

/-- the abstract request state after the session `id` was dropped and the generator called once -/
def regenR (gen : Nat → Bytes) (G' : List Bytes) (n : Nat) (r : SReq) (id : Bytes) (pres : Pres) : SReq :=
  { r with gens := G', pres := pres,
           s := { r.s with sessions := erase r.s.sessions id, issued := (List.range (n + 1)).map gen } }

/-- the abstract fresh session -/
def freshV (cfg : Cfg) (id : Bytes) (now : Nat) (ctx : Bool) : View :=
  { id := id, data := [], fresh := true, abs := if cfg.abs > 0 then some (now + cfg.abs) else none, ctx := ctx }

theorem act_sim_regenerate (hw : WF cfg gen) (hrel : Rel cfg gen G q h r) {G' : List Bytes}
    (hG : G = gensBetween gen h.c.st.nid (act cfg gen h .regenerate).1.c.st.nid ++ G') :
    ActOK cfg gen G' q h r .regenerate := by
  left
  cases hs : h.sess with
  | none =>
    have hv := hrel.sess_none hs
    have hGG : G = G' := by simpa [act, hs, gensBetween_self] using hG
    subst hGG
    refine ⟨r, ?_, ?_⟩
    · simp [specAct, act, hs, hv]
    · simpa [act, hs] using hrel
  | some s =>
    obtain ⟨v, hv, hvr⟩ := hrel.sess_some hs
    have hsim := regenerate_sim hw hrel.st hvr
    have hnid : (sessRegenerate gen h.c s).1.st.nid = h.c.st.nid + 1 := by rw [sessRegenerate_st]
    have hg : r.gens = gen h.c.st.nid :: G' := by
      simp only [act, hs, putSess_c] at hG
      rw [hnid, gensBetween_succ] at hG
      rw [hrel.gens, hG]; rfl
    have hfv := freshView_ok (r := { r with s := { r.s with sessions := erase r.s.sessions v.id } }) hw
      hrel.st.issued hg
    have hup := hrel.update (G' := G') (c' := (sessRegenerate gen h.c s).1) (s' := (sessRegenerate gen h.c s).2)
      (r' := regenR gen G' h.c.st.nid r v.id r.pres)
      (v' := { v with id := gen h.c.st.nid, fresh := true }) hs hv
      ⟨hsim.1, rfl, by rw [hnid]; exact hsim.2, sessRegenerate_out hrel.out s,
       sessRegenerate_ctx s hrel.req rfl rfl, rfl⟩
      (by rw [hnid]; omega) (by rw [sessRegenerate_snd])
      (fun _ a => a)
    refine ⟨(regenR gen G' h.c.st.nid r v.id r.pres).putView { v with id := gen h.c.st.nid, fresh := true }, ?_, ?_⟩
    · simp only [specAct, hv, bind, Except.bind, hfv]
      rfl
    · simpa [act, hs] using hup

theorem act_sim_reset (hw : WF cfg gen) (hrel : Rel cfg gen G q h r) {G' : List Bytes}
    (hG : G = gensBetween gen h.c.st.nid (act cfg gen h .reset).1.c.st.nid ++ G') :
    ActOK cfg gen G' q h r .reset := by
  left
  cases hs : h.sess with
  | none =>
    have hv := hrel.sess_none hs
    have hGG : G = G' := by simpa [act, hs, gensBetween_self] using hG
    subst hGG
    refine ⟨r, ?_, ?_⟩
    · simp [specAct, act, hs, hv]
    · simpa [act, hs] using hrel
  | some s =>
    obtain ⟨v, hv, hvr⟩ := hrel.sess_some hs
    have hsim := reset_sim hw hrel.st hvr
    have hnid : (sessReset cfg gen h.c s).1.st.nid = h.c.st.nid + 1 := by rw [sessReset_st]
    have hg : r.gens = gen h.c.st.nid :: G' := by
      simp only [act, hs, putSess_c] at hG
      rw [hnid, gensBetween_succ] at hG
      rw [hrel.gens, hG]; rfl
    have hfv := freshView_ok (r := dropR cfg r v) hw hrel.st.issued hg
    simp only [dropR] at hfv
    have hup := hrel.update (G' := G') (c' := (sessReset cfg gen h.c s).1) (s' := (sessReset cfg gen h.c s).2)
      (r' := regenR gen G' h.c.st.nid r v.id (if v.ctx then withdraw cfg r.pres else r.pres))
      (v' := freshV cfg (gen h.c.st.nid) r.s.now v.ctx) hs hv
      ⟨hsim.1, rfl, by rw [hnid]; exact hsim.2, sessReset_out hrel.out s,
       sessReset_ctx hrel.req (by simp [regenR, hvr.ctx]) rfl, rfl⟩
      (by rw [hnid]; omega) (by rw [sessReset_snd])
      (by intro _ hf; simp [freshV] at hf)
    refine ⟨(regenR gen G' h.c.st.nid r v.id (if v.ctx then withdraw cfg r.pres else r.pres)).putView
      (freshV cfg (gen h.c.st.nid) r.s.now v.ctx), ?_, ?_⟩
    · simp only [specAct, hv, bind, Except.bind, hfv]
      rfl
    · simpa [act, hs] using hup

/-- the abstract request state after `Save` of the view `v` -/
abbrev savedR (cfg : Cfg) (r : SReq) (v : View) : SReq :=
  { (saveView cfg r v).1 with pres := if v.ctx then represent cfg r.pres v.id else r.pres }

theorem act_sim_save (hw : WF cfg gen) (hrel : Rel cfg gen G q h r) : ActOK cfg gen G q h r .save := by
  cases hs : h.sess with
  | none =>
    have hv := hrel.sess_none hs
    left
    refine ⟨r, ?_, ?_⟩
    · simp [specAct, act, hs, hv]
    · simpa [act, hs] using hrel
  | some s =>
    obtain ⟨v, hv, hvr⟩ := hrel.sess_some hs
    by_cases hcur : h.cur = .mw
    · have hrc := hrel.cur_mw_iff.mp hcur
      left
      refine ⟨r, ?_, ?_⟩
      · simp [specAct, hv, hrc]
      · simpa [act, hs, hcur] using hrel
    · have hrc : ¬ r.cur = .mw := fun e => hcur (hrel.cur_mw_iff.mpr e)
      cases hd : v.destroyed with
      | true =>
        right
        refine ⟨_, ?_, rfl, ⟨rfl, v, hv, hd⟩⟩
        simp [specAct, hv, hrc, hd]
      | false =>
        left
        have hsim := save_sim hw (r := r) hrel.st hvr hd
        have hnid : (sessSave cfg h.c s).1.st.nid = h.c.st.nid := by rw [sessSave_st]; simp
        have hup := hrel.update (c' := (sessSave cfg h.c s).1) (s' := (sessSave cfg h.c s).2)
          (r' := savedR cfg r v) (v' := (saveView cfg r v).2) hs hv
          ⟨hsim.1, hrel.gens, by rw [hnid]; exact hsim.2, sessSave_out hrel.out hvr.issued,
           sessSave_ctx hrel.req (by simp [savedR, saveView_eq, hvr.ctx, hvr.id]) rfl, rfl⟩
          (by rw [hnid]; exact Nat.le_refl _) (by rw [sessSave_snd])
          (fun _ a => a)
        refine ⟨(savedR cfg r v).putView (saveView cfg r v).2, ?_, ?_⟩
        · simp [specAct, hv, hrc, hd, savedR, saveView_eq]
        · simpa [act, hs, hcur] using hup

theorem act_sim_release (hrel : Rel cfg gen G q h r) : ActOK cfg gen G q h r .release := by
  left
  cases hs : h.sess with
  | none =>
    have hv := hrel.sess_none hs
    refine ⟨r, ?_, ?_⟩
    · simp [specAct, act, hs, hv]
    · simpa [act, hs] using hrel
  | some s =>
    obtain ⟨v, hv, hvr⟩ := hrel.sess_some hs
    by_cases hcur : h.cur = .mw
    · have hrc := hrel.cur_mw_iff.mp hcur
      refine ⟨r, ?_, ?_⟩
      · simp [specAct, hv, hrc]
      · simpa [act, hs, hcur] using hrel
    · have hrc : ¬ r.cur = .mw := fun e => hcur (hrel.cur_mw_iff.mpr e)
      refine ⟨{ r with cur := .none }, ?_, ?_⟩
      · simp [specAct, hv, hrc]
      · have hst : StRel cfg gen (release h.c s).st r.s :=
          strel_congr hrel.st rfl rfl rfl (release_inv hrel.st.inv s).2
        have : Rel cfg gen G q { h with c := release h.c s, cur := .none } { r with cur := .none } :=
          ⟨hst, hrel.gens, ⟨hrel.out.ck, hrel.out.hd⟩, hrel.mw, trivial, hrel.destroyed, hrel.viaMw,
           hrel.mwCtx, hrel.mwLive, hrel.req⟩
        simpa [act, hs, hcur] using this

/-- a Store-level operation: only the storage / the table change -/
theorem Rel.update_st (hrel : Rel cfg gen G q h r) {st' : St} {s' : SpecSt} (hst : StRel cfg gen st' s')
    (hnid : st'.nid = h.c.st.nid) :
    Rel cfg gen G q { h with c := { h.c with st := st' } } { r with s := s' } := by
  refine ⟨hst, hrel.gens, ⟨?_, ?_⟩, ?_, ?_, hrel.destroyed, hrel.viaMw, hrel.mwCtx, hrel.mwLive, ?_⟩
  · intro v hv; simp only; rw [hnid]; exact hrel.out.ck v hv
  · intro v hv; simp only; rw [hnid]; exact hrel.out.hd v hv
  · simp only; rw [hnid]; exact hrel.mw
  · simp only; rw [hnid]; exact hrel.cur
  · exact hrel.req

theorem act_sim_storeDelete (hrel : Rel cfg gen G q h r) (id : Bytes) :
    ActOK cfg gen G q h r (.storeDelete id) := by
  left
  by_cases hid : id = []
  · refine ⟨r, ?_, ?_⟩
    · simp [specAct, act, hid]
    · simpa [act, hid] using hrel
  · refine ⟨{ r with s := { r.s with sessions := erase r.s.sessions id } }, ?_, ?_⟩
    · simp [specAct, hid]
    · have := hrel.update_st (strel_del hrel.st hid) (by simp)
      simpa [act, hid] using this

theorem act_sim_storeReset (hrel : Rel cfg gen G q h r) : ActOK cfg gen G q h r .storeReset := by
  left
  refine ⟨{ r with s := { r.s with sessions := [] } }, ?_, ?_⟩
  · simp [specAct]
  · have := hrel.update_st (strel_reset hrel.st) rfl
    simpa [act] using this

theorem act_sim_storeGet (hw : WF cfg gen) (hrel : Rel cfg gen G q h r) {G' : List Bytes}
    (hG : G = gensBetween gen h.c.st.nid (act cfg gen h .storeGet).1.c.st.nid ++ G') :
    ActOK cfg gen G' q h r .storeGet := by
  left
  cases hvia : q.viaMw with
  | true =>
    have hmw : h.mw.isSome = true := by rw [← hrel.viaMw]; exact hvia
    have hGG : G = G' := by simpa [act, hmw, gensBetween_self] using hG
    subst hGG
    refine ⟨r, ?_, ?_⟩
    · simp [specAct, act, hmw, hvia]
    · simpa [act, hmw] using hrel
  | false =>
    -- the first or a later lookup of this request
    have hmw : h.mw.isSome = false := by rw [← hrel.viaMw]; exact hvia
    have hmwn : h.mw = none := by cases hm : h.mw <;> simp_all
    simp only [act, hmw, Bool.false_eq_true, if_false] at hG
    obtain ⟨r', v, hlv, sim, hmono, _, _⟩ := load_sim hw hrel.st hrel.req hrel.out (hrel.gens.trans hG)
    refine ⟨{ r' with cur := .other v }, ?_, ?_⟩
    · simp [specAct, hlv, hvia, bind, Except.bind, act, hmw, pure, Except.pure]
    · have hrm : r'.mw = none := by
        have hm := hrel.mw
        rw [hmwn] at hm
        rw [sim.fields.1]
        cases hrm : r.mw with
        | none => rfl
        | some v0 => rw [hrm] at hm; simp [OptViewRel] at hm
      have : Rel cfg gen G' q { h with c := (getSession cfg gen h.c).1, cur := .other (getSession cfg gen h.c).2 }
          { r' with cur := .other v } := by
        refine ⟨sim.st, sim.gens, sim.out, ?_, sim.view, ?_, ?_, ?_, ?_, sim.req⟩
        · simp only [hmwn, hrm, OptViewRel]
        · simp only; rw [sim.fields.2.1]; exact hrel.destroyed
        · exact hrel.viaMw
        · intro s hs; simp only [hmwn] at hs; cases hs
        · intro _ v1 hv1; simp only [hrm] at hv1; cases hv1
      simpa [act, hmw] using this

/-- the context moved on without generating an id and without touching the request -/
theorem Rel.update_ctx (hrel : Rel cfg gen G q h r) {c' : RCtx} {s' : SpecSt} (hst : StRel cfg gen c'.st s')
    (hnid : c'.st.nid = h.c.st.nid) (hsame : SameReq h.c c') (hout : OutOK gen c') :
    Rel cfg gen G q { h with c := c' } { r with s := s' } := by
  refine ⟨hst, hrel.gens, hout, ?_, ?_, hrel.destroyed, hrel.viaMw, hrel.mwCtx, hrel.mwLive, ?_⟩
  · simp only; rw [hnid]; exact hrel.mw
  · simp only; rw [hnid]; exact hrel.cur
  · obtain ⟨h1, h2, h3, h4⟩ := hsame
    exact hrel.req.of_eq h1 h2 h3 h4 rfl rfl

/-- the handler's variable now refers to a context-less session (`GetByID`) -/
theorem Rel.set_cur (hrel : Rel cfg gen G q h r) {s : Sess} {v : View} (hv : ViewRel cfg gen h.c.st.nid s v)
    (hctx : s.hasCtx = false) : Rel cfg gen G q { h with cur := .other s } { r with cur := .other v } := by
  have _ := hctx
  exact ⟨hrel.st, hrel.gens, hrel.out, hrel.mw, hv, hrel.destroyed, hrel.viaMw, hrel.mwCtx, hrel.mwLive, hrel.req⟩

theorem getByID_empty (cfg : Cfg) (c : RCtx) : getByID cfg c [] = (c, .error .empty) := by
  simp [getByID]

theorem getByID_miss {cfg : Cfg} {c : RCtx} {id : Bytes} (hid : id ≠ []) (hg : c.st.get id = none) :
    getByID cfg c id = (c, .error .notFound) := by
  simp [getByID, hid, hg]

theorem getByID_hit {cfg : Cfg} {c : RCtx} {id : Bytes} {blob : SData} (hid : id ≠ []) (hg : c.st.get id = some blob) :
    getByID cfg c id =
      if cfg.abs > 0 && absExpired (acquire c).1.st.now ((acquire c).2.merge blob) then
        ((sessDestroy cfg (acquire c).1
            { id := id, data := (acquire c).2.merge blob, fresh := false, hasCtx := false }).1, .error .notFound)
      else ((acquire c).1, .ok { id := id, data := (acquire c).2.merge blob, fresh := false, hasCtx := false }) := by
  simp only [getByID, hid, if_false, hg]

theorem act_sim_byID (hw : WF cfg gen) (hrel : Rel cfg gen G q h r) (id : Bytes) :
    ActOK cfg gen G q h r (.byID id) := by
  left
  by_cases hid : id = []
  · subst hid
    refine ⟨r, ?_, ?_⟩
    · simp [specAct, act, getByID_empty]
    · simpa [act, getByID_empty] using hrel
  cases hg : h.c.st.get id with
  | none =>
    have hm := getByID_miss (cfg := cfg) hid hg
    cases hl : lookup r.s.sessions id with
    | none =>
      refine ⟨r, ?_, ?_⟩
      · simp [specAct, act, hm, hid, hl]
      · simpa [act, hm] using hrel
    | some se =>
      have hdead : ¬ h.c.st.now < se.idleDeadline := by
        intro hlive
        obtain ⟨e, he, hr⟩ := hrel.st.bwd _ se hl hlive
        have := get_none_dead hg hid he
        rw [hr.live] at this
        simp at this
        omega
      have hnl : se.live r.s.now = false := by
        simp only [SEntry.live, hrel.st.now]
        have : decide (h.c.st.now < se.idleDeadline) = false := by simpa using hdead
        rw [this]; rfl
      refine ⟨{ r with s := { r.s with sessions := erase r.s.sessions id } }, ?_, ?_⟩
      · simp [specAct, act, hm, hid, hl, hnl]
      · have hst2 : StRel cfg gen h.c.st { r.s with sessions := erase r.s.sessions id } :=
          strel_erase_dead hrel.st (by intro se' hs'; rw [hl] at hs'; cases hs'; exact hdead)
        have := hrel.update_ctx (c' := h.c) hst2 rfl (SameReq.rfl' _) hrel.out
        simpa [act, hm] using this
  | some blob =>
    have hh := getByID_hit (cfg := cfg) hid hg
    obtain ⟨_, e, he, hlive, hblob⟩ := get_some_lookup hg
    obtain ⟨se, hs, hr⟩ := hrel.st.fwd _ e he hlive
    have hacq := strel_acquire (cfg := cfg) (gen := gen) (c := h.c) hrel.st
    have hsp := acquire_spec h.c
    have hfl := acquire_fields h.c
    have hout1 := out_acquire hrel.out
    have hnd : NoDupKeys blob.kv := by rw [← hblob]; exact hr.nodup
    rw [hacq.2, merge_empty_of_nodup hnd, hsp.2.2.1] at hh
    have hsame : SameReq h.c (acquire h.c).1 := ⟨hfl.1, hfl.2.1, hfl.2.2.1, hfl.2.2.2.1⟩
    have hiss : Issued gen (acquire h.c).1.st.nid id := by
      rw [hsp.1]; exact hrel.st.inv.1 _ (lookup_some_mem he)
    have hv0 : ViewRel cfg gen (acquire h.c).1.st.nid { id := id, data := blob, fresh := false, hasCtx := false }
        (View.mk id se.data false se.absDeadline none false false) := by
      refine ⟨rfl, by rw [hr.data, hblob], hnd, rfl, by intro _; rw [hr.abs, hblob], ?_, by simp, hiss, rfl⟩
      intro h0; rw [← hblob]; exact hr.abs0 h0
    have hidle : decide (h.c.st.now < se.idleDeadline) = true := by
      rw [← hr.live]; exact hlive
    have hlive_eq : se.live r.s.now = !(absExpired h.c.st.now blob) := by
      rw [absExpired_iff]
      simp only [SEntry.live, SEntry.absOK, hidle, Bool.true_and, hr.abs, hblob, hrel.st.now, Bool.not_not]
      try (cases blob.abs <;> rfl)
    cases hexp : absExpired h.c.st.now blob with
    | false =>
      rw [hexp] at hh hlive_eq
      simp only [Bool.and_false, Bool.false_eq_true, if_false] at hh
      refine ⟨{ r with cur := .other (View.mk id se.data false se.absDeadline none false false) }, ?_, ?_⟩
      · simp [specAct, act, hh, hid, hs, hlive_eq]
      · have h1 := hrel.update_ctx (c' := (acquire h.c).1) hacq.1 hsp.1 hsame hout1
        have h2 := h1.set_cur (s := { id := id, data := blob, fresh := false, hasCtx := false }) hv0 rfl
        simpa [act, hh] using h2
    | true =>
      have habs : cfg.abs > 0 := by
        cases h0 : cfg.abs with
        | zero =>
          have := hr.abs0 h0
          rw [hblob] at this
          simp [absExpired, this] at hexp
        | succ n => omega
      rw [hexp] at hh hlive_eq
      simp only [habs, decide_true, Bool.and_self, if_true] at hh
      refine ⟨{ r with s := { r.s with sessions := erase r.s.sessions id } }, ?_, ?_⟩
      · simp [specAct, act, hh, hid, hs, hlive_eq]
      · have hd := destroy_sim hw (r := r) hacq.1 hv0
        have hnid : (sessDestroy cfg (acquire h.c).1 { id := id, data := blob, fresh := false, hasCtx := false }).1.st.nid
            = h.c.st.nid := by rw [sessDestroy_st]; simp [hsp.1]
        have hsame2 : SameReq h.c (sessDestroy cfg (acquire h.c).1 { id := id, data := blob, fresh := false, hasCtx := false }).1 := by
          obtain ⟨a1, a2, a3, a4⟩ := sessDestroy_same cfg (acquire h.c).1
            (s := { id := id, data := blob, fresh := false, hasCtx := false }) rfl
          exact ⟨a1.trans hfl.1, a2.trans hfl.2.1, a3.trans hfl.2.2.1, a4.trans hfl.2.2.2.1⟩
        have := hrel.update_ctx hd.1 hnid hsame2 (sessDestroy_out hout1 _)
        simpa [act, hh] using this

/-- the actions that never call the key generator -/
theorem act_nid_eq (cfg : Cfg) (gen : Nat → Bytes) (h : HSt) (a : Act) (h1 : a ≠ .storeGet) (h2 : a ≠ .regenerate)
    (h3 : a ≠ .reset) : (act cfg gen h a).1.c.st.nid = h.c.st.nid := by
  cases a with
  | storeGet => exact absurd rfl h1
  | regenerate => exact absurd rfl h2
  | reset => exact absurd rfl h3
  | byID x =>
    simp only [act]
    have hn : (getByID cfg h.c x).1.st.nid = h.c.st.nid := by
      unfold getByID
      split
      · rfl
      · cases hg : h.c.st.get x with
        | none => rfl
        | some blob =>
          simp only
          split
          · rw [sessDestroy_st]; simp [(acquire_spec h.c).1]
          · exact (acquire_spec h.c).1
    split
    · rename_i c e heq
      have hc : (getByID cfg h.c x).1 = c := by rw [heq]
      rw [← hc]; exact hn
    · rename_i c s heq
      have hc : (getByID cfg h.c x).1 = c := by rw [heq]
      rw [← hc]; exact hn
  | storeDelete x => simp only [act]; split <;> simp
  | storeReset => rfl
  | info | get k | keys => simp only [act]; split <;> rfl
  | set k v | del k | idle secs => simp only [act]; split <;> simp
  | destroy =>
    simp only [act]
    split
    · rfl
    · split <;> simp [sessDestroy_st]
  | save =>
    simp only [act]
    split
    · rfl
    · split
      · rfl
      · simp [sessSave_st]
  | release =>
    simp only [act]
    split
    · rfl
    · split <;> rfl

/-- every handler action of the model is accepted by the oracle, which lands in a related state;
    `G` = the generator outputs still expected before the action, `G'` = after it -/
theorem act_sim (hw : WF cfg gen) (hrel : Rel cfg gen G q h r) (a : Act) {G' : List Bytes}
    (hG : G = gensBetween gen h.c.st.nid (act cfg gen h a).1.c.st.nid ++ G') : ActOK cfg gen G' q h r a := by
  by_cases h1 : a = .storeGet
  · subst h1; exact act_sim_storeGet hw hrel hG
  by_cases h2 : a = .regenerate
  · subst h2; exact act_sim_regenerate hw hrel hG
  by_cases h3 : a = .reset
  · subst h3; exact act_sim_reset hw hrel hG
  have hGG : G = G' := by
    rw [act_nid_eq cfg gen h a h1 h2 h3, gensBetween_self] at hG
    simpa using hG
  subst hGG
  cases a with
  | storeGet => exact absurd rfl h1
  | regenerate => exact absurd rfl h2
  | reset => exact absurd rfl h3
  | byID id => exact act_sim_byID hw hrel id
  | info => exact act_sim_info hrel
  | get k => exact act_sim_get hrel k
  | set k v => exact act_sim_set hrel k v
  | del k => exact act_sim_del hrel k
  | keys => exact act_sim_keys hrel
  | destroy => exact act_sim_destroy hw hrel
  | idle secs => exact act_sim_idle hrel secs
  | save => exact act_sim_save hw hrel
  | release => exact act_sim_release hrel
  | storeDelete id => exact act_sim_storeDelete hrel id
  | storeReset => exact act_sim_storeReset hrel

theorem Rel.hinv (hrel : Rel cfg gen G q h r) : HInv gen h := by
  refine ⟨hrel.st.inv, ?_, ?_⟩
  · intro s hs
    have hm := hrel.mw
    rw [hs] at hm
    cases hrm : r.mw with
    | none => rw [hrm] at hm; simp [OptViewRel] at hm
    | some v => rw [hrm] at hm; exact hm.issued
  · intro s hs
    have hc := hrel.cur
    rw [hs] at hc
    cases hrc : r.cur with
    | none => rw [hrc] at hc; simp [CurRel] at hc
    | mw => rw [hrc] at hc; simp [CurRel] at hc
    | other v => rw [hrc] at hc; exact hc.issued

end actions

/-- what the simulation promises for a script -/
def ScriptOK (cfg : Cfg) (gen : Nat → Bytes) (G : List Bytes) (q : Req) (h : HSt) (r : SReq) (as : List Act) : Prop :=
  (∃ r', specScript cfg q.viaMw q r as (runScript cfg gen h as).2 = .ok r' ∧
      Rel cfg gen G q (runScript cfg gen h as).1 r') ∨
  (∃ e, specScript cfg q.viaMw q r as (runScript cfg gen h as).2 = .error e ∧ OutsideDomain e)

theorem script_sim {cfg : Cfg} {gen : Nat → Bytes} (hw : WF cfg gen) {q : Req} (as : List Act) :
    ∀ (h : HSt) (r : SReq) (G G' : List Bytes), Rel cfg gen G q h r →
      G = gensBetween gen h.c.st.nid (runScript cfg gen h as).1.c.st.nid ++ G' →
      ScriptOK cfg gen G' q h r as := by
  induction as with
  | nil =>
    intro h r G G' hrel hG
    have : G = G' := by simpa [runScript, gensBetween_self] using hG
    subst this
    left
    exact ⟨r, rfl, hrel⟩
  | cons a as ih =>
    intro h r G G' hrel hG
    simp only [runScript] at hG
    have hinv1 := act_inv cfg hrel.hinv a
    have hmono := (runScript_inv cfg as hinv1.1).2
    rw [gensBetween_append gen hinv1.2 hmono, List.append_assoc] at hG
    rcases act_sim hw hrel a hG with ⟨r1, hs1, hrel1⟩ | ⟨e, he, hd, _⟩
    · rcases ih _ r1 _ G' hrel1 rfl with ⟨r2, hs2, hrel2⟩ | ⟨e, he, hd⟩
      · left
        refine ⟨r2, ?_, ?_⟩
        · simp only [runScript, specScript, hs1, bind, Except.bind]
          exact hs2
        · simpa [runScript] using hrel2
      · right
        refine ⟨e, ?_, hd⟩
        simp only [runScript, specScript, hs1, bind, Except.bind]
        exact he
    · right
      refine ⟨e, ?_, hd⟩
      simp only [runScript, specScript, he, bind, Except.bind]

/-! ### whole requests -/

theorem start_sim {cfg : Cfg} {gen : Nat → Bytes} (hw : WF cfg gen) {st : St} {s : SpecSt} {q : Req} (G : List Bytes)
    (hst : StRel cfg gen st s) :
    ∃ r0, specStart cfg s q (gensBetween gen st.nid (startReq cfg gen st q).c.st.nid ++ G) = .ok r0 ∧
      Rel cfg gen G q (startReq cfg gen st q) r0 := by
  cases hvia : q.viaMw with
  | true =>
    simp only [startReq, hvia, if_true]
    have hout : OutOK gen ({ st := st, ck := q.ck, hd := q.hd, qr := q.qr } : RCtx) :=
      ⟨by intro v hv; simp at hv, by intro v hv; simp at hv⟩
    obtain ⟨r', v, hlv, sim, hmono, hvd, hvc⟩ :=
      load_sim hw (c := { st := st, ck := q.ck, hd := q.hd, qr := q.qr }) (G := G)
        (r := SReq.mk s (gensBetween gen st.nid (getSession cfg gen { st := st, ck := q.ck, hd := q.hd, qr := q.qr }).1.st.nid ++ G) q.pres none none false .none)
        hst ⟨rfl, rfl, rfl, rfl⟩ hout rfl
    refine ⟨{ r' with mw := some v, cur := .mw }, ?_, ?_⟩
    · simp [specStart, hvia, hlv, bind, Except.bind, pure, Except.pure]
    · refine ⟨sim.st, sim.gens, sim.out, sim.view, trivial, ?_, ?_, ?_, ?_, sim.req⟩
      · simp only; rw [sim.fields.2.1]
      · simp [hvia]
      · intro s0 hs0; simp only [Option.some.injEq] at hs0; subst hs0; rw [← sim.view.ctx]; exact hvc
      · intro _ v1 hv1; simp only [Option.some.injEq] at hv1; subst hv1; exact hvd
  | false =>
    simp only [startReq, hvia]
    refine ⟨{ s := s, gens := G, pres := q.pres }, ?_, ?_⟩
    · simp [specStart, hvia, pure, Except.pure, gensBetween_self]
    · refine ⟨hst, rfl, ⟨by intro v hv; simp at hv, by intro v hv; simp at hv⟩, trivial, trivial, rfl, ?_, ?_, ?_,
        ⟨rfl, rfl, rfl, rfl⟩⟩
      · simp [hvia]
      · intro s0 hs0; simp at hs0
      · intro _ v1 hv1; simp at hv1

theorem handle_eq (cfg : Cfg) (gen : Nat → Bytes) (st : St) (q : Req) :
    handle cfg gen st q =
      ((endCtx cfg q (runScript cfg gen (startReq cfg gen st q) q.script).1).st,
       { acts := (runScript cfg gen (startReq cfg gen st q) q.script).2,
         outCk := (endCtx cfg q (runScript cfg gen (startReq cfg gen st q) q.script).1).outCk,
         outHd := (endCtx cfg q (runScript cfg gen (startReq cfg gen st q) q.script).1).outHd,
         gens := gensBetween gen st.nid (endCtx cfg q (runScript cfg gen (startReq cfg gen st q) q.script).1).st.nid,
         keys := (endCtx cfg q (runScript cfg gen (startReq cfg gen st q) q.script).1).st.liveKeys }) := rfl

theorem endCtx_mono {cfg : Cfg} {gen : Nat → Bytes} {G : List Bytes} {q : Req} {h : HSt} {r : SReq}
    (hrel : Rel cfg gen G q h r) : h.c.st.nid ≤ (endCtx cfg q h).st.nid := by
  unfold endCtx
  split
  · exact (mwFinish_inv cfg hrel.hinv).2
  · exact Nat.le_refl _

/-- the middleware's part after the handler -/
theorem finish_sim {cfg : Cfg} {gen : Nat → Bytes} (hw : WF cfg gen) {G : List Bytes} {q : Req} {h : HSt} {r : SReq}
    (hrel : Rel cfg gen G q h r) (o : Obs) (hck : o.outCk = (endCtx cfg q h).outCk)
    (hhd : o.outHd = (endCtx cfg q h).outHd) :
    ∃ r2, specFinish cfg r o = .ok r2 ∧ StRel cfg gen (endCtx cfg q h).st r2.s ∧ OutOK gen (endCtx cfg q h) := by
  cases hvia : q.viaMw with
  | false =>
    have hmw : h.mw.isSome = false := by rw [← hrel.viaMw]; exact hvia
    have hmwn : h.mw = none := by cases hm : h.mw <;> simp_all
    have hrm : r.mw = none := by
      have hm := hrel.mw
      rw [hmwn] at hm
      cases hrm : r.mw with
      | none => rfl
      | some v0 => rw [hrm] at hm; simp [OptViewRel] at hm
    refine ⟨r, ?_, ?_, ?_⟩
    · simp [specFinish, hrm, pure, Except.pure]
    · simp only [endCtx, hvia]; exact hrel.st
    · simp only [endCtx, hvia]; exact hrel.out
  | true =>
    have hmw : h.mw.isSome = true := by rw [← hrel.viaMw]; exact hvia
    obtain ⟨s, hs⟩ := Option.isSome_iff_exists.mp hmw
    have hm := hrel.mw
    rw [hs] at hm
    cases hrm : r.mw with
    | none => rw [hrm] at hm; simp [OptViewRel] at hm
    | some v =>
      rw [hrm] at hm
      simp only [OptViewRel] at hm
      have hck' := hck
      have hhd' := hhd
      simp only [endCtx, hvia, if_true, mwFinish, hs] at hck' hhd' ⊢
      cases hd : h.destroyed with
      | true =>
        have hrd : r.mwDestroyed = true := by rw [hrel.destroyed]; exact hd
        refine ⟨r, ?_, ?_, ?_⟩
        · simp [specFinish, hrm, hrd, pure, Except.pure]
        · simp only [if_true]; exact hrel.st
        · simp only [if_true]; exact hrel.out
      | false =>
        have hrd : r.mwDestroyed = false := by rw [hrel.destroyed]; exact hd
        have hvd := hrel.mwLive hd v hrm
        have hsim := save_sim hw (r := { r with cur := .mw }) hrel.st hm hvd
        simp only [hd, Bool.false_eq_true, if_false] at hck' hhd' ⊢
        have hcar := sessSave_carries cfg h.c (hrel.mwCtx s hs)
        have hid : ∀ r0 : SReq, (saveView cfg r0 v).2.id = s.id := by intro r0; rw [saveView_eq]; exact hm.id
        have hfin : specFinish cfg r o = .ok (saveView cfg { r with cur := .mw } v).1 := by
          unfold specFinish
          rw [hrm]
          simp only [hrd, Bool.false_eq_true, if_false, hid]
          by_cases hsrc : cfg.source = .header
          · simp only [hsrc, if_true] at hcar ⊢
            simp [hhd', release, hcar, pure, Except.pure]
          · simp only [hsrc, if_false] at hcar ⊢
            simp [hck', release, hcar, pure, Except.pure]
        refine ⟨_, hfin, ?_, ?_⟩
        · exact strel_congr hsim.1 rfl rfl rfl (release_inv (c := (sessSave cfg h.c s).1) hsim.1.inv s).2
        · have := sessSave_out hrel.out hm.issued (cfg := cfg)
          exact ⟨this.ck, this.hd⟩

theorem mem_liveKeys {st : St} {k : Bytes} : k ∈ st.liveKeys ↔ ∃ e, (k, e) ∈ st.store ∧ e.live st.now = true := by
  simp only [St.liveKeys, List.mem_map, List.mem_filter]
  constructor
  · rintro ⟨⟨k', e⟩, ⟨hm, hl⟩, rfl⟩
    exact ⟨e, hm, hl⟩
  · rintro ⟨e, hm, hl⟩
    exact ⟨(k, e), ⟨hm, hl⟩, rfl⟩

/-- the checks on the reply and on the storage keys -/
theorem end_sim {cfg : Cfg} {gen : Nat → Bytes} {c : RCtx} {s : SpecSt} (hst : StRel cfg gen c.st s)
    (hout : OutOK gen c) (o : Obs) (hck : o.outCk = c.outCk) (hhd : o.outHd = c.outHd)
    (hk : o.keys = c.st.liveKeys) : specEnd s o = .ok s := by
  have h1 : ∀ v, o.outCk = some (some v) → s.issued.contains v = true := by
    intro v hv
    rw [hst.issued]
    exact issued_contains (hout.ck v (by rw [← hck]; exact hv))
  have h2 : ∀ v, o.outHd = some v → s.issued.contains v = true := by
    intro v hv
    rw [hst.issued]
    exact issued_contains (hout.hd v (by rw [← hhd]; exact hv))
  have h3 : o.keys.all s.issued.contains = true := by
    rw [List.all_eq_true]
    intro k hkm
    rw [hk] at hkm
    obtain ⟨e, hm, _⟩ := mem_liveKeys.mp hkm
    rw [hst.issued]
    exact issued_contains (hst.inv.1 (k, e) hm)
  have h4 : o.keys.all ((s.sessions.filter fun e => decide (s.now < e.2.idleDeadline)).map (·.1)).contains = true := by
    rw [List.all_eq_true]
    intro k hkm
    rw [hk] at hkm
    obtain ⟨e, hm, hl⟩ := mem_liveKeys.mp hkm
    obtain ⟨se, hs, hr⟩ := hst.fwd k e (lookup_of_mem_nodup hst.nodupStore hm) hl
    rw [hr.live] at hl
    simp only [List.contains_iff_mem, List.mem_map, List.mem_filter]
    exact ⟨(k, se), ⟨lookup_some_mem hs, by rw [hst.now]; exact hl⟩, rfl⟩
  have h5 : ((s.sessions.filter fun e => decide (s.now < e.2.idleDeadline)).map (·.1)).all o.keys.contains = true := by
    rw [List.all_eq_true]
    intro k hkm
    simp only [List.mem_map, List.mem_filter] at hkm
    obtain ⟨⟨k', se⟩, ⟨hm, hl⟩, rfl⟩ := hkm
    simp only [decide_eq_true_eq, hst.now] at hl
    obtain ⟨e, he, hr⟩ := hst.bwd k' se (lookup_of_mem_nodup hst.nodupSess hm) hl
    simp only [List.contains_iff_mem]
    rw [hk]
    exact mem_liveKeys.mpr ⟨e, lookup_some_mem he, by rw [hr.live]; simpa using hl⟩
  have h1' : ∀ v, o.outCk = some (some v) → v ∈ s.issued := fun v hv => by simpa using h1 v hv
  have h2' : ∀ v, o.outHd = some v → v ∈ s.issued := fun v hv => by simpa using h2 v hv
  unfold specEnd
  simp only [h3, h4, h5, Bool.not_true, Bool.false_eq_true, if_false]
  cases hoc : o.outCk with
  | none =>
    cases hoh : o.outHd with
    | none => rfl
    | some w => simp [h2' w hoh, pure, Except.pure]
  | some x =>
    cases x with
    | none =>
      cases hoh : o.outHd with
      | none => rfl
      | some w => simp [h2' w hoh, pure, Except.pure]
    | some v =>
      cases hoh : o.outHd with
      | none => simp [h1' v hoc, pure, Except.pure]
      | some w => simp [h1' v hoc, h2' w hoh, pure, Except.pure]

theorem mwFinish_nid (cfg : Cfg) (h : HSt) : (mwFinish cfg h).st.nid = h.c.st.nid := by
  unfold mwFinish
  split
  · split
    · rfl
    · simp [release, sessSave_st]
  · rfl

theorem endCtx_nid (cfg : Cfg) (q : Req) (h : HSt) : (endCtx cfg q h).st.nid = h.c.st.nid := by
  unfold endCtx
  split
  · exact mwFinish_nid cfg h
  · rfl

/-- one request of the model is accepted by the oracle (or is outside the domain) -/
theorem req_sim {cfg : Cfg} {gen : Nat → Bytes} (hw : WF cfg gen) {st : St} {s : SpecSt}
    (hst : StRel cfg gen st s) (q : Req) :
    (∃ s', specReq cfg s q (handle cfg gen st q).2.toObs = .ok s' ∧ StRel cfg gen (handle cfg gen st q).1 s') ∨
    (∃ e, specReq cfg s q (handle cfg gen st q).2.toObs = .error e ∧ OutsideDomain e) := by
  have h0 := startReq_hinv cfg hst.inv q
  have h1 := runScript_inv cfg q.script h0.1
  have hg : (handle cfg gen st q).2.toObs.gens =
      gensBetween gen st.nid (startReq cfg gen st q).c.st.nid ++
        (gensBetween gen (startReq cfg gen st q).c.st.nid
          (runScript cfg gen (startReq cfg gen st q) q.script).1.c.st.nid ++ []) := by
    have : (handle cfg gen st q).2.toObs.gens =
        gensBetween gen st.nid (endCtx cfg q (runScript cfg gen (startReq cfg gen st q) q.script).1).st.nid := rfl
    rw [this, endCtx_nid, List.append_nil, ← gensBetween_append gen h0.2 h1.2]
  obtain ⟨r0, hs0, hrel0⟩ := start_sim hw (q := q)
    (gensBetween gen (startReq cfg gen st q).c.st.nid
      (runScript cfg gen (startReq cfg gen st q) q.script).1.c.st.nid ++ []) hst
  have ha : (handle cfg gen st q).2.toObs.acts = (runScript cfg gen (startReq cfg gen st q) q.script).2 := rfl
  have hstat : (handle cfg gen st q).2.toObs.status = 200 := rfl
  have hfst : (handle cfg gen st q).1 = (endCtx cfg q (runScript cfg gen (startReq cfg gen st q) q.script).1).st := rfl
  rcases script_sim hw q.script _ r0 _ [] hrel0 rfl with ⟨r1, hs1, hrel1⟩ | ⟨e, he, hd⟩
  · left
    obtain ⟨r2, hs2, hst2, hout2⟩ := finish_sim hw hrel1 (handle cfg gen st q).2.toObs rfl rfl
    have he := end_sim hst2 hout2 (handle cfg gen st q).2.toObs rfl rfl rfl
    refine ⟨r2.s, ?_, by rw [hfst]; exact hst2⟩
    simp only [specReq, hstat, ne_eq, not_true_eq_false, if_false, bind, Except.bind, hg, ha, hs0, hs1, hs2]
    exact he
  · right
    refine ⟨e, ?_, hd⟩
    simp only [specReq, hstat, ne_eq, not_true_eq_false, if_false, bind, Except.bind, hg, ha, hs0, he]

/-- the observations the harness would record of the model: one per operation -/
def obsOf : List (Option Resp) → List (Option Obs) := List.map (Option.map Resp.toObs)

/-- every history of the model is accepted by the oracle (or is outside the domain) -/
theorem run_sim {cfg : Cfg} {gen : Nat → Bytes} (hw : WF cfg gen) (ops : List Op) :
    ∀ (st : St) (s : SpecSt), StRel cfg gen st s →
      specRun cfg s ops (obsOf (run cfg gen st ops).2) = none ∨
      ∃ e, specRun cfg s ops (obsOf (run cfg gen st ops).2) = some e ∧ OutsideDomain e := by
  induction ops with
  | nil => intro st s _; left; rfl
  | cons o ops ih =>
    intro st s hst
    cases o with
    | adv d =>
      simp only [run, step, obsOf, List.map, Option.map, specRun]
      exact ih _ _ (strel_adv hst d)
    | req q =>
      simp only [run, step, obsOf, List.map, Option.map, specRun]
      rcases req_sim hw hst q with ⟨s', hs', hst'⟩ | ⟨e, he, hd⟩
      · rw [hs']
        exact ih _ _ hst'
      · right
        exact ⟨e, by rw [he], hd⟩

end C15
