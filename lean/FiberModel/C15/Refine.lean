import FiberModel.C15.Invariants
/-
C15 — refinement: the store + pool + middleware model simulates the abstract session table of Spec.lean.
`StRel` relates a storage state to an abstract table, `ViewRel` a Session object to an abstract view;
every primitive of the model is matched with its abstract counterpart.
-/
namespace C15
open B

/-- the configurations and key generators the theorems are about: `configDefault` guarantees a positive
    idle timeout; the generator never repeats an id and never returns the empty string -/
structure WF (cfg : Cfg) (gen : Nat → Bytes) : Prop where
  idle : 0 < cfg.idle
  inj : ∀ i j, gen i = gen j → i = j
  nonempty : ∀ i, gen i ≠ []

structure EntryRel (cfg : Cfg) (e : Entry) (se : SEntry) : Prop where
  deadline : e.deadline = some se.idleDeadline
  data : se.data = e.blob.kv
  abs : se.absDeadline = e.blob.abs
  nodup : NoDupKeys e.blob.kv
  abs0 : cfg.abs = 0 → e.blob.abs = none

structure StRel (cfg : Cfg) (gen : Nat → Bytes) (st : St) (s : SpecSt) : Prop where
  now : s.now = st.now
  issued : s.issued = (List.range st.nid).map gen
  inv : Inv gen st
  nodupStore : NoDupKeys st.store
  nodupSess : NoDupKeys s.sessions
  fwd : ∀ id e, lookup st.store id = some e → e.live st.now = true →
    ∃ se, lookup s.sessions id = some se ∧ EntryRel cfg e se
  bwd : ∀ id se, lookup s.sessions id = some se → st.now < se.idleDeadline →
    ∃ e, lookup st.store id = some e ∧ EntryRel cfg e se

theorem EntryRel.live {cfg : Cfg} {e : Entry} {se : SEntry} (h : EntryRel cfg e se) (now : Nat) :
    e.live now = decide (now < se.idleDeadline) := by
  simp [Entry.live, h.deadline]

theorem strel_init (cfg : Cfg) (gen : Nat → Bytes) : StRel cfg gen {} specInit := by
  refine ⟨rfl, rfl, inv_init gen, trivial, trivial, ?_, ?_⟩
  · intro id e h; simp [lookup] at h
  · intro id se h; simp [specInit, lookup] at h

/-- time passes -/
theorem strel_adv {cfg : Cfg} {gen : Nat → Bytes} {st : St} {s : SpecSt} (h : StRel cfg gen st s) (d : Nat) :
    StRel cfg gen { st with now := st.now + d } { s with now := s.now + d } := by
  refine ⟨by simp [h.now], h.issued, h.inv, h.nodupStore, h.nodupSess, ?_, ?_⟩
  · intro id e he hl
    have hl' : e.live st.now = true := by
      simp only [Entry.live] at hl ⊢
      split at hl
      · rfl
      · simp only [decide_eq_true_eq] at hl ⊢; omega
    exact h.fwd id e he hl'
  · intro id se hs hl
    exact h.bwd id se hs (by simp only at hl; omega)

/-- `Storage.Delete` / abstract erase -/
theorem strel_del {cfg : Cfg} {gen : Nat → Bytes} {st : St} {s : SpecSt} (h : StRel cfg gen st s)
    {id : Bytes} (hid : id ≠ []) :
    StRel cfg gen (st.del id) { s with sessions := erase s.sessions id } := by
  have hd : st.del id = { st with store := erase st.store id } := by simp [St.del, hid]
  rw [hd]
  refine ⟨h.now, h.issued, ?_, nodup_erase h.nodupStore id, nodup_erase h.nodupSess id, ?_, ?_⟩
  · have := del_inv h.inv id; rw [hd] at this; exact this
  · intro id' e he hl
    by_cases hk : id' = id
    · subst hk; simp [lookup_erase_self] at he
    · simp only at he
      rw [lookup_erase_ne _ _ _ hk] at he
      obtain ⟨se, hs, hr⟩ := h.fwd id' e he hl
      exact ⟨se, by simp only; rw [lookup_erase_ne _ _ _ hk]; exact hs, hr⟩
  · intro id' se hs hl
    by_cases hk : id' = id
    · subst hk; simp [lookup_erase_self] at hs
    · simp only at hs
      rw [lookup_erase_ne _ _ _ hk] at hs
      obtain ⟨e, he, hr⟩ := h.bwd id' se hs hl
      exact ⟨e, by simp only; rw [lookup_erase_ne _ _ _ hk]; exact he, hr⟩

/-- `Storage.Reset` -/
theorem strel_reset {cfg : Cfg} {gen : Nat → Bytes} {st : St} {s : SpecSt} (h : StRel cfg gen st s) :
    StRel cfg gen { st with store := [] } { s with sessions := [] } := by
  refine ⟨h.now, h.issued, ⟨?_, h.inv.2⟩, trivial, trivial, ?_, ?_⟩
  · intro e he; simp at he
  · intro id e he; simp [lookup] at he
  · intro id se hs; simp [lookup] at hs

/-- `Storage.Set` with a positive TTL / abstract save -/
theorem strel_set {cfg : Cfg} {gen : Nat → Bytes} {st : St} {s : SpecSt} (h : StRel cfg gen st s)
    {id : Bytes} (hid : Issued gen st.nid id) (hne : id ≠ []) (d : SData) {ttl : Nat} (httl : 0 < ttl)
    (hnd : NoDupKeys d.kv) (habs0 : cfg.abs = 0 → d.abs = none) :
    StRel cfg gen (st.set id d ttl)
      { s with sessions := put s.sessions id { data := d.kv, idleDeadline := s.now + ttl, absDeadline := d.abs } } := by
  have hne0 : ttl ≠ 0 := by omega
  have hd : st.set id d ttl = { st with store := put st.store id { blob := d, deadline := some (st.now + ttl) } } := by
    simp [St.set, hne, hne0]
  have her : EntryRel cfg { blob := d, deadline := some (st.now + ttl) }
      { data := d.kv, idleDeadline := s.now + ttl, absDeadline := d.abs } :=
    ⟨by simp [h.now], rfl, rfl, hnd, habs0⟩
  refine ⟨?_, ?_, ?_, ?_, nodup_put h.nodupSess _ _, ?_, ?_⟩
  · rw [hd]; exact h.now
  · rw [hd]; exact h.issued
  · exact set_inv h.inv hid d ttl
  · rw [hd]; exact nodup_put h.nodupStore _ _
  · rw [hd]
    intro id' e he hl
    by_cases hk : id' = id
    · subst hk
      simp only [lookup_put_self, Option.some.injEq] at he
      subst he
      exact ⟨_, lookup_put_self _ _ _, her⟩
    · simp only at he
      rw [lookup_put_ne _ _ _ _ hk] at he
      obtain ⟨se, hs, hr⟩ := h.fwd id' e he hl
      exact ⟨se, by simp only; rw [lookup_put_ne _ _ _ _ hk]; exact hs, hr⟩
  · rw [hd]
    intro id' se hs hl
    by_cases hk : id' = id
    · subst hk
      simp only [lookup_put_self, Option.some.injEq] at hs
      subst hs
      exact ⟨_, lookup_put_self _ _ _, her⟩
    · simp only at hs
      rw [lookup_put_ne _ _ _ _ hk] at hs
      obtain ⟨e, he, hr⟩ := h.bwd id' se hs hl
      exact ⟨e, by simp only; rw [lookup_put_ne _ _ _ _ hk]; exact he, hr⟩

/-! ### issued ids -/

theorem issued_ne_nil {cfg : Cfg} {gen : Nat → Bytes} (hw : WF cfg gen) {n : Nat} {id : Bytes}
    (h : Issued gen n id) : id ≠ [] := by
  obtain ⟨i, _, e⟩ := h
  rw [e]; exact hw.nonempty i

theorem issued_contains {gen : Nat → Bytes} {n : Nat} {id : Bytes} (h : Issued gen n id) :
    ((List.range n).map gen).contains id = true := by
  obtain ⟨i, hi, e⟩ := h
  simp only [List.contains_iff_mem, List.mem_map, List.mem_range]
  exact ⟨i, hi, e.symm⟩

theorem new_not_issued {cfg : Cfg} {gen : Nat → Bytes} (hw : WF cfg gen) (n : Nat) :
    ((List.range n).map gen).contains (gen n) = false := by
  cases hc : ((List.range n).map gen).contains (gen n) with
  | false => rfl
  | true =>
    simp only [List.contains_iff_mem, List.mem_map, List.mem_range] at hc
    obtain ⟨i, hi, e⟩ := hc
    have := hw.inj i n e
    omega

theorem new_ne_issued {cfg : Cfg} {gen : Nat → Bytes} (hw : WF cfg gen) {n : Nat} {id : Bytes}
    (h : Issued gen n id) : id ≠ gen n := by
  obtain ⟨i, hi, e⟩ := h
  intro h2
  have := hw.inj i n (by rw [← e, h2])
  omega

theorem gensBetween_lt {gen : Nat → Bytes} {n m : Nat} (h : n < m) :
    gensBetween gen n m = gen n :: gensBetween gen (n + 1) m := by
  unfold gensBetween
  have : m - n = (m - (n + 1)) + 1 := by omega
  rw [this, List.range'_succ]
  rfl

theorem gensBetween_self (gen : Nat → Bytes) (n : Nat) : gensBetween gen n n = [] := by
  simp [gensBetween]

theorem gensBetween_succ (gen : Nat → Bytes) (n : Nat) : gensBetween gen n (n + 1) = [gen n] := by
  simp [gensBetween]

theorem gensBetween_append (gen : Nat → Bytes) {a b c : Nat} (hab : a ≤ b) (hbc : b ≤ c) :
    gensBetween gen a c = gensBetween gen a b ++ gensBetween gen b c := by
  unfold gensBetween
  rw [← List.map_append]
  congr 1
  have h1 : c - a = (b - a) + (c - b) := by omega
  have h2 : a + (b - a) = b := by omega
  have l := List.range'_append_1 (s := a) (m := b - a) (n := c - b)
  rw [h2] at l
  rw [h1]
  exact l.symm

/-- the abstract counterpart of `KeyGenerator()`: the next observed generator output is new -/
theorem freshView_ok {cfg : Cfg} {gen : Nat → Bytes} (hw : WF cfg gen) {r : SReq} {n : Nat} {G : List Bytes}
    (hiss : r.s.issued = (List.range n).map gen) (hg : r.gens = gen n :: G) :
    freshView cfg r = .ok
      ({ r with gens := G, s := { r.s with issued := (List.range (n + 1)).map gen } },
       { id := gen n, data := [], fresh := true,
         abs := if cfg.abs > 0 then some (r.s.now + cfg.abs) else none }) := by
  unfold freshView
  rw [hg]
  simp only [hw.nonempty n, if_false, hiss, new_not_issued hw n, Bool.false_eq_true]
  simp [List.range_succ]

/-- `KeyGenerator()` is called once -/
theorem strel_newid {cfg : Cfg} {gen : Nat → Bytes} {st : St} {s : SpecSt} (h : StRel cfg gen st s) :
    StRel cfg gen { st with nid := st.nid + 1 } { s with issued := (List.range (st.nid + 1)).map gen } := by
  refine ⟨h.now, rfl, ⟨?_, h.inv.2⟩, h.nodupStore, h.nodupSess, h.fwd, h.bwd⟩
  intro e he
  exact (h.inv.1 e he).mono (Nat.le_succ _)

/-! ### Session objects and abstract views -/

structure ViewRel (cfg : Cfg) (gen : Nat → Bytes) (nid : Nat) (s : Sess) (v : View) : Prop where
  id : v.id = s.id
  data : v.data = s.data.kv
  nodup : NoDupKeys s.data.kv
  fresh : v.fresh = s.fresh
  abs : v.destroyed = false → v.abs = s.data.abs
  abs0 : cfg.abs = 0 → s.data.abs = none
  idle : v.idle = if s.idleT > 0 then some s.idleT.toNat else none
  issued : Issued gen nid s.id

theorem ViewRel.mono {cfg : Cfg} {gen : Nat → Bytes} {n m : Nat} {s : Sess} {v : View}
    (h : ViewRel cfg gen n s v) (hnm : n ≤ m) : ViewRel cfg gen m s v :=
  ⟨h.id, h.data, h.nodup, h.fresh, h.abs, h.abs0, h.idle, h.issued.mono hnm⟩

/-- the reply only ever carries issued ids -/
structure OutOK (gen : Nat → Bytes) (c : RCtx) : Prop where
  ck : ∀ v, c.outCk = some (some v) → Issued gen c.st.nid v
  hd : ∀ v, c.outHd = some v → Issued gen c.st.nid v

/-- request fields a session without a context (`GetByID`) cannot touch -/
def SameReq (c c' : RCtx) : Prop := c'.ck = c.ck ∧ c'.hd = c.hd ∧ c'.qr = c.qr ∧ c'.locals = c.locals

theorem SameReq.rfl' (c : RCtx) : SameReq c c := ⟨rfl, rfl, rfl, rfl⟩

/-! ### projections of the session operations -/

theorem delSession_out {gen : Nat → Bytes} {cfg : Cfg} {c : RCtx} (h : OutOK gen c) (s : Sess) :
    OutOK gen (delSession cfg c s) := by
  unfold delSession
  split
  · exact h
  · split
    · exact ⟨h.ck, by intro v hv; simp at hv⟩
    · exact ⟨by intro v hv; simp at hv, h.hd⟩

theorem delSession_same (cfg : Cfg) (c : RCtx) {s : Sess} (hs : s.hasCtx = false) : delSession cfg c s = c := by
  simp [delSession, hs]

theorem setSession_out {gen : Nat → Bytes} {cfg : Cfg} {c : RCtx} (h : OutOK gen c) {s : Sess}
    (hs : Issued gen c.st.nid s.id) : OutOK gen (setSession cfg c s) := by
  unfold setSession
  split
  · exact h
  · split
    · exact ⟨h.ck, by intro v hv; simp only [Option.some.injEq] at hv; subst hv; exact hs⟩
    · exact ⟨by intro v hv; simp only [Option.some.injEq] at hv; subst hv; exact hs, h.hd⟩

theorem setSession_same (cfg : Cfg) (c : RCtx) {s : Sess} (hs : s.hasCtx = false) : setSession cfg c s = c := by
  simp [setSession, hs]

/-- the TTL `saveSession` hands to the storage -/
def saveTTL (cfg : Cfg) (s : Sess) : Nat := if s.idleT ≤ 0 then cfg.idle else s.idleT.toNat

theorem saveTTL_pos {cfg : Cfg} {gen : Nat → Bytes} (hw : WF cfg gen) (s : Sess) : 0 < saveTTL cfg s := by
  unfold saveTTL
  split
  · exact hw.idle
  · omega

theorem sessSave_snd (cfg : Cfg) (c : RCtx) (s : Sess) :
    (sessSave cfg c s).2 = { s with idleT := if s.idleT ≤ 0 then (cfg.idle : Int) else s.idleT } := by
  unfold sessSave
  split <;> simp_all

theorem sessSave_st (cfg : Cfg) (c : RCtx) (s : Sess) :
    (sessSave cfg c s).1.st = c.st.set s.id s.data (saveTTL cfg s) := by
  unfold sessSave saveTTL
  split <;> simp_all

theorem sessSave_out {gen : Nat → Bytes} {cfg : Cfg} {c : RCtx} (h : OutOK gen c) {s : Sess}
    (hs : Issued gen c.st.nid s.id) : OutOK gen (sessSave cfg c s).1 := by
  have h1 : ∀ s' : Sess, s'.id = s.id → OutOK gen ({ setSession cfg c s' with st := (setSession cfg c s').st.set s'.id s'.data s'.idleT.toNat } : RCtx) := by
    intro s' hid
    have := setSession_out (cfg := cfg) h (s := s') (by rw [hid]; exact hs)
    exact ⟨by intro v hv; simpa using this.ck v hv, by intro v hv; simpa using this.hd v hv⟩
  unfold sessSave
  split
  · exact h1 _ rfl
  · exact h1 _ rfl

theorem sessSave_same (cfg : Cfg) (c : RCtx) {s : Sess} (hs : s.hasCtx = false) : SameReq c (sessSave cfg c s).1 := by
  unfold sessSave
  split <;> simp [SameReq, setSession, hs]

/-- after `saveSession` behind the middleware the reply carries the session id -/
theorem sessSave_carries (cfg : Cfg) (c : RCtx) {s : Sess} (hs : s.hasCtx = true) :
    if cfg.source = .header then (sessSave cfg c s).1.outHd = some s.id
    else (sessSave cfg c s).1.outCk = some (some s.id) := by
  unfold sessSave
  split <;> split <;> simp_all [setSession]

theorem sessDestroy_st (cfg : Cfg) (c : RCtx) (s : Sess) : (sessDestroy cfg c s).1.st = c.st.del s.id := by
  simp [sessDestroy]

theorem sessDestroy_snd (cfg : Cfg) (c : RCtx) (s : Sess) :
    (sessDestroy cfg c s).2 = { s with data := SData.empty } := rfl

theorem sessDestroy_out {gen : Nat → Bytes} {cfg : Cfg} {c : RCtx} (h : OutOK gen c) (s : Sess) :
    OutOK gen (sessDestroy cfg c s).1 := by
  unfold sessDestroy
  apply delSession_out
  exact ⟨by intro v hv; simpa using h.ck v hv, by intro v hv; simpa using h.hd v hv⟩

theorem sessDestroy_same (cfg : Cfg) (c : RCtx) {s : Sess} (hs : s.hasCtx = false) :
    SameReq c (sessDestroy cfg c s).1 := by
  simp [sessDestroy, delSession, hs, SameReq]

theorem sessRegenerate_st (gen : Nat → Bytes) (c : RCtx) (s : Sess) :
    (sessRegenerate gen c s).1.st = { c.st.del s.id with nid := c.st.nid + 1 } := by
  simp [sessRegenerate, newID]

theorem sessRegenerate_snd (gen : Nat → Bytes) (c : RCtx) (s : Sess) :
    (sessRegenerate gen c s).2 = { s with id := gen c.st.nid, fresh := true } := by
  simp [sessRegenerate, newID]

theorem sessRegenerate_out {gen : Nat → Bytes} {c : RCtx} (h : OutOK gen c) (s : Sess) :
    OutOK gen (sessRegenerate gen c s).1 := by
  refine ⟨?_, ?_⟩
  · intro v hv
    have : (sessRegenerate gen c s).1.outCk = c.outCk := by simp [sessRegenerate, newID]
    rw [this] at hv
    rw [sessRegenerate_st]
    exact (h.ck v hv).mono (by simp)
  · intro v hv
    have : (sessRegenerate gen c s).1.outHd = c.outHd := by simp [sessRegenerate, newID]
    rw [this] at hv
    rw [sessRegenerate_st]
    exact (h.hd v hv).mono (by simp)

theorem sessRegenerate_same (gen : Nat → Bytes) (c : RCtx) (s : Sess) : SameReq c (sessRegenerate gen c s).1 := by
  simp [sessRegenerate, newID, SameReq]

theorem sessReset_st (cfg : Cfg) (gen : Nat → Bytes) (c : RCtx) (s : Sess) :
    (sessReset cfg gen c s).1.st = { c.st.del s.id with nid := c.st.nid + 1 } := by
  simp [sessReset, newID]

theorem sessReset_snd (cfg : Cfg) (gen : Nat → Bytes) (c : RCtx) (s : Sess) :
    (sessReset cfg gen c s).2 =
      { s with id := gen c.st.nid, fresh := true, idleT := 0,
               data := { kv := [], abs := if cfg.abs > 0 then some (c.st.now + cfg.abs) else none } } := by
  simp [sessReset, newID]

theorem sessReset_out {gen : Nat → Bytes} {cfg : Cfg} {c : RCtx} (h : OutOK gen c) (s : Sess) :
    OutOK gen (sessReset cfg gen c s).1 := by
  have h0 : OutOK gen (delSession cfg { c with st := c.st.del s.id } s) := by
    apply delSession_out
    exact ⟨by intro v hv; simpa using h.ck v hv, by intro v hv; simpa using h.hd v hv⟩
  refine ⟨?_, ?_⟩
  · intro v hv
    have e : (sessReset cfg gen c s).1.outCk = (delSession cfg { c with st := c.st.del s.id } s).outCk := by
      simp [sessReset, newID]
    rw [e] at hv
    rw [sessReset_st]
    have := h0.ck v hv
    simp only [delSession_st, del_nid] at this
    exact this.mono (by simp)
  · intro v hv
    have e : (sessReset cfg gen c s).1.outHd = (delSession cfg { c with st := c.st.del s.id } s).outHd := by
      simp [sessReset, newID]
    rw [e] at hv
    rw [sessReset_st]
    have := h0.hd v hv
    simp only [delSession_st, del_nid] at this
    exact this.mono (by simp)

theorem sessReset_same (cfg : Cfg) (gen : Nat → Bytes) (c : RCtx) {s : Sess} (hs : s.hasCtx = false) :
    SameReq c (sessReset cfg gen c s).1 := by
  simp [sessReset, newID, delSession, hs, SameReq]

/-! ### the session operations against their abstract counterparts -/

/-- the TTL the abstract save uses -/
def specTTL (cfg : Cfg) (v : View) : Nat := match v.idle with | some d => d | none => cfg.idle

theorem saveView_eq (cfg : Cfg) (r : SReq) (v : View) :
    saveView cfg r v =
      ({ r with s := { r.s with sessions := put r.s.sessions v.id (SEntry.mk v.data (r.s.now + specTTL cfg v) v.abs) } },
       { v with idle := some (specTTL cfg v) }) := rfl

theorem ttl_eq {cfg : Cfg} {gen : Nat → Bytes} {n : Nat} {s : Sess} {v : View} (hv : ViewRel cfg gen n s v) :
    specTTL cfg v = saveTTL cfg s := by
  unfold specTTL saveTTL
  rw [hv.idle]
  by_cases h : s.idleT > 0
  · have : ¬ s.idleT ≤ 0 := by omega
    simp [h, this]
  · have : s.idleT ≤ 0 := by omega
    simp [h, this]

theorem save_sim {cfg : Cfg} {gen : Nat → Bytes} (hw : WF cfg gen) {c : RCtx} {r : SReq} {s : Sess} {v : View}
    (hst : StRel cfg gen c.st r.s) (hv : ViewRel cfg gen c.st.nid s v) (hnd : v.destroyed = false) :
    StRel cfg gen (sessSave cfg c s).1.st (saveView cfg r v).1.s ∧
    ViewRel cfg gen c.st.nid (sessSave cfg c s).2 (saveView cfg r v).2 := by
  rw [sessSave_st, sessSave_snd, saveView_eq, ttl_eq hv]
  constructor
  · have := strel_set hst hv.issued (issued_ne_nil hw hv.issued) s.data (saveTTL_pos hw s) hv.nodup hv.abs0
    simp only
    rw [hv.id, hv.data, hv.abs hnd]
    exact this
  · refine ⟨hv.id, hv.data, hv.nodup, hv.fresh, hv.abs, hv.abs0, ?_, hv.issued⟩
    simp only [saveTTL]
    have hi := hw.idle
    by_cases h : s.idleT ≤ 0
    · simp [h]; omega
    · have h2 : s.idleT > 0 := by omega
      simp [h, h2]

theorem destroy_sim {cfg : Cfg} {gen : Nat → Bytes} (hw : WF cfg gen) {c : RCtx} {r : SReq} {s : Sess} {v : View}
    (hst : StRel cfg gen c.st r.s) (hv : ViewRel cfg gen c.st.nid s v) :
    StRel cfg gen (sessDestroy cfg c s).1.st { r.s with sessions := erase r.s.sessions v.id } ∧
    ViewRel cfg gen c.st.nid (sessDestroy cfg c s).2 { v with data := [], destroyed := true } := by
  rw [sessDestroy_st, sessDestroy_snd, hv.id]
  refine ⟨strel_del hst (issued_ne_nil hw hv.issued), ?_⟩
  exact ⟨rfl, rfl, trivial, hv.fresh, by intro h; simp at h, fun _ => rfl, hv.idle, hv.issued⟩

theorem regenerate_sim {cfg : Cfg} {gen : Nat → Bytes} (hw : WF cfg gen) {c : RCtx} {r : SReq} {s : Sess} {v : View}
    (hst : StRel cfg gen c.st r.s) (hv : ViewRel cfg gen c.st.nid s v) :
    StRel cfg gen (sessRegenerate gen c s).1.st
      { r.s with sessions := erase r.s.sessions v.id, issued := (List.range (c.st.nid + 1)).map gen } ∧
    ViewRel cfg gen (c.st.nid + 1) (sessRegenerate gen c s).2 { v with id := gen c.st.nid, fresh := true } := by
  rw [sessRegenerate_st, sessRegenerate_snd, hv.id]
  constructor
  · have h1 := strel_del hst (issued_ne_nil hw hv.issued)
    have h2 := strel_newid h1
    simpa using h2
  · exact ⟨rfl, hv.data, hv.nodup, rfl, hv.abs, hv.abs0, hv.idle, ⟨c.st.nid, by omega, rfl⟩⟩

theorem reset_sim {cfg : Cfg} {gen : Nat → Bytes} (hw : WF cfg gen) {c : RCtx} {r : SReq} {s : Sess} {v : View}
    (hst : StRel cfg gen c.st r.s) (hv : ViewRel cfg gen c.st.nid s v) :
    StRel cfg gen (sessReset cfg gen c s).1.st
      { r.s with sessions := erase r.s.sessions v.id, issued := (List.range (c.st.nid + 1)).map gen } ∧
    ViewRel cfg gen (c.st.nid + 1) (sessReset cfg gen c s).2
      { id := gen c.st.nid, data := [], fresh := true,
        abs := if cfg.abs > 0 then some (r.s.now + cfg.abs) else none } := by
  rw [sessReset_st, sessReset_snd, hv.id]
  constructor
  · have h1 := strel_del hst (issued_ne_nil hw hv.issued)
    have h2 := strel_newid h1
    simpa using h2
  · refine ⟨rfl, rfl, trivial, rfl, ?_, ?_, by simp, ⟨c.st.nid, by omega, rfl⟩⟩
    · intro _; simp [hst.now]
    · intro h0; simp [h0]

/-! ### loading a session -/

/-- the tail of `getSession`: the absolute deadline of a fresh session, `Reset` of an expired one -/
def finishLoad (cfg : Cfg) (gen : Nat → Bytes) (c : RCtx) (s : Sess) : RCtx × Sess :=
  if s.fresh && cfg.abs > 0 then (c, { s with data := { s.data with abs := some (c.st.now + cfg.abs) } })
  else if absExpired c.st.now s.data then
    ((sessReset cfg gen c s).1,
     { (sessReset cfg gen c s).2 with
       data := { (sessReset cfg gen c s).2.data with abs := some ((sessReset cfg gen c s).1.st.now + cfg.abs) } })
  else (c, s)

/-- the request context after `KeyGenerator()` and `c.Locals(sessionIDContextKey, id)` -/
def afterNew (gen : Nat → Bytes) (c : RCtx) : RCtx := { (newID gen c).1 with locals := some (newID gen c).2 }

theorem afterNew_st (gen : Nat → Bytes) (c : RCtx) : (afterNew gen c).st = { c.st with nid := c.st.nid + 1 } := by
  simp [afterNew, newID]

theorem afterNew_out (gen : Nat → Bytes) (c : RCtx) :
    (afterNew gen c).outCk = c.outCk ∧ (afterNew gen c).outHd = c.outHd := by
  simp [afterNew, newID]

theorem getSession_none {cfg : Cfg} {gen : Nat → Bytes} {c : RCtx} (h : c.st.get (lookupId cfg c) = none) :
    getSession cfg gen c =
      finishLoad cfg gen (acquire (afterNew gen c)).1
        { id := gen c.st.nid, data := (acquire (afterNew gen c)).2, fresh := true } := by
  unfold getSession finishLoad
  simp only [h]
  rfl

theorem getSession_some {cfg : Cfg} {gen : Nat → Bytes} {c : RCtx} {blob : SData}
    (h : c.st.get (lookupId cfg c) = some blob) :
    getSession cfg gen c =
      finishLoad cfg gen (acquire c).1
        { id := lookupId cfg c, data := (acquire c).2.merge blob, fresh := c.locals.isSome } := by
  unfold getSession finishLoad
  simp only [h]
  rfl

theorem strel_congr {cfg : Cfg} {gen : Nat → Bytes} {st st' : St} {s : SpecSt} (h : StRel cfg gen st s)
    (hnow : st'.now = st.now) (hnid : st'.nid = st.nid) (hstore : st'.store = st.store)
    (hpool : ∀ d ∈ st'.pool, d = SData.empty) : StRel cfg gen st' s := by
  refine ⟨by rw [hnow]; exact h.now, by rw [hnid]; exact h.issued, ⟨?_, hpool⟩, by rw [hstore]; exact h.nodupStore,
    h.nodupSess, ?_, ?_⟩
  · intro e he; rw [hstore] at he; rw [hnid]; exact h.inv.1 e he
  · intro id e he hl; rw [hstore] at he; rw [hnow] at hl; exact h.fwd id e he hl
  · intro id se hs hl
    rw [hnow] at hl
    obtain ⟨e, he, hr⟩ := h.bwd id se hs hl
    exact ⟨e, by rw [hstore]; exact he, hr⟩

/-- the abstract table may forget a session whose idle deadline has passed -/
theorem strel_erase_dead {cfg : Cfg} {gen : Nat → Bytes} {st : St} {s : SpecSt} (h : StRel cfg gen st s)
    {p : Bytes} (hdead : ∀ se, lookup s.sessions p = some se → ¬ st.now < se.idleDeadline) :
    StRel cfg gen st { s with sessions := erase s.sessions p } := by
  refine ⟨h.now, h.issued, h.inv, h.nodupStore, nodup_erase h.nodupSess p, ?_, ?_⟩
  · intro id e he hl
    obtain ⟨se, hs, hr⟩ := h.fwd id e he hl
    by_cases hk : id = p
    · subst hk
      have := hdead se hs
      rw [hr.live] at hl
      simp only [decide_eq_true_eq] at hl
      exact absurd hl this
    · exact ⟨se, by simp only; rw [lookup_erase_ne _ _ _ hk]; exact hs, hr⟩
  · intro id se hs hl
    by_cases hk : id = p
    · subst hk; simp [lookup_erase_self] at hs
    · simp only at hs
      rw [lookup_erase_ne _ _ _ hk] at hs
      exact h.bwd id se hs hl

theorem get_some_lookup {st : St} {id : Bytes} {blob : SData} (h : st.get id = some blob) :
    id ≠ [] ∧ ∃ e, lookup st.store id = some e ∧ e.live st.now = true ∧ e.blob = blob := by
  unfold St.get at h
  split at h
  · simp at h
  · rename_i hid
    refine ⟨hid, ?_⟩
    split at h
    · rename_i e he
      split at h
      · rename_i hl
        exact ⟨e, he, hl, by simpa using h⟩
      · simp at h
    · simp at h

theorem get_none_dead {st : St} {id : Bytes} (h : st.get id = none) (hid : id ≠ []) {e : Entry}
    (he : lookup st.store id = some e) : e.live st.now = false := by
  unfold St.get at h
  simp only [hid, if_false, he] at h
  cases hl : e.live st.now with
  | false => rfl
  | true => simp [hl] at h

theorem acquire_fields (c : RCtx) :
    (acquire c).1.ck = c.ck ∧ (acquire c).1.hd = c.hd ∧ (acquire c).1.qr = c.qr ∧
    (acquire c).1.locals = c.locals ∧ (acquire c).1.outCk = c.outCk ∧ (acquire c).1.outHd = c.outHd := by
  unfold acquire
  split <;> simp

theorem strel_acquire {cfg : Cfg} {gen : Nat → Bytes} {c : RCtx} {s : SpecSt} (h : StRel cfg gen c.st s) :
    StRel cfg gen (acquire c).1.st s ∧ (acquire c).2 = SData.empty := by
  obtain ⟨h1, h2, h3, h4, _⟩ := acquire_spec c
  exact ⟨strel_congr h h3 h1 h2 (fun d hd => h.inv.2 d (h4 d hd)), (acquire_inv h.inv).2⟩

theorem out_acquire {gen : Nat → Bytes} {c : RCtx} (h : OutOK gen c) : OutOK gen (acquire c).1 := by
  obtain ⟨_, _, _, _, h5, h6⟩ := acquire_fields c
  obtain ⟨h1, _⟩ := acquire_spec c
  exact ⟨by intro v hv; rw [h5] at hv; rw [h1]; exact h.ck v hv, by intro v hv; rw [h6] at hv; rw [h1]; exact h.hd v hv⟩

/-- what a simulation step hands on: related storage and table, the generator outputs still expected,
    the Session object against its view, the reply, and an abstract request state that changed only in
    its table and its expected outputs -/
structure Sim (cfg : Cfg) (gen : Nat → Bytes) (G : List Bytes) (c' : RCtx) (s' : Sess) (r r' : SReq) (v : View) :
    Prop where
  st : StRel cfg gen c'.st r'.s
  gens : r'.gens = G
  view : ViewRel cfg gen c'.st.nid s' v
  out : OutOK gen c'
  frame : r' = { r with s := r'.s, gens := r'.gens }

theorem Sim.fields {cfg : Cfg} {gen : Nat → Bytes} {G : List Bytes} {c' : RCtx} {s' : Sess} {r r' : SReq} {v : View}
    (h : Sim cfg gen G c' s' r r' v) :
    r'.mw = r.mw ∧ r'.mwDestroyed = r.mwDestroyed ∧ r'.cur = r.cur ∧ r'.loaded = r.loaded := by
  have hf := h.frame
  obtain ⟨rs', rg', rmw', rmd', rcur', rl'⟩ := r'
  simp only [SReq.mk.injEq] at hf
  exact ⟨hf.2.2.1, hf.2.2.2.1, hf.2.2.2.2.1, hf.2.2.2.2.2⟩

theorem lookupId_of_locals_none {cfg : Cfg} {c : RCtx} (h : c.locals = none) : lookupId cfg c = getSessionID cfg c := by
  simp [lookupId, h]

theorem absExpired_iff (now : Nat) (d : SData) :
    absExpired now d = !(match d.abs with | some a => decide (now ≤ a) | none => true) := by
  unfold absExpired
  cases d.abs with
  | none => rfl
  | some a => by_cases h : a < now <;> simp [h] <;> omega

/-- `getSession` (first load of a request) against the abstract `loadView` -/
theorem load_sim {cfg : Cfg} {gen : Nat → Bytes} (hw : WF cfg gen) {c : RCtx} {r : SReq} {G : List Bytes}
    (hst : StRel cfg gen c.st r.s) (hloc : c.locals = none) (hout : OutOK gen c)
    (hle : r.gens = gensBetween gen c.st.nid (getSession cfg gen c).1.st.nid ++ G) :
    ∃ r' v, loadView cfg r (getSessionID cfg c) = .ok (r', v) ∧
      Sim cfg gen G (getSession cfg gen c).1 (getSession cfg gen c).2 r r' v ∧
      (getSession cfg gen c).2.hasCtx = true ∧ c.st.nid ≤ (getSession cfg gen c).1.st.nid ∧
      v.destroyed = false := by
  have hlid := lookupId_of_locals_none (cfg := cfg) hloc
  cases hget : c.st.get (lookupId cfg c) with
  | none =>
    rw [getSession_none hget] at hle ⊢
    rw [hlid] at hget
    -- the context after the generator call and the pool access
    have hst1 : StRel cfg gen { c.st with nid := c.st.nid + 1 } { r.s with issued := (List.range (c.st.nid + 1)).map gen } :=
      strel_newid hst
    have hacq := strel_acquire (c := afterNew gen c) (cfg := cfg) (gen := gen)
      (s := { r.s with issued := (List.range (c.st.nid + 1)).map gen }) (by rw [afterNew_st]; exact hst1)
    have hsp := acquire_spec (afterNew gen c)
    have hfl := acquire_fields (afterNew gen c)
    have hnid1 : (acquire (afterNew gen c)).1.st.nid = c.st.nid + 1 := by
      rw [hsp.1, afterNew_st]
    have hnow1 : (acquire (afterNew gen c)).1.st.now = c.st.now := by
      rw [hsp.2.2.1, afterNew_st]
    rw [hacq.2] at hle ⊢
    have hout1 : OutOK gen (acquire (afterNew gen c)).1 := by
      refine ⟨?_, ?_⟩
      · intro v hv
        rw [hfl.2.2.2.2.1, (afterNew_out gen c).1] at hv
        rw [hnid1]
        exact (hout.ck v hv).mono (Nat.le_succ _)
      · intro v hv
        rw [hfl.2.2.2.2.2, (afterNew_out gen c).2] at hv
        rw [hnid1]
        exact (hout.hd v hv).mono (Nat.le_succ _)
    -- the model's result
    have hres : finishLoad cfg gen (acquire (afterNew gen c)).1
          { id := gen c.st.nid, data := SData.empty, fresh := true } =
        ((acquire (afterNew gen c)).1,
         { id := gen c.st.nid, fresh := true,
           data := { kv := [], abs := if cfg.abs > 0 then some (c.st.now + cfg.abs) else none } }) := by
      unfold finishLoad
      by_cases ha : cfg.abs > 0
      · simp [ha, hnow1, SData.empty]
      · simp [ha, absExpired, SData.empty]
    rw [hres] at hle ⊢
    simp only at hle ⊢
    have hg : r.gens = gen c.st.nid :: G := by
      rw [hnid1, gensBetween_succ] at hle; exact hle
    -- the abstract side
    have hview : ∀ now : Nat, now = c.st.now → ViewRel cfg gen (c.st.nid + 1)
        { id := gen c.st.nid, fresh := true,
          data := { kv := [], abs := if cfg.abs > 0 then some (c.st.now + cfg.abs) else none } }
        { id := gen c.st.nid, data := [], fresh := true,
          abs := if cfg.abs > 0 then some (now + cfg.abs) else none } := by
      intro now hnow
      refine ⟨rfl, rfl, trivial, rfl, ?_, ?_, by simp, ⟨c.st.nid, by omega, rfl⟩⟩
      · intro _; simp [hnow]
      · intro h0; simp [h0]
    cases hl : (if getSessionID cfg c = [] then none else lookup r.s.sessions (getSessionID cfg c)) with
    | none =>
      have hlv : loadView cfg r (getSessionID cfg c) = freshView cfg r := by
        unfold loadView; rw [hl]
      refine ⟨_, _, hlv.trans (freshView_ok hw hst.issued hg), ?_, by first | rfl | trivial, by rw [hnid1]; omega, rfl⟩
      · exact ⟨hacq.1, rfl, by rw [hnid1]; exact hview _ hst.now, hout1, rfl⟩
    | some se =>
      have hp : getSessionID cfg c ≠ [] := by
        intro h; simp [h] at hl
      simp only [hp, if_false] at hl
      have hdead : ¬ c.st.now < se.idleDeadline := by
        intro hlive
        obtain ⟨e, he, hr⟩ := hst.bwd _ se hl hlive
        have := get_none_dead hget hp he
        rw [hr.live] at this
        simp at this
        omega
      have hnl : se.live r.s.now = false := by
        simp only [SEntry.live, hst.now]
        have : decide (c.st.now < se.idleDeadline) = false := by simpa using hdead
        rw [this]; rfl
      have hst2 : StRel cfg gen c.st { r.s with sessions := erase r.s.sessions (getSessionID cfg c) } :=
        strel_erase_dead hst (by intro se' hs'; rw [hl] at hs'; cases hs'; exact hdead)
      have hst3 := strel_newid hst2
      have hacq2 := strel_acquire (c := afterNew gen c) (cfg := cfg) (gen := gen)
        (s := { r.s with sessions := erase r.s.sessions (getSessionID cfg c),
                         issued := (List.range (c.st.nid + 1)).map gen }) (by rw [afterNew_st]; exact hst3)
      have hlv : loadView cfg r (getSessionID cfg c) =
          freshView cfg { r with s := { r.s with sessions := erase r.s.sessions (getSessionID cfg c) } } := by
        unfold loadView
        simp only [hp, if_false, hl, hnl]
        rfl
      refine ⟨_, _, hlv.trans (freshView_ok (r := { r with s := { r.s with sessions := erase r.s.sessions (getSessionID cfg c) } })
          hw hst.issued hg), ?_, by first | rfl | trivial, by rw [hnid1]; omega, rfl⟩
      · exact ⟨hacq2.1, rfl, by rw [hnid1]; exact hview _ hst.now, hout1, rfl⟩
  | some blob =>
    rw [getSession_some hget] at hle ⊢
    rw [hlid] at hget hle ⊢
    obtain ⟨hp, e, he, hlive, hblob⟩ := get_some_lookup hget
    obtain ⟨se, hs, hr⟩ := hst.fwd _ e he hlive
    have hacq := strel_acquire (cfg := cfg) (gen := gen) (c := c) hst
    have hsp := acquire_spec c
    have hout1 := out_acquire hout
    rw [hacq.2, hloc] at hle ⊢
    simp only [Option.isSome_none] at hle ⊢
    have hnd : NoDupKeys blob.kv := by rw [← hblob]; exact hr.nodup
    rw [merge_empty_of_nodup hnd] at hle ⊢
    have hiss : Issued gen (acquire c).1.st.nid (getSessionID cfg c) := by
      rw [hsp.1]; exact hst.inv.1 _ (lookup_some_mem he)
    have hv0 : ViewRel cfg gen (acquire c).1.st.nid { id := getSessionID cfg c, data := blob, fresh := false }
        { id := getSessionID cfg c, data := se.data, fresh := false, abs := se.absDeadline } := by
      refine ⟨rfl, by rw [hr.data, hblob], hnd, rfl, by intro _; rw [hr.abs, hblob], ?_, by simp, hiss⟩
      intro h0; rw [← hblob]; exact hr.abs0 h0
    have hidle : decide (c.st.now < se.idleDeadline) = true := by
      rw [← hr.live]; exact hlive
    have hlive_eq : se.live r.s.now = !(absExpired c.st.now blob) := by
      rw [absExpired_iff]
      simp only [SEntry.live, hidle, Bool.true_and, hr.abs, hblob, hst.now, Bool.not_not]
      cases blob.abs <;> rfl
    cases hexp : absExpired c.st.now blob with
    | false =>
      have hres : finishLoad cfg gen (acquire c).1 { id := getSessionID cfg c, data := blob, fresh := false } =
          ((acquire c).1, { id := getSessionID cfg c, data := blob, fresh := false }) := by
        unfold finishLoad
        simp [hsp.2.2.1, hexp]
      rw [hres] at hle ⊢
      have hlv : loadView cfg r (getSessionID cfg c) =
          .ok (r, { id := getSessionID cfg c, data := se.data, fresh := false, abs := se.absDeadline }) := by
        unfold loadView
        simp only [hp, if_false, hs]
        rw [hlive_eq, hexp]
        rfl
      have hg : r.gens = G := by
        rw [hsp.1, gensBetween_self] at hle; exact hle
      exact ⟨r, _, hlv, ⟨hacq.1, hg, hv0, hout1, rfl⟩, by first | rfl | trivial,
        by rw [hsp.1]; exact Nat.le_refl _, rfl⟩
    | true =>
      have habs : cfg.abs > 0 := by
        cases h0 : cfg.abs with
        | zero =>
          have := hr.abs0 h0
          rw [hblob] at this
          simp [absExpired, this] at hexp
        | succ n => omega
      have hres : finishLoad cfg gen (acquire c).1 { id := getSessionID cfg c, data := blob, fresh := false } =
          ((sessReset cfg gen (acquire c).1 { id := getSessionID cfg c, data := blob, fresh := false }).1,
           (sessReset cfg gen (acquire c).1 { id := getSessionID cfg c, data := blob, fresh := false }).2) := by
        unfold finishLoad
        simp only [Bool.false_and, Bool.false_eq_true, if_false, hsp.2.2.1, hexp, if_true]
        rw [sessReset_snd, sessReset_st]
        simp [habs, hsp.2.2.1]
      rw [hres] at hle ⊢
      simp only at hle ⊢
      have hrs := reset_sim hw (r := r) hacq.1 hv0
      rw [sessReset_st] at hle
      simp only at hle
      have hg : r.gens = gen c.st.nid :: G := by
        rw [hsp.1, gensBetween_succ] at hle; exact hle
      have hlv : loadView cfg r (getSessionID cfg c) =
          freshView cfg { r with s := { r.s with sessions := erase r.s.sessions (getSessionID cfg c) } } := by
        unfold loadView
        simp only [hp, if_false, hs]
        rw [hlive_eq, hexp]
        rfl
      refine ⟨_, _, hlv.trans (freshView_ok (r := { r with s := { r.s with sessions := erase r.s.sessions (getSessionID cfg c) } })
          hw hst.issued hg), ?_, ?_, ?_, rfl⟩
      · refine ⟨?_, ?_, ?_, sessReset_out hout1 _, rfl⟩
        · have := hrs.1; rw [hsp.1] at this; exact this
        · rfl
        · have := hrs.2
          rw [sessReset_st]; simp only
          rw [hsp.1] at this ⊢
          exact this
      · rw [sessReset_snd]
      · rw [sessReset_st]; simp only; rw [hsp.1]; omega

/-! ### handler states -/

def CurRel (cfg : Cfg) (gen : Nat → Bytes) (nid : Nat) : Cur → SCur → Prop
  | .none, .none => True
  | .mw, .mw => True
  | .other s, .other v => ViewRel cfg gen nid s v
  | _, _ => False

def OptViewRel (cfg : Cfg) (gen : Nat → Bytes) (nid : Nat) : Option Sess → Option View → Prop
  | none, none => True
  | some s, some v => ViewRel cfg gen nid s v
  | _, _ => False

/-- the request as the client sent it is still in place: nothing but context-less sessions so far -/
structure Untouched (q : Req) (h : HSt) : Prop where
  ck : h.c.ck = q.ck
  hd : h.c.hd = q.hd
  qr : h.c.qr = q.qr
  locals : h.c.locals = none
  cur : ∀ s, h.cur = .other s → s.hasCtx = false

/-- the simulation relation between a handler state of the model and the abstract request state;
    `G` = the generator outputs the request will still see -/
structure Rel (cfg : Cfg) (gen : Nat → Bytes) (G : List Bytes) (q : Req) (h : HSt) (r : SReq) : Prop where
  st : StRel cfg gen h.c.st r.s
  gens : r.gens = G
  out : OutOK gen h.c
  mw : OptViewRel cfg gen h.c.st.nid h.mw r.mw
  cur : CurRel cfg gen h.c.st.nid h.cur r.cur
  destroyed : r.mwDestroyed = h.destroyed
  viaMw : q.viaMw = h.mw.isSome
  mwCtx : ∀ s, h.mw = some s → s.hasCtx = true
  mwLive : h.destroyed = false → ∀ v, r.mw = some v → v.destroyed = false
  pre : q.viaMw = false → r.loaded = false → Untouched q h

theorem OptViewRel.mono {cfg : Cfg} {gen : Nat → Bytes} {n m : Nat} {a : Option Sess} {b : Option View}
    (h : OptViewRel cfg gen n a b) (hnm : n ≤ m) : OptViewRel cfg gen m a b := by
  cases a <;> cases b <;> simp_all [OptViewRel]
  exact h.mono hnm

theorem CurRel.mono {cfg : Cfg} {gen : Nat → Bytes} {n m : Nat} {a : Cur} {b : SCur}
    (h : CurRel cfg gen n a b) (hnm : n ≤ m) : CurRel cfg gen m a b := by
  cases a <;> cases b <;> simp_all [CurRel]
  exact h.mono hnm

theorem Rel.sess_none {cfg : Cfg} {gen : Nat → Bytes} {G : List Bytes} {q : Req} {h : HSt} {r : SReq}
    (hrel : Rel cfg gen G q h r) (hs : h.sess = none) : r.view = none := by
  have hm := hrel.mw
  have hc := hrel.cur
  obtain ⟨c, mw, d, cur⟩ := h
  obtain ⟨rs, rg, rmw, rmd, rcur, rl⟩ := r
  simp only [HSt.sess] at hs
  simp only [SReq.view]
  simp only at hm hc
  cases cur <;> cases rcur <;> simp only [CurRel] at hc <;> try (first | rfl | contradiction)
  · simp only at hs ⊢
    subst hs
    cases rmw <;> simp only [OptViewRel] at hm <;> try (first | rfl | contradiction)

theorem Rel.sess_some {cfg : Cfg} {gen : Nat → Bytes} {G : List Bytes} {q : Req} {h : HSt} {r : SReq}
    (hrel : Rel cfg gen G q h r) {s : Sess} (hs : h.sess = some s) :
    ∃ v, r.view = some v ∧ ViewRel cfg gen h.c.st.nid s v := by
  have hm := hrel.mw
  have hc := hrel.cur
  obtain ⟨c, mw, d, cur⟩ := h
  obtain ⟨rs, rg, rmw, rmd, rcur, rl⟩ := r
  simp only [HSt.sess] at hs
  simp only [SReq.view]
  simp only at hm hc
  cases cur <;> cases rcur <;> simp only [CurRel] at hc <;> try (first | contradiction | (simp at hs; done))
  · simp only at hs ⊢
    subst hs
    cases rmw <;> simp only [OptViewRel] at hm <;> try contradiction
    exact ⟨_, rfl, hm⟩
  · simp only [Option.some.injEq] at hs
    subst hs
    exact ⟨_, rfl, hc⟩

end C15
