import FiberModel.C15.Invariants
/-
C15 — refinement: the store + pool + middleware model simulates the abstract session table of Spec.lean.
`StRel` relates a storage state to an abstract table, `ViewRel` a Session object to an abstract view;
every primitive of the model is matched with its abstract counterpart.
-/
namespace C15
open B

/-- the configurations and key generators the theorems are about: `configDefault` guarantees a positive
    idle timeout; the generator never repeats an id and never returns the empty string -/
structure WF (cfg : Cfg) (gen : Nat → Bytes) : Prop where
  idle : 0 < cfg.idle
  inj : ∀ i j, gen i = gen j → i = j
  nonempty : ∀ i, gen i ≠ []

structure EntryRel (cfg : Cfg) (e : Entry) (se : SEntry) : Prop where
  deadline : e.deadline = some se.idleDeadline
  data : se.data = e.blob.kv
  abs : se.absDeadline = e.blob.abs
  nodup : NoDupKeys e.blob.kv
  abs0 : cfg.abs = 0 → e.blob.abs = none

structure StRel (cfg : Cfg) (gen : Nat → Bytes) (st : St) (s : SpecSt) : Prop where
  now : s.now = st.now
  issued : s.issued = (List.range st.nid).map gen
  inv : Inv gen st
  nodupStore : NoDupKeys st.store
  nodupSess : NoDupKeys s.sessions
  fwd : ∀ id e, lookup st.store id = some e → e.live st.now = true →
    ∃ se, lookup s.sessions id = some se ∧ EntryRel cfg e se
  bwd : ∀ id se, lookup s.sessions id = some se → st.now < se.idleDeadline →
    ∃ e, lookup st.store id = some e ∧ EntryRel cfg e se

theorem EntryRel.live {cfg : Cfg} {e : Entry} {se : SEntry} (h : EntryRel cfg e se) (now : Nat) :
    e.live now = decide (now < se.idleDeadline) := by
  simp [Entry.live, h.deadline]

theorem strel_init (cfg : Cfg) (gen : Nat → Bytes) : StRel cfg gen {} specInit := by
  refine ⟨rfl, rfl, inv_init gen, trivial, trivial, ?_, ?_⟩
  · intro id e h; simp [lookup] at h
  · intro id se h; simp [specInit, lookup] at h

/-- time passes -/
theorem strel_adv {cfg : Cfg} {gen : Nat → Bytes} {st : St} {s : SpecSt} (h : StRel cfg gen st s) (d : Nat) :
    StRel cfg gen { st with now := st.now + d } { s with now := s.now + d } := by
  refine ⟨by simp [h.now], h.issued, h.inv, h.nodupStore, h.nodupSess, ?_, ?_⟩
  · intro id e he hl
    have hl' : e.live st.now = true := by
      simp only [Entry.live] at hl ⊢
      split at hl
      · rfl
      · simp only [decide_eq_true_eq] at hl ⊢; omega
    exact h.fwd id e he hl'
  · intro id se hs hl
    exact h.bwd id se hs (by simp only at hl; omega)

/-- `Storage.Delete` / abstract erase -/
theorem strel_del {cfg : Cfg} {gen : Nat → Bytes} {st : St} {s : SpecSt} (h : StRel cfg gen st s)
    {id : Bytes} (hid : id ≠ []) :
    StRel cfg gen (st.del id) { s with sessions := erase s.sessions id } := by
  have hd : st.del id = { st with store := erase st.store id } := by simp [St.del, hid]
  rw [hd]
  refine ⟨h.now, h.issued, ?_, nodup_erase h.nodupStore id, nodup_erase h.nodupSess id, ?_, ?_⟩
  · have := del_inv h.inv id; rw [hd] at this; exact this
  · intro id' e he hl
    by_cases hk : id' = id
    · subst hk; simp [lookup_erase_self] at he
    · simp only at he
      rw [lookup_erase_ne _ _ _ hk] at he
      obtain ⟨se, hs, hr⟩ := h.fwd id' e he hl
      exact ⟨se, by simp only; rw [lookup_erase_ne _ _ _ hk]; exact hs, hr⟩
  · intro id' se hs hl
    by_cases hk : id' = id
    · subst hk; simp [lookup_erase_self] at hs
    · simp only at hs
      rw [lookup_erase_ne _ _ _ hk] at hs
      obtain ⟨e, he, hr⟩ := h.bwd id' se hs hl
      exact ⟨e, by simp only; rw [lookup_erase_ne _ _ _ hk]; exact he, hr⟩

/-- `Storage.Reset` -/
theorem strel_reset {cfg : Cfg} {gen : Nat → Bytes} {st : St} {s : SpecSt} (h : StRel cfg gen st s) :
    StRel cfg gen { st with store := [] } { s with sessions := [] } := by
  refine ⟨h.now, h.issued, ⟨?_, h.inv.2⟩, trivial, trivial, ?_, ?_⟩
  · intro e he; simp at he
  · intro id e he; simp [lookup] at he
  · intro id se hs; simp [lookup] at hs

/-- `Storage.Set` with a positive TTL / abstract save -/
theorem strel_set {cfg : Cfg} {gen : Nat → Bytes} {st : St} {s : SpecSt} (h : StRel cfg gen st s)
    {id : Bytes} (hid : Issued gen st.nid id) (hne : id ≠ []) (d : SData) {ttl : Nat} (httl : 0 < ttl)
    (hnd : NoDupKeys d.kv) (habs0 : cfg.abs = 0 → d.abs = none) :
    StRel cfg gen (st.set id d ttl)
      { s with sessions := put s.sessions id { data := d.kv, idleDeadline := s.now + ttl, absDeadline := d.abs } } := by
  have hne0 : ttl ≠ 0 := by omega
  have hd : st.set id d ttl = { st with store := put st.store id { blob := d, deadline := some (st.now + ttl) } } := by
    simp [St.set, hne, hne0]
  have her : EntryRel cfg { blob := d, deadline := some (st.now + ttl) }
      { data := d.kv, idleDeadline := s.now + ttl, absDeadline := d.abs } :=
    ⟨by simp [h.now], rfl, rfl, hnd, habs0⟩
  refine ⟨?_, ?_, ?_, ?_, nodup_put h.nodupSess _ _, ?_, ?_⟩
  · rw [hd]; exact h.now
  · rw [hd]; exact h.issued
  · exact set_inv h.inv hid d ttl
  · rw [hd]; exact nodup_put h.nodupStore _ _
  · rw [hd]
    intro id' e he hl
    by_cases hk : id' = id
    · subst hk
      simp only [lookup_put_self, Option.some.injEq] at he
      subst he
      exact ⟨_, lookup_put_self _ _ _, her⟩
    · simp only at he
      rw [lookup_put_ne _ _ _ _ hk] at he
      obtain ⟨se, hs, hr⟩ := h.fwd id' e he hl
      exact ⟨se, by simp only; rw [lookup_put_ne _ _ _ _ hk]; exact hs, hr⟩
  · rw [hd]
    intro id' se hs hl
    by_cases hk : id' = id
    · subst hk
      simp only [lookup_put_self, Option.some.injEq] at hs
      subst hs
      exact ⟨_, lookup_put_self _ _ _, her⟩
    · simp only at hs
      rw [lookup_put_ne _ _ _ _ hk] at hs
      obtain ⟨e, he, hr⟩ := h.bwd id' se hs hl
      exact ⟨e, by simp only; rw [lookup_put_ne _ _ _ _ hk]; exact he, hr⟩

/-! ### issued ids -/

theorem issued_ne_nil {cfg : Cfg} {gen : Nat → Bytes} (hw : WF cfg gen) {n : Nat} {id : Bytes}
    (h : Issued gen n id) : id ≠ [] := by
  obtain ⟨i, _, e⟩ := h
  rw [e]; exact hw.nonempty i

theorem issued_contains {gen : Nat → Bytes} {n : Nat} {id : Bytes} (h : Issued gen n id) :
    ((List.range n).map gen).contains id = true := by
  obtain ⟨i, hi, e⟩ := h
  simp only [List.contains_iff_mem, List.mem_map, List.mem_range]
  exact ⟨i, hi, e.symm⟩

theorem new_not_issued {cfg : Cfg} {gen : Nat → Bytes} (hw : WF cfg gen) (n : Nat) :
    ((List.range n).map gen).contains (gen n) = false := by
  cases hc : ((List.range n).map gen).contains (gen n) with
  | false => rfl
  | true =>
    simp only [List.contains_iff_mem, List.mem_map, List.mem_range] at hc
    obtain ⟨i, hi, e⟩ := hc
    have := hw.inj i n e
    omega

theorem new_ne_issued {cfg : Cfg} {gen : Nat → Bytes} (hw : WF cfg gen) {n : Nat} {id : Bytes}
    (h : Issued gen n id) : id ≠ gen n := by
  obtain ⟨i, hi, e⟩ := h
  intro h2
  have := hw.inj i n (by rw [← e, h2])
  omega

theorem gensBetween_lt {gen : Nat → Bytes} {n m : Nat} (h : n < m) :
    gensBetween gen n m = gen n :: gensBetween gen (n + 1) m := by
  unfold gensBetween
  have : m - n = (m - (n + 1)) + 1 := by omega
  rw [this, List.range'_succ]
  rfl

theorem gensBetween_self (gen : Nat → Bytes) (n : Nat) : gensBetween gen n n = [] := by
  simp [gensBetween]

theorem gensBetween_succ (gen : Nat → Bytes) (n : Nat) : gensBetween gen n (n + 1) = [gen n] := by
  simp [gensBetween]

theorem gensBetween_append (gen : Nat → Bytes) {a b c : Nat} (hab : a ≤ b) (hbc : b ≤ c) :
    gensBetween gen a c = gensBetween gen a b ++ gensBetween gen b c := by
  unfold gensBetween
  rw [← List.map_append]
  congr 1
  have h1 : c - a = (b - a) + (c - b) := by omega
  have h2 : a + (b - a) = b := by omega
  have l := List.range'_append_1 (s := a) (m := b - a) (n := c - b)
  rw [h2] at l
  rw [h1]
  exact l.symm

/-- the abstract counterpart of `KeyGenerator()`: the next observed generator output is new -/
theorem freshView_ok {cfg : Cfg} {gen : Nat → Bytes} (hw : WF cfg gen) {r : SReq} {n : Nat} {G : List Bytes}
    (hiss : r.s.issued = (List.range n).map gen) (hg : r.gens = gen n :: G) :
    freshView cfg r = .ok
      ({ r with gens := G, s := { r.s with issued := (List.range (n + 1)).map gen } },
       { id := gen n, data := [], fresh := true,
         abs := if cfg.abs > 0 then some (r.s.now + cfg.abs) else none }) := by
  unfold freshView
  rw [hg]
  simp only [hw.nonempty n, if_false, hiss, new_not_issued hw n, Bool.false_eq_true]
  simp [List.range_succ]

/-- `KeyGenerator()` is called once -/
theorem strel_newid {cfg : Cfg} {gen : Nat → Bytes} {st : St} {s : SpecSt} (h : StRel cfg gen st s) :
    StRel cfg gen { st with nid := st.nid + 1 } { s with issued := (List.range (st.nid + 1)).map gen } := by
  refine ⟨h.now, rfl, ⟨?_, h.inv.2⟩, h.nodupStore, h.nodupSess, h.fwd, h.bwd⟩
  intro e he
  exact (h.inv.1 e he).mono (Nat.le_succ _)

/-! ### Session objects and abstract views -/

structure ViewRel (cfg : Cfg) (gen : Nat → Bytes) (nid : Nat) (s : Sess) (v : View) : Prop where
  id : v.id = s.id
  data : v.data = s.data.kv
  nodup : NoDupKeys s.data.kv
  fresh : v.fresh = s.fresh
  abs : v.destroyed = false → v.abs = s.data.abs
  abs0 : cfg.abs = 0 → s.data.abs = none
  idle : v.idle = if s.idleT > 0 then some s.idleT.toNat else none
  issued : Issued gen nid s.id
  ctx : v.ctx = s.hasCtx

theorem ViewRel.mono {cfg : Cfg} {gen : Nat → Bytes} {n m : Nat} {s : Sess} {v : View}
    (h : ViewRel cfg gen n s v) (hnm : n ≤ m) : ViewRel cfg gen m s v :=
  ⟨h.id, h.data, h.nodup, h.fresh, h.abs, h.abs0, h.idle, h.issued.mono hnm, h.ctx⟩

/-- the reply only ever carries issued ids -/
structure OutOK (gen : Nat → Bytes) (c : RCtx) : Prop where
  ck : ∀ v, c.outCk = some (some v) → Issued gen c.st.nid v
  hd : ∀ v, c.outHd = some v → Issued gen c.st.nid v

/-- request fields a session without a context (`GetByID`) cannot touch -/
def SameReq (c c' : RCtx) : Prop := c'.ck = c.ck ∧ c'.hd = c.hd ∧ c'.qr = c.qr ∧ c'.locals = c.locals

theorem SameReq.rfl' (c : RCtx) : SameReq c c := ⟨rfl, rfl, rfl, rfl⟩

/-! ### projections of the session operations -/

theorem delSession_out {gen : Nat → Bytes} {cfg : Cfg} {c : RCtx} (h : OutOK gen c) (s : Sess) :
    OutOK gen (delSession cfg c s) := by
  unfold delSession
  split
  · exact h
  · split
    · exact ⟨h.ck, by intro v hv; simp at hv⟩
    · exact ⟨by intro v hv; simp at hv, h.hd⟩

theorem delSession_same (cfg : Cfg) (c : RCtx) {s : Sess} (hs : s.hasCtx = false) : delSession cfg c s = c := by
  simp [delSession, hs]

theorem setSession_out {gen : Nat → Bytes} {cfg : Cfg} {c : RCtx} (h : OutOK gen c) {s : Sess}
    (hs : Issued gen c.st.nid s.id) : OutOK gen (setSession cfg c s) := by
  unfold setSession
  split
  · exact h
  · split
    · exact ⟨h.ck, by intro v hv; simp only [Option.some.injEq] at hv; subst hv; exact hs⟩
    · exact ⟨by intro v hv; simp only [Option.some.injEq] at hv; subst hv; exact hs, h.hd⟩

theorem setSession_same (cfg : Cfg) (c : RCtx) {s : Sess} (hs : s.hasCtx = false) : setSession cfg c s = c := by
  simp [setSession, hs]

/-- the TTL `saveSession` hands to the storage -/
def saveTTL (cfg : Cfg) (s : Sess) : Nat := if s.idleT ≤ 0 then cfg.idle else s.idleT.toNat

theorem saveTTL_pos {cfg : Cfg} {gen : Nat → Bytes} (hw : WF cfg gen) (s : Sess) : 0 < saveTTL cfg s := by
  unfold saveTTL
  split
  · exact hw.idle
  · omega

theorem sessSave_snd (cfg : Cfg) (c : RCtx) (s : Sess) :
    (sessSave cfg c s).2 = { s with idleT := if s.idleT ≤ 0 then (cfg.idle : Int) else s.idleT } := by
  unfold sessSave
  split <;> simp_all

theorem sessSave_st (cfg : Cfg) (c : RCtx) (s : Sess) :
    (sessSave cfg c s).1.st = c.st.set s.id s.data (saveTTL cfg s) := by
  unfold sessSave saveTTL
  split <;> simp_all

theorem sessSave_out {gen : Nat → Bytes} {cfg : Cfg} {c : RCtx} (h : OutOK gen c) {s : Sess}
    (hs : Issued gen c.st.nid s.id) : OutOK gen (sessSave cfg c s).1 := by
  have h1 : ∀ s' : Sess, s'.id = s.id → OutOK gen ({ setSession cfg c s' with st := (setSession cfg c s').st.set s'.id s'.data s'.idleT.toNat } : RCtx) := by
    intro s' hid
    have := setSession_out (cfg := cfg) h (s := s') (by rw [hid]; exact hs)
    exact ⟨by intro v hv; simpa using this.ck v hv, by intro v hv; simpa using this.hd v hv⟩
  unfold sessSave
  split
  · exact h1 _ rfl
  · exact h1 _ rfl

theorem sessSave_same (cfg : Cfg) (c : RCtx) {s : Sess} (hs : s.hasCtx = false) : SameReq c (sessSave cfg c s).1 := by
  unfold sessSave
  split <;> simp [SameReq, setSession, hs]

/-- after `saveSession` behind the middleware the reply carries the session id -/
theorem sessSave_carries (cfg : Cfg) (c : RCtx) {s : Sess} (hs : s.hasCtx = true) :
    if cfg.source = .header then (sessSave cfg c s).1.outHd = some s.id
    else (sessSave cfg c s).1.outCk = some (some s.id) := by
  unfold sessSave
  split <;> split <;> simp_all [setSession]

theorem sessDestroy_st (cfg : Cfg) (c : RCtx) (s : Sess) : (sessDestroy cfg c s).1.st = c.st.del s.id := by
  simp [sessDestroy]

theorem sessDestroy_snd (cfg : Cfg) (c : RCtx) (s : Sess) :
    (sessDestroy cfg c s).2 = { s with data := SData.empty } := rfl

theorem sessDestroy_out {gen : Nat → Bytes} {cfg : Cfg} {c : RCtx} (h : OutOK gen c) (s : Sess) :
    OutOK gen (sessDestroy cfg c s).1 := by
  unfold sessDestroy
  apply delSession_out
  exact ⟨by intro v hv; simpa using h.ck v hv, by intro v hv; simpa using h.hd v hv⟩

theorem sessDestroy_same (cfg : Cfg) (c : RCtx) {s : Sess} (hs : s.hasCtx = false) :
    SameReq c (sessDestroy cfg c s).1 := by
  simp [sessDestroy, delSession, hs, SameReq]

theorem sessRegenerate_st (gen : Nat → Bytes) (c : RCtx) (s : Sess) :
    (sessRegenerate gen c s).1.st = { c.st.del s.id with nid := c.st.nid + 1 } := by
  simp [sessRegenerate, newID]

theorem sessRegenerate_snd (gen : Nat → Bytes) (c : RCtx) (s : Sess) :
    (sessRegenerate gen c s).2 = { s with id := gen c.st.nid, fresh := true } := by
  simp [sessRegenerate, newID]

theorem sessRegenerate_out {gen : Nat → Bytes} {c : RCtx} (h : OutOK gen c) (s : Sess) :
    OutOK gen (sessRegenerate gen c s).1 := by
  refine ⟨?_, ?_⟩
  · intro v hv
    have : (sessRegenerate gen c s).1.outCk = c.outCk := by simp [sessRegenerate, newID]
    rw [this] at hv
    rw [sessRegenerate_st]
    exact (h.ck v hv).mono (by simp)
  · intro v hv
    have : (sessRegenerate gen c s).1.outHd = c.outHd := by simp [sessRegenerate, newID]
    rw [this] at hv
    rw [sessRegenerate_st]
    exact (h.hd v hv).mono (by simp)

theorem sessRegenerate_same (gen : Nat → Bytes) (c : RCtx) (s : Sess) : SameReq c (sessRegenerate gen c s).1 := by
  simp [sessRegenerate, newID, SameReq]

theorem sessReset_st (cfg : Cfg) (gen : Nat → Bytes) (c : RCtx) (s : Sess) :
    (sessReset cfg gen c s).1.st = { c.st.del s.id with nid := c.st.nid + 1 } := by
  simp [sessReset, newID]

theorem sessReset_snd (cfg : Cfg) (gen : Nat → Bytes) (c : RCtx) (s : Sess) :
    (sessReset cfg gen c s).2 =
      { s with id := gen c.st.nid, fresh := true, idleT := 0,
               data := { kv := [], abs := if cfg.abs > 0 then some (c.st.now + cfg.abs) else none } } := by
  simp [sessReset, newID]

theorem sessReset_out {gen : Nat → Bytes} {cfg : Cfg} {c : RCtx} (h : OutOK gen c) (s : Sess) :
    OutOK gen (sessReset cfg gen c s).1 := by
  have h0 : OutOK gen (delSession cfg { c with st := c.st.del s.id } s) := by
    apply delSession_out
    exact ⟨by intro v hv; simpa using h.ck v hv, by intro v hv; simpa using h.hd v hv⟩
  refine ⟨?_, ?_⟩
  · intro v hv
    have e : (sessReset cfg gen c s).1.outCk = (delSession cfg { c with st := c.st.del s.id } s).outCk := by
      simp [sessReset, newID]
    rw [e] at hv
    rw [sessReset_st]
    have := h0.ck v hv
    simp only [delSession_st, del_nid] at this
    exact this.mono (by simp)
  · intro v hv
    have e : (sessReset cfg gen c s).1.outHd = (delSession cfg { c with st := c.st.del s.id } s).outHd := by
      simp [sessReset, newID]
    rw [e] at hv
    rw [sessReset_st]
    have := h0.hd v hv
    simp only [delSession_st, del_nid] at this
    exact this.mono (by simp)

theorem sessReset_same (cfg : Cfg) (gen : Nat → Bytes) (c : RCtx) {s : Sess} (hs : s.hasCtx = false) :
    SameReq c (sessReset cfg gen c s).1 := by
  simp [sessReset, newID, delSession, hs, SameReq]

/-! ### the session operations against their abstract counterparts -/

/-- the TTL the abstract save uses -/
def specTTL (cfg : Cfg) (v : View) : Nat := match v.idle with | some d => d | none => cfg.idle

theorem saveView_eq (cfg : Cfg) (r : SReq) (v : View) :
    saveView cfg r v =
      ({ r with s := { r.s with sessions := put r.s.sessions v.id (SEntry.mk v.data (r.s.now + specTTL cfg v) v.abs) } },
       { v with idle := some (specTTL cfg v) }) := rfl

theorem ttl_eq {cfg : Cfg} {gen : Nat → Bytes} {n : Nat} {s : Sess} {v : View} (hv : ViewRel cfg gen n s v) :
    specTTL cfg v = saveTTL cfg s := by
  unfold specTTL saveTTL
  rw [hv.idle]
  by_cases h : s.idleT > 0
  · have : ¬ s.idleT ≤ 0 := by omega
    simp [h, this]
  · have : s.idleT ≤ 0 := by omega
    simp [h, this]

theorem save_sim {cfg : Cfg} {gen : Nat → Bytes} (hw : WF cfg gen) {c : RCtx} {r : SReq} {s : Sess} {v : View}
    (hst : StRel cfg gen c.st r.s) (hv : ViewRel cfg gen c.st.nid s v) (hnd : v.destroyed = false) :
    StRel cfg gen (sessSave cfg c s).1.st (saveView cfg r v).1.s ∧
    ViewRel cfg gen c.st.nid (sessSave cfg c s).2 (saveView cfg r v).2 := by
  rw [sessSave_st, sessSave_snd, saveView_eq, ttl_eq hv]
  constructor
  · have := strel_set hst hv.issued (issued_ne_nil hw hv.issued) s.data (saveTTL_pos hw s) hv.nodup hv.abs0
    simp only
    rw [hv.id, hv.data, hv.abs hnd]
    exact this
  · refine ⟨hv.id, hv.data, hv.nodup, hv.fresh, hv.abs, hv.abs0, ?_, hv.issued, hv.ctx⟩
    simp only [saveTTL]
    have hi := hw.idle
    by_cases h : s.idleT ≤ 0
    · simp [h]; omega
    · have h2 : s.idleT > 0 := by omega
      simp [h, h2]

theorem destroy_sim {cfg : Cfg} {gen : Nat → Bytes} (hw : WF cfg gen) {c : RCtx} {r : SReq} {s : Sess} {v : View}
    (hst : StRel cfg gen c.st r.s) (hv : ViewRel cfg gen c.st.nid s v) :
    StRel cfg gen (sessDestroy cfg c s).1.st { r.s with sessions := erase r.s.sessions v.id } ∧
    ViewRel cfg gen c.st.nid (sessDestroy cfg c s).2 { v with data := [], destroyed := true } := by
  rw [sessDestroy_st, sessDestroy_snd, hv.id]
  refine ⟨strel_del hst (issued_ne_nil hw hv.issued), ?_⟩
  exact ⟨rfl, rfl, trivial, hv.fresh, by intro h; simp at h, fun _ => rfl, hv.idle, hv.issued, hv.ctx⟩

theorem regenerate_sim {cfg : Cfg} {gen : Nat → Bytes} (hw : WF cfg gen) {c : RCtx} {r : SReq} {s : Sess} {v : View}
    (hst : StRel cfg gen c.st r.s) (hv : ViewRel cfg gen c.st.nid s v) :
    StRel cfg gen (sessRegenerate gen c s).1.st
      { r.s with sessions := erase r.s.sessions v.id, issued := (List.range (c.st.nid + 1)).map gen } ∧
    ViewRel cfg gen (c.st.nid + 1) (sessRegenerate gen c s).2 { v with id := gen c.st.nid, fresh := true } := by
  rw [sessRegenerate_st, sessRegenerate_snd, hv.id]
  constructor
  · have h1 := strel_del hst (issued_ne_nil hw hv.issued)
    have h2 := strel_newid h1
    simpa using h2
  · exact ⟨rfl, hv.data, hv.nodup, rfl, hv.abs, hv.abs0, hv.idle, ⟨c.st.nid, by omega, rfl⟩, hv.ctx⟩

theorem reset_sim {cfg : Cfg} {gen : Nat → Bytes} (hw : WF cfg gen) {c : RCtx} {r : SReq} {s : Sess} {v : View}
    (hst : StRel cfg gen c.st r.s) (hv : ViewRel cfg gen c.st.nid s v) :
    StRel cfg gen (sessReset cfg gen c s).1.st
      { r.s with sessions := erase r.s.sessions v.id, issued := (List.range (c.st.nid + 1)).map gen } ∧
    ViewRel cfg gen (c.st.nid + 1) (sessReset cfg gen c s).2
      { id := gen c.st.nid, data := [], fresh := true,
        abs := if cfg.abs > 0 then some (r.s.now + cfg.abs) else none, ctx := v.ctx } := by
  rw [sessReset_st, sessReset_snd, hv.id]
  constructor
  · have h1 := strel_del hst (issued_ne_nil hw hv.issued)
    have h2 := strel_newid h1
    simpa using h2
  · refine ⟨rfl, rfl, trivial, rfl, ?_, ?_, by simp, ⟨c.st.nid, by omega, rfl⟩, hv.ctx⟩
    · intro _; simp [hst.now]
    · intro h0; simp [h0]

/-! ### what the request presents -/

/-- the request context of the model against the abstract request state: cookie / header / query as the
    request (still) presents them, and the id a lookup of this request generated (`Locals`) -/
def CtxRel (c : RCtx) (r : SReq) : Prop :=
  c.ck = r.pres.ck ∧ c.hd = r.pres.hd ∧ c.qr = r.pres.qr ∧ c.locals = r.genId

theorem CtxRel.of_eq {c c' : RCtx} {r r' : SReq} (h : CtxRel c r) (h1 : c'.ck = c.ck) (h2 : c'.hd = c.hd)
    (h3 : c'.qr = c.qr) (h4 : c'.locals = c.locals) (hp : r'.pres = r.pres) (hg : r'.genId = r.genId) :
    CtxRel c' r' := by
  obtain ⟨a1, a2, a3, a4⟩ := h
  exact ⟨by rw [h1, hp]; exact a1, by rw [h2, hp]; exact a2, by rw [h3, hp]; exact a3, by rw [h4, hg]; exact a4⟩

theorem presented_eq (cfg : Cfg) (c : RCtx) (p : Pres) (h1 : c.ck = p.ck) (h2 : c.hd = p.hd) (h3 : c.qr = p.qr) :
    getSessionID cfg c = presentedId cfg p := by
  unfold getSessionID presentedId
  rw [h1, h2, h3]
  by_cases hck : p.ck = []
  · simp only [hck, ne_eq, not_true_eq_false, if_false]
    cases cfg.source <;> simp
  · simp [hck]

theorem CtxRel.lookupId {cfg : Cfg} {c : RCtx} {r : SReq} (h : CtxRel c r) : lookupId cfg c = r.lookupId cfg := by
  unfold C15.lookupId SReq.lookupId
  rw [h.2.2.2]
  cases r.genId with
  | some g => rfl
  | none => exact presented_eq cfg c r.pres h.1 h.2.1 h.2.2.1

theorem delSession_ctx {cfg : Cfg} {c : RCtx} {r r' : SReq} {s : Sess} (h : CtxRel c r)
    (hp : r'.pres = if s.hasCtx then withdraw cfg r.pres else r.pres) (hg : r'.genId = r.genId) :
    CtxRel (delSession cfg c s) r' := by
  obtain ⟨a1, a2, a3, a4⟩ := h
  unfold delSession
  cases hc : s.hasCtx with
  | false =>
    simp only [hc, Bool.false_eq_true, if_false] at hp ⊢
    simp only [Bool.not_false, if_true]
    exact ⟨by rw [hp]; exact a1, by rw [hp]; exact a2, by rw [hp]; exact a3, by rw [hg]; exact a4⟩
  | true =>
    simp only [hc, if_true] at hp
    simp only [Bool.not_true, Bool.false_eq_true, if_false]
    unfold withdraw at hp
    by_cases hsrc : cfg.source = .header
    · simp only [hsrc, if_true] at hp ⊢
      exact ⟨by rw [hp]; exact a1, by rw [hp], by rw [hp]; exact a3, by rw [hg]; exact a4⟩
    · simp only [hsrc, if_false] at hp ⊢
      exact ⟨by rw [hp], by rw [hp]; exact a2, by rw [hp]; exact a3, by rw [hg]; exact a4⟩

theorem sessDestroy_ctx {cfg : Cfg} {c : RCtx} {r r' : SReq} {s : Sess} (h : CtxRel c r)
    (hp : r'.pres = if s.hasCtx then withdraw cfg r.pres else r.pres) (hg : r'.genId = r.genId) :
    CtxRel (sessDestroy cfg c s).1 r' := by
  unfold sessDestroy
  exact delSession_ctx (c := { c with st := c.st.del s.id }) (r := r) h hp hg

theorem sessReset_ctx {cfg : Cfg} {gen : Nat → Bytes} {c : RCtx} {r r' : SReq} {s : Sess} (h : CtxRel c r)
    (hp : r'.pres = if s.hasCtx then withdraw cfg r.pres else r.pres) (hg : r'.genId = r.genId) :
    CtxRel (sessReset cfg gen c s).1 r' := by
  have h0 := delSession_ctx (cfg := cfg) (c := { c with st := c.st.del s.id }) (r := r) (r' := r') (s := s) h hp hg
  unfold sessReset
  exact ⟨by simpa [newID] using h0.1, by simpa [newID] using h0.2.1, by simpa [newID] using h0.2.2.1,
    by simpa [newID] using h0.2.2.2⟩

theorem sessRegenerate_ctx {gen : Nat → Bytes} {c : RCtx} {r r' : SReq} (s : Sess) (h : CtxRel c r)
    (hp : r'.pres = r.pres) (hg : r'.genId = r.genId) : CtxRel (sessRegenerate gen c s).1 r' := by
  obtain ⟨b1, b2, b3, b4⟩ := sessRegenerate_same gen c s
  exact h.of_eq b1 b2 b3 b4 hp hg

theorem sessSave_ctx {cfg : Cfg} {c : RCtx} {r r' : SReq} {s : Sess} (h : CtxRel c r)
    (hp : r'.pres = if s.hasCtx then represent cfg r.pres s.id else r.pres) (hg : r'.genId = r.genId) :
    CtxRel (sessSave cfg c s).1 r' := by
  obtain ⟨a1, a2, a3, a4⟩ := h
  have key : ∀ s' : Sess, s'.id = s.id → s'.hasCtx = s.hasCtx →
      CtxRel ({ setSession cfg c s' with st := (setSession cfg c s').st.set s'.id s'.data s'.idleT.toNat } : RCtx) r' := by
    intro s' hid hcx
    unfold setSession
    cases hc : s.hasCtx with
    | false =>
      simp only [hcx, hc, Bool.not_false, if_true]
      simp only [hc, Bool.false_eq_true, if_false] at hp
      exact ⟨by rw [hp]; exact a1, by rw [hp]; exact a2, by rw [hp]; exact a3, by rw [hg]; exact a4⟩
    | true =>
      simp only [hcx, hc, Bool.not_true, Bool.false_eq_true, if_false]
      simp only [hc, if_true] at hp
      unfold represent at hp
      by_cases hsrc : cfg.source = .header
      · simp only [hsrc, if_true] at hp ⊢
        exact ⟨by rw [hp]; exact a1, by rw [hp, hid], by rw [hp]; exact a3, by rw [hg]; exact a4⟩
      · simp only [hsrc, if_false] at hp ⊢
        exact ⟨by rw [hp]; exact a1, by rw [hp]; exact a2, by rw [hp]; exact a3, by rw [hg]; exact a4⟩
  unfold sessSave
  split
  · exact key _ rfl rfl
  · exact key _ rfl rfl

/-! ### loading a session -/

/-- the tail of `getSession`: the absolute deadline of a fresh session, `Reset` of an expired one -/
def finishLoad (cfg : Cfg) (gen : Nat → Bytes) (c : RCtx) (s : Sess) : RCtx × Sess :=
  if s.fresh && cfg.abs > 0 then (c, { s with data := { s.data with abs := some (c.st.now + cfg.abs) } })
  else if absExpired c.st.now s.data then
    ((sessReset cfg gen c s).1,
     { (sessReset cfg gen c s).2 with
       data := { (sessReset cfg gen c s).2.data with abs := some ((sessReset cfg gen c s).1.st.now + cfg.abs) } })
  else (c, s)

/-- the request context after `KeyGenerator()` and `c.Locals(sessionIDContextKey, id)` -/
def afterNew (gen : Nat → Bytes) (c : RCtx) : RCtx := { (newID gen c).1 with locals := some (newID gen c).2 }

theorem afterNew_st (gen : Nat → Bytes) (c : RCtx) : (afterNew gen c).st = { c.st with nid := c.st.nid + 1 } := by
  simp [afterNew, newID]

theorem afterNew_out (gen : Nat → Bytes) (c : RCtx) :
    (afterNew gen c).outCk = c.outCk ∧ (afterNew gen c).outHd = c.outHd := by
  simp [afterNew, newID]

theorem getSession_none {cfg : Cfg} {gen : Nat → Bytes} {c : RCtx} (h : c.st.get (lookupId cfg c) = none) :
    getSession cfg gen c =
      finishLoad cfg gen (acquire (afterNew gen c)).1
        { id := gen c.st.nid, data := (acquire (afterNew gen c)).2, fresh := true } := by
  unfold getSession finishLoad
  simp only [h]
  rfl

theorem getSession_some {cfg : Cfg} {gen : Nat → Bytes} {c : RCtx} {blob : SData}
    (h : c.st.get (lookupId cfg c) = some blob) :
    getSession cfg gen c =
      finishLoad cfg gen (acquire c).1
        { id := lookupId cfg c, data := (acquire c).2.merge blob, fresh := c.locals.isSome } := by
  unfold getSession finishLoad
  simp only [h]
  rfl

theorem strel_congr {cfg : Cfg} {gen : Nat → Bytes} {st st' : St} {s : SpecSt} (h : StRel cfg gen st s)
    (hnow : st'.now = st.now) (hnid : st'.nid = st.nid) (hstore : st'.store = st.store)
    (hpool : ∀ d ∈ st'.pool, d = SData.empty) : StRel cfg gen st' s := by
  refine ⟨by rw [hnow]; exact h.now, by rw [hnid]; exact h.issued, ⟨?_, hpool⟩, by rw [hstore]; exact h.nodupStore,
    h.nodupSess, ?_, ?_⟩
  · intro e he; rw [hstore] at he; rw [hnid]; exact h.inv.1 e he
  · intro id e he hl; rw [hstore] at he; rw [hnow] at hl; exact h.fwd id e he hl
  · intro id se hs hl
    rw [hnow] at hl
    obtain ⟨e, he, hr⟩ := h.bwd id se hs hl
    exact ⟨e, by rw [hstore]; exact he, hr⟩

/-- the abstract table may forget a session whose idle deadline has passed -/
theorem strel_erase_dead {cfg : Cfg} {gen : Nat → Bytes} {st : St} {s : SpecSt} (h : StRel cfg gen st s)
    {p : Bytes} (hdead : ∀ se, lookup s.sessions p = some se → ¬ st.now < se.idleDeadline) :
    StRel cfg gen st { s with sessions := erase s.sessions p } := by
  refine ⟨h.now, h.issued, h.inv, h.nodupStore, nodup_erase h.nodupSess p, ?_, ?_⟩
  · intro id e he hl
    obtain ⟨se, hs, hr⟩ := h.fwd id e he hl
    by_cases hk : id = p
    · subst hk
      have := hdead se hs
      rw [hr.live] at hl
      simp only [decide_eq_true_eq] at hl
      exact absurd hl this
    · exact ⟨se, by simp only; rw [lookup_erase_ne _ _ _ hk]; exact hs, hr⟩
  · intro id se hs hl
    by_cases hk : id = p
    · subst hk; simp [lookup_erase_self] at hs
    · simp only at hs
      rw [lookup_erase_ne _ _ _ hk] at hs
      exact h.bwd id se hs hl

theorem get_some_lookup {st : St} {id : Bytes} {blob : SData} (h : st.get id = some blob) :
    id ≠ [] ∧ ∃ e, lookup st.store id = some e ∧ e.live st.now = true ∧ e.blob = blob := by
  unfold St.get at h
  split at h
  · simp at h
  · rename_i hid
    refine ⟨hid, ?_⟩
    split at h
    · rename_i e he
      split at h
      · rename_i hl
        exact ⟨e, he, hl, by simpa using h⟩
      · simp at h
    · simp at h

theorem get_none_dead {st : St} {id : Bytes} (h : st.get id = none) (hid : id ≠ []) {e : Entry}
    (he : lookup st.store id = some e) : e.live st.now = false := by
  unfold St.get at h
  simp only [hid, if_false, he] at h
  cases hl : e.live st.now with
  | false => rfl
  | true => simp [hl] at h

theorem acquire_fields (c : RCtx) :
    (acquire c).1.ck = c.ck ∧ (acquire c).1.hd = c.hd ∧ (acquire c).1.qr = c.qr ∧
    (acquire c).1.locals = c.locals ∧ (acquire c).1.outCk = c.outCk ∧ (acquire c).1.outHd = c.outHd := by
  unfold acquire
  split <;> simp

theorem strel_acquire {cfg : Cfg} {gen : Nat → Bytes} {c : RCtx} {s : SpecSt} (h : StRel cfg gen c.st s) :
    StRel cfg gen (acquire c).1.st s ∧ (acquire c).2 = SData.empty := by
  obtain ⟨h1, h2, h3, h4, _⟩ := acquire_spec c
  exact ⟨strel_congr h h3 h1 h2 (fun d hd => h.inv.2 d (h4 d hd)), (acquire_inv h.inv).2⟩

theorem out_acquire {gen : Nat → Bytes} {c : RCtx} (h : OutOK gen c) : OutOK gen (acquire c).1 := by
  obtain ⟨_, _, _, _, h5, h6⟩ := acquire_fields c
  obtain ⟨h1, _⟩ := acquire_spec c
  exact ⟨by intro v hv; rw [h5] at hv; rw [h1]; exact h.ck v hv, by intro v hv; rw [h6] at hv; rw [h1]; exact h.hd v hv⟩

/-- what a simulation step hands on: related storage and table, the generator outputs still expected,
    the Session object against its view, the reply, what the request presents, and an abstract request
    state whose handler variables are untouched -/
structure Sim (cfg : Cfg) (gen : Nat → Bytes) (G : List Bytes) (c' : RCtx) (s' : Sess) (r r' : SReq) (v : View) :
    Prop where
  st : StRel cfg gen c'.st r'.s
  gens : r'.gens = G
  view : ViewRel cfg gen c'.st.nid s' v
  out : OutOK gen c'
  req : CtxRel c' r'
  frame : r' = { r with s := r'.s, gens := r'.gens, pres := r'.pres, genId := r'.genId }

theorem Sim.fields {cfg : Cfg} {gen : Nat → Bytes} {G : List Bytes} {c' : RCtx} {s' : Sess} {r r' : SReq} {v : View}
    (h : Sim cfg gen G c' s' r r' v) :
    r'.mw = r.mw ∧ r'.mwDestroyed = r.mwDestroyed ∧ r'.cur = r.cur := by
  have hf := h.frame
  obtain ⟨rs', rg', rp', rgi', rmw', rmd', rcur'⟩ := r'
  simp only [SReq.mk.injEq] at hf
  exact ⟨hf.2.2.2.2.1, hf.2.2.2.2.2.1, hf.2.2.2.2.2.2⟩

theorem lookupId_of_locals_none {cfg : Cfg} {c : RCtx} (h : c.locals = none) : lookupId cfg c = getSessionID cfg c := by
  simp [lookupId, h]

theorem absExpired_iff (now : Nat) (d : SData) :
    absExpired now d = !(match d.abs with | some a => decide (now ≤ a) | none => true) := by
  unfold absExpired
  cases d.abs with
  | none => rfl
  | some a => by_cases h : a < now <;> simp [h] <;> omega

/-- the abstract request state after a lookup that made the server generate an id -/
def genR (gen : Nat → Bytes) (G : List Bytes) (n : Nat) (r : SReq) (sessions : List (Bytes × SEntry)) : SReq :=
  { r with gens := G, s := { r.s with sessions := sessions, issued := (List.range (n + 1)).map gen },
           genId := some (gen n) }

/-- … and after the lookup of a live id past its absolute deadline (the implicit `Reset`) -/
def resetR (cfg : Cfg) (gen : Nat → Bytes) (G : List Bytes) (n : Nat) (r : SReq) (p : Bytes) : SReq :=
  { r with gens := G, s := { r.s with sessions := erase r.s.sessions p, issued := (List.range (n + 1)).map gen },
           pres := withdraw cfg r.pres }

def preResetR (cfg : Cfg) (r : SReq) (p : Bytes) : SReq :=
  { r with s := { r.s with sessions := erase r.s.sessions p }, pres := withdraw cfg r.pres }

/-- `getSession` — the first or a later lookup of a request — against the abstract `loadView` -/
theorem load_sim {cfg : Cfg} {gen : Nat → Bytes} (hw : WF cfg gen) {c : RCtx} {r : SReq} {G : List Bytes}
    (hst : StRel cfg gen c.st r.s) (hctx : CtxRel c r) (hout : OutOK gen c)
    (hle : r.gens = gensBetween gen c.st.nid (getSession cfg gen c).1.st.nid ++ G) :
    ∃ r' v, loadView cfg r = .ok (r', v) ∧
      Sim cfg gen G (getSession cfg gen c).1 (getSession cfg gen c).2 r r' v ∧
      c.st.nid ≤ (getSession cfg gen c).1.st.nid ∧ v.destroyed = false ∧ v.ctx = true := by
  have hlid := hctx.lookupId (cfg := cfg)
  have hmine : r.genId.isSome = c.locals.isSome := by rw [hctx.2.2.2]
  cases hget : c.st.get (lookupId cfg c) with
  | none =>
    rw [getSession_none hget] at hle ⊢
    rw [hlid] at hget
    -- the context after the generator call and the pool access
    have hsp := acquire_spec (afterNew gen c)
    have hfl := acquire_fields (afterNew gen c)
    have hnid1 : (acquire (afterNew gen c)).1.st.nid = c.st.nid + 1 := by
      rw [hsp.1, afterNew_st]
    have hnow1 : (acquire (afterNew gen c)).1.st.now = c.st.now := by
      rw [hsp.2.2.1, afterNew_st]
    have hpe : (acquire (afterNew gen c)).2 = SData.empty := by
      rcases hsp.2.2.2.2 with h1 | h1
      · exact h1
      · rw [afterNew_st] at h1; exact hst.inv.2 _ h1
    rw [hpe] at hle ⊢
    have hout1 : OutOK gen (acquire (afterNew gen c)).1 := by
      refine ⟨?_, ?_⟩
      · intro v hv
        rw [hfl.2.2.2.2.1, (afterNew_out gen c).1] at hv
        rw [hnid1]
        exact (hout.ck v hv).mono (Nat.le_succ _)
      · intro v hv
        rw [hfl.2.2.2.2.2, (afterNew_out gen c).2] at hv
        rw [hnid1]
        exact (hout.hd v hv).mono (Nat.le_succ _)
    have hres : finishLoad cfg gen (acquire (afterNew gen c)).1
          { id := gen c.st.nid, data := SData.empty, fresh := true } =
        ((acquire (afterNew gen c)).1,
         { id := gen c.st.nid, fresh := true,
           data := { kv := [], abs := if cfg.abs > 0 then some (c.st.now + cfg.abs) else none } }) := by
      unfold finishLoad
      by_cases ha : cfg.abs > 0
      · simp [ha, hnow1, SData.empty]
      · simp [ha, absExpired, SData.empty]
    rw [hres] at hle ⊢
    simp only at hle ⊢
    have hg : r.gens = gen c.st.nid :: G := by
      rw [hnid1, gensBetween_succ] at hle; exact hle
    have hview : ViewRel cfg gen (c.st.nid + 1)
        { id := gen c.st.nid, fresh := true,
          data := { kv := [], abs := if cfg.abs > 0 then some (c.st.now + cfg.abs) else none } }
        { id := gen c.st.nid, data := [], fresh := true,
          abs := if cfg.abs > 0 then some (r.s.now + cfg.abs) else none } := by
      refine ⟨rfl, rfl, trivial, rfl, ?_, ?_, by simp, ⟨c.st.nid, by omega, rfl⟩, rfl⟩
      · intro _; simp [hst.now]
      · intro h0; simp [h0]
    have hcx : ∀ ss, CtxRel (acquire (afterNew gen c)).1 (genR gen G c.st.nid r ss) := by
      intro ss
      obtain ⟨a1, a2, a3, _⟩ := hctx
      refine ⟨?_, ?_, ?_, ?_⟩
      · rw [hfl.1]; simpa [afterNew, newID, genR] using a1
      · rw [hfl.2.1]; simpa [afterNew, newID, genR] using a2
      · rw [hfl.2.2.1]; simpa [afterNew, newID, genR] using a3
      · rw [hfl.2.2.2.1]; simp [afterNew, newID, genR]
    have hstA : ∀ ss, StRel cfg gen c.st { r.s with sessions := ss } →
        StRel cfg gen (acquire (afterNew gen c)).1.st (genR gen G c.st.nid r ss).s := by
      intro ss h2
      have h3 := strel_newid h2
      exact (strel_acquire (c := afterNew gen c) (cfg := cfg) (gen := gen)
        (s := { r.s with sessions := ss, issued := (List.range (c.st.nid + 1)).map gen })
        (by rw [afterNew_st]; exact h3)).1
    cases hl : (if r.lookupId cfg = [] then none else lookup r.s.sessions (r.lookupId cfg)) with
    | none =>
      have hfv := freshView_ok hw hst.issued hg (r := r)
      have hlv : loadView cfg r = .ok (genR gen G c.st.nid r r.s.sessions,
          { id := gen c.st.nid, data := [], fresh := true,
            abs := if cfg.abs > 0 then some (r.s.now + cfg.abs) else none }) := by
        unfold loadView
        simp only [hl, hfv, bind, Except.bind, pure, Except.pure]
        rfl
      refine ⟨_, _, hlv, ?_, by rw [hnid1]; omega, rfl, rfl⟩
      exact ⟨hstA _ hst, rfl, by rw [hnid1]; exact hview, hout1, hcx _, rfl⟩
    | some se =>
      have hp : r.lookupId cfg ≠ [] := by
        intro h; simp [h] at hl
      simp only [hp, if_false] at hl
      have hdead : ¬ c.st.now < se.idleDeadline := by
        intro hlive
        obtain ⟨e, he, hr⟩ := hst.bwd _ se hl hlive
        have := get_none_dead hget hp he
        rw [hr.live] at this
        simp at this
        omega
      have hidle : decide (r.s.now < se.idleDeadline) = false := by
        rw [hst.now]; simpa using hdead
      have hst2 : StRel cfg gen c.st { r.s with sessions := erase r.s.sessions (r.lookupId cfg) } :=
        strel_erase_dead hst (by intro se' hs'; rw [hl] at hs'; cases hs'; exact hdead)
      have hfv := freshView_ok hw (r := { r with s := { r.s with sessions := erase r.s.sessions (r.lookupId cfg) } })
        hst.issued hg
      have hlv : loadView cfg r = .ok (genR gen G c.st.nid r (erase r.s.sessions (r.lookupId cfg)),
          { id := gen c.st.nid, data := [], fresh := true,
            abs := if cfg.abs > 0 then some (r.s.now + cfg.abs) else none }) := by
        unfold loadView
        simp only [hp, if_false, hl, hidle, Bool.false_and, Bool.false_eq_true, hfv, bind, Except.bind, pure,
          Except.pure]
        rfl
      refine ⟨_, _, hlv, ?_, by rw [hnid1]; omega, rfl, rfl⟩
      exact ⟨hstA _ hst2, rfl, by rw [hnid1]; exact hview, hout1, hcx _, rfl⟩
  | some blob =>
    rw [getSession_some hget] at hle ⊢
    rw [hlid] at hget hle ⊢
    obtain ⟨hp, e, he, hlive, hblob⟩ := get_some_lookup hget
    obtain ⟨se, hs, hr⟩ := hst.fwd _ e he hlive
    have hacq := strel_acquire (cfg := cfg) (gen := gen) (c := c) hst
    have hsp := acquire_spec c
    have hfl := acquire_fields c
    have hout1 := out_acquire hout
    rw [hacq.2] at hle ⊢
    have hnd : NoDupKeys blob.kv := by rw [← hblob]; exact hr.nodup
    rw [merge_empty_of_nodup hnd] at hle ⊢
    have hiss : Issued gen (acquire c).1.st.nid (r.lookupId cfg) := by
      rw [hsp.1]; exact hst.inv.1 _ (lookup_some_mem he)
    have hidle : decide (r.s.now < se.idleDeadline) = true := by
      rw [hst.now, ← hr.live]; exact hlive
    have habsOK : se.absOK r.s.now = !(absExpired c.st.now blob) := by
      unfold SEntry.absOK
      rw [absExpired_iff, hr.abs, hblob, hst.now, Bool.not_not]
      try (cases blob.abs <;> rfl)
    have hcx1 : CtxRel (acquire c).1 r := hctx.of_eq hfl.1 hfl.2.1 hfl.2.2.1 hfl.2.2.2.1 rfl rfl
    cases hloc : c.locals with
    | some i =>
      -- the id was generated by an earlier lookup of this request
      have hm : r.genId.isSome = true := by rw [hmine, hloc]; rfl
      simp only [hloc, Option.isSome_some] at hle ⊢
      by_cases ha : cfg.abs > 0
      · have hres : finishLoad cfg gen (acquire c).1 { id := r.lookupId cfg, data := blob, fresh := true } =
            ((acquire c).1, Sess.mk (r.lookupId cfg) { blob with abs := some (c.st.now + cfg.abs) } true 0 true) := by
          unfold finishLoad
          simp [ha, hsp.2.2.1]
        rw [hres] at hle ⊢
        have hlv : loadView cfg r = .ok (r, View.mk (r.lookupId cfg) se.data true (some (r.s.now + cfg.abs)) none false true) := by
          unfold loadView
          simp only [hp, if_false, hs, hidle, hm, ha, decide_true, Bool.and_self, Bool.true_or, if_true]
        have hg : r.gens = G := by
          rw [hsp.1, gensBetween_self] at hle; exact hle
        refine ⟨r, _, hlv, ⟨hacq.1, hg, ?_, hout1, hcx1, rfl⟩, by rw [hsp.1]; exact Nat.le_refl _, rfl, rfl⟩
        refine ⟨rfl, by rw [hr.data, hblob], hnd, rfl, by intro _; simp [hst.now], ?_, by simp, hiss, rfl⟩
        intro h0; omega
      · have ha0 : cfg.abs = 0 := by omega
        have hbn : blob.abs = none := by rw [← hblob]; exact hr.abs0 ha0
        have hres : finishLoad cfg gen (acquire c).1 { id := r.lookupId cfg, data := blob, fresh := true } =
            ((acquire c).1, { id := r.lookupId cfg, data := blob, fresh := true }) := by
          unfold finishLoad
          simp [ha, absExpired, hbn]
        rw [hres] at hle ⊢
        have hlv : loadView cfg r = .ok (r, View.mk (r.lookupId cfg) se.data true se.absDeadline none false true) := by
          unfold loadView
          have hn : se.absDeadline = none := by rw [hr.abs, hblob]; exact hbn
          have hok : se.absOK r.s.now = true := by simp [SEntry.absOK, hn]
          simp only [hp, if_false, hs, hidle, hm, ha, decide_false, Bool.and_false, Bool.false_or, hok,
            Bool.and_self, if_true, Bool.false_eq_true, if_false]
        have hg : r.gens = G := by
          rw [hsp.1, gensBetween_self] at hle; exact hle
        refine ⟨r, _, hlv, ⟨hacq.1, hg, ?_, hout1, hcx1, rfl⟩, by rw [hsp.1]; exact Nat.le_refl _, rfl, rfl⟩
        refine ⟨rfl, by rw [hr.data, hblob], hnd, rfl, by intro _; rw [hr.abs, hblob], ?_, by simp, hiss, rfl⟩
        intro _; exact hbn
    | none =>
      have hm : r.genId.isSome = false := by rw [hmine, hloc]; rfl
      simp only [hloc, Option.isSome_none] at hle ⊢
      have hv0 : ViewRel cfg gen (acquire c).1.st.nid { id := r.lookupId cfg, data := blob, fresh := false }
          { id := r.lookupId cfg, data := se.data, fresh := false, abs := se.absDeadline } := by
        refine ⟨rfl, by rw [hr.data, hblob], hnd, rfl, by intro _; rw [hr.abs, hblob], ?_, by simp, hiss, rfl⟩
        intro h0; rw [← hblob]; exact hr.abs0 h0
      cases hexp : absExpired c.st.now blob with
      | false =>
        have hres : finishLoad cfg gen (acquire c).1 { id := r.lookupId cfg, data := blob, fresh := false } =
            ((acquire c).1, { id := r.lookupId cfg, data := blob, fresh := false }) := by
          unfold finishLoad
          simp [hsp.2.2.1, hexp]
        rw [hres] at hle ⊢
        have hlv : loadView cfg r =
            .ok (r, { id := r.lookupId cfg, data := se.data, fresh := false, abs := se.absDeadline }) := by
          unfold loadView
          simp only [hp, if_false, hs, hidle, hm, habsOK, hexp, Bool.false_and, Bool.false_or, Bool.not_false,
            Bool.and_self, if_true, Bool.false_eq_true]
        have hg : r.gens = G := by
          rw [hsp.1, gensBetween_self] at hle; exact hle
        exact ⟨r, _, hlv, ⟨hacq.1, hg, hv0, hout1, hcx1, rfl⟩, by rw [hsp.1]; exact Nat.le_refl _, rfl, rfl⟩
      | true =>
        have habs : cfg.abs > 0 := by
          cases h0 : cfg.abs with
          | zero =>
            have := hr.abs0 h0
            rw [hblob] at this
            simp [absExpired, this] at hexp
          | succ n => omega
        have hres : finishLoad cfg gen (acquire c).1 { id := r.lookupId cfg, data := blob, fresh := false } =
            ((sessReset cfg gen (acquire c).1 { id := r.lookupId cfg, data := blob, fresh := false }).1,
             (sessReset cfg gen (acquire c).1 { id := r.lookupId cfg, data := blob, fresh := false }).2) := by
          unfold finishLoad
          simp only [Bool.false_and, Bool.false_eq_true, if_false, hsp.2.2.1, hexp, if_true]
          rw [sessReset_snd, sessReset_st]
          simp [habs, hsp.2.2.1]
        rw [hres] at hle ⊢
        simp only at hle ⊢
        have hrs := reset_sim hw (r := r) hacq.1 hv0
        rw [sessReset_st] at hle
        simp only at hle
        have hg : r.gens = gen c.st.nid :: G := by
          rw [hsp.1, gensBetween_succ] at hle; exact hle
        have hfv := freshView_ok hw (r := preResetR cfg r (r.lookupId cfg)) hst.issued hg
        simp only [preResetR] at hfv
        have hlv : loadView cfg r = .ok (resetR cfg gen G c.st.nid r (r.lookupId cfg),
            View.mk (gen c.st.nid) [] true (if cfg.abs > 0 then some (r.s.now + cfg.abs) else none) none false true) := by
          unfold loadView
          simp only [hp, if_false, hs, hidle, hm, habsOK, hexp, Bool.false_and, Bool.false_or, Bool.not_true,
            Bool.and_false, Bool.false_eq_true, if_true, hfv, bind, Except.bind, pure, Except.pure]
          rfl
        refine ⟨_, _, hlv, ⟨?_, rfl, ?_, sessReset_out hout1 _, ?_, rfl⟩, ?_, rfl, rfl⟩
        · have := hrs.1; rw [hsp.1] at this; exact this
        · have := hrs.2
          rw [sessReset_st]; simp only
          rw [hsp.1] at this ⊢
          exact this
        · exact sessReset_ctx (r := r) hcx1 (by simp [resetR]) rfl
        · rw [sessReset_st]; simp only; rw [hsp.1]; omega

/-! ### handler states -/

def CurRel (cfg : Cfg) (gen : Nat → Bytes) (nid : Nat) : Cur → SCur → Prop
  | .none, .none => True
  | .mw, .mw => True
  | .other s, .other v => ViewRel cfg gen nid s v
  | _, _ => False

def OptViewRel (cfg : Cfg) (gen : Nat → Bytes) (nid : Nat) : Option Sess → Option View → Prop
  | none, none => True
  | some s, some v => ViewRel cfg gen nid s v
  | _, _ => False

/-- the simulation relation between a handler state of the model and the abstract request state;
    `G` = the generator outputs the request will still see -/
structure Rel (cfg : Cfg) (gen : Nat → Bytes) (G : List Bytes) (q : Req) (h : HSt) (r : SReq) : Prop where
  st : StRel cfg gen h.c.st r.s
  gens : r.gens = G
  out : OutOK gen h.c
  mw : OptViewRel cfg gen h.c.st.nid h.mw r.mw
  cur : CurRel cfg gen h.c.st.nid h.cur r.cur
  destroyed : r.mwDestroyed = h.destroyed
  viaMw : q.viaMw = h.mw.isSome
  mwCtx : ∀ s, h.mw = some s → s.hasCtx = true
  mwLive : h.destroyed = false → ∀ v, r.mw = some v → v.destroyed = false
  req : CtxRel h.c r

theorem OptViewRel.mono {cfg : Cfg} {gen : Nat → Bytes} {n m : Nat} {a : Option Sess} {b : Option View}
    (h : OptViewRel cfg gen n a b) (hnm : n ≤ m) : OptViewRel cfg gen m a b := by
  cases a <;> cases b <;> simp_all [OptViewRel]
  exact h.mono hnm

theorem CurRel.mono {cfg : Cfg} {gen : Nat → Bytes} {n m : Nat} {a : Cur} {b : SCur}
    (h : CurRel cfg gen n a b) (hnm : n ≤ m) : CurRel cfg gen m a b := by
  cases a <;> cases b <;> simp_all [CurRel]
  exact h.mono hnm

theorem Rel.sess_none {cfg : Cfg} {gen : Nat → Bytes} {G : List Bytes} {q : Req} {h : HSt} {r : SReq}
    (hrel : Rel cfg gen G q h r) (hs : h.sess = none) : r.view = none := by
  have hm := hrel.mw
  have hc := hrel.cur
  obtain ⟨c, mw, d, cur⟩ := h
  obtain ⟨rs, rg, rp, rgi, rmw, rmd, rcur⟩ := r
  simp only [HSt.sess] at hs
  simp only [SReq.view]
  simp only at hm hc
  cases cur <;> cases rcur <;> simp only [CurRel] at hc <;> try (first | rfl | contradiction)
  · simp only at hs ⊢
    subst hs
    cases rmw <;> simp only [OptViewRel] at hm <;> try (first | rfl | contradiction)

theorem Rel.sess_some {cfg : Cfg} {gen : Nat → Bytes} {G : List Bytes} {q : Req} {h : HSt} {r : SReq}
    (hrel : Rel cfg gen G q h r) {s : Sess} (hs : h.sess = some s) :
    ∃ v, r.view = some v ∧ ViewRel cfg gen h.c.st.nid s v := by
  have hm := hrel.mw
  have hc := hrel.cur
  obtain ⟨c, mw, d, cur⟩ := h
  obtain ⟨rs, rg, rp, rgi, rmw, rmd, rcur⟩ := r
  simp only [HSt.sess] at hs
  simp only [SReq.view]
  simp only at hm hc
  cases cur <;> cases rcur <;> simp only [CurRel] at hc <;> try (first | contradiction | (simp at hs; done))
  · simp only at hs ⊢
    subst hs
    cases rmw <;> simp only [OptViewRel] at hm <;> try contradiction
    exact ⟨_, rfl, hm⟩
  · simp only [Option.some.injEq] at hs
    subst hs
    exact ⟨_, rfl, hc⟩

end C15
