import FiberModel.C15.Lemmas
/-
C15 — the two global invariants, for every handler action, request and history:
* every storage key was handed out by the key generator (`StoreIssued`);
* every pooled Session object has an empty data map (`PoolEmpty`).
-/
namespace C15
open B

/-- `id` is one of the first `n` ids handed out by the generator -/
def Issued (gen : Nat → Bytes) (n : Nat) (id : Bytes) : Prop := ∃ i, i < n ∧ id = gen i

def StoreIssued (gen : Nat → Bytes) (st : St) : Prop := ∀ e ∈ st.store, Issued gen st.nid e.1

def PoolEmpty (st : St) : Prop := ∀ d ∈ st.pool, d = SData.empty

def Inv (gen : Nat → Bytes) (st : St) : Prop := StoreIssued gen st ∧ PoolEmpty st

theorem Issued.mono {gen : Nat → Bytes} {n m : Nat} {id : Bytes} (h : Issued gen n id) (hnm : n ≤ m) :
    Issued gen m id := by
  obtain ⟨i, hi, e⟩ := h
  exact ⟨i, Nat.lt_of_lt_of_le hi hnm, e⟩

theorem inv_init (gen : Nat → Bytes) : Inv gen {} := by
  constructor
  · intro e he; simp at he
  · intro d hd; simp at hd

/-! ### storage primitives -/

theorem del_inv {gen : Nat → Bytes} {st : St} (h : Inv gen st) (id : Bytes) : Inv gen (st.del id) := by
  unfold St.del
  split
  · exact h
  · refine ⟨?_, h.2⟩
    intro e he
    exact h.1 e (mem_erase he).1

@[simp] theorem del_nid (st : St) (id : Bytes) : (st.del id).nid = st.nid := by
  unfold St.del; split <;> rfl

@[simp] theorem del_pool (st : St) (id : Bytes) : (st.del id).pool = st.pool := by
  unfold St.del; split <;> rfl

@[simp] theorem del_now (st : St) (id : Bytes) : (st.del id).now = st.now := by
  unfold St.del; split <;> rfl

theorem set_inv {gen : Nat → Bytes} {st : St} (h : Inv gen st) {id : Bytes} (hid : Issued gen st.nid id)
    (d : SData) (ttl : Nat) : Inv gen (st.set id d ttl) := by
  unfold St.set
  split
  · exact h
  · refine ⟨?_, h.2⟩
    intro e he
    rcases mem_put he with rfl | ⟨hm, _⟩
    · exact hid
    · exact h.1 e hm

@[simp] theorem set_nid (st : St) (id : Bytes) (d : SData) (ttl : Nat) : (st.set id d ttl).nid = st.nid := by
  unfold St.set; split <;> rfl

@[simp] theorem set_pool (st : St) (id : Bytes) (d : SData) (ttl : Nat) : (st.set id d ttl).pool = st.pool := by
  unfold St.set; split <;> rfl

@[simp] theorem set_now (st : St) (id : Bytes) (d : SData) (ttl : Nat) : (st.set id d ttl).now = st.now := by
  unfold St.set; split <;> rfl

/-- a live `Storage.Get` hit means the id is a storage key -/
theorem get_some_mem {st : St} {id : Bytes} {blob : SData} (h : st.get id = some blob) :
    ∃ e, (id, e) ∈ st.store ∧ e.blob = blob ∧ e.live st.now = true := by
  unfold St.get at h
  split at h
  · simp at h
  · split at h
    · rename_i e he
      split at h
      · rename_i hl
        exact ⟨e, lookup_some_mem he, by simpa using h, hl⟩
      · simp at h
    · simp at h

theorem get_issued {gen : Nat → Bytes} {st : St} (h : Inv gen st) {id : Bytes} {blob : SData}
    (hg : st.get id = some blob) : Issued gen st.nid id := by
  obtain ⟨e, hm, _, _⟩ := get_some_mem hg
  exact h.1 (id, e) hm

/-! ### request-context primitives -/

@[simp] theorem delSession_st (cfg : Cfg) (c : RCtx) (s : Sess) : (delSession cfg c s).st = c.st := by
  unfold delSession
  split
  · rfl
  · split <;> rfl

@[simp] theorem setSession_st (cfg : Cfg) (c : RCtx) (s : Sess) : (setSession cfg c s).st = c.st := by
  unfold setSession
  split
  · rfl
  · split <;> rfl

theorem newID_spec (gen : Nat → Bytes) (c : RCtx) :
    (newID gen c).1.st.nid = c.st.nid + 1 ∧ (newID gen c).1.st.store = c.st.store ∧
    (newID gen c).1.st.pool = c.st.pool ∧ (newID gen c).1.st.now = c.st.now ∧
    (newID gen c).2 = gen c.st.nid := by
  simp [newID]

theorem newID_inv {gen : Nat → Bytes} {c : RCtx} (h : Inv gen c.st) :
    Inv gen (newID gen c).1.st ∧ Issued gen (newID gen c).1.st.nid (newID gen c).2 := by
  obtain ⟨h1, h2, h3, _, h5⟩ := newID_spec gen c
  refine ⟨⟨?_, ?_⟩, ?_⟩
  · intro e he
    rw [h2] at he
    exact (h.1 e he).mono (by omega)
  · intro d hd
    rw [h3] at hd
    exact h.2 d hd
  · exact ⟨c.st.nid, by omega, h5⟩

theorem acquire_spec (c : RCtx) :
    (acquire c).1.st.nid = c.st.nid ∧ (acquire c).1.st.store = c.st.store ∧ (acquire c).1.st.now = c.st.now ∧
    (∀ d ∈ (acquire c).1.st.pool, d ∈ c.st.pool) ∧
    ((acquire c).2 = SData.empty ∨ (acquire c).2 ∈ c.st.pool) := by
  unfold acquire
  split
  · simp
  · rename_i d rest hp
    simp only [hp, List.mem_cons, true_and]
    exact ⟨fun d' hd' => Or.inr hd', Or.inr (Or.inl trivial)⟩

theorem acquire_inv {gen : Nat → Bytes} {c : RCtx} (h : Inv gen c.st) :
    Inv gen (acquire c).1.st ∧ (acquire c).2 = SData.empty := by
  obtain ⟨h1, h2, _, h4, h5⟩ := acquire_spec c
  refine ⟨⟨?_, ?_⟩, ?_⟩
  · intro e he
    rw [h2] at he; rw [h1]
    exact h.1 e he
  · intro d hd
    exact h.2 d (h4 d hd)
  · rcases h5 with h5 | h5
    · exact h5
    · exact h.2 _ h5

theorem release_inv {gen : Nat → Bytes} {c : RCtx} (h : Inv gen c.st) (s : Sess) : Inv gen (release c s).st := by
  refine ⟨h.1, ?_⟩
  intro d hd
  simp only [release, List.mem_cons] at hd
  rcases hd with rfl | hd
  · rfl
  · exact h.2 d hd

@[simp] theorem release_nid (c : RCtx) (s : Sess) : (release c s).st.nid = c.st.nid := rfl

/-! ### session operations: each keeps `Inv`, never lowers the id counter, and leaves the session under an issued id -/

/-- the facts every operation is shown to preserve / establish -/
structure Step (gen : Nat → Bytes) (c c' : RCtx) : Prop where
  inv : Inv gen c'.st
  mono : c.st.nid ≤ c'.st.nid

theorem sessReset_step {gen : Nat → Bytes} {cfg : Cfg} {c : RCtx} (h : Inv gen c.st) (s : Sess) :
    Step gen c (sessReset cfg gen c s).1 ∧ Issued gen (sessReset cfg gen c s).1.st.nid (sessReset cfg gen c s).2.id := by
  unfold sessReset
  have h1 : Inv gen (delSession cfg { c with st := c.st.del s.id } s).st := by
    simpa using del_inv h s.id
  have hn := newID_inv h1
  have hs := newID_spec gen (delSession cfg { c with st := c.st.del s.id } s)
  refine ⟨⟨hn.1, ?_⟩, ?_⟩
  · have := hs.1; simp at this; simp; omega
  · simpa using hn.2

theorem sessDestroy_step {gen : Nat → Bytes} {cfg : Cfg} {c : RCtx} (h : Inv gen c.st) (s : Sess) :
    Step gen c (sessDestroy cfg c s).1 ∧ (sessDestroy cfg c s).2.id = s.id := by
  unfold sessDestroy
  refine ⟨⟨by simpa using del_inv h s.id, by simp⟩, rfl⟩

theorem sessRegenerate_step {gen : Nat → Bytes} {c : RCtx} (h : Inv gen c.st) (s : Sess) :
    Step gen c (sessRegenerate gen c s).1 ∧
    Issued gen (sessRegenerate gen c s).1.st.nid (sessRegenerate gen c s).2.id := by
  unfold sessRegenerate
  have h1 : Inv gen ({ c with st := c.st.del s.id } : RCtx).st := del_inv h s.id
  have hn := newID_inv h1
  have hs := newID_spec gen { c with st := c.st.del s.id }
  refine ⟨⟨hn.1, ?_⟩, ?_⟩
  · have := hs.1; simp at this; simp; omega
  · simpa using hn.2

theorem sessSave_step {gen : Nat → Bytes} {cfg : Cfg} {c : RCtx} (h : Inv gen c.st) (s : Sess)
    (hid : Issued gen c.st.nid s.id) :
    Step gen c (sessSave cfg c s).1 ∧ (sessSave cfg c s).2.id = s.id := by
  unfold sessSave
  split <;> refine ⟨⟨?_, by simp⟩, by simp⟩
  all_goals
    simp only
    apply set_inv
    · simpa using h
    · simpa using hid

theorem getSession_step {gen : Nat → Bytes} {cfg : Cfg} {c : RCtx} (h : Inv gen c.st) :
    Step gen c (getSession cfg gen c).1 ∧
    Issued gen (getSession cfg gen c).1.st.nid (getSession cfg gen c).2.id := by
  unfold getSession
  simp only
  -- the id and whether it was found
  cases hraw : c.st.get (lookupId cfg c) with
  | none =>
    simp only [Option.isNone_none, if_true]
    have hn := newID_inv h
    have hs := newID_spec gen c
    have ha := acquire_inv (c := { (newID gen c).1 with locals := some (newID gen c).2 }) hn.1
    have has := acquire_spec { (newID gen c).1 with locals := some (newID gen c).2 }
    have hmono : c.st.nid ≤ (acquire { (newID gen c).1 with locals := some (newID gen c).2 }).1.st.nid := by
      have := has.1; have := hs.1; simp at *; omega
    have hiss : Issued gen (acquire { (newID gen c).1 with locals := some (newID gen c).2 }).1.st.nid (newID gen c).2 := by
      have := has.1; simp at this; rw [this]; exact hn.2
    split
    · exact ⟨⟨ha.1, hmono⟩, hiss⟩
    · split
      · have hr := sessReset_step (cfg := cfg) ha.1
          { id := (newID gen c).2, data := (acquire { (newID gen c).1 with locals := some (newID gen c).2 }).2, fresh := true }
        exact ⟨⟨hr.1.inv, Nat.le_trans hmono hr.1.mono⟩, hr.2⟩
      · exact ⟨⟨ha.1, hmono⟩, hiss⟩
  | some blob =>
    simp only [Option.isNone_some, Bool.false_eq_true, if_false]
    have hid := get_issued h hraw
    have ha := acquire_inv (c := c) h
    have has := acquire_spec c
    have hmono : c.st.nid ≤ (acquire c).1.st.nid := by have := has.1; omega
    have hiss : Issued gen (acquire c).1.st.nid (lookupId cfg c) := by
      rw [has.1]; exact hid
    split
    · exact ⟨⟨ha.1, hmono⟩, hiss⟩
    · split
      · have hr := sessReset_step (cfg := cfg) ha.1
          { id := (lookupId cfg c),
            data := (acquire c).2.merge blob, fresh := c.locals.isSome }
        exact ⟨⟨hr.1.inv, Nat.le_trans hmono hr.1.mono⟩, hr.2⟩
      · exact ⟨⟨ha.1, hmono⟩, hiss⟩

theorem getByID_step {gen : Nat → Bytes} {cfg : Cfg} {c : RCtx} (h : Inv gen c.st) (id : Bytes) :
    Step gen c (getByID cfg c id).1 ∧
    (∀ s, (getByID cfg c id).2 = .ok s → Issued gen (getByID cfg c id).1.st.nid s.id) := by
  unfold getByID
  split
  · exact ⟨⟨h, Nat.le_refl _⟩, by intro s hs; simp at hs⟩
  · cases hg : c.st.get id with
    | none => exact ⟨⟨h, Nat.le_refl _⟩, by intro s hs; simp at hs⟩
    | some blob =>
      simp only
      have hid := get_issued h hg
      have ha := acquire_inv (c := c) h
      have has := acquire_spec c
      split
      · have hd := sessDestroy_step (cfg := cfg) ha.1
          { id := id, data := (acquire c).2.merge blob, fresh := false, hasCtx := false }
        refine ⟨⟨hd.1.inv, ?_⟩, by intro s hs; simp at hs⟩
        have h1 := hd.1.mono; have h2 := has.1
        dsimp only at h1 ⊢; omega
      · refine ⟨⟨ha.1, by have h2 := has.1; dsimp only; omega⟩, ?_⟩
        intro s hs
        simp only [Except.ok.injEq] at hs
        subst hs
        rw [has.1]; exact hid

/-! ### handler scripts -/

structure HInv (gen : Nat → Bytes) (h : HSt) : Prop where
  inv : Inv gen h.c.st
  mw : ∀ s, h.mw = some s → Issued gen h.c.st.nid s.id
  cur : ∀ s, h.cur = .other s → Issued gen h.c.st.nid s.id

theorem hinv_sess {gen : Nat → Bytes} {h : HSt} (hi : HInv gen h) {s : Sess} (hs : h.sess = some s) :
    Issued gen h.c.st.nid s.id := by
  unfold HSt.sess at hs
  split at hs
  · simp at hs
  · exact hi.mw s hs
  · rename_i s' hc
    simp only [Option.some.injEq] at hs
    subst hs
    exact hi.cur _ hc

theorem hinv_step {gen : Nat → Bytes} {h : HSt} (hi : HInv gen h) {c' : RCtx} (st : Step gen h.c c') :
    HInv gen { h with c := c' } :=
  ⟨st.inv, fun s hs => (hi.mw s hs).mono st.mono, fun s hs => (hi.cur s hs).mono st.mono⟩

theorem hinv_putSess {gen : Nat → Bytes} {h : HSt} (hi : HInv gen h) {s : Sess}
    (hs : Issued gen h.c.st.nid s.id) : HInv gen (h.putSess s) := by
  unfold HSt.putSess
  split
  · exact hi
  · refine ⟨hi.inv, ?_, ?_⟩
    · intro s' hs'
      simp only [Option.some.injEq] at hs'
      subst hs'; exact hs
    · intro s' hs'; exact hi.cur s' hs'
  · refine ⟨hi.inv, ?_, ?_⟩
    · intro s' hs'; exact hi.mw s' hs'
    · intro s' hs'
      simp only [Cur.other.injEq] at hs'
      subst hs'; exact hs

@[simp] theorem putSess_c (h : HSt) (s : Sess) : (h.putSess s).c = h.c := by
  unfold HSt.putSess; split <;> rfl

/-- the combination used by most actions: the context moved by a `Step`, the current session replaced
    by one under an issued id -/
theorem hinv_update {gen : Nat → Bytes} {h : HSt} (hi : HInv gen h) {c' : RCtx} (st : Step gen h.c c')
    {s : Sess} (hs : Issued gen c'.st.nid s.id) : HInv gen (({ h with c := c' } : HSt).putSess s) :=
  hinv_putSess (hinv_step hi st) hs

theorem step_refl {gen : Nat → Bytes} {c : RCtx} (h : Inv gen c.st) : Step gen c c := ⟨h, Nat.le_refl _⟩

/-- every handler action keeps the invariants and never lowers the id counter -/
theorem act_inv {gen : Nat → Bytes} (cfg : Cfg) {h : HSt} (hi : HInv gen h) (a : Act) :
    HInv gen (act cfg gen h a).1 ∧ h.c.st.nid ≤ (act cfg gen h a).1.c.st.nid := by
  have hrefl : HInv gen h ∧ h.c.st.nid ≤ h.c.st.nid := ⟨hi, Nat.le_refl _⟩
  cases a with
  | storeGet =>
    simp only [act]
    split
    · exact hrefl
    · have hg := getSession_step (cfg := cfg) hi.inv
      refine ⟨⟨hg.1.inv, fun s hs => (hi.mw s hs).mono hg.1.mono, ?_⟩, hg.1.mono⟩
      intro s hs
      simp only [Cur.other.injEq] at hs
      subst hs; exact hg.2
  | byID id =>
    simp only [act]
    have hg := getByID_step (cfg := cfg) hi.inv id
    split
    · rename_i c e heq
      have : (getByID cfg h.c id).1 = c := by rw [heq]
      subst this
      exact ⟨hinv_step hi hg.1, hg.1.mono⟩
    · rename_i c s heq
      have h1 : (getByID cfg h.c id).1 = c := by rw [heq]
      have h2 : (getByID cfg h.c id).2 = .ok s := by rw [heq]
      subst h1
      refine ⟨⟨hg.1.inv, fun s' hs' => (hi.mw s' hs').mono hg.1.mono, ?_⟩, hg.1.mono⟩
      intro s' hs'
      simp only [Cur.other.injEq] at hs'
      subst hs'; exact hg.2 s h2
  | storeDelete id =>
    simp only [act]
    split
    · exact hrefl
    · exact ⟨hinv_step hi ⟨del_inv hi.inv id, by simp⟩, by simp⟩
  | storeReset =>
    simp only [act]
    refine ⟨hinv_step hi ⟨⟨?_, hi.inv.2⟩, Nat.le_refl _⟩, Nat.le_refl _⟩
    intro e he; simp at he
  | info | get k | keys =>
    simp only [act]
    split <;> exact hrefl
  | set k v | del k | idle secs =>
    simp only [act]
    split
    · exact hrefl
    · rename_i s hs
      have hiss := hinv_sess hi hs
      exact ⟨hinv_putSess hi hiss, by simp⟩
  | destroy =>
    simp only [act]
    split
    · exact hrefl
    · rename_i s hs
      have hd := sessDestroy_step (cfg := cfg) hi.inv s
      have hiss : Issued gen (sessDestroy cfg h.c s).1.st.nid (sessDestroy cfg h.c s).2.id := by
        rw [hd.2]; exact (hinv_sess hi hs).mono hd.1.mono
      have hu := hinv_update hi hd.1 hiss
      split
      · exact ⟨⟨hu.inv, hu.mw, hu.cur⟩, by simpa using hd.1.mono⟩
      · exact ⟨hu, by simpa using hd.1.mono⟩
  | regenerate =>
    simp only [act]
    split
    · exact hrefl
    · rename_i s hs
      have hd := sessRegenerate_step hi.inv s
      exact ⟨hinv_update hi hd.1 hd.2, by simpa using hd.1.mono⟩
  | reset =>
    simp only [act]
    split
    · exact hrefl
    · rename_i s hs
      have hd := sessReset_step (cfg := cfg) hi.inv s
      exact ⟨hinv_update hi hd.1 hd.2, by simpa using hd.1.mono⟩
  | save =>
    simp only [act]
    split
    · exact hrefl
    · rename_i s hs
      split
      · exact hrefl
      · have hd := sessSave_step (cfg := cfg) hi.inv s (hinv_sess hi hs)
        have hiss : Issued gen (sessSave cfg h.c s).1.st.nid (sessSave cfg h.c s).2.id := by
          rw [hd.2]; exact (hinv_sess hi hs).mono hd.1.mono
        exact ⟨hinv_update hi hd.1 hiss, by simpa using hd.1.mono⟩
  | release =>
    simp only [act]
    split
    · exact hrefl
    · rename_i s hs
      split
      · exact hrefl
      · refine ⟨⟨release_inv hi.inv s, fun s' hs' => hi.mw s' hs', ?_⟩, Nat.le_refl _⟩
        intro s' hs'; simp at hs'

theorem runScript_inv {gen : Nat → Bytes} (cfg : Cfg) (as : List Act) {h : HSt} (hi : HInv gen h) :
    HInv gen (runScript cfg gen h as).1 ∧ h.c.st.nid ≤ (runScript cfg gen h as).1.c.st.nid := by
  induction as generalizing h with
  | nil => exact ⟨hi, Nat.le_refl _⟩
  | cons a as ih =>
    simp only [runScript]
    have ha := act_inv cfg hi a
    have hr := ih ha.1
    exact ⟨hr.1, Nat.le_trans ha.2 hr.2⟩

theorem startReq_hinv {gen : Nat → Bytes} (cfg : Cfg) {st : St} (hi : Inv gen st) (q : Req) :
    HInv gen (startReq cfg gen st q) ∧ st.nid ≤ (startReq cfg gen st q).c.st.nid := by
  unfold startReq
  simp only
  split
  · have hg := getSession_step (cfg := cfg) (gen := gen) (c := { st := st, ck := q.ck, hd := q.hd, qr := q.qr }) hi
    refine ⟨⟨hg.1.inv, ?_, ?_⟩, hg.1.mono⟩
    · intro s hs; simp only [Option.some.injEq] at hs; subst hs; exact hg.2
    · intro s hs; simp at hs
  · refine ⟨⟨hi, ?_, ?_⟩, Nat.le_refl _⟩ <;> intro s hs <;> simp at hs

theorem mwFinish_inv {gen : Nat → Bytes} (cfg : Cfg) {h : HSt} (hi : HInv gen h) :
    Inv gen (mwFinish cfg h).st ∧ h.c.st.nid ≤ (mwFinish cfg h).st.nid := by
  unfold mwFinish
  split
  · rename_i s hs
    split
    · exact ⟨hi.inv, Nat.le_refl _⟩
    · have hsv := sessSave_step (cfg := cfg) hi.inv s (hi.mw s hs)
      exact ⟨release_inv hsv.1.inv _, by simpa using hsv.1.mono⟩
  · exact ⟨hi.inv, Nat.le_refl _⟩

/-- a whole request keeps the invariants -/
theorem handle_inv {gen : Nat → Bytes} (cfg : Cfg) {st : St} (hi : Inv gen st) (q : Req) :
    Inv gen (handle cfg gen st q).1 ∧ st.nid ≤ (handle cfg gen st q).1.nid := by
  have h0 := startReq_hinv cfg hi q
  have hr := runScript_inv cfg q.script h0.1
  unfold handle
  simp only
  split
  · have hf := mwFinish_inv cfg hr.1
    exact ⟨hf.1, Nat.le_trans h0.2 (Nat.le_trans hr.2 hf.2)⟩
  · exact ⟨hr.1.inv, Nat.le_trans h0.2 hr.2⟩

theorem run_inv {gen : Nat → Bytes} (cfg : Cfg) (ops : List Op) {st : St} (hi : Inv gen st) :
    Inv gen (run cfg gen st ops).1 := by
  induction ops generalizing st with
  | nil => exact hi
  | cons o ops ih =>
    simp only [run]
    cases o with
    | adv d => exact ih (st := { st with now := st.now + d }) hi
    | req q => exact ih (handle_inv cfg hi q).1

end C15
