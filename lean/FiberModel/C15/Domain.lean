import FiberModel.C15.Sim
/-
C15 — the domain of the oracle, syntactically: a history in which no script calls `Save` after `Destroy`
never makes the oracle answer `outside-domain` (any number of `store.Get` per request is inside).
The facts about `Flags` are pure facts about Spec.lean; the model is not involved.
-/
namespace C15
open B

/-- what the flag `d` over-approximates: some view of the request is a destroyed one -/
structure Flags (r : SReq) (d : Bool) : Prop where
  mw : ∀ v, r.mw = some v → v.destroyed = true → d = true
  cur : ∀ v, r.cur = .other v → v.destroyed = true → d = true

theorem Flags.congr {r r' : SReq} {d : Bool} (h : Flags r d) (h1 : r'.mw = r.mw) (h2 : r'.cur = r.cur) :
    Flags r' d := ⟨by rw [h1]; exact h.mw, by rw [h2]; exact h.cur⟩

theorem Flags.view {r : SReq} {d : Bool} (h : Flags r d) {v : View} (hv : r.view = some v)
    (hd : v.destroyed = true) : d = true := by
  unfold SReq.view at hv
  split at hv
  · cases hv
  · exact h.mw v hv hd
  · rename_i v' hc
    simp only [Option.some.injEq] at hv
    subst hv
    exact h.cur _ hc hd

theorem Flags.putView {r : SReq} {d : Bool} (h : Flags r d) {v : View} (hv : v.destroyed = true → d = true) :
    Flags (r.putView v) d := by
  unfold SReq.putView
  split
  · exact h
  · refine ⟨?_, ?_⟩
    · intro v' hv' hd'; simp only [Option.some.injEq] at hv'; subst hv'; exact hv hd'
    · intro v' hv' hd'; rename_i hc; simp only at hv'; rw [hc] at hv'; cases hv'
  · refine ⟨h.mw, ?_⟩
    intro v' hv' hd'; simp only [SCur.other.injEq] at hv'; subst hv'; exact hv hd'

theorem Flags.ite_mwDestroyed {X : SReq} {d : Bool} {c : Prop} [Decidable c] (h : Flags X d) :
    Flags (if c then { X with mwDestroyed := true } else X) d := by
  split
  · exact ⟨h.mw, h.cur⟩
  · exact h

theorem freshView_fields {cfg : Cfg} {r r1 : SReq} {nv : View} (h : freshView cfg r = .ok (r1, nv)) :
    r1.mw = r.mw ∧ r1.cur = r.cur ∧ nv.destroyed = false := by
  unfold freshView at h
  split at h
  · cases h
  · split at h
    · cases h
    · split at h
      · cases h
      · simp only [Except.ok.injEq, Prod.mk.injEq] at h
        obtain ⟨h1, h2⟩ := h
        subst h1 h2
        exact ⟨rfl, rfl, rfl⟩

theorem loadView_fields {cfg : Cfg} {r r1 : SReq} {v : View} (h : loadView cfg r = .ok (r1, v)) :
    r1.mw = r.mw ∧ r1.cur = r.cur ∧ v.destroyed = false := by
  unfold loadView at h
  simp only at h
  split at h
  · split at h
    · simp only [Except.ok.injEq, Prod.mk.injEq] at h
      obtain ⟨h1, h2⟩ := h
      subst h1 h2
      exact ⟨rfl, rfl, rfl⟩
    · split at h
      · cases hf : freshView cfg { r with s := { r.s with sessions := erase r.s.sessions (r.lookupId cfg) },
                                          pres := withdraw cfg r.pres } with
        | error e => simp [hf, bind, Except.bind] at h
        | ok p =>
          obtain ⟨h1, h2, h3⟩ := freshView_fields hf
          simp only [hf, bind, Except.bind, pure, Except.pure, Except.ok.injEq, Prod.mk.injEq] at h
          obtain ⟨e1, e2⟩ := h
          subst e1 e2
          exact ⟨h1, h2, h3⟩
      · cases hf : freshView cfg { r with s := { r.s with sessions := erase r.s.sessions (r.lookupId cfg) } } with
        | error e => simp [hf, bind, Except.bind] at h
        | ok p =>
          obtain ⟨h1, h2, h3⟩ := freshView_fields hf
          simp only [hf, bind, Except.bind, pure, Except.pure, Except.ok.injEq, Prod.mk.injEq] at h
          obtain ⟨e1, e2⟩ := h
          subst e1 e2
          exact ⟨h1, h2, h3⟩
  · cases hf : freshView cfg r with
    | error e => simp [hf, bind, Except.bind] at h
    | ok p =>
      obtain ⟨h1, h2, h3⟩ := freshView_fields hf
      simp only [hf, bind, Except.bind, pure, Except.pure, Except.ok.injEq, Prod.mk.injEq] at h
      obtain ⟨e1, e2⟩ := h
      subst e1 e2
      exact ⟨h1, h2, h3⟩

/-- the flag stays an over-approximation across every accepted action -/
theorem specAct_flags {cfg : Cfg} {viaMw : Bool} {q : Req} {r r' : SReq} {a : Act} {o : AObs} {d : Bool}
    (hf : Flags r d) (h : specAct cfg viaMw q r a o = .ok r') : Flags r' (nextD d a) := by
  cases a with
  | storeGet =>
    simp only [specAct] at h
    cases hv : viaMw with
    | true =>
      simp only [hv, if_true] at h
      split at h
      · cases h; exact hf
      · cases h
    | false =>
      simp only [hv, Bool.false_eq_true, if_false] at h
      cases hl : loadView cfg r with
      | error e => simp [hl, bind, Except.bind] at h
      | ok p =>
        obtain ⟨r1, v⟩ := p
        obtain ⟨h1, h2, h4⟩ := loadView_fields hl
        simp only [hl, bind, Except.bind] at h
        split at h
        · simp [throw, throwThe, MonadExceptOf.throw] at h
        · simp only [pure, Except.pure, Except.ok.injEq] at h
          subst h
          refine ⟨?_, ?_⟩
          · intro v' hv' hd'; simp only at hv'; rw [h1] at hv'; exact hf.mw v' hv' hd'
          · intro v' hv' hd'; simp only [SCur.other.injEq] at hv'; subst hv'; rw [h4] at hd'; cases hd'
  | byID id =>
    simp only [specAct] at h
    split at h
    · split at h
      · split at h
        · cases h
          refine ⟨hf.mw, ?_⟩
          intro v' hv' hd'; simp only [SCur.other.injEq] at hv'; subst hv'; cases hd'
        · cases h
      · split at h
        · cases h; exact hf.congr rfl rfl
        · cases h
    · by_cases ho : o = .err (if id = [] then .empty else .notFound)
      · rw [if_pos ho] at h; cases h; exact hf
      · rw [if_neg ho] at h; cases h
  | storeDelete id =>
    simp only [specAct] at h
    split at h
    · split at h
      · cases h; exact hf
      · cases h
    · cases h; exact hf.congr rfl rfl
  | storeReset =>
    simp only [specAct] at h
    cases h; exact hf.congr rfl rfl
  | info =>
    simp only [specAct] at h
    split at h
    · split at h
      · cases h; exact hf
      · cases h
    · split at h
      · split at h
        · cases h
        · split at h
          · cases h
          · cases h; exact hf
      · cases h
  | get k =>
    simp only [specAct] at h
    split at h
    · split at h
      · cases h; exact hf
      · cases h
    · split at h
      · cases h; exact hf
      · cases h
  | keys =>
    simp only [specAct] at h
    split at h
    · split at h
      · cases h; exact hf
      · cases h
    · split at h
      · split at h
        · cases h; exact hf
        · cases h
      · cases h
  | set k v =>
    simp only [specAct] at h
    split at h
    · split at h
      · cases h; exact hf
      · cases h
    · rename_i v0 hv0
      cases h
      exact hf.putView (fun hd => hf.view hv0 hd)
  | del k =>
    simp only [specAct] at h
    split at h
    · split at h
      · cases h; exact hf
      · cases h
    · rename_i v0 hv0
      cases h
      exact hf.putView (fun hd => hf.view hv0 hd)
  | idle secs =>
    simp only [specAct] at h
    split at h
    · split at h
      · cases h; exact hf
      · cases h
    · rename_i v0 hv0
      cases h
      exact hf.putView (fun hd => hf.view hv0 hd)
  | destroy =>
    simp only [specAct] at h
    split at h
    · split at h
      · cases h; exact ⟨fun v hv hd => rfl, fun v hv hd => rfl⟩
      · cases h
    · rename_i v0 hv0
      have hp : Flags ((dropR cfg r v0).putView { v0 with data := [], destroyed := true }) true :=
        Flags.putView (r := dropR cfg r v0) ⟨fun v hv hd => rfl, fun v hv hd => rfl⟩ (fun _ => rfl)
      simp only [Except.ok.injEq] at h
      subst h
      exact Flags.ite_mwDestroyed hp
  | regenerate =>
    simp only [specAct] at h
    split at h
    · split at h
      · cases h; exact hf
      · cases h
    · rename_i v0 hv0
      cases hfv : freshView cfg { r with s := { r.s with sessions := erase r.s.sessions v0.id } } with
      | error e => simp [hfv, bind, Except.bind] at h
      | ok p =>
        obtain ⟨r1, nv⟩ := p
        obtain ⟨h1, h2, h4⟩ := freshView_fields hfv
        simp only [hfv, bind, Except.bind, pure, Except.pure, Except.ok.injEq] at h
        subst h
        exact (hf.congr h1 h2).putView (fun hd => hf.view hv0 hd)
  | reset =>
    simp only [specAct] at h
    split at h
    · split at h
      · cases h; exact hf
      · cases h
    · rename_i v0 hv0
      cases hfv : freshView cfg (dropR cfg r v0) with
      | error e => simp [dropR] at hfv; simp [hfv, bind, Except.bind] at h
      | ok p =>
        obtain ⟨r1, nv⟩ := p
        obtain ⟨h1, h2, h4⟩ := freshView_fields hfv
        simp only [dropR] at hfv
        simp only [hfv, bind, Except.bind, pure, Except.pure, Except.ok.injEq] at h
        subst h
        exact (hf.congr h1 h2).putView (fun hd => by simp only at hd; rw [h4] at hd; cases hd)
  | save =>
    simp only [specAct] at h
    split at h
    · split at h
      · cases h; exact hf
      · cases h
    · rename_i v0 hv0
      split at h
      · cases h; exact hf
      · split at h
        · cases h
        · cases h
          exact (hf.congr (r' := savedR cfg r v0) rfl rfl).putView (fun hd => hf.view hv0 hd)
  | release =>
    simp only [specAct] at h
    split at h
    · split at h
      · cases h; exact hf
      · cases h
    · split at h
      · cases h; exact hf
      · cases h
        exact ⟨hf.mw, by intro v hv; cases hv⟩

theorem specStart_fields {cfg : Cfg} {s : SpecSt} {q : Req} {g : List Bytes} {r0 : SReq}
    (h : specStart cfg s q g = .ok r0) : Flags r0 false := by
  unfold specStart at h
  split at h
  · cases hl : loadView cfg { s := s, gens := g, pres := q.pres } with
    | error e => simp [hl, bind, Except.bind] at h
    | ok p =>
      obtain ⟨r1, v⟩ := p
      obtain ⟨h1, h2, h4⟩ := loadView_fields hl
      simp only [hl, bind, Except.bind, pure, Except.pure, Except.ok.injEq] at h
      subst h
      refine ⟨?_, ?_⟩
      · intro v' hv' hd'; simp only [Option.some.injEq] at hv'; subst hv'; rw [h4] at hd'; cases hd'
      · intro v' hv'; cases hv'
  · simp only [pure, Except.pure, Except.ok.injEq] at h
    subst h
    exact ⟨(by intro v hv; cases hv), (by intro v hv; cases hv)⟩

/-- within the domain the oracle accepts every script of the model outright -/
theorem script_sim_dom {cfg : Cfg} {gen : Nat → Bytes} (hw : WF cfg gen) {q : Req} (as : List Act) :
    ∀ (h : HSt) (r : SReq) (G G' : List Bytes) (d : Bool), Rel cfg gen G q h r → Flags r d →
      scriptInDomain d as = true →
      G = gensBetween gen h.c.st.nid (runScript cfg gen h as).1.c.st.nid ++ G' →
      ∃ r', specScript cfg q.viaMw q r as (runScript cfg gen h as).2 = .ok r' ∧
        Rel cfg gen G' q (runScript cfg gen h as).1 r' := by
  induction as with
  | nil =>
    intro h r G G' d hrel _ _ hG
    have : G = G' := by simpa [runScript, gensBetween_self] using hG
    subst this
    exact ⟨r, rfl, hrel⟩
  | cons a as ih =>
    intro h r G G' d hrel hf hdom hG
    simp only [scriptInDomain, Bool.and_eq_true] at hdom
    simp only [runScript] at hG
    have hinv1 := act_inv cfg hrel.hinv a
    have hmono := (runScript_inv cfg as hinv1.1).2
    rw [gensBetween_append gen hinv1.2 hmono, List.append_assoc] at hG
    rcases act_sim hw hrel a hG with ⟨r1, hs1, hrel1⟩ | ⟨e, he, _, ht⟩
    · obtain ⟨r2, hs2, hrel2⟩ := ih _ r1 _ G' _ hrel1 (specAct_flags hf hs1) hdom.2 rfl
      refine ⟨r2, ?_, ?_⟩
      · simp only [runScript, specScript, hs1, bind, Except.bind]
        exact hs2
      · simpa [runScript] using hrel2
    · exfalso
      obtain ⟨ha, v, hv, hd⟩ := ht
      subst ha
      have := hf.view hv hd
      simp [actAllowed, this] at hdom

/-- … every request -/
theorem req_sim_dom {cfg : Cfg} {gen : Nat → Bytes} (hw : WF cfg gen) {st : St} {s : SpecSt}
    (hst : StRel cfg gen st s) (q : Req) (hdom : scriptInDomain false q.script = true) :
    ∃ s', specReq cfg s q (handle cfg gen st q).2.toObs = .ok s' ∧ StRel cfg gen (handle cfg gen st q).1 s' := by
  have h0 := startReq_hinv cfg hst.inv q
  have h1 := runScript_inv cfg q.script h0.1
  have hg : (handle cfg gen st q).2.toObs.gens =
      gensBetween gen st.nid (startReq cfg gen st q).c.st.nid ++
        (gensBetween gen (startReq cfg gen st q).c.st.nid
          (runScript cfg gen (startReq cfg gen st q) q.script).1.c.st.nid ++ []) := by
    have : (handle cfg gen st q).2.toObs.gens =
        gensBetween gen st.nid (endCtx cfg q (runScript cfg gen (startReq cfg gen st q) q.script).1).st.nid := rfl
    rw [this, endCtx_nid, List.append_nil, ← gensBetween_append gen h0.2 h1.2]
  obtain ⟨r0, hs0, hrel0⟩ := start_sim hw (q := q)
    (gensBetween gen (startReq cfg gen st q).c.st.nid
      (runScript cfg gen (startReq cfg gen st q) q.script).1.c.st.nid ++ []) hst
  have ha : (handle cfg gen st q).2.toObs.acts = (runScript cfg gen (startReq cfg gen st q) q.script).2 := rfl
  have hstat : (handle cfg gen st q).2.toObs.status = 200 := rfl
  have hfst : (handle cfg gen st q).1 = (endCtx cfg q (runScript cfg gen (startReq cfg gen st q) q.script).1).st := rfl
  obtain ⟨r1, hs1, hrel1⟩ := script_sim_dom hw q.script _ r0 _ [] _ hrel0 (specStart_fields hs0) hdom rfl
  obtain ⟨r2, hs2, hst2, hout2⟩ := finish_sim hw hrel1 (handle cfg gen st q).2.toObs rfl rfl
  have he := end_sim hst2 hout2 (handle cfg gen st q).2.toObs rfl rfl rfl
  refine ⟨r2.s, ?_, by rw [hfst]; exact hst2⟩
  simp only [specReq, hstat, ne_eq, not_true_eq_false, if_false, bind, Except.bind, hg, ha, hs0, hs1, hs2]
  exact he

/-- … every history -/
theorem run_sim_dom {cfg : Cfg} {gen : Nat → Bytes} (hw : WF cfg gen) (ops : List Op) :
    ∀ (st : St) (s : SpecSt), StRel cfg gen st s → ops.all Op.inDomain = true →
      specRun cfg s ops (obsOf (run cfg gen st ops).2) = none := by
  induction ops with
  | nil => intro st s _ _; rfl
  | cons o ops ih =>
    intro st s hst hdom
    simp only [List.all_cons, Bool.and_eq_true] at hdom
    cases o with
    | adv d =>
      simp only [run, step, obsOf, List.map, Option.map, specRun]
      exact ih _ _ (strel_adv hst d) hdom.2
    | req q =>
      simp only [run, step, obsOf, List.map, Option.map, specRun]
      obtain ⟨s', hs', hst'⟩ := req_sim_dom hw hst q hdom.1
      rw [hs']
      exact ih _ _ hst' hdom.2

end C15
