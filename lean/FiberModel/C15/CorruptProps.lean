import FiberModel.C15.Sim
import FiberModel.C15.Corrupt
/-
C15 — a load that fails on a damaged blob leaves no trace (isolation across a decode failure).
-/
namespace C15
open B

/-- what the decode-error path does to the state: time, storage and the id counter are untouched; the
    pool holds one more (or the same number of) objects, the one put back being EMPTY -/
theorem failedLoad_spec (c : RCtx) :
    (failedLoad c).st.now = c.st.now ∧ (failedLoad c).st.store = c.st.store ∧
    (failedLoad c).st.nid = c.st.nid ∧
    (∀ d ∈ (failedLoad c).st.pool, d = SData.empty ∨ d ∈ c.st.pool) := by
  obtain ⟨h1, h2, h3, h4, _⟩ := acquire_spec c
  refine ⟨h3, h2, h1, ?_⟩
  intro d hd
  simp only [failedLoad, release, List.mem_cons] at hd
  rcases hd with rfl | hd
  · exact Or.inl rfl
  · exact Or.inr (h4 d hd)

/-- nothing of the request context changes either: no Locals, no reply cookie / header -/
theorem failedLoad_ctx (c : RCtx) :
    (failedLoad c).locals = c.locals ∧ (failedLoad c).outCk = c.outCk ∧ (failedLoad c).outHd = c.outHd ∧
    (failedLoad c).ck = c.ck ∧ (failedLoad c).hd = c.hd ∧ (failedLoad c).qr = c.qr := by
  unfold failedLoad release acquire
  split <;> simp

theorem failedLoad_inv {gen : Nat → Bytes} {c : RCtx} (h : Inv gen c.st) : Inv gen (failedLoad c).st :=
  release_inv (acquire_inv h).1 nobody

/-- the state after a failed load is related to the SAME abstract table as before it -/
theorem failedLoad_strel {cfg : Cfg} {gen : Nat → Bytes} {c : RCtx} {s : SpecSt}
    (h : StRel cfg gen c.st s) : StRel cfg gen (failedLoad c).st s := by
  obtain ⟨h1, h2, h3, _⟩ := failedLoad_spec c
  refine ⟨?_, ?_, failedLoad_inv h.inv, ?_, h.nodupSess, ?_, ?_⟩
  · rw [h1]; exact h.now
  · rw [h3]; exact h.issued
  · rw [h2]; exact h.nodupStore
  · intro id e he hl
    rw [h2] at he; rw [h1] at hl
    exact h.fwd id e he hl
  · intro id se hs hl
    rw [h1] at hl; rw [h2]
    exact h.bwd id se hs hl

/-- **Isolation across a decode failure.** Take any state related to an abstract table `s` (every state a
    history reaches is: `run_sim`), let a load fail on a damaged blob there (`store.Get`, `GetByID` or
    the middleware's `initialize`, for any request), and continue with ANY history — requests of new
    visitors, of the other sessions, of the victim id again, through the middleware or the Store API.
    The oracle accepts everything observed afterwards AGAINST THE TABLE `s` IN WHICH THE FAILED LOAD NEVER
    HAPPENED: a fresh session is empty, every other session shows exactly its own last saved keys and
    values. Nothing the decoder had put into the pooled object before it failed is seen by anyone. -/
theorem failed_load_leaves_no_trace (cfg : Cfg) (gen : Nat → Bytes) (hw : WF cfg gen) (c : RCtx) (s : SpecSt)
    (hrel : StRel cfg gen c.st s) (ops : List Op) :
    specRun cfg s ops (obsOf (run cfg gen (failedLoad c).st ops).2) = none ∨
    ∃ e, specRun cfg s ops (obsOf (run cfg gen (failedLoad c).st ops).2) = some e ∧ OutsideDomain e :=
  run_sim hw ops _ s (failedLoad_strel hrel)

/-- the same for the middleware route: a request presenting a damaged live id dies in `initialize`
    (`panicked`), and the state it leaves is `failedLoad` of the state it found -/
theorem xhandle_damaged_mw (cfg : Cfg) (gen : Nat → Bytes) (x : XSt) (q : Req) (hq : q.viaMw = true)
    (hbad : isBad x.bad x.st (getSessionID cfg (reqCtx x.st q)) = true) :
    xhandle cfg gen x q = ({ x with st := (failedLoad (reqCtx x.st q)).st }, { panicked := true }) := by
  simp [xhandle, hq, hbad]

/-- `store.Get` / `GetByID` on a damaged live id: the decode error, the handler's session variable is
    unchanged, the context is `failedLoad` of the context before -/
theorem xact_damaged_get (cfg : Cfg) (gen : Nat → Bytes) (bad : List Bytes) (h : HSt) (hm : h.mw = none)
    (hbad : isBad bad h.c.st (lookupId cfg h.c) = true) :
    xact cfg gen bad h .storeGet = ({ h with c := failedLoad h.c }, .decodeErr) := by
  simp [xact, hm, hbad]

theorem xact_damaged_byID (cfg : Cfg) (gen : Nat → Bytes) (bad : List Bytes) (h : HSt) (id : Bytes)
    (hbad : isBad bad h.c.st id = true) :
    xact cfg gen bad h (.byID id) = ({ h with c := failedLoad h.c }, .decodeErr) := by
  simp [xact, hbad]

/-- model and oracle agree on which ids are damaged AND still live, in every related pair of states
    (the storage holds an entry the TTL has not removed ⇔ the table has the session within its idle deadline) -/
theorem isBad_eq_sIsBad {cfg : Cfg} {gen : Nat → Bytes} {st : St} {s : SpecSt} (h : StRel cfg gen st s)
    (bad : List Bytes) (id : Bytes) : isBad bad st id = sIsBad bad s id := by
  unfold isBad sIsBad
  cases hb : bad.contains id with
  | false => simp
  | true =>
    by_cases hid : id = []
    · subst hid; simp [St.get]
    · simp only [Bool.true_and, St.get, hid, ↓reduceIte, ne_eq, not_false_eq_true, decide_true]
      cases hl : lookup st.store id with
      | none =>
        cases hs : lookup s.sessions id with
        | none => rfl
        | some se =>
          by_cases hlive : st.now < se.idleDeadline
          · obtain ⟨e, he, _⟩ := h.bwd id se hs hlive
            rw [hl] at he; cases he
          · simp [h.now, hlive]
      | some e =>
        by_cases hel : e.live st.now = true
        · obtain ⟨se, hse, her⟩ := h.fwd id e hl hel
          have := her.live st.now
          simp [hse, hel, h.now, ← this]
        · cases hs : lookup s.sessions id with
          | none => simp [hel]
          | some se =>
            by_cases hlive : st.now < se.idleDeadline
            · obtain ⟨e', he', her⟩ := h.bwd id se hs hlive
              rw [hl] at he'; cases he'
              have := her.live st.now
              simp [hlive] at this
              exact absurd this hel
            · simp [hel, h.now, hlive]

/-! ### without damaged blobs the extended model IS the model -/

theorem isBad_nil (st : St) (id : Bytes) : isBad [] st id = false := by simp [isBad]

theorem xact_nil (cfg : Cfg) (gen : Nat → Bytes) (h : HSt) (a : Act) :
    xact cfg gen [] h a = ((act cfg gen h a).1, .plain (act cfg gen h a).2) := by
  cases a <;> simp [xact, isBad_nil]

theorem xrunScript_nil (cfg : Cfg) (gen : Nat → Bytes) (as : List Act) : ∀ h : HSt,
    xrunScript cfg gen [] h as = ((runScript cfg gen h as).1, (runScript cfg gen h as).2.map .plain) := by
  induction as with
  | nil => intro h; rfl
  | cons a as ih =>
    intro h
    simp only [xrunScript, runScript, xact_nil, ih, List.map_cons]

theorem xhandle_nil (cfg : Cfg) (gen : Nat → Bytes) (st : St) (q : Req) :
    (xhandle cfg gen { st := st, bad := [] } q).1 = { st := (handle cfg gen st q).1, bad := [] } ∧
    (xhandle cfg gen { st := st, bad := [] } q).2 =
      { acts := (handle cfg gen st q).2.acts.map .plain, outCk := (handle cfg gen st q).2.outCk,
        outHd := (handle cfg gen st q).2.outHd, gens := (handle cfg gen st q).2.gens,
        keys := (handle cfg gen st q).2.keys } := by
  simp [xhandle, isBad_nil, xrunScript_nil, handle]

/-- a history without `corrupt` operations: the extended model walks through exactly the states of the
    model of Model.lean (so every theorem about `run` speaks about these histories of `xrun`) -/
theorem xrun_without_damage (cfg : Cfg) (gen : Nat → Bytes) (ops : List Op) : ∀ st : St,
    (xrun cfg gen { st := st, bad := [] } (ops.map .base)).1 = { st := (run cfg gen st ops).1, bad := [] } := by
  induction ops with
  | nil => intro st; rfl
  | cons o ops ih =>
    intro st
    cases o with
    | adv d => simp only [List.map_cons, xrun, xstep, run, step, ih]
    | req q => simp only [List.map_cons, xrun, xstep, run, step, (xhandle_nil cfg gen st q).1, ih]

/-! ### non-vacuity: a concrete history with a damaged blob -/

def cxCfg : Cfg := { source := .cookie, idle := 10, abs := 0 }
def cxSet : Req := { viaMw := true, ck := [], hd := [], qr := [], script := [.set [118] [49], .set [119] [50]] }
def cxVictim : Req := { viaMw := true, ck := idGen 0, hd := [], qr := [], script := [.info, .keys] }
def cxVisitor : Req := { viaMw := true, ck := [], hd := [], qr := [], script := [.info, .keys, .get [118]] }
def cxOther : Req := { viaMw := false, ck := idGen 1, hd := [], qr := [], script := [.storeGet, .keys, .get [118], .save, .release] }
/-- two sessions are saved, the first one's blob is damaged, its id is presented (middleware, then
    `GetByID`), then a new visitor and the other session are served -/
def cxOps : List XOp :=
  [.base (.req cxSet), .base (.req { cxSet with script := [.set [97] [51]] }), .corrupt (idGen 0),
   .base (.req cxVictim),
   .base (.req { cxVictim with viaMw := false, ck := [], script := [.byID (idGen 0), .info] }),
   .base (.req cxVisitor), .base (.req cxOther)]

-- the victim's request dies, `GetByID` reports the decode error, the visitor's fresh session has no
-- keys and the other session exactly its own key `a`
example : (xrun cxCfg idGen {} cxOps).2.drop 2 =
    [.corrupted true, .resp { panicked := true },
     .resp { acts := [.decodeErr, .plain .bang], keys := [idGen 1, idGen 0] },
     .resp { acts := [.plain (.info (idGen 2) true), .plain (.keys [] false), .plain (.val none)],
             outCk := some (some (idGen 2)), gens := [idGen 2], keys := [idGen 2, idGen 1, idGen 0] },
     .resp { acts := [.plain .ok, .plain (.keys [[97]] false), .plain (.val none), .plain .ok, .plain .dash],
             outCk := some (some (idGen 1)), keys := [idGen 1, idGen 2, idGen 0] }] := by decide
-- … and the oracle accepts that history, but rejects it when the visitor's fresh session shows the
-- victim's key `v` (what a pooled object that was not reset would produce)
example : xspecRun cxCfg {} cxOps (xobsOf (xrun cxCfg idGen {} cxOps).2) = none := by decide
example : xspecRun cxCfg {} cxOps
    [some (.obs { outCk := some (some (idGen 0)), gens := [idGen 0], keys := [idGen 0], acts := [.plain .dash, .plain .dash] }),
     some (.obs { outCk := some (some (idGen 1)), gens := [idGen 1], keys := [idGen 0, idGen 1], acts := [.plain .dash] }),
     some (.corrupted true), some (.obs { panicked := true }),
     some (.obs { acts := [.decodeErr, .plain .bang], keys := [idGen 1, idGen 0] }),
     some (.obs { acts := [.plain (.info (idGen 2) true), .plain (.keys [[118]] false), .plain (.val none)],
                  outCk := some (some (idGen 2)), gens := [idGen 2], keys := [idGen 2, idGen 1, idGen 0] })]
    = some "handler-sees-keys-not-last-saved" := by decide
-- the hypothesis of `failed_load_leaves_no_trace` is met by the state in which the victim's request arrives
example : StRel cxCfg idGen (reqCtx {} cxVictim).st specInit := strel_init cxCfg idGen

example : isBad [idGen 0] {} (idGen 0) = sIsBad [idGen 0] specInit (idGen 0) :=
  isBad_eq_sIsBad (strel_init cxCfg idGen) _ _

end C15
