import FiberModel.C15.ConcModel
/-
C15 — the sequential model is the serial case of the model with overlapping requests: a request that
arrives, performs all its actions and returns while nothing else happens leaves the shared state exactly
as `handle` does, and a history of such requests ends in the state `run` computes.
-/
namespace C15
open B

/-- the serial schedule of one request -/
def serialOf (rid : Nat) (q : Req) : List Ev :=
  .start rid q :: (List.replicate q.script.length (.step rid) ++ [.finish rid])

def serialize : List Op → List Ev
  | [] => []
  | .adv d :: ops => .adv d :: serialize ops
  | .req q :: ops => serialOf 0 q ++ serialize ops

theorem withSt_self (h : HSt) : h.withSt h.c.st = h := rfl

theorem World.set_set (w : World) (a b : St) (rid : Nat) (x y : Option Fl) :
    (w.set a rid x).set b rid y = w.set b rid y := by
  simp only [World.set]
  congr 1
  funext i
  by_cases h : i = rid <;> simp [h]

theorem World.set_none_of_free (w : World) (st : St) (rid : Nat) (h : w.fl rid = none) :
    w.set st rid none = { st := st, fl := w.fl } := by
  simp only [World.set]
  congr 1
  funext i
  by_cases hi : i = rid
  · simp [hi, h]
  · simp [hi]

theorem crun_append (cfg : Cfg) (gen : Nat → Bytes) (w : World) (es es' : List Ev) :
    (crun cfg gen w (es ++ es')).1 = (crun cfg gen (crun cfg gen w es).1 es').1 := by
  induction es generalizing w with
  | nil => rfl
  | cons e es ih => simp only [List.cons_append, crun]; exact ih _

/-- the steps of one request, undisturbed, are `runScript` -/
theorem crun_steps (cfg : Cfg) (gen : Nat → Bytes) (w0 : World) (rid : Nat) (q : Req) :
    ∀ (as : List Act) (h : HSt),
      (crun cfg gen (w0.set h.c.st rid (some { q := q, h := h, todo := as }))
          (List.replicate as.length (.step rid))).1 =
        w0.set (runScript cfg gen h as).1.c.st rid (some { q := q, h := (runScript cfg gen h as).1, todo := [] }) := by
  intro as
  induction as with
  | nil => intro h; rfl
  | cons a as ih =>
    intro h
    simp only [List.length_cons, List.replicate_succ, crun, runScript]
    have hstep : (cstep cfg gen (w0.set h.c.st rid (some { q := q, h := h, todo := a :: as })) (.step rid)).1 =
        w0.set (act cfg gen h a).1.c.st rid (some { q := q, h := (act cfg gen h a).1, todo := as }) := by
      simp only [cstep, World.set, if_true]
      rw [withSt_self]
      congr 1
      funext i
      by_cases hi : i = rid <;> simp [hi]
    rw [hstep]
    exact ih _

/-- one request, undisturbed: the shared state afterwards is `handle`'s and no request is left in flight -/
theorem crun_serial (cfg : Cfg) (gen : Nat → Bytes) (w0 : World) (rid : Nat) (q : Req) (hfree : w0.fl rid = none) :
    (crun cfg gen w0 (serialOf rid q)).1 = { st := (handle cfg gen w0.st q).1, fl := w0.fl } := by
  unfold serialOf
  simp only [crun]
  have hstart : (cstep cfg gen w0 (.start rid q)).1 =
      w0.set (startReq cfg gen w0.st q).c.st rid (some { q := q, h := startReq cfg gen w0.st q, todo := q.script }) := by
    simp [cstep, hfree]
  rw [hstart, crun_append, crun_steps]
  simp only [crun, cstep, World.set, if_true]
  rw [withSt_self]
  have hh : (handle cfg gen w0.st q).1 = (endCtx cfg q (runScript cfg gen (startReq cfg gen w0.st q) q.script).1).st := rfl
  rw [hh]
  congr 1
  funext i
  by_cases hi : i = rid
  · simp [hi, hfree]
  · simp [hi]

/-- a history of requests one after the other: the serial schedule ends in the state `run` computes -/
theorem crun_serialize (cfg : Cfg) (gen : Nat → Bytes) (ops : List Op) (st : St) :
    (crun cfg gen { st := st } (serialize ops)).1 = { st := (run cfg gen st ops).1 } := by
  induction ops generalizing st with
  | nil => rfl
  | cons o ops ih =>
    cases o with
    | adv d =>
      simp only [serialize, crun, cstep, run, step]
      exact ih _
    | req q =>
      simp only [serialize, run, step]
      rw [crun_append, crun_serial cfg gen { st := st } 0 q rfl]
      exact ih _

end C15
