import FiberModel.C15.ConcModel
import FiberModel.C15.Dead
/-
C15 — the invariants of Invariants.lean and Dead.lean for overlapping requests: for every schedule (no
hypothesis on configuration, generator or domain) every storage key was issued, every pooled object is
clean, and an id that yields nothing and is never generated again stays dead.
-/
namespace C15
open B

section
variable {gen : Nat → Bytes} {cfg : Cfg}

/-- the sessions a request in flight holds are under issued ids -/
structure HIds (gen : Nat → Bytes) (n : Nat) (h : HSt) : Prop where
  mw : ∀ s, h.mw = some s → Issued gen n s.id
  cur : ∀ s, h.cur = .other s → Issued gen n s.id

theorem HIds.mono {n m : Nat} {h : HSt} (hi : HIds gen n h) (hnm : n ≤ m) : HIds gen m h :=
  ⟨fun s hs => (hi.mw s hs).mono hnm, fun s hs => (hi.cur s hs).mono hnm⟩

theorem hinv_withSt {st : St} {h : HSt} (hi : Inv gen st) (hh : HIds gen st.nid h) : HInv gen (h.withSt st) :=
  ⟨hi, hh.mw, hh.cur⟩

theorem hids_of_hinv {h : HSt} (hi : HInv gen h) : HIds gen h.c.st.nid h := ⟨hi.mw, hi.cur⟩

structure CInv (gen : Nat → Bytes) (w : World) : Prop where
  inv : Inv gen w.st
  fl : ∀ rid f, w.fl rid = some f → HIds gen w.st.nid f.h

theorem cinv_init : CInv gen {} := ⟨inv_init gen, by intro rid f h; cases h⟩

theorem CInv.set {w : World} (hi : CInv gen w) {st' : St} (hst : Inv gen st') (hn : w.st.nid ≤ st'.nid) (rid : Nat)
    {f : Option Fl} (hf : ∀ f', f = some f' → HIds gen st'.nid f'.h) : CInv gen (w.set st' rid f) := by
  refine ⟨hst, ?_⟩
  intro i f' hf'
  simp only [World.set] at hf'
  by_cases hi' : i = rid
  · simp only [hi', if_true] at hf'; exact hf f' hf'
  · simp only [hi', if_false] at hf'; exact (hi.fl i f' hf').mono hn

theorem endCtx_inv {h : HSt} (hi : HInv gen h) (q : Req) :
    Inv gen (endCtx cfg q h).st ∧ h.c.st.nid ≤ (endCtx cfg q h).st.nid := by
  unfold endCtx
  split
  · exact mwFinish_inv cfg hi
  · exact ⟨hi.inv, Nat.le_refl _⟩

theorem cstep_inv {w : World} (hi : CInv gen w) (e : Ev) : CInv gen (cstep cfg gen w e).1 := by
  cases e with
  | adv d => exact ⟨⟨hi.inv.1, hi.inv.2⟩, hi.fl⟩
  | start rid q =>
    simp only [cstep]
    split
    · exact hi
    · have h0 := startReq_hinv cfg hi.inv q
      exact hi.set h0.1.inv h0.2 rid (by intro f' hf'; cases hf'; exact hids_of_hinv h0.1)
  | step rid =>
    simp only [cstep]
    split
    · exact hi
    · rename_i f hf
      split
      · exact hi
      · rename_i a rest _
        have hh := hinv_withSt hi.inv (hi.fl rid f hf)
        have ha := act_inv cfg hh a
        exact hi.set ha.1.inv ha.2 rid (by intro f' hf'; cases hf'; exact hids_of_hinv ha.1)
  | finish rid =>
    simp only [cstep]
    split
    · exact hi
    · rename_i f hf
      split
      · exact hi
      · have hh := hinv_withSt hi.inv (hi.fl rid f hf)
        have he := endCtx_inv (cfg := cfg) hh f.q
        exact hi.set he.1 he.2 rid (by intro f' hf'; cases hf')

theorem crun_inv (es : List Ev) {w : World} (hi : CInv gen w) : CInv gen (crun cfg gen w es).1 := by
  induction es generalizing w with
  | nil => exact hi
  | cons e es ih => simp only [crun]; exact ih (cstep_inv hi e)

/-! ### dead ids -/

/-- nothing a request in flight holds refers to `id` -/
structure FDead (id : Bytes) (h : HSt) : Prop where
  locals : ∀ i, h.c.locals = some i → i ≠ id
  mw : ∀ s, h.mw = some s → s.id ≠ id
  cur : ∀ s, h.cur = .other s → s.id ≠ id

structure CDead (gen : Nat → Bytes) (id : Bytes) (w : World) : Prop where
  get : w.st.get id = none
  never : NeverGen gen w.st.nid id
  fl : ∀ rid f, w.fl rid = some f → FDead id f.h

theorem deadh_withSt {id : Bytes} {st : St} {h : HSt} (hg : st.get id = none) (hn : NeverGen gen st.nid id)
    (hf : FDead id h) : DeadH gen id (h.withSt st) :=
  ⟨⟨hg, hn, hf.locals⟩, hf.mw, hf.cur⟩

theorem fdead_of_deadh {id : Bytes} {h : HSt} (hd : DeadH gen id h) : FDead id h :=
  ⟨hd.c.locals, hd.mw, hd.cur⟩

theorem CDead.set {id : Bytes} {w : World} (hd : CDead gen id w) {st' : St} (hg : st'.get id = none)
    (hn : NeverGen gen st'.nid id) (rid : Nat) {f : Option Fl} (hf : ∀ f', f = some f' → FDead id f'.h) :
    CDead gen id (w.set st' rid f) := by
  refine ⟨hg, hn, ?_⟩
  intro i f' hf'
  simp only [World.set] at hf'
  by_cases hi' : i = rid
  · simp only [hi', if_true] at hf'; exact hf f' hf'
  · simp only [hi', if_false] at hf'; exact hd.fl i f' hf'

theorem startReq_dead {id : Bytes} {st : St} (hg : st.get id = none) (hn : NeverGen gen st.nid id) (q : Req) :
    DeadH gen id (startReq cfg gen st q) := by
  have hc0 : DeadC gen id ({ st := st, ck := q.ck, hd := q.hd, qr := q.qr } : RCtx) :=
    ⟨hg, hn, by intro i hi; cases hi⟩
  unfold startReq
  simp only
  split
  · have := dead_getSession (cfg := cfg) hc0
    refine ⟨this.1, ?_, ?_⟩
    · intro s hs; simp only [Option.some.injEq] at hs; subst hs; exact this.2
    · intro s hs; cases hs
  · exact ⟨hc0, (by intro s hs; cases hs), (by intro s hs; cases hs)⟩

theorem endCtx_dead {id : Bytes} {h : HSt} (hd : DeadH gen id h) (q : Req) :
    (endCtx cfg q h).st.get id = none ∧ NeverGen gen (endCtx cfg q h).st.nid id := by
  unfold endCtx
  split
  · unfold mwFinish
    split
    · rename_i s hs
      split
      · exact ⟨hd.c.get, hd.c.never⟩
      · have := dead_save (cfg := cfg) hd.c (hd.mw s hs)
        exact ⟨(get_congr (st := (sessSave cfg _ s).1.st) rfl rfl id).trans this.1.get, this.1.never⟩
    · exact ⟨hd.c.get, hd.c.never⟩
  · exact ⟨hd.c.get, hd.c.never⟩

theorem cstep_dead {id : Bytes} {w : World} (hd : CDead gen id w) (e : Ev) : CDead gen id (cstep cfg gen w e).1 := by
  cases e with
  | adv d => exact ⟨get_adv_none hd.get d, hd.never, hd.fl⟩
  | start rid q =>
    simp only [cstep]
    split
    · exact hd
    · have h0 := startReq_dead (cfg := cfg) hd.get hd.never q
      exact hd.set h0.c.get h0.c.never rid (by intro f' hf'; cases hf'; exact fdead_of_deadh h0)
  | step rid =>
    simp only [cstep]
    split
    · exact hd
    · rename_i f hf
      split
      · exact hd
      · rename_i a rest _
        have hh := deadh_withSt hd.get hd.never (hd.fl rid f hf)
        have ha := act_dead (cfg := cfg) hh a
        exact hd.set ha.c.get ha.c.never rid (by intro f' hf'; cases hf'; exact fdead_of_deadh ha)
  | finish rid =>
    simp only [cstep]
    split
    · exact hd
    · rename_i f hf
      split
      · exact hd
      · have hh := deadh_withSt hd.get hd.never (hd.fl rid f hf)
        have he := endCtx_dead (cfg := cfg) hh f.q
        exact hd.set he.1 he.2 rid (by intro f' hf'; cases hf')

theorem crun_dead {id : Bytes} (es : List Ev) {w : World} (hd : CDead gen id w) :
    CDead gen id (crun cfg gen w es).1 := by
  induction es generalizing w with
  | nil => exact hd
  | cons e es ih => simp only [crun]; exact ih (cstep_dead hd e)

end

end C15
