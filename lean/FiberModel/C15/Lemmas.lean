import FiberModel.C15.Spec
/-
C15 — helper lemmas: association lists (`lookup/put/erase`), storage frame rules, `merge`.
-/
namespace C15
open B

/-! ### association lists -/

theorem erase_cons (e : Bytes × α) (rest : List (Bytes × α)) (k : Bytes) :
    erase (e :: rest) k = if e.1 = k then erase rest k else e :: erase rest k := by
  by_cases h : e.1 = k <;> simp [erase, List.filter, h]

theorem lookup_cons (k0 : Bytes) (v : α) (rest : List (Bytes × α)) (k : Bytes) :
    lookup ((k0, v) :: rest) k = if k0 = k then some v else lookup rest k := rfl

theorem lookup_erase_self (s : List (Bytes × α)) (k : Bytes) : lookup (erase s k) k = none := by
  induction s with
  | nil => rfl
  | cons e rest ih =>
    obtain ⟨k', v⟩ := e
    rw [erase_cons]
    by_cases h : k' = k
    · simp [h, ih]
    · simp [h, lookup_cons, ih]

theorem lookup_erase_ne (s : List (Bytes × α)) (k k' : Bytes) (h : k' ≠ k) :
    lookup (erase s k) k' = lookup s k' := by
  induction s with
  | nil => rfl
  | cons e rest ih =>
    obtain ⟨k0, v⟩ := e
    rw [erase_cons]
    by_cases h0 : k0 = k
    · subst h0
      have : k0 ≠ k' := fun e => h e.symm
      simp [lookup_cons, this, ih]
    · by_cases h1 : k0 = k'
      · subst h1; simp [h0, lookup_cons]
      · simp [h0, lookup_cons, h1, ih]

theorem lookup_put_self (s : List (Bytes × α)) (k : Bytes) (v : α) : lookup (put s k v) k = some v := by
  simp [put, lookup]

theorem lookup_put_ne (s : List (Bytes × α)) (k k' : Bytes) (v : α) (h : k' ≠ k) :
    lookup (put s k v) k' = lookup s k' := by
  have : k ≠ k' := fun e => h e.symm
  simp [put, lookup, this, lookup_erase_ne s k k' h]

theorem mem_erase {s : List (Bytes × α)} {k : Bytes} {e : Bytes × α} (h : e ∈ erase s k) : e ∈ s ∧ e.1 ≠ k := by
  simpa [erase] using h

theorem mem_put {s : List (Bytes × α)} {k : Bytes} {v : α} {e : Bytes × α} (h : e ∈ put s k v) :
    e = (k, v) ∨ (e ∈ s ∧ e.1 ≠ k) := by
  simp only [put, List.mem_cons] at h
  rcases h with h | h
  · exact Or.inl h
  · exact Or.inr (mem_erase h)

theorem lookup_some_mem {s : List (Bytes × α)} {k : Bytes} {v : α} (h : lookup s k = some v) : (k, v) ∈ s := by
  induction s with
  | nil => simp [lookup] at h
  | cons e rest ih =>
    obtain ⟨k0, v0⟩ := e
    by_cases h0 : k0 = k
    · simp [lookup, h0] at h; subst h0; subst h; simp
    · simp [lookup, h0] at h; exact List.mem_cons_of_mem _ (ih h)

/-! ### merge (gob decode into an existing map) -/

theorem lookup_foldr_put (l base : KV) (k : Bytes) :
    lookup (l.foldr (fun e acc => put acc e.1 e.2) base) k = (lookup l k).orElse (fun _ => lookup base k) := by
  induction l with
  | nil => simp [lookup]
  | cons e rest ih =>
    obtain ⟨k0, v0⟩ := e
    by_cases h : k0 = k
    · subst h; simp [lookup, lookup_put_self]
    · have h' : k ≠ k0 := fun e => h e.symm
      simp [lookup, h, lookup_put_ne _ _ _ _ h', ih]

/-- decoding into an empty map yields, key by key, exactly what was stored -/
theorem merge_empty_lookup (blob : SData) (k : Bytes) : lookup (SData.empty.merge blob).kv k = lookup blob.kv k := by
  simp only [SData.merge, SData.empty, lookup_foldr_put]
  cases lookup blob.kv k <;> simp [lookup]

theorem merge_empty_abs (blob : SData) : (SData.empty.merge blob).abs = blob.abs := by
  simp only [SData.merge, SData.empty]
  cases blob.abs <;> rfl

/-- decoding into a map that still holds entries keeps them: the reason `release` must clear -/
theorem merge_keeps_leftovers (base blob : SData) (k : Bytes) (h : lookup blob.kv k = none) :
    lookup (base.merge blob).kv k = lookup base.kv k := by
  simp [SData.merge, lookup_foldr_put, h]

/-! ### association lists without repeated keys -/

/-- no key occurs twice -/
def NoDupKeys : List (Bytes × α) → Prop
  | [] => True
  | e :: rest => lookup rest e.1 = none ∧ NoDupKeys rest

theorem erase_of_lookup_none {s : List (Bytes × α)} {k : Bytes} (h : lookup s k = none) : erase s k = s := by
  induction s with
  | nil => rfl
  | cons e rest ih =>
    obtain ⟨k0, v0⟩ := e
    rw [erase_cons]
    by_cases h0 : k0 = k
    · simp [lookup, h0] at h
    · simp only [h0, if_false]
      simp [lookup, h0] at h
      rw [ih h]

theorem lookup_erase_none {s : List (Bytes × α)} {k k' : Bytes} (h : lookup s k' = none) :
    lookup (erase s k) k' = none := by
  by_cases hk : k' = k
  · subst hk; exact lookup_erase_self s k'
  · rw [lookup_erase_ne s k k' hk]; exact h

theorem nodup_erase {s : List (Bytes × α)} (h : NoDupKeys s) (k : Bytes) : NoDupKeys (erase s k) := by
  induction s with
  | nil => exact h
  | cons e rest ih =>
    rw [erase_cons]
    split
    · exact ih h.2
    · exact ⟨lookup_erase_none h.1, ih h.2⟩

theorem nodup_put {s : List (Bytes × α)} (h : NoDupKeys s) (k : Bytes) (v : α) : NoDupKeys (put s k v) :=
  ⟨lookup_erase_self s k, nodup_erase h k⟩

theorem lookup_of_mem_nodup {s : List (Bytes × α)} (h : NoDupKeys s) {k : Bytes} {v : α} (hm : (k, v) ∈ s) :
    lookup s k = some v := by
  induction s with
  | nil => simp at hm
  | cons e rest ih =>
    obtain ⟨k0, v0⟩ := e
    simp only [List.mem_cons] at hm
    rcases hm with hm | hm
    · cases hm; simp [lookup]
    · have hr := ih h.2 hm
      by_cases h0 : k0 = k
      · subst h0
        have := h.1
        simp only at this
        rw [this] at hr
        cases hr
      · simp [lookup, h0, hr]

/-- decoding a stored map into an EMPTY map reproduces it exactly -/
theorem foldr_put_nil_of_nodup {l : KV} (h : NoDupKeys l) :
    l.foldr (fun e acc => put acc e.1 e.2) [] = l := by
  induction l with
  | nil => rfl
  | cons e rest ih =>
    simp only [List.foldr_cons]
    rw [ih h.2]
    simp only [put]
    rw [erase_of_lookup_none h.1]

theorem merge_empty_of_nodup {blob : SData} (h : NoDupKeys blob.kv) : SData.empty.merge blob = blob := by
  cases blob with
  | mk kv abs =>
    simp only [SData.merge, SData.empty]
    rw [foldr_put_nil_of_nodup h]
    cases abs <;> rfl

/-! ### the harness' key generator -/

theorem natToDec_inj {n m : Nat} (h : natToDec n = natToDec m) : n = m := by
  unfold natToDec at h
  have hn : (toString n).toList = Nat.toDigits 10 n := Nat.toList_repr
  have hm : (toString m).toList = Nat.toDigits 10 m := Nat.toList_repr
  rw [hn, hm] at h
  have h2 : Nat.toDigits 10 n = Nat.toDigits 10 m :=
    (List.map_inj_right (fun a b hab => Char.toNat_inj.mp hab)).mp h
  have := Nat.ofDigitChars_toDigits (b := 10) (n := n) (by omega) (by omega)
  rw [h2, Nat.ofDigitChars_toDigits (by omega) (by omega)] at this
  exact this.symm

theorem idGen_inj {i j : Nat} (h : idGen i = idGen j) : i = j := by
  unfold idGen at h
  have := natToDec_inj (List.append_cancel_left h)
  omega

theorem idGen_ne_nil (i : Nat) : idGen i ≠ [] := by
  unfold idGen
  intro h
  have := congrArg List.length h
  simp [b] at this

end C15
