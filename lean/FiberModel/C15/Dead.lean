import FiberModel.C15.Refine
/-
C15 — an id that yields nothing stays that way: if the storage has no live entry under `id` at a request
boundary and the generator will not hand `id` out later, then no sequence of requests and time steps makes
`id` yield data again (no handler ever holds a session under it, so nothing is ever saved under it).
Covers forged ids, destroyed / regenerated / reset ids and expired ids alike. No hypothesis on the
configuration, the generator or the domain.
-/
namespace C15
open B

/-- the generator does not return `id` from its `n`-th call on -/
def NeverGen (gen : Nat → Bytes) (n : Nat) (id : Bytes) : Prop := ∀ i, n ≤ i → gen i ≠ id

theorem NeverGen.mono {gen : Nat → Bytes} {n m : Nat} {id : Bytes} (h : NeverGen gen n id) (hnm : n ≤ m) :
    NeverGen gen m id := fun i hi => h i (Nat.le_trans hnm hi)

/-! ### `Storage.Get` after the storage primitives -/

theorem get_congr {st st' : St} (hs : st'.store = st.store) (hn : st'.now = st.now) (id : Bytes) :
    st'.get id = st.get id := by
  unfold St.get; rw [hs, hn]

theorem get_del_self (st : St) (x : Bytes) : (st.del x).get x = none := by
  unfold St.del St.get
  by_cases hx : x = []
  · simp [hx]
  · simp [hx, lookup_erase_self]

theorem get_del_ne (st : St) {x id : Bytes} (h : id ≠ x) : (st.del x).get id = st.get id := by
  unfold St.del St.get
  by_cases hx : x = []
  · simp [hx]
  · simp only [hx, if_false]
    rw [lookup_erase_ne _ _ _ h]

theorem get_del_none {st : St} {id : Bytes} (h : st.get id = none) (x : Bytes) : (st.del x).get id = none := by
  by_cases hx : id = x
  · subst hx; exact get_del_self st id
  · rw [get_del_ne st hx]; exact h

theorem get_set_ne (st : St) {x id : Bytes} (h : id ≠ x) (d : SData) (ttl : Nat) :
    (st.set x d ttl).get id = st.get id := by
  unfold St.set St.get
  by_cases hx : x = []
  · simp [hx]
  · simp only [hx, if_false]
    rw [lookup_put_ne _ _ _ _ h]

theorem get_set_self (st : St) {x : Bytes} (hx : x ≠ []) (d : SData) {ttl : Nat} (httl : 0 < ttl) :
    (st.set x d ttl).get x = some d := by
  have : ttl ≠ 0 := by omega
  unfold St.set St.get
  simp only [hx, if_false, lookup_put_self, this]
  simp [Entry.live]
  omega

theorem get_adv_none {st : St} {id : Bytes} (h : st.get id = none) (d : Nat) :
    ({ st with now := st.now + d } : St).get id = none := by
  unfold St.get at h ⊢
  by_cases hid : id = []
  · simp [hid]
  · simp only [hid, if_false] at h ⊢
    cases hl : lookup st.store id with
    | none => simp
    | some e =>
      simp only [hl] at h ⊢
      cases hlive : e.live st.now with
      | true => simp [hlive] at h
      | false =>
        have : e.live (st.now + d) = false := by
          unfold Entry.live at hlive ⊢
          cases hd : e.deadline with
          | none => simp [hd] at hlive
          | some dl => simp [hd] at hlive ⊢; omega
        simp [this]

/-! ### request contexts and handler states in which `id` is dead -/

structure DeadC (gen : Nat → Bytes) (id : Bytes) (c : RCtx) : Prop where
  get : c.st.get id = none
  never : NeverGen gen c.st.nid id
  locals : ∀ i, c.locals = some i → i ≠ id

theorem setSession_locals (cfg : Cfg) (c : RCtx) (s : Sess) : (setSession cfg c s).locals = c.locals := by
  unfold setSession; split
  · rfl
  · split <;> rfl

theorem delSession_locals (cfg : Cfg) (c : RCtx) (s : Sess) : (delSession cfg c s).locals = c.locals := by
  unfold delSession; split
  · rfl
  · split <;> rfl

theorem sessSave_locals (cfg : Cfg) (c : RCtx) (s : Sess) : (sessSave cfg c s).1.locals = c.locals := by
  unfold sessSave; split <;> simp [setSession_locals]

theorem sessDestroy_locals (cfg : Cfg) (c : RCtx) (s : Sess) : (sessDestroy cfg c s).1.locals = c.locals := by
  simp [sessDestroy, delSession_locals]

theorem sessRegenerate_locals (gen : Nat → Bytes) (c : RCtx) (s : Sess) :
    (sessRegenerate gen c s).1.locals = c.locals := by
  simp [sessRegenerate, newID]

theorem sessReset_locals (cfg : Cfg) (gen : Nat → Bytes) (c : RCtx) (s : Sess) :
    (sessReset cfg gen c s).1.locals = c.locals := by
  simp [sessReset, newID, delSession_locals]

section dead
variable {gen : Nat → Bytes} {id : Bytes} {cfg : Cfg}

theorem dead_save {c : RCtx} (h : DeadC gen id c) {s : Sess} (hs : s.id ≠ id) :
    DeadC gen id (sessSave cfg c s).1 ∧ (sessSave cfg c s).2.id ≠ id := by
  refine ⟨⟨?_, ?_, ?_⟩, ?_⟩
  · rw [sessSave_st, get_set_ne _ (fun e => hs e.symm)]; exact h.get
  · rw [sessSave_st]; simpa using h.never
  · rw [sessSave_locals]; exact h.locals
  · rw [sessSave_snd]; exact hs

theorem dead_destroy {c : RCtx} (h : DeadC gen id c) (s : Sess) (hs : s.id ≠ id) :
    DeadC gen id (sessDestroy cfg c s).1 ∧ (sessDestroy cfg c s).2.id ≠ id := by
  refine ⟨⟨?_, ?_, ?_⟩, hs⟩
  · rw [sessDestroy_st]; exact get_del_none h.get _
  · rw [sessDestroy_st]; simpa using h.never
  · rw [sessDestroy_locals]; exact h.locals

theorem dead_regenerate {c : RCtx} (h : DeadC gen id c) (s : Sess) :
    DeadC gen id (sessRegenerate gen c s).1 ∧ (sessRegenerate gen c s).2.id ≠ id := by
  refine ⟨⟨?_, ?_, ?_⟩, ?_⟩
  · rw [sessRegenerate_st]; exact (get_congr (st := c.st.del s.id) rfl rfl id).trans (get_del_none h.get _)
  · rw [sessRegenerate_st]; exact h.never.mono (by simp)
  · rw [sessRegenerate_locals]; exact h.locals
  · rw [sessRegenerate_snd]; exact h.never _ (Nat.le_refl _)

theorem dead_reset {c : RCtx} (h : DeadC gen id c) (s : Sess) :
    DeadC gen id (sessReset cfg gen c s).1 ∧ (sessReset cfg gen c s).2.id ≠ id := by
  refine ⟨⟨?_, ?_, ?_⟩, ?_⟩
  · rw [sessReset_st]; exact (get_congr (st := c.st.del s.id) rfl rfl id).trans (get_del_none h.get _)
  · rw [sessReset_st]; exact h.never.mono (by simp)
  · rw [sessReset_locals]; exact h.locals
  · rw [sessReset_snd]; exact h.never _ (Nat.le_refl _)

theorem dead_acquire {c : RCtx} (h : DeadC gen id c) : DeadC gen id (acquire c).1 := by
  obtain ⟨h1, h2, h3, _, _⟩ := acquire_spec c
  obtain ⟨_, _, _, h4, _, _⟩ := acquire_fields c
  exact ⟨by rw [get_congr h2 h3]; exact h.get, by rw [h1]; exact h.never, by rw [h4]; exact h.locals⟩

theorem dead_finishLoad {c : RCtx} (h : DeadC gen id c) {s : Sess} (hs : s.id ≠ id) :
    DeadC gen id (finishLoad cfg gen c s).1 ∧ (finishLoad cfg gen c s).2.id ≠ id := by
  unfold finishLoad
  split
  · exact ⟨h, hs⟩
  · split
    · have := dead_reset (cfg := cfg) h s
      exact ⟨this.1, this.2⟩
    · exact ⟨h, hs⟩

theorem dead_getSession {c : RCtx} (h : DeadC gen id c) :
    DeadC gen id (getSession cfg gen c).1 ∧ (getSession cfg gen c).2.id ≠ id := by
  cases hg : c.st.get (lookupId cfg c) with
  | none =>
    rw [getSession_none hg]
    apply dead_finishLoad
    · apply dead_acquire
      refine ⟨?_, ?_, ?_⟩
      · rw [afterNew_st]; exact (get_congr (st := c.st) rfl rfl id).trans h.get
      · rw [afterNew_st]; exact h.never.mono (by simp)
      · intro i hi
        simp only [afterNew, newID, Option.some.injEq] at hi
        rw [← hi]; exact h.never _ (Nat.le_refl _)
    · exact h.never _ (Nat.le_refl _)
  | some blob =>
    rw [getSession_some hg]
    apply dead_finishLoad (dead_acquire h)
    intro e
    have e' : lookupId cfg c = id := e
    rw [e', h.get] at hg
    cases hg

theorem dead_getByID {c : RCtx} (h : DeadC gen id c) (x : Bytes) :
    DeadC gen id (getByID cfg c x).1 ∧ ∀ s, (getByID cfg c x).2 = .ok s → s.id ≠ id := by
  unfold getByID
  split
  · exact ⟨h, by intro s hs; cases hs⟩
  · cases hg : c.st.get x with
    | none => exact ⟨h, by intro s hs; cases hs⟩
    | some blob =>
      have hx : x ≠ id := by intro e; rw [e, h.get] at hg; cases hg
      simp only
      split
      · exact ⟨(dead_destroy (cfg := cfg) (dead_acquire h)
          { id := x, data := (acquire c).2.merge blob, fresh := false, hasCtx := false } hx).1, by intro s hs; cases hs⟩
      · refine ⟨dead_acquire h, ?_⟩
        intro s hs
        simp only [Except.ok.injEq] at hs
        rw [← hs]; exact hx

/-- no handler variable refers to a session under `id` -/
structure DeadH (gen : Nat → Bytes) (id : Bytes) (h : HSt) : Prop where
  c : DeadC gen id h.c
  mw : ∀ s, h.mw = some s → s.id ≠ id
  cur : ∀ s, h.cur = .other s → s.id ≠ id

theorem DeadH.sess {h : HSt} (hd : DeadH gen id h) {s : Sess} (hs : h.sess = some s) : s.id ≠ id := by
  unfold HSt.sess at hs
  split at hs
  · cases hs
  · exact hd.mw s hs
  · rename_i s' hc
    simp only [Option.some.injEq] at hs
    subst hs
    exact hd.cur _ hc

theorem DeadH.put {h : HSt} (hd : DeadH gen id h) {c' : RCtx} (hc : DeadC gen id c') {s' : Sess} (hs : s'.id ≠ id) :
    DeadH gen id (({ h with c := c' } : HSt).putSess s') := by
  unfold HSt.putSess
  split
  · exact ⟨hc, hd.mw, hd.cur⟩
  · refine ⟨hc, ?_, ?_⟩
    · intro s0 hs0; simp only [Option.some.injEq] at hs0; subst hs0; exact hs
    · intro s0 hs0; rename_i hcur; simp only at hcur; rw [hcur] at hs0; cases hs0
  · refine ⟨hc, hd.mw, ?_⟩
    intro s0 hs0; simp only [Cur.other.injEq] at hs0; subst hs0; exact hs

theorem act_dead {h : HSt} (hd : DeadH gen id h) (a : Act) : DeadH gen id (act cfg gen h a).1 := by
  cases a with
  | storeGet =>
    simp only [act]
    split
    · exact hd
    · have := dead_getSession (cfg := cfg) hd.c
      refine ⟨this.1, hd.mw, ?_⟩
      intro s hs; simp only [Cur.other.injEq] at hs; subst hs; exact this.2
  | byID x =>
    simp only [act]
    have hg := dead_getByID (cfg := cfg) hd.c x
    split
    · rename_i c e heq
      have : (getByID cfg h.c x).1 = c := by rw [heq]
      subst this
      exact ⟨hg.1, hd.mw, hd.cur⟩
    · rename_i c s heq
      have h1 : (getByID cfg h.c x).1 = c := by rw [heq]
      have h2 : (getByID cfg h.c x).2 = .ok s := by rw [heq]
      subst h1
      refine ⟨hg.1, hd.mw, ?_⟩
      intro s' hs'; simp only [Cur.other.injEq] at hs'; subst hs'; exact hg.2 s h2
  | storeDelete x =>
    simp only [act]
    split
    · exact hd
    · exact ⟨⟨get_del_none hd.c.get x, by simpa using hd.c.never, hd.c.locals⟩, hd.mw, hd.cur⟩
  | storeReset =>
    simp only [act]
    refine ⟨⟨?_, hd.c.never, hd.c.locals⟩, hd.mw, hd.cur⟩
    simp [St.get, lookup]
  | info | get k | keys =>
    simp only [act]
    split <;> exact hd
  | set k v | del k | idle secs =>
    simp only [act]
    split
    · exact hd
    · rename_i s hs
      have hne : s.id ≠ id := hd.sess hs
      exact hd.put (c' := h.c) hd.c hne
  | destroy =>
    simp only [act]
    split
    · exact hd
    · rename_i s hs
      have := dead_destroy (cfg := cfg) hd.c s (hd.sess hs)
      have hp := hd.put this.1 this.2
      split
      · exact ⟨hp.c, hp.mw, hp.cur⟩
      · exact hp
  | regenerate =>
    simp only [act]
    split
    · exact hd
    · rename_i s hs
      have := dead_regenerate hd.c s
      exact hd.put this.1 this.2
  | reset =>
    simp only [act]
    split
    · exact hd
    · rename_i s hs
      have := dead_reset (cfg := cfg) hd.c s
      exact hd.put this.1 this.2
  | save =>
    simp only [act]
    split
    · exact hd
    · rename_i s hs
      split
      · exact hd
      · have := dead_save (cfg := cfg) hd.c (hd.sess hs)
        exact hd.put this.1 this.2
  | release =>
    simp only [act]
    split
    · exact hd
    · rename_i s hs
      split
      · exact hd
      · refine ⟨⟨?_, hd.c.never, hd.c.locals⟩, hd.mw, ?_⟩
        · exact (get_congr (st := h.c.st) rfl rfl id).trans hd.c.get
        · intro s' hs'; cases hs'

theorem runScript_dead (as : List Act) {h : HSt} (hd : DeadH gen id h) : DeadH gen id (runScript cfg gen h as).1 := by
  induction as generalizing h with
  | nil => exact hd
  | cons a as ih => simp only [runScript]; exact ih (act_dead hd a)

/-- a whole request keeps a dead id dead -/
theorem handle_dead {st : St} (hg : st.get id = none) (hn : NeverGen gen st.nid id) (q : Req) :
    (handle cfg gen st q).1.get id = none ∧ NeverGen gen (handle cfg gen st q).1.nid id := by
  have hc0 : DeadC gen id ({ st := st, ck := q.ck, hd := q.hd, qr := q.qr } : RCtx) :=
    ⟨hg, hn, by intro i hi; cases hi⟩
  have h0 : DeadH gen id (startReq cfg gen st q) := by
    unfold startReq
    simp only
    split
    · have := dead_getSession (cfg := cfg) hc0
      refine ⟨this.1, ?_, ?_⟩
      · intro s hs; simp only [Option.some.injEq] at hs; subst hs; exact this.2
      · intro s hs; cases hs
    · exact ⟨hc0, (by intro s hs; cases hs), (by intro s hs; cases hs)⟩
  have h1 := runScript_dead (cfg := cfg) q.script h0
  unfold handle
  simp only
  split
  · unfold mwFinish
    split
    · rename_i s hs
      split
      · exact ⟨h1.c.get, h1.c.never⟩
      · have := dead_save (cfg := cfg) h1.c (h1.mw s hs)
        exact ⟨(get_congr (st := (sessSave cfg _ s).1.st) rfl rfl id).trans this.1.get, this.1.never⟩
    · exact ⟨h1.c.get, h1.c.never⟩
  · exact ⟨h1.c.get, h1.c.never⟩

/-- … and so does every history -/
theorem run_dead (ops : List Op) {st : St} (hg : st.get id = none) (hn : NeverGen gen st.nid id) :
    (run cfg gen st ops).1.get id = none := by
  induction ops generalizing st with
  | nil => exact hg
  | cons o ops ih =>
    simp only [run]
    cases o with
    | adv d => exact ih (st := { st with now := st.now + d }) (get_adv_none hg d) hn
    | req q =>
      have := handle_dead (cfg := cfg) hg hn q
      exact ih this.1 this.2

end dead

end C15
