import FiberModel.C15.Model
/-
C15 — overlapping requests. The handler actions of different requests interleave: a *schedule* is a list
of events `start rid q` (the request arrives; behind the middleware `initialize` loads the session),
`step rid` (request `rid` performs its next handler action), `finish rid` (its handler returns; behind the
middleware the session is auto-saved and released; the reply is observed) and `adv secs`.
Every event is atomic on the shared state (storage, key generator, pools) — which is what the locks of
session.go / data.go / memory.go and `sync.Pool` provide — while ID, data map, Fresh flag, cookies and
Locals are private to the request. Ill-formed events (unknown or duplicate `rid`, `step` past the end of
the script, `finish` before it) leave everything unchanged.
-/
namespace C15
open B

/-- a handler state looking at the current shared state -/
def HSt.withSt (h : HSt) (st : St) : HSt := { h with c := { h.c with st := st } }

/-- a request in flight; `h.c.st` is the shared state as of this request's last event -/
structure Fl where
  q : Req
  h : HSt
  todo : List Act

structure World where
  st : St := {}
  fl : Nat → Option Fl := fun _ => none

inductive Ev where
  | adv (secs : Nat)
  | start (rid : Nat) (q : Req)
  | step (rid : Nat)
  | finish (rid : Nat)

/-- what is observed of one event -/
inductive CObs where
  | none
  | started (gens : List Bytes)                       -- generator outputs while the request was set up
  | stepped (o : AObs) (gens : List Bytes)            -- the action's result, generator outputs during it
  | finished (outCk : Option (Option Bytes)) (outHd : Option Bytes) (keys : List Bytes)
  deriving Repr, DecidableEq

def World.set (w : World) (st : St) (rid : Nat) (f : Option Fl) : World :=
  { st := st, fl := fun i => if i = rid then f else w.fl i }

def cstep (cfg : Cfg) (gen : Nat → Bytes) (w : World) : Ev → World × CObs
  | .adv d => ({ w with st := { w.st with now := w.st.now + d } }, .none)
  | .start rid q =>
    match w.fl rid with
    | some _ => (w, .none)
    | none =>
      let h := startReq cfg gen w.st q
      (w.set h.c.st rid (some { q := q, h := h, todo := q.script }), .started (gensBetween gen w.st.nid h.c.st.nid))
  | .step rid =>
    match w.fl rid with
    | none => (w, .none)
    | some f =>
      match f.todo with
      | [] => (w, .none)
      | a :: rest =>
        let r := act cfg gen (f.h.withSt w.st) a
        (w.set r.1.c.st rid (some { f with h := r.1, todo := rest }),
         .stepped r.2 (gensBetween gen w.st.nid r.1.c.st.nid))
  | .finish rid =>
    match w.fl rid with
    | none => (w, .none)
    | some f =>
      match f.todo with
      | _ :: _ => (w, .none)
      | [] =>
        let c := endCtx cfg f.q (f.h.withSt w.st)
        (w.set c.st rid none, .finished c.outCk c.outHd c.st.liveKeys)

def crun (cfg : Cfg) (gen : Nat → Bytes) : World → List Ev → World × List CObs
  | w, [] => (w, [])
  | w, e :: es =>
    let r := cstep cfg gen w e
    let rs := crun cfg gen r.1 es
    (rs.1, r.2 :: rs.2)

end C15
