import FiberModel.C15.Model
/-
C15 — the property as an executable oracle: an abstract session table `id ↦ (last saved data, idle
deadline, absolute deadline)` plus the set of ids the server's generator produced. The oracle walks a
history, interprets every handler action on the abstract table, and compares what the handler
observed (ID, Fresh, values, keys), what the reply carried and which keys the storage holds with what
the sentence prescribes. New ids are taken, in order, from the generator outputs observed during the
request (so the oracle never guesses an id and never adopts one from the client).

Reading of the sentence fixed here (docs/C15.md):
* "the session id its request presents": the cookie named like the session if there is one, else the
  configured header / query parameter (this precedence is what `getSessionID` documents);
* a session is unexpired while `now < last save + idle timeout` and `now ≤ creation + AbsoluteTimeout`;
  `Regenerate` continues the session (data and absolute deadline) under a new id, `Reset` starts a new
  one (empty, new absolute deadline);
* Fresh = the session's id was generated during this request;
* a request may look its session up several times (`store.Get` in a guard middleware and again in the
  handler): every lookup uses the id the server generated for this request if an earlier lookup generated
  one (the request is "the client that was just given that id"), else the id the request presents; Fresh
  and a (re)started absolute lifetime are reported only for an id generated during this request;
* `Destroy`/`Reset` of a request-bound session withdraw the session cookie (header) from the request as
  well, so later lookups of the same request no longer present it; saving a request-bound session with a
  header source puts its id into the request header;
* domain: a handler does not `Save` a session it has destroyed (the oracle answers `outside-domain: …`).
-/
namespace C15
open B

structure SEntry where
  data : KV
  idleDeadline : Nat
  absDeadline : Option Nat
  deriving Repr, DecidableEq

/-- within the absolute lifetime -/
def SEntry.absOK (e : SEntry) (now : Nat) : Bool :=
  match e.absDeadline with | some a => decide (now ≤ a) | none => true

def SEntry.live (e : SEntry) (now : Nat) : Bool := decide (now < e.idleDeadline) && e.absOK now

structure SpecSt where
  now : Nat := 0
  sessions : List (Bytes × SEntry) := []
  issued : List Bytes := []

def specInit : SpecSt := {}

/-- what a handler holds, abstractly -/
structure View where
  id : Bytes
  data : KV
  fresh : Bool
  abs : Option Nat
  idle : Option Nat := none      -- SetIdleTimeout for the next save
  destroyed : Bool := false
  ctx : Bool := true             -- bound to the request (`store.Get`, middleware); `GetByID` sessions are not
  deriving Repr, DecidableEq

inductive SCur where
  | none | mw | other (v : View)
  deriving Repr, DecidableEq

/-- what a request presents: the cookie named like the session, the header, the query parameter -/
structure Pres where
  ck : Bytes
  hd : Bytes
  qr : Bytes
  deriving Repr, DecidableEq

structure SReq where
  s : SpecSt
  gens : List Bytes              -- generator outputs of this request not yet accounted for
  pres : Pres                    -- what the request (still) presents
  genId : Option Bytes := none   -- the id a lookup of this request made the server generate
  mw : Option View := none
  mwDestroyed : Bool := false
  cur : SCur := .none

/-- observation of one request -/
structure Obs where
  acts : List AObs
  outCk : Option (Option Bytes)
  outHd : Option Bytes
  gens : List Bytes
  keys : List Bytes              -- live storage keys after the request
  status : Nat := 200
  deriving Repr, DecidableEq

/-- what the harness records of a served request -/
def Resp.toObs (r : Resp) : Obs :=
  { acts := r.acts, outCk := r.outCk, outHd := r.outHd, gens := r.gens, keys := r.keys, status := 200 }

def Req.pres (q : Req) : Pres := { ck := q.ck, hd := q.hd, qr := q.qr }

def presentedId (cfg : Cfg) (q : Pres) : Bytes :=
  if q.ck ≠ [] then q.ck
  else match cfg.source with
    | .header => q.hd
    | .query => q.qr
    | .cookie => []

/-- `Destroy` / `Reset` of a request-bound session: the request no longer presents the session cookie
    (the header, for a header source) -/
def withdraw (cfg : Cfg) (p : Pres) : Pres :=
  if cfg.source = .header then { p with hd := [] } else { p with ck := [] }

/-- saving a request-bound session with a header source: the request header now carries its id -/
def represent (cfg : Cfg) (p : Pres) (id : Bytes) : Pres :=
  if cfg.source = .header then { p with hd := id } else p

/-- the id a lookup of this request uses -/
def SReq.lookupId (cfg : Cfg) (r : SReq) : Bytes :=
  match r.genId with
  | some g => g
  | none => presentedId cfg r.pres

/-- a new session under the next server-generated id -/
def freshView (cfg : Cfg) (r : SReq) : Except String (SReq × View) :=
  match r.gens with
  | [] => .error "fresh-session-needs-server-generated-id"
  | g :: rest =>
    if g = [] then .error "empty-session-id"
    else if r.s.issued.contains g then .error "generated-id-not-unique"
    else .ok ({ r with gens := rest, s := { r.s with issued := r.s.issued ++ [g] } },
              { id := g, data := [], fresh := true,
                abs := if cfg.abs > 0 then some (r.s.now + cfg.abs) else none })

/-- a lookup of the request's session: last saved data if live, else a fresh session. An id the server
    generated during this very request is reported Fresh and (re)starts its absolute lifetime; a live id
    past its absolute deadline is reset (the request stops presenting it). -/
def loadView (cfg : Cfg) (r : SReq) : Except String (SReq × View) :=
  let p := r.lookupId cfg
  let mine := r.genId.isSome
  match (if p = [] then none else lookup r.s.sessions p) with
  | some e =>
    let idleOK := decide (r.s.now < e.idleDeadline)
    if idleOK && ((mine && decide (cfg.abs > 0)) || e.absOK r.s.now) then
      .ok (r, { id := p, data := e.data, fresh := mine,
                abs := if mine && decide (cfg.abs > 0) then some (r.s.now + cfg.abs) else e.absDeadline })
    else if idleOK then do
      let (r, v) ← freshView cfg { r with s := { r.s with sessions := erase r.s.sessions p },
                                          pres := withdraw cfg r.pres }
      pure (r, v)
    else do
      let (r, v) ← freshView cfg { r with s := { r.s with sessions := erase r.s.sessions p } }
      pure ({ r with genId := some v.id }, v)
  | none => do
    let (r, v) ← freshView cfg r
    pure ({ r with genId := some v.id }, v)

def SReq.view (r : SReq) : Option View :=
  match r.cur with
  | .none => none
  | .mw => r.mw
  | .other v => some v

def SReq.putView (r : SReq) (v : View) : SReq :=
  match r.cur with
  | .none => r
  | .mw => { r with mw := some v }
  | .other _ => { r with cur := .other v }

def saveView (cfg : Cfg) (r : SReq) (v : View) : SReq × View :=
  let ttl := match v.idle with | some d => d | none => cfg.idle
  let e : SEntry := { data := v.data, idleDeadline := r.s.now + ttl, absDeadline := v.abs }
  ({ r with s := { r.s with sessions := put r.s.sessions v.id e } }, { v with idle := some ttl })

def sortBytes (l : List Bytes) : List Bytes :=
  let lt (a b : Bytes) : Bool := toHex a < toHex b
  let rec ins (x : Bytes) : List Bytes → List Bytes
    | [] => [x]
    | y :: ys => if lt x y then x :: y :: ys else y :: ins x ys
  l.foldr ins []

/-- one handler action: check its observation, update the abstract state -/
def specAct (cfg : Cfg) (viaMw : Bool) (_q : Req) (r : SReq) (a : Act) (o : AObs) : Except String SReq :=
  match a with
  | .storeGet =>
    if viaMw then (if o = .err .loaded then .ok r else .error "store.Get-behind-middleware")
    else do
      let (r, v) ← loadView cfg r
      if o ≠ .ok then throw "store.Get-failed"
      pure { r with cur := .other v }
  | .byID id =>
    match (if id = [] then none else lookup r.s.sessions id) with
    | some e =>
      if e.live r.s.now then
        if o = .ok then .ok { r with cur := .other { id := id, data := e.data, fresh := false, abs := e.absDeadline, ctx := false } }
        else .error "GetByID-misses-live-session"
      else if o = .err .notFound then .ok { r with s := { r.s with sessions := erase r.s.sessions id } }
      else .error "GetByID-yields-expired-session"
    | none =>
      if o = .err (if id = [] then .empty else .notFound) then .ok r else .error "GetByID-yields-unknown-session"
  | .storeDelete id =>
    if id = [] then (if o = .err .empty then .ok r else .error "store.Delete-empty-id")
    else .ok { r with s := { r.s with sessions := erase r.s.sessions id } }
  | .storeReset => .ok { r with s := { r.s with sessions := [] } }
  | _ =>
    match r.view with
    | none => if o = .bang then .ok r else .error "action-without-session"
    | some v =>
      match a with
      | .info =>
        match o with
        | .info id fr =>
          if id ≠ v.id then .error "handler-sees-wrong-session-id"
          else if fr ≠ v.fresh then .error "handler-sees-wrong-fresh-flag"
          else .ok r
        | _ => .error "observation-shape"
      | .get k => if o = .val (lookup v.data k) then .ok r else .error "handler-sees-data-not-last-saved"
      | .set k val => .ok (r.putView { v with data := put v.data k val })
      | .del k => .ok (r.putView { v with data := erase v.data k })
      | .keys =>
        match o with
        | .keys ks _ =>
          if sortBytes ks = sortBytes (v.data.map (·.1)) then .ok r else .error "handler-sees-keys-not-last-saved"
        | _ => .error "observation-shape"
      | .destroy =>
        let r := { r with s := { r.s with sessions := erase r.s.sessions v.id },
                          pres := if v.ctx then withdraw cfg r.pres else r.pres }
        let r := r.putView { v with data := [], destroyed := true }
        .ok (if r.cur = .mw then { r with mwDestroyed := true } else r)
      | .regenerate => do
        let r := { r with s := { r.s with sessions := erase r.s.sessions v.id } }
        let (r, nv) ← freshView cfg r
        pure (r.putView { v with id := nv.id, fresh := true })
      | .reset => do
        let r := { r with s := { r.s with sessions := erase r.s.sessions v.id },
                          pres := if v.ctx then withdraw cfg r.pres else r.pres }
        let (r, nv) ← freshView cfg r
        pure (r.putView { nv with ctx := v.ctx })
      | .idle secs => .ok (r.putView { v with idle := if secs > 0 then some secs.toNat else none })
      | .save =>
        if r.cur = .mw then .ok r
        else if v.destroyed then .error "outside-domain: Save after Destroy"
        else
          let (r, v) := saveView cfg r v
          let r := { r with pres := if v.ctx then represent cfg r.pres v.id else r.pres }
          .ok (r.putView v)
      | .release => if r.cur = .mw then .ok r else .ok { r with cur := .none }
      | _ => .error "observation-shape"

def specScript (cfg : Cfg) (viaMw : Bool) (q : Req) : SReq → List Act → List AObs → Except String SReq
  | r, [], [] => .ok r
  | r, a :: as, o :: os => do
    let r ← specAct cfg viaMw q r a o
    specScript cfg viaMw q r as os
  | _, _, _ => .error "observation-shape"

def sameSet (a b : List Bytes) : Bool := sortBytes a = sortBytes b

/-- the request starts: behind the middleware the session the request presents is loaded -/
def specStart (cfg : Cfg) (s : SpecSt) (q : Req) (gens : List Bytes) : Except String SReq :=
  let r : SReq := { s := s, gens := gens, pres := q.pres }
  if q.viaMw then do
    let (r, v) ← loadView cfg r
    pure { r with mw := some v, cur := .mw }
  else pure r

/-- the request ends: the middleware saves its session unless the handler destroyed it, and the reply
    carries the id -/
def specFinish (cfg : Cfg) (r : SReq) (o : Obs) : Except String SReq :=
  match r.mw with
  | some v =>
    if r.mwDestroyed then pure r
    else
      let (r, v) := saveView cfg { r with cur := .mw } v
      let carried := if cfg.source = .header then o.outHd = some v.id else o.outCk = some (some v.id)
      if !carried then throw "reply-does-not-carry-session-id" else pure r
  | none => pure r

/-- what must hold of the reply and the storage after the request -/
def specEnd (s : SpecSt) (o : Obs) : Except String SpecSt := do
  -- ids handed to the client were generated by the server
  match o.outCk with
  | some (some v) => if !(s.issued.contains v) then throw "reply-carries-id-not-issued"
  | _ => pure ()
  match o.outHd with
  | some v => if !(s.issued.contains v) then throw "reply-carries-id-not-issued"
  | none => pure ()
  -- the storage holds exactly the saved, idle-unexpired sessions, under server-generated ids
  if !(o.keys.all s.issued.contains) then throw "storage-key-was-not-issued"
  let expect := (s.sessions.filter fun e => decide (s.now < e.2.idleDeadline)).map (·.1)
  if !(o.keys.all expect.contains) then throw "storage-holds-session-that-should-be-gone"
  if !(expect.all o.keys.contains) then throw "saved-session-missing-from-storage"
  return s

/-- one request -/
def specReq (cfg : Cfg) (s : SpecSt) (q : Req) (o : Obs) : Except String SpecSt := do
  if o.status ≠ 200 then throw "request-failed"
  let r ← specStart cfg s q o.gens
  let r ← specScript cfg q.viaMw q r q.script o.acts
  let r ← specFinish cfg r o
  specEnd r.s o

def specRun (cfg : Cfg) : SpecSt → List Op → List (Option Obs) → Option String
  | _, [], _ => none
  | s, .adv d :: ops, _ :: obs => specRun cfg { s with now := s.now + d } ops obs
  | s, .req q :: ops, some o :: obs =>
    match specReq cfg s q o with
    | .error e => some e
    | .ok s' => specRun cfg s' ops obs
  | _, _, _ => some "observation-shape"

/-! ### the domain of the oracle, syntactically (see Domain.lean: inside it the oracle never answers
    `outside-domain`) -/

/-- is the action allowed when `d` (= `Destroy` was already called in this request)? -/
def actAllowed (d : Bool) : Act → Bool
  | .save => !d
  | _ => true

def nextD (d : Bool) : Act → Bool
  | .destroy => true
  | _ => d

def scriptInDomain : Bool → List Act → Bool
  | _, [] => true
  | d, a :: as => actAllowed d a && scriptInDomain (nextD d a) as

def Op.inDomain : Op → Bool
  | .adv _ => true
  | .req q => scriptInDomain false q.script

end C15
