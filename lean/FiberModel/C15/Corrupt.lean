import FiberModel.C15.Spec
/-
C15 — stored blobs that FAIL TO DECODE (the decode-error paths of store.go `getSession` / `GetByID`).

History operation `corrupt id`: the blob stored under a live id is replaced by bytes `gob` cannot decode
(the harness truncates / damages the valid blob inside its last entry, so the decoder has already put the
earlier entries INTO THE MAP OF THE POOLED `Session` when it fails; or writes garbage that fails at once).
The expiry of the storage entry is kept.

What the real code does with such an id (store.go, middleware.go), transcribed here:
* `getSession`: `Storage.Get(id)` ≠ nil, so no id is generated and `Locals` is not written; a `Session` is
  taken from the pool, `decodeSessionData` fails, `sess.Release()` (= `releaseSession`: `data.Reset()`, then
  `sessionPool.Put`), the error is returned. `store.Get` returns that error; the middleware's `initialize`
  panics with it (no recover in fiber: the request dies, no handler runs, no reply header is written).
* `GetByID`: the same — acquire, failed decode, `Release`, error.
* Nothing is written to the storage (the damaged entry stays until it expires or is deleted).

`failedLoad` is exactly that: `acquire` then `release` — the only trace is in the pool, which again holds
only empty maps. The model keeps the set `bad` of ids whose blob was damaged; an id matters only while
its storage entry is live (`isBad`).
-/
namespace C15
open B

/-- observation of one handler action: as before, or the decode error of `store.Get` / `GetByID` -/
inductive XAObs where
  | plain (o : AObs)
  | decodeErr
  deriving Repr, DecidableEq

structure XSt where
  st : St := {}
  bad : List Bytes := []      -- ids whose stored blob was damaged

def isBad (bad : List Bytes) (st : St) (id : Bytes) : Bool := bad.contains id && (st.get id).isSome

def nobody : Sess := { id := [], data := SData.empty, fresh := true }

/-- decode-error path: `acquireSession()`, failed `decodeSessionData`, `sess.Release()` -/
def failedLoad (c : RCtx) : RCtx := release (acquire c).1 nobody

/-- one handler action when some stored blobs are damaged -/
def xact (cfg : Cfg) (gen : Nat → Bytes) (bad : List Bytes) (h : HSt) (a : Act) : HSt × XAObs :=
  match a with
  | .storeGet =>
    if h.mw.isNone && isBad bad h.c.st (lookupId cfg h.c) then ({ h with c := failedLoad h.c }, .decodeErr)
    else ((act cfg gen h a).1, .plain (act cfg gen h a).2)
  | .byID id =>
    if isBad bad h.c.st id then ({ h with c := failedLoad h.c }, .decodeErr)
    else ((act cfg gen h a).1, .plain (act cfg gen h a).2)
  | _ => ((act cfg gen h a).1, .plain (act cfg gen h a).2)

def xrunScript (cfg : Cfg) (gen : Nat → Bytes) (bad : List Bytes) : HSt → List Act → HSt × List XAObs
  | h, [] => (h, [])
  | h, a :: as =>
    let (h, o) := xact cfg gen bad h a
    let (h, os) := xrunScript cfg gen bad h as
    (h, o :: os)

/-- reply of a request: the middleware's `initialize` panicked, or the request was served -/
structure XResp where
  panicked : Bool := false
  acts : List XAObs := []
  outCk : Option (Option Bytes) := none
  outHd : Option Bytes := none
  gens : List Bytes := []
  keys : List Bytes := []
  deriving Repr, DecidableEq

def reqCtx (st : St) (q : Req) : RCtx := { st := st, ck := q.ck, hd := q.hd, qr := q.qr }

/-- one request -/
def xhandle (cfg : Cfg) (gen : Nat → Bytes) (x : XSt) (q : Req) : XSt × XResp :=
  if q.viaMw && isBad x.bad x.st (getSessionID cfg (reqCtx x.st q)) then
    ({ x with st := (failedLoad (reqCtx x.st q)).st }, { panicked := true })
  else
    let h := (xrunScript cfg gen x.bad (startReq cfg gen x.st q) q.script).1
    let os := (xrunScript cfg gen x.bad (startReq cfg gen x.st q) q.script).2
    let c := if q.viaMw then mwFinish cfg h else h.c
    ({ x with st := c.st },
     { acts := os, outCk := c.outCk, outHd := c.outHd, gens := gensBetween gen x.st.nid c.st.nid, keys := c.st.liveKeys })

inductive XOp where
  | base (o : Op)
  | corrupt (id : Bytes)

inductive XOut where
  | none                       -- time passed
  | corrupted (hit : Bool)     -- was there a live entry to damage?
  | resp (r : XResp)
  deriving Repr, DecidableEq

def xstep (cfg : Cfg) (gen : Nat → Bytes) (x : XSt) : XOp → XSt × XOut
  | .base (.adv d) => ({ x with st := { x.st with now := x.st.now + d } }, .none)
  | .base (.req q) => ((xhandle cfg gen x q).1, .resp (xhandle cfg gen x q).2)
  | .corrupt id =>
    if (x.st.get id).isSome then ({ x with bad := id :: x.bad }, .corrupted true) else (x, .corrupted false)

def xrun (cfg : Cfg) (gen : Nat → Bytes) : XSt → List XOp → XSt × List XOut
  | x, [] => (x, [])
  | x, o :: os =>
    let (x', r) := xstep cfg gen x o
    let (x'', rs) := xrun cfg gen x' os
    (x'', r :: rs)

/-! ## the oracle

A damaged blob is a storage fault, not a session the sentence speaks about; the oracle fixes what the
sentence implies around it: the load of a damaged live session is REFUSED (error / failed request: the
handler sees neither the damaged data nor a silently fresh session under the same id), it changes nothing
(same table, no id generated, nothing written), and — this is what the clauses "otherwise it sees an
empty fresh session" and "data of different sessions never mix" demand of every LATER request — all
other requests are judged by the unchanged oracle against the unchanged table: a fresh session must be
empty, an existing one must show exactly its own last saved keys and values. -/

structure XSpecSt where
  s : SpecSt := {}
  bad : List Bytes := []

def sIsBad (bad : List Bytes) (s : SpecSt) (id : Bytes) : Bool :=
  bad.contains id && id ≠ [] &&
    match lookup s.sessions id with
    | some e => decide (s.now < e.idleDeadline)
    | none => false

def xspecAct (cfg : Cfg) (viaMw : Bool) (q : Req) (bad : List Bytes) (r : SReq) (a : Act) (o : XAObs) :
    Except String SReq :=
  let plain : Except String SReq :=
    match o with
    | .plain o' => specAct cfg viaMw q r a o'
    | .decodeErr => .error "load-refused-though-stored-session-is-intact"
  match a with
  | .storeGet =>
    if !viaMw && sIsBad bad r.s (r.lookupId cfg) then
      (if o = .decodeErr then .ok r else .error "damaged-session-was-loaded")
    else plain
  | .byID id =>
    if sIsBad bad r.s id then (if o = .decodeErr then .ok r else .error "damaged-session-was-loaded")
    else plain
  | _ => plain

def xspecScript (cfg : Cfg) (viaMw : Bool) (q : Req) (bad : List Bytes) :
    SReq → List Act → List XAObs → Except String SReq
  | r, [], [] => .ok r
  | r, a :: as, o :: os => do
    let r ← xspecAct cfg viaMw q bad r a o
    xspecScript cfg viaMw q bad r as os
  | _, _, _ => .error "observation-shape"

structure XObs where
  panicked : Bool := false
  status : Nat := 200
  acts : List XAObs := []
  outCk : Option (Option Bytes) := none
  outHd : Option Bytes := none
  gens : List Bytes := []
  keys : List Bytes := []
  deriving Repr, DecidableEq

def XObs.base (o : XObs) : Obs :=
  { acts := [], outCk := o.outCk, outHd := o.outHd, gens := o.gens, keys := o.keys, status := o.status }

def XResp.toObs (r : XResp) : XObs :=
  { panicked := r.panicked, acts := r.acts, outCk := r.outCk, outHd := r.outHd, gens := r.gens, keys := r.keys }

def xspecReq (cfg : Cfg) (x : XSpecSt) (q : Req) (o : XObs) : Except String SpecSt :=
  if q.viaMw && sIsBad x.bad x.s (presentedId cfg q.pres) then
    (if o.panicked then .ok x.s else .error "damaged-session-was-loaded")
  else do
    if o.panicked || o.status ≠ 200 then throw "request-failed"
    let r ← specStart cfg x.s q o.gens
    let r ← xspecScript cfg q.viaMw q x.bad r q.script o.acts
    let r ← specFinish cfg r o.base
    specEnd r.s o.base

def specLive (s : SpecSt) (id : Bytes) : Bool :=
  id ≠ [] && match lookup s.sessions id with
    | some e => decide (s.now < e.idleDeadline)
    | none => false

/-- what the harness records per operation -/
inductive XSeen where
  | corrupted (hit : Bool)
  | obs (o : XObs)
  deriving Repr, DecidableEq

def XOut.seen : XOut → Option XSeen
  | .none => Option.none
  | .corrupted hit => some (.corrupted hit)
  | .resp r => some (.obs r.toObs)

def xobsOf : List XOut → List (Option XSeen) := List.map XOut.seen

def xspecRun (cfg : Cfg) : XSpecSt → List XOp → List (Option XSeen) → Option String
  | _, [], _ => none
  | x, .base (.adv d) :: ops, _ :: obs => xspecRun cfg { x with s := { x.s with now := x.s.now + d } } ops obs
  | x, .base (.req q) :: ops, some (.obs o) :: obs =>
    match xspecReq cfg x q o with
    | .error e => some e
    | .ok s' => xspecRun cfg { x with s := s' } ops obs
  | x, .corrupt id :: ops, some (.corrupted hit) :: obs =>
    if hit ≠ specLive x.s id then some "corrupt-op-hit-differs-from-table"
    else xspecRun cfg (if hit then { x with bad := id :: x.bad } else x) ops obs
  | _, _, _ => some "observation-shape"

end C15
