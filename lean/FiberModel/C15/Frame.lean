import FiberModel.C15.Dead
/-
C15 — frame rules: an action only ever changes the storage entry of the session it works on (or the id it
names); what the storage yields for every other id is untouched. Also: what `getSession` / `GetByID`
return in terms of the storage, for any state whose pooled objects are clean.
-/
namespace C15
open B

/-- the ids whose storage entry an action may change: the handler's current session, an id the action
    names (`GetByID`, `store.Delete`), the id the request presents (`store.Get`); `store.Reset` drops all -/
def touches (cfg : Cfg) (h : HSt) (a : Act) (y : Bytes) : Prop :=
  match a with
  | .storeGet => lookupId cfg h.c = y
  | .byID x => x = y
  | .storeDelete x => x = y
  | .storeReset => True
  | _ => ∃ s, h.sess = some s ∧ s.id = y

section frame
variable {cfg : Cfg} {gen : Nat → Bytes}

theorem get_nid (st : St) (n : Nat) (y : Bytes) : ({ st with nid := n } : St).get y = st.get y := rfl

theorem frame_save (c : RCtx) {s : Sess} {y : Bytes} (h : y ≠ s.id) :
    (sessSave cfg c s).1.st.get y = c.st.get y := by
  rw [sessSave_st, get_set_ne _ h]

theorem frame_destroy (c : RCtx) {s : Sess} {y : Bytes} (h : y ≠ s.id) :
    (sessDestroy cfg c s).1.st.get y = c.st.get y := by
  rw [sessDestroy_st, get_del_ne _ h]

theorem frame_regenerate (c : RCtx) {s : Sess} {y : Bytes} (h : y ≠ s.id) :
    (sessRegenerate gen c s).1.st.get y = c.st.get y := by
  rw [sessRegenerate_st, get_nid, get_del_ne _ h]

theorem frame_reset (c : RCtx) {s : Sess} {y : Bytes} (h : y ≠ s.id) :
    (sessReset cfg gen c s).1.st.get y = c.st.get y := by
  rw [sessReset_st, get_nid, get_del_ne _ h]

theorem frame_acquire (c : RCtx) (y : Bytes) : (acquire c).1.st.get y = c.st.get y := by
  obtain ⟨_, h2, h3, _, _⟩ := acquire_spec c
  exact get_congr h2 h3 y

theorem frame_finishLoad (c : RCtx) {s : Sess} {y : Bytes} (h : y ≠ s.id) :
    (finishLoad cfg gen c s).1.st.get y = c.st.get y := by
  unfold finishLoad
  split
  · rfl
  · split
    · exact frame_reset (gen := gen) c h
    · rfl

theorem frame_getSession (c : RCtx) (hp : PoolEmpty c.st) {y : Bytes} (h : y ≠ lookupId cfg c) :
    (getSession cfg gen c).1.st.get y = c.st.get y := by
  cases hg : c.st.get (lookupId cfg c) with
  | none =>
    rw [getSession_none hg]
    have hpe : (acquire (afterNew gen c)).2 = SData.empty := by
      rcases (acquire_spec (afterNew gen c)).2.2.2.2 with h1 | h1
      · exact h1
      · rw [afterNew_st] at h1; exact hp _ h1
    rw [hpe]
    unfold finishLoad
    split
    · rw [frame_acquire, afterNew_st, get_nid]
    · split
      · rename_i hexp
        simp [absExpired, SData.empty] at hexp
      · rw [frame_acquire, afterNew_st, get_nid]
  | some blob =>
    rw [getSession_some hg, frame_finishLoad _ h, frame_acquire]

theorem frame_getByID (c : RCtx) {x y : Bytes} (h : y ≠ x) : (getByID cfg c x).1.st.get y = c.st.get y := by
  unfold getByID
  split
  · rfl
  · cases hg : c.st.get x with
    | none => rfl
    | some blob =>
      simp only
      split
      · rw [frame_destroy _ h, frame_acquire]
      · rw [frame_acquire]

/-- sessions do not mix in the storage: whatever the handler does, the entry of an id it does not work on
    (and does not name) yields exactly what it yielded before -/
theorem act_frame (h : HSt) (hp : PoolEmpty h.c.st) (a : Act) (y : Bytes) (hnt : ¬ touches cfg h a y) :
    (act cfg gen h a).1.c.st.get y = h.c.st.get y := by
  cases a with
  | storeGet =>
    simp only [act]
    split
    · rfl
    · exact frame_getSession h.c hp (fun e => hnt e.symm)
  | byID x =>
    simp only [act]
    have := frame_getByID (cfg := cfg) h.c (x := x) (y := y) (fun e => hnt e.symm)
    split
    · rename_i c e heq
      have hc : (getByID cfg h.c x).1 = c := by rw [heq]
      rw [← hc]; exact this
    · rename_i c s heq
      have hc : (getByID cfg h.c x).1 = c := by rw [heq]
      rw [← hc]; exact this
  | storeDelete x =>
    simp only [act]
    split
    · rfl
    · exact get_del_ne _ (fun e => hnt e.symm)
  | storeReset => exact absurd trivial hnt
  | info | get k | keys =>
    simp only [act]
    split <;> rfl
  | set k v | del k | idle secs =>
    simp only [act]
    split
    · rfl
    · simp
  | destroy =>
    simp only [act]
    split
    · rfl
    · rename_i s hs
      have hy : y ≠ s.id := fun e => hnt ⟨s, hs, e.symm⟩
      split <;> simp [frame_destroy h.c hy]
  | regenerate =>
    simp only [act]
    split
    · rfl
    · rename_i s hs
      have hy : y ≠ s.id := fun e => hnt ⟨s, hs, e.symm⟩
      simp [frame_regenerate h.c hy]
  | reset =>
    simp only [act]
    split
    · rfl
    · rename_i s hs
      have hy : y ≠ s.id := fun e => hnt ⟨s, hs, e.symm⟩
      simp [frame_reset h.c hy]
  | save =>
    simp only [act]
    split
    · rfl
    · rename_i s hs
      have hy : y ≠ s.id := fun e => hnt ⟨s, hs, e.symm⟩
      split
      · rfl
      · simp [frame_save h.c hy]
  | release =>
    simp only [act]
    split
    · rfl
    · split
      · rfl
      · exact get_congr rfl rfl y

/-! ### what a load returns, in terms of the storage (pooled objects clean) -/

theorem acquire_empty {c : RCtx} (hp : PoolEmpty c.st) : (acquire c).2 = SData.empty := by
  rcases (acquire_spec c).2.2.2.2 with h1 | h1
  · exact h1
  · exact hp _ h1

theorem absExpired_merge_empty (now : Nat) (blob : SData) :
    absExpired now (SData.empty.merge blob) = absExpired now blob := by
  unfold absExpired
  rw [merge_empty_abs]

/-- the presented id is live and within its absolute lifetime: the handler gets that id, not fresh, and
    exactly the stored data (every key, and the absolute deadline); no id is generated -/
theorem getSession_live (c : RCtx) (hp : PoolEmpty c.st) (hloc : c.locals = none) {blob : SData}
    (hg : c.st.get (getSessionID cfg c) = some blob) (hexp : absExpired c.st.now blob = false) :
    (getSession cfg gen c).2.id = getSessionID cfg c ∧ (getSession cfg gen c).2.fresh = false ∧
    (∀ k, lookup (getSession cfg gen c).2.data.kv k = lookup blob.kv k) ∧
    (getSession cfg gen c).2.data.abs = blob.abs ∧ (getSession cfg gen c).1.st.nid = c.st.nid := by
  have hl := lookupId_of_locals_none (cfg := cfg) hloc
  rw [← hl] at hg
  rw [getSession_some hg, acquire_empty hp, hloc]
  have hnow : (acquire c).1.st.now = c.st.now := (acquire_spec c).2.2.1
  have : finishLoad cfg gen (acquire c).1
      { id := lookupId cfg c, data := SData.empty.merge blob, fresh := (none : Option Bytes).isSome } =
      ((acquire c).1, { id := lookupId cfg c, data := SData.empty.merge blob, fresh := false }) := by
    unfold finishLoad
    simp [hnow, absExpired_merge_empty, hexp]
  rw [this]
  exact ⟨hl, rfl, merge_empty_lookup blob, merge_empty_abs blob, (acquire_spec c).1⟩

/-- the presented id yields nothing (unknown, forged, empty, destroyed, idle-expired): the handler gets an
    empty fresh session under the next id of the server's generator -/
theorem getSession_dead (c : RCtx) (hp : PoolEmpty c.st) (hloc : c.locals = none)
    (hg : c.st.get (getSessionID cfg c) = none) :
    (getSession cfg gen c).2.id = gen c.st.nid ∧ (getSession cfg gen c).2.fresh = true ∧
    (getSession cfg gen c).2.data.kv = [] ∧
    (getSession cfg gen c).2.data.abs = (if cfg.abs > 0 then some (c.st.now + cfg.abs) else none) ∧
    (getSession cfg gen c).1.st.nid = c.st.nid + 1 := by
  have hl := lookupId_of_locals_none (cfg := cfg) hloc
  rw [← hl] at hg
  have hpe : (acquire (afterNew gen c)).2 = SData.empty := by
    apply acquire_empty; rw [afterNew_st]; exact hp
  have hnow : (acquire (afterNew gen c)).1.st.now = c.st.now := by
    rw [(acquire_spec (afterNew gen c)).2.2.1, afterNew_st]
  have hnid : (acquire (afterNew gen c)).1.st.nid = c.st.nid + 1 := by
    rw [(acquire_spec (afterNew gen c)).1, afterNew_st]
  rw [getSession_none hg, hpe]
  unfold finishLoad
  by_cases ha : cfg.abs > 0
  · simp [ha, hnow, hnid, SData.empty]
  · simp [ha, hnid, absExpired, SData.empty]

/-- the presented id is live but past its absolute deadline: the old entry is deleted and the handler gets
    an empty fresh session under a new id -/
theorem getSession_abs_expired (c : RCtx) (hp : PoolEmpty c.st) (hloc : c.locals = none) {blob : SData}
    (hg : c.st.get (getSessionID cfg c) = some blob) (hexp : absExpired c.st.now blob = true) :
    (getSession cfg gen c).2.id = gen c.st.nid ∧ (getSession cfg gen c).2.fresh = true ∧
    (getSession cfg gen c).2.data.kv = [] ∧
    (getSession cfg gen c).2.data.abs = some (c.st.now + cfg.abs) ∧
    (getSession cfg gen c).1.st.get (getSessionID cfg c) = none := by
  have hl := lookupId_of_locals_none (cfg := cfg) hloc
  rw [← hl] at hg ⊢
  rw [getSession_some hg, acquire_empty hp, hloc]
  have hnow : (acquire c).1.st.now = c.st.now := (acquire_spec c).2.2.1
  have hnid : (acquire c).1.st.nid = c.st.nid := (acquire_spec c).1
  unfold finishLoad
  simp only [Option.isSome_none, Bool.false_and, Bool.false_eq_true, if_false, hnow, absExpired_merge_empty, hexp,
    if_true]
  rw [sessReset_snd, sessReset_st]
  refine ⟨by simp [hnid], rfl, rfl, by simp [hnow], ?_⟩
  exact (get_nid _ _ _).trans (get_del_self _ _)

/-- `GetByID` of a live, unexpired id: exactly the stored data -/
theorem getByID_live (c : RCtx) (hp : PoolEmpty c.st) {x : Bytes} {blob : SData}
    (hg : c.st.get x = some blob) (hexp : (decide (cfg.abs > 0) && absExpired c.st.now blob) = false) :
    ∃ s, (getByID cfg c x).2 = .ok s ∧ s.id = x ∧ s.fresh = false ∧
      (∀ k, lookup s.data.kv k = lookup blob.kv k) ∧ s.data.abs = blob.abs := by
  have hx : x ≠ [] := (get_some_lookup hg).1
  have hnow : (acquire c).1.st.now = c.st.now := (acquire_spec c).2.2.1
  refine ⟨{ id := x, data := SData.empty.merge blob, fresh := false, hasCtx := false }, ?_, rfl, rfl,
    merge_empty_lookup blob, merge_empty_abs blob⟩
  unfold getByID
  simp only [hx, if_false, hg, acquire_empty hp, hnow, absExpired_merge_empty, hexp, Bool.false_eq_true]

/-- `GetByID` of an id that yields nothing fails -/
theorem getByID_dead (c : RCtx) {x : Bytes} (hg : c.st.get x = none) :
    (getByID cfg c x).2 = .error (if x = [] then .empty else .notFound) ∧ (getByID cfg c x).1 = c := by
  unfold getByID
  by_cases hx : x = []
  · simp [hx]
  · simp [hx, hg]

/-- `GetByID` of an id past its absolute deadline fails and deletes the entry -/
theorem getByID_abs_expired (c : RCtx) (hp : PoolEmpty c.st) {x : Bytes} {blob : SData}
    (hg : c.st.get x = some blob) (hexp : (decide (cfg.abs > 0) && absExpired c.st.now blob) = true) :
    (getByID cfg c x).2 = .error .notFound ∧ (getByID cfg c x).1.st.get x = none := by
  have hx : x ≠ [] := (get_some_lookup hg).1
  have hnow : (acquire c).1.st.now = c.st.now := (acquire_spec c).2.2.1
  unfold getByID
  simp only [hx, if_false, hg, acquire_empty hp, hnow, absExpired_merge_empty, hexp, if_true]
  refine ⟨trivial, ?_⟩
  rw [sessDestroy_st]
  exact get_del_self _ _

end frame

end C15
